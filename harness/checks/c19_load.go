package checks

// C19, parts (a): loader inputs x option vectors — in memory (DATA::()), file backed (cached, INLINE::() and
// "automatic" loads driven by the @@ flags), and generated large files in several encodings.

import (
	"encoding/hex"
	"fmt"
	"os"
	"path/filepath"
	"runtime"
	"runtime/debug"
	"strconv"
	"strings"

	"golang.org/x/text/encoding"
	"golang.org/x/text/encoding/japanese"
	"golang.org/x/text/encoding/unicode"

	"github.com/mithrandie/csvq/lib/parser"
	"github.com/mithrandie/csvq/lib/query"
	"github.com/mithrandie/csvq/lib/value"

	"verif/harness/internal/c19ref"
)

var c19FileName = map[string]string{"csv": "t.csv", "fixed": "t.txt", "ltsv": "t.ltsv", "json": "t.json", "jsonl": "t.jsonl"}

// tableExpr is the documented table object for a format and a way of reaching the bytes.
func c19TableExpr(fmtName, via string) string {
	var src string
	switch via {
	case "data":
		src = "DATA::(@data)"
	case "inline":
		src = "INLINE::(@path)"
	case "file":
		src = "`" + c19FileName[fmtName] + "`"
	case "auto":
		return "`" + c19FileName[fmtName] + "`"
	}
	switch fmtName {
	case "csv":
		return "CSV(@elem, " + src + ", @enc, @nh, @wn)"
	case "fixed":
		return "FIXED(@elem, " + src + ", @enc, @nh, @wn)"
	case "ltsv":
		return "LTSV(" + src + ", @enc, @wn)"
	case "json":
		return "JSON(@elem, " + src + ")"
	case "jsonl":
		return "JSONL(@elem, " + src + ")"
	}
	panic("c19: format " + fmtName)
}

func (r *c19Runner) loadTables(fmtName, via string) []parser.QueryExpression {
	key := "tables:" + fmtName + ":" + via
	if t, ok := r.tables[key]; ok {
		return t
	}
	st := r.parse(key, "SELECT * FROM "+c19TableExpr(fmtName, via)+" x")
	t := st[0].(parser.SelectQuery).SelectEntity.(parser.SelectEntity).FromClause.(parser.FromClause).Tables
	r.tables[key] = t
	return t
}

// loadRaw calls csvq's loader the way a FROM clause does and returns the table object as loaded.
func (r *c19Runner) loadRaw(tables []parser.QueryExpression) (view *query.View, err error, pnc any) {
	defer func() {
		if p := recover(); p != nil {
			pnc = p
			c19LastStack = string(debug.Stack())
		}
	}()
	sc := r.env.Proc.ReferenceScope.CreateNode()
	defer sc.CloseCurrentNode()
	view, err = query.LoadView(r.env.Ctx, sc, tables, false, false)
	return
}

func c19Encode(text, enc string) []byte {
	var e encoding.Encoding
	switch enc {
	case "SJIS":
		e = japanese.ShiftJIS
	case "UTF16LEM":
		e = unicode.UTF16(unicode.LittleEndian, unicode.UseBOM)
	case "UTF16BEM":
		e = unicode.UTF16(unicode.BigEndian, unicode.UseBOM)
	case "UTF16LE":
		e = unicode.UTF16(unicode.LittleEndian, unicode.IgnoreBOM)
	case "UTF16BE":
		e = unicode.UTF16(unicode.BigEndian, unicode.IgnoreBOM)
	case "UTF8M":
		return append([]byte("\xef\xbb\xbf"), text...)
	default:
		return []byte(text)
	}
	b, err := e.NewEncoder().Bytes([]byte(text))
	if err != nil {
		panic(err)
	}
	return b
}

// bigReadEncoding: the --encoding value under which a generated file is read.
func c19BigReadEnc(enc string) string {
	switch enc {
	case "UTF16LEM", "UTF16BEM":
		return "UTF16"
	}
	return enc
}

func (r *c19Runner) setFlag(name, val string) (err error, pnc any) {
	if r.setEnv[name] == val {
		return nil, nil
	}
	_, err, pnc = r.runText("SET @@" + name + " TO " + val + ";")
	if err == nil && pnc == nil {
		r.setEnv[name] = val
	} else {
		delete(r.setEnv, name)
	}
	return
}

func c19Quote(s string) string {
	return "'" + strings.ReplaceAll(strings.ReplaceAll(s, "\\", "\\\\"), "'", "\\'") + "'"
}

func c19Bool(b bool) string {
	if b {
		return "TRUE"
	}
	return "FALSE"
}

func (r *c19Runner) execLoad(cs *c19Case) {
	c := r.c
	var data []byte
	if cs.Big != nil {
		data = c19Encode(c19ref.GenerateText(*cs.Big), cs.Big.Enc)
	} else {
		var err error
		if data, err = hex.DecodeString(cs.Data); err != nil {
			fmt.Fprintln(os.Stderr, "C19: bad hex in case")
			return
		}
	}
	path := filepath.Join(r.dir, c19FileName[cs.Fmt])
	fileBacked := cs.Via != "data"
	if fileBacked {
		if err := os.WriteFile(path, data, 0644); err != nil {
			panic(err)
		}
		defer func() {
			// end the transaction: cached tables and file handles go away, like at the end of a csvq run
			func() {
				defer func() { recover() }()
				_ = r.env.Proc.AutoRollback()
				_ = r.env.Proc.ReleaseResourcesWithErrors()
			}()
			os.Remove(path)
		}()
	}
	r.env.Tx.Flags.ImportOptions.AllowUnevenFields = cs.AU
	if cs.Via == "auto" {
		// documented route: the @@ flags describe every file that is named without a table object
		type fl struct{ name, val string }
		flags := []fl{{"ENCODING", c19Quote(cs.Enc)}, {"NO_HEADER", c19Bool(cs.NH)}, {"WITHOUT_NULL", c19Bool(cs.WN)}, {"ALLOW_UNEVEN_FIELDS", c19Bool(cs.AU)}}
		switch cs.Fmt {
		case "csv":
			flags = append(flags, fl{"DELIMITER", c19Quote(cs.Elem)})
		case "fixed":
			flags = append(flags, fl{"DELIMITER_POSITIONS", c19Quote(cs.Elem)})
		case "json", "jsonl":
			flags = append(flags, fl{"JSON_QUERY", c19Quote(cs.Elem)})
		}
		if cs.Fmt == "ltsv" {
			flags = append(flags, fl{"IMPORT_FORMAT", "'LTSV'"})
		} else {
			flags = append(flags, fl{"IMPORT_FORMAT", "'CSV'"})
		}
		for _, f := range flags {
			err, pnc := r.setFlag(f.name, f.val)
			if err != nil || pnc != nil {
				out := r.judge(cs, "set-flag-"+f.name, err, pnc, false)
				r.evalN(1, 0)
				c.Add("flag_values_rejected", 1)
				c.Observe("load_outcomes", cs.Fmt+":"+out)
				return
			}
		}
	} else {
		r.env.SetVar("elem", value.NewString(cs.Elem))
		r.env.SetVar("enc", value.NewString(cs.Enc))
		r.env.SetVar("nh", value.NewBoolean(cs.NH))
		r.env.SetVar("wn", value.NewBoolean(cs.WN))
		switch cs.Via {
		case "data":
			r.env.SetVar("data", value.NewString(string(data)))
		case "inline":
			r.env.SetVar("path", value.NewString(path))
		}
	}

	if cs.Big != nil {
		// the previous large table is garbage by now; collect it before the address space is asked for the next one
		runtime.GC()
	}
	tables := r.loadTables(cs.Fmt, cs.Via)
	view, err, pnc := r.loadRaw(tables)
	out := r.judge(cs, "load", err, pnc, false)
	c.Observe("load_outcomes", cs.Fmt+":"+out)
	nontrivial := int64(0)
	ncol := -1
	if err == nil && pnc == nil {
		if view == nil {
			c.Violate("load-returned-nothing:"+cs.tableClass(), "the loader returned neither a table nor an error for "+c19JSON(cs), cs)
			r.evalN(1, 0)
			return
		}
		c.Add("loads_ok", 1)
		ncol = len(view.Header)
		c.Max("max_columns_loaded", int64(ncol))
		c.Max("max_records_loaded", int64(len(view.RecordSet)))
		c.Add("records_checked", int64(len(view.RecordSet)))
		if len(view.RecordSet) > 0 {
			nontrivial = 1
		}
		// THE invariant: every record has exactly as many fields as the header
		for i, rec := range view.RecordSet {
			if len(rec) != ncol {
				kind := "short"
				if len(rec) > ncol {
					kind = "long"
				}
				c.Violate("ragged:"+cs.tableClass()+":"+kind+"-record",
					fmt.Sprintf("loaded table is not rectangular: header has %d fields %q, record %d has %d; case %s", ncol, c19HeaderNames(view), i, len(rec), c19JSON(cs)), cs)
				break
			}
			bad := false
			for j := range rec {
				if len(rec[j]) < 1 || rec[j][0] == nil {
					c.Violate("ragged:"+cs.tableClass()+":empty-cell", fmt.Sprintf("record %d field %d of the loaded table holds no value; case %s", i, j, c19JSON(cs)), cs)
					bad = true
					break
				}
			}
			if bad {
				break
			}
		}
		// documented option semantics (command.md): --no-header names the fields c1, c2, ...; --without-null loads no NULL
		if cs.NH && (cs.Fmt == "csv" || cs.Fmt == "fixed") && !strings.HasPrefix(cs.Elem, "S[") && !strings.HasPrefix(cs.Elem, "s[") {
			for i := range view.Header {
				if view.Header[i].Column != "c"+strconv.Itoa(i+1) {
					c.Violate("doc:no-header-names:"+cs.tableClass(), fmt.Sprintf("with no-header the fields must be named c1, c2, ...; got %q; case %s", c19HeaderNames(view), c19JSON(cs)), cs)
					break
				}
			}
		}
		if cs.WN && (cs.Fmt == "csv" || cs.Fmt == "fixed" || cs.Fmt == "ltsv") {
		scan:
			for i, rec := range view.RecordSet {
				for j := range rec {
					if len(rec[j]) > 0 && value.IsNull(rec[j][0]) {
						c.Violate("doc:without-null-loaded-null:"+cs.tableClass(), fmt.Sprintf("with without-null no field may be NULL; record %d field %d is; case %s", i, j, c19JSON(cs)), cs)
						break scan
					}
				}
			}
		}
	} else {
		c.Add("loads_rejected", 1)
	}

	// The same table through whole statements: (1) the last column of every row, addressed by its number
	// (value.md "table_name.column_number"), must be selectable; (2) SELECT * must end cleanly (csvq answers
	// "field ... is ambiguous" for duplicate or empty header names, which is an ordinary error).
	var serr error
	var spnc any
	if cs.Big != nil {
		runtime.GC()
	}
	if ncol >= 1 {
		key := "sel:" + cs.Fmt + ":" + cs.Via + ":" + strconv.Itoa(ncol)
		var views []*query.View
		views, serr, spnc = r.run(r.parse(key, fmt.Sprintf("SELECT x.%d AS c19last FROM %s x", ncol, c19TableExpr(cs.Fmt, cs.Via))))
		sout := r.judge(cs, "select-last-column", serr, spnc, false)
		switch {
		case spnc != nil:
		case serr != nil:
			c.Violate("select-fails-on-loaded-table:"+cs.tableClass()+":"+sout,
				fmt.Sprintf("the table loads (%d columns %q, %d records) but selecting its last column by number fails: %v; case %s", ncol, c19HeaderNames(view), len(view.RecordSet), serr, c19JSON(cs)), cs)
		case len(views) == 1:
			sv := views[0]
			if len(sv.RecordSet) != len(view.RecordSet) {
				c.Violate("select-loses-records:"+cs.tableClass(), fmt.Sprintf("loader returned %d records, SELECT x.%d over the same table %d; case %s", len(view.RecordSet), ncol, len(sv.RecordSet), c19JSON(cs)), cs)
			}
			for i, rec := range sv.RecordSet {
				if len(rec) != 1 || len(sv.Header) != 1 {
					c.Violate("ragged:"+cs.tableClass()+":select-result", fmt.Sprintf("result of SELECT x.%d has header %d, record %d has %d fields; case %s", ncol, len(sv.Header), i, len(rec), c19JSON(cs)), cs)
					break
				}
			}
		}
	}
	if cs.Big == nil || err != nil {
		views, aerr, apnc := r.run(r.parse("all:"+cs.Fmt+":"+cs.Via, fmt.Sprintf("SELECT * FROM %s x", c19TableExpr(cs.Fmt, cs.Via))))
		r.judge(cs, "select-all", aerr, apnc, false)
		if ncol < 1 {
			serr, spnc = aerr, apnc
		}
		if aerr == nil && apnc == nil && len(views) == 1 {
			for i, rec := range views[0].RecordSet {
				if len(rec) != len(views[0].Header) {
					c.Violate("ragged:"+cs.tableClass()+":select-result", fmt.Sprintf("result of SELECT * has header %d, record %d has %d fields; case %s", len(views[0].Header), i, len(rec), c19JSON(cs)), cs)
					break
				}
			}
		}
		if (err != nil) != (aerr != nil) && err != nil && pnc == nil && apnc == nil && !c19IsTimeout(err) {
			c.Violate("load-and-select-disagree:"+cs.tableClass(), fmt.Sprintf("loading directly gives %v, through SELECT * %v; case %s", err, aerr, c19JSON(cs)), cs)
		}
	}
	r.evalN(1, nontrivial)
	if r.verbose {
		fmt.Printf("  load: err=%v panic=%v", err, pnc)
		if view != nil {
			fmt.Printf(" header=%q records=%d", c19HeaderNames(view), len(view.RecordSet))
		}
		fmt.Printf("\n  select: err=%v panic=%v\n", serr, spnc)
	}
	if nontrivial == 1 && r.wantSample() && len(data) < 40 {
		r.sample(map[string]any{"family": "load", "format": cs.Fmt, "via": cs.Via, "input": string(strconvQuote(data)), "element": cs.Elem, "encoding": cs.Enc,
			"no_header": cs.NH, "without_null": cs.WN, "allow_uneven": cs.AU, "header": c19HeaderNames(view), "records": len(view.RecordSet)})
	}
}

func strconvQuote(b []byte) string { return strconv.QuoteToASCII(string(b)) }

func c19HeaderNames(v *query.View) []string {
	h := make([]string, len(v.Header))
	for i := range v.Header {
		h[i] = v.Header[i].Column
	}
	return h
}

// ---- enumerators -----------------------------------------------------------------------------------

type c19Opt struct {
	elem, enc  string
	nh, wn, au bool
}

func c19BoolVectors(withAU bool) [][3]bool {
	var out [][3]bool
	for _, nh := range []bool{false, true} {
		for _, wn := range []bool{false, true} {
			if withAU {
				out = append(out, [3]bool{nh, wn, false}, [3]bool{nh, wn, true})
			} else {
				out = append(out, [3]bool{nh, wn, false})
			}
		}
	}
	return out
}

func (r *c19Runner) encodings() []string {
	if r.c.Thorough() {
		return c19ref.EncodingsAll
	}
	return c19ref.EncodingsQuick
}

// enumStrings runs every (string, option vector) pair for the strings of minLen..maxLen symbols; strings are
// sharded over the workers.
func (r *c19Runner) enumStrings(fmtName, via string, syms []c19ref.Sym, minLen, maxLen int, opts []c19Opt) {
	counter := "input_strings_" + fmtName + "_" + via
	c19ref.Strings(syms, minLen, maxLen, func(idx int64, s string) bool {
		if !r.c.Mine(idx) {
			return true
		}
		if r.expired() {
			return false
		}
		r.c.Add(counter, 1)
		h := c19Hex(s)
		for i := range opts {
			o := &opts[i]
			cs := c19Case{Fam: "load", Fmt: fmtName, Via: via, Data: h, Elem: o.elem, Enc: o.enc, NH: o.nh, WN: o.wn, AU: o.au}
			if r.step(&cs) {
				r.exec(&cs)
			}
		}
		return true
	})
}

func c19Opts(elems, encs []string, bools [][3]bool) []c19Opt {
	var out []c19Opt
	for _, d := range elems {
		for _, e := range encs {
			for _, b := range bools {
				out = append(out, c19Opt{elem: d, enc: e, nh: b[0], wn: b[1], au: b[2]})
			}
		}
	}
	return out
}

var c19BoolsCorner = [][3]bool{{false, false, false}, {false, false, true}, {true, true, false}, {true, true, true}}

func c19EnumLoadCSV(r *c19Runner) {
	th := r.c.Thorough()
	all := c19BoolVectors(true)
	r.c.Info("csv_alphabet", fmt.Sprintf("%q", c19ref.CSVSyms))
	if !th {
		r.c.Info("csv_bounds", "<=3 symbols x {',','a'} x {AUTO,UTF8,UTF16,SJIS} x 8 flag vectors; 4 symbols x ',' x {AUTO,UTF16,SJIS} x 4 flag vectors; 5 symbols over the 7 structural symbols x ',' x AUTO x 8 flag vectors; TSV <=4 symbols")
		r.enumStrings("csv", "data", c19ref.CSVSyms, 0, 3, c19Opts([]string{",", "a"}, c19ref.EncodingsQuick, all))
		r.enumStrings("csv", "data", c19ref.CSVSyms, 4, 4, c19Opts([]string{","}, []string{"AUTO", "UTF16", "SJIS"}, c19BoolsCorner))
		r.enumStrings("csv", "data", c19ref.CSVCore, 5, 5, c19Opts([]string{","}, []string{"AUTO"}, all))
	} else {
		r.c.Info("csv_bounds", "<=4 symbols x 7 delimiters x 9 encodings x 8 flag vectors; 5 symbols x ',' x {AUTO,UTF16,SJIS} x 4 flag vectors; 6 symbols over the 7 structural symbols x ',' x AUTO x 8 flag vectors; TSV <=6 symbols")
		r.enumStrings("csv", "data", c19ref.CSVSyms, 0, 4, c19Opts([]string{",", "a", "\"", " ", "\n", "é", "\t"}, c19ref.EncodingsAll, all))
		r.enumStrings("csv", "data", c19ref.CSVSyms, 5, 5, c19Opts([]string{","}, []string{"AUTO", "UTF16", "SJIS"}, c19BoolsCorner))
		r.enumStrings("csv", "data", c19ref.CSVCore, 6, 6, c19Opts([]string{","}, []string{"AUTO"}, all))
	}
	// invalid delimiter / encoding values
	bad := []c19Opt{{elem: "", enc: "UTF8"}, {elem: ",,", enc: "UTF8"}, {elem: ",", enc: "LATIN1"}, {elem: ",", enc: ""}}
	r.enumStrings("csv", "data", c19ref.CSVSyms, 0, 2, bad)
	// TSV
	tl := 4
	if th {
		tl = 6
	}
	r.enumStrings("csv", "data", c19ref.TSVSyms, 0, tl, c19Opts([]string{"\t"}, []string{"AUTO", "UTF16"}, all))
}

func c19EnumLoadFixed(r *c19Runner) {
	th := r.c.Thorough()
	nb := c19BoolVectors(false)
	r.c.Info("fixed_alphabet", fmt.Sprintf("%q", c19ref.FixedSyms))
	allPos := append(append([]string{}, c19ref.PositionsQuick...), c19ref.PositionsMore...)
	if !th {
		r.c.Info("fixed_bounds", "<=3 symbols x 18 position strings x {UTF8,SJIS,UTF16} x 4 flag vectors; 4 symbols x 18 x UTF8 x 2; 12 more position strings x <=3 symbols x UTF8 x 2")
		r.enumStrings("fixed", "data", c19ref.FixedSyms, 0, 3, c19Opts(c19ref.PositionsQuick, []string{"UTF8", "SJIS", "UTF16"}, nb))
		r.enumStrings("fixed", "data", c19ref.FixedSyms, 4, 4, c19Opts(c19ref.PositionsQuick, []string{"UTF8"}, [][3]bool{{false, false, false}, {true, true, false}}))
		r.enumStrings("fixed", "data", c19ref.FixedSyms, 0, 3, c19Opts(c19ref.PositionsMore, []string{"UTF8"}, [][3]bool{{false, false, false}, {true, true, false}}))
	} else {
		r.c.Info("fixed_bounds", "<=4 symbols x 30 position strings x 9 encodings x 4 flag vectors; 5 symbols x 30 x UTF8 x 2")
		r.enumStrings("fixed", "data", c19ref.FixedSyms, 0, 4, c19Opts(allPos, c19ref.EncodingsAll, nb))
		r.enumStrings("fixed", "data", c19ref.FixedSyms, 5, 5, c19Opts(allPos, []string{"UTF8"}, [][3]bool{{false, false, false}, {true, true, false}}))
	}
}

func c19EnumLoadLTSV(r *c19Runner) {
	th := r.c.Thorough()
	wn := [][3]bool{{false, false, false}, {false, true, false}}
	r.c.Info("ltsv_alphabet", fmt.Sprintf("%q", c19ref.LTSVSyms))
	if !th {
		r.c.Info("ltsv_bounds", "<=4 symbols x {AUTO,UTF8,UTF16,SJIS} x without-null; 5 symbols x AUTO x without-null")
		r.enumStrings("ltsv", "data", c19ref.LTSVSyms, 0, 4, c19Opts([]string{""}, c19ref.EncodingsQuick, wn))
		r.enumStrings("ltsv", "data", c19ref.LTSVSyms, 5, 5, c19Opts([]string{""}, []string{"AUTO"}, wn))
	} else {
		r.c.Info("ltsv_bounds", "<=6 symbols x 9 encodings x without-null")
		r.enumStrings("ltsv", "data", c19ref.LTSVSyms, 0, 6, c19Opts([]string{""}, c19ref.EncodingsAll, wn))
	}
}

var c19JSONDocs = []string{
	`{}`, `[]`, `null`, `1`, `"a"`, `{"a":1}`, `[{"a":1},{"b":[1,{"c":null}]}]`, `{"a":[{"a":{"a":[1,2]}},{"0":"x"}]}`, `[[1,2],[3]]`, `[1,{"a":2},"x",null,[{}]]`,
	`{"a":{"a":{"a":{"a":[{"a":1,"0":2},{"a":3}]}}}}`, `[{"a":1},{"a":1,"a":2}]`, `{"":1}`, `{"a.b":{"[0]":1}}`,
	// empty containers at every depth, and a JSON Lines text whose second line yields nothing for the query
	`{"a":[]}`, `{"a":{}}`, `[[]]`, `{"a":[[]]}`, `{"a":[{}]}`, "{\"a\":[{\"a\":1}]}\n{\"a\":[]}", "{\"a\":{\"a\":1}}\n{\"a\":null}\n{}",
}

func c19EnumLoadJSON(r *c19Runner) {
	th := r.c.Thorough()
	none := [][3]bool{{false, false, false}}
	queries := []string{"", "{}", "a", "[0]", "a[]", "a{}", "[]"}
	r.c.Info("json_alphabet", fmt.Sprintf("%q", c19ref.JSONSyms))
	r.c.Info("jsonl_alphabet", fmt.Sprintf("%q", c19ref.JSONLSyms))
	r.c.Info("json_query_alphabet", fmt.Sprintf("%q", c19ref.JSONQuerySyms))
	// (1) JSON text enumerated, a few queries
	qLen := 3
	if !th {
		r.c.Info("json_bounds", "text <=3 symbols x 7 queries, 4 symbols x 3 queries; query strings <=3 symbols x 21 documents x {JSON,JSONL}, 4 symbols x 4 documents")
		for _, f := range []struct {
			name string
			syms []c19ref.Sym
		}{{"json", c19ref.JSONSyms}, {"jsonl", c19ref.JSONLSyms}} {
			r.enumStrings(f.name, "data", f.syms, 0, 3, c19Opts(queries, []string{"UTF8"}, none))
			r.enumStrings(f.name, "data", f.syms, 4, 4, c19Opts([]string{"", "a", "[0]"}, []string{"UTF8"}, none))
		}
	} else {
		qLen = 5
		r.c.Info("json_bounds", "text <=5 symbols x 7 queries; query strings <=5 symbols x 21 documents x {JSON,JSONL}")
		r.enumStrings("json", "data", c19ref.JSONSyms, 0, 5, c19Opts(queries, []string{"UTF8"}, none))
		r.enumStrings("jsonl", "data", c19ref.JSONLSyms, 0, 5, c19Opts(queries, []string{"UTF8"}, none))
	}
	// (2) query strings enumerated, fixed documents
	docs := make([]string, len(c19JSONDocs))
	for i, d := range c19JSONDocs {
		docs[i] = c19Hex(d)
	}
	enumQ := func(minLen, maxLen int, docs []string) {
		c19ref.Strings(c19ref.JSONQuerySyms, minLen, maxLen, func(idx int64, q string) bool {
			if !r.c.Mine(idx) {
				return true
			}
			if r.expired() {
				return false
			}
			r.c.Add("json_query_strings", 1)
			for _, f := range []string{"json", "jsonl"} {
				for _, d := range docs {
					cs := c19Case{Fam: "load", Fmt: f, Via: "data", Data: d, Elem: q, Enc: "UTF8"}
					if r.step(&cs) {
						r.exec(&cs)
					}
				}
			}
			return true
		})
	}
	enumQ(0, qLen, docs)
	if !th {
		enumQ(4, 4, []string{docs[6], docs[7], docs[9], docs[10]})
	}
}

// file backed: the same enumeration, shorter strings, through the three documented ways of naming a file
func c19EnumLoadFile(r *c19Runner) {
	th := r.c.Thorough()
	all := c19BoolVectors(true)
	nb := c19BoolVectors(false)
	none := [][3]bool{{false, false, false}}
	for _, via := range []string{"file", "inline", "auto"} {
		n := 2
		if via == "file" || th {
			n = 3
		}
		if th && via == "file" {
			n = 4
		}
		r.c.Info("file_backed_max_symbols_"+via, n)
		r.enumStrings("csv", via, c19ref.CSVSyms, 0, n, c19Opts([]string{","}, []string{"AUTO", "UTF16", "SJIS"}, all))
		r.enumStrings("fixed", via, c19ref.FixedSyms, 0, n, c19Opts([]string{"SPACES", "[1,2]", "S[1,3]", "[2,1]", "x"}, []string{"AUTO"}, nb))
		r.enumStrings("ltsv", via, c19ref.LTSVSyms, 0, n, []c19Opt{{enc: "AUTO", wn: true}, {enc: "UTF16"}, {enc: "SJIS"}})
		if via != "auto" { // a .json file named without a table object is covered by "file"; @@JSON_QUERY by the clause family
			r.enumStrings("json", via, c19ref.JSONSyms, 0, n, c19Opts([]string{"", "a", "a["}, []string{"UTF8"}, none))
			r.enumStrings("jsonl", via, c19ref.JSONLSyms, 0, n, c19Opts([]string{"", "a", "a["}, []string{"UTF8"}, none))
		}
	}
}

// large files: more than 300 records so that the size estimate and re-allocation in the record reader run
func c19EnumBig(r *c19Runner) {
	th := r.c.Thorough()
	rows := []int{299, 300, 301, 302, 650}
	if th {
		rows = append(rows, 5000)
	}
	var specs []c19Case
	add := func(b c19ref.BigSpec, via, elem string, nh, wn, au bool) {
		bb := b
		f := b.Format
		if f == "tsv" {
			f = "csv"
		}
		specs = append(specs, c19Case{Fam: "big", Fmt: f, Via: via, Big: &bb, Elem: elem, Enc: c19BigReadEnc(b.Enc), NH: nh, WN: wn, AU: au})
	}
	encs := []string{"UTF8", "SJIS", "UTF16LEM", "UTF16BEM"}
	lbs := []string{"lf", "crlf", "cr"}
	for _, n := range rows {
		for _, enc := range encs {
			for _, lb := range lbs {
				for _, shape := range []string{"uniform", "growing", "shrinking", "sparse-head", "all-empty", "ragged", "ragged-late", "unterminated"} {
					au := shape == "ragged" || shape == "ragged-late"
					add(c19ref.BigSpec{Format: "csv", Shape: shape, Rows: n, LB: lb, Enc: enc}, "file", ",", false, false, au)
					if au {
						add(c19ref.BigSpec{Format: "csv", Shape: shape, Rows: n, LB: lb, Enc: enc}, "file", ",", true, true, false)
					}
				}
				add(c19ref.BigSpec{Format: "tsv", Shape: "uniform", Rows: n, LB: lb, Enc: enc}, "inline", "\t", true, true, false)
				add(c19ref.BigSpec{Format: "tsv", Shape: "sparse-head", Rows: n, LB: lb, Enc: enc}, "data", "\t", false, false, false)
				for _, shape := range []string{"uniform", "growing-header", "sparse-head"} {
					add(c19ref.BigSpec{Format: "ltsv", Shape: shape, Rows: n, LB: lb, Enc: enc}, "file", "", false, shape == "sparse-head", false)
				}
				for _, shape := range []string{"uniform", "short-lines", "multibyte"} {
					for _, p := range []string{"SPACES", "[6,16]", "[3,4,20]"} {
						add(c19ref.BigSpec{Format: "fixed", Shape: shape, Rows: n, LB: lb, Enc: enc}, "file", p, false, false, false)
					}
				}
			}
		}
		for _, lb := range lbs {
			for _, shape := range []string{"uniform", "growing-header", "sparse-head", "late-array"} {
				add(c19ref.BigSpec{Format: "jsonl", Shape: shape, Rows: n, LB: lb, Enc: "UTF8"}, "file", "", false, false, false)
				add(c19ref.BigSpec{Format: "jsonl", Shape: shape, Rows: n, LB: lb, Enc: "UTF8"}, "data", "o", false, false, false)
			}
		}
		add(c19ref.BigSpec{Format: "json", Shape: "uniform", Rows: n, LB: "lf", Enc: "UTF8"}, "file", "", false, false, false)
		add(c19ref.BigSpec{Format: "json", Shape: "array-of-arrays", Rows: n, LB: "lf", Enc: "UTF8"}, "file", "[]", false, false, false)
		add(c19ref.BigSpec{Format: "csv", Shape: "wide", Rows: n * 10, LB: "lf", Enc: "UTF8"}, "file", ",", false, false, false)
		add(c19ref.BigSpec{Format: "csv", Shape: "longfield", Rows: n * 10, LB: "lf", Enc: "UTF8"}, "file", ",", false, false, false)
	}
	// depth instead of length
	for _, n := range []int{1000, 100000, 1000000} {
		for _, shape := range []string{"deep-array", "deep-array-open", "deep-object"} {
			if n > 100000 && !th {
				continue
			}
			add(c19ref.BigSpec{Format: "json", Shape: shape, Rows: n, LB: "lf", Enc: "UTF8"}, "data", "", false, false, false)
		}
	}
	// a file whose size (a few MB) is large against the field bytes seen in the first 300 records
	sparse := []int{20000, 700000}
	for _, n := range sparse {
		add(c19ref.BigSpec{Format: "csv", Shape: "sparse-head", Rows: n, LB: "lf", Enc: "UTF8"}, "file", ",", false, false, false)
		add(c19ref.BigSpec{Format: "csv", Shape: "all-empty", Rows: n, LB: "lf", Enc: "UTF8"}, "file", ",", false, true, false)
		add(c19ref.BigSpec{Format: "ltsv", Shape: "sparse-head", Rows: n, LB: "lf", Enc: "UTF8"}, "file", "", false, false, false)
		add(c19ref.BigSpec{Format: "jsonl", Shape: "sparse-head", Rows: n, LB: "lf", Enc: "UTF8"}, "file", "", false, false, false)
	}
	r.c.Info("big_file_cases", len(specs))
	for i := range specs {
		if !r.c.Mine(int64(i)) {
			continue
		}
		if r.expired() {
			return
		}
		cs := specs[i]
		if r.step(&cs) {
			r.exec(&cs)
		}
	}
}

// c19IsTimeout: lock-wait / context errors (return code 8) depend on the machine's load, not on the input.
func c19IsTimeout(err error) bool {
	if qe, ok := err.(query.Error); ok {
		return qe.Code() == query.ReturnCodeContextDone
	}
	return false
}
