package checks

import (
	"encoding/json"
	"fmt"
	"strings"
	"time"

	"github.com/mithrandie/csvq/lib/query"
	"github.com/mithrandie/csvq/lib/value"

	"verif/harness/internal/core"
	"verif/harness/internal/drv"
	"verif/harness/internal/rv"
)

// Family padding: which blanks at the ends of a text are padding.
//
// The manual does not say which characters around a number, a boolean word or a datetime are ignored; two readings are
// reasonable (the ASCII blanks only, or every Unicode white space), and the reference model takes no side here. Under
// either reading padding is a set of characters removed from both ends, and the ASCII blank U+0020 belongs to it
// (' 1 ' = 1 is TRUE, main family; nothing is assumed about the tab or any other character). Hence the invariant,
// stated on csvq's own answers: adding an ASCII blank to the front, to the back or to both ends of a text changes
// nothing in what the text is taken for - every comparison
// with every partner, every arithmetic result, its ternary value and every cast of it stay the same, whatever
// other (multi-byte) blanks the text carries at its ends. A trimming that looks at one end to decide about the other
// breaks it: '<U+3000>1' = 1 is UNKNOWN while ' <U+3000>1' = 1 is TRUE.
func init() {
	core.Extend("C06", "family padding: 10 cores (integer, float, exponent, boolean words, date, datetime, plain text, empty) x 12 x 12 paddings of the two ends (none, blank, tab, line feed, NEL, NBSP, U+1680, U+2003, U+2028, U+3000, and the non-blanks U+200B, U+FEFF) "+
		"x 15 partners of every value class x (6 relational operators in both operand orders, + and %, the ternary value, the casts INTEGER FLOAT DATETIME BOOLEAN TERNARY); "+
		"oracle (invariant on csvq's own answers): the same answers after an ASCII blank (U+0020) is added before, after or around the text", c06PaddingRun)
}

var c06PadCores = []string{"1", "-5", "1.5", "1e2", "true", "f", "2012-01-01", "2012-01-01 00:00:00", "abc", ""}
var c06Pads = []string{"", " ", "\t", "\n", "\u0085", "\u00a0", "\u1680", "\u2003", "\u2028", "\u3000", "\u200b", "\ufeff"}

func c06PadPartners() []rv.V {
	return []rv.V{
		rv.I(1), rv.I(-5), rv.I(100), rv.Fl(1.5), rv.Fl(1), rv.S("1"), rv.S("1.5"), rv.S("abc"), rv.S("ABD"), rv.S(""), rv.S("true"),
		rv.B(true), rv.Tv(rv.F), rv.D(time.Date(2012, 1, 1, 0, 0, 0, 0, time.UTC)), rv.S("2012-01-01"),
	}
}

type c06PaddingCase struct {
	Family string `json:"family"`
	Text   string `json:"text"`
}

type c06PadObs struct {
	class string // component class for the signature
	name  string
	val   string
}

// everything csvq answers about the text t
func c06PadObserve(env *drv.Env, castStmt string, partners []rv.V, t string) ([]c06PadObs, error) {
	var obs []c06PadObs
	ops := []string{"=", "<>", "<", "<=", ">", ">="}
	for _, p := range partners {
		for _, op := range ops {
			r1 := rv.FromTernary(value.Compare(value.NewString(t), p.Primary(), op, nil, time.UTC))
			r2 := rv.FromTernary(value.Compare(p.Primary(), value.NewString(t), op, nil, time.UTC))
			obs = append(obs, c06PadObs{"comparison", "text " + op + " " + p.Key(), rv.TernName(r1)})
			obs = append(obs, c06PadObs{"comparison", p.Key() + " " + op + " text", rv.TernName(r2)})
		}
		if p.K == rv.Int || p.K == rv.Float {
			for _, op := range []byte{'+', '%'} {
				g, err := query.Calculate(value.NewString(t), p.Primary(), int(op))
				v := ""
				if err != nil {
					v = "error " + err.Error()
				} else {
					v = rv.FromPrimary(g).Key()
				}
				obs = append(obs, c06PadObs{"arithmetic", "text " + string(op) + " " + p.Key(), v})
			}
		}
	}
	obs = append(obs, c06PadObs{"ternary", "ternary value of text", rv.TernName(rv.FromTernary(value.NewString(t).Ternary()))})
	env.SetVar("a", value.NewString(t))
	r := env.Exec(castStmt)
	if r.Err != nil || r.Panic != nil || len(r.Views) != 1 || len(drv.Rows(r.Views[0])) != 1 {
		return nil, fmt.Errorf("%v %v", r.Err, r.Panic)
	}
	for i, v := range drv.Rows(r.Views[0])[0] {
		obs = append(obs, c06PadObs{"cast", c06PadCasts[i] + "(text)", v.Key()})
	}
	return obs, nil
}

var c06PadCasts = []string{"INTEGER", "FLOAT", "DATETIME", "BOOLEAN", "TERNARY"}

func c06PaddingRun(c *core.Ctx) { c06PaddingOver(c, nil) }

func c06PaddingOver(c *core.Ctx, only *c06PaddingCase) {
	env := drv.New(core.Scratch("c06padding"))
	defer env.Close()
	if r := env.Exec("SET @@TIMEZONE TO 'UTC';"); r.Err != nil {
		c.Incomplete("family padding: cannot set the time zone: " + r.Err.Error())
		return
	}
	env.SetVar("a", value.NewNull())
	var parts []string
	for _, f := range c06PadCasts {
		parts = append(parts, f+"(@a)")
	}
	castStmt := "SELECT " + strings.Join(parts, ", ") + ";"
	partners := c06PadPartners()
	var idx int64
	for _, kern := range c06PadCores {
		for _, lp := range c06Pads {
			for _, rp := range c06Pads {
				s := lp + kern + rp
				idx++
				if only != nil {
					if s != only.Text {
						continue
					}
				} else if !c.Mine(idx) {
					continue
				}
				if c.Expired() {
					c.Incomplete("time budget reached inside family padding")
					return
				}
				pay := c06PaddingCase{"padding", s}
				base, err := c06PadObserve(env, castStmt, partners, s)
				if err != nil {
					c.Violate("padding:error", fmt.Sprintf("casting the text %q: %v", s, err), pay)
					continue
				}
				multibyte := len(lp) > 1 || len(rp) > 1
				for _, blank := range []string{" "} {
					for vi, variant := range []string{blank + s, s + blank, blank + s + blank} {
						where := [...]string{"before", "after", "around"}[vi]
						got, err := c06PadObserve(env, castStmt, partners, variant)
						c.EvalN(int64(len(base)), b2i(multibyte)*int64(len(base)))
						if err != nil {
							c.Violate("padding:error", fmt.Sprintf("casting the text %q: %v", variant, err), pay)
							continue
						}
						for i := range base {
							if base[i].val != got[i].val {
								c.Violate("padding:an-ASCII-blank-added-"+where+"-a-text-changes-its-"+base[i].class,
									fmt.Sprintf("text %q and the same text with %q added %s it (%q): %s is %s for the first and %s for the second; padding is not removed independently of the other end of the text",
										s, blank, where, variant, base[i].name, base[i].val, got[i].val), pay)
								break
							}
						}
					}
				}
				if c.WantSample() && multibyte && kern == "1" {
					c.Sample(map[string]any{"family": "padding", "text": s, "text = 1": base[0].val})
				}
			}
		}
	}
}

func c06PaddingReplay(c *core.Ctx, payload json.RawMessage) bool {
	var k c06PaddingCase
	if json.Unmarshal(payload, &k) != nil || k.Family != "padding" {
		return false
	}
	fmt.Printf("replaying family padding: text %q\n", k.Text)
	c06PaddingOver(c, &k)
	return true
}
