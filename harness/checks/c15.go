package checks

import (
	"context"
	"encoding/json"
	"fmt"
	"os"
	"runtime"
	"strings"
	"time"

	"github.com/mithrandie/csvq/lib/option"
	"github.com/mithrandie/csvq/lib/parser"
	"github.com/mithrandie/csvq/lib/query"

	"verif/harness/internal/core"
	"verif/harness/internal/drv"
	sm "verif/harness/internal/scopemodel"
)

// C15 — blocks and function calls give declarations a local lifetime and safe shadowing; control transfers.
//
// Two families of procedures are enumerated exhaustively and each one is executed twice in the same
// process (scope objects are pooled) and compared with the reference interpreter internal/scopemodel:
//
//   tree     every statement forest with at most N nodes over an alphabet of
//            leaves  (declare / change / observe / dispose one object of a kind; EXIT, BREAK, CONTINUE, RETURN, a recursive call)
//            blocks  (run-once IF/ELSEIF/ELSE/CASE forms, never-run forms, WHILE with 2 iterations,
//                     WHILE IN cursor with 2 rows, function declaration + call)
//            for each object kind (variable, cursor, temporary table, function) and for a mixed alphabet;
//   skeleton hand-written deep skeletons (recursion depth 5, double recursion, mutual recursion, loops that
//            return early, many sibling blocks, five nested blocks, one call per row of a query) whose holes are
//            filled with every combination of leaves.

func init() {
	core.Register(&core.Check{
		ID:    "C15",
		Level: "exploration",
		Rule: "one case = one generated procedure (family, object kind, statement forest or skeleton+hole filling, syntactic rotation), executed twice on the same process image " +
			"(pooled scopes are re-issued) and compared with the reference interpreter on PRINT/result output, error class and EXIT flag; cases are enumerated without repetition within a family (tree-mixed repeats the small forests that use a single object kind); " +
			"non-trivial = the reference run shadowed an outer object, resolved a name in an outer scope, dropped a block-local object at block/invocation end, or executed BREAK/CONTINUE/RETURN/EXIT",
		Assume: []string{
			"reference interpreter written from docs/_posts control-flow, variable, cursor, temporary-table, user-defined-function and the property text (internal/scopemodel)",
			"where the manual is silent csvq is followed: a function body runs in a child of the CALLING scope; DISPOSE removes the innermost visible declaration; re-declaration inside one scope is an error",
			"goroutine-schedule engine E3 is not available: concurrent invocations are covered only as one call per row of a 3-row query evaluated sequentially, nested calls and recursion",
			"programs whose reference run fetches beyond a cursor's last row are compared on the output prefix only (that behaviour belongs to C16)",
		},
		Run:            c15Run,
		Replay:         c15Replay,
		QuickBudget:    240 * time.Second,
		ThoroughBudget: 9 * time.Minute,
	})
}

// ---- alphabet --------------------------------------------------------------------------------------

const (
	c15Var = iota
	c15Cur
	c15View
	c15Fn
	c15Agg // a user-defined aggregate function (declared into the same block map as scalar functions, by its own statement)
	c15Kinds
)

var c15KindName = []string{"var", "cursor", "view", "func", "aggr"}

const (
	c15Leaf = iota
	c15Ctrl
	c15Block
)

const (
	opD = iota // declare
	opS        // change state
	opP        // observe
	opX        // dispose
)
const (
	ctExit = iota
	ctBreak
	ctContinue
	ctReturn
	ctRecur
)
const (
	bOnce = iota
	bNever
	bWhile
	bWhileCur
	bFn
)

type c15Sym struct {
	typ  int
	op   int
	kind int
}

func (s c15Sym) String() string {
	switch s.typ {
	case c15Leaf:
		return c15KindName[s.kind] + "." + [...]string{"D", "S", "P", "X"}[s.op]
	case c15Ctrl:
		return [...]string{"EXIT", "BREAK", "CONTINUE", "RETURN", "RECUR"}[s.op]
	}
	return [...]string{"ONCE", "NEVER", "WHILE2", "WHILECUR", "FN"}[s.op]
}

type c15Cx struct{ inLoop, inFunc bool }

func (s c15Sym) legal(cx c15Cx) bool {
	if s.typ != c15Ctrl {
		return true
	}
	switch s.op {
	case ctExit:
		return !cx.inFunc // the grammar has no EXIT inside a function body
	case ctBreak, ctContinue:
		return cx.inLoop
	}
	return cx.inFunc
}

func (s c15Sym) terminator() bool { return s.typ == c15Ctrl && s.op != ctRecur }

func (s c15Sym) child(cx c15Cx) c15Cx {
	switch s.op {
	case bWhile, bWhileCur:
		return c15Cx{true, cx.inFunc}
	case bFn:
		return c15Cx{false, true}
	}
	return cx
}

type c15Node struct {
	sym  c15Sym
	kids []*c15Node
}

func c15Leaves(kind int) []c15Sym {
	out := []c15Sym{{c15Leaf, opD, kind}}
	if kind != c15Fn && kind != c15Agg {
		out = append(out, c15Sym{c15Leaf, opS, kind})
	}
	return append(out, c15Sym{c15Leaf, opP, kind}, c15Sym{c15Leaf, opX, kind})
}

var c15CtrlSyms = []c15Sym{{c15Ctrl, ctExit, 0}, {c15Ctrl, ctBreak, 0}, {c15Ctrl, ctContinue, 0}, {c15Ctrl, ctReturn, 0}, {c15Ctrl, ctRecur, 0}}
var c15BlockSyms = []c15Sym{{c15Block, bOnce, 0}, {c15Block, bNever, 0}, {c15Block, bWhile, 0}, {c15Block, bWhileCur, 0}, {c15Block, bFn, 0}}

// ---- forest enumeration (streaming, deterministic order) ---------------------------------------------

type c15Gen struct{ alpha []c15Sym }

// forest yields every forest with exactly n nodes; statements after BREAK/CONTINUE/RETURN/EXIT in the same
// statement list are unreachable and are not generated.
func (g *c15Gen) forest(n int, cx c15Cx, prefix []*c15Node, yield func([]*c15Node) bool) bool {
	if n == 0 {
		return yield(prefix)
	}
	for k := 1; k <= n; k++ {
		ok := g.tree(k, cx, func(t *c15Node) bool {
			if t.sym.terminator() {
				if n-k != 0 {
					return true
				}
				return yield(append(prefix, t))
			}
			return g.forest(n-k, cx, append(prefix, t), yield)
		})
		if !ok {
			return false
		}
	}
	return true
}

func (g *c15Gen) tree(k int, cx c15Cx, yield func(*c15Node) bool) bool {
	for _, s := range g.alpha {
		if !s.legal(cx) {
			continue
		}
		if s.typ != c15Block {
			if k == 1 && !yield(&c15Node{sym: s}) {
				return false
			}
			continue
		}
		s := s
		if !g.forest(k-1, s.child(cx), nil, func(kids []*c15Node) bool {
			return yield(&c15Node{sym: s, kids: append([]*c15Node(nil), kids...)})
		}) {
			return false
		}
	}
	return true
}

// ---- lowering a forest to a procedure ------------------------------------------------------------------

const (
	c15A = "a"  // the variable
	c15C = "c"  // the cursor
	c15T = "t"  // the temporary table
	c15F = "f"  // the function
	c15G = "ga" // the aggregate function
)

// c15LeafStmts renders one object leaf; k makes every declared/assigned value unique to its statement.
func c15LeafStmts(kind, op int, k int64) []*sm.Stmt {
	switch kind {
	case c15Var:
		switch op {
		case opD:
			return []*sm.Stmt{{Op: sm.SVar, Name: c15A, E: sm.C(k)}}
		case opS:
			return []*sm.Stmt{{Op: sm.SSet, Name: c15A, E: sm.C(k)}}
		case opP:
			return []*sm.Stmt{{Op: sm.SPrint, E: sm.Var(c15A)}}
		}
		return []*sm.Stmt{{Op: sm.SDispVar, Name: c15A}}
	case c15Cur:
		switch op {
		case opD:
			return []*sm.Stmt{{Op: sm.SCur, Name: c15C, Rows: []int64{k*10 + 1, k*10 + 2, k*10 + 3, k*10 + 4}}, {Op: sm.SOpen, Name: c15C}}
		case opS: // rewind: state change of whichever cursor the name resolves to
			return []*sm.Stmt{{Op: sm.SClose, Name: c15C}, {Op: sm.SOpen, Name: c15C}}
		case opP:
			return []*sm.Stmt{{Op: sm.SFetch, Name: c15C, Into: "v"}, {Op: sm.SPrint, E: sm.Var("v")}}
		}
		return []*sm.Stmt{{Op: sm.SDispCur, Name: c15C}}
	case c15View:
		switch op {
		case opD:
			return []*sm.Stmt{{Op: sm.SView, Name: c15T, E: sm.C(k)}}
		case opS:
			return []*sm.Stmt{{Op: sm.SUpd, Name: c15T, E: sm.C(k)}}
		case opP:
			return []*sm.Stmt{{Op: sm.SPrint, E: sm.ViewVal(c15T)}}
		}
		return []*sm.Stmt{{Op: sm.SDispView, Name: c15T}}
	}
	if kind == c15Agg {
		switch op {
		case opD:
			return []*sm.Stmt{{Op: sm.SAgg, Name: c15G, Into: "pc", Body: []*sm.Stmt{{Op: sm.SReturn, E: sm.C(k)}}}}
		case opP:
			return []*sm.Stmt{{Op: sm.SPrint, E: sm.AggCall(c15G)}}
		}
		return []*sm.Stmt{{Op: sm.SDispFunc, Name: c15G}}
	}
	switch op {
	case opD:
		return []*sm.Stmt{{Op: sm.SFunc, Name: c15F, Body: []*sm.Stmt{{Op: sm.SReturn, E: sm.C(k)}}}}
	case opP:
		return []*sm.Stmt{{Op: sm.SPrint, E: sm.Call(c15F)}}
	}
	return []*sm.Stmt{{Op: sm.SDispFunc, Name: c15F}}
}

func c15Decoy(k int64) []*sm.Stmt { return []*sm.Stmt{{Op: sm.SPrint, E: sm.C(9000 + k)}} }

// c15Once wraps body in a block that runs exactly once; six syntactic forms.
func c15Once(variant int, k int64, body []*sm.Stmt) *sm.Stmt {
	switch variant % 6 {
	case 0:
		return &sm.Stmt{Op: sm.SIf, Br: []*sm.Branch{{Cond: sm.True(), Body: body}}}
	case 1:
		return &sm.Stmt{Op: sm.SIf, Br: []*sm.Branch{{Cond: sm.False(), Body: c15Decoy(k)}}, HasElse: true, Else: body}
	case 2:
		return &sm.Stmt{Op: sm.SIf, Br: []*sm.Branch{{Cond: sm.False(), Body: c15Decoy(k)}, {Cond: sm.True(), Body: body}}, HasElse: true, Else: c15Decoy(k + 1)}
	case 3:
		return &sm.Stmt{Op: sm.SCase, Br: []*sm.Branch{{Cond: sm.True(), Body: body}}}
	case 4:
		return &sm.Stmt{Op: sm.SCase, E: sm.C(1), Br: []*sm.Branch{{Cond: sm.C(0), Body: c15Decoy(k)}, {Cond: sm.C(1), Body: body}}}
	}
	return &sm.Stmt{Op: sm.SCase, Br: []*sm.Branch{{Cond: sm.False(), Body: c15Decoy(k)}}, HasElse: true, Else: body}
}

func c15Never(variant int, body []*sm.Stmt) *sm.Stmt {
	switch variant % 3 {
	case 0:
		return &sm.Stmt{Op: sm.SIf, Br: []*sm.Branch{{Cond: sm.False(), Body: body}}}
	case 1:
		return &sm.Stmt{Op: sm.SCase, Br: []*sm.Branch{{Cond: sm.False(), Body: body}}}
	}
	return &sm.Stmt{Op: sm.SWhile, E: sm.False(), Body: body}
}

// c15While: a loop whose body runs `times` times; the counter is bumped first so CONTINUE cannot loop forever.
func c15While(k int64, times int64, body []*sm.Stmt) []*sm.Stmt {
	i := fmt.Sprintf("i%d", k)
	b := append([]*sm.Stmt{{Op: sm.SSet, Name: i, E: sm.Add(sm.Var(i), sm.C(1))}}, body...)
	return []*sm.Stmt{
		{Op: sm.SVar, Name: i, E: sm.C(0)},
		{Op: sm.SWhile, E: sm.Lt(sm.Var(i), sm.C(times)), Body: b},
	}
}

func c15WhileCur(variant int, k int64, rows []int64, body []*sm.Stmt) []*sm.Stmt {
	cn, r := fmt.Sprintf("lc%d", k), fmt.Sprintf("r%d", k)
	out := []*sm.Stmt{}
	decl := variant%2 == 0
	if !decl {
		out = append(out, &sm.Stmt{Op: sm.SVar, Name: r})
	}
	return append(out,
		&sm.Stmt{Op: sm.SCur, Name: cn, Rows: rows},
		&sm.Stmt{Op: sm.SOpen, Name: cn},
		&sm.Stmt{Op: sm.SWhileIn, Name: cn, Vars: []string{r}, Decl: decl, Body: body})
}

type c15Lower struct {
	rot      int
	ord      int64
	fn       []int64
	recDepth int64
}

func (l *c15Lower) forest(ns []*c15Node) []*sm.Stmt {
	out := []*sm.Stmt{}
	for _, n := range ns {
		l.ord++
		k := l.ord
		v := int(k) + l.rot
		switch n.sym.typ {
		case c15Leaf:
			out = append(out, c15LeafStmts(n.sym.kind, n.sym.op, k)...)
		case c15Ctrl:
			switch n.sym.op {
			case ctExit:
				out = append(out, &sm.Stmt{Op: sm.SExit})
			case ctBreak:
				out = append(out, &sm.Stmt{Op: sm.SBreak})
			case ctContinue:
				out = append(out, &sm.Stmt{Op: sm.SContinue})
			case ctReturn:
				out = append(out, &sm.Stmt{Op: sm.SReturn, E: sm.C(k)})
			case ctRecur:
				fk := l.fn[len(l.fn)-1]
				g, p := fmt.Sprintf("g%d", fk), fmt.Sprintf("n%d", fk)
				out = append(out, &sm.Stmt{Op: sm.SIf, Br: []*sm.Branch{{Cond: sm.Lt(sm.C(0), sm.Var(p)),
					Body: []*sm.Stmt{{Op: sm.SPrint, E: sm.Call(g, sm.Sub(sm.Var(p), sm.C(1)))}}}}})
			}
		case c15Block:
			switch n.sym.op {
			case bOnce:
				out = append(out, c15Once(v, k, l.forest(n.kids)))
			case bNever:
				out = append(out, c15Never(v, l.forest(n.kids)))
			case bWhile:
				out = append(out, c15While(k, 2, l.forest(n.kids))...)
			case bWhileCur:
				out = append(out, c15WhileCur(v, k, []int64{1, 2}, l.forest(n.kids))...)
			case bFn:
				g, p := fmt.Sprintf("g%d", k), fmt.Sprintf("n%d", k)
				l.fn = append(l.fn, k)
				body := l.forest(n.kids)
				l.fn = l.fn[:len(l.fn)-1]
				out = append(out, &sm.Stmt{Op: sm.SFunc, Name: g, Params: []string{p}, Body: body})
				switch v % 3 {
				case 0: // a plain call; recursion depth recDepth+1 when the body recurs
					out = append(out, &sm.Stmt{Op: sm.SPrint, E: sm.Call(g, sm.C(l.recDepth))})
				case 1: // one invocation per row of a three-row query (arguments -1, 0, 1)
					out = append(out, &sm.Stmt{Op: sm.SSelect, E: sm.Call(g, sm.Sub(sm.Col(), sm.C(2)))})
				case 2: // an invocation as the argument of another one
					out = append(out, &sm.Stmt{Op: sm.SPrint, E: sm.Call(g, sm.Mul(sm.Call(g, sm.C(1)), sm.C(0)))})
				}
			}
		}
	}
	return out
}

func c15HasBlock(ns []*c15Node) bool {
	for _, n := range ns {
		if n.sym.typ == c15Block {
			return true
		}
	}
	return false
}

func c15Shape(ns []*c15Node) string {
	var sb strings.Builder
	for i, n := range ns {
		if i > 0 {
			sb.WriteByte(' ')
		}
		sb.WriteString(n.sym.String())
		if n.sym.typ == c15Block {
			sb.WriteString("{" + c15Shape(n.kids) + "}")
		}
	}
	return sb.String()
}

// ---- driving csvq ------------------------------------------------------------------------------------

type c15Got struct {
	out   string
	err   string // class
	raw   string // csvq's message
	exit  bool
	panic string
}

type c15Runner struct {
	env     *drv.Env
	ctx     context.Context
	asm     *c15Asm
	history [][]*sm.Stmt // the last few programs this process executed (the scope pool is process-wide)
	n       int64

	isolations int
	probeProg  []*sm.Stmt
	probeWant  sm.Outcome
	probeStmts []parser.Statement
}

func newC15Runner() *c15Runner {
	runtime.GOMAXPROCS(1) // one P: sync.Pool hands a released scope to the very next request, deterministically
	env := drv.NewText(core.Scratch("c15"))
	env.Tx.Flags.SetQuiet(true) // only PRINT and result rows reach stdout
	env.Tx.Flags.ExportOptions.Format = option.CSV
	env.Tx.Flags.ExportOptions.WithoutHeader = true
	return &c15Runner{env: env, ctx: env.Ctx, asm: newC15Asm()}
}

func (r *c15Runner) close() { r.env.Close() }

func c15ErrClass(err error) string {
	switch err.(type) {
	case nil:
		return ""
	case *query.UndeclaredVariableError:
		return sm.ErrUndeclaredVar
	case *query.VariableRedeclaredError:
		return sm.ErrRedeclaredVar
	case *query.UndeclaredCursorError:
		return sm.ErrUndeclaredCursor
	case *query.CursorRedeclaredError:
		return sm.ErrRedeclaredCursor
	case *query.CursorClosedError:
		return sm.ErrCursorClosed
	case *query.CursorOpenError:
		return sm.ErrCursorOpen
	case *query.FileNotExistError:
		return sm.ErrNoTable
	case *query.UndeclaredTemporaryTableError:
		return sm.ErrUndeclaredView
	case *query.TemporaryTableRedeclaredError:
		return sm.ErrRedeclaredView
	case *query.FunctionNotExistError:
		return sm.ErrUndeclaredFunc
	case *query.FunctionRedeclaredError:
		return sm.ErrRedeclaredFunc
	case *query.FunctionArgumentLengthError:
		return sm.ErrArgLen
	case *query.PseudoCursorError:
		return sm.ErrPseudoCursor
	}
	if drv.IsFatal(err) {
		return "fatal-error"
	}
	return fmt.Sprintf("other(%T)", err)
}

// exec runs parsed statements on a fresh Processor (root scope taken from, and afterwards returned to, the pool).
func (r *c15Runner) exec(stmts []parser.Statement) (g c15Got) {
	r.env.Out.Reset()
	proc := query.NewProcessor(r.env.Tx)
	defer func() {
		if p := recover(); p != nil {
			g.panic = fmt.Sprint(p)
		}
		g.out = r.env.Out.String()
		func() {
			defer func() { recover() }()
			_ = proc.AutoRollback()
			proc.Close()
		}()
	}()
	flow, err := proc.Execute(r.ctx, stmts)
	g.err = c15ErrClass(err)
	if err != nil {
		g.raw = err.Error()
	}
	g.exit = flow == query.Exit
	return
}

type c15Payload struct {
	Family  string     `json:"family"`
	Kind    string     `json:"kind"`
	Shape   string     `json:"shape"`
	Prog    []*sm.Stmt `json:"prog"`
	SQL     string     `json:"sql"`
	History []string   `json:"history,omitempty"`
}

func c15Describe(o sm.Outcome) string {
	s := fmt.Sprintf("out=%q", o.Out)
	if o.Err != "" {
		s += " error=" + o.Err
	}
	if o.Exit {
		s += " EXIT"
	}
	return s
}
func (g c15Got) describe() string {
	s := fmt.Sprintf("out=%q", g.out)
	if g.err != "" {
		s += " error=" + g.err + " (" + g.raw + ")"
	}
	if g.exit {
		s += " EXIT"
	}
	if g.panic != "" {
		s += " PANIC " + g.panic
	}
	return s
}

func c15Same(g c15Got, o sm.Outcome) bool {
	return g.panic == "" && g.out == o.Out && g.err == o.Err && g.exit == o.Exit
}

const c15SigViewShadow = "view: DECLARE VIEW in an inner block/function is refused (redeclared-view) when an outer scope has a table of that name, instead of shadowing it"

type c15Path struct {
	name  string
	stmts []parser.Statement
}

// judge executes every path twice and classifies the first run that deviates from the reference outcome
// ("" = all runs agree). A deviation that only shows from the second run on is a class of its own (scope reuse).
func (r *c15Runner) judge(c *core.Ctx, fam, kind string, prog []*sm.Stmt, paths []c15Path, want sm.Outcome) (sig, msg string) {
	var alt *sm.Outcome
	for _, p := range paths {
		for run := 1; run <= 2; run++ {
			which := "first run"
			if run == 2 {
				which = "second run in the same process"
			}
			which += p.name
			got := r.exec(p.stmts)
			c.Add("traces_validated_against_impl", 1)
			cat := ""
			switch {
			case got.panic != "" || got.err == "fatal-error":
				cat = "panic or Fatal Error in csvq"
			case want.Poison != "":
				if !strings.HasPrefix(got.out, want.Out) {
					cat = "output prefix differs"
				}
			case c15Same(got, want):
			default:
				if want.ViewShadowAttempt {
					if alt == nil {
						a := sm.Run(prog, sm.Options{ViewNoShadow: true})
						alt = &a
					}
					if c15Same(got, *alt) {
						cat = c15SigViewShadow
						break
					}
				}
				switch {
				case got.err != want.Err:
					cat = "error class differs"
				case got.exit != want.Exit:
					cat = "EXIT flag differs"
				default:
					cat = "output differs"
				}
			}
			if cat == "" || sig != "" {
				continue
			}
			if cat == c15SigViewShadow {
				sig = cat
			} else {
				sig = fmt.Sprintf("%s:%s:%s", fam, kind, cat)
				if run == 2 && p.name == "" {
					sig += " (only when run again in the same process)"
				} else if p.name != "" {
					sig += " (only" + p.name + ")"
				}
			}
			msg = fmt.Sprintf("%s\ncsvq:      %s\nreference: %s", which, got.describe(), c15Describe(want))
			if want.Poison != "" {
				msg += " (prefix; then " + want.Poison + ")"
			}
		}
	}
	return
}

// flushPool empties the process-wide scope pools (sync.Pool drops everything after two collections), so that
// what follows does not depend on what earlier procedures left behind.
func (r *c15Runner) flushPool() {
	runtime.GC()
	runtime.GC()
}

func c15SQLs(progs [][]*sm.Stmt) []string {
	h := make([]string, len(progs))
	for i, p := range progs {
		h[i] = sm.Prologue + sm.Render(p)
	}
	return h
}

// check runs one procedure twice (on the assembled syntax tree; viaText: twice more from the program text through
// csvq's parser) and compares every run with the reference interpreter.
func (r *c15Runner) check(c *core.Ctx, family, kind, shape string, prog []*sm.Stmt, viaText bool) {
	want := sm.Run(prog, sm.Options{})
	r.n++
	sql := sm.Prologue
	fam := family
	if strings.HasPrefix(family, "skeleton-") {
		fam = "skeleton"
	}
	paths := []c15Path{{"", r.asm.program(prog)}}
	if viaText {
		sql += sm.Render(prog)
		stmts, _, perr := parser.Parse(sql, "", false, false)
		if perr != nil {
			c.Violate("harness:generated procedure does not parse:"+family, perr.Error()+"\n"+sql, c15Payload{Family: family, Kind: kind, Shape: shape, Prog: prog, SQL: sql})
			return
		}
		paths = append(paths, c15Path{" [program text through parser.Parse]", stmts})
		c.Add("programs_also_run_from_text", 1)
	}
	c.EvalN(1, b2i(want.Nontrivial()))
	c.Add("programs", 1)
	c.Add("blocks_and_invocations_entered_in_reference_runs", int64(want.Blocks))
	c.Add("function_invocations_in_reference_runs", int64(want.Calls))
	c.Add("shadowing_declarations", int64(want.Shadows))
	c.Add("control_transfers", int64(want.Ctrl))
	c.Max("max_scope_depth", int64(want.MaxDepth))
	c.Max("max_call_nesting", int64(want.MaxCallNest))
	if want.Err != "" {
		c.Observe("error_classes_predicted", want.Err)
	}
	if want.Poison != "" {
		c.Add("compared_on_output_prefix_only", 1)
	}

	sig, msg := r.judge(c, fam, kind, prog, paths, want)
	for _, d := range poolDoubleReleases() {
		c.Violate("scope-pool:double-release:"+d, fmt.Sprintf("%s, %s: a scope (or another pooled object) was put into its pool while it was already there (%s): two blocks that are alive at the same time can be handed the same maps\n%s", family, shape, d, sm.Prologue+sm.Render(prog)),
			c15Payload{Family: family, Kind: kind, Shape: shape, Prog: prog, SQL: sm.Prologue + sm.Render(prog)})
	}
	if sig != "" {
		if !viaText {
			sql += sm.Render(prog)
		}
		var hist [][]*sm.Stmt
		if r.isolations < 40 && !c.IsReplay {
			// is the deviation the procedure's own, or inherited from scopes earlier procedures left in the pool?
			r.isolations++
			r.flushPool()
			if s2, m2 := r.judge(c, fam, kind, prog, paths, want); s2 != "" {
				sig, msg = s2, m2+"\n(reproduced alone after emptying the scope pool)"
			} else {
				hist = append(hist, r.history...)
				r.flushPool()
				for _, h := range hist {
					st := r.asm.program(h)
					r.exec(st)
					r.exec(st)
				}
				if s3, m3 := r.judge(c, fam, kind, prog, paths, want); s3 != "" {
					sig, msg = s3+" (after other procedures in the same process)", m3+fmt.Sprintf("\n(not reproduced alone; reproduced after the %d procedures that preceded it)", len(hist))
				} else {
					sig += " (depends on procedures run earlier in the same process; not isolated)"
				}
			}
			r.flushPool()
		} else if !c.IsReplay {
			hist = append(hist, r.history...)
		}
		c.Violate(sig, fmt.Sprintf("%s, %s, %s\n%s", family, shape, msg, sql),
			c15Payload{Family: family, Kind: kind, Shape: shape, Prog: prog, SQL: sql, History: c15SQLs(hist)})
	}
	if c.WantSample() && want.Nontrivial() && want.MaxDepth >= 3 && want.Err == "" && r.n%97 == 0 {
		if !viaText && sig == "" {
			sql += sm.Render(prog)
		}
		c.Sample(map[string]any{"family": family, "kind": kind, "shape": shape, "output": want.Out, "scope_depth": want.MaxDepth, "program": sql})
	}
	r.history = append(r.history, prog)
	if len(r.history) > c15ProbeEvery {
		r.history = r.history[1:]
	}
	if r.n%c15ProbeEvery == 0 && !c.IsReplay {
		r.probe(c)
	}
}

// ---- pool probe -------------------------------------------------------------------------------------------
//
// Scope objects are recycled through a process-wide pool, so a procedure can leave damage (a scope released twice
// or too early) that only the NEXT procedures feel.  After every c15ProbeEvery procedures a fixed probe procedure
// is executed that holds 16 block scopes and 3 invocation scopes at the same time, each declaring the same names;
// it has one correct output.  If it deviates, the pool is emptied and the last procedures are re-run one by one,
// each followed by the probe, to name the one that does the damage.

const c15ProbeEvery = 8

func c15ProbeProgram() []*sm.Stmt {
	// innermost first: 16 nested blocks of rotating syntactic form, each with its own @a, cursor c, function f
	var body []*sm.Stmt
	for lvl := int64(16); lvl >= 1; lvl-- {
		inner := cat(
			c15LeafStmts(c15Var, opD, lvl), c15LeafStmts(c15Cur, opD, lvl), c15LeafStmts(c15Fn, opD, lvl),
			body,
			c15LeafStmts(c15Var, opP, lvl), c15LeafStmts(c15Cur, opP, lvl), c15LeafStmts(c15Fn, opP, lvl))
		body = st(c15Once(int(lvl), 100+lvl, inner))
	}
	rec := &sm.Stmt{Op: sm.SFunc, Name: "pr", Params: []string{"n"}, Body: cat(
		st(&sm.Stmt{Op: sm.SVar, Name: c15A, E: sm.Mul(sm.Var("n"), sm.C(7))}),
		st(c15IfCond(sm.Lt(sm.C(0), sm.Var("n")), st(c15Print(sm.Call("pr", sm.Sub(sm.Var("n"), sm.C(1))))))),
		st(c15Print(sm.Var(c15A)), &sm.Stmt{Op: sm.SReturn, E: sm.Var("n")}))}
	return cat(c15LeafStmts(c15Var, opD, 0), body, st(rec, c15Print(sm.Call("pr", sm.C(2)))), c15LeafStmts(c15Var, opP, 0))
}

func (r *c15Runner) probeOK(c *core.Ctx) (bool, c15Got) {
	if r.probeStmts == nil {
		r.probeProg = c15ProbeProgram()
		r.probeWant = sm.Run(r.probeProg, sm.Options{})
		if r.probeWant.Err != "" || r.probeWant.Poison != "" {
			panic("c15: the probe procedure must end normally in the reference interpreter: " + r.probeWant.Err + r.probeWant.Poison)
		}
		r.probeStmts = r.asm.program(r.probeProg)
	}
	got := r.exec(r.probeStmts)
	c.Add("pool_probes", 1)
	return c15Same(got, r.probeWant), got
}

func (r *c15Runner) probe(c *core.Ctx) {
	ok, got := r.probeOK(c)
	if ok {
		return
	}
	batch := append([][]*sm.Stmt(nil), r.history...)
	sig := "scope-pool: a fixed probe procedure (16 nested blocks, 3 nested invocations) deviates after another procedure ran in the same process"
	culprit := -1
	if r.isolations < 40 {
		r.isolations++
		for i, h := range batch {
			r.flushPool()
			st := r.asm.program(h)
			r.exec(st)
			r.exec(st)
			if ok2, g2 := r.probeOK(c); !ok2 {
				culprit, got = i, g2
				break
			}
		}
	}
	r.flushPool()
	hist := batch
	note := fmt.Sprintf("the probe failed after the last %d procedures; no single one of them makes it fail on an empty pool", len(batch))
	if culprit >= 0 {
		hist = batch[culprit : culprit+1]
		note = "on an empty scope pool, running the procedure below (twice) and then the probe makes the probe fail:\n" + sm.Render(batch[culprit])
	} else {
		sig += " (culprit not isolated)"
	}
	c.Violate(sig, fmt.Sprintf("%s\nprobe, csvq:      %s\nprobe, reference: %s", note, got.describe(), c15Describe(r.probeWant)),
		c15Payload{Family: "pool-probe", Kind: "mixed", Shape: "probe", Prog: r.probeProg, SQL: sm.Prologue + sm.Render(r.probeProg), History: c15SQLs(hist)})
}

// ---- family "tree" --------------------------------------------------------------------------------------

type c15TreeFamily struct {
	name     string
	alpha    []c15Sym
	probe    []int // kinds observed by the epilogue (one is picked per forest, round robin)
	minN     int
	maxN     int // forests with minN..maxN nodes
	fullRotN int // up to this size every forest is lowered with all 6 rotations of the syntactic variants
	recDepth int64
}

func c15TreeFamilies(thorough bool) []c15TreeFamily {
	fams := []c15TreeFamily{}
	// one family per object kind, full alphabet (3-4 object leaves, 5 control leaves, 5 block forms)
	for kind := 0; kind < c15Kinds; kind++ {
		alpha := append(append(c15Leaves(kind), c15CtrlSyms...), c15BlockSyms...)
		f := c15TreeFamily{name: "tree", alpha: alpha, probe: []int{kind}, minN: 0, maxN: 4, fullRotN: 3, recDepth: 2}
		if thorough {
			f.maxN, f.recDepth = 5, 3
		}
		fams = append(fams, f)
	}
	// mixed: declare/observe of every kind in one alphabet (one BlockScope holds all four maps)
	mixed := []c15Sym{}
	for kind := 0; kind < c15Kinds; kind++ {
		mixed = append(mixed, c15Sym{c15Leaf, opD, kind}, c15Sym{c15Leaf, opP, kind})
	}
	mixed = append(mixed, c15Sym{c15Block, bOnce, 0}, c15Sym{c15Block, bWhile, 0}, c15Sym{c15Block, bFn, 0})
	m := c15TreeFamily{name: "tree-mixed", alpha: mixed, probe: []int{0, 1, 2, 3}, minN: 0, maxN: 4, fullRotN: 0, recDepth: 1}
	if thorough {
		m.maxN = 5
	}
	fams = append(fams, m)
	// one node more over a core alphabet: the variable leaves, all control leaves, blocks ONCE / WHILE2 / FN
	core := append(append(c15Leaves(c15Var), c15CtrlSyms...), c15BlockSyms[bOnce], c15BlockSyms[bWhile], c15BlockSyms[bFn])
	k := c15TreeFamily{name: "tree-core", alpha: core, probe: []int{c15Var}, minN: 5, maxN: 5, fullRotN: 0, recDepth: 2}
	if thorough {
		k.minN, k.maxN = 6, 6
	}
	return append(fams, k)
}

func (r *c15Runner) runTree(c *core.Ctx, f c15TreeFamily, idx *int64) bool {
	g := &c15Gen{alpha: f.alpha}
	kindName := "mixed"
	if len(f.probe) == 1 {
		kindName = c15KindName[f.probe[0]]
	}
	for n := f.minN; n <= f.maxN; n++ {
		ok := g.forest(n, c15Cx{}, nil, func(ns []*c15Node) bool {
			*idx++
			if !c.Mine(*idx) {
				return true
			}
			if c.Expired() {
				c.Incomplete(fmt.Sprintf("time budget reached in family %s/%s at %d nodes", f.name, kindName, n))
				return false
			}
			rots := []int{int(*idx % 6)}
			if !c15HasBlock(ns) {
				rots = []int{0}
			} else if n <= f.fullRotN {
				rots = []int{0, 1, 2, 3, 4, 5}
			}
			probe := f.probe[int(*idx/6)%len(f.probe)]
			shape := c15Shape(ns)
			for _, rot := range rots {
				l := &c15Lower{rot: rot, recDepth: f.recDepth}
				prog := l.forest(ns)
				prog = append(prog, c15LeafStmts(probe, opP, 99)...)
				r.check(c, f.name, kindName, fmt.Sprintf("%s [rot %d]", shape, rot), prog, *idx%61 == 0)
			}
			return true
		})
		if !ok {
			return false
		}
		c.Max("max_forest_nodes_completed_"+strings.ReplaceAll(f.name, "-", "_"), int64(n))
	}
	return true
}

// ---- family "skeleton" -----------------------------------------------------------------------------------

type c15Skeleton struct {
	name  string
	holes []c15Cx
	build func(kind int, h [][]*sm.Stmt) []*sm.Stmt
}

func st(s ...*sm.Stmt) []*sm.Stmt { return s }

func cat(parts ...[]*sm.Stmt) []*sm.Stmt {
	out := []*sm.Stmt{}
	for _, p := range parts {
		out = append(out, p...)
	}
	return out
}

func c15IfTrue(body []*sm.Stmt) *sm.Stmt {
	return &sm.Stmt{Op: sm.SIf, Br: []*sm.Branch{{Cond: sm.True(), Body: body}}}
}
func c15IfCond(cond *sm.Expr, body []*sm.Stmt) *sm.Stmt {
	return &sm.Stmt{Op: sm.SIf, Br: []*sm.Branch{{Cond: cond, Body: body}}}
}
func c15Print(e *sm.Expr) *sm.Stmt { return &sm.Stmt{Op: sm.SPrint, E: e} }

var (
	cxTop      = c15Cx{}
	cxLoop     = c15Cx{inLoop: true}
	cxFn       = c15Cx{inFunc: true}
	cxFnInLoop = c15Cx{inLoop: true, inFunc: true}
)

var c15Skeletons = []c15Skeleton{
	{ // five nested invocations of one function, statements before/around/after the recursive call
		name:  "recursion-depth-5",
		holes: []c15Cx{cxTop, cxFn, cxFn, cxFn, cxFn, cxTop},
		build: func(kind int, h [][]*sm.Stmt) []*sm.Stmt {
			body := cat(h[1],
				st(&sm.Stmt{Op: sm.SVar, Name: "own", E: sm.Mul(sm.Var("n"), sm.C(11))}),
				st(c15IfCond(sm.Lt(sm.C(0), sm.Var("n")), cat(h[2], st(c15Print(sm.Call("r", sm.Sub(sm.Var("n"), sm.C(1))))), h[3]))),
				st(c15Print(sm.Var("own")), c15Print(sm.Var("n"))), // parameters and locals of THIS invocation
				h[4],
				st(&sm.Stmt{Op: sm.SReturn, E: sm.Var("n")}))
			return cat(h[0], st(&sm.Stmt{Op: sm.SFunc, Name: "r", Params: []string{"n"}, Body: body}, c15Print(sm.Call("r", sm.C(4)))), h[5])
		},
	},
	{ // two recursive calls per invocation: locals must survive sibling invocations (9 invocations, depth 4)
		name:  "double-recursion",
		holes: []c15Cx{cxFn, cxFn, cxFn, cxFn, cxTop},
		build: func(kind int, h [][]*sm.Stmt) []*sm.Stmt {
			body := cat(h[0],
				st(c15IfCond(sm.Lt(sm.Var("n"), sm.C(2)), cat(h[1], st(&sm.Stmt{Op: sm.SReturn, E: sm.Var("n")})))),
				st(&sm.Stmt{Op: sm.SVar, Name: "l", E: sm.Call("fb", sm.Sub(sm.Var("n"), sm.C(1)))}),
				h[2],
				st(&sm.Stmt{Op: sm.SVar, Name: "r", E: sm.Call("fb", sm.Sub(sm.Var("n"), sm.C(2)))}),
				h[3],
				st(c15Print(sm.Var("n")), &sm.Stmt{Op: sm.SReturn, E: sm.Add(sm.Var("l"), sm.Var("r"))}))
			return cat(st(&sm.Stmt{Op: sm.SFunc, Name: "fb", Params: []string{"n"}, Body: body}, c15Print(sm.Call("fb", sm.C(4)))), h[4])
		},
	},
	{ // two functions calling each other, the second declared inside a block
		name:  "mutual-recursion",
		holes: []c15Cx{cxFn, cxFn, cxFn, cxFn, cxTop, cxTop},
		build: func(kind int, h [][]*sm.Stmt) []*sm.Stmt {
			mk := func(self, other string, base, scale int64, pre, post []*sm.Stmt) *sm.Stmt {
				return &sm.Stmt{Op: sm.SFunc, Name: self, Params: []string{"n"}, Body: cat(pre,
					st(c15IfCond(sm.Lt(sm.Var("n"), sm.C(1)), st(&sm.Stmt{Op: sm.SReturn, E: sm.C(base)}))),
					st(&sm.Stmt{Op: sm.SVar, Name: "k", E: sm.Mul(sm.Var("n"), sm.C(scale))}),
					st(&sm.Stmt{Op: sm.SVar, Name: "z", E: sm.Call(other, sm.Sub(sm.Var("n"), sm.C(1)))}),
					post,
					st(c15Print(sm.Var("k")), &sm.Stmt{Op: sm.SReturn, E: sm.Var("z")}))}
			}
			return cat(st(mk("ev", "od", 1, 1, h[0], h[1])),
				st(c15IfTrue(cat(st(mk("od", "ev", 0, 100, h[2], h[3]), c15Print(sm.Call("ev", sm.C(4)))), h[4]))),
				h[5])
		},
	},
	{ // a loop inside a function left early by BREAK/CONTINUE/RETURN, called three times
		name:  "loop-left-early",
		holes: []c15Cx{cxFn, cxFnInLoop, cxFnInLoop, cxFnInLoop, cxFn, cxTop},
		build: func(kind int, h [][]*sm.Stmt) []*sm.Stmt {
			loop := c15While(50, 3, cat(h[1], st(c15IfCond(sm.Eq(sm.Var("i50"), sm.Var("n")), h[2])), h[3], st(c15Print(sm.Var("i50")))))
			body := cat(h[0], loop, h[4], st(&sm.Stmt{Op: sm.SReturn, E: sm.Mul(sm.Var("n"), sm.C(7))}))
			return cat(st(&sm.Stmt{Op: sm.SFunc, Name: "g", Params: []string{"n"}, Body: body},
				c15Print(sm.Call("g", sm.C(1))), c15Print(sm.Call("g", sm.C(2))), c15Print(sm.Call("g", sm.C(9)))), h[5])
		},
	},
	{ // main-program loop with nested blocks left by BREAK/CONTINUE/EXIT
		name:  "main-loop-left-early",
		holes: []c15Cx{cxTop, cxLoop, cxLoop, cxLoop, cxLoop, cxTop},
		build: func(kind int, h [][]*sm.Stmt) []*sm.Stmt {
			inner := c15Once(4, 60, cat(h[2], st(c15IfCond(sm.Eq(sm.Var("i50"), sm.C(2)), h[3]))))
			loop := c15While(50, 3, cat(h[1], st(inner), h[4], st(c15Print(sm.Var("i50")))))
			return cat(h[0], loop, h[5])
		},
	},
	{ // many sibling blocks of different syntactic forms
		name:  "sibling-blocks",
		holes: []c15Cx{cxTop, cxTop, cxTop, cxLoop, cxTop, cxTop},
		build: func(kind int, h [][]*sm.Stmt) []*sm.Stmt {
			return cat(h[0], st(c15Once(0, 61, h[1]), c15Once(1, 62, nil), c15Once(5, 63, h[2]), c15Never(0, c15Decoy(64))),
				c15While(50, 2, h[3]), st(c15Once(3, 65, h[4]), c15Once(4, 66, nil)), h[5])
		},
	},
	{ // five nested blocks
		name:  "nested-depth-5",
		holes: []c15Cx{cxTop, cxTop, cxLoop, cxLoop, cxLoop, cxTop},
		build: func(kind int, h [][]*sm.Stmt) []*sm.Stmt {
			l4 := c15Once(5, 71, h[4])
			l3 := c15Once(1, 72, cat(h[3], st(l4)))
			l2 := c15While(50, 2, cat(h[2], st(l3)))
			l1 := c15Once(3, 73, cat(h[1], l2))
			return cat(st(c15Once(0, 74, cat(h[0], st(l1)))), h[5])
		},
	},
	{ // a user-defined aggregate: its pseudo cursor (named like the cursor of the cursor alphabet) lives in the invocation
		name:  "aggregate",
		holes: []c15Cx{cxTop, cxFn, cxFnInLoop, cxFn, cxTop, cxTop},
		build: func(kind int, h [][]*sm.Stmt) []*sm.Stmt {
			body := cat(h[1], st(&sm.Stmt{Op: sm.SVar, Name: "s", E: sm.C(0)}),
				st(&sm.Stmt{Op: sm.SWhileIn, Name: c15C, Vars: []string{"e"}, Decl: true,
					Body: cat(h[2], st(&sm.Stmt{Op: sm.SSet, Name: "s", E: sm.Add(sm.Mul(sm.Var("s"), sm.C(10)), sm.Var("e"))}))}),
				h[3], st(&sm.Stmt{Op: sm.SReturn, E: sm.Var("s")}))
			return cat(h[0], st(&sm.Stmt{Op: sm.SAgg, Name: "ag", Into: c15C, Body: body}, c15Print(sm.AggCall("ag"))), h[4],
				st(c15IfTrue(st(c15Print(sm.AggCall("ag"))))), h[5])
		},
	},
	{ // one invocation per row of a query, per row of a cursor's query, and nested in an argument
		name:  "call-per-row",
		holes: []c15Cx{cxFn, cxFn, cxFn, cxTop, cxLoop, cxTop},
		build: func(kind int, h [][]*sm.Stmt) []*sm.Stmt {
			body := cat(h[0], st(&sm.Stmt{Op: sm.SVar, Name: "own", E: sm.Mul(sm.Var("n"), sm.C(10))}),
				st(c15IfCond(sm.Eq(sm.Var("n"), sm.C(2)), h[1])), h[2], st(&sm.Stmt{Op: sm.SReturn, E: sm.Var("own")}))
			return cat(st(&sm.Stmt{Op: sm.SFunc, Name: "g", Params: []string{"n"}, Body: body},
				&sm.Stmt{Op: sm.SSelect, E: sm.Call("g", sm.Col())}),
				h[3],
				st(&sm.Stmt{Op: sm.SCur, Name: "q", E: sm.Call("g", sm.Col())}, &sm.Stmt{Op: sm.SOpen, Name: "q"},
					&sm.Stmt{Op: sm.SWhileIn, Name: "q", Vars: []string{"y"}, Decl: true, Body: cat(h[4], st(c15Print(sm.Var("y"))))}),
				st(c15Print(sm.Call("g", sm.Sub(sm.Call("g", sm.C(1)), sm.C(8))))),
				h[5])
		},
	},
}

func c15Fillers(kind int, cx c15Cx, k int64) [][]*sm.Stmt {
	out := [][]*sm.Stmt{nil}
	for _, s := range c15Leaves(kind) {
		out = append(out, c15LeafStmts(kind, s.op, k))
	}
	if !cx.inFunc {
		out = append(out, st(&sm.Stmt{Op: sm.SExit}))
	}
	if cx.inLoop {
		out = append(out, st(&sm.Stmt{Op: sm.SBreak}), st(&sm.Stmt{Op: sm.SContinue}))
	}
	if cx.inFunc {
		out = append(out, st(&sm.Stmt{Op: sm.SReturn, E: sm.C(k)}))
	}
	return out
}

func (r *c15Runner) runSkeletons(c *core.Ctx, idx *int64) bool {
	maxFilled := 3
	if c.Thorough() {
		maxFilled = 6
	}
	c.Info("skeleton_max_nonempty_holes", maxFilled)
	for _, sk := range c15Skeletons {
		for kind := 0; kind < c15Kinds; kind++ {
			opts := make([][][]*sm.Stmt, len(sk.holes))
			for j, cx := range sk.holes {
				opts[j] = c15Fillers(kind, cx, int64(j+1))
			}
			choice := make([]int, len(sk.holes))
			for {
				filled := 0
				for _, ch := range choice {
					if ch != 0 {
						filled++
					}
				}
				if filled <= maxFilled {
					*idx++
					if c.Mine(*idx) {
						if c.Expired() {
							c.Incomplete("time budget reached in skeleton " + sk.name + "/" + c15KindName[kind])
							return false
						}
						h := make([][]*sm.Stmt, len(choice))
						for j, ch := range choice {
							h[j] = opts[j][ch]
						}
						prog := cat(sk.build(kind, h), c15LeafStmts(kind, opP, 99))
						r.check(c, "skeleton-"+sk.name, c15KindName[kind], fmt.Sprint("holes ", choice), prog, *idx%61 == 0)
					}
				}
				// next choice vector (mixed radix)
				j := len(choice) - 1
				for ; j >= 0; j-- {
					choice[j]++
					if choice[j] < len(opts[j]) {
						break
					}
					choice[j] = 0
				}
				if j < 0 {
					break
				}
			}
		}
	}
	return true
}

// ---- entry points ---------------------------------------------------------------------------------------

// c15Skip: VERIF_C15_ONLY=<family>[,<family>] (an aid for whoever develops a family) restricts a run to the named
// families of this check ("tree" = the forests and skeletons); such a run never counts as exhaustive.
func c15Skip(c *core.Ctx, family string) bool {
	only := os.Getenv("VERIF_C15_ONLY")
	if only == "" || c.IsReplay {
		return false
	}
	for _, f := range strings.Split(only, ",") {
		if f == family {
			return false
		}
	}
	c.Incomplete("family " + family + " skipped: VERIF_C15_ONLY=" + only)
	return true
}

func c15Run(c *core.Ctx) {
	if c15Skip(c, "tree") {
		return
	}
	poolTrack(true)
	defer poolTrack(false)
	r := newC15Runner()
	defer r.close()
	var idx int64
	fams := c15TreeFamilies(c.Thorough())
	last := len(fams) - 1 // tree-core, the largest single enumeration, goes last
	for _, f := range fams[:last] {
		if !r.runTree(c, f, &idx) {
			return
		}
	}
	if !r.runSkeletons(c, &idx) {
		return
	}
	r.runTree(c, fams[last], &idx)
}

// replay of the text families (assign, indirect): the recorded program is run twice and its output shown next to
// the expected lines
func c15TextReplay(raw json.RawMessage) bool {
	var t struct {
		Family  string            `json:"family"`
		Program string            `json:"program"`
		Files   map[string]string `json:"files"`
		Expect  []string          `json:"expect"`
	}
	if json.Unmarshal(raw, &t) != nil || t.Program == "" || (t.Family != "assign" && t.Family != "indirect") {
		return false
	}
	dir := core.Scratch("c15replay")
	for run := 0; run < 2; run++ {
		drv.ClearDir(dir)
		drv.WriteFiles(dir, t.Files)
		env := drv.NewText(dir)
		env.Tx.Flags.SetQuiet(t.Family == "indirect")
		r := env.Exec(t.Program)
		env.Close()
		fmt.Printf("run %d of family %s:\n%s\nprinted %v, error %v, panic %v\nexpected %v\n", run+1, t.Family, t.Program, strings.Fields(r.Out), r.Err, r.Panic, t.Expect)
	}
	return true
}

func c15Replay(c *core.Ctx, payload json.RawMessage) {
	if c15DefaultsReplay(c, payload) || c15ConcurrentReplay(c, payload) || c15ContextReplay(c, payload) || c15ExprStmtReplay(c, payload) || c15RecCtxReplay(c, payload) || c15UsingReplay(c, payload) || c15CurStatusReplay(c, payload) {
		return
	}
	if c15TextReplay(payload) {
		return
	}
	var p c15Payload
	if err := json.Unmarshal(payload, &p); err != nil {
		fmt.Println("bad payload:", err)
		return
	}
	r := newC15Runner()
	defer r.close()
	if len(p.History) > 0 {
		// the scope pool is process-wide: first the procedures that ran before it in the recording process
		fmt.Printf("first running the %d recorded preceding procedure(s), twice each\n", len(p.History))
		for _, h := range p.History {
			stmts, _, err := parser.Parse(h, "", false, false)
			if err != nil {
				fmt.Println("recorded preceding procedure does not parse:", err)
				continue
			}
			r.exec(stmts)
			r.exec(stmts)
		}
	}
	fmt.Printf("replaying %s/%s %s\n%s", p.Family, p.Kind, p.Shape, sm.Prologue+sm.Render(p.Prog))
	r.check(c, p.Family, p.Kind, p.Shape, p.Prog, true)
}
