package checks

import (
	"encoding/json"
	"fmt"
	"strings"

	"verif/harness/internal/core"
	"verif/harness/internal/dml"
	"verif/harness/internal/drv"
)

// Extra family for C05: one table under two names in a multi-table UPDATE / DELETE (FROM t a JOIN t b ...). The
// manual's multi-table forms take "any one of table name aliases specified in from_clause" as targets and do not
// exclude two aliases of one table. Both targets are the same table, so the statement's edit is the union of what
// is specified through either alias.
//
// Bound: a three-row table (id, v, w), as a file and as a temporary table; join conditions that pair every row of a
// with at most one row of b and vice versa (all 9 single pairs, the diagonal, the shifted diagonal, the anti-diagonal;
// for DELETE also a.id < b.id), optionally restricted by a WHERE clause; targets {a, b}, {b, a}, {a}, {b}; SET lists
// with constants and with values taken from the other alias. Every case is executed 6 times (the order in which
// csvq installs the changed copies varies from run to run).
//
// Oracle (reference computed from the pairs of the join): UPDATE - the cell (row, column) named through either alias
// holds the assigned value, every other cell is unchanged; DELETE - exactly the rows paired through a target alias are
// gone; row and column order unchanged; the reported counts are the per-alias counts or the count of distinct rows;
// the committed file is the table. Cases in which one cell is assigned two different values are not compared.
func init() {
	core.Extend("C05", "family selfjoin: one table under two aliases in a multi-table UPDATE / DELETE (3 rows; file and temporary table; 13 (DELETE: 14) join conditions pairing rows one to one x with / without WHERE x "+
		"targets a+b, b+a, a, b x 8 SET lists (constants, values of the other alias, the same column through both aliases) x 6 runs (thorough: 16)); oracle: reference computed from the pairs of the join - the union of the edits named through either alias, "+
		"all other cells and the order unchanged, counts per alias or of distinct rows, committed file", c05SelfJoinRun)
}

type c05SJCase struct {
	Family string `json:"family"`
	Table  string `json:"table"` // file | temporary
	SQL    string `json:"sql"`
	Verb   string `json:"verb"`
	Want   string `json:"want"`   // the table afterwards, CSV
	Counts [2]int `json:"counts"` // rows changed through a / through b (-1: not a target)
	Union  int    `json:"union"`  // distinct rows changed
	Key    string `json:"key"`
}

var c05SJInit = [][3]string{{"1", "v1", "w1"}, {"2", "v2", "w2"}, {"3", "v3", "w3"}}

func c05SJCSV(rows [][3]string) string {
	s := "id,v,w\n"
	for _, r := range rows {
		s += r[0] + "," + r[1] + "," + r[2] + "\n"
	}
	return s
}

type c05SJCond struct {
	SQL  string
	Pair func(i, j int) bool // ids of the a-row and the b-row
}

func c05SJConds(forDelete bool) []c05SJCond {
	var out []c05SJCond
	for i := 1; i <= 3; i++ {
		for j := 1; j <= 3; j++ {
			i, j := i, j
			out = append(out, c05SJCond{fmt.Sprintf("a.id = %d AND b.id = %d", i, j), func(x, y int) bool { return x == i && y == j }})
		}
	}
	out = append(out,
		c05SJCond{"a.id = b.id", func(x, y int) bool { return x == y }},
		c05SJCond{"a.id = b.id + 1", func(x, y int) bool { return x == y+1 }},
		c05SJCond{"a.id + 1 = b.id", func(x, y int) bool { return x+1 == y }},
		c05SJCond{"a.id + b.id = 4", func(x, y int) bool { return x+y == 4 }})
	if forDelete {
		out = append(out, c05SJCond{"a.id < b.id", func(x, y int) bool { return x < y }})
	}
	return out
}

// one SET item: alias.column = value; value is a constant or the other alias's column (read from the old table)
type c05SJSet struct {
	Alias, Col string
	Const      string
	FromCol    string // column of the OTHER alias
}

var c05SJSetLists = [][]c05SJSet{
	{{"a", "v", "A", ""}, {"b", "w", "B", ""}},
	{{"a", "v", "A", ""}, {"b", "v", "B", ""}},
	{{"a", "v", "", "w"}, {"b", "w", "", "v"}},
	{{"b", "w", "B", ""}, {"a", "w", "", "v"}, {"a", "v", "A", ""}},
	{{"a", "v", "A", ""}},
	{{"a", "v", "", "w"}},
	{{"b", "w", "B", ""}},
	{{"b", "w", "", "v"}},
}

func c05SJCases() []c05SJCase {
	var out []c05SJCase
	colIx := map[string]int{"id": 0, "v": 1, "w": 2}
	wheres := []struct {
		SQL  string
		Keep func(i, j int) bool
	}{{"", func(i, j int) bool { return true }}, {" WHERE a.id <> 2 OR b.id <> 2", func(i, j int) bool { return i != 2 || j != 2 }}}
	for _, table := range []string{"file", "temporary"} {
		for _, targets := range [][]string{{"a", "b"}, {"b", "a"}, {"a"}, {"b"}} {
			isT := map[string]bool{}
			for _, t := range targets {
				isT[t] = true
			}
			// DELETE
			for _, cond := range c05SJConds(true) {
				for _, wh := range wheres {
					del := [2]map[int]bool{{}, {}}
					for i := 1; i <= 3; i++ {
						for j := 1; j <= 3; j++ {
							if cond.Pair(i, j) && wh.Keep(i, j) {
								del[0][i], del[1][j] = true, true
							}
						}
					}
					var rows [][3]string
					union := 0
					for _, r := range c05SJInit {
						id := int(r[0][0] - '0')
						if (isT["a"] && del[0][id]) || (isT["b"] && del[1][id]) {
							union++
							continue
						}
						rows = append(rows, r)
					}
					counts := [2]int{-1, -1}
					if isT["a"] {
						counts[0] = len(del[0])
					}
					if isT["b"] {
						counts[1] = len(del[1])
					}
					sql := fmt.Sprintf("DELETE %s FROM t a JOIN t b ON %s%s", strings.Join(targets, ", "), cond.SQL, wh.SQL)
					out = append(out, c05SJCase{"selfjoin", table, sql, "deleted", c05SJCSV(rows), counts, union, "DELETE:" + strings.Join(targets, "+")})
				}
			}
			// UPDATE
			for li, list := range c05SJSetLists {
				usable := true
				for _, s := range list {
					if !isT[s.Alias] {
						usable = false
					}
				}
				if !usable {
					continue
				}
				for _, cond := range c05SJConds(false) {
					for _, wh := range wheres {
						rows := append([][3]string{}, c05SJInit...)
						assigned := map[[2]int]string{}
						touched := [2]map[int]bool{{}, {}}
						conflict := false
						for i := 1; i <= 3; i++ {
							for j := 1; j <= 3; j++ {
								if !cond.Pair(i, j) || !wh.Keep(i, j) {
									continue
								}
								for _, s := range list {
									row, other, ax := i, j, 0
									if s.Alias == "b" {
										row, other, ax = j, i, 1
									}
									val := s.Const
									if s.FromCol != "" {
										val = c05SJInit[other-1][colIx[s.FromCol]]
									}
									cell := [2]int{row, colIx[s.Col]}
									if old, ok := assigned[cell]; ok && old != val {
										conflict = true
									}
									assigned[cell] = val
									touched[ax][row] = true
								}
							}
						}
						if conflict {
							continue // one cell, two values: which one wins is not specified
						}
						for cell, val := range assigned {
							rows[cell[0]-1][cell[1]] = val
						}
						union := map[int]bool{}
						counts := [2]int{-1, -1}
						for ax, al := range []string{"a", "b"} {
							if isT[al] {
								counts[ax] = len(touched[ax])
								for r := range touched[ax] {
									union[r] = true
								}
							}
						}
						var sets []string
						for _, s := range list {
							v := "'" + s.Const + "'"
							if s.FromCol != "" {
								o := "b"
								if s.Alias == "b" {
									o = "a"
								}
								v = o + "." + s.FromCol
							}
							sets = append(sets, s.Alias+"."+s.Col+" = "+v)
						}
						sql := fmt.Sprintf("UPDATE %s SET %s FROM t a JOIN t b ON %s%s", strings.Join(targets, ", "), strings.Join(sets, ", "), cond.SQL, wh.SQL)
						out = append(out, c05SJCase{"selfjoin", table, sql, "updated", c05SJCSV(rows), counts, len(union), fmt.Sprintf("UPDATE:%s:set-list-%d", strings.Join(targets, "+"), li)})
					}
				}
			}
		}
	}
	return out
}

func c05SJTableCSV(env *drv.Env) (string, error) {
	r := env.Exec("SELECT * FROM t;")
	if r.Panic != nil {
		return "", fmt.Errorf("panic: %v", r.Panic)
	}
	if r.Err != nil {
		return "", r.Err
	}
	if len(r.Views) == 0 {
		return "", fmt.Errorf("no result set")
	}
	v := r.Views[len(r.Views)-1]
	s := strings.Join(drv.Header(v), ",") + "\n"
	for _, row := range drv.Rows(v) {
		p := make([]string, len(row))
		for i, x := range row {
			p[i] = c01AttrText(x)
		}
		s += strings.Join(p, ",") + "\n"
	}
	return s, nil
}

const c05SJRuns = 6 // thorough: 16

func c05SJOne(c *core.Ctx, dir string, k c05SJCase) {
	two := k.Counts[0] >= 0 && k.Counts[1] >= 0
	class := "one-target"
	if two {
		class = "both-aliases-are-targets"
	}
	sig := func(what string) string {
		return "selfjoin:" + strings.Fields(k.SQL)[0] + ":" + class + ":" + what
	}
	initial := c05SJCSV(c05SJInit)
	c.Eval("selfjoin|"+k.Table+"|"+k.SQL, k.Want != initial)
	runs := c05SJRuns
	if c.Thorough() {
		runs = 16
	}
	for run := 0; run < runs; run++ {
		drv.ClearDir(dir)
		if k.Table == "file" {
			drv.WriteFiles(dir, map[string]string{"t.csv": initial})
		}
		env := drv.NewText(dir)
		prog := ""
		if k.Table == "temporary" {
			prog = "DECLARE t VIEW (id, v, w); INSERT INTO t VALUES (1, 'v1', 'w1'), (2, 'v2', 'w2'), (3, 'v3', 'w3'); "
			if r := env.Exec(prog); r.Err != nil || r.Panic != nil {
				env.Close()
				c.Violate("harness:setup", fmt.Sprintf("%s: %v %v", prog, r.Err, r.Panic), nil)
				return
			}
		}
		where := fmt.Sprintf("%s table t = %q: %s%s; (run %d of %d)", k.Table, initial, prog, k.SQL, run+1, runs)
		r := env.Exec(k.SQL + ";")
		if r.Panic != nil || r.Err != nil {
			env.Close()
			// the manual does not exclude the form; a refusal would at least have to leave the table alone - but a
			// statement the manual's grammar admits is expected to run
			c.Violate(sig("refused"), fmt.Sprintf("%s: error %v panic %v", where, r.Err, r.Panic), k)
			return
		}
		got, err := c05SJTableCSV(env)
		if err != nil {
			env.Close()
			c.Violate(sig("table-unreadable-afterwards"), where+": "+err.Error(), k)
			return
		}
		if got != k.Want {
			env.Close()
			c.Violate(sig("table-differs"), fmt.Sprintf("%s\n    log: %q\n    csvq:      %q\n    reference: %q", where, strings.TrimSpace(r.Out), got, k.Want), k)
			return
		}
		// reported: one line per target alias with its count, or the distinct rows of the table once
		lines, _ := dml.ParseLog(r.Out)
		okLog := false
		var per []int
		for _, n := range k.Counts {
			if n >= 0 {
				per = append(per, n)
			}
		}
		if len(lines) == len(per) {
			okLog = true
			used := make([]bool, len(per))
			for _, l := range lines {
				found := false
				for i, n := range per {
					if !used[i] && l.N == n && l.Verb == k.Verb {
						used[i], found = true, true
						break
					}
				}
				okLog = okLog && found
			}
		}
		if !okLog && len(lines) == 1 && lines[0].N == k.Union && lines[0].Verb == k.Verb {
			okLog = true
		}
		sum := 0
		for _, n := range per {
			sum += n
		}
		if !okLog || (r.Affected != sum && r.Affected != k.Union) {
			env.Close()
			c.Violate(sig("reported-count"), fmt.Sprintf("%s: Tx.AffectedRows = %d, log %q; the reference: per alias %v, distinct rows %d", where, r.Affected, strings.TrimSpace(r.Out), per, k.Union), k)
			return
		}
		if k.Table == "file" {
			rc := env.Exec("COMMIT;")
			file := drv.DirSnapshot(dir)["t.csv"]
			if rc.Err != nil || rc.Panic != nil || file != k.Want {
				env.Close()
				c.Violate(sig("committed-file"), fmt.Sprintf("%s COMMIT: %v %v\n    t.csv:     %q\n    reference: %q", where, rc.Err, rc.Panic, file, k.Want), k)
				return
			}
		}
		env.Close()
	}
}

func c05SelfJoinRun(c *core.Ctx) {
	dir := core.Scratch("c05selfjoin")
	for i, k := range c05SJCases() {
		if !c.Mine(int64(i)) {
			continue
		}
		if c.Expired() {
			c.Incomplete("time budget reached in family selfjoin")
			return
		}
		c05SJOne(c, dir, k)
	}
}

func c05SelfJoinReplay(c *core.Ctx, payload json.RawMessage) bool {
	var k c05SJCase
	if json.Unmarshal(payload, &k) != nil || k.Family != "selfjoin" {
		return false
	}
	fmt.Printf("replaying family selfjoin: %s table, %s\n", k.Table, k.SQL)
	c05SJOne(c, core.Scratch("c05selfjoin-replay"), k)
	return true
}
