package checks

import (
	"encoding/json"
	"fmt"
	"strings"

	"verif/harness/internal/core"
	"verif/harness/internal/drv"
	"verif/harness/internal/procx"
)

// Extra family for C02: flags that say how results are SHOWN (ANSI colours, how wide a character counts in a text
// table, execution statistics) are in force while a table FILE is written at COMMIT. A table file is not a terminal:
// whatever the session's display flags are, the committed file has to load back as the table that was written.
//
// Cases: 8 file dialects (CSV, TSV, LTSV, fixed-length, JSON and JSON Lines, the latter two also with the table
// attribute PRETTY_PRINT) x 2 programs (CREATE TABLE .. AS SELECT; an existing file written by a process without any
// display flag, then UPDATE - for the pretty-printed dialects preceded by ALTER TABLE .. SET PRETTY_PRINT TO TRUE) x
// 11 flag settings (each of --color, --east-asian-encoding, --count-diacritical-sign, --count-format-code, --stats
// given on the command line or by SET @@.. in the program, and all five on the command line). The cells hold a CJK
// character, an ambiguous-width character, a combining sign and a zero-width space, so that every flag has something
// to count.
//
// Oracle: a fresh process without display flags reads the committed file back (SELECT *, printed as CSV) as the
// table written. If it does not, the same program is run without the display flag: when that file reads back the
// same wrong way the flag is not the cause and nothing is reported here (the main family judges the dialect itself).
func init() {
	core.Extend("C02", "family display-flags: 8 file dialects (CSV, TSV, LTSV, fixed-length, JSON, JSON Lines, the two JSON ones also with PRETTY_PRINT) x 2 programs (CREATE TABLE AS SELECT + COMMIT; UPDATE of an existing file + COMMIT, for pretty-printed tables after ALTER TABLE SET PRETTY_PRINT) x "+
		"11 settings of the display flags (--color, --east-asian-encoding, --count-diacritical-sign, --count-format-code, --stats, each on the command line or by SET, and all together) on the real CLI; "+
		"oracle: a fresh process without display flags reads the committed file back as the table written (a dialect that reads back wrong without the flag as well is left to the main family)", c02DisplayRun)
}

var c02DisplayDialects = []struct {
	name, file string
	imp        []string // flags a process needs to read the file
	attr       string   // statement that gives the table its dialect
}{
	{"CSV", "t.csv", nil, ""},
	{"TSV", "t.tsv", nil, ""},
	{"LTSV", "t.ltsv", nil, ""},
	{"FIXED", "t.txt", []string{"-i", "FIXED"}, "ALTER TABLE `t.txt` SET FORMAT TO 'FIXED';"},
	{"JSON", "t.json", nil, ""},
	{"JSON+pretty", "t.json", nil, "ALTER TABLE `t.json` SET PRETTY_PRINT TO TRUE;"},
	{"JSONL", "t.jsonl", nil, ""},
	{"JSONL+pretty", "t.jsonl", nil, "ALTER TABLE `t.jsonl` SET PRETTY_PRINT TO TRUE;"},
}

var c02DisplayFlags = []struct{ cli, set string }{
	{"--color", "COLOR"},
	{"--east-asian-encoding", "EAST_ASIAN_ENCODING"},
	{"--count-diacritical-sign", "COUNT_DIACRITICAL_SIGN"},
	{"--count-format-code", "COUNT_FORMAT_CODE"},
	{"--stats", "STATS"},
}

type c02DisplayCase struct {
	Family  string `json:"family"`
	Dialect string `json:"dialect"`
	Op      string `json:"program"` // create | update
	Flag    string `json:"flag"`    // --x | SET:X | all
}

const c02DisplaySelect = "SELECT 1 AS id, 'a' AS v UNION ALL SELECT 2, '\u3042\u00b1' UNION ALL SELECT 3, 'e\u0301\u200bz'"

func c02DisplayOne(c *core.Ctx, dir string, k c02DisplayCase) {
	di := -1
	for i, d := range c02DisplayDialects {
		if d.name == k.Dialect {
			di = i
		}
	}
	if di < 0 {
		return
	}
	d := c02DisplayDialects[di]
	var cli []string
	set := ""
	switch {
	case k.Flag == "all":
		for _, f := range c02DisplayFlags {
			cli = append(cli, f.cli)
		}
	case strings.HasPrefix(k.Flag, "SET:"):
		set = "SET @@" + strings.TrimPrefix(k.Flag, "SET:") + " TO TRUE; "
	default:
		cli = []string{k.Flag}
	}
	create := "CREATE TABLE `" + d.file + "` (id, v) AS " + c02DisplaySelect + "; "
	want := "id,v\n1,a\n2,\u3042\u00b1\n3,e\u0301\u200bz\n"
	var progs [][]string // the processes that write, in order; the display flag goes to the last one
	switch k.Op {
	case "create":
		progs = [][]string{{create + d.attr + " COMMIT;"}}
	case "update":
		first := create + " COMMIT;"
		if d.name == "FIXED" {
			first = create + d.attr + " COMMIT;"
		}
		second := "UPDATE `" + d.file + "` SET v = 'zz' WHERE id = 1; COMMIT;"
		if strings.HasSuffix(d.name, "+pretty") {
			second = d.attr + " " + second
		}
		progs = [][]string{{first}, append(append([]string{}, d.imp...), second)}
		want = "id,v\n1,zz\n2,\u3042\u00b1\n3,e\u0301\u200bz\n"
	default:
		return
	}
	// flagged = false: the same processes without the display flag
	run := func(flagged bool) (readBack string, ok bool, what string) {
		drv.ClearDir(dir)
		for i, p := range progs {
			args := []string{"-q"}
			prog := p[len(p)-1]
			if i == len(progs)-1 && flagged {
				args = append(args, cli...)
				prog = set + prog
			}
			args = append(append(args, p[:len(p)-1]...), prog)
			r := procx.Exec(procx.Run{Dir: dir, Args: args})
			what = "csvq " + strings.Join(args, " ")
			if r.Killed || r.Exit < 0 {
				c.Incomplete("family display-flags: a csvq process did not end by itself")
				return "", false, what
			}
			if r.Exit != 0 {
				return fmt.Sprintf("exit %d: %s", r.Exit, strings.Join(strings.Fields(r.Stderr), " ")), true, what
			}
		}
		rb := procx.Exec(procx.Run{Dir: dir, Args: append(append([]string{"-q", "-f", "CSV"}, d.imp...), "SELECT * FROM `"+d.file+"`")})
		if rb.Killed || rb.Exit < 0 {
			c.Incomplete("family display-flags: a csvq process did not end by itself")
			return "", false, what
		}
		if rb.Exit != 0 {
			return fmt.Sprintf("cannot be loaded: exit %d: %s", rb.Exit, strings.Join(strings.Fields(rb.Stderr), " ")), true, what
		}
		return rb.Stdout, true, what
	}
	got, ok, what := run(true)
	if !ok {
		return
	}
	file := drv.DirSnapshot(dir)[d.file]
	c.Eval("display|"+k.Dialect+"|"+k.Op+"|"+k.Flag, true)
	if got == want {
		return
	}
	// a finding is believed only if it shows again when the case is executed a second time
	if again, ok, _ := run(true); !ok || again != got {
		c.Observe("unreproducible_findings_dropped", "display-flags "+k.Dialect)
		return
	}
	file = drv.DirSnapshot(dir)[d.file]
	plain, ok, _ := run(false)
	if !ok {
		return
	}
	if plain == got {
		c.Observe("display_flags_dialects_that_read_back_differently_without_the_flag_too", k.Dialect+" "+k.Op)
		return
	}
	fl := k.Flag
	if k.Flag != "all" {
		fl = strings.ToLower(strings.ReplaceAll(strings.TrimPrefix(strings.TrimPrefix(k.Flag, "SET:"), "--"), "_", "-"))
	}
	c.Violate("display-flags:committed-file-depends-on-display-flag:"+fl+":"+k.Dialect,
		fmt.Sprintf("%s leaves %s = %q, which a fresh process reads back as %q; the table is %q, and without the flag the file reads back as %q", what, d.file, clip(file), clip(got), want, clip(plain)), k)
}

func c02DisplayRun(c *core.Ctx) {
	if !c02Only(c, "display-flags") {
		return
	}
	dir := core.Scratch("c02display")
	var flags []string
	for _, f := range c02DisplayFlags {
		flags = append(flags, f.cli, "SET:"+f.set)
	}
	flags = append(flags, "all")
	var idx int64
	for _, d := range c02DisplayDialects {
		for _, op := range []string{"create", "update"} {
			for _, f := range flags {
				idx++
				if !c.Mine(idx) {
					continue
				}
				if c.Expired() {
					c.Incomplete("time budget reached in family display-flags")
					return
				}
				c02DisplayOne(c, dir, c02DisplayCase{"display-flags", d.name, op, f})
			}
		}
	}
}

func c02DisplayReplay(c *core.Ctx, payload json.RawMessage) bool {
	var k c02DisplayCase
	if json.Unmarshal(payload, &k) != nil || k.Family != "display-flags" {
		return false
	}
	fmt.Printf("replaying family display-flags: %+v\n", k)
	c02DisplayOne(c, core.Scratch("c02display-replay"), k)
	return true
}
