//go:build verifx

package checks

import (
	"context"
	"encoding/json"
	"fmt"
	"io"
	"os"
	"path/filepath"
	"regexp"
	"sort"
	"strconv"
	"strings"
	"time"

	"github.com/mithrandie/csvq/lib/file"
	"github.com/mithrandie/csvq/lib/query"

	"github.com/mithrandie/csvq/lib/verifshim/vrt"
	"verif/harness/internal/core"
	"verif/harness/internal/drv"
	"verif/harness/internal/fsx"
)

func init() {
	core.Register(&core.Check{
		ID:             "C09",
		ThoroughBudget: 45 * time.Minute,
		Level:          "model_checking",
		Rule: "each scenario = 2-3 simulated csvq processes (goroutines running the real lib/file handler code, or the real query stack, on one tmpfs directory; flock is per open file description so they conflict like processes); " +
			"ALL interleavings of their file-system steps, retry waits and wait-timeouts are explored by DFS with a visited set over global states (directory contents + each process's observation log); " +
			"non-trivial state = at least two processes have started and not finished; invariants checked in every state, end-to-end oracles in every terminal state",
		Assume: []string{"processes interleave at file-system-step granularity (each step atomic, as system calls are)", "flock between open file descriptions of one OS process behaves like flock between processes (Linux)",
			"retry loops are memoryless (identical consecutive retry iterations are merged in the state key)"},
		Run:         c09Run,
		Replay:      c09Replay,
		WorkerProcs: 1,
	})
}

const c09Timeout = 10 * time.Second // virtual: fired by the explorer only
const c09Retry = 10 * time.Millisecond

func readAll(fp *os.File) string {
	fp.Seek(0, io.SeekStart)
	b, _ := io.ReadAll(fp)
	return string(b)
}

func parseN(content string) (int, bool) {
	// "n\n<k>\n"
	if !strings.HasPrefix(content, "n\n") || !strings.HasSuffix(content, "\n") {
		return 0, false
	}
	k, err := strconv.Atoi(strings.TrimSpace(content[2:]))
	return k, err == nil
}

func errClass(err error) string {
	if err == nil {
		return "ok"
	}
	s := fmt.Sprintf("%T", err)
	if _, ok := err.(*file.CompositeError); ok {
		s += "(cleanup failed too)"
	}
	return s
}

// narrow-seam process bodies ----------------------------------------------------------------------

func bodyIncr(table string, commit bool) func(p *fsx.Proc) {
	return func(p *fsx.Proc) {
		c := file.NewContainer()
		path := filepath.Join(p.Dir, table)
		h, err := c.CreateHandlerForUpdate(context.Background(), path, c09Timeout, c09Retry)
		if err != nil {
			p.Obs("W-fail " + table + " " + errClass(err))
			return
		}
		p.Obs("W-enter " + table)
		p.Yield("in-section")
		content := readAll(h.File())
		n, ok := parseN(content)
		p.Obs(fmt.Sprintf("W-read %s %q", table, content))
		if !ok {
			_ = c.Close(h)
			p.Obs("W-exit " + table)
			return
		}
		fp, _ := h.FileForUpdate()
		fp.Truncate(0)
		fp.Seek(0, io.SeekStart)
		fmt.Fprintf(fp, "n\n%d\n", n+1)
		p.Yield("in-section")
		if commit {
			err = c.Commit(h)
			p.Obs("W-commit " + table + " " + errClass(err))
		} else {
			err = c.Close(h)
			p.Obs("W-rollback " + table + " " + errClass(err))
		}
		p.Obs("W-exit " + table)
	}
}

func bodyRead(table string) func(p *fsx.Proc) {
	return func(p *fsx.Proc) {
		c := file.NewContainer()
		path := filepath.Join(p.Dir, table)
		h, err := c.CreateHandlerForRead(context.Background(), path, c09Timeout, c09Retry)
		if err != nil {
			p.Obs("R-fail " + table + " " + errClass(err))
			return
		}
		p.Obs("R-enter " + table)
		p.Yield("in-section")
		content := readAll(h.File())
		p.Obs(fmt.Sprintf("R-read %s %q", table, content))
		err = c.Close(h)
		p.Obs("R-exit " + table + " " + errClass(err))
	}
}

// two tables updated in one "transaction", in the given order (lock-order inversion scenario)
func bodyIncr2(t1, t2 string) func(p *fsx.Proc) {
	return func(p *fsx.Proc) {
		c := file.NewContainer()
		var hs []*file.Handler
		for _, t := range []string{t1, t2} {
			h, err := c.CreateHandlerForUpdate(context.Background(), filepath.Join(p.Dir, t), c09Timeout, c09Retry)
			if err != nil {
				p.Obs("W-fail " + t + " " + errClass(err))
				// transaction fails: release what is held (rollback)
				for i, hh := range hs {
					_ = c.Close(hh)
					p.Obs("W-exit " + []string{t1, t2}[i])
				}
				return
			}
			p.Obs("W-enter " + t)
			content := readAll(h.File())
			n, _ := parseN(content)
			p.Obs(fmt.Sprintf("W-read %s %q", t, content))
			fp, _ := h.FileForUpdate()
			fmt.Fprintf(fp, "n\n%d\n", n+1)
			hs = append(hs, h)
		}
		for i, h := range hs {
			err := c.Commit(h)
			p.Obs("W-commit " + []string{t1, t2}[i] + " " + errClass(err))
			p.Obs("W-exit " + []string{t1, t2}[i])
		}
	}
}

func bodyCreate(table string) func(p *fsx.Proc) {
	return func(p *fsx.Proc) {
		c := file.NewContainer()
		h, err := c.CreateHandlerForCreate(filepath.Join(p.Dir, table))
		if err != nil {
			p.Obs("C-fail " + table + " " + errClass(err))
			return
		}
		p.Obs("W-enter " + table)
		fp, _ := h.FileForUpdate()
		fmt.Fprintf(fp, "n\n%d\n", 100*p.ID)
		p.Yield("in-section")
		err = c.Commit(h)
		p.Obs("C-commit " + table + " " + errClass(err))
		p.Obs("W-exit " + table)
	}
}

// full-stack process bodies: one csvq process image (Session+Transaction+Processor) running a program
// the way `csvq "<program>"` does (auto-commit at a normal end, rollback + release on error) -----------

func sqlBodies(dir string, programs ...string) []func(*fsx.Proc) {
	var out []func(*fsx.Proc)
	for _, prog := range programs {
		env := drv.New(dir) // built outside scheduling: reading configuration is not part of the protocol
		env.Tx.AutoCommit = true
		prog := prog
		out = append(out, func(p *fsx.Proc) {
			r := env.Exec(prog)
			var vals []string
			for _, v := range r.Views {
				vals = append(vals, drv.RowsKey(drv.Rows(v)))
			}
			res := "ok"
			if r.Panic != nil {
				res = fmt.Sprintf("PANIC %v", r.Panic)
			} else if r.Err != nil {
				res = "ERR " + sqlErrClass(r.Err)
			}
			p.Obs(fmt.Sprintf("SQL %q views=%v -> %s", prog, vals, res))
			env.Close() // deferred AutoRollback + ReleaseResourcesWithErrors of the CLI
			p.Obs("closed")
		})
	}
	return out
}

func sqlErrClass(err error) string {
	switch err.(type) {
	case *query.FileLockTimeoutError:
		return "lock-timeout"
	case *query.ContextDone:
		return "lock-timeout(context done)"
	}
	return fmt.Sprintf("%T: %s", err, strings.ReplaceAll(err.Error(), "\n", " | "))
}

var reSelVal = regexp.MustCompile(`S:"(-?[0-9]+)"`)

func c09SQLOracle(init int) func(w *fsx.World) []fsx.Violation { return c09SQLOracleOn("t", init) }

// c09SQLOracleOn judges the counter table tbl (file tbl.csv).
// c09SeqInsertOracle: every program is one statement that appends the successor of the greatest n it reads from t.
// Serialised, k committed programs leave the rows init, init+1, ..., init+k.
func c09SeqInsertOracle(init int) func(w *fsx.World) []fsx.Violation {
	return func(w *fsx.World) []fsx.Violation {
		if !w.Final {
			return nil
		}
		var out []fsx.Violation
		committed := 0
		for _, p := range w.Procs {
			for _, l := range p.ObsWithPrefix("SQL ") {
				if strings.HasSuffix(l, "-> ok") {
					committed++
				} else if res := l[strings.LastIndex(l, "-> ")+3:]; !strings.HasPrefix(res, "ERR lock-timeout") {
					out = append(out, fsx.Violation{Sig: "unexpected-error-or-panic", Msg: p.Name + ": " + l})
				}
			}
		}
		content := w.Files["t.csv"]
		lines := strings.Split(strings.TrimSpace(content), "\n")
		var vals []int
		for _, l := range lines[1:] {
			k, _ := strconv.Atoi(strings.TrimSpace(l))
			vals = append(vals, k)
		}
		sort.Ints(vals)
		okSeq := len(vals) == committed+1
		for i, v := range vals {
			if v != init+i {
				okSeq = false
			}
		}
		if !okSeq {
			out = append(out, fsx.Violation{Sig: "I2:lost-update", Msg: fmt.Sprintf("t.csv ends as %q: %d programs committed an INSERT of MAX(n) + 1 starting from %d, the values must be %d..%d", content, committed, init, init, init+committed)})
		}
		for name := range w.Files {
			if strings.HasPrefix(name, ".") {
				out = append(out, fsx.Violation{Sig: "leftover-control-file-after-clean-end", Msg: "all processes ended yet " + name + " remains"})
			}
		}
		return out
	}
}

func c09SQLOracleOn(tbl string, init int) func(w *fsx.World) []fsx.Violation {
	return func(w *fsx.World) []fsx.Violation {
		var out []fsx.Violation
		if !w.Final {
			return nil
		}
		// possible numbers of committed increments: a program that ended well committed every increment not rolled
		// back; one that ended by a lock time-out committed those before one of its explicit COMMITs (the statement
		// that timed out is not recorded, so every prefix is possible)
		possible := map[int]bool{0: true}
		type rd struct {
			p string
			v int
		}
		var reads []rd
		for _, p := range w.Procs {
			for _, l := range p.ObsWithPrefix("SQL ") {
				ok := strings.HasSuffix(l, "-> ok")
				prog := l[:strings.Index(l, " views=")]
				own := map[int]bool{}
				pending, done := 0, 0
				for _, st := range strings.Split(prog, ";") {
					if !ok {
						own[done] = true // the time-out may have hit this statement
					}
					switch {
					case strings.Contains(st, "UPDATE "+tbl+" SET"):
						pending++
					case strings.Contains(st, "COMMIT"):
						done, pending = done+pending, 0
					case strings.Contains(st, "ROLLBACK"):
						pending = 0
					}
				}
				if ok {
					own = map[int]bool{done + pending: true} // automatic commit at the normal end
				}
				next := map[int]bool{}
				for a := range possible {
					for b := range own {
						next[a+b] = true
					}
				}
				possible = next
				if !ok {
					res := l[strings.LastIndex(l, "-> ")+3:]
					if !strings.HasPrefix(res, "ERR lock-timeout") {
						out = append(out, fsx.Violation{Sig: "unexpected-error-or-panic", Msg: p.Name + ": " + l})
					}
				}
				for _, m := range reSelVal.FindAllStringSubmatch(l[strings.Index(l, " views="):], -1) {
					k, _ := strconv.Atoi(m[1])
					reads = append(reads, rd{p.Name, k})
				}
			}
		}
		commits := 0
		var poss []int
		for k := range possible {
			poss = append(poss, k)
			if k > commits {
				commits = k
			}
		}
		sort.Ints(poss)
		content, exists := w.Files[tbl+".csv"]
		n, okN := parseN(content)
		if !exists || !okN || !possible[n-init] {
			out = append(out, fsx.Violation{Sig: "I2:lost-update", Msg: fmt.Sprintf(tbl+".csv ends as %q (exists=%v); the programs committed %v increments from %d", content, exists, poss, init)})
		}
		for _, r := range reads {
			if r.v < init || r.v > init+commits+1 {
				out = append(out, fsx.Violation{Sig: "I3:reader-saw-impossible-value", Msg: fmt.Sprintf("%s selected %d; committed values are %d..%d", r.p, r.v, init, init+commits)})
			}
		}
		for name := range w.Files {
			if strings.HasPrefix(name, ".") {
				out = append(out, fsx.Violation{Sig: "leftover-control-file-after-clean-end", Msg: "all processes ended yet " + name + " remains"})
				break
			}
		}
		return out
	}
}

// oracle ----------------------------------------------------------------------------------------

func c09Oracle(tables map[string]int) func(w *fsx.World) []fsx.Violation {
	return func(w *fsx.World) []fsx.Violation {
		var out []fsx.Violation
		// I1: mutual exclusion of sections, in every state
		for t := range tables {
			var inW, inR []string
			for _, p := range w.Procs {
				we, wx, re, rx := 0, 0, 0, 0
				for _, l := range p.Log() {
					switch {
					case l == "obs:W-enter "+t:
						we++
					case l == "obs:W-exit "+t:
						wx++
					case l == "obs:R-enter "+t:
						re++
					case strings.HasPrefix(l, "obs:R-exit "+t):
						rx++
					}
				}
				if we > wx {
					inW = append(inW, p.Name)
				}
				if re > rx {
					inR = append(inR, p.Name)
				}
			}
			if len(inW) > 1 {
				out = append(out, fsx.Violation{Sig: "I1:two-writers-hold-the-table", Msg: fmt.Sprintf("%v hold %s for update at the same time", inW, t)})
			}
			if len(inW) > 0 && len(inR) > 0 {
				out = append(out, fsx.Violation{Sig: "I1:writer-and-reader-hold-the-table", Msg: fmt.Sprintf("%v holds %s for update while %v is reading it", inW, t, inR)})
			}
		}
		// I3: whatever anybody reads is a complete committed content
		for _, p := range w.Procs {
			for _, l := range p.Log() {
				if strings.HasPrefix(l, "obs:R-read ") || strings.HasPrefix(l, "obs:W-read ") {
					q := l[strings.Index(l, `"`):]
					content, _ := strconv.Unquote(q)
					if _, ok := parseN(content); !ok {
						out = append(out, fsx.Violation{Sig: "I3:read-of-incomplete-content", Msg: fmt.Sprintf("%s: %s", p.Name, l)})
					}
				}
			}
		}
		// I3 (freshness): a reader that has been granted the table and has not given it back read what the table file contains
		// ("while a process is reading it none can start writing": the contents cannot have changed since the grant)
		for _, p := range w.Procs {
			if l := p.Log(); len(l) > 0 && strings.HasPrefix(l[len(l)-1], "obs:R-read ") {
				f := strings.SplitN(strings.TrimPrefix(l[len(l)-1], "obs:R-read "), " ", 2)
				content, _ := strconv.Unquote(f[1])
				if disk, ok := w.Files[f[0]]; ok && disk != content {
					out = append(out, fsx.Violation{Sig: "I3:granted-reader-read-other-than-the-table-contains", Msg: fmt.Sprintf("%s holds the read lock of %s and read %q from its handler; the table file contains %q", p.Name, f[0], content, disk)})
				}
			}
		}
		if !w.Final {
			return out
		}
		// terminal state: I2 serialisability / no lost update, leftovers
		for t, init := range tables {
			var reads []int
			commits := 0
			for _, p := range w.Procs {
				var lastRead = -1
				for _, l := range p.Log() {
					if strings.HasPrefix(l, "obs:W-read "+t+" ") {
						content, _ := strconv.Unquote(l[strings.Index(l, `"`):])
						lastRead, _ = parseN(content)
					}
					if l == "obs:W-commit "+t+" ok" {
						commits++
						reads = append(reads, lastRead)
					}
					if strings.HasPrefix(l, "obs:W-commit "+t+" ") && l != "obs:W-commit "+t+" ok" {
						out = append(out, fsx.Violation{Sig: "commit-error:" + l[len("obs:W-commit "+t+" "):], Msg: p.Name + ": " + l})
					}
				}
			}
			content, exists := w.Files[t]
			if init < 0 { // table created by the scenario
				continue
			}
			if !exists {
				out = append(out, fsx.Violation{Sig: "I2:table-missing-at-the-end", Msg: t + " does not exist after all processes ended"})
				continue
			}
			n, ok := parseN(content)
			if !ok || n != init+commits {
				out = append(out, fsx.Violation{Sig: "I2:lost-update", Msg: fmt.Sprintf("%s ends as %q after %d committed increments from %d", t, content, commits, init)})
			}
			sort.Ints(reads)
			for i, r := range reads {
				if r != init+i {
					out = append(out, fsx.Violation{Sig: "I2:committed-writers-not-serialised", Msg: fmt.Sprintf("committed writers of %s read %v (initial value %d)", t, reads, init)})
					break
				}
			}
			for _, p := range w.Procs {
				for _, l := range p.Log() {
					if strings.HasPrefix(l, "obs:R-read "+t+" ") {
						content, _ := strconv.Unquote(l[strings.Index(l, `"`):])
						if k, ok := parseN(content); ok && (k < init || k > init+commits) {
							out = append(out, fsx.Violation{Sig: "I3:reader-saw-uncommitted-value", Msg: fmt.Sprintf("%s read %d from %s; committed values are %d..%d", p.Name, k, t, init, init+commits)})
						}
					}
				}
			}
		}
		for name := range w.Files {
			if strings.HasPrefix(name, ".") {
				out = append(out, fsx.Violation{Sig: "leftover-control-file-after-clean-end", Msg: "all processes ended (commit, rollback or timeout) yet " + name + " remains"})
				break
			}
		}
		for _, p := range w.Procs {
			if !p.Done() {
				out = append(out, fsx.Violation{Sig: "I5:process-never-ends", Msg: p.Name + " is not finished in a terminal state"})
			}
		}
		return out
	}
}

type c09Scenario struct {
	name         string
	tables       map[string]int // initial counter (-1: not existing initially)
	bodies       func(dir string) []func(*fsx.Proc)
	anywhere     bool
	thoroughOnly bool
	sql          bool
	counter      string // sql scenarios: the counter table the oracle judges (default t)
	heldFrom     int    // sql scenarios: from its heldFrom-th statement on, until it starts to commit, process 1 holds the counter table for update (0: not judged)
	noCounter    bool   // the final value is not judged (the first mention of the table is a plain read: the documented reload applies)
	seqInsert    bool   // sql scenarios: every program appends MAX(n)+1 - the final table holds init, init+1, ... without a gap or a repeat
	revToo       bool   // the statement ranges over Go maps (multi-table UPDATE/DELETE): explored once per map order, ascending and descending
	mapOrder     string // "" ascending, "rev" descending (set by c09Scenarios for the copy of a revToo scenario)
}

func c09Scenarios() []c09Scenario {
	var out []c09Scenario
	for _, s := range c09ScenarioList() {
		out = append(out, s)
		if s.revToo {
			s.name += " (map ranges descending)"
			s.mapOrder = "rev"
			out = append(out, s)
		}
	}
	return out
}

func c09ScenarioList() []c09Scenario {
	one := map[string]int{"t.csv": 5}
	two := map[string]int{"t.csv": 5, "u.csv": 7}
	return []c09Scenario{
		{name: "W|W", tables: one, bodies: func(string) []func(*fsx.Proc) {
			return []func(*fsx.Proc){bodyIncr("t.csv", true), bodyIncr("t.csv", true)}
		}},
		{name: "W|R", tables: one, bodies: func(string) []func(*fsx.Proc) { return []func(*fsx.Proc){bodyIncr("t.csv", true), bodyRead("t.csv")} }},
		{name: "R|R", tables: one, bodies: func(string) []func(*fsx.Proc) { return []func(*fsx.Proc){bodyRead("t.csv"), bodyRead("t.csv")} }},
		{name: "W|rollback", tables: one, bodies: func(string) []func(*fsx.Proc) {
			return []func(*fsx.Proc){bodyIncr("t.csv", true), bodyIncr("t.csv", false)}
		}},
		{name: "W|create-other", tables: map[string]int{"t.csv": 5, "new.csv": -1}, bodies: func(string) []func(*fsx.Proc) {
			return []func(*fsx.Proc){bodyIncr("t.csv", true), bodyCreate("new.csv")}
		}},
		{name: "create|create", tables: map[string]int{"new.csv": -1}, bodies: func(string) []func(*fsx.Proc) { return []func(*fsx.Proc){bodyCreate("new.csv"), bodyCreate("new.csv")} }},
		{name: "W(t,u)|W(u,t)", tables: two, bodies: func(string) []func(*fsx.Proc) {
			return []func(*fsx.Proc){bodyIncr2("t.csv", "u.csv"), bodyIncr2("u.csv", "t.csv")}
		}},
		{name: "W|W timeout-anywhere", tables: one, anywhere: true, bodies: func(string) []func(*fsx.Proc) {
			return []func(*fsx.Proc){bodyIncr("t.csv", true), bodyIncr("t.csv", true)}
		}},
		{name: "W|R timeout-anywhere", tables: one, anywhere: true, bodies: func(string) []func(*fsx.Proc) { return []func(*fsx.Proc){bodyIncr("t.csv", true), bodyRead("t.csv")} }},
		{name: "sql INC|INC", tables: one, sql: true, bodies: func(d string) []func(*fsx.Proc) {
			return sqlBodies(d, "UPDATE t SET n = n + 1;", "UPDATE t SET n = n + 1;")
		}},
		{name: "sql SEL,INC|INC", tables: one, sql: true, bodies: func(d string) []func(*fsx.Proc) {
			return sqlBodies(d, "SELECT n FROM t; UPDATE t SET n = n + 1;", "UPDATE t SET n = n + 1;")
		}},
		{name: "sql SELFU,INC|SEL,INC", tables: one, sql: true, bodies: func(d string) []func(*fsx.Proc) {
			return sqlBodies(d, "SELECT n FROM t FOR UPDATE; UPDATE t SET n = n + 1;", "SELECT n FROM t; UPDATE t SET n = n + 1;")
		}},
		// read-modify-write through a variable: the table is read by a locking SELECT with two sources
		{name: "sql SELFU(t JOIN u) u:=@n+1|INC u", tables: two, sql: true, counter: "u", heldFrom: 3, bodies: func(d string) []func(*fsx.Proc) {
			return sqlBodies(d, "VAR @n; SELECT u.n INTO @n FROM t JOIN u ON t.n > -1 FOR UPDATE; UPDATE u SET n = @n + 1;", "UPDATE u SET n = n + 1;")
		}},
		{name: "sql SELFU(t UNION ALL u),INC u|INC u", tables: two, sql: true, counter: "u", heldFrom: 2, bodies: func(d string) []func(*fsx.Proc) {
			return sqlBodies(d, "SELECT n FROM t WHERE n < 0 UNION ALL SELECT n FROM u FOR UPDATE; UPDATE u SET n = n + 1;", "UPDATE u SET n = n + 1;")
		}},
		{name: "sql SELFU(derived(t) JOIN t) t:=@n+1|INC", tables: one, sql: true, heldFrom: 3, noCounter: true, bodies: func(d string) []func(*fsx.Proc) {
			return sqlBodies(d, "VAR @n; SELECT t.n INTO @n FROM (SELECT MAX(n) AS m FROM t) AS mx JOIN t ON t.n = mx.m FOR UPDATE; UPDATE t SET n = @n + 1;", "UPDATE t SET n = n + 1;")
		}},
		// a locking SELECT holds its tables whatever it returns - also when it returns no record (check-then-insert), when it
		// runs through a cursor or fills variables
		{name: "sql held: SELFU t (no record)|INC t", tables: one, sql: true, heldFrom: 2, noCounter: true, bodies: func(d string) []func(*fsx.Proc) {
			return sqlBodies(d, "SELECT n FROM t WHERE n < 0 FOR UPDATE; SELECT 1; SELECT 'end';", "UPDATE t SET n = n + 1;")
		}},
		{name: "sql held: SELFU t INTO (no record)|INC t", tables: one, sql: true, heldFrom: 3, noCounter: true, bodies: func(d string) []func(*fsx.Proc) {
			return sqlBodies(d, "VAR @n; SELECT n INTO @n FROM t WHERE n < 0 FOR UPDATE; SELECT 1; SELECT 'end';", "UPDATE t SET n = n + 1;")
		}},
		{name: "sql held: cursor SELFU t (LIMIT 0)|INC t", tables: one, sql: true, heldFrom: 3, noCounter: true, thoroughOnly: true, bodies: func(d string) []func(*fsx.Proc) {
			return sqlBodies(d, "DECLARE cur CURSOR FOR SELECT n FROM t LIMIT 0 FOR UPDATE; OPEN cur; SELECT 1; SELECT 'end';", "UPDATE t SET n = n + 1;")
		}},
		// a joined UPDATE (explicit FROM clause) reads and writes its target in one critical section
		{name: "sql INC t FROM t JOIN u|INC t", tables: two, sql: true, bodies: func(d string) []func(*fsx.Proc) {
			return sqlBodies(d, "UPDATE t SET t.n = t.n + 1 FROM t JOIN u ON u.n > -1;", "UPDATE t SET n = n + 1;")
		}},
		{name: "sql INC x FROM u JOIN t x|INC t", tables: two, sql: true, thoroughOnly: true, bodies: func(d string) []func(*fsx.Proc) {
			return sqlBodies(d, "UPDATE x SET x.n = x.n + 1 FROM u JOIN t x ON u.n > -1;", "UPDATE t SET n = n + 1;")
		}},
		// every kind of data-changing statement holds its tables from its first step until the transaction ends: while the
		// first process runs a further statement, the second cannot install new contents of the table
		{name: "sql held: DELETE t|INC t", tables: one, sql: true, heldFrom: 2, noCounter: true, bodies: func(d string) []func(*fsx.Proc) {
			return sqlBodies(d, "DELETE FROM t WHERE n < 0; SELECT 1; SELECT 'end';", "UPDATE t SET n = n + 1;")
		}},
		{name: "sql held: UPDATE t,u|INC u", tables: two, sql: true, revToo: true, counter: "u", heldFrom: 2, noCounter: true, bodies: func(d string) []func(*fsx.Proc) {
			return sqlBodies(d, "UPDATE t, u SET t.n = t.n + 1, u.n = u.n FROM t JOIN u ON 1 = 1; SELECT 1; SELECT 'end';", "UPDATE u SET n = n + 1;")
		}},
		{name: "sql held: DELETE t,u|INC u", tables: two, sql: true, revToo: true, counter: "u", heldFrom: 2, noCounter: true, bodies: func(d string) []func(*fsx.Proc) {
			return sqlBodies(d, "DELETE t, u FROM t JOIN u ON t.n < 0; SELECT 1; SELECT 'end';", "UPDATE u SET n = n + 1;")
		}},
		// a read-only statement on the held table's file through an inline table function must not give the hold away
		{name: "sql held: INC t, inline read of t.csv|INC t", tables: one, sql: true, heldFrom: 2, bodies: func(d string) []func(*fsx.Proc) {
			return sqlBodies(d, "UPDATE t SET n = n + 1; SELECT COUNT(*) FROM CSV_INLINE(',', `"+d+"/t.csv`); SELECT 1; SELECT 'end';", "UPDATE t SET n = n + 1;")
		}},
		{name: "sql held: SELFU t, table function and inline reads of t.csv|INC t", tables: one, sql: true, heldFrom: 2, noCounter: true, thoroughOnly: true, bodies: func(d string) []func(*fsx.Proc) {
			return sqlBodies(d, "SELECT n FROM t FOR UPDATE; SELECT COUNT(*) FROM CSV(',', `t.csv`) x; SELECT COUNT(*) FROM CSV_INLINE(',', `"+d+"/t.csv`); SELECT 1; SELECT 'end';", "UPDATE t SET n = n + 1;")
		}},
		// statements that run other program text (SOURCE, EXECUTE, a prepared statement) are part of the transaction
		{name: "sql held: SELFU t, SOURCE, EXECUTE, prepared|INC t", tables: one, sql: true, heldFrom: 2, noCounter: true, bodies: func(d string) []func(*fsx.Proc) {
			os.WriteFile(filepath.Join(d, "src.sql"), []byte("SELECT 1;\n"), 0644)
			return sqlBodies(d, "SELECT n FROM t FOR UPDATE; SOURCE `"+d+"/src.sql`; EXECUTE 'SELECT 2'; PREPARE st FROM 'SELECT 3'; EXECUTE st; SELECT 4; SELECT 'end';", "UPDATE t SET n = n + 1;")
		}},
		// a data-changing statement whose own query reads the table it changes: read and write are one critical section
		{name: "sql INSERT t SELECT MAX(t)+1|same", tables: one, sql: true, seqInsert: true, bodies: func(d string) []func(*fsx.Proc) {
			return sqlBodies(d, "INSERT INTO t SELECT MAX(n) + 1 FROM t;", "INSERT INTO t SELECT MAX(n) + 1 FROM t;")
		}},
		{name: "sql INSERT t VALUES (subquery MAX(t)+1)|same", tables: one, sql: true, seqInsert: true, thoroughOnly: true, bodies: func(d string) []func(*fsx.Proc) {
			return sqlBodies(d, "INSERT INTO t VALUES ((SELECT MAX(n) + 1 FROM t));", "INSERT INTO t SELECT MAX(n) + 1 FROM t;")
		}},
		{name: "sql held: INSERT t|INC t", tables: one, sql: true, heldFrom: 2, noCounter: true, thoroughOnly: true, bodies: func(d string) []func(*fsx.Proc) {
			return sqlBodies(d, "INSERT INTO t VALUES (100); SELECT 1; SELECT 'end';", "UPDATE t SET n = n + 1;")
		}},
		{name: "sql held: REPLACE t|INC t", tables: one, sql: true, heldFrom: 2, noCounter: true, thoroughOnly: true, bodies: func(d string) []func(*fsx.Proc) {
			return sqlBodies(d, "REPLACE INTO t (n) USING (n) VALUES (5); SELECT 1; SELECT 'end';", "UPDATE t SET n = n + 1;")
		}},
		{name: "sql held: ALTER t|INC t", tables: one, sql: true, heldFrom: 2, noCounter: true, thoroughOnly: true, bodies: func(d string) []func(*fsx.Proc) {
			return sqlBodies(d, "ALTER TABLE t ADD c; SELECT 1; SELECT 'end';", "UPDATE t SET n = n + 1;")
		}},
		{name: "sql held: INSERT-SELECT u<-t|INC u", tables: two, sql: true, counter: "u", heldFrom: 2, noCounter: true, thoroughOnly: true, bodies: func(d string) []func(*fsx.Proc) {
			return sqlBodies(d, "INSERT INTO u SELECT n FROM t; SELECT 1; SELECT 'end';", "UPDATE u SET n = n + 1;")
		}},
		{name: "sql INC|SEL", tables: one, sql: true, bodies: func(d string) []func(*fsx.Proc) { return sqlBodies(d, "UPDATE t SET n = n + 1;", "SELECT n FROM t;") }},
		{name: "sql INC,ROLLBACK|INC", tables: one, sql: true, bodies: func(d string) []func(*fsx.Proc) {
			return sqlBodies(d, "UPDATE t SET n = n + 1; ROLLBACK;", "UPDATE t SET n = n + 1;")
		}},
		{name: "sql INC,COMMIT,INC|INC", tables: one, sql: true, thoroughOnly: true, bodies: func(d string) []func(*fsx.Proc) {
			return sqlBodies(d, "UPDATE t SET n = n + 1; COMMIT; UPDATE t SET n = n + 1;", "UPDATE t SET n = n + 1;")
		}},
		{name: "W|W|R", tables: one, thoroughOnly: true, bodies: func(string) []func(*fsx.Proc) {
			return []func(*fsx.Proc){bodyIncr("t.csv", true), bodyIncr("t.csv", true), bodyRead("t.csv")}
		}},
		{name: "W|W|W", tables: one, thoroughOnly: true, bodies: func(string) []func(*fsx.Proc) {
			return []func(*fsx.Proc){bodyIncr("t.csv", true), bodyIncr("t.csv", true), bodyIncr("t.csv", true)}
		}},
	}
}

// c09HeldOracle wraps the terminal oracle final of a full-stack scenario with the invariant of the 'held' scenarios:
// from its from-th statement on, until it starts to commit (or, having changed nothing, to release), process 1 holds
// table tbl for update - in no state may the step just taken by process 2 be the installation of new contents of it.
func c09HeldOracle(final func(w *fsx.World) []fsx.Violation, tbl string, from int, noCounter bool) func(w *fsx.World) []fsx.Violation {
	// the number of statement points of process 1's whole program, learnt from the first execution (all defaults:
	// process 1 runs to its end before process 2 starts); the transaction may end only after the last of them
	lastStmt := 0
	return func(w *fsx.World) []fsx.Violation {
		var out []fsx.Violation
		if w.Final {
			for _, v := range final(w) {
				if !(noCounter && strings.HasPrefix(v.Sig, "I2:")) {
					out = append(out, v)
				}
			}
		}
		// process 1 holds the table from the end of its locking SELECT until it starts to commit: in no state
		// may the step just taken by process 2 be the installation of new contents of that table
		p1, p2 := w.Procs[0], w.Procs[1]
		stmts, committing := 0, false
		for _, l := range p1.Log() {
			if strings.HasPrefix(l, "stmt") {
				stmts++
			}
			if stmts >= lastStmt && lastStmt > 0 && (strings.HasPrefix(l, "rename") || strings.HasPrefix(l, "truncate")) {
				committing = true
			}
			// a transaction that changed nothing ends by releasing the table: its first close of one of the
			// table's files after its last statement has begun is the end of the hold
			if stmts >= from && stmts >= lastStmt && lastStmt > 0 && (strings.HasPrefix(l, "close") || strings.HasPrefix(l, "remove")) && strings.Contains(l, tbl+".csv") {
				committing = true
			}
		}
		if p1.Done() && stmts > lastStmt {
			lastStmt = stmts
		}
		l2 := p2.Log()
		if stmts >= from && lastStmt > 0 && !committing && !p1.Done() && len(l2) > 0 && strings.HasPrefix(l2[len(l2)-1], "rename") && strings.Contains(l2[len(l2)-1], tbl+".csv") {
			out = append(out, fsx.Violation{Sig: "I1:written-while-held-for-update", Msg: fmt.Sprintf("%s installs new contents of %s.csv while %s, whose statement that took that table for update (SELECT ... FOR UPDATE or a data-changing statement) has completed, has not ended its transaction", p2.Name, tbl, p1.Name)})
		}
		return out
	}
}

func c09Setup(tables map[string]int) func(dir string) {
	return func(dir string) {
		for t, n := range tables {
			if n >= 0 {
				os.WriteFile(filepath.Join(dir, t), []byte(fmt.Sprintf("n\n%d\n", n)), 0644)
			}
		}
	}
}

type c09Payload struct {
	Family   string   `json:"family,omitempty"`
	Scenario string   `json:"scenario"`
	Schedule []string `json:"schedule"`
	Trace    []string `json:"trace"`
}

func c09RunScenario(c *core.Ctx, s c09Scenario, deadline time.Time, replay []string) {
	sc := &fsx.Scenario{Name: s.name, Setup: c09Setup(s.tables), Bodies: s.bodies, Check: c09Oracle(s.tables), TimeoutAnywhere: s.anywhere}
	if s.sql {
		sc.Check = c09SQLOracle(s.tables["t.csv"])
		tbl := "t"
		if s.counter != "" {
			tbl = s.counter
			sc.Check = c09SQLOracleOn(s.counter, s.tables[s.counter+".csv"])
		}
		if s.seqInsert {
			sc.Check = c09SeqInsertOracle(s.tables["t.csv"])
		}
		if s.heldFrom > 0 {
			sc.Check = c09HeldOracle(sc.Check, tbl, s.heldFrom, s.noCounter)
		}
	}
	// map iteration order is an environment answer the harness owns: every range over a Go map inside csvq visits its
	// keys in ascending (or, for the copy of a scenario, descending) order, so that an execution can be replayed
	vrt.SetProcOrder(s.mapOrder, true)
	defer vrt.SetProcOrder("", false)
	ex := fsx.NewExplorer(sc, core.Scratch("c09-"+strings.NewReplacer("|", "_", "(", "", ")", "", ",", "", " ", "-").Replace(s.name)), deadline)
	if replay != nil {
		ex.Replay(fsx.ParseSchedule(replay))
	} else {
		ex.Explore()
	}
	st := ex.Stats
	c.Add("states", int64(st.States))
	c.Add("transitions", int64(st.Transitions))
	c.Add("traces_validated_against_impl", int64(st.Executions))
	c.Add("terminal_states", int64(st.Terminal))
	c.Max("max_depth", int64(st.MaxDepth))
	c.EvalN(int64(st.Transitions), int64(st.States)) // one evaluation = one step of the real code followed by the invariant in the state reached
	c.Observe("scenarios", fmt.Sprintf("%s: %d states, %d transitions, %d executions, %d terminal", s.name, st.States, st.Transitions, st.Executions, st.Terminal))
	if st.Capped {
		c.Incomplete("scenario " + s.name + ": time budget reached before the state space was exhausted")
	}
	if st.Nondeterminism > 0 {
		c.Incomplete(fmt.Sprintf("scenario %s: %d replay divergences (harness nondeterminism; those branches are not covered)", s.name, st.Nondeterminism))
	}
	for sig, v := range st.Violations {
		c.Violate(sig, fmt.Sprintf("scenario %s: %s\n  schedule: %s\n  trace:\n    %s", s.name, v.Msg, strings.Join(v.Schedule, " "), strings.Join(v.Trace, "\n    ")),
			c09Payload{Scenario: s.name, Schedule: v.Schedule, Trace: v.Trace})
	}
	if c.WantSample() {
		c.Sample(map[string]any{"scenario": s.name, "states": st.States, "transitions": st.Transitions, "executions_of_real_code": st.Executions})
	}
}

func c09Run(c *core.Ctx) {
	scs := c09Scenarios()
	k := 0
	for _, s := range scs {
		if s.thoroughOnly && !c.Thorough() {
			continue
		}
		k++
		if !c.Mine(int64(k)) {
			continue
		}
		if only := os.Getenv("VERIF_C09_ONLY"); only != "" && !strings.Contains(s.name, only) {
			continue // development aid
		}
		c09RunScenario(c, s, c.Deadline, nil)
	}
}

func c09Replay(c *core.Ctx, payload json.RawMessage) {
	var p c09Payload
	if err := json.Unmarshal(payload, &p); err != nil {
		fmt.Println(err)
		return
	}
	if p.Family != "" {
		if !c09FamReplay(c, p) {
			fmt.Println("unknown family", p.Family)
		}
		return
	}
	for _, s := range c09Scenarios() {
		if s.name == p.Scenario {
			for i := 0; i < 3; i++ { // determinism: the same schedule must give the same verdict every time
				c09RunScenario(c, s, time.Now().Add(time.Minute), p.Schedule)
			}
		}
	}
}
