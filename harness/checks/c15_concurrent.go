//go:build verifx

package checks

import (
	"encoding/json"
	"fmt"

	"verif/harness/internal/core"
)

// Extra family for C15: CONCURRENT invocations. A query evaluates a user function once per record and a user
// aggregate once per partition or group; with several workers these invocations run at the same time, and each
// must see its own parameters and locals. 3 workers over 6 records, every goroutine schedule with at most one
// non-default decision (expression evaluations and loop iterations are scheduling points); oracle: the
// single-worker run.
func init() {
	core.Extend("C15", "family concurrent: user function per record (locals, nested call, recursion, optional parameter), user aggregate per group and per partition with arguments that differ from row to row, "+
		"3 workers x 6 records, all goroutine schedules with at most 1 non-default decision; oracle: the single-worker run", func(c *core.Ctx) {
		if !c15Skip(c, "concurrent") {
			goxFamilyRun(c, "concurrent", c15ConcurrentScenarios(), true)
		}
	})
}

func c15ConcurrentScenarios() []goxScenario {
	t := csvTable("a,g,b", 6, func(i int) string {
		return fmt.Sprintf("%d,%s,%d", i+1, []string{"x", "y", "z", "y", "x", "w"}[i], (i*7)%5)
	})
	files := map[string]string{"t.csv": t}
	agg := "DECLARE tagged AGGREGATE (cur, @tag, @w DEFAULT @tag * 2) AS BEGIN VAR @s := 0; VAR @v; WHILE @v IN cur DO @s := @s + @v; END WHILE; RETURN @tag * 1000 + @w * 100 + @s; END; "
	return []goxScenario{
		{Name: "function-with-locals-per-record", Files: files, CPU: 3,
			SQL: "DECLARE f FUNCTION (@x) AS BEGIN VAR @y := @x * 2; VAR @z := @y + 1; RETURN @z * 10 + @x; END; SELECT a, f(a) FROM t;"},
		{Name: "nested-and-recursive-function-per-record", Files: files, CPU: 3,
			SQL: "DECLARE innr FUNCTION (@p) AS BEGIN VAR @q := @p + 100; RETURN @q; END; DECLARE fact FUNCTION (@n) AS BEGIN IF @n <= 1 THEN RETURN 1; END IF; VAR @r := fact(@n - 1); RETURN @n * @r; END; SELECT a, innr(a), fact(b + 1) FROM t;"},
		{Name: "optional-parameter-per-record", Files: files, CPU: 3,
			SQL: "DECLARE d FUNCTION (@n, @m DEFAULT @n * 3) AS BEGIN RETURN @n * 100 + @m; END; SELECT a, d(a), d(b, a) FROM t;"},
		{Name: "aggregate-per-partition-with-row-arguments", Files: files, CPU: 3,
			SQL: agg + "SELECT a, tagged(b, a) OVER (PARTITION BY a) FROM t; SELECT a, tagged(b, a, b) OVER (PARTITION BY g) FROM t;"},
		{Name: "aggregate-per-group-with-group-arguments", Files: files, CPU: 3,
			SQL: agg + "SELECT g, tagged(b, COUNT(*)) FROM t GROUP BY g; SELECT a, tagged(b, a) FROM t GROUP BY a;"},
	}
}

func c15ConcurrentReplay(c *core.Ctx, payload json.RawMessage) bool {
	return goxFamilyReplay(c, "concurrent", true, payload)
}
