package checks

import (
	"encoding/json"
	"fmt"
	"os"
	"path/filepath"
	"time"

	"verif/harness/internal/core"
	"verif/harness/internal/drv"
)

// Extra family for C20: the first data-changing (or FOR UPDATE) access to a table that the transaction has only read
// reloads it - the documented exception - but only when it gets the table. When it FAILS (another process holds
// the table: lock-wait timeout), nothing was reloaded: the next read still sees the data loaded first, whatever
// the other process has committed meanwhile.
func init() {
	core.Extend("C20", "family failed-upgrade: T reads t; another process commits new contents and keeps the table locked; one of 5 locking statements of T fails with a lock-wait timeout; the lock goes away; "+
		"T reads t again (plain, through an alias, twice) - oracle: the rows of the first read; then a successful UPDATE sees the other process's commit (the documented reload)", c20FailedRun)
}

var c20FailedStmts = []string{
	"UPDATE t SET n = n + 1",
	"DELETE FROM t WHERE n > 100",
	"INSERT INTO t VALUES (100)",
	"SELECT n FROM t FOR UPDATE",
	"REPLACE INTO t (n) USING (n) VALUES (1)",
}

type c20FailedCase struct {
	Family string `json:"family"`
	Stmt   string `json:"failing_statement"`
	Read   string `json:"read_afterwards"`
}

func c20FailedOne(c *core.Ctx, dir string, k c20FailedCase) {
	drv.ClearDir(dir)
	drv.WriteFiles(dir, map[string]string{"t.csv": "n\n1\n"})
	env := drv.New(dir)
	defer env.Close()
	env.Tx.Flags.SetQuiet(true)
	read := func(sql string) string {
		r := env.Exec(sql + ";")
		if r.Err != nil || r.Panic != nil || len(r.Views) == 0 {
			return fmt.Sprintf("error: %v %v", r.Err, r.Panic)
		}
		return drv.RowsKey(drv.Rows(r.Views[len(r.Views)-1]))
	}
	first := read("SELECT n FROM t")
	// the other process: commits n = 2 and stays on the table
	os.WriteFile(filepath.Join(dir, "t.csv"), []byte("n\n2\n"), 0644)
	lock := filepath.Join(dir, ".t.csv.lock")
	os.WriteFile(lock, nil, 0644)
	env.Tx.UpdateWaitTimeout(0.05, 5*time.Millisecond)
	r := env.Exec(k.Stmt + ";")
	env.Tx.UpdateWaitTimeout(120, 5*time.Millisecond)
	os.Remove(lock)
	if r.Panic != nil {
		c.Violate("failed-upgrade:panic", fmt.Sprintf("%q: %v", k.Stmt, r.Panic), k)
		return
	}
	if r.Err == nil {
		c.Violate("failed-upgrade:statement-succeeds-although-the-table-is-locked", fmt.Sprintf("%q succeeds while .t.csv.lock exists", k.Stmt), k)
		return
	}
	c.Eval("failed-upgrade|"+k.Stmt+"|"+k.Read, true)
	again := read(k.Read)
	if again != first {
		c.Violate("failed-upgrade:read-after-a-failed-locking-statement-sees-another-process's-commit", fmt.Sprintf("T: SELECT n FROM t -> %s; another process commits n = 2 and holds the table; T: %q fails (%v); the lock is released; T: %s -> %s", first, k.Stmt, r.Err, k.Read, again), k)
		return
	}
	if again2 := read("SELECT n FROM t"); again2 != first {
		c.Violate("failed-upgrade:read-after-a-failed-locking-statement-sees-another-process's-commit", fmt.Sprintf("second read after the failed %q: %s, first read of the transaction %s", k.Stmt, again2, first), k)
		return
	}
	// the documented exception: the first successful data-changing access reloads
	if r2 := env.Exec("UPDATE t SET n = n + 10;"); r2.Err != nil || r2.Panic != nil {
		c.Violate("failed-upgrade:update-fails-after-the-lock-is-gone", fmt.Sprintf("after the failed %q and the release of the lock: UPDATE t: %v %v", k.Stmt, r2.Err, r2.Panic), k)
		return
	}
	if got, want := read("SELECT n FROM t"), drv.RowsKey(nil); got == first || got == want {
		c.Violate("failed-upgrade:successful-update-does-not-reload", fmt.Sprintf("after the successful UPDATE t SET n = n + 10 the table reads %s (the file held n = 2)", got), k)
	}
}

func c20FailedRun(c *core.Ctx) {
	if !c20Only("failed-upgrade") {
		return
	}
	dir := core.Scratch("c20failed")
	var idx int64
	for _, st := range c20FailedStmts {
		for _, rd := range []string{"SELECT n FROM t", "SELECT x.n FROM t x", "SELECT n FROM `t.csv`"} {
			idx++
			if !c.Mine(idx) {
				continue
			}
			c20FailedOne(c, dir, c20FailedCase{"failed-upgrade", st, rd})
		}
	}
}

func c20FailedReplay(c *core.Ctx, payload json.RawMessage) bool {
	var k c20FailedCase
	if json.Unmarshal(payload, &k) != nil || k.Family != "failed-upgrade" {
		return false
	}
	fmt.Printf("replaying family failed-upgrade: %+v\n", k)
	c20FailedOne(c, core.Scratch("c20failed-replay"), k)
	return true
}
