package checks

import (
	"encoding/json"
	"fmt"
	"strings"

	"verif/harness/internal/core"
	"verif/harness/internal/drv"
	"verif/harness/internal/procx"
)

// Extra family for C14: "reading the same data again gives the same values" across the caches that live as long as
// the process - parsed JSON queries and column paths, translated datetime formats, loaded time zones, and whatever
// the pattern functions keep. An expression is evaluated after a nearly identical one (the same text in another
// letter case, with other white space, a prefix of it) has been evaluated by the same process; it must give what it
// gives in a process of its own. Every program runs on the real CLI: the harness process itself would have primed
// the caches in earlier cases.
func init() {
	core.Extend("C14", "family primed: 16 groups of nearly identical expressions (JSON queries and object keys, datetime formats for printing and for parsing, time zone names, patterns of the REGEXP functions and LIKE, number formats) x every ordered pair of a group, "+
		"the second evaluated after the first in one real csvq process; oracle: output, error and exit code equal to the second evaluated alone", c14PrimedRun)
}

// groups of expressions (or, with a leading "SET ", of flag settings followed by an expression)
var c14PrimedGroups = [][]string{
	{`JSON_VALUE('a.b', '{"a":{"b":1},"A":{"b":2,"B":3}}')`, `JSON_VALUE('A.b', '{"a":{"b":1},"A":{"b":2,"B":3}}')`, `JSON_VALUE('A.B', '{"a":{"b":1},"A":{"b":2,"B":3}}')`, `JSON_VALUE(' a.b', '{"a":{"b":1},"A":{"b":2,"B":3}}')`},
	{`JSON_VALUE('a[0]', '{"a":[1,2],"A":[3]}')`, `JSON_VALUE('a[1]', '{"a":[1,2],"A":[3]}')`, `JSON_VALUE('A[0]', '{"a":[1,2],"A":[3]}')`, `JSON_VALUE('a', '{"a":[1,2],"A":[3]}')`},
	{`JSON_OBJECT(k) FROM (SELECT 1 AS k) s`, `JSON_OBJECT(K) FROM (SELECT 1 AS K) s`, `JSON_OBJECT(k AS K) FROM (SELECT 1 AS k) s`, "JSON_OBJECT(`k.x`) FROM (SELECT 1 AS `k.x`) s", "JSON_OBJECT(`K.x`) FROM (SELECT 1 AS `K.x`) s"},
	{`DATETIME_FORMAT(DATETIME('2012-02-03 14:05:06'), '%Y-%m-%d %H')`, `DATETIME_FORMAT(DATETIME('2012-02-03 14:05:06'), '%y-%M-%D %h')`, `DATETIME_FORMAT(DATETIME('2012-02-03 14:05:06'), '%Y-%m-%d %H ')`, `DATETIME_FORMAT(DATETIME('2012-02-03 14:05:06'), '%Y-%m')`},
	{`SET @@DATETIME_FORMAT TO '%d/%m/%Y'; SELECT DATETIME('03/02/2012')`, `SET @@DATETIME_FORMAT TO '%m/%d/%Y'; SELECT DATETIME('03/02/2012')`, `SET @@DATETIME_FORMAT TO '%D/%M/%Y'; SELECT DATETIME('03/02/2012')`, `SET @@DATETIME_FORMAT TO '%d/%m/%y'; SELECT DATETIME('03/02/2012')`},
	{`SET @@TIMEZONE TO 'Asia/Tokyo'; SELECT DATETIME_FORMAT(DATETIME('2012-02-03T04:05:06Z'), '%H %Z')`, `SET @@TIMEZONE TO 'asia/tokyo'; SELECT DATETIME_FORMAT(DATETIME('2012-02-03T04:05:06Z'), '%H %Z')`,
		`SET @@TIMEZONE TO 'UTC'; SELECT DATETIME_FORMAT(DATETIME('2012-02-03T04:05:06Z'), '%H %Z')`, `SET @@TIMEZONE TO 'Asia/Tokyo '; SELECT DATETIME_FORMAT(DATETIME('2012-02-03T04:05:06Z'), '%H %Z')`},
	{`REGEXP_MATCH('abcABC', 'b')`, `REGEXP_MATCH('abcABC', 'B')`, `REGEXP_MATCH('abcABC', '(?i)bx')`, `REGEXP_MATCH('abcABC', 'b ')`},
	{`REGEXP_FIND('abcABC', 'b.')`, `REGEXP_FIND('abcABC', 'B.')`, `REGEXP_FIND('abcABC', '(b)(.)')`, `REGEXP_FIND('abcABC', '(B)(.)')`},
	{`REGEXP_REPLACE('abcABC', 'b', 'x')`, `REGEXP_REPLACE('abcABC', 'B', 'x')`, `REGEXP_REPLACE('abcABC', 'b', 'X')`, `REGEXP_REPLACE('abcABC', '[bB]', 'x')`},
	{`REGEXP_FIND_ALL('abcABC', '[a-c]')`, `REGEXP_FIND_ALL('abcABC', '[A-C]')`, `REGEXP_FIND_SUBMATCHES('abcABC', '(a)(b)')`, `REGEXP_FIND_SUBMATCHES('abcABC', '(A)(B)')`},
	{`'abc' LIKE 'a%'`, `'abc' LIKE 'A%'`, `'abc' LIKE 'a_'`, `'abc' LIKE 'a\%'`, `'Abc' LIKE 'a%'`},
	{`NUMBER_FORMAT(1234.5678, 2, '.', ',')`, `NUMBER_FORMAT(1234.5678, 2, ',', '.')`, `NUMBER_FORMAT(1234.5678, 3, '.', ',')`, `FORMAT('%05.1f|%s', 3.14159, 'a')`, `FORMAT('%05.1F|%S', 3.14159, 'a')`},
	{`DATETIME('2012-02-03T04:05:06+09:00')`, `DATETIME('2012-02-03T04:05:06+0900')`, `DATETIME('2012-02-03 04:05:06 JST')`, `DATETIME('2012-02-03 04:05:06 jst')`, `DATETIME('2012/02/03')`},
	{`AUTO_INCREMENT()`, `AUTO_INCREMENT(5)`, `AUTO_INCREMENT(5, 2)`},
	{`SUBSTRING('abcdef' FROM 2 FOR 3)`, `SUBSTRING('abcdef', 2, 3)`, `SUBSTR('abcdef', 2, 3)`, `SUBSTRING('ABCDEF' FROM 2 FOR 3)`},
	{`BASE64_ENCODE('a')`, `BASE64_ENCODE('A')`, `HEX_ENCODE('a')`, `MD5('a')`, `MD5('A')`},
}

type c14PrimedCase struct {
	Family string `json:"family"`
	Prime  string `json:"evaluated_first"`
	Target string `json:"evaluated_second"`
}

// c14PrimedProgram: the expression as a program; silent = its value goes to a variable instead of the output
func c14PrimedProgram(e string, silent bool, n int) string {
	pre := ""
	if strings.HasPrefix(e, "SET ") {
		i := strings.Index(e, "; SELECT ")
		pre, e = e[:i+2], e[i+9:]
	}
	if strings.Contains(e, " FROM ") {
		if silent {
			i := strings.Index(e, " FROM ")
			return fmt.Sprintf("%sVAR @p%d; SELECT %s INTO @p%d%s;", pre, n, e[:i], n, e[i:])
		}
		return pre + "SELECT " + e + ";"
	}
	if silent {
		return fmt.Sprintf("%sVAR @p%d := %s;", pre, n, e)
	}
	return pre + "SELECT " + e + ";"
}

func c14PrimedOne(c *core.Ctx, dir string, k c14PrimedCase) {
	drv.ClearDir(dir)
	run := func(prog string) procx.Outcome {
		return procx.Exec(procx.Run{Dir: dir, Args: []string{"-f", "CSV", prog}})
	}
	if first := run(c14PrimedProgram(k.Prime, true, 1)); first.Exit != 0 {
		c.Observe("primed_family_first_expression_fails", k.Prime)
		return // csvq has no way to go on after an error: such an expression can only come second
	}
	alone := run(c14PrimedProgram(k.Target, false, 0))
	// the first expression is evaluated twice before, silently; then the flags it may have set are put back
	both := run(c14PrimedProgram(k.Prime, true, 1) + " " + c14PrimedProgram(k.Prime, true, 2) + " " + c14PrimedReset(k.Prime) + " " + c14PrimedProgram(k.Target, false, 0))
	c.Eval("primed|"+k.Prime+"|"+k.Target, alone.Exit == 0)
	if both.Exit != alone.Exit || both.Stdout != alone.Stdout || c14PrimedErr(both.Stderr) != c14PrimedErr(alone.Stderr) {
		c.Violate("primed:"+strings.SplitN(strings.TrimPrefix(k.Target, "SET @@"), "(", 2)[0], fmt.Sprintf("%s\n evaluated alone: exit %d, output %q, errors %q\n evaluated after %s\n in the same process: exit %d, output %q, errors %q", k.Target, alone.Exit, alone.Stdout, alone.Stderr, k.Prime, both.Exit, both.Stdout, both.Stderr), k)
	}
}

// c14PrimedReset puts back the flag the first program set (@@DATETIME_FORMAT is documented to append, not overwrite)
func c14PrimedReset(prime string) string {
	if !strings.HasPrefix(prime, "SET @@") {
		return ""
	}
	i, j := strings.Index(prime, " TO "), strings.Index(prime, "; SELECT ")
	val := prime[i+4 : j]
	if strings.HasPrefix(prime, "SET @@DATETIME_FORMAT") {
		return "REMOVE " + val + " FROM @@DATETIME_FORMAT;"
	}
	return "SET @@TIMEZONE TO 'Local';"
}

func c14PrimedErr(s string) string {
	// positions differ between the two programs
	out := []string{}
	for _, l := range strings.Split(s, "\n") {
		if i := strings.Index(l, "] "); strings.HasPrefix(l, "[L:") && i > 0 {
			l = l[i+2:]
		}
		out = append(out, l)
	}
	return strings.Join(out, "\n")
}

func c14PrimedRun(c *core.Ctx) {
	dir := core.Scratch("c14primed")
	var idx int64
	for _, g := range c14PrimedGroups {
		for i, a := range g {
			for j, b := range g {
				if i == j {
					continue
				}
				idx++
				if !c.Mine(idx) {
					continue
				}
				c14PrimedOne(c, dir, c14PrimedCase{"primed", a, b})
			}
		}
	}
}

func c14PrimedReplay(c *core.Ctx, payload json.RawMessage) bool {
	var k c14PrimedCase
	if json.Unmarshal(payload, &k) != nil || k.Family != "primed" {
		return false
	}
	fmt.Printf("replaying family primed: %s after %s\n", k.Target, k.Prime)
	c14PrimedOne(c, core.Scratch("c14primed-replay"), k)
	return true
}
