package checks

import (
	"encoding/json"
	"fmt"
	"strings"

	"github.com/mithrandie/csvq/lib/parser"

	"verif/harness/internal/core"
	"verif/harness/internal/drv"
	"verif/harness/internal/rv"
)

// Extra family for C16: the snapshot of an open cursor and the table it was taken from share their value objects
// whenever the cursor's view is a copy of the transaction's cached view (temporary tables; files the transaction
// already holds for update).  A data-changing statement that recycles what it removes or replaces would therefore
// reach into the snapshot.  "... return exactly the rows of that result at the addressed positions regardless of
// later changes to the underlying tables": the cursor is walked once right after OPEN, then a statement changes the
// table, then csvq is made to allocate values of every primitive type, then the cursor is walked again (three ways) -
// both walks have to deliver the same rows.  On top of that (instrumented build only) no value object that FETCH
// puts into a variable may sit in one of lib/value's pools at that moment: such an object was released while the
// snapshot still refers to it and the next allocation of that type overwrites the row.
func init() {
	core.Extend("C16", "family shared-values: table {temporary with integer/string/float/datetime columns, file held for update, file read before, file not read} x cursor query {*, filtered, sorted} x "+
		"statement after OPEN {DELETE some, DELETE all, UPDATE one column, UPDATE key column, REPLACE, INSERT, ALTER TABLE DROP, ALTER TABLE ADD, DELETE + ROLLBACK, DELETE + COMMIT, second cursor opened / table emptied / second cursor closed and disposed, DISPOSE VIEW} x "+
		"allocations afterwards {none, strings (another file is loaded), integers and floats, datetimes, all} x second walk {WHILE IN, LAST + PRIOR, ABSOLUTE i}; "+
		"oracle: the rows of the walk before the statement, and no fetched value object sits in a value pool", c16SharedRun)
}

type c16SharedCase struct {
	Family string `json:"family"`
	Src    int    `json:"src"`
	Query  int    `json:"query"`
	Stmt   int    `json:"stmt"`
	Churn  int    `json:"churn"`
	Walk   int    `json:"walk"`
}

var (
	c16sSrcNames   = []string{"temporary table", "file held for update", "file read before", "file not read before"}
	c16sSrcClass   = []string{"temporary table", "file held for update", "file not held", "file not held"}
	c16sStmtNames  = []string{"DELETE some", "DELETE all", "UPDATE one column", "UPDATE key column", "REPLACE", "INSERT", "ALTER TABLE DROP", "ALTER TABLE ADD", "DELETE + ROLLBACK", "DELETE + COMMIT", "second cursor + DELETE all + CLOSE + DISPOSE", "DISPOSE VIEW"}
	c16sChurnNames = []string{"none", "strings", "numbers", "datetimes", "all"}
	c16sWalkNames  = []string{"WHILE IN", "LAST + PRIOR", "ABSOLUTE i"}
)

const c16sRows = 6

func (k c16SharedCase) temp() bool { return k.Src == 0 }

func (k c16SharedCase) tbl() string {
	if k.temp() {
		return "tmp"
	}
	return "t"
}

// columns of the table: id plus three more
func (k c16SharedCase) cols() []string {
	if k.temp() {
		return []string{"id", "s", "f", "d"}
	}
	return []string{"id", "v", "w", "z"}
}

func (k c16SharedCase) files() map[string]string {
	var t, o strings.Builder
	t.WriteString("id,v,w,z\n")
	for i := 1; i <= c16sRows; i++ {
		fmt.Fprintf(&t, "%d,v%d,w%d,z%d\n", i, i, i, i)
	}
	o.WriteString("id,v\n")
	for i := 1; i <= 40; i++ {
		fmt.Fprintf(&o, "%d,other%d\n", 1000+i, i)
	}
	return map[string]string{"t.csv": t.String(), "other.csv": o.String()}
}

func (k c16SharedCase) prelude() []string {
	p := []string{"VAR @a, @b, @c, @d"}
	switch k.Src {
	case 0:
		p = append(p, "DECLARE tmp VIEW (id, s, f, d)")
		for i := 1; i <= c16sRows; i++ {
			p = append(p, fmt.Sprintf("INSERT INTO tmp VALUES (%d, 's%d', %d.5, DATETIME('2020-01-0%d 10:20:30'))", i, i, i, i))
		}
	case 1:
		p = append(p, "UPDATE t SET w = 'held' WHERE id = 1")
	case 2:
		p = append(p, "SELECT COUNT(*) FROM t")
	}
	return p
}

func (k c16SharedCase) declare() string {
	q := "SELECT * FROM " + k.tbl()
	switch k.Query {
	case 1:
		q += " WHERE id <> 3"
	case 2:
		q += " ORDER BY INTEGER(id) DESC"
	}
	return "DECLARE cur CURSOR FOR " + q
}

// the statement(s) that change the table after OPEN; nil: the combination does not exist
func (k c16SharedCase) change() []string {
	t, c := k.tbl(), k.cols()
	newRow := "(2, 'r2', 'r3', 'r4')"
	if k.temp() {
		newRow = "(2, 'r2', 22.25, DATETIME('2022-02-02 02:02:02'))"
	}
	insRow := strings.Replace(newRow, "(2,", "(77,", 1)
	some := fmt.Sprintf("DELETE FROM %s WHERE id IN (2, 4, 6)", t)
	switch k.Stmt {
	case 0:
		return []string{some}
	case 1:
		return []string{"DELETE FROM " + t}
	case 2:
		return []string{fmt.Sprintf("UPDATE %s SET %s = 'changed'", t, c[1])}
	case 3:
		return []string{fmt.Sprintf("UPDATE %s SET id = id + 100, %s = NULL", t, c[3])}
	case 4:
		return []string{fmt.Sprintf("REPLACE INTO %s (%s) USING (id) VALUES %s", t, strings.Join(c, ", "), newRow)}
	case 5:
		return []string{fmt.Sprintf("INSERT INTO %s VALUES %s", t, insRow)}
	case 6:
		return []string{fmt.Sprintf("ALTER TABLE %s DROP (%s, %s)", t, c[1], c[3])}
	case 7:
		return []string{fmt.Sprintf("ALTER TABLE %s ADD (extra DEFAULT 'e') FIRST", t)}
	case 8:
		return []string{some, "ROLLBACK"}
	case 9:
		return []string{some, "COMMIT"}
	case 10:
		return []string{"DECLARE c2 CURSOR FOR SELECT * FROM " + t, "OPEN c2", "FETCH c2 INTO @a, @b, @c, @d", "DELETE FROM " + t, "CLOSE c2", "DISPOSE CURSOR c2"}
	case 11:
		if !k.temp() {
			return nil
		}
		return []string{"DISPOSE VIEW tmp"}
	}
	return nil
}

func (k c16SharedCase) churn() []string {
	str := []string{"SELECT COUNT(*) FROM other", "SELECT UPPER(v) || '-' || id FROM other"}
	num := []string{"SELECT INTEGER(id) + 7, INTEGER(id) * 2 FROM other", "SELECT FLOAT(id) / 8, FLOAT(id) * 0.25 FROM other"}
	dt := []string{"SELECT ADD_DAY(DATETIME('2001-02-03 04:05:06'), INTEGER(id)) FROM other"}
	switch k.Churn {
	case 1:
		return str
	case 2:
		return num
	case 3:
		return dt
	case 4:
		return append(append(str, num...), dt...)
	}
	return nil
}

func (k c16SharedCase) describe() string {
	return fmt.Sprintf("%s; %s; after OPEN: %s; then allocations: %s; second walk: %s", c16sSrcNames[k.Src], k.declare(), c16sStmtNames[k.Stmt], c16sChurnNames[k.Churn], c16sWalkNames[k.Walk])
}

type c16sRun struct {
	k       c16SharedCase
	env     *drv.Env
	verbose bool
	script  []string
	harness string // a statement of the harness itself failed
	pooled  string // first fetched value object found in a pool
}

func (x *c16sRun) exec(sql string) drv.Result {
	x.script = append(x.script, sql+";")
	r := x.env.Exec(sql + ";")
	if x.verbose {
		fmt.Printf("  csvq> %s;\n", sql)
		if r.Err != nil || r.Panic != nil {
			fmt.Printf("        error: %v %v\n", r.Err, r.Panic)
		}
		for _, v := range r.Views {
			fmt.Printf("        -> %s\n", drv.RowsKey(drv.Rows(v)))
		}
	}
	return r
}

func (x *c16sRun) must(sql string) bool {
	if r := x.exec(sql); r.Err != nil || r.Panic != nil {
		if x.harness == "" {
			x.harness = fmt.Sprintf("%s: %v %v", sql, r.Err, r.Panic)
		}
		return false
	}
	return true
}

// fetch positions the cursor, reads the variables back and looks the fetched objects up in the pools.
// It returns the row as text ("" = no record there).
func (x *c16sRun) fetch(pos string) (string, bool) {
	if !x.must("FETCH " + pos + " cur INTO @a, @b, @c, @d") {
		return "", false
	}
	if x.pooled == "" {
		for _, n := range []string{"a", "b", "c", "d"} {
			p, err := x.env.Proc.ReferenceScope.GetVariable(parser.Variable{Name: n})
			if err != nil {
				continue
			}
			if who, ok := c16InPool(p); ok {
				x.pooled = fmt.Sprintf("FETCH %s: the object in @%s (now %s) was released to its pool by %s", pos, n, p.String(), who)
				break
			}
		}
	}
	r := x.exec("SELECT @a, @b, @c, @d, CURSOR cur IS IN RANGE")
	if r.Err != nil || r.Panic != nil || len(r.Views) != 1 || r.Views[0].RecordLen() != 1 {
		if x.harness == "" {
			x.harness = fmt.Sprintf("read-back of the variables: %v %v", r.Err, r.Panic)
		}
		return "", false
	}
	return drv.RowsKey(drv.Rows(r.Views[0])), true
}

// walk returns the rows by position (index = position in the snapshot)
func (x *c16sRun) walk(how, n int) ([]string, bool) {
	rows := make([]string, n)
	switch how {
	case 0:
		if _, ok := x.fetch("ABSOLUTE -1"); !ok {
			return nil, false
		}
		for i := 0; i < n; i++ {
			r, ok := x.fetch("NEXT")
			if !ok {
				return nil, false
			}
			rows[i] = r
		}
	case 1:
		for i := n - 1; i >= 0; i-- {
			pos := "PRIOR"
			if i == n-1 {
				pos = "LAST"
			}
			r, ok := x.fetch(pos)
			if !ok {
				return nil, false
			}
			rows[i] = r
		}
	case 2:
		for i := 0; i < n; i++ {
			r, ok := x.fetch(fmt.Sprintf("ABSOLUTE %d", i))
			if !ok {
				return nil, false
			}
			rows[i] = r
		}
	}
	return rows, true
}

func (x *c16sRun) count() (int, bool) {
	r := x.exec("SELECT CURSOR cur COUNT")
	if r.Err != nil || r.Panic != nil || len(r.Views) != 1 || r.Views[0].RecordLen() != 1 {
		if x.harness == "" {
			x.harness = fmt.Sprintf("CURSOR cur COUNT: %v %v", r.Err, r.Panic)
		}
		return 0, false
	}
	v := drv.Rows(r.Views[0])[0][0]
	if v.K != rv.Int {
		if x.harness == "" {
			x.harness = "CURSOR cur COUNT is not an integer: " + v.Key()
		}
		return 0, false
	}
	n := int(v.I)
	return n, true
}

func c16SharedOne(c *core.Ctx, dir string, k c16SharedCase, verbose bool) (ran bool) {
	change := k.change()
	if change == nil {
		return false
	}
	drv.ClearDir(dir)
	drv.WriteFiles(dir, k.files())
	poolTrack(true)
	defer poolTrack(false)
	x := &c16sRun{k: k, env: drv.New(dir), verbose: verbose}
	defer x.env.Close()
	if verbose {
		fmt.Println(k.describe())
	}
	class := c16sSrcClass[k.Src] + ":" + c16sStmtNames[k.Stmt]
	fail := func() bool {
		c.Violate("shared-values:harness:"+class, fmt.Sprintf("%s\na statement of the scenario itself failed: %s\n%s", k.describe(), x.harness, strings.Join(x.script, "\n")), k)
		return true
	}
	for _, p := range k.prelude() {
		if !x.must(p) {
			return fail()
		}
	}
	if !x.must(k.declare()) || !x.must("OPEN cur") {
		return fail()
	}
	want := c16sRows
	if k.Query == 1 {
		want--
	}
	n, ok := x.count()
	if !ok {
		return fail()
	}
	before, ok := x.walk(0, n)
	if !ok {
		return fail()
	}
	if n != want {
		c.Violate("shared-values:"+class+":number of rows in the snapshot", fmt.Sprintf("%s\nthe table has %d rows for the query, CURSOR cur COUNT is %d", k.describe(), want, n), k)
		return true
	}
	distinct := map[string]bool{}
	for _, r := range before {
		distinct[r] = true
	}
	if len(distinct) != n || x.pooled != "" {
		// the scenario's own base line is broken: nothing to compare with
		what := "the first walk delivers a row twice"
		if x.pooled != "" {
			what = x.pooled
		}
		c.Violate("shared-values:"+c16sSrcClass[k.Src]+":walk right after OPEN", fmt.Sprintf("%s\n%s: %v\n%s", k.describe(), what, before, strings.Join(x.script, "\n")), k)
		return true
	}
	for _, s := range change {
		if !x.must(s) {
			return fail()
		}
	}
	for _, s := range k.churn() {
		if !x.must(s) {
			return fail()
		}
	}
	n2, ok := x.count()
	if !ok {
		return fail()
	}
	var after []string
	if n2 == n {
		if after, ok = x.walk(k.Walk, n); !ok {
			return fail()
		}
	}
	if n2 != n || strings.Join(after, "\n") != strings.Join(before, "\n") {
		c.Violate("shared-values:"+class+": the open cursor no longer delivers the rows it delivered before the statement",
			fmt.Sprintf("%s\nrows (with IS IN RANGE) by position before the statement: %v (COUNT %d)\nrows by position after it:                              %v (COUNT %d)\n%s",
				k.describe(), before, n, after, n2, strings.Join(x.script, "\n")), k)
		return true
	}
	if x.pooled != "" {
		c.Violate("shared-values:"+class+": FETCH hands out a value object that sits in a value pool (released while the snapshot refers to it; the next allocation overwrites the row)",
			fmt.Sprintf("%s\n%s\n%s", k.describe(), x.pooled, strings.Join(x.script, "\n")), k)
	}
	return true
}

func c16SharedRun(c *core.Ctx) {
	dir := core.Scratch("c16shared")
	var idx int64
	for src := range c16sSrcNames {
		for q := 0; q < 3; q++ {
			if c.Expired() {
				c.Incomplete("time budget reached in family shared-values")
				return
			}
			for st := range c16sStmtNames {
				for ch := range c16sChurnNames {
					for w := range c16sWalkNames {
						idx++
						if !c.Mine(idx) {
							continue
						}
						k := c16SharedCase{Family: "shared-values", Src: src, Query: q, Stmt: st, Churn: ch, Walk: w}
						if !c16SharedOne(c, dir, k, false) {
							continue
						}
						c.EvalN(1, 1)
						c.Add("shared_values_scenarios", 1)
						c.Add("fetched_rows_compared_with_snapshot", int64(c16sRows))
						if c.WantSample() && st == 8 && ch == 4 {
							c.Sample(map[string]any{"family": "shared-values", "scenario": k.describe()})
						}
					}
				}
			}
		}
	}
}

func c16SharedReplay(c *core.Ctx, payload json.RawMessage) bool {
	var k c16SharedCase
	if json.Unmarshal(payload, &k) != nil || k.Family != "shared-values" {
		return false
	}
	fmt.Println("replaying family shared-values")
	c16SharedOne(c, core.Scratch("c16shared-replay"), k, true)
	return true
}
