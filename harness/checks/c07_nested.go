package checks

import (
	"encoding/json"
	"fmt"
	"sort"
	"strconv"
	"time"

	"verif/harness/internal/core"
	"verif/harness/internal/drv"
	"verif/harness/internal/ordref"
	"verif/harness/internal/rv"
)

// Extra family for C07: the ORDER BY and the limit clause of a query that is not the statement itself but an
// operand of it: the subquery of IN / NOT IN / ANY / ALL (single value and row value, also correlated), a scalar
// subquery, EXISTS, a subquery in FROM, a common table, an operand of a set operation. The property speaks about
// "the output of ORDER BY" and "OFFSET n drops exactly the first n rows" wherever the clauses are written; what the
// enclosing construct sees must be the documented window of the sorted rows.
//
// Observation: the inner query selects the unique id, the outer query returns the ids the construct let through
// (or, for NOT IN / <> ALL, did not let through), so the outer result is the SET of rows of the inner window.
// Oracle: that set, arranged in a reference order, is judged by the same predicate as a top-level query
// (c07Assess): its size is the window's, and position by position it ties with the window of a sorted arrangement
// (for every tie class the window holds the documented number of its members; which members is free).
func init() {
	core.Extend("C07", "family nested: every table of up to 3 rows (thorough 4) over k1 in {NULL,1,2} x k2 in {a,b} x 11 places where a query is an operand "+
		"(IN, NOT IN, = ANY, <> ALL, row-value IN, row-value <> ALL, correlated IN, scalar subquery, EXISTS, FROM subquery, common table, set-operation operand) "+
		"x 4 key lists (thorough 6) x 47 limit clauses (OFFSET alone in both spellings, LIMIT, PERCENT, WITH TIES, FETCH, with and without OFFSET); "+
		"reference: the set of rows the construct sees is a documented window of the sorted rows", c07NestedRun)
	c07MoreReplays = append(c07MoreReplays, c07NestedReplay)
}

// c07Grace: the added families are small (seconds); they are still run when the older families have used up the
// time budget on a loaded machine, and are cut (exhaustive=false) two minutes after the deadline.
func c07Grace(c *core.Ctx) bool {
	return c.Expired() && time.Now().After(c.Deadline.Add(2*time.Minute))
}

const (
	c07NestSet        = iota // the outer query returns the ids of the inner window
	c07NestComplement        // the outer query returns the ids that are NOT in the inner window
	c07NestExists            // the outer query returns every id if the inner window is not empty, else none
	c07NestScalar            // as Set, but only defined when the window holds at most one row
)

var c07NestHosts = []struct {
	name  string
	outer string // %s = the inner query
	inner string // %s = ORDER BY and limit clause
	mode  int
}{
	{"IN", "SELECT id FROM t WHERE id IN (%s)", "SELECT id FROM t%s", c07NestSet},
	{"NOT IN", "SELECT id FROM t WHERE id NOT IN (%s)", "SELECT id FROM t%s", c07NestComplement},
	{"= ANY", "SELECT id FROM t WHERE id = ANY (%s)", "SELECT id FROM t%s", c07NestSet},
	{"<> ALL", "SELECT id FROM t WHERE id <> ALL (%s)", "SELECT id FROM t%s", c07NestComplement},
	{"row-value IN", "SELECT id FROM t WHERE (id, id) IN (%s)", "SELECT id, id FROM t%s", c07NestSet},
	{"row-value <> ALL", "SELECT id FROM t WHERE (id, 0) <> ALL (%s)", "SELECT id, 0 FROM t%s", c07NestComplement},
	{"correlated IN", "SELECT id FROM t AS o WHERE id IN (%s)", "SELECT id FROM t WHERE o.id IS NOT NULL%s", c07NestSet},
	{"scalar", "SELECT id FROM t WHERE id = (%s)", "SELECT id FROM t%s", c07NestScalar},
	{"EXISTS", "SELECT id FROM t WHERE EXISTS (%s)", "SELECT id FROM t%s", c07NestExists},
	{"FROM", "SELECT id FROM (%s) AS s", "SELECT id FROM t%s", c07NestSet},
	{"WITH", "WITH s AS (%s) SELECT id FROM s", "SELECT id FROM t%s", c07NestSet},
	{"UNION operand", "SELECT id FROM t WHERE FALSE UNION ALL (%s)", "SELECT id FROM t%s", c07NestSet},
}

type c07NestLimit struct {
	Lim     ordref.Limit `json:"lim"`
	OffRows bool         `json:"off_rows,omitempty"` // the OFFSET is written OFFSET n ROWS (LIMIT spelling or no limit)
}

func (l c07NestLimit) SQL() string {
	s := c07Query{Lim: l.Lim}.LimitSQL()
	if l.OffRows && !l.Lim.Fetch && l.Lim.HasOff {
		s += " ROWS"
	}
	return s
}

func c07NestLimits() []c07NestLimit {
	var out []c07NestLimit
	type off struct {
		has bool
		m   int64
	}
	for _, o := range []off{{false, 0}, {true, 0}, {true, 1}, {true, 2}, {true, 100}} {
		out = append(out, c07NestLimit{Lim: ordref.Limit{Kind: ordref.LimNone, HasOff: o.has, Off: o.m}})
		for _, n := range []int64{0, 1, 2, 100} {
			out = append(out, c07NestLimit{Lim: ordref.Limit{Kind: ordref.LimRows, N: n, HasOff: o.has, Off: o.m}})
		}
		out = append(out, c07NestLimit{Lim: ordref.Limit{Kind: ordref.LimPercent, Pct: "50", HasOff: o.has, Off: o.m}})
		if o.m < 100 {
			out = append(out, c07NestLimit{Lim: ordref.Limit{Kind: ordref.LimRows, N: 1, Ties: true, HasOff: o.has, Off: o.m}})
			out = append(out, c07NestLimit{Lim: ordref.Limit{Kind: ordref.LimPercent, Pct: "50", Ties: true, HasOff: o.has, Off: o.m}})
		}
	}
	// the other spellings
	for _, m := range []int64{1, 2, 3} {
		out = append(out, c07NestLimit{Lim: ordref.Limit{Kind: ordref.LimNone, HasOff: true, Off: m}, OffRows: true})
	}
	out = append(out,
		c07NestLimit{Lim: ordref.Limit{Kind: ordref.LimRows, N: 1, HasOff: true, Off: 1}, OffRows: true},
		c07NestLimit{Lim: ordref.Limit{Kind: ordref.LimRows, N: 1, HasOff: true, Off: 1, Fetch: true}},
		c07NestLimit{Lim: ordref.Limit{Kind: ordref.LimRows, N: 2, Ties: true, Fetch: true}},
		c07NestLimit{Lim: ordref.Limit{Kind: ordref.LimPercent, Pct: "50", HasOff: true, Off: 2, Fetch: true}},
	)
	return out
}

type c07NestCase struct {
	Family string       `json:"family"`
	Host   int          `json:"host"`
	Rows   [][]string   `json:"rows"`
	Keys   []ordref.Key `json:"keys"`
	Limit  c07NestLimit `json:"limit"`
	SQL    string       `json:"sql"`
}

func c07NestSQL(host int, keys []ordref.Key, l c07NestLimit) string {
	h := c07NestHosts[host]
	return fmt.Sprintf(h.outer, fmt.Sprintf(h.inner, c07Query{Keys: keys}.OrderSQL()+l.SQL()))
}

// c07NestOne judges one executed case. Returns (judged, nontrivial).
func c07NestOne(c *core.Ctx, host int, tbl []ordref.Row, keys []ordref.Key, l c07NestLimit, sql string, out [][]rv.V, err error, pn any) (bool, bool) {
	h := c07NestHosts[host]
	q := c07Query{Keys: keys, Lim: l.Lim}
	payload := func() c07NestCase {
		p := c07NestCase{Family: "nested", Host: host, Keys: keys, Limit: l, SQL: sql}
		for _, r := range tbl {
			p.Rows = append(p.Rows, []string{r.V[0].Key(), r.V[1].Key()})
		}
		return p
	}
	pre := "nested:" + h.name + ":"
	n := len(tbl)
	sorted := ordref.Sorted(tbl, keys)
	w := ordref.Cut(sorted, keys, len(keys) > 0, l.Lim)
	if h.mode == c07NestScalar && (w.End-w.Start > 1 || w.Ambiguous) {
		return false, false // more than one row: not a scalar subquery
	}
	var ids []int
	if err == nil && pn == nil {
		// the outer query returns distinct ids of the table
		seen := make([]bool, n)
		for _, r := range out {
			id := -1
			if len(r) == 1 {
				switch r[0].K {
				case rv.Int:
					id = int(r[0].I)
				case rv.Str:
					if x, e := strconv.Atoi(r[0].S); e == nil {
						id = x
					}
				}
			}
			if id < 0 || id >= n || seen[id] {
				c.Violate(pre+"rows:not-a-subset", fmt.Sprintf("%s on view table %s returns %s: not a set of ids of the table", sql, c07RowsText(tbl), drv.RowsKey(out)), payload())
				return true, true
			}
			seen[id] = true
		}
		switch h.mode {
		case c07NestComplement:
			for id := range seen {
				if !seen[id] {
					ids = append(ids, id)
				}
			}
		case c07NestExists:
			want := 0
			if w.End > w.Start {
				want = n
			}
			if w.Ambiguous {
				return false, false
			}
			if len(out) != want {
				c.Violate(pre+"cut:emptiness:"+c07Form(q, w, sorted, len(keys) > 0),
					fmt.Sprintf("%s on view table %s returns %d of the %d rows; the documented window of the inner query is positions [%d,%d) of its sorted rows, so EXISTS is %v for every row",
						sql, c07RowsText(tbl), len(out), n, w.Start, w.End, w.End > w.Start), payload())
			}
			return true, n > 0
		default:
			for id := range seen {
				if seen[id] {
					ids = append(ids, id)
				}
			}
		}
	}
	// the set as a sequence: table order, then a reference sort (stable) - any correctly cut set passes in this arrangement
	sort.Ints(ids)
	sub := make([]ordref.Row, len(ids))
	for i, id := range ids {
		sub[i] = tbl[id]
	}
	sub = ordref.Sorted(sub, keys)
	seq := make([][]rv.V, len(sub))
	for i, r := range sub {
		seq[i] = []rv.V{r.V[0], r.V[1], rv.I(int64(r.ID))}
	}
	sig, msg, nontrivial := c07Assess(c, "view", tbl, q, sql, seq, err, pn, nil)
	if sig != "" {
		c.Violate(pre+sig, msg+fmt.Sprintf(" [the rows shown are the set the %s construct saw, in reference order]", h.name), payload())
	}
	return true, nontrivial
}

func c07NestKeyLists(thorough bool) [][]ordref.Key {
	all := c07CutKeyLists()
	if thorough {
		return all
	}
	return [][]ordref.Key{all[0], all[1], all[4], all[5]}
}

func c07NestedRun(c *core.Ctx) {
	if !c07Only(c, "nested") {
		return
	}
	maxRows := 3
	if c.Thorough() {
		maxRows = 4
	}
	lists := c07NestKeyLists(c.Thorough())
	limits := c07NestLimits()
	type one struct {
		host int
		keys []ordref.Key
		lim  c07NestLimit
		sql  string
	}
	var qs []one
	for h := range c07NestHosts {
		for _, kl := range lists {
			for _, l := range limits {
				qs = append(qs, one{h, kl, l, c07NestSQL(h, kl, l)})
			}
		}
	}
	c.Info("nested", fmt.Sprintf("%d places x %d key lists x %d limit clauses = %d statements per table; k1 in %v, k2 in [a b], all row sequences of 0..%d rows",
		len(c07NestHosts), len(lists), len(limits), len(qs), c07Num3, maxRows))
	r := newC07Runner(core.Scratch("c07nested"))
	defer r.close()
	t0 := time.Now()
	c07Tables(c07Num3, []rv.V{rv.S("a"), rv.S("b")}, maxRows, func(idx int64, tbl []ordref.Row) bool {
		if !c.Mine(idx) {
			return true
		}
		if c07Grace(c) {
			c.Incomplete("time budget reached in family nested")
			return false
		}
		r.load(tbl)
		var done, nt int64
		for _, q := range qs {
			out, err, pn := r.query(q.sql)
			judged, nontrivial := c07NestOne(c, q.host, tbl, q.keys, q.lim, q.sql, out, err, pn)
			if judged {
				done++
				if nontrivial {
					nt++
				}
			}
		}
		c.EvalN(done, nt)
		c.Add("tables", 1)
		return true
	})
	c.Max("max_ms_nested", time.Since(t0).Milliseconds())
}

func c07NestedReplay(c *core.Ctx, payload json.RawMessage) bool {
	var k c07NestCase
	if json.Unmarshal(payload, &k) != nil || k.Family != "nested" || k.Host < 0 || k.Host >= len(c07NestHosts) {
		return false
	}
	vals := c07AllValues()
	tbl := make([]ordref.Row, len(k.Rows))
	for i, row := range k.Rows {
		tbl[i] = ordref.Row{ID: i}
		for _, key := range row {
			v, ok := vals[key]
			if !ok {
				fmt.Println("replay: unknown value", key)
				return true
			}
			tbl[i].V = append(tbl[i].V, v)
		}
	}
	sql := c07NestSQL(k.Host, k.Keys, k.Limit)
	fmt.Printf("replaying family nested: %s on view table %s\n", sql, c07RowsText(tbl))
	r := newC07Runner(core.Scratch("c07nested-replay"))
	defer r.close()
	r.load(tbl)
	out, err, pn := r.query(sql)
	fmt.Printf("csvq: rows %s err %v panic %v\n", drv.RowsKey(out), firstLine(err), pn)
	c07NestOne(c, k.Host, tbl, k.Keys, k.Limit, sql, out, err, pn)
	return true
}
