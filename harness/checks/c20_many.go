//go:build verifx

package checks

import (
	"encoding/json"
	"fmt"
	"strings"

	"verif/harness/internal/core"
	"verif/harness/internal/drv"
)

// Extra family for C20: a transaction that loads MANY tables. The table t is loaded first (read, read FOR UPDATE, or
// changed); then the transaction loads N other files - one statement each, in a WHILE loop over FILE::(...), all in
// one UNION ALL query, or a few large ones -; meanwhile another process commits to t (when t is not locked). However
// many tables a transaction holds, a table it has loaded stays the table it has loaded: the reads of t afterwards
// equal the first one (with the transaction's own change), and only the read after COMMIT shows the other commit.
func init() {
	core.Extend("C20", "family many-tables: t is read / read FOR UPDATE / updated first x the transaction then loads N other files, every N in 1..130 (thorough 1..400), as N statements, in a WHILE loop over FILE::, in one UNION ALL query, "+
		"or 1..8 files of 20000 rows x another process commits to t meanwhile (when t is not locked); oracle: the reads of t afterwards equal the first one, the read after COMMIT shows the file", c20ManyRun)
}

type c20ManyCase struct {
	Family string `json:"family"`
	State  string `json:"t_is"`   // read | locked | own
	Manner string `json:"manner"` // statements | loop | union | big
	N      int    `json:"n"`
}

func c20ManyOne(c *core.Ctx, dir string, k c20ManyCase) {
	drv.ClearDir(dir)
	files := map[string]string{"t.csv": "n\n1\n"}
	var big string
	if k.Manner == "big" {
		var sb strings.Builder
		sb.WriteString("n\n")
		for i := 0; i < 20000; i++ {
			fmt.Fprintf(&sb, "%d\n", i)
		}
		big = sb.String()
	}
	for i := 1; i <= k.N; i++ {
		if k.Manner == "big" {
			files[fmt.Sprintf("p%d.csv", i)] = big
		} else {
			files[fmt.Sprintf("p%d.csv", i)] = fmt.Sprintf("n\n%d\n", 1000+i)
		}
	}
	drv.WriteFiles(dir, files)
	env := drv.New(dir)
	defer env.Close()
	env.Tx.Flags.SetQuiet(true)
	var trace []string
	read := func(sql string) string {
		r := env.Exec(sql + ";")
		got := fmt.Sprintf("error: %v %v", r.Err, r.Panic)
		if r.Err == nil && r.Panic == nil && len(r.Views) > 0 {
			got = drv.RowsKey(drv.Rows(r.Views[len(r.Views)-1]))
		}
		trace = append(trace, sql+" -> "+got)
		return got
	}
	switch k.State {
	case "own":
		if r := env.Exec("UPDATE t SET n = n + 1;"); r.Err != nil || r.Panic != nil {
			c.Incomplete(fmt.Sprintf("family many-tables: UPDATE t fails: %v %v", r.Err, r.Panic))
			return
		}
		trace = append(trace, "UPDATE t SET n = n + 1")
	}
	firstSQL := "SELECT n FROM t"
	if k.State == "locked" {
		firstSQL = "SELECT n FROM t FOR UPDATE"
	}
	first := read(firstSQL)
	if strings.HasPrefix(first, "error") {
		c.Incomplete("family many-tables: the first read fails: " + first)
		return
	}
	// the transaction walks over the other files
	var prog strings.Builder
	switch k.Manner {
	case "statements", "big":
		for i := 1; i <= k.N; i++ {
			fmt.Fprintf(&prog, "SELECT COUNT(*) FROM p%d; ", i)
		}
	case "loop":
		fmt.Fprintf(&prog, "VAR @i := 0; VAR @n; WHILE @i < %d DO @i := @i + 1; SELECT COUNT(*) INTO @n FROM FILE::('p' || @i || '.csv'); END WHILE;", k.N)
	case "union":
		for i := 1; i <= k.N; i++ {
			if i > 1 {
				prog.WriteString(" UNION ALL ")
			}
			fmt.Fprintf(&prog, "SELECT n FROM p%d", i)
		}
		prog.WriteString(";")
	}
	if r := env.Exec(prog.String()); r.Err != nil || r.Panic != nil {
		c.Incomplete(fmt.Sprintf("family many-tables: loading %d files (%s) fails: %v %v", k.N, k.Manner, r.Err, r.Panic))
		return
	}
	trace = append(trace, fmt.Sprintf("(%d other files are loaded: %s)", k.N, k.Manner))
	committed := false
	if k.State == "read" {
		penv := drv.New(dir)
		penv.Tx.AutoCommit = true
		r := penv.Exec("UPDATE t SET n = n + 10;")
		penv.Close()
		if r.Err != nil || r.Panic != nil {
			c.Violate("many-tables:another-process-cannot-update-a-table-that-was-only-read", fmt.Sprintf("%v %v after\n  %s", r.Err, r.Panic, strings.Join(trace, "\n  ")), k)
			return
		}
		committed = true
		trace = append(trace, "(another process: UPDATE t SET n = n + 10, committed)")
	}
	c.Eval(fmt.Sprintf("many-tables|%s|%s|%d", k.State, k.Manner, k.N), true)
	for _, sql := range []string{"SELECT n FROM t", "SELECT x.n FROM t x", "SELECT n FROM t"} {
		if again := read(sql); again != first {
			c.Violate("many-tables:a-loaded-table-is-read-again-from-its-file:t-"+k.State, fmt.Sprintf("t is loaded (%s), then %d other files are loaded (%s); the read of t afterwards differs from the first one\n  %s", k.State, k.N, k.Manner, strings.Join(trace, "\n  ")), k)
			return
		}
	}
	if r := env.Exec("COMMIT;"); r.Err != nil || r.Panic != nil {
		c.Violate("many-tables:commit-fails", fmt.Sprintf("%v %v after\n  %s", r.Err, r.Panic, strings.Join(trace, "\n  ")), k)
		return
	}
	trace = append(trace, "COMMIT")
	want := "1"
	if k.State == "own" {
		want = "2"
	}
	if committed {
		want = "11"
	}
	wantKey := `[S:"` + want + `"]`
	if after := read("SELECT n FROM t"); after != wantKey {
		c.Violate("many-tables:the-read-after-commit-does-not-show-the-file", fmt.Sprintf("after COMMIT t.csv holds %s\n  %s", want, strings.Join(trace, "\n  ")), k)
		return
	}
	if snap := drv.DirSnapshot(dir); snap["t.csv"] != "n\n"+want+"\n" {
		c.Violate("many-tables:the-read-after-commit-does-not-show-the-file", fmt.Sprintf("t.csv is %q, expected n = %s\n  %s", snap["t.csv"], want, strings.Join(trace, "\n  ")), k)
	}
}

func c20ManyCases(thorough bool) []c20ManyCase {
	maxN := 130
	if thorough {
		maxN = 400
	}
	var out []c20ManyCase
	for _, st := range []string{"read", "locked", "own"} {
		for _, m := range []string{"statements", "loop", "union"} {
			for n := 1; n <= maxN; n++ {
				out = append(out, c20ManyCase{"many-tables", st, m, n})
			}
		}
		for n := 1; n <= 8; n++ {
			out = append(out, c20ManyCase{"many-tables", st, "big", n})
		}
	}
	return out
}

func c20ManyRun(c *core.Ctx) {
	if !c20Only("many-tables") {
		return
	}
	dir := core.Scratch("c20many")
	for i, k := range c20ManyCases(c.Thorough()) {
		if !c.Mine(int64(i)) {
			continue
		}
		if c.Expired() {
			c.Incomplete("family many-tables: time budget reached")
			return
		}
		c20ManyOne(c, dir, k)
	}
}

func c20ManyReplay(c *core.Ctx, payload json.RawMessage) bool {
	var k c20ManyCase
	if json.Unmarshal(payload, &k) != nil || k.Family != "many-tables" {
		return false
	}
	fmt.Printf("replaying family many-tables: %+v\n", k)
	c20ManyOne(c, core.Scratch("c20many-replay"), k)
	return true
}
