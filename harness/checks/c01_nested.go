package checks

import (
	"encoding/json"
	"fmt"
	"strings"

	"verif/harness/internal/core"
	"verif/harness/internal/drv"
)

// Extra family for C01: ROLLBACK executed inside nested blocks while temporary tables of SEVERAL blocks (the
// global one, enclosing blocks, the executing block) and a file table carry uncommitted changes. After it every
// temporary table that is still declared, and the file table, read as at the most recent COMMIT.
func init() {
	core.Extend("C01", "family nested-rollback: temporary tables declared at the top level and in 1-2 nested blocks (IF, WHILE, CASE, function body), every subset of them and of a file table changed after a COMMIT, ROLLBACK executed in the innermost block; "+
		"oracle: every temporary table still in scope and the file table read as at that COMMIT - inside the block, after each block, and in what a later INSERT ... SELECT + COMMIT writes", c01NestedRun)
}

type c01NestedCase struct {
	Family string   `json:"family"`
	Blocks []string `json:"blocks"`  // kinds of the nested blocks, outermost first
	Change int      `json:"changed"` // bit i: the table of level i (0 = global) is changed; bit len(Blocks)+1: the file table
}

func c01NestedOpen(kind string, depth int) (string, string) {
	switch kind {
	case "if":
		return "IF TRUE THEN\n", "END IF;\n"
	case "while":
		return fmt.Sprintf("VAR @w%d := 0; WHILE @w%d < 1 DO @w%d := @w%d + 1;\n", depth, depth, depth, depth), "END WHILE;\n"
	case "case":
		return "CASE WHEN TRUE THEN\n", "END CASE;\n"
	}
	return "", ""
}

// c01NestedProgram builds the program and the lines it must print (PRINT of row counts).
func c01NestedProgram(k c01NestedCase) (string, []string) {
	var sb strings.Builder
	var want []string
	n := len(k.Blocks)
	sb.WriteString("DECLARE g0 VIEW (a); INSERT INTO g0 VALUES (1);\n")
	var closers []string
	fn := false
	for i, b := range k.Blocks {
		if b == "func" {
			// the rest of the program is the body of a function called once
			sb.WriteString(fmt.Sprintf("DECLARE f%d FUNCTION () AS BEGIN\n", i+1))
			closers = append(closers, fmt.Sprintf("RETURN 0; END;\nVAR @r%d := f%d();\n", i+1, i+1))
			fn = true
		} else {
			o, cl := c01NestedOpen(b, i+1)
			sb.WriteString(o)
			closers = append(closers, cl)
		}
		sb.WriteString(fmt.Sprintf("DECLARE g%d VIEW (a); INSERT INTO g%d VALUES (1);\n", i+1, i+1))
	}
	_ = fn
	sb.WriteString("COMMIT;\n")
	for lvl := 0; lvl <= n; lvl++ {
		if k.Change&(1<<lvl) != 0 {
			sb.WriteString(fmt.Sprintf("INSERT INTO g%d VALUES (2), (3);\n", lvl))
		}
	}
	if k.Change&(1<<(n+1)) != 0 {
		sb.WriteString("INSERT INTO t VALUES (9, 'new');\n")
	}
	sb.WriteString("ROLLBACK;\n")
	// inside the innermost block: every table, innermost first
	probe := func(upto int) {
		for lvl := upto; lvl >= 0; lvl-- {
			sb.WriteString(fmt.Sprintf("PRINT 'g%d ' || (SELECT COUNT(*) FROM g%d);\n", lvl, lvl))
			want = append(want, fmt.Sprintf("g%d 1", lvl))
		}
		sb.WriteString("PRINT 't ' || (SELECT COUNT(*) FROM t);\n")
		want = append(want, "t 2")
	}
	probe(n)
	for i := n - 1; i >= 0; i-- {
		sb.WriteString(closers[i])
		probe(i)
	}
	// what later statements make of the tables reaches a file
	sb.WriteString("INSERT INTO log SELECT a FROM g0; COMMIT;\n")
	return sb.String(), want
}

func c01NestedOne(c *core.Ctx, dir string, k c01NestedCase) {
	prog, want := c01NestedProgram(k)
	drv.ClearDir(dir)
	files := map[string]string{"t.csv": "a,b\n1,x\n2,y\n", "log.csv": "a\n"}
	drv.WriteFiles(dir, files)
	env := drv.NewText(dir)
	env.Tx.Flags.SetQuiet(true)
	r := env.Exec(prog)
	env.Close()
	c.Eval(fmt.Sprintf("nested-rollback|%v|%d", k.Blocks, k.Change), k.Change != 0)
	var got []string
	for _, l := range strings.Split(strings.TrimSpace(r.Out), "\n") {
		got = append(got, strings.Trim(strings.TrimSpace(l), "'"))
	}
	if r.Err != nil || r.Panic != nil {
		c.Violate("nested-rollback:error", fmt.Sprintf("blocks %v, changed %b: %v %v\n%s", k.Blocks, k.Change, r.Err, r.Panic, prog), k)
		return
	}
	if strings.Join(got, "|") != strings.Join(want, "|") {
		c.Violate("nested-rollback:table-not-as-at-the-last-commit", fmt.Sprintf("blocks %v, changed tables (bit per level, last bit = file) %b: the row counts printed after the ROLLBACK are %v, at the COMMIT they were %v\n%s", k.Blocks, k.Change, got, want, prog), k)
		return
	}
	snap := drv.DirSnapshot(dir)
	if snap["t.csv"] != files["t.csv"] || snap["log.csv"] != "a\n1\n" || len(snap) != 2 {
		c.Violate("nested-rollback:files-hold-rolled-back-rows", fmt.Sprintf("blocks %v, changed %b: after the final COMMIT the directory holds %v\n%s", k.Blocks, k.Change, snap, prog), k)
	}
}

func c01NestedRun(c *core.Ctx) {
	if c01FamilyOff("nested-rollback") {
		return
	}
	dir := core.Scratch("c01nested")
	kinds := []string{"if", "while", "case", "func"}
	var shapes [][]string
	for _, a := range kinds {
		shapes = append(shapes, []string{a})
		for _, b := range kinds {
			shapes = append(shapes, []string{a, b})
		}
	}
	var idx int64
	for _, sh := range shapes {
		for ch := 0; ch < 1<<(len(sh)+2); ch++ {
			idx++
			if !c.Mine(idx) {
				continue
			}
			c01NestedOne(c, dir, c01NestedCase{"nested-rollback", sh, ch})
		}
	}
}

func c01NestedReplay(c *core.Ctx, payload json.RawMessage) bool {
	var k c01NestedCase
	if json.Unmarshal(payload, &k) != nil || k.Family != "nested-rollback" {
		return false
	}
	fmt.Printf("replaying family nested-rollback: %+v\n", k)
	c01NestedOne(c, core.Scratch("c01nested-replay"), k)
	return true
}
