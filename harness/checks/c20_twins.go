package checks

import (
	"encoding/json"
	"fmt"
	"os"
	"path/filepath"
	"strings"

	"verif/harness/internal/core"
	"verif/harness/internal/drv"
)

// Extra family for C20: two files whose names differ only in letter case. The manual: "Character case is insensitive
// except file paths, and whether file paths are case-insensitive or not depends on your file system." On the file
// system the checks run on (case-sensitive; verified at run time) t.csv and T.csv are two tables: a read of one
// sees that file's data plus the transaction's own changes OF THAT TABLE.
func init() {
	core.Extend("C20", "family case-twins: the files t.csv and T.csv (different contents) x every sequence of 1-3 statements over {SELECT, UPDATE of either file, COMMIT}; "+
		"oracle: two independent tables (reads, and the files after the final COMMIT)", c20TwinsRun)
}

var c20TwinsAlphabet = []string{"SELECT n FROM `t.csv`", "SELECT n FROM `T.csv`", "UPDATE `t.csv` SET n = n + 10", "UPDATE `T.csv` SET n = n + 100", "COMMIT"}

type c20TwinsCase struct {
	Family string `json:"family"`
	Seq    []int  `json:"statements"`
}

func c20TwinsOne(c *core.Ctx, dir string, k c20TwinsCase) {
	drv.ClearDir(dir)
	drv.WriteFiles(dir, map[string]string{"t.csv": "n\n1\n", "T.csv": "n\n2\n"})
	if b, err := os.ReadFile(filepath.Join(dir, "t.csv")); err != nil || string(b) != "n\n1\n" {
		c.Observe("case_twins_skipped", "the scratch file system does not keep t.csv and T.csv apart")
		return
	}
	env := drv.New(dir)
	env.Tx.Flags.SetQuiet(true)
	lower, upper := 1, 2 // the reference: two independent tables
	var trace []string
	bad := ""
	for _, si := range k.Seq {
		stmt := c20TwinsAlphabet[si]
		r := env.Exec(stmt + ";")
		if r.Err != nil || r.Panic != nil {
			bad = fmt.Sprintf("%q fails: %v %v", stmt, r.Err, r.Panic)
			break
		}
		switch si {
		case 2:
			lower += 10
		case 3:
			upper += 100
		case 0, 1:
			want := lower
			if si == 1 {
				want = upper
			}
			got := ""
			if len(r.Views) > 0 {
				if rows := drv.Rows(r.Views[len(r.Views)-1]); len(rows) == 1 && len(rows[0]) == 1 {
					got = c01AttrText(rows[0][0])
				}
			}
			trace = append(trace, fmt.Sprintf("%s -> %s", stmt, got))
			if got != fmt.Sprint(want) && bad == "" {
				bad = fmt.Sprintf("%q returns %s; that file holds %d (with this transaction's own changes of it)", stmt, got, want)
			}
			continue
		}
		trace = append(trace, stmt)
	}
	rc := env.Exec("COMMIT;")
	env.Close()
	c.Eval(fmt.Sprintf("twins|%v", k.Seq), len(k.Seq) > 1)
	if bad != "" {
		c.Violate("case-twins:a-read-of-one-file-shows-the-other-file's-table", fmt.Sprintf("t.csv holds 1, T.csv holds 2; statements:\n  %s\n%s", strings.Join(trace, "\n  "), bad), k)
		return
	}
	if rc.Err != nil || rc.Panic != nil {
		c.Violate("case-twins:commit-fails", fmt.Sprintf("statements %v: COMMIT: %v %v", trace, rc.Err, rc.Panic), k)
		return
	}
	snap := drv.DirSnapshot(dir)
	if snap["t.csv"] != fmt.Sprintf("n\n%d\n", lower) || snap["T.csv"] != fmt.Sprintf("n\n%d\n", upper) {
		c.Violate("case-twins:a-change-of-one-file-is-committed-to-the-other", fmt.Sprintf("statements %v, then COMMIT: t.csv = %q (reference %d), T.csv = %q (reference %d)", trace, snap["t.csv"], lower, snap["T.csv"], upper), k)
	}
}

func c20TwinsRun(c *core.Ctx) {
	if !c20Only("case-twins") {
		return
	}
	dir := core.Scratch("c20twins")
	n := len(c20TwinsAlphabet)
	var idx int64
	for l := 1; l <= 3; l++ {
		total := 1
		for i := 0; i < l; i++ {
			total *= n
		}
		for code := 0; code < total; code++ {
			idx++
			if !c.Mine(idx) {
				continue
			}
			seq := make([]int, l)
			x := code
			for i := range seq {
				seq[i] = x % n
				x /= n
			}
			c20TwinsOne(c, dir, c20TwinsCase{"case-twins", seq})
		}
	}
}

func c20TwinsReplay(c *core.Ctx, payload json.RawMessage) bool {
	var k c20TwinsCase
	if json.Unmarshal(payload, &k) != nil || k.Family != "case-twins" {
		return false
	}
	fmt.Printf("replaying family case-twins: %v\n", k.Seq)
	c20TwinsOne(c, core.Scratch("c20twins-replay"), k)
	return true
}
