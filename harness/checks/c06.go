package checks

import (
	"encoding/json"
	"fmt"
	"math"
	"strings"
	"time"

	"github.com/mithrandie/csvq/lib/parser"
	"github.com/mithrandie/csvq/lib/query"
	"github.com/mithrandie/csvq/lib/value"

	"verif/harness/internal/core"
	"verif/harness/internal/drv"
	"verif/harness/internal/rv"
)

func init() {
	core.Register(&core.Check{
		ID:    "C06",
		Level: "exploration",
		Rule: "all pairs (relational operators, ==, arithmetic; through value.Compare/query.Calculate directly and through parsed SELECT expressions over variables) " +
			"and all triples (BETWEEN, IN, ANY, ALL, CASE, AND/OR/NOT, IS, row values) over a fixed alphabet of values covering every value class; one case = one (tuple, expression); " +
			"non-trivial = no operand of the tuple is NULL; cases are enumerated without repetition so every counted case is distinct",
		Assume: []string{"the value alphabet is a finite sample of each value class; datetime strings stay inside the documented formats; TZ=UTC",
			"reference ladder written from docs/_posts value/comparison/arithmetic/logic pages (internal/rv)"},
		Run:    c06Run,
		Replay: c06Replay,
	})
}

func c06Alphabet(thorough bool) []rv.V {
	d1 := time.Date(2012, 1, 1, 0, 0, 0, 0, time.UTC)
	d2 := time.Date(2012, 1, 2, 0, 0, 0, 0, time.UTC)
	vs := []rv.V{
		rv.N(),
		rv.I(0), rv.I(1), rv.I(-1), rv.I(2), rv.I(3), rv.I(5), rv.I(-5), rv.I(10),
		rv.I(math.MaxInt64), rv.I(math.MinInt64), rv.I(math.MaxInt64 - 1), rv.I(1 << 53), rv.I(1<<53 + 1), rv.I(-(1<<53 + 1)),
		rv.Fl(0), rv.Fl(math.Copysign(0, -1)), rv.Fl(1), rv.Fl(1.5), rv.Fl(-1.5), rv.Fl(2), rv.Fl(3), rv.Fl(5), rv.Fl(-5), rv.Fl(0.1),
		rv.Fl(1e308), rv.Fl(5e-324), rv.Fl(math.NaN()), rv.Fl(math.Inf(1)), rv.Fl(math.Inf(-1)), rv.Fl(9223372036854775808.0),
		rv.S("1"), rv.S(" 1 "), rv.S("01"), rv.S("+1"), rv.S("1.0"), rv.S("1e2"), rv.S("1.5"), rv.S("-5"), rv.S("5"), rv.S("3"), rv.S("0"),
		rv.S("0x1"), rv.S("true"), rv.S("TRUE"), rv.S(" t "), rv.S("f"), rv.S("false"), rv.S("abc"), rv.S("ABC"), rv.S(" abc"), rv.S("b"),
		rv.S(""), rv.S(" "), rv.S("2012-01-01"), rv.S("2012-01-01 00:00:00"), rv.S("2012-1-1"), rv.S("2012-01-02"),
		rv.S("NaN"), rv.S("Inf"), rv.S("-Inf"), rv.S("9223372036854775807"), rv.S("9223372036854775808"), rv.S("1e400"),
		// integer texts of 20 and more characters: sign, padding zeros, surrounding spaces
		rv.S("-9223372036854775808"), rv.S("-9223372036854775807"), rv.S("+9223372036854775807"), rv.S("0000000000000000000005"), rv.S("  9223372036854775806  "),
		rv.B(true), rv.B(false),
		rv.Tv(rv.T), rv.Tv(rv.F), rv.Tv(rv.U),
		rv.D(d1), rv.D(d2),
	}
	if thorough {
		vs = append(vs, rv.I(7), rv.I(-7), rv.Fl(7), rv.Fl(-7), rv.Fl(2.5), rv.Fl(-0.5), rv.S("-7"), rv.S("7.0"), rv.S(" 2012-01-01 "),
			rv.S("2012/01/01"), rv.S("1."), rv.S(".5"), rv.S("1E2"), rv.S("-0"), rv.S("tRuE"), rv.S("True"), rv.S("T"), rv.S("é"), rv.S("É"),
			rv.S("-9223372036854775809"), rv.I(-2), rv.I(4))
	}
	return vs
}

var c06Ops = []string{"=", "<>", "<", "<=", ">", ">=", "=="}
var c06Arith = []byte{'+', '-', '*', '/', '%'}

func sigKind(v rv.V) string {
	return [...]string{"Null", "Int", "Float", "Str", "Bool", "Tern", "Date"}[v.K]
}

type c06Payload struct {
	Seam string   `json:"seam"`
	Idx  []int    `json:"idx"`
	Keys []string `json:"keys"`
	Expr string   `json:"expr"`
}

func c06Run(c *core.Ctx) {
	al := c06Alphabet(c.Thorough())
	c.Info("alphabet_size", len(al))
	c06Direct(c, al, -1, -1)
	c06SQL(c, al, nil)
}

func c06Replay(c *core.Ctx, payload json.RawMessage) {
	if c06ReevalReplay(c, payload) || c06ZonesReplay(c, payload) || c06ListsReplay(c, payload) || c06PaddingReplay(c, payload) || c06UnixtimeReplay(c, payload) || c06BoundsReplay(c, payload) {
		return
	}
	var p c06Payload
	if err := json.Unmarshal(payload, &p); err != nil {
		fmt.Println("bad payload:", err)
		return
	}
	al := c06Alphabet(true)
	for i, ix := range p.Idx {
		if ix >= len(al) || al[ix].Key() != p.Keys[i] {
			// the thorough alphabet extends the quick one, indexes are stable; a mismatch means the alphabet changed
			fmt.Printf("replay: alphabet entry %d is %s, recorded %s\n", ix, al[ix].Key(), p.Keys[i])
		}
	}
	fmt.Printf("replaying %s on %v\n", p.Seam, p.Keys)
	if p.Seam == "direct" {
		c06Direct(c, al, p.Idx[0], p.Idx[1])
	} else {
		c06SQL(c, al, p.Idx)
	}
}

func violateC06(c *core.Ctx, seam, expr string, al []rv.V, idx []int, got, want string) {
	kinds := make([]string, len(idx))
	keys := make([]string, len(idx))
	for i, ix := range idx {
		kinds[i] = sigKind(al[ix])
		keys[i] = al[ix].Key()
	}
	sig := fmt.Sprintf("%s:%s:%s", seam, expr, strings.Join(kinds, ","))
	c.Violate(sig, fmt.Sprintf("%s on (%s): csvq gives %s, documented rules give %s", expr, strings.Join(keys, ", "), got, want),
		c06Payload{Seam: seam, Idx: idx, Keys: keys, Expr: expr})
}

func nonNull(vs ...rv.V) bool {
	for _, v := range vs {
		if v.K == rv.Null {
			return false
		}
	}
	return true
}

func c06Direct(c *core.Ctx, al []rv.V, onlyA, onlyB int) {
	n := len(al)
	cmp := func(a, b rv.V, op string) int {
		pa, pb := a.Primary(), b.Primary()
		t := rv.FromTernary(value.Compare(pa, pb, op, nil, time.UTC))
		if !rv.SameValue(rv.FromPrimary(pa), a) || !rv.SameValue(rv.FromPrimary(pb), b) {
			return 99
		}
		return t
	}
	for i := 0; i < n; i++ {
		for j := 0; j < n; j++ {
			if onlyA >= 0 {
				if i != onlyA || j != onlyB {
					continue
				}
			} else if !c.Mine(int64(i*n + j)) {
				continue
			}
			a, b := al[i], al[j]
			nt := nonNull(a, b)
			idx := []int{i, j}
			res := map[string]int{}
			for _, op := range c06Ops {
				got := cmp(a, b, op)
				res[op] = got
				want := rv.Op(a, b, op)
				if got != want {
					violateC06(c, "direct", "a "+op+" b", al, idx, rv.TernName(got), rv.TernName(want))
				}
			}
			// algebraic laws on csvq's own answers
			if g := cmp(b, a, ">"); res["<"] != g {
				violateC06(c, "direct", "law a<b iff b>a", al, idx, rv.TernName(res["<"])+" vs "+rv.TernName(g), "equal")
			}
			if res["<>"] != rv.Not(res["="]) {
				violateC06(c, "direct", "law a<>b iff NOT(a=b)", al, idx, rv.TernName(res["<>"])+" vs "+rv.TernName(res["="]), "negations")
			}
			if g := cmp(b, a, "="); res["="] != g {
				violateC06(c, "direct", "law = symmetric", al, idx, rv.TernName(res["="])+" vs "+rv.TernName(g), "equal")
			}
			if k := rv.Compare(a, b); k == rv.EQ || k == rv.LT || k == rv.GT {
				if res["<="] != rv.Or(res["<"], res["="]) {
					violateC06(c, "direct", "law a<=b iff a<b OR a=b", al, idx, rv.TernName(res["<="]), rv.TernName(rv.Or(res["<"], res["="])))
				}
				if res[">="] != rv.Or(res[">"], res["="]) {
					violateC06(c, "direct", "law a>=b iff a>b OR a=b", al, idx, rv.TernName(res[">="]), rv.TernName(rv.Or(res[">"], res["="])))
				}
			}
			c.EvalN(int64(len(c06Ops)+5), b2i(nt)*int64(len(c06Ops)+5))

			// row values of arity 2 (only usable inside search conditions, so driven through value.CompareRowValues)
			shapeNames := []string{"(a, b) %s (b, a)", "(a, a) %s (a, b)", "(a, b) %s (a, a)", "(b, a) %s (a, a)"}
			for si, shape := range [][4]rv.V{{a, b, b, a}, {a, a, a, b}, {a, b, a, a}, {b, a, a, a}} {
				for _, op := range []string{"=", "<>", "<", "<=", ">", ">="} {
					t, err := value.CompareRowValues(value.RowValue{shape[0].Primary(), shape[1].Primary()}, value.RowValue{shape[2].Primary(), shape[3].Primary()}, op, nil, time.UTC)
					want := rowCmp(shape[0], shape[1], shape[2], shape[3], op)
					if err != nil || rv.FromTernary(t) != want {
						violateC06(c, "direct", "row value "+fmt.Sprintf(shapeNames[si], op), al, idx,
							fmt.Sprint(rv.TernName(rv.FromTernary(t)), " ", err), rv.TernName(want))
					}
				}
			}
			c.EvalN(24, b2i(nt)*24)

			for _, op := range c06Arith {
				pa, pb := a.Primary(), b.Primary()
				got, err := query.Calculate(pa, pb, int(op))
				want := rv.Arith(a, b, op)
				name := "a " + string(op) + " b"
				switch {
				case want.Err:
					if err == nil {
						violateC06(c, "direct", name, al, idx, rv.FromPrimary(got).Key(), "integer-division-by-zero error")
					}
				case want.Wrapped:
					// the exact result lies outside the 64-bit integers: judged by the overflow rule (c06_bounds.go)
					var g rv.V
					if err == nil {
						g = rv.FromPrimary(got)
					}
					if verdict, sig, msg := c06Overflow(op, a, b, g, err, want.V); verdict != c06OverflowOK {
						if verdict == c06OverflowWrapped {
							c.Violate(sig, msg, c06Payload{Seam: "direct", Idx: idx, Keys: []string{a.Key(), b.Key()}, Expr: name})
						} else {
							violateC06(c, "direct", name, al, idx, msg, "the exact result does not fit a 64-bit integer: an error or the float result")
						}
					}
				case err != nil:
					violateC06(c, "direct", name, al, idx, "error "+err.Error(), want.V.Key())
				default:
					g := rv.FromPrimary(got)
					if !rv.SameValue(g, want.V) {
						violateC06(c, "direct", name, al, idx, g.Key(), want.V.Key())
					}
					// NULL exactly when an operand is not numeric
					_, fa := a.Float()
					_, fb := b.Float()
					if (g.K == rv.Null) != !(fa && fb) {
						violateC06(c, "direct", "law NULL iff operand not numeric ("+string(op)+")", al, idx, g.Key(), fmt.Sprint("numeric operands: ", fa, fb))
					}
					_, ia := a.StrictInt()
					_, ib := b.StrictInt()
					if ia && ib && g.K != rv.Int {
						violateC06(c, "direct", "law int op int is int ("+string(op)+")", al, idx, g.Key(), "an integer")
					}
					if fa && fb && !(ia && ib) && g.K != rv.Float {
						violateC06(c, "direct", "law otherwise float ("+string(op)+")", al, idx, g.Key(), "a float")
					}
					// float and integer arithmetic agree on integral operands (+ - * %), exact result representable in both
					if ia && ib && op != '/' && !want.Wrapped {
						x, _ := a.StrictInt()
						y, _ := b.StrictInt()
						const lim = 1 << 53
						if abs64(x) <= lim && abs64(y) <= lim && abs64(g.I) <= lim && g.K == rv.Int {
							gf, ferr := query.Calculate(value.NewFloat(float64(x)), value.NewFloat(float64(y)), int(op))
							if ferr != nil {
								violateC06(c, "direct", "law float/integer agreement ("+string(op)+")", al, idx, "error "+ferr.Error(), g.Key())
							} else if f := rv.FromPrimary(gf); f.K != rv.Float || f.F != float64(g.I) {
								violateC06(c, "direct", "law float/integer agreement ("+string(op)+")", al, idx,
									fmt.Sprintf("float arithmetic %s, integer arithmetic %s", f.Key(), g.Key()), "the same number")
							}
						}
					}
					if op == '%' && g.K == rv.Float {
						x, _ := a.Float()
						y, _ := b.Float()
						if !math.IsNaN(g.F) && !math.IsInf(x, 0) && y != 0 && !math.IsNaN(x) && !math.IsNaN(y) {
							if (g.F != 0 && math.Signbit(g.F) != math.Signbit(x)) || !(math.Abs(g.F) < math.Abs(y)) {
								violateC06(c, "direct", "law a%b has the sign of a and magnitude below |b|", al, idx, g.Key(), "sign of a, |r|<|b|")
							}
						}
					}
				}
				if !rv.SameValue(rv.FromPrimary(pa), a) || !rv.SameValue(rv.FromPrimary(pb), b) {
					violateC06(c, "direct", "operand changed by "+name, al, idx, rv.FromPrimary(pa).Key()+","+rv.FromPrimary(pb).Key(), "unchanged operands")
				}
			}
			c.EvalN(int64(len(c06Arith)), b2i(nt)*int64(len(c06Arith)))
			if c.WantSample() && nt && i != j {
				c.Sample(map[string]any{"seam": "direct", "a": a.Key(), "b": b.Key(), "a<b": rv.TernName(res["<"]), "a=b": rv.TernName(res["="])})
			}
		}
	}
}

func abs64(x int64) int64 {
	if x < 0 {
		if x == math.MinInt64 {
			return math.MaxInt64
		}
		return -x
	}
	return x
}

func b2i(b bool) int64 {
	if b {
		return 1
	}
	return 0
}

// ---- SQL seam ---------------------------------------------------------------------------------

type c06Expr struct {
	sql string
	ref func(a, b, cc rv.V) rv.V
}

func tv(t int) rv.V { return rv.Tv(t) }

func anyOf(a rv.V, op string, vs ...rv.V) int {
	r := rv.F
	for _, v := range vs {
		r = rv.Or(r, rv.Op(a, v, op))
	}
	return r
}
func allOf(a rv.V, op string, vs ...rv.V) int {
	r := rv.T
	for _, v := range vs {
		r = rv.And(r, rv.Op(a, v, op))
	}
	return r
}

// row value comparison of arity 2 per the manual: positions compared left to right
func rowCmp(a1, a2, b1, b2 rv.V, op string) int {
	switch op {
	case "=":
		return rv.And(rv.Op(a1, b1, "="), rv.Op(a2, b2, "="))
	case "<>":
		return rv.Or(rv.Op(a1, b1, "<>"), rv.Op(a2, b2, "<>"))
	}
	// ordering: the first position that is not equal decides
	strict := op[:1]
	e := rv.Op(a1, b1, "=")
	s := rv.Op(a1, b1, strict)
	if s == rv.T {
		return rv.T
	}
	if s == rv.U || e == rv.U {
		return rv.U
	}
	if e == rv.F {
		return rv.F
	}
	return rv.Op(a2, b2, op)
}

var c06PairExprs = []c06Expr{
	{"@a = @b", func(a, b, _ rv.V) rv.V { return tv(rv.Op(a, b, "=")) }},
	{"@a <> @b", func(a, b, _ rv.V) rv.V { return tv(rv.Op(a, b, "<>")) }},
	{"@a != @b", func(a, b, _ rv.V) rv.V { return tv(rv.Op(a, b, "<>")) }},
	{"@a < @b", func(a, b, _ rv.V) rv.V { return tv(rv.Op(a, b, "<")) }},
	{"@a <= @b", func(a, b, _ rv.V) rv.V { return tv(rv.Op(a, b, "<=")) }},
	{"@a > @b", func(a, b, _ rv.V) rv.V { return tv(rv.Op(a, b, ">")) }},
	{"@a >= @b", func(a, b, _ rv.V) rv.V { return tv(rv.Op(a, b, ">=")) }},
	{"@a == @b", func(a, b, _ rv.V) rv.V { return tv(rv.Op(a, b, "==")) }},
	{"@a AND @b", func(a, b, _ rv.V) rv.V { return tv(rv.And(a.Tern3(), b.Tern3())) }},
	{"@a OR @b", func(a, b, _ rv.V) rv.V { return tv(rv.Or(a.Tern3(), b.Tern3())) }},
	{"NOT @a", func(a, b, _ rv.V) rv.V { return tv(rv.Not(a.Tern3())) }},
	{"@a IS TRUE", func(a, b, _ rv.V) rv.V { return tv(tbi(a.Tern3() == rv.T)) }},
	{"@a IS NOT FALSE", func(a, b, _ rv.V) rv.V { return tv(tbi(a.Tern3() != rv.F)) }},
	{"@a IS UNKNOWN", func(a, b, _ rv.V) rv.V { return tv(tbi(a.Tern3() == rv.U)) }},
	{"@a IS NULL", func(a, b, _ rv.V) rv.V { return tv(tbi(a.K == rv.Null)) }},
	{"@a IS NOT NULL", func(a, b, _ rv.V) rv.V { return tv(tbi(a.K != rv.Null)) }},
	{"@a IN (@b)", func(a, b, _ rv.V) rv.V { return tv(anyOf(a, "=", b)) }},
}

func tbi(b bool) int {
	if b {
		return rv.T
	}
	return rv.F
}

// arithmetic is evaluated one expression per statement: an operation may end in an error (integer division by zero,
// a result outside the 64-bit integers), which would take the other expressions of a common SELECT with it
var c06DivExprs = []c06Expr{
	{"@a + @b", nil},
	{"@a - @b", nil},
	{"@a * @b", nil},
	{"@a / @b", nil},
	{"@a % @b", nil},
}

var c06TripleExprs = []c06Expr{
	{"@a BETWEEN @b AND @c", func(a, b, cc rv.V) rv.V { return tv(rv.And(rv.Op(b, a, "<="), rv.Op(a, cc, "<="))) }},
	{"@a NOT BETWEEN @b AND @c", func(a, b, cc rv.V) rv.V { return tv(rv.Not(rv.And(rv.Op(b, a, "<="), rv.Op(a, cc, "<=")))) }},
	{"@a IN (@b, @c)", func(a, b, cc rv.V) rv.V { return tv(anyOf(a, "=", b, cc)) }},
	{"@a NOT IN (@b, @c)", func(a, b, cc rv.V) rv.V { return tv(allOf(a, "<>", b, cc)) }},
	{"@a = ANY (@b, @c)", func(a, b, cc rv.V) rv.V { return tv(anyOf(a, "=", b, cc)) }},
	{"@a < ANY (@b, @c)", func(a, b, cc rv.V) rv.V { return tv(anyOf(a, "<", b, cc)) }},
	{"@a >= ANY (@b, @c)", func(a, b, cc rv.V) rv.V { return tv(anyOf(a, ">=", b, cc)) }},
	{"@a <> ALL (@b, @c)", func(a, b, cc rv.V) rv.V { return tv(allOf(a, "<>", b, cc)) }},
	{"@a > ALL (@b, @c)", func(a, b, cc rv.V) rv.V { return tv(allOf(a, ">", b, cc)) }},
	{"@a <= ALL (@b, @c)", func(a, b, cc rv.V) rv.V { return tv(allOf(a, "<=", b, cc)) }},
	{"CASE @a WHEN @b THEN 'x' WHEN @c THEN 'y' ELSE 'z' END", func(a, b, cc rv.V) rv.V {
		if rv.Op(a, b, "=") == rv.T {
			return rv.S("x")
		}
		if rv.Op(a, cc, "=") == rv.T {
			return rv.S("y")
		}
		return rv.S("z")
	}},
	{"CASE WHEN @a THEN 'x' WHEN @b THEN 'y' END", func(a, b, cc rv.V) rv.V {
		if a.Tern3() == rv.T {
			return rv.S("x")
		}
		if b.Tern3() == rv.T {
			return rv.S("y")
		}
		return rv.N()
	}},
	{"@a AND @b OR @c", func(a, b, cc rv.V) rv.V { return tv(rv.Or(rv.And(a.Tern3(), b.Tern3()), cc.Tern3())) }},
	{"NOT (@a OR @b) AND @c", func(a, b, cc rv.V) rv.V { return tv(rv.And(rv.Not(rv.Or(a.Tern3(), b.Tern3())), cc.Tern3())) }},
}

func mustParse(sql string) []parser.Statement {
	st, _, err := parser.Parse(sql, "", false, false)
	if err != nil {
		panic(fmt.Sprintf("harness SQL does not parse: %s: %v", sql, err))
	}
	return st
}

func selectOf(exprs []c06Expr) []parser.Statement {
	parts := make([]string, len(exprs))
	for i, e := range exprs {
		parts[i] = fmt.Sprintf("%s AS c%d", e.sql, i)
	}
	return mustParse("SELECT " + strings.Join(parts, ", "))
}

func c06SQL(c *core.Ctx, al []rv.V, only []int) {
	n := len(al)
	env := drv.New(core.Scratch("c06"))
	defer env.Close()
	ctx := query.ContextForStoringResults(env.Ctx)
	pairStmt := selectOf(c06PairExprs)
	tripleStmt := selectOf(c06TripleExprs)
	var divStmts [][]parser.Statement
	for _, e := range c06DivExprs {
		divStmts = append(divStmts, mustParse("SELECT "+e.sql))
	}
	env.SetVar("a", value.NewNull())
	env.SetVar("b", value.NewNull())
	env.SetVar("c", value.NewNull())

	run := func(st []parser.Statement) ([]rv.V, error) {
		_, err := env.Proc.Execute(ctx, st)
		if err != nil {
			return nil, err
		}
		vs := env.Tx.SelectedViews
		if len(vs) != 1 || vs[0].RecordLen() != 1 {
			return nil, fmt.Errorf("harness: expected one row")
		}
		return drv.Rows(vs[0])[0], nil
	}

	for i := 0; i < n; i++ {
		for j := 0; j < n; j++ {
			if only != nil {
				if i != only[0] || j != only[1] {
					continue
				}
			} else if !c.Mine(int64(i*n + j)) {
				continue
			}
			if c.Expired() {
				c.Incomplete("time budget reached inside the SQL seam")
				return
			}
			a, b := al[i], al[j]
			env.SetVar("a", a.Primary())
			env.SetVar("b", b.Primary())
			idx := []int{i, j}
			nt := nonNull(a, b)
			if only == nil || len(only) == 2 {
				row, err := run(pairStmt)
				if err != nil {
					violateC06(c, "sql", "pair select", al, idx, "error "+err.Error(), "a result row")
				} else {
					for k, e := range c06PairExprs {
						want := e.ref(a, b, rv.N())
						if !rv.SameValue(row[k], want) {
							violateC06(c, "sql", e.sql, al, idx, row[k].Key(), want.Key())
						}
					}
				}
				c.EvalN(int64(len(c06PairExprs)), b2i(nt)*int64(len(c06PairExprs)))
				for k, op := range c06Arith {
					want := rv.Arith(a, b, op)
					row, err := run(divStmts[k])
					switch {
					case want.Err:
						if err == nil {
							violateC06(c, "sql", c06DivExprs[k].sql, al, idx, row[0].Key(), "integer-division-by-zero error")
						} else if drv.IsFatal(err) {
							violateC06(c, "sql", c06DivExprs[k].sql, al, idx, err.Error(), "integer-division-by-zero error")
						}
					case want.Wrapped:
						var g rv.V
						if err == nil {
							g = row[0]
						}
						if verdict, sig, msg := c06Overflow(op, a, b, g, err, want.V); verdict != c06OverflowOK {
							if verdict == c06OverflowWrapped {
								c.Violate(sig, msg, c06Payload{Seam: "sql", Idx: idx, Keys: []string{a.Key(), b.Key()}, Expr: c06DivExprs[k].sql})
							} else {
								violateC06(c, "sql", c06DivExprs[k].sql, al, idx, msg, "the exact result does not fit a 64-bit integer: an error or the float result")
							}
						}
					case err != nil:
						violateC06(c, "sql", c06DivExprs[k].sql, al, idx, "error "+err.Error(), want.V.Key())
					case !rv.SameValue(row[0], want.V):
						violateC06(c, "sql", c06DivExprs[k].sql, al, idx, row[0].Key(), want.V.Key())
					}
				}
				c.EvalN(int64(len(c06Arith)), b2i(nt)*int64(len(c06Arith)))
			}
			for k := 0; k < n; k++ {
				if only != nil && (len(only) < 3 || k != only[2]) {
					continue
				}
				cc := al[k]
				env.SetVar("c", cc.Primary())
				idx3 := []int{i, j, k}
				row, err := run(tripleStmt)
				if err != nil {
					violateC06(c, "sql", "triple select", al, idx3, "error "+err.Error(), "a result row")
					continue
				}
				for x, e := range c06TripleExprs {
					want := e.ref(a, b, cc)
					if !rv.SameValue(row[x], want) {
						violateC06(c, "sql", e.sql, al, idx3, row[x].Key(), want.Key())
					}
				}
				// BETWEEN must equal csvq's own evaluation of its documented expansion
				nt3 := nt && cc.K != rv.Null
				c.EvalN(int64(len(c06TripleExprs)), b2i(nt3)*int64(len(c06TripleExprs)))
				if c.WantSample() && nt3 && i != j && j != k && i == 5 {
					c.Sample(map[string]any{"seam": "sql", "a": a.Key(), "b": b.Key(), "c": cc.Key(), "expr": c06TripleExprs[0].sql, "value": row[0].Key()})
				}
			}
		}
	}
}
