package checks

import (
	"bytes"
	"fmt"
	"os"
	"os/exec"
	"path/filepath"
	"strings"
	"syscall"
	"time"

	"verif/harness/internal/core"
	"verif/harness/internal/procx"
)

// Family signals for C11: "terminates for any reason other than an uncatchable kill". The main family delivers SIGINT
// and SIGTERM (thorough: SIGQUIT) at every point of every program. This family takes the other ordinary, catchable
// ways in which the environment ends a command line program:
//
//	SIGQUIT (Ctrl-\) and SIGHUP (the terminal or ssh session goes away), delivered at every point from the first
//	statement on of programs that hold, at some moment, a reader lock, an update lock with its temp file, and an
//	uncommitted created table;
//	SIGPIPE: standard output and/or standard error is a pipe whose reader has gone (csvq ... | head): the signal
//	arrives at csvq's first write to it - programs whose first write happens with nothing held, with an update lock
//	held, with an uncommitted created table, and not at all (control).
//
// Oracle: the main family's (c11Judge). Signals that end a process by default but that nobody uses to end csvq (USR1,
// ALRM, ...) are not enumerated.
func init() {
	core.Extend("C11", "family signals: SIGQUIT and SIGHUP at every point from the first statement on of the programs "+strings.Join(c11SigPrograms, ", ")+
		"; SIGPIPE: the programs of c11PipePrograms with stdout / stderr / both being a pipe without a reader; oracle as in the main family", c11SignalsRun)
}

var c11SigPrograms = []string{"select-join", "update-create"}

func c11PipePrograms() []c11Program {
	tu := map[string]string{"t.csv": "a,b\n1,x\n2,y\n", "u.csv": "a,c\n1,p\n3,q\n"}
	return []c11Program{
		// first write to stdout: the result of a read, nothing held
		{Name: "pipe/select", Files: tu, Args: []string{"SELECT * FROM t"}, ReadOnly: true},
		// ... the notice "1 record updated", written while t is locked and its temp file exists
		{Name: "pipe/update", Files: tu, Args: []string{"UPDATE t SET b = 'z' WHERE a = 1"}},
		{Name: "pipe/update-2-tables", Files: tu, Args: []string{"UPDATE t SET b = 'z'; UPDATE u SET c = 'r';"}},
		// ... the result of a read, after a silent update
		{Name: "pipe/quiet-update-select", Files: tu, Args: []string{"-q", "UPDATE t SET b = 'z' WHERE a = 1; SELECT * FROM u;"}},
		// ... the notice "file is created", with the uncommitted table in place
		{Name: "pipe/create-insert", Files: tu, Args: []string{"CREATE TABLE `n.csv` (c1, c2); INSERT INTO n VALUES (1, 2);"}, Created: []string{"n.csv"}},
		{Name: "pipe/quiet-update-create-select", Files: tu, Args: []string{"-q", "UPDATE t SET b = 'z'; CREATE TABLE `n.csv` (c1); SELECT 1;"}, Created: []string{"n.csv"}},
		// ... a failing statement after an update: the message goes to stderr, the rollback notices to stdout
		{Name: "pipe/update-then-error", Files: tu, Args: []string{"UPDATE t SET b = 'z'; SELECT nosuch FROM u;"}, WantFail: true},
		{Name: "pipe/quiet-update-then-error", Files: tu, Args: []string{"-q", "UPDATE t SET b = 'z'; SELECT nosuch FROM u;"}, WantFail: true},
		{Name: "pipe/select-for-update-then-exit", Files: tu, Args: []string{"SELECT * FROM t FOR UPDATE; EXIT;"}, ReadOnly: true},
		// control: nothing is ever written
		{Name: "pipe/quiet-update", Files: tu, Args: []string{"-q", "UPDATE t SET b = 'z' WHERE a = 1"}},
	}
}

// c11ExecBroken runs the program with the named standard streams being pipes whose reading end is closed.
func c11ExecBroken(dir string, p c11Program, env []string, timeout time.Duration) procx.Outcome {
	var out procx.Outcome
	cmd := exec.Command(procx.Binary(), p.Args...)
	cmd.Dir = dir
	cmd.Env = append([]string{"HOME=" + procx.Home(), "XDG_CONFIG_HOME=" + procx.Home(), "PATH=/usr/bin:/bin", "TZ=UTC", "GOMAXPROCS=2"}, env...)
	tracef := ""
	for _, e := range env {
		if strings.HasPrefix(e, "VERIF_TRACE=") {
			tracef = strings.TrimPrefix(e, "VERIF_TRACE=")
			os.Remove(tracef)
		}
	}
	var so, se bytes.Buffer
	cmd.Stdout, cmd.Stderr = &so, &se
	r, w, err := os.Pipe()
	if err != nil {
		out.Exit = -2
		out.Stderr = err.Error()
		return out
	}
	r.Close()
	defer w.Close()
	if strings.Contains(p.Broken, "stdout") {
		cmd.Stdout = w
	}
	if strings.Contains(p.Broken, "stderr") {
		cmd.Stderr = w
	}
	if p.Stdin != "" {
		cmd.Stdin = strings.NewReader(p.Stdin)
	}
	if err := cmd.Start(); err != nil {
		out.Exit = -2
		out.Stderr = err.Error()
		return out
	}
	done := make(chan error, 1)
	go func() { done <- cmd.Wait() }()
	select {
	case err = <-done:
	case <-time.After(timeout):
		cmd.Process.Kill()
		err = <-done
		out.Killed = true // elapsed time only: the caller must not take this for a hang
	}
	out.Stdout, out.Stderr = so.String(), se.String()
	if err != nil {
		if ee, ok := err.(*exec.ExitError); ok {
			ws := ee.Sys().(syscall.WaitStatus)
			if ws.Signaled() {
				out.Exit = -1
				out.Signal = ws.Signal()
			} else {
				out.Exit = ws.ExitStatus()
			}
		} else {
			out.Exit = -2
		}
	}
	if tracef != "" {
		out.Trace = procx.ReadTrace(tracef)
	}
	return out
}

func c11SignalsRun(c *core.Ctx) {
	dir := core.Scratch("c11")
	var idx int64
	// part 1: SIGQUIT, SIGHUP at every point
	sigs := []string{"QUIT", "HUP"}
	for _, p := range c11Programs(c.Thorough()) {
		use := c.Thorough() && p.HoldLock == "" && !strings.Contains(p.Name, "-vs-")
		for _, n := range c11SigPrograms {
			use = use || p.Name == n
		}
		if !use {
			continue
		}
		p.Base = p.Name
		ref, final, ok := c11Undisturbed(c, dir, p, "signals")
		if !ok {
			continue
		}
		from := c11FirstStmt(ref.Trace)
		if !c11Sweep(c, dir, p, "signals", ref, final, &idx, func(tp procx.TracePoint) []c11Injection {
			if tp.K < from {
				return nil
			}
			var injs []c11Injection
			for _, s := range sigs {
				injs = append(injs, c11Injection{Kind: "signal", Arg: s})
			}
			return injs
		}) {
			return
		}
	}
	// part 2: SIGPIPE
	for _, p0 := range c11PipePrograms() {
		for _, broken := range []string{"stdout", "stderr", "stdout+stderr"} {
			idx++
			if !c.Mine(idx) {
				continue
			}
			if c.Expired() {
				c.Incomplete("family signals: time budget reached")
				return
			}
			p0.Base = p0.Name
			_, final, ok := c11Undisturbed(c, dir, p0, "signals") // with readers: what a completed run leaves
			if !ok {
				continue
			}
			p := p0
			p.Broken = broken
			p.Name += "/" + broken
			out := c11Exec(dir, p, []string{"VERIF_TRACE=" + filepath.Join(filepath.Dir(dir), "c11trace-pipe.txt")})
			if out.Killed {
				c.Incomplete(fmt.Sprintf("family signals: program %s did not end within its allowance (elapsed time; not judged)", p.Name))
				continue
			}
			c11Judge(c, dir, p, out, final, c11Injection{Kind: "none"}, 0, procx.TracePoint{}, c11WritePhaseEnd(out.Trace))
			c.Eval("signals:"+p.Name, !strings.Contains(p.Name, "pipe/select/") && p.Name != "pipe/quiet-update/"+broken)
			ex := fmt.Sprint(out.Exit)
			if out.Exit == -1 {
				ex = "signal " + out.Signal.String()
			}
			c.Observe("pipe_outcomes", fmt.Sprintf("%s: %s", p.Name, ex))
		}
	}
}
