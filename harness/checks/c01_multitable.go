package checks

import (
	"encoding/json"
	"fmt"
	"io"
	"os"
	"sort"
	"strings"
	"time"

	"github.com/mithrandie/csvq/lib/option"
	"github.com/mithrandie/csvq/lib/query"

	"verif/harness/internal/c01m"
	"verif/harness/internal/core"
	"verif/harness/internal/drv"
)

// Family multi-table (C01): UPDATE and DELETE statements that name SEVERAL tables ("Update in multiple files",
// "Delete in multiple files" of the manual). Such a statement changes some of the tables it names and leaves others
// as they were (no field of them is set, or no joined record passes the WHERE clause); the transaction has to write
// exactly the changed ones and to restore exactly the changed ones. Which named table is paired with which count is
// decided inside csvq in walks over maps, so every procedure is run under sorted map order, under every
// single-range deviation of it, and under descending order.
//
// Enumerated (quick): every FROM clause over 2 (and 3) of the tables a, b, c (files, oddly spelled) and w (a temporary
// table) joined on id; every non-empty subset of them named in the UPDATE / DELETE clause; for UPDATE every non-empty
// subset of the named tables that gets a field set; table names or aliases (whose sort order is the reverse);
// inner joins, for DELETE also left outer joins; 4 WHERE clauses (none, a joined id, an id only the first table holds,
// no id); optionally an INSERT into the last table before the statement; 5 endings (end of the procedure, COMMIT
// followed by further changes and ROLLBACK, ROLLBACK, an error, EXIT).
//
// Oracle (reference model written from the manual pages update-query, delete-query, transaction, temporary-table):
// every SELECT of the procedure shows the tables as the reference holds them; after the end a file table whose
// records were changed by a committed transaction holds exactly the CSV form of what the procedure last saw at that
// commit, every other file is byte-identical to what it was, no other file exists; the temporary table read after the
// end is what the procedure last saw (normal end) or what it was at the most recent COMMIT (every other end).
const c01MultiTableRule = "family multi-table: UPDATE / DELETE naming 1-3 tables of a FROM clause over 2-3 of {3 oddly spelled CSV files, 1 temporary table} joined on id (inner; DELETE also left outer), every non-empty subset named, for UPDATE every non-empty subset of the named tables set, " +
	"names or aliases, 4 WHERE clauses, optional INSERT before, 5 endings (end, COMMIT + later changes + ROLLBACK, ROLLBACK, error, EXIT), each under sorted map order, every single-range deviation and descending order; " +
	"oracle: reference model of the joined rows - SELECTs inside the procedure, ending, bytes of every file (changed by a committed transaction: the CSV form of what was last seen; otherwise byte-identical), temporary table after the end"

// c01MultiTableRan: the family is cheap and is run before the base enumeration (c01Run calls it first), so that a
// budget that runs out on a loaded machine cuts the deep search and not this family; the call registered with
// core.Extend is then a no-op.
var c01MultiTableRan bool

func init() {
	core.Extend("C01", c01MultiTableRule, c01MultiTableRun)
}

// c01FamilyOff is a development aid: VERIF_C01_FAMILY=<name> runs that family only.
func c01FamilyOff(name string) bool {
	f := os.Getenv("VERIF_C01_FAMILY")
	return f != "" && f != name
}

type c01MTCase struct {
	Family  string   `json:"family"`
	Kind    string   `json:"kind"` // update | delete
	From    []string `json:"from"`
	Alias   bool     `json:"alias,omitempty"`
	Join    string   `json:"join"` // inner | left
	Targets []string `json:"targets"`
	Set     []string `json:"set,omitempty"`
	Where   string   `json:"where,omitempty"` // "" | hit1 | hit3 | miss
	Pre     bool     `json:"insert_before,omitempty"`
	Ending  string   `json:"ending"`
	// map iteration order of the run ("" = sorted keys; "j:p" = sorted keys, the j-th map range in its p-th permutation; "rev")
	MapOrder string `json:"map_order,omitempty"`
	SQL      string `json:"sql,omitempty"`
}

var c01MTFiles = map[string]string{
	"a.csv": "\"id\",\"v\"\n\"1\",\"a1\"\n2,\"a2\"\n3,a3\n",
	"b.csv": "id,\"v\"\n1,\"b1\"\n\"2\",b2\n4,\"b4\"\n",
	"c.csv": "\"id\",v\n1,c1\n\"3\",\"c3\"\n5,c5\n",
}

var c01MTAlias = map[string]string{"a": "zd", "b": "zc", "c": "zb", "w": "za"}

var c01MTEndings = []string{"end", "commit-late-rollback", "rollback", "error", "exit"}

func c01MTInitial() map[string]c01m.Table {
	mk := func(p string, ids ...string) c01m.Table {
		t := c01m.Table{Header: []string{"id", "v"}}
		for _, id := range ids {
			t.Rows = append(t.Rows, []c01m.Cell{c01m.S(id), c01m.S(p + id)})
		}
		return t
	}
	return map[string]c01m.Table{"a": mk("a", "1", "2", "3"), "b": mk("b", "1", "2", "4"), "c": mk("c", "1", "3", "5"), "w": mk("w", "1", "2", "5")}
}

func (k c01MTCase) name(t string) string {
	if k.Alias {
		return c01MTAlias[t]
	}
	return t
}

func (k c01MTCase) statement() string {
	var sb strings.Builder
	names := func(ts []string) string {
		out := make([]string, len(ts))
		for i, t := range ts {
			out[i] = k.name(t)
		}
		return strings.Join(out, ", ")
	}
	if k.Kind == "update" {
		sb.WriteString("UPDATE " + names(k.Targets) + " SET ")
		for i, t := range k.Set {
			if i > 0 {
				sb.WriteString(", ")
			}
			sb.WriteString(fmt.Sprintf("%s.v = '%s!'", k.name(t), strings.ToUpper(t)))
		}
	} else {
		sb.WriteString("DELETE " + names(k.Targets))
	}
	sb.WriteString(" FROM ")
	first := k.From[0]
	for i, t := range k.From {
		if i > 0 {
			if k.Join == "left" {
				sb.WriteString(" LEFT JOIN ")
			} else {
				sb.WriteString(" JOIN ")
			}
		}
		sb.WriteString(t)
		if k.Alias {
			sb.WriteString(" AS " + c01MTAlias[t])
		}
		if i > 0 {
			sb.WriteString(fmt.Sprintf(" ON %s.id = %s.id", k.name(first), k.name(t)))
		}
	}
	switch k.Where {
	case "hit1":
		sb.WriteString(fmt.Sprintf(" WHERE %s.id = 1", k.name(first)))
	case "hit3":
		sb.WriteString(fmt.Sprintf(" WHERE %s.id = 3", k.name(first)))
	case "miss":
		sb.WriteString(fmt.Sprintf(" WHERE %s.id = 99", k.name(first)))
	}
	sb.WriteString(";")
	return sb.String()
}

// ---- reference model -------------------------------------------------------------------------------

type c01MTModel struct {
	work    map[string]c01m.Table // what the procedure sees
	disk    map[string]c01m.Table // file tables as of the most recent COMMIT
	bytes   map[string]string     // file name -> the bytes the file must hold
	changed map[string]bool       // changed since the most recent COMMIT / ROLLBACK
	restore c01m.Table            // the temporary table at the most recent COMMIT
	probes  strings.Builder
}

func (m *c01MTModel) commit() {
	for t := range m.changed {
		if t == "w" {
			m.restore = m.work["w"].Clone()
			continue
		}
		m.disk[t] = m.work[t].Clone()
		m.bytes[t+".csv"], _ = c01m.Render(m.work[t], "CSV", true)
	}
	m.changed = map[string]bool{}
}

func (m *c01MTModel) rollback() {
	for t := range m.changed {
		if t == "w" {
			m.work["w"] = m.restore.Clone()
			continue
		}
		m.work[t] = m.disk[t].Clone()
	}
	m.changed = map[string]bool{}
}

func (m *c01MTModel) insert(t, id, v string) {
	tab := m.work[t]
	tab.Rows = append(tab.Rows, []c01m.Cell{c01m.S(id), c01m.S(v)})
	m.work[t] = tab
	m.changed[t] = true
}

func (m *c01MTModel) probe(ts []string) {
	for _, t := range ts {
		s, _ := c01m.Render(m.work[t], "CSV", true)
		m.probes.WriteString(s)
	}
}

// apply executes the UPDATE / DELETE of the case; it returns the number of records affected per named table.
func (m *c01MTModel) apply(k c01MTCase) map[string]int {
	idOf := func(t string, i int) string { return m.work[t].Rows[i][0].Text() }
	find := func(t, id string) int {
		for i := range m.work[t].Rows {
			if idOf(t, i) == id {
				return i
			}
		}
		return -1
	}
	// the joined rows: record index per table (-1: the null record of a left outer join)
	var joined []map[string]int
	first := k.From[0]
	for i := range m.work[first].Rows {
		row := map[string]int{first: i}
		keep := true
		for _, t := range k.From[1:] {
			j := find(t, idOf(first, i))
			if j < 0 && k.Join != "left" {
				keep = false
				break
			}
			row[t] = j
		}
		if !keep {
			continue
		}
		switch k.Where {
		case "hit1":
			keep = idOf(first, i) == "1"
		case "hit3":
			keep = idOf(first, i) == "3"
		case "miss":
			keep = false
		}
		if keep {
			joined = append(joined, row)
		}
	}
	counts := map[string]int{}
	for _, t := range k.Targets {
		counts[t] = 0
	}
	if k.Kind == "update" {
		for _, t := range k.Set {
			tab := m.work[t].Clone()
			for _, row := range joined {
				if i := row[t]; i >= 0 {
					tab.Rows[i][1] = c01m.S(strings.ToUpper(t) + "!")
					counts[t]++
				}
			}
			if counts[t] > 0 {
				m.work[t] = tab
				m.changed[t] = true
			}
		}
		return counts
	}
	for _, t := range k.Targets {
		gone := map[int]bool{}
		for _, row := range joined {
			if i := row[t]; i >= 0 {
				gone[i] = true
			}
		}
		if len(gone) == 0 {
			continue
		}
		tab := c01m.Table{Header: m.work[t].Header}
		for i, r := range m.work[t].Rows {
			if !gone[i] {
				tab.Rows = append(tab.Rows, r)
			}
		}
		m.work[t] = tab
		m.changed[t] = true
		counts[t] = len(gone)
	}
	return counts
}

type c01MTWant struct {
	sql     string
	end     string // normal | error | exit
	probes  string
	bytes   map[string]string
	w       c01m.Table
	shape   string // class of the statement's effect, part of the signature
	changes bool
}

const c01MTPrelude = "DECLARE w VIEW (id, v); INSERT INTO w VALUES (1, 'w1'), (2, 'w2'), (5, 'w5'); COMMIT; "

func c01MTReference(k c01MTCase) c01MTWant {
	m := &c01MTModel{work: c01MTInitial(), disk: map[string]c01m.Table{}, bytes: map[string]string{}, changed: map[string]bool{}}
	for n, b := range c01MTFiles {
		m.bytes[n] = b
	}
	for _, t := range []string{"a", "b", "c"} {
		m.disk[t] = m.work[t].Clone()
	}
	m.restore = m.work["w"].Clone()
	var sb strings.Builder
	sb.WriteString(c01MTPrelude)
	probeSQL := ""
	for _, t := range k.From {
		probeSQL += "SELECT id, v FROM " + t + "; "
	}
	last := k.From[len(k.From)-1]
	if k.Pre {
		sb.WriteString("INSERT INTO " + last + " VALUES (8, 'pre'); ")
		m.insert(last, "8", "pre")
	}
	sb.WriteString(k.statement() + " ")
	counts := m.apply(k)
	sb.WriteString(probeSQL)
	m.probe(k.From)
	w := c01MTWant{end: "normal"}
	zero, pos := 0, 0
	for _, n := range counts {
		if n == 0 {
			zero++
		} else {
			pos++
		}
	}
	switch {
	case pos == 0:
		w.shape = "no-table-changed"
	case zero == 0:
		w.shape = "every-named-table-changed"
	default:
		w.shape = "a-named-table-unchanged"
	}
	w.changes = pos > 0 || k.Pre
	switch k.Ending {
	case "end":
		m.commit()
	case "commit-late-rollback":
		sb.WriteString("COMMIT; ")
		m.commit()
		for _, t := range k.From {
			sb.WriteString("INSERT INTO " + t + " VALUES (9, 'late'); ")
			m.insert(t, "9", "late")
		}
		sb.WriteString(probeSQL)
		m.probe(k.From)
		sb.WriteString("ROLLBACK; ")
		m.rollback()
		sb.WriteString(probeSQL)
		m.probe(k.From)
		m.commit()
	case "rollback":
		sb.WriteString("ROLLBACK; ")
		m.rollback()
		sb.WriteString(probeSQL)
		m.probe(k.From)
		m.commit()
	case "error":
		sb.WriteString("SELECT 1 FROM nosuchtable; ")
		m.rollback()
		w.end = "error"
	case "exit":
		sb.WriteString("EXIT; ")
		m.rollback()
		w.end = "exit"
	}
	w.sql = strings.TrimSpace(sb.String())
	w.probes = m.probes.String()
	w.bytes = m.bytes
	w.w = m.work["w"]
	return w
}

// ---- one run ---------------------------------------------------------------------------------------

func c01MTOne(c *core.Ctx, dir string, k c01MTCase) {
	want := c01MTReference(k)
	k.SQL = want.sql
	seen := map[string]bool{}
	violate := func(problem, msg string) {
		sig := fmt.Sprintf("multi-table:%s:%s:%s:%s", k.Kind, want.shape, k.Ending, problem)
		if seen[sig] {
			return
		}
		seen[sig] = true
		order := "sorted map order"
		if k.MapOrder != "" {
			order = "map order " + k.MapOrder
		}
		c.Violate(sig, fmt.Sprintf("procedure %q (%s): %s", k.SQL, order, msg), k)
	}

	drv.ClearDir(dir)
	drv.WriteFiles(dir, c01MTFiles)
	env := drv.NewText(dir)
	env.Tx.AutoCommit = true
	env.Tx.Flags.SetQuiet(true)
	env.Tx.UpdateWaitTimeout(40, 5*time.Millisecond)
	env.Tx.Flags.ExportOptions.Format = option.CSV
	env.Sess.SetStdin(io.NopCloser(strings.NewReader("")))
	r := c01Exec(env, k.SQL)
	c.EvalN(1, b2i(want.changes))
	c.Add("multi_table_family_runs", 1)
	c.Observe("multi_table_family_shapes", k.Kind+"/"+want.shape)

	if r.Panic != nil {
		violate("panic", fmt.Sprint("csvq panicked: ", r.Panic))
		env.Close()
		return
	}
	got := "normal"
	if r.Err == nil && r.Flow == query.Exit {
		got = "exit"
	}
	if r.Err != nil {
		got = "error"
		if _, ok := r.Err.(*query.ForcedExit); ok {
			got = "exit"
		}
		if drv.IsFatal(r.Err) {
			violate("internal-error", "csvq ended with its internal error: "+r.Err.Error())
		}
	}
	if got != want.end {
		violate("ending", fmt.Sprintf("csvq ended %s (%v), the reference %s", got, r.Err, want.end))
	}
	if r.Out != want.probes {
		violate("select-inside-the-procedure", fmt.Sprintf("the SELECTs of the procedure printed %q, the reference's tables are %q", r.Out, want.probes))
	}
	func() {
		defer func() {
			if p := recover(); p != nil {
				violate("panic", fmt.Sprint("csvq panicked in AutoRollback: ", p))
			}
		}()
		if err := env.Proc.AutoRollback(); err != nil {
			violate("rollback-error", "AutoRollback: "+err.Error())
		}
	}()
	env.Tx.AutoCommit = false
	r2 := env.Exec("SELECT id, v FROM w")
	if r2.Err != nil || r2.Panic != nil || len(r2.Views) != 1 {
		violate("temporary-table-after-end:unreadable", fmt.Sprintf("temporary table w after the end: %v %v", r2.Err, r2.Panic))
	} else if g := viewTable(r2.Views[0]); !g.Equal(want.w) {
		violate("temporary-table-after-end", fmt.Sprintf("the temporary table w after the end holds %s, the reference %s", g.Key(), want.w.Key()))
	}
	env.Close()
	snap := drv.DirSnapshot(dir)
	names := make([]string, 0, len(snap))
	for n := range snap {
		names = append(names, n)
	}
	sort.Strings(names)
	for _, n := range names {
		if _, ok := want.bytes[n]; !ok {
			violate("file-must-not-exist:"+fileClass(n), fmt.Sprintf("the directory holds %s (%q)", n, snap[n]))
		}
	}
	for _, n := range []string{"a.csv", "b.csv", "c.csv"} {
		g, ok := snap[n]
		switch {
		case !ok:
			violate("file-missing", n+" is gone")
		case g == want.bytes[n]:
		case want.bytes[n] == c01MTFiles[n]:
			violate("file-changed-though-no-committed-transaction-changed-the-table", fmt.Sprintf("%s holds %q; no transaction that ended in a commit changed a record of it, it must still hold %q", n, g, want.bytes[n]))
		case g == c01MTFiles[n]:
			violate("changed-table-not-written", fmt.Sprintf("%s still holds its initial bytes %q; the committed transaction last saw it as %q", n, g, want.bytes[n]))
		default:
			violate("file-holds-wrong-state", fmt.Sprintf("%s holds %q; the committed transaction last saw it as %q", n, g, want.bytes[n]))
		}
	}
}

// c01MTOrders runs one case under sorted map order, every single-range deviation of it and descending order.
func c01MTOrders(c *core.Ctx, dir string, k c01MTCase) {
	defer setProcOrder("", false)
	if k.MapOrder != "" { // replay of one order
		setProcOrder(k.MapOrder, true)
		c01MTOne(c, dir, k)
		return
	}
	setProcOrder("", true)
	c01MTOne(c, dir, k)
	n := procCalls()
	if n == 0 {
		return // no overlay: Go's own order only
	}
	perms := 1 // maps of two keys have one other order
	if len(k.From) > 2 {
		perms = 5
	}
	for j := int64(1); j <= n && j <= 60; j++ {
		for p := 1; p <= perms; p++ {
			k2 := k
			k2.MapOrder = fmt.Sprintf("%d:%d", j, p)
			setProcOrder(k2.MapOrder, true)
			c01MTOne(c, dir, k2)
		}
	}
	k2 := k
	k2.MapOrder = "rev"
	setProcOrder("rev", true)
	c01MTOne(c, dir, k2)
	c.Max("max_map_ranges_in_a_multi_table_run", n)
	if n > 60 {
		c.Incomplete(fmt.Sprintf("family multi-table: a run made %d map ranges, deviations were enumerated for the first 60", n))
	}
}

func c01MTSubsets(ts []string) [][]string {
	var out [][]string
	for m := 1; m < 1<<len(ts); m++ {
		var s []string
		for i, t := range ts {
			if m&(1<<i) != 0 {
				s = append(s, t)
			}
		}
		out = append(out, s)
	}
	return out
}

func c01MultiTableRun(c *core.Ctx) {
	if c01MultiTableRan || c01FamilyOff("multi-table") {
		return
	}
	c01MultiTableRan = true
	dir := core.Scratch("c01multitable")
	pool := []string{"a", "b", "c", "w"}
	var froms [][]string
	for i := 0; i < len(pool); i++ {
		for j := i + 1; j < len(pool); j++ {
			froms = append(froms, []string{pool[i], pool[j]})
		}
	}
	// three tables: the quick tier takes the two FROM clauses that hold the temporary table and two files / three files
	triples := [][]string{{"a", "b", "w"}, {"a", "b", "c"}}
	if c.Thorough() {
		triples = append(triples, []string{"a", "c", "w"}, []string{"b", "c", "w"})
	}
	froms = append(froms, triples...)
	var idx int64
	for _, from := range froms {
		for _, kind := range []string{"update", "delete"} {
			joins := []string{"inner"}
			if kind == "delete" {
				joins = append(joins, "left")
			}
			for _, join := range joins {
				for _, targets := range c01MTSubsets(from) {
					sets := [][]string{nil}
					if kind == "update" {
						sets = c01MTSubsets(targets)
					}
					for _, set := range sets {
						for _, alias := range []bool{false, true} {
							if alias && len(from) > 2 && !c.Thorough() {
								continue
							}
							for _, where := range []string{"", "hit1", "hit3", "miss"} {
								if where == "hit3" && kind == "update" && !c.Thorough() {
									continue // for an inner join it is one more of "a joined id" / "no id"
								}
								for _, pre := range []bool{false, true} {
									if pre && (alias || len(from) > 2) && !c.Thorough() {
										continue
									}
									for _, ending := range c01MTEndings {
										if ending == "exit" && !c.Thorough() {
											continue // the automatic rollback of the error ending
										}
										idx++
										if !c.Mine(idx) {
											continue
										}
										if c.Expired() {
											c.Incomplete("time budget reached in family multi-table")
											return
										}
										c01MTOrders(c, dir, c01MTCase{Family: "multi-table", Kind: kind, From: from, Alias: alias, Join: join, Targets: targets, Set: set, Where: where, Pre: pre, Ending: ending})
									}
								}
							}
						}
					}
				}
			}
		}
	}
	if c.Shard == 0 {
		c.Add("multi_table_family_procedures", idx)
	}
}

func c01MultiTableReplay(c *core.Ctx, payload json.RawMessage) bool {
	var k c01MTCase
	if json.Unmarshal(payload, &k) != nil || k.Family != "multi-table" {
		return false
	}
	want := c01MTReference(k)
	fmt.Printf("replaying family multi-table: %s\nmap order %q; reference: ends %s, SELECTs print %q, files %q, w %s\n", want.sql, k.MapOrder, want.end, want.probes, want.bytes, want.w.Key())
	c01MTOrders(c, core.Scratch("c01multitable-replay"), k)
	return true
}
