package checks

import (
	"encoding/json"
	"fmt"
	"strings"

	"verif/harness/internal/core"
	"verif/harness/internal/drv"
)

// Extra family for C08: data-changing statements that take their values from a QUERY over other tables (INSERT ... SELECT,
// REPLACE ... SELECT, CREATE TABLE ... AS SELECT, scalar / IN sub-queries of UPDATE, DELETE and ALTER TABLE ADD) and are
// refused because of that query: more or fewer fields than columns, SELECT * of a table with another number of columns,
// unknown field, unknown column, unknown key, division by zero next to fields taken as they are, a sub-query with more
// than one field or record. "Every table as before" covers the tables the refused statement only READS: the result of a
// query holds the very cell objects of its source tables, so whatever the refusing path does with the result (release,
// overwrite, convert in place) damages the source - and shows only after later statements have allocated values.
// Therefore: after the error further evaluation of every value type, then EVERY table (target, file source, temporary
// source) is compared with its contents before the statement; then one more change per table and COMMIT, and the tables
// and the files have to equal those of the same session without the refused statement.
func init() {
	core.Extend("C08", "family refused-query: 2 targets (file table, temporary table with string / integer / float / datetime cells) x 7 sources of the query (file table, through an alias, the target itself, the temporary table, a cross join, "+
		"an inline table, a file table under a table function) x 7 shapes of the query (plain, DISTINCT, WHERE, ORDER BY, LIMIT, UNION ALL, GROUP BY) x 18 refused statement forms x 3 states of the transaction (nothing loaded, all tables read, all tables changed and uncommitted); "+
		"oracle: after further evaluation every table - also those the statement only read - as before the statement; a later change of every table and COMMIT give the tables and files of the session without the refused statement", c08RQRun)
}

type c08RQTarget struct {
	Kind string
	Name string
	Cols []string
}

var c08RQTargets = []c08RQTarget{
	{"file", "t", []string{"a", "b"}},
	{"temporary", "tv", []string{"k", "n", "f", "d"}},
}

type c08RQSource struct {
	Name string
	From string // "" = the target itself
	Raw  []string
}

var c08RQSources = []c08RQSource{
	{"file", "src", []string{"k", "v"}},
	{"file-alias", "src s", []string{"s.k", "s.v"}},
	{"self", "", nil},
	{"temporary", "tv x", []string{"x.k", "x.n", "x.f", "x.d"}},
	{"cross-join", "src CROSS JOIN tv y", []string{"src.k", "y.n", "src.v", "y.d"}},
	{"inline-table", "(SELECT k, v FROM src) q", []string{"k", "v"}},
	{"table-function", "CSV(',', `src.csv`) c", []string{"c.k", "c.v"}},
}

var c08RQShapes = []string{"plain", "distinct", "where", "order", "limit", "union", "group"}

// the refused statement forms; n = the number of fields the query returns where the form chooses it (0 = SELECT *)
var c08RQForms = []string{
	"insert-more-fields", "insert-fewer-fields", "insert-all-more-fields", "insert-all-fewer-fields", "insert-star",
	"replace-more-fields", "replace-fewer-fields", "replace-star",
	"insert-unknown-field", "insert-unknown-column", "insert-division-by-zero", "replace-unknown-key",
	"create-more-fields", "create-fewer-fields",
	"update-subquery-fields", "update-subquery-records", "delete-in-fields", "alter-default-records",
}

var c08RQStates = []string{"fresh", "read", "changed"}

const c08RQFiles = "t.csv|a,b\n1,x\n2,y\n|src.csv|k,v\nlb,ZZ\nenc,UTF8\ndelim,;\n"
const c08RQDeclare = "DECLARE tv VIEW (k, n, f, d); INSERT INTO tv VALUES ('p', 11, 1.25, DATETIME('2012-02-03 04:05:06')), ('q', 12, 2.5, DATETIME('2013-02-03 04:05:06')), ('r', 13, 3.75, NULL); COMMIT;"
const c08RQRead = "SELECT * FROM t; SELECT * FROM src; SELECT * FROM tv;"
const c08RQChange = "INSERT INTO t VALUES (3, 'z'); INSERT INTO src VALUES ('extra', 'E'); INSERT INTO tv VALUES ('s', 14, 4.5, DATETIME('2014-02-03 04:05:06'));"
const c08RQLater = "UPDATE t SET b = 'last' WHERE a = 2; UPDATE src SET v = 'last' WHERE k = 'enc'; UPDATE tv SET n = 99 WHERE k = 'q'; COMMIT;"

// further evaluation: more new values of every pooled type than the tables hold cells
const c08RQChurn = "SELECT 'c01' || 'c02', 'c03', 'c04', 'c05', 'c06', 'c07', 'c08', 'c09', 'c10', 'c11', 'c12', 'c13', 'c14', 'c15', 'c16', 'c17', 'c18', 'c19', 'c20'; " +
	"SELECT 901 + 902, 903, 904, 905, 906, 907, 908, 909, 910, 911, 912, 9.01 * 9.02, 9.03, 9.04, 9.05, 9.06, 9.07, 9.08, 9.09, 9.10, 9.11, 9.12; " +
	"SELECT DATETIME('1999-01-01 00:00:01'), DATETIME('1999-01-01 00:00:02'), DATETIME('1999-01-01 00:00:03'), DATETIME('1999-01-01 00:00:04'), DATETIME('1999-01-01 00:00:05'), DATETIME('1999-01-01 00:00:06'), DATETIME('1999-01-01 00:00:07'), DATETIME('1999-01-01 00:00:08'); " +
	"SELECT k || 'p', v || 'q' FROM src; SELECT a || 'p', b || 'q' FROM t; SELECT k || 'p', n + 1000, f * 2, DATETIME_FORMAT(d, '%Y') FROM tv; "

type c08RQCase struct {
	Family string `json:"family"`
	Target string `json:"target"`
	Source string `json:"source"`
	Shape  string `json:"shape"`
	Form   string `json:"form"`
	State  string `json:"state"`
}

// c08RQQuery builds the query of the given shape over the source returning the given field list ("*" allowed).
func c08RQQuery(fields []string, from string, raw []string, shape string) string {
	f := strings.Join(fields, ", ")
	switch shape {
	case "distinct":
		return "SELECT DISTINCT " + f + " FROM " + from
	case "where":
		return "SELECT " + f + " FROM " + from + " WHERE " + raw[0] + " IS NOT NULL"
	case "order":
		return "SELECT " + f + " FROM " + from + " ORDER BY " + raw[0] + " DESC"
	case "limit":
		return "SELECT " + f + " FROM " + from + " LIMIT 2"
	case "union":
		return "SELECT " + f + " FROM " + from + " UNION ALL SELECT " + f + " FROM " + from
	case "group":
		return "SELECT " + f + " FROM " + from + " GROUP BY " + strings.Join(raw, ", ")
	}
	return "SELECT " + f + " FROM " + from
}

// c08RQStatement gives the refused statement of a case ("" = the combination does not exist).
func c08RQStatement(k c08RQCase) string {
	var t c08RQTarget
	for _, x := range c08RQTargets {
		if x.Kind == k.Target {
			t = x
		}
	}
	var s c08RQSource
	for _, x := range c08RQSources {
		if x.Name == k.Source {
			s = x
		}
	}
	if t.Name == "" || s.Name == "" {
		return ""
	}
	if s.From == "" {
		s.From, s.Raw = t.Name, t.Cols
	}
	raws := func(n int) []string { // n fields taken as they are, cycling through the source's
		out := make([]string, n)
		for i := range out {
			out[i] = s.Raw[i%len(s.Raw)]
		}
		return out
	}
	q := func(fields []string) string { return c08RQQuery(fields, s.From, s.Raw, k.Shape) }
	c1, c2 := t.Cols[0], t.Cols[1]
	nt := len(t.Cols)
	switch k.Form {
	case "insert-more-fields":
		return fmt.Sprintf("INSERT INTO %s (%s) %s", t.Name, c1, q(raws(2)))
	case "insert-fewer-fields":
		return fmt.Sprintf("INSERT INTO %s (%s, %s) %s", t.Name, c1, c2, q(raws(1)))
	case "insert-all-more-fields":
		return fmt.Sprintf("INSERT INTO %s %s", t.Name, q(raws(nt+1)))
	case "insert-all-fewer-fields":
		return fmt.Sprintf("INSERT INTO %s %s", t.Name, q(raws(nt-1)))
	case "insert-star":
		return fmt.Sprintf("INSERT INTO %s (%s) %s", t.Name, c1, q([]string{"*"}))
	case "replace-more-fields":
		return fmt.Sprintf("REPLACE INTO %s (%s) USING (%s) %s", t.Name, c1, c1, q(raws(2)))
	case "replace-fewer-fields":
		return fmt.Sprintf("REPLACE INTO %s (%s, %s) USING (%s) %s", t.Name, c1, c2, c1, q(raws(1)))
	case "replace-star":
		return fmt.Sprintf("REPLACE INTO %s (%s) USING (%s) %s", t.Name, c1, c1, q([]string{"*"}))
	case "insert-unknown-field":
		return fmt.Sprintf("INSERT INTO %s (%s, %s) %s", t.Name, c1, c2, q([]string{s.Raw[0], "nosuch"}))
	case "insert-unknown-column":
		return fmt.Sprintf("INSERT INTO %s (%s, nosuch) %s", t.Name, c1, q(raws(2)))
	case "insert-division-by-zero":
		return fmt.Sprintf("INSERT INTO %s (%s, %s) %s", t.Name, c1, c2, q([]string{s.Raw[0], "1 / 0"}))
	case "replace-unknown-key":
		return fmt.Sprintf("REPLACE INTO %s (%s, %s) USING (nosuch) %s", t.Name, c1, c2, q(raws(2)))
	case "create-more-fields":
		return fmt.Sprintf("CREATE TABLE `new.csv` (x) AS %s", q(raws(2)))
	case "create-fewer-fields":
		return fmt.Sprintf("CREATE TABLE `new.csv` (x, y, z) AS %s", q(raws(2)))
	case "update-subquery-fields":
		return fmt.Sprintf("UPDATE %s SET %s = (%s)", t.Name, c2, q(raws(2)))
	case "update-subquery-records":
		return fmt.Sprintf("UPDATE %s SET %s = (%s)", t.Name, c2, q(raws(1)))
	case "delete-in-fields":
		return fmt.Sprintf("DELETE FROM %s WHERE %s IN (%s)", t.Name, c1, q(raws(2)))
	case "alter-default-records":
		return fmt.Sprintf("ALTER TABLE %s ADD (z DEFAULT (%s))", t.Name, q(raws(1)))
	}
	return ""
}

var c08RQTables = []string{"t", "src", "tv"}

// c08RQReadAll reads the three tables as texts (column names, then every cell with its type).
func c08RQReadAll(env *drv.Env) ([]string, error) {
	out := make([]string, len(c08RQTables))
	for i, name := range c08RQTables {
		r := env.Exec("SELECT * FROM " + name + ";")
		if r.Panic != nil {
			return nil, fmt.Errorf("SELECT * FROM %s: panic: %v", name, r.Panic)
		}
		if r.Err != nil {
			return nil, fmt.Errorf("SELECT * FROM %s: %v", name, r.Err)
		}
		if len(r.Views) == 0 {
			return nil, fmt.Errorf("SELECT * FROM %s: no result", name)
		}
		v := r.Views[len(r.Views)-1]
		for _, rec := range v.RecordSet {
			if len(rec) != len(v.Header) {
				return nil, fmt.Errorf("SELECT * FROM %s: a record of %d cells under a header of %d columns", name, len(rec), len(v.Header))
			}
			for _, cell := range rec {
				if len(cell) == 0 || cell[0] == nil {
					return nil, fmt.Errorf("SELECT * FROM %s: a cell without a value", name)
				}
			}
		}
		out[i] = strings.Join(drv.Header(v), ",") + " " + drv.RowsKey(drv.Rows(v))
	}
	return out, nil
}

type c08RQSession struct {
	before, after, final []string
	files                map[string]string
	ferr                 error
}

// c08RQSessionRun: one transaction - state, [tables read], [refused statement, further evaluation, tables read], a later
// change of every table, COMMIT, tables read, files. sql == "" is the session without the refused statement.
// what != "" tells why the session is of no use (sig != "": that is a violation).
func c08RQSessionRun(dir string, state, sql string) (s c08RQSession, sig, what string) {
	drv.ClearDir(dir)
	parts := strings.Split(c08RQFiles, "|")
	drv.WriteFiles(dir, map[string]string{parts[0]: parts[1], parts[2]: parts[3]})
	env := drv.New(dir)
	defer env.Close()
	env.Tx.Flags.SetQuiet(true)
	if r := env.Exec(c08RQDeclare); r.Err != nil || r.Panic != nil {
		return s, "", fmt.Sprint("the temporary table cannot be declared: ", r.Err, r.Panic)
	}
	switch state {
	case "read":
		if r := env.Exec(c08RQRead); r.Err != nil || r.Panic != nil {
			return s, "", fmt.Sprint("the tables cannot be read: ", r.Err, r.Panic)
		}
	case "changed":
		if r := env.Exec(c08RQChange); r.Err != nil || r.Panic != nil {
			return s, "", fmt.Sprint("the earlier changes fail: ", r.Err, r.Panic)
		}
	}
	var err error
	if sql == "" || state != "fresh" { // in the state fresh the refused statement is the first to touch the files
		if s.before, err = c08RQReadAll(env); err != nil {
			return s, "", "the tables cannot be read before the statement: " + err.Error()
		}
	}
	if sql != "" {
		r := env.Exec(sql + ";")
		if r.Panic != nil {
			return s, "panic", fmt.Sprint(r.Panic)
		}
		if drv.IsFatal(r.Err) {
			return s, "fatal-error", r.Err.Error()
		}
		if s.ferr = r.Err; s.ferr == nil {
			return s, "", ""
		}
		if strings.Contains(fmt.Sprintf("%T", r.Err), "SyntaxError") {
			return s, "", "syntax: " + r.Err.Error()
		}
		env.Exec(c08RQChurn)
		env.Exec(c08DialectChurn)
		if s.after, err = c08RQReadAll(env); err != nil {
			return s, "tables-unreadable-after-the-failure", err.Error()
		}
	}
	if r := env.Exec(c08RQLater); r.Err != nil || r.Panic != nil {
		return s, "later-statements-fail", fmt.Sprintf("%q: %v %v", c08RQLater, r.Err, r.Panic)
	}
	if s.final, err = c08RQReadAll(env); err != nil {
		return s, "tables-unreadable-after-commit", err.Error()
	}
	s.files = drv.DirSnapshot(dir)
	return s, "", ""
}

type c08RQRunner struct {
	dir string
	ref map[string]*c08RQSession // per state: the session without the refused statement
}

func (r *c08RQRunner) reference(c *core.Ctx, state string) *c08RQSession {
	if s, ok := r.ref[state]; ok {
		return s
	}
	s, _, what := c08RQSessionRun(r.dir, state, "")
	if what != "" {
		c.Incomplete("family refused-query: the session without the refused statement is of no use in state " + state + ": " + what)
		r.ref[state] = nil
		return nil
	}
	r.ref[state] = &s
	return &s
}

func (r *c08RQRunner) one(c *core.Ctx, k c08RQCase) {
	sql := c08RQStatement(k)
	if sql == "" {
		return
	}
	ref := r.reference(c, k.State)
	if ref == nil {
		return
	}
	cls := "refused-query:" + k.Form + "@" + k.Target
	where := fmt.Sprintf("state %s, %q", k.State, sql)
	got, sig, what := c08RQSessionRun(r.dir, k.State, sql)
	if sig == "" && what != "" {
		if strings.HasPrefix(what, "syntax: ") {
			c.Violate("harness:refused-query:statement-does-not-parse", where+": "+what, k)
			return
		}
		c.Incomplete("family refused-query: " + where + ": " + what)
		return
	}
	if got.ferr == nil && sig == "" {
		c.Observe("refused_query_statement_did_not_fail", k.Form+"/"+k.Shape+"/"+k.Source+"@"+k.Target)
		return
	}
	c.Eval("refused-query|"+k.State+"|"+sql, k.State != "fresh")
	if got.ferr != nil {
		where += fmt.Sprintf(" fails with %q", got.ferr)
	}
	if sig != "" {
		c.Violate(cls+":"+sig, where+": "+what, k)
		return
	}
	// 1. every table as before the statement (in the state fresh: as the session without the statement reads them)
	before := got.before
	if before == nil {
		before = ref.before
	}
	for i, name := range c08RQTables {
		if got.after[i] != before[i] {
			role := c08RQRole(k, name)
			c.Violate(cls+":table-changed-by-failed-statement", fmt.Sprintf("%s, yet after further evaluation table %s (%s) reads\n    %s\n  before the statement it read\n    %s", where, name, role, got.after[i], before[i]), k)
			return
		}
	}
	// 2. later changes and COMMIT as without the statement
	for i, name := range c08RQTables {
		if got.final[i] != ref.final[i] {
			c.Violate(cls+":later-statements-see-partial-effects", fmt.Sprintf("%s; after %q table %s reads\n    %s\n  in the session without the refused statement\n    %s", where, c08RQLater, name, got.final[i], ref.final[i]), k)
			return
		}
	}
	if drv.SnapshotKey(got.files) != drv.SnapshotKey(ref.files) {
		c.Violate(cls+":commit-writes-partial-effects", fmt.Sprintf("%s; after %q the files are %q, in the session without the refused statement %q", where, c08RQLater, got.files, ref.files), k)
	}
}

// c08RQRole names what a table is to the refused statement of a case (for the message only).
func c08RQRole(k c08RQCase, name string) string {
	target, from := "", ""
	for _, x := range c08RQTargets {
		if x.Kind == k.Target {
			target = x.Name
		}
	}
	for _, x := range c08RQSources {
		if x.Name == k.Source {
			if from = x.From; from == "" {
				from = target
			}
		}
	}
	if strings.HasPrefix(k.Form, "create-") {
		target = ""
	}
	reads := false
	for _, w := range strings.FieldsFunc(from, func(r rune) bool { return !(r == '_' || r >= 'a' && r <= 'z' || r >= 'A' && r <= 'Z') }) {
		if w == name {
			reads = true
		}
	}
	switch {
	case name == target && reads:
		return "the target, which the query reads as well"
	case name == target:
		return "the target"
	case reads:
		return "a table the query only reads"
	}
	return "a table the statement does not name"
}

func c08RQRun(c *core.Ctx) {
	r := &c08RQRunner{core.Scratch("c08refusedquery"), map[string]*c08RQSession{}}
	var idx int64
	for _, t := range c08RQTargets {
		for _, s := range c08RQSources {
			if s.Name == "temporary" && t.Kind == "temporary" {
				continue // that is the source "self"
			}
			for _, sh := range c08RQShapes {
				for _, f := range c08RQForms {
					for _, st := range c08RQStates {
						idx++
						if !c.Mine(idx) {
							continue
						}
						if c.Expired() {
							c.Incomplete("time budget reached inside family refused-query")
							return
						}
						r.one(c, c08RQCase{"refused-query", t.Kind, s.Name, sh, f, st})
					}
				}
			}
		}
	}
}

func c08RQReplay(c *core.Ctx, payload json.RawMessage) bool {
	var k c08RQCase
	if json.Unmarshal(payload, &k) != nil || k.Family != "refused-query" {
		return false
	}
	fmt.Printf("replaying family refused-query: %+v\n  statement: %s\n", k, c08RQStatement(k))
	r := &c08RQRunner{core.Scratch("c08refusedquery-replay"), map[string]*c08RQSession{}}
	r.one(c, k)
	return true
}
