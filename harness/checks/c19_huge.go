package checks

// C19, supervised family "huge": output lengths, widths and precisions that no machine can serve.
//
// The function family leaves integers above 1e6 out where the manual defines the argument as the length of the
// result or a number of digits (c19ref.Fn.AllocArgs: LPAD / RPAD length, NUMBER_FORMAT precision, ROUND / CEIL / FLOOR
// place), because a request for a gigabyte may legitimately be served or fail for lack of memory. A request for 2^32
// characters or more cannot be served by any process with the 4 GiB of address space the children run in (nor 2^63 by
// any machine): the property ("boundary arguments (0, negative, huge ...) to every clause and built-in function")
// leaves csvq only the documented error. The same holds for the width and the precision of a FORMAT / PRINTF
// placeholder. This family passes exactly those numbers at exactly those positions; values between 1e6 and 2^32 stay
// out (their fate is a matter of resources). The cases run in the supervised children (address-space limit, CPU-time
// judgement, the failing case re-run alone) like the function family, because on a csvq that does not refuse them
// they end in a Go "fatal error: out of memory".

import (
	"fmt"
	"strconv"
	"strings"

	"verif/harness/internal/c19ref"
)

// integers no process with 4 GiB can serve as a length; spelled as csvq literals (and twice as another type)
var c19HugeInts = []string{"4294967296", "99999999999", "1099511627776", "9007199254740993", "4611686018427387904", "9223372036854775806", "9223372036854775807",
	"-4294967296", "-9223372036854775807", "'9223372036854775807'", "9223372036854775807.0"}

// the other arguments of a call
var c19HugeOthers = []string{"NULL", "1", "-2.5", "'a'", "''", "'éé'", "'BYTE'", "'WIDTH'", "'SJIS'"}
var c19HugeOthersFew = []string{"'a'", "'é'", "'BYTE'", "'WIDTH'", "'SJIS'"}

// placeholders of FORMAT / PRINTF: %[flag][width][.precision]specifier (string-functions.md)
var c19HugeFlags = []string{"", "-", "0", "+", " "}
var c19HugeWidths = []string{"4294967296", "99999999999", "9223372036854775807", "9223372036854775808", "99999999999999999999999999"}
var c19HugeVerbs = []string{"b", "o", "d", "x", "X", "e", "E", "f", "s", "q", "i", "T", "%"}
var c19HugeValues = []string{"NULL", "1", "-2.5", "'a'", "TRUE", "DATETIME('2012-03-15 12:03:01')"}

func (r *c19Runner) execHuge(cs *c19Case) {
	var sql string
	if cs.Fn == "PRINTF" {
		sql = "PRINTF " + strings.Join(cs.Args, ", ")
	} else {
		sql = "SELECT " + cs.Fn + "(" + strings.Join(cs.Args, ", ") + ")"
	}
	views, err, pnc := r.runText(sql)
	out := r.judge(cs, "call", err, pnc, false)
	for _, v := range views {
		for i, rec := range v.RecordSet {
			if len(rec) != len(v.Header) {
				r.c.Violate("ragged:"+cs.class()+":result", fmt.Sprintf("result record %d has %d fields, header %d; case %s", i, len(rec), len(v.Header), c19JSON(cs)), cs)
				break
			}
		}
	}
	r.c.Observe("huge_outcomes", out)
	r.evalN(1, 1)
	if r.verbose {
		fmt.Printf("  %s: err=%v panic=%v\n", sql, err, pnc)
	}
	if r.wantSample() && err != nil && pnc == nil {
		r.sample(map[string]any{"family": "huge", "sql": sql, "outcome": out})
	}
}

func c19EnumHuge(r *c19Runner) {
	unit := int64(0)
	one := func(cs c19Case) {
		if r.step(&cs) {
			r.exec(&cs)
		}
	}
	// (1) the argument positions the function family leaves out
	for _, fn := range c19ref.Functions {
		if fn.Kind != c19ref.Scalar {
			continue
		}
		for _, p := range fn.AllocArgs {
			for arity := p + 1; arity <= 5; arity++ {
				others := c19HugeOthers
				if arity > 3 {
					others = c19HugeOthersFew
				}
				for _, h := range c19HugeInts {
					mine := r.c.Mine(unit)
					unit++
					if !mine {
						continue
					}
					if r.expired() {
						return
					}
					form := "arg" + strconv.Itoa(p+1) + "of" + strconv.Itoa(arity)
					n := arity - 1 // the other positions
					idx := make([]int, n)
					for {
						args := make([]string, 0, arity)
						k := 0
						for i := 0; i < arity; i++ {
							if i == p {
								args = append(args, h)
							} else {
								args = append(args, others[idx[k]])
								k++
							}
						}
						one(c19Case{Fam: "huge", Fn: fn.Name, Form: form, Args: args})
						j := n - 1
						for j >= 0 {
							idx[j]++
							if idx[j] < len(others) {
								break
							}
							idx[j] = 0
							j--
						}
						if j < 0 {
							break
						}
					}
				}
			}
		}
	}
	// (2) width and precision of a placeholder
	for _, target := range []string{"FORMAT", "PRINTF"} {
		for _, verb := range c19HugeVerbs {
			for _, w := range append([]string{""}, c19HugeWidths...) {
				mine := r.c.Mine(unit)
				unit++
				if !mine {
					continue
				}
				if r.expired() {
					return
				}
				for _, p := range append([]string{""}, c19HugeWidths...) {
					if w == "" && p == "" {
						continue
					}
					form := "width"
					ph := w
					if p != "" {
						ph += "." + p
						form = "precision"
						if w != "" {
							form = "width.precision"
						}
					}
					for _, fl := range c19HugeFlags {
						for vi, v := range c19HugeValues {
							if target == "PRINTF" && vi%3 != 0 {
								continue
							}
							one(c19Case{Fam: "huge", Fn: target, Form: form + ":" + verb, Args: []string{"'x%" + fl + ph + verb + "y'", v}})
						}
					}
				}
			}
		}
	}
}
