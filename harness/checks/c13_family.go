//go:build verifx

package checks

import (
	"fmt"
	"os"
	"strings"

	"github.com/mithrandie/csvq/lib/query"

	"verif/harness/internal/core"
	"verif/harness/internal/gox"
)

// Shared runner of C13's families. One case = one program in two sizes: a small one (a table of a few records, the
// split threshold lowered) that is executed under EVERY goroutine schedule with at most one non-default scheduling
// decision (thorough: two, where the all-default execution has at most 50 choice points), and a large one (some
// hundred records) that runs free on 4 real threads a few times. The oracle is the race detector's log after each
// execution, reduced by raceSignature exactly like the scenarios of c13.go (the same race has the same signature
// whichever family meets it).
type c13FamilyCase struct {
	Name     string      // the class of the case: site / form / state
	Sched    goxScenario // explored under the scheduler (no program: the case runs free only)
	Free     goxScenario // run free (4 workers)
	FreeRuns int         // 0 = 2 (thorough 6)
}

// c13FamilyPrep lets a family finish a scenario right before it runs (the remote family writes the address of its
// server into the program); the recorded payload keeps the unfinished scenario, so a replay prepares it again.
var c13FamilyPrep = map[string]func(sc goxScenario) (goxScenario, func()){}

// c13FamilyExec lets a family execute its scenarios in its own way (the after-failure family executes the lines of a
// program one by one in ONE session, going on after a line that fails); goxRunOnce otherwise. Same outcome text.
var c13FamilyExec = map[string]func(dir string, sc goxScenario, cpu int, controlled bool, prefix []int) (string, gox.Execution){}

func c13FamilyExecOf(family string) func(dir string, sc goxScenario, cpu int, controlled bool, prefix []int) (string, gox.Execution) {
	if f := c13FamilyExec[family]; f != nil {
		return f
	}
	return goxRunOnce
}

func c13FamilyOnly(family string) bool {
	only := os.Getenv("VERIF_C13_FAMILY")
	return only == "" || only == family
}

// c13FamilyRun runs the cases of this worker (case i belongs to the worker for which c.Mine(i) holds).
func c13FamilyRun(c *core.Ctx, family string, cases []c13FamilyCase, before func(free bool)) {
	if !c13FamilyOnly(family) {
		return
	}
	counting := os.Getenv("VERIF_C13_COUNT") != "" // development: the size of every case, measured without the detector
	if !raceEnabled && !counting {
		c.Incomplete("family " + family + ": this binary was built without -race")
		return
	}
	w := &raceWatcher{path: raceLogPath()}
	if w.path == "" && !counting {
		c.Incomplete("family " + family + ": GORACE log_path is not set: race reports cannot be collected")
		return
	}
	prev := query.GetGoroutineManager().MinimumRequiredPerCore
	query.GetGoroutineManager().MinimumRequiredPerCore = 2
	defer func() { query.GetGoroutineManager().MinimumRequiredPerCore = prev }()
	dir := core.Scratch("c13-" + family)
	prep := c13FamilyPrep[family]
	runOnce := c13FamilyExecOf(family)
	for i, k := range cases {
		if !c.Mine(int64(i)) {
			continue
		}
		if only := os.Getenv("VERIF_C13_CASE"); only != "" && !strings.Contains(k.Name, only) {
			continue
		}
		if c.Expired() {
			c.Incomplete("family " + family + ": time budget reached before all cases were run")
			return
		}
		sched, free := k.Sched, k.Free
		done := func() {}
		if prep != nil {
			var d1, d2 func()
			sched, d1 = prep(k.Sched)
			free, d2 = prep(k.Free)
			done = func() { d1(); d2() }
		}
		w.newReports() // anything written so far does not belong to this case
		report := func(rec goxScenario, choices []int, isFree bool) {
			for _, r := range w.newReports() {
				sig := raceSignature(r)
				if sig == "race:" {
					// no frame of csvq on either stack: the harness's own goroutines (its HTTP server), not the subject
					c.Incomplete(fmt.Sprintf("family %s, case %s: a race report without a csvq frame was left aside:\n%s", family, k.Name, clip(strings.TrimSpace(r))))
					continue
				}
				c.Violate(sig, fmt.Sprintf("family %s, case %s %q, choices %v (free running: %v):\n%s", family, k.Name, rec.SQL, choices, isFree, strings.TrimSpace(r)),
					c13Payload{Family: family, Scenario: rec, Choices: choices, Free: isFree, Report: r})
			}
		}
		// 1. every schedule with at most one non-default decision
		if before != nil {
			before(false)
		}
		failed := false
		pass := func(bound int, tag string) {
			e := &gox.Explorer{MaxPreempt: bound, MaxMapDev: 0, MaxSwitch: bound, Stop: c.Expired}
			nontrivial := int64(0)
			var out string
			e.ExploreRunner(func(prefix []int) gox.Execution {
				var ex gox.Execution
				out, ex = runOnce(dir, sched, sched.CPU, true, prefix)
				return ex
			}, func(choices []int, ex gox.Execution) {
				if ex.Tasks > 1 {
					nontrivial++
				}
				// a case is meant to run: a program that fails (other than where the case says so) covers nothing
				if bad := c13FamilyFailure(out); bad != "" && !failed && !strings.Contains(k.Name, "error") {
					failed = true
					c.Incomplete(fmt.Sprintf("family %s, case %s: the program fails: %s", family, k.Name, clip(bad)))
				}
				report(k.Sched, choices, false)
			})
			c.EvalN(int64(e.Executions), nontrivial)
			c.Add("scheduled_executions[family "+family+"]"+tag, int64(e.Executions))
			if counting {
				c.Add("sched["+family+":"+k.Name+"]"+tag, int64(e.Executions))
			}
			c.Max("max_tasks", int64(e.MaxTasks))
			if nontrivial == 0 {
				c.Add("family_cases_without_a_second_task["+family+"]", 1)
			}
			if e.Capped {
				c.Incomplete("family " + family + ", case " + k.Name + tag + ": time budget reached before all schedules within the bound were run")
			}
			if e.Divergences > 0 {
				c.Incomplete(fmt.Sprintf("family %s, case %s%s: %d executions diverged from their choice vector", family, k.Name, tag, e.Divergences))
			}
		}
		if sched.SQL != "" {
			pass(1, "")
			c.Add("family_cases_explored_under_the_scheduler["+family+"]", 1)
		}
		if sched.SQL != "" && c.Thorough() {
			// the number of executions grows with the square of the choice points of the all-default execution
			_, probe := runOnce(dir, sched, sched.CPU, true, nil)
			report(k.Sched, nil, false)
			if len(probe.Points) <= 50 {
				pass(2, " (2 decisions)")
			}
		}
		// 2. the large program on real threads
		if before != nil {
			before(true)
		}
		runs := k.FreeRuns
		if runs == 0 {
			runs = 2
			if c.Thorough() {
				runs = 6
			}
		}
		for r := 0; r < runs; r++ {
			out, _ := runOnce(dir, free, 4, false, nil)
			if bad := c13FamilyFailure(out); bad != "" && r == 0 && !strings.Contains(k.Name, "error") {
				c.Incomplete(fmt.Sprintf("family %s, case %s: the program of the free runs fails: %s", family, k.Name, clip(bad)))
			}
			report(k.Free, nil, true)
		}
		c.EvalN(int64(runs), int64(runs))
		c.Add("free_running_executions", int64(runs))
		c.Add("family_cases["+family+"]", 1)
		c.Observe("family_"+family+"_cases", k.Name)
		if c.WantSample() {
			c.Sample(map[string]any{"family": family, "case": k.Name, "sql": k.Free.SQL, "explored_under_the_scheduler": k.Sched.SQL != "", "free_running_runs": runs})
		}
		done()
	}
}

// c13FamilyFailure returns the error or panic line of an outcome text of goxRunOnce.
func c13FamilyFailure(out string) string {
	for _, l := range strings.Split(out, "\n") {
		if strings.HasPrefix(l, "error: ") || strings.HasPrefix(l, "panic: ") {
			return l
		}
	}
	return ""
}
