package checks

// Extra family for C19: the column list of JOIN ... USING.
//
// The USING list of a join is a list of names; nothing in the grammar says that a name appears once, that it is a
// column of both tables, or that the list is not longer than the tables are wide. The join removes one column per
// name of the list from the joined view and sizes its buffers by the difference. This family enumerates every USING
// list of 1..6 names over {a, b, x (a column of neither table)} - lists that repeat a name included - for INNER,
// LEFT, RIGHT and FULL joins of two 2-column tables (the same columns; one common column only; one side without
// records), with and without a wildcard in the select list.

import (
	"encoding/json"
	"fmt"
	"strings"

	"verif/harness/internal/core"
	"verif/harness/internal/drv"
)

func init() {
	core.Extend("C19", "family using-list: USING lists = all sequences of 1-6 (thorough: 7) names over {a, b, x (no column of either table)}, repetitions included, x INNER / LEFT / RIGHT / FULL JOIN x 4 pairs of 2-column tables "+
		"(same columns, one common column, no records on the right, a derived table) x 5 select lists (*, the USING column, qualified wildcards, COUNT(*), a three-table chain), each statement run alone; "+
		"oracle: no panic, no Fatal Error, documented return code, rectangular results", c19UsRun)
	c19ExtReplays["using-list"] = c19UsReplay
}

var c19UsNames = []string{"a", "b", "x"}
var c19UsJoins = []string{"JOIN", "LEFT JOIN", "RIGHT JOIN", "FULL JOIN"}

type c19UsPair struct{ id, left, right string }

var c19UsPairs = []c19UsPair{
	{"same-columns", "t1", "t2"},
	{"one-common-column", "t1", "t3"},
	{"right-without-records", "t1", "t4"},
	{"derived-table", "t1", "(SELECT a, b FROM t2 WHERE a > 1) t2"},
}

// %L left table, %R right table, %J join, %U list
var c19UsSelects = []string{
	"SELECT * FROM %L %J %R USING (%U)",
	"SELECT a FROM %L %J %R USING (%U) ORDER BY a",
	"SELECT t1.*, %L.a FROM %L %J %R USING (%U)",
	"SELECT COUNT(*) FROM %L %J %R USING (%U) WHERE a IS NOT NULL",
	"SELECT * FROM %L %J %R USING (%U) %J t3 t5 USING (%U)",
}

type c19UsPayload struct {
	Family string `json:"family"`
	Pair   string `json:"tables"`
	Join   string `json:"join"`
	List   string `json:"using_list"`
}

func c19UsFiles(dir string) {
	drv.ClearDir(dir)
	drv.WriteFiles(dir, map[string]string{
		"t1.csv": "a,b\n1,x\n2,y\n3,z\n",
		"t2.csv": "a,b\n2,y\n3,q\n4,z\n",
		"t3.csv": "a,c\n1,p\n1,q\n5,r\n",
		"t4.csv": "a,b\n",
	})
}

func c19UsOne(c *core.Ctx, dir string, k c19UsPayload, verbose bool) (n int64, outcomes map[string]int) {
	outcomes = map[string]int{}
	var pair *c19UsPair
	for i := range c19UsPairs {
		if c19UsPairs[i].id == k.Pair {
			pair = &c19UsPairs[i]
		}
	}
	if pair == nil {
		fmt.Println("using-list: unknown pair of tables in payload")
		return
	}
	env := drv.New(dir)
	defer env.Close()
	for _, s := range c19UsSelects {
		sql := strings.NewReplacer("%L", pair.left, "%R", pair.right, "%J", k.Join, "%U", k.List).Replace(s)
		n++
		c19ExtExec(env, sql, func(i int, r c19ExtResult) {
			o := c19ExtJudge(c, "using-list", "query", r, fmt.Sprintf("%q", sql), k)
			outcomes[o]++
			if verbose {
				fmt.Printf("  %s\n    err=%v panic=%v views=%d\n", sql, r.Err, r.Panic, len(r.Views))
			}
		})
	}
	return
}

// c19UsLists: all sequences of 1..max names.
func c19UsLists(max int) []string {
	var out []string
	level := []string{""}
	for n := 1; n <= max; n++ {
		var next []string
		for _, p := range level {
			for _, it := range c19UsNames {
				l := it
				if p != "" {
					l = p + ", " + it
				}
				next = append(next, l)
			}
		}
		out = append(out, next...)
		level = next
	}
	return out
}

func c19UsRun(c *core.Ctx) {
	if c19ExtOff(c, "using-list") {
		return
	}
	max := 6
	if c.Thorough() {
		max = 7
	}
	dir := core.Scratch("c19using")
	c19UsFiles(dir)
	var idx int64
	for _, l := range c19UsLists(max) {
		idx++
		if !c.Mine(idx) {
			continue
		}
		if c.Expired() {
			c.Incomplete("time budget reached in family using-list")
			return
		}
		for _, p := range c19UsPairs {
			for _, j := range c19UsJoins {
				k := c19UsPayload{Family: "using-list", Pair: p.id, Join: j, List: l}
				n, outcomes := c19UsOne(c, dir, k, false)
				c.EvalN(n, n)
				for o := range outcomes {
					c.Observe("using_list_outcomes", o)
				}
				if c.WantSample() && l == "a, a, a" && j == "FULL JOIN" {
					c.Sample(map[string]any{"family": "using-list", "tables": p.id, "join": j, "using_list": l, "outcomes": outcomes})
				}
			}
		}
	}
}

func c19UsReplay(c *core.Ctx, payload json.RawMessage) {
	var k c19UsPayload
	if json.Unmarshal(payload, &k) != nil {
		fmt.Println("bad payload")
		return
	}
	dir := core.Scratch("c19using-replay")
	c19UsFiles(dir)
	n, outcomes := c19UsOne(c, dir, k, true)
	fmt.Println("statements:", n, "outcomes:", outcomes)
}
