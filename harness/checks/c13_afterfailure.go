//go:build verifx

package checks

import (
	"fmt"
	"runtime"
	"runtime/debug"
	"strings"

	"verif/harness/internal/core"
	"verif/harness/internal/drv"
	"verif/harness/internal/gox"
)

// Family after-failure (C13): a session goes on after a statement that failed (the interactive shell, a program using
// lib/query), and whatever the failed statement had opened - the scope of its query, its inline tables and aliases,
// the worker pools - is handed on to the statements that follow. The property speaks about every execution: a query
// evaluated by several workers must be free of data races also when it comes AFTER statements that failed in the same
// session (an object released twice on an error path, and later handed to two workers, is exactly such a race).
//
// Enumerated: every kind of failure of the list below (one statement per clause in which a query can fail once its
// scope is open: WITH, FROM, WHERE, GROUP BY / select list, HAVING, ORDER BY, analytic function, OFFSET, LIMIT,
// LIMIT PERCENT, INTO, set operation, subquery in FROM / select list / comparison / IN / EXISTS / LIMIT, and UPDATE /
// DELETE / INSERT SELECT) executed n times in one session, followed - in the same session - by each of the parallel
// queries below (correlated EXISTS / scalar / IN subqueries, a subquery with its own WITH clause and a user function
// with a query, each evaluated once per record by several workers). Free on 4 threads over 240 records: every kind x
// n in {1, 20} (thorough: every n in 1..20), and one history with every kind once in a row. Under the scheduler
// (every schedule with at most one non-default decision, 6 records, 2 workers): the LIMIT / OFFSET kinds (the deepest
// error paths of a query) and every fourth other kind, n = 2, one parallel query taken in turn (thorough: every kind
// x every parallel query x n in {1, 2}). The collector is switched off while one program runs (when the collector empties a pool is a
// part of the schedule the property quantifies over; off = nothing is emptied between the failure and the query).
// Oracle: the race detector's log. A statement of the history that does not fail, or a parallel query that does,
// ends in "incomplete" (the outcome of a query is C12's business), never in a violation.
func init() {
	core.Extend("C13", "family after-failure: a history of n failing statements in one session (33 kinds of failure: a bad LIMIT / LIMIT PERCENT / OFFSET value, an unknown field in WITH / WHERE / select list / HAVING / ORDER BY / analytic function, "+
		"division by zero, too many rows or fields from a subquery in every place a subquery can stand, unknown table or function, duplicate alias, INTO and set-operation mismatches, failing UPDATE / DELETE / INSERT SELECT) followed in the same session by each of 5 queries "+
		"whose subqueries are evaluated per record by several workers; free on 4 threads over 240 records for every kind x n in {1, 20} (thorough 1..20) and one mixed history; every schedule with at most one non-default decision (2 workers, 6 records) for the LIMIT / OFFSET kinds and every fourth other kind with "+
		"n = 2 and one parallel query in turn (thorough: the whole product, n in {1, 2}); the collector off while a program runs; oracle: race detector log empty", c13AfterFailureRun)
	c13FamilyExec["after-failure"] = c13HistoryRunOnce
}

const c13FailsMark = "/* fails */ "

// the kinds of failure; {t} = the table of the statement (2 records: one worker; the kinds marked Big run over the
// table of the parallel queries, so that the failure itself happens in several workers)
var c13FailureKinds = []struct {
	Name, Stmt string
	Big        bool
}{
	{Name: "limit-not-a-number", Stmt: "SELECT a FROM {t} LIMIT 'abc'"},
	{Name: "limit-null", Stmt: "SELECT a FROM {t} LIMIT NULL"},
	{Name: "limit-undeclared-variable", Stmt: "SELECT a FROM {t} LIMIT @nosuch"},
	{Name: "limit-percent-not-a-number", Stmt: "SELECT a FROM {t} LIMIT 'abc' PERCENT"},
	{Name: "limit-subquery-too-many-rows", Stmt: "SELECT a FROM {t} LIMIT (SELECT x FROM u)"},
	{Name: "limit-subquery-unknown-field", Stmt: "SELECT a FROM {t} LIMIT (SELECT nofield FROM u)"},
	{Name: "limit-after-order-by", Stmt: "SELECT a FROM {t} ORDER BY a LIMIT 'abc' WITH TIES"},
	{Name: "offset-not-a-number", Stmt: "SELECT a FROM {t} LIMIT 1 OFFSET 'abc'"},
	{Name: "offset-null", Stmt: "SELECT a FROM {t} OFFSET NULL"},
	{Name: "with-clause-unknown-field", Stmt: "WITH w AS (SELECT nofield FROM u) SELECT * FROM w"},
	{Name: "from-unknown-table", Stmt: "SELECT * FROM nosuch"},
	{Name: "from-duplicate-alias", Stmt: "SELECT 1 FROM {t} s JOIN u s ON s.a = 1"},
	{Name: "from-subquery-bad-limit", Stmt: "SELECT * FROM (SELECT a FROM {t} LIMIT 'abc') s"},
	{Name: "where-unknown-field", Stmt: "SELECT a FROM {t} WHERE nofield = 1"},
	{Name: "where-subquery-too-many-fields", Stmt: "SELECT a FROM {t} WHERE a = (SELECT x, c FROM u)"},
	{Name: "where-in-subquery-too-many-fields", Stmt: "SELECT a FROM {t} WHERE a IN (SELECT x, c FROM u)"},
	{Name: "where-exists-unknown-field-in-workers", Stmt: "SELECT a FROM {t} WHERE EXISTS (SELECT 1 FROM u WHERE u.nofield = {t}.a)", Big: true},
	{Name: "where-exists-bad-limit-in-workers", Stmt: "SELECT a FROM {t} WHERE EXISTS (SELECT 1 FROM u WHERE u.x = {t}.a LIMIT 'abc')", Big: true},
	{Name: "select-list-unknown-field", Stmt: "SELECT nofield FROM {t}"},
	{Name: "select-list-unknown-function", Stmt: "SELECT nosuchfn(a) FROM {t}"},
	{Name: "select-list-division-by-zero", Stmt: "SELECT a / 0 FROM {t}"},
	{Name: "select-list-division-by-zero-in-workers", Stmt: "SELECT a, 10 / (b - 3) FROM {t}", Big: true},
	{Name: "select-list-subquery-too-many-rows", Stmt: "SELECT a, (SELECT x FROM u) FROM {t}"},
	{Name: "select-list-subquery-too-many-rows-in-workers", Stmt: "SELECT a, (SELECT x FROM u WHERE u.x <= {t}.a) FROM {t}", Big: true},
	{Name: "select-list-not-a-group-key", Stmt: "SELECT a, SUM(b) FROM {t} GROUP BY g"},
	{Name: "having-unknown-field", Stmt: "SELECT g, COUNT(*) FROM {t} GROUP BY g HAVING nofield > 1"},
	{Name: "order-by-unknown-field", Stmt: "SELECT a FROM {t} ORDER BY nofield"},
	{Name: "analytic-order-by-unknown-field", Stmt: "SELECT a, RANK() OVER (ORDER BY nofield) FROM {t}"},
	{Name: "into-field-count", Stmt: "SELECT a, b INTO @into FROM {t}"},
	{Name: "set-operation-field-count", Stmt: "SELECT a FROM {t} UNION SELECT x, c FROM u"},
	{Name: "update-unknown-field", Stmt: "UPDATE {t} SET b = 1 WHERE nofield = 1"},
	{Name: "delete-unknown-field", Stmt: "DELETE FROM {t} WHERE nofield = 1"},
	{Name: "insert-select-bad-limit", Stmt: "INSERT INTO {t} SELECT x, 'g', c FROM u LIMIT 'x'"},
}

// the queries whose subqueries are evaluated per record by several workers
var c13AfterFailureQueries = []struct{ Name, Stmt string }{
	{"exists", "SELECT COUNT(*) FROM t WHERE EXISTS (SELECT 1 FROM u WHERE u.x = t.a)"},
	{"scalar-in-select-list", "SELECT a, (SELECT MAX(c) FROM u s WHERE s.x <= t.a) FROM t"},
	{"in", "SELECT a FROM t WHERE a IN (SELECT x FROM u s WHERE s.c > t.b)"},
	{"with-clause-in-subquery", "SELECT a FROM t WHERE EXISTS (WITH w AS (SELECT x FROM u) SELECT 1 FROM w WHERE w.x = t.a)"},
	{"query-in-user-function", "SELECT a, cnt(a) FROM t"},
}

const c13AfterFailurePre = "VAR @into; DECLARE cnt FUNCTION (@v) AS BEGIN RETURN (SELECT COUNT(*) FROM u s WHERE s.x < @v); END;"

func c13AfterFailureProgram(kinds []int, n int, queries []int) string {
	lines := []string{c13AfterFailurePre}
	for _, ki := range kinds {
		k := c13FailureKinds[ki]
		tbl := "f"
		if k.Big {
			tbl = "t"
		}
		for i := 0; i < n; i++ {
			lines = append(lines, c13FailsMark+strings.ReplaceAll(k.Stmt, "{t}", tbl))
		}
	}
	for _, qi := range queries {
		lines = append(lines, c13AfterFailureQueries[qi].Stmt)
	}
	return strings.Join(lines, "\n")
}

func c13AfterFailureCases(thorough bool) []c13FamilyCase {
	f := "a,g,b\n1,x,3\n2,y,4\n"
	u := csvTable("x,c", 4, func(i int) string { return fmt.Sprintf("%d,%d", i+1, i*2) })
	small := map[string]string{"f.csv": f, "u.csv": u,
		"t.csv": csvTable("a,g,b", 6, func(i int) string { return fmt.Sprintf("%d,k%d,%d", i+1, i%3, i*3%7) })}
	large := map[string]string{"f.csv": f, "u.csv": csvTable("x,c", 30, func(i int) string { return fmt.Sprintf("%d,%d", i*7+1, i%5) }),
		"t.csv": csvTable("a,g,b", 240, func(i int) string { return fmt.Sprintf("%d,k%d,%d", i+1, i%3, i*3%7) })}
	allQ := make([]int, len(c13AfterFailureQueries))
	for i := range allQ {
		allQ[i] = i
	}
	var out []c13FamilyCase
	for ki, k := range c13FailureKinds {
		ns := []int{1, 20}
		if thorough {
			ns = ns[:0]
			for n := 1; n <= 20; n++ {
				ns = append(ns, n)
			}
		}
		for _, n := range ns {
			name := fmt.Sprintf("%s/x%d", k.Name, n)
			runs := 0 // the runner's default
			if !thorough && n == 1 {
				runs = 1
			}
			out = append(out, c13FamilyCase{Name: name, FreeRuns: runs,
				Free: goxScenario{Name: "after-failure:" + name, Files: large, SQL: c13AfterFailureProgram([]int{ki}, n, allQ), CPU: 4}})
		}
		// the scheduler: the LIMIT / OFFSET kinds (the deepest error paths of a query) and every fourth other kind, n = 2 and
		// one parallel query taken in turn; thorough: the product, n in {1, 2}
		for qi, q := range c13AfterFailureQueries {
			deepest := strings.HasPrefix(k.Name, "limit-") || strings.HasPrefix(k.Name, "offset-")
			if !thorough && (qi != ki%len(c13AfterFailureQueries) || !(deepest || ki%4 == 0)) {
				continue
			}
			for _, n := range []int{1, 2} {
				if !thorough && n != 2 {
					continue
				}
				name := fmt.Sprintf("%s/x%d/%s", k.Name, n, q.Name)
				sc := goxScenario{Name: "after-failure:" + name, Files: small, SQL: c13AfterFailureProgram([]int{ki}, n, []int{qi}), CPU: 2}
				fr := sc
				fr.Files, fr.CPU = large, 4
				out = append(out, c13FamilyCase{Name: name, Sched: sc, Free: fr, FreeRuns: 1})
			}
		}
	}
	// one mixed history: every kind once, in a row
	all := make([]int, len(c13FailureKinds))
	for i := range all {
		all[i] = i
	}
	out = append(out, c13FamilyCase{Name: "every-kind-once",
		Free: goxScenario{Name: "after-failure:every-kind-once", Files: large, SQL: c13AfterFailureProgram(all, 1, allQ), CPU: 4}})
	return out
}

func c13AfterFailureRun(c *core.Ctx) {
	c13FamilyRun(c, "after-failure", c13AfterFailureCases(c.Thorough()), nil)
}

// c13HistoryRunOnce executes the lines of sc.SQL one after the other in ONE session, going on after a line that fails
// (what the interactive shell does). A line that starts with the mark is meant to fail. The outcome text has the form
// of goxRunOnce's: an "error: " line tells that the program did not run as the case means it to (a line of the history
// that did not fail, another line that did).
func c13HistoryRunOnce(dir string, sc goxScenario, cpu int, controlled bool, prefix []int) (string, gox.Execution) {
	drv.ClearDir(dir)
	drv.WriteFiles(dir, sc.Files)
	env := drv.NewText(dir)
	env.Tx.Flags.SetCPU(cpu)
	env.Tx.Flags.SetQuiet(true)
	var sb strings.Builder
	var ex gox.Execution
	body := func() {
		for _, l := range strings.Split(sc.SQL, "\n") {
			r := env.Exec(l)
			meant := strings.HasPrefix(l, c13FailsMark)
			switch {
			case r.Panic != nil:
				fmt.Fprintf(&sb, "panic: %v (%s)\n", r.Panic, l)
			case meant && r.Err == nil:
				fmt.Fprintf(&sb, "error: a statement of the history did not fail: %s\n", l)
			case !meant && r.Err != nil:
				fmt.Fprintf(&sb, "error: %s (%s)\n", r.Err.Error(), l)
			case meant:
				fmt.Fprintf(&sb, "failed as meant: %s\n", r.Err.Error())
			default:
				for i, v := range r.Views {
					fmt.Fprintf(&sb, "view%d %v %d records\n", i, drv.Header(v), v.RecordLen())
				}
			}
		}
	}
	// nothing is collected between the failures and the queries that follow them
	gc := debug.SetGCPercent(-1)
	if controlled {
		ex = gox.Run(prefix, body)
	} else {
		body()
	}
	env.Close()
	debug.SetGCPercent(gc)
	runtime.GC()
	return sb.String(), ex
}
