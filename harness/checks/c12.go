//go:build verifx

package checks

import (
	"encoding/json"
	"fmt"
	"hash/fnv"
	"io"
	"os"
	"sort"
	"strings"
	"time"

	"github.com/mithrandie/csvq/lib/query"

	"verif/harness/internal/core"
	"verif/harness/internal/drv"
	"verif/harness/internal/gox"
)

func init() {
	core.Register(&core.Check{
		ID:             "C12",
		ThoroughBudget: 45 * time.Minute,
		Level:          "exploration",
		Rule: "one scenario = one program run by the real lib/query on small tables with the split threshold lowered (exported GoroutineManager.MinimumRequiredPerCore = 2) so that 2-3 worker goroutines start at every parallel site; " +
			"the goroutine-schedule explorer owns every scheduling point (one per record in every worker loop, every mutex acquisition, wait-group operations, goroutine start/exit) and every Go map iteration order; " +
			"ALL schedules with at most S non-default scheduling decisions (of which at most P preemptions) and ALL map orders with at most D deviating sites are executed (S=P=D=1 quick; S=P=D=2 thorough). one case = one (scenario, choice vector); non-trivial = the execution started more than one task or met a map-order choice; " +
			"oracle: rows, row order, messages and written files identical in every execution and equal to the single-worker run",
		Assume: []string{"scheduling points at records/locks/wait-group operations: an unsynchronised access between two points is the race detector's business (C13), not this check's",
			"the two loader goroutine pairs (file reading) are left free-running: they communicate through an order-preserving channel"},
		Run:         c12Run,
		Replay:      c12Replay,
		WorkerProcs: 2,
	})
}

type goxScenario struct {
	Name     string            `json:"name"`
	Files    map[string]string `json:"files"`
	SQL      string            `json:"sql"`
	CPU      int               `json:"cpu"`
	Thorough bool              `json:"-"`
	FreeRows int               `json:"free_rows,omitempty"`   // C13: the free-running runs use t.csv with this many rows (real threads need work to overlap)
	Stdin    string            `json:"stdin,omitempty"`       // the standard input of the process image
	Loop     bool              `json:"loop_points,omitempty"` // quick tier: every loop iteration in lib/query is a scheduling point too (thorough: all scenarios)
}

func csvTable(header string, n int, row func(i int) string) string {
	var sb strings.Builder
	sb.WriteString(header + "\n")
	for i := 0; i < n; i++ {
		sb.WriteString(row(i) + "\n")
	}
	return sb.String()
}

func goxScenarios() []goxScenario {
	// t: 6 rows, group column g with keys first met by different workers, one NULL
	t := csvTable("a,g,b", 6, func(i int) string {
		return fmt.Sprintf("%d,%s,%d", i+1, []string{"x", "y", "z", "y", "x", "w"}[i], (i*7)%5)
	})
	u := csvTable("a,g,c", 4, func(i int) string { return fmt.Sprintf("%d,%s,%d", i+1, []string{"y", "x", "q", "y"}[i], i*10) })
	// joins split only when left x right >= 160
	tl := csvTable("a,g", 20, func(i int) string { return fmt.Sprintf("%d,k%d", i+1, i%7) })
	ur := csvTable("a,g", 10, func(i int) string { return fmt.Sprintf("%d,k%d", i+1, (i*3)%9) })
	files := map[string]string{"t.csv": t, "u.csv": u}
	jf := map[string]string{"tl.csv": tl, "ur.csv": ur}
	// left table whose middle third matches nothing: the chunk of the second of three workers has no match, and
	// the right rows are matched by the first and third chunk only
	mid := map[string]string{
		"tl.csv": csvTable("a,g", 30, func(i int) string {
			g := "none"
			if i < 10 || i >= 20 {
				g = fmt.Sprintf("k%d", i%3)
			}
			return fmt.Sprintf("%d,%s", i+1, g)
		}),
		"ur.csv": csvTable("a,g", 10, func(i int) string {
			if i == 7 {
				return "8,kx" // a right row that no chunk matches
			}
			return fmt.Sprintf("%d,k%d", i+1, i%3)
		})}
	sc := []goxScenario{
		{Name: "filter", Loop: true, Files: files, SQL: "SELECT a FROM t WHERE b > 1", CPU: 3},
		{Name: "select-list", Loop: true, Files: files, SQL: "SELECT a, b * 2 + 1, g || '!' FROM t", CPU: 3},
		{Name: "group-by", Files: files, SQL: "SELECT g, COUNT(*), SUM(b) FROM t GROUP BY g", CPU: 3},
		{Name: "group-by-2-keys", Loop: true, Files: files, SQL: "SELECT g, b, COUNT(*) FROM t GROUP BY g, b", CPU: 3},
		{Name: "group-by-2workers", Files: files, SQL: "SELECT g, COUNT(*) FROM t GROUP BY g", CPU: 2},
		{Name: "distinct", Loop: true, Files: files, SQL: "SELECT DISTINCT g FROM t", CPU: 3},
		{Name: "distinct-2-columns", Loop: true, Files: files, SQL: "SELECT DISTINCT g, b FROM t; SELECT g, b FROM t EXCEPT SELECT g, c FROM u;", CPU: 3},
		{Name: "order-by", Loop: true, Files: files, SQL: "SELECT a, g FROM t ORDER BY g, a DESC", CPU: 3},
		{Name: "having-aggregate", Files: files, SQL: "SELECT g, LISTAGG(a, ',') FROM t GROUP BY g HAVING COUNT(*) > 0 ORDER BY g", CPU: 3},
		{Name: "analytic", Files: files, SQL: "SELECT a, RANK() OVER (PARTITION BY g ORDER BY a), COUNT(a) OVER (PARTITION BY g), SUM(b) OVER (ORDER BY a) FROM t", CPU: 3},
		// several analytic functions inside one expression: each sorts the view by its own ORDER BY, so the order in which
		// they are evaluated decides the order of the result rows
		{Name: "analytic-functions-in-one-expression", Files: files,
			SQL: "SELECT a, RANK() OVER (ORDER BY b) * 100 + RANK() OVER (ORDER BY g) * 10 + RANK() OVER (ORDER BY a DESC) FROM t; SELECT a FROM t WHERE a IN (1, 2, 3) ORDER BY RANK() OVER (ORDER BY b) + ROW_NUMBER() OVER (ORDER BY g DESC) + CUME_DIST() OVER (ORDER BY a) + NTILE(2) OVER (ORDER BY b DESC), 1;", CPU: 3},
		// the standard input can be read once: its first mention is inside an expression that every worker evaluates
		{Name: "stdin-first-read-in-per-record-subquery", Loop: true, Files: files, Stdin: "k,v\ny,10\nx,20\nz,30\nw,40\n",
			SQL: "SELECT a, (SELECT v FROM STDIN s WHERE s.k = t.g) FROM t; SELECT COUNT(*) FROM STDIN;", CPU: 3},
		{Name: "stdin-first-read-in-exists", Loop: true, Files: files, Stdin: "k,v\ny,10\nx,20\nz,30\nw,40\n",
			SQL: "SELECT a FROM t WHERE EXISTS (SELECT 1 FROM STDIN s WHERE s.k = t.g AND s.v > 10);", CPU: 3},
		{Name: "user-aggregate-with-row-argument-over-partitions", Files: files,
			SQL: "DECLARE wsum AGGREGATE (cur, @w, @c) AS BEGIN VAR @s := @c; VAR @v; WHILE @v IN cur DO @s := @s + @v * @w; END WHILE; RETURN @s; END; SELECT a, wsum(b, a, a * 100) OVER (PARTITION BY g) FROM t; SELECT g, wsum(b, 2, 0) FROM t GROUP BY g;", CPU: 3},
		{Name: "user-function-in-where-and-select", Files: files,
			SQL: "DECLARE dbl FUNCTION (@x) AS BEGIN VAR @y := @x * 2; RETURN @y; END; SELECT a, dbl(b) FROM t WHERE dbl(a) > 4;", CPU: 3},
		{Name: "union", Loop: true, Files: files, SQL: "SELECT g FROM t UNION SELECT g FROM u", CPU: 3},
		{Name: "except-intersect", Files: files, SQL: "SELECT g FROM t EXCEPT SELECT g FROM u; SELECT g FROM t INTERSECT SELECT g FROM u;", CPU: 3},
		{Name: "subquery-in", Loop: true, Files: files, SQL: "SELECT a FROM t WHERE g IN (SELECT g FROM u)", CPU: 3},
		{Name: "error-at-one-record", Files: files, SQL: "SELECT a, 10 / (a - 4) FROM t", CPU: 3},
		{Name: "inner-join", Files: jf, SQL: "SELECT tl.a, ur.a FROM tl JOIN ur ON tl.g = ur.g", CPU: 2},
		{Name: "inner-join-3-workers-middle-chunk-unmatched", Files: map[string]string{
			"tl.csv": csvTable("a,g", 30, func(i int) string {
				g := "none"
				if i < 10 || i >= 20 {
					g = fmt.Sprintf("k%d", i%3)
				}
				return fmt.Sprintf("%d,%s", i+1, g)
			}),
			"ur.csv": csvTable("a,g", 10, func(i int) string { return fmt.Sprintf("%d,k%d", i+1, i%3) })},
			SQL: "SELECT tl.a, ur.a FROM tl JOIN ur ON tl.g = ur.g", CPU: 3},
		{Name: "full-join-3-workers-middle-chunk-unmatched", Files: mid, SQL: "SELECT tl.a, ur.a FROM tl FULL JOIN ur ON tl.g = ur.g", CPU: 3},
		{Name: "right-join-3-workers-middle-chunk-unmatched", Files: mid, SQL: "SELECT tl.a, ur.a FROM tl RIGHT JOIN ur ON tl.g = ur.g", CPU: 3},
		{Name: "left-join-3-workers-middle-chunk-unmatched", Files: mid, SQL: "SELECT tl.a, ur.a FROM tl LEFT JOIN ur ON tl.g = ur.g", CPU: 3, Thorough: true},
		{Name: "lateral-join", Files: files, SQL: "SELECT t.a, s.d, s.g FROM t CROSS JOIN LATERAL (SELECT t.a * 10 AS d, u.g FROM u WHERE u.a = t.a) s", CPU: 3},
		{Name: "lateral-left-join", Files: files, SQL: "SELECT t.a, s.d FROM t LEFT JOIN LATERAL (SELECT t.b + u.c AS d FROM u WHERE u.g = t.g) s ON TRUE", CPU: 2},
		{Name: "left-join", Files: jf, SQL: "SELECT tl.a, ur.a FROM tl LEFT JOIN ur ON tl.g = ur.g", CPU: 2},
		{Name: "full-join", Files: jf, SQL: "SELECT tl.a, ur.a FROM tl FULL JOIN ur ON tl.g = ur.g", CPU: 2},
		{Name: "cross-join", Files: jf, SQL: "SELECT tl.a, ur.a FROM tl CROSS JOIN ur WHERE tl.a + ur.a = 11", CPU: 2, Thorough: true},
		{Name: "natural-join", Files: files, SQL: "SELECT * FROM t NATURAL JOIN u", CPU: 3},
		{Name: "insert-select", Files: files, SQL: "INSERT INTO t SELECT a + 10, g, c FROM u; SELECT * FROM t;", CPU: 3},
		{Name: "update", Loop: true, Files: files, SQL: "UPDATE t SET b = b + 100 WHERE g IN ('x', 'y'); SELECT * FROM t; COMMIT;", CPU: 3},
		{Name: "update-2-tables", Files: files, SQL: "UPDATE t, u SET t.b = u.c, u.c = t.b FROM t JOIN u ON t.a = u.a; SELECT * FROM t; SELECT * FROM u; COMMIT;", CPU: 3},
		{Name: "delete", Files: files, SQL: "DELETE FROM t WHERE b < 2; SELECT * FROM t; COMMIT;", CPU: 3},
		{Name: "replace", Files: files, SQL: "REPLACE INTO t (a, g, b) USING (a) VALUES (2, 'r', 0), (30, 'n1', 1), (31, 'n2', 2), (32, 'n3', 3); SELECT * FROM t; COMMIT;", CPU: 3},
		{Name: "replace-1-new", Files: files, SQL: "REPLACE INTO t (a, g, b) USING (a) VALUES (2, 'r', 0), (5, 's', 9), (30, 'n1', 1); SELECT * FROM t; COMMIT;", CPU: 3},
		{Name: "create-2-update-1", Files: files, SQL: "CREATE TABLE `n1.csv` (c1); CREATE TABLE `n2.csv` (c1); INSERT INTO n1 VALUES (1); UPDATE t SET b = 0; UPDATE u SET c = 0; COMMIT;", CPU: 3},
		{Name: "ltsv-json-load", Loop: true, Files: map[string]string{"l.ltsv": "a:1\tb:2\na:3\nb:4\ta:5\nc:6\n", "j.jsonl": "{\"a\":1}\n{\"b\":2,\"a\":3}\n{\"c\":4}\n{\"a\":5}\n"}, SQL: "SELECT * FROM l; SELECT * FROM j;", CPU: 3},
	}
	return sc
}

// goxOutcome runs the scenario once (uncontrolled parts: environment creation; controlled: the program).
func goxRunOnce(dir string, sc goxScenario, cpu int, controlled bool, prefix []int) (string, gox.Execution) {
	drv.ClearDir(dir)
	drv.WriteFiles(dir, sc.Files)
	env := drv.NewText(dir)
	env.Tx.Flags.SetCPU(cpu)
	env.Tx.Flags.SetQuiet(true)
	if sc.Stdin != "" {
		_ = env.Sess.SetStdin(io.NopCloser(strings.NewReader(sc.Stdin)))
	}
	var r drv.Result
	var ex gox.Execution
	body := func() { r = env.Exec(sc.SQL) }
	if controlled {
		ex = gox.Run(prefix, body)
	} else {
		body()
	}
	env.Close()
	var sb strings.Builder
	for i, v := range r.Views {
		fmt.Fprintf(&sb, "view%d %v %s\n", i, drv.Header(v), drv.RowsKey(drv.Rows(v)))
	}
	if r.Err != nil {
		fmt.Fprintf(&sb, "error: %s\n", r.Err.Error())
	}
	if r.Panic != nil {
		fmt.Fprintf(&sb, "panic: %v\n", r.Panic)
	}
	fmt.Fprintf(&sb, "out: %q\n", r.Out)
	snap := drv.DirSnapshot(dir)
	names := make([]string, 0, len(snap))
	for n := range snap {
		names = append(names, n)
	}
	sort.Strings(names)
	for _, n := range names {
		fmt.Fprintf(&sb, "file %s: %q\n", n, snap[n])
	}
	return sb.String(), ex
}

type c12Payload struct {
	Scenario goxScenario `json:"scenario"`
	Choices  []int       `json:"choices"`
	Want     string      `json:"single_worker_outcome"`
	Got      string      `json:"outcome"`
	Loop     bool        `json:"loop_points_on"`         // whether loop iterations were scheduling points in the recorded execution
	Free     bool        `json:"free_running,omitempty"` // family builtin-calls: real threads, no choice vector
}

func c12Signature(name, want, got string) string {
	// class of the difference: which part differs first
	wl, gl := strings.Split(want, "\n"), strings.Split(got, "\n")
	for i := 0; i < len(wl) && i < len(gl); i++ {
		if wl[i] != gl[i] {
			part := strings.SplitN(wl[i], " ", 2)[0]
			kind := "differs"
			if sameMultiset(wl[i], gl[i]) {
				kind = "same-rows-in-another-order"
			}
			return fmt.Sprintf("%s:%s:%s", name, strings.TrimRight(part, ":0123456789"), kind)
		}
	}
	return name + ":length-differs"
}

func h64s(s string) uint64 { h := fnv.New64a(); h.Write([]byte(s)); return h.Sum64() }

func sameMultiset(a, b string) bool {
	f := func(s string) string {
		parts := strings.Split(s, "]")
		sort.Strings(parts)
		return strings.Join(parts, "]")
	}
	return f(a) == f(b)
}

// c12Run: quick = every expression evaluation is a scheduling point, one non-default decision. thorough = that
// pass, then a second pass with the coarser points (locks, wait groups, record boundaries) and two decisions.
func c12Run(c *core.Ctx) {
	if os.Getenv("VERIF_C12_FAMILY") != "" {
		return // development aid: one family of c12_*.go alone
	}
	gox.EvalPoints = true
	defer func() { gox.EvalPoints, gox.LoopPoints = false, false }()
	c12Pass(c, 1, 1, 1, "")
	if c.Thorough() {
		gox.EvalPoints = false
		c12Pass(c, 2, 2, 2, " (coarse points, 2 decisions)")
	}
	gox.EvalPoints, gox.LoopPoints = false, false
	// family builtin-calls: every built-in / aggregate / analytic function over a table split over real threads
	runs := 3
	if c.Thorough() {
		runs = 12
	}
	goxFnFamily(c, runs, func(call goxFnCall, sc goxScenario, want string, got []string) {
		fn := strings.SplitN(strings.TrimPrefix(call.Name, "fn:"), "/", 2)[0]
		if goxFnNondeterministic[fn] {
			return
		}
		for _, g := range got {
			if g != want {
				c.Violate(c12Signature("builtin-calls:"+strings.SplitN(call.Name, "/", 2)[0], want, g), fmt.Sprintf("%q over %d rows with 4 workers on real threads: %s", call.SQL, goxFnRows, goxFirstDiff(want, g)),
					c12Payload{Scenario: sc, Free: true})
				return
			}
		}
	}, nil)
}

func c12Pass(c *core.Ctx, maxP, maxD, maxS int, tag string) {
	prev := query.GetGoroutineManager().MinimumRequiredPerCore
	query.GetGoroutineManager().MinimumRequiredPerCore = 2
	defer func() { query.GetGoroutineManager().MinimumRequiredPerCore = prev }()
	dir := core.Scratch("c12")
	k := 0
	for _, sc := range goxScenarios() {
		if sc.Thorough && !c.Thorough() {
			continue
		}
		k++
		// every worker takes its share of every scenario's schedule tree (the subtrees below the all-default execution)
		if only := os.Getenv("VERIF_C12_ONLY"); only != "" && only != sc.Name {
			continue
		}
		// loop iterations of lib/query are scheduling points as well; the quick tier leaves them out for the one scenario that
		// makes two thirds of all executions
		gox.LoopPoints = gox.EvalPoints && (c.Thorough() || sc.Name != "user-aggregate-with-row-argument-over-partitions")
		want, _ := goxRunOnce(dir, sc, 1, false, nil)
		outcomes := map[string]int{}
		e := &gox.Explorer{MaxPreempt: maxP, MaxMapDev: maxD, MaxSwitch: maxS, Stop: c.Expired}
		e.Shard, e.NShards = c.Shard, c.N
		var got string
		nontrivial := int64(0)
		body := func() {}
		_ = body
		// the explorer re-runs the whole scenario for every choice vector
		var run func(prefix []int) gox.Execution
		run = func(prefix []int) gox.Execution {
			var ex gox.Execution
			got, ex = goxRunOnce(dir, sc, sc.CPU, true, prefix)
			return ex
		}
		exploreWith(e, run, func(choices []int, ex gox.Execution) {
			outcomes[got]++
			if ex.Tasks > 1 || len(ex.MapSites) > 0 {
				nontrivial++
			}
			if ex.Overflow {
				c.Incomplete("scenario " + sc.Name + ": an execution had more choice points than the explorer records; the points beyond are not explored")
			}
			if ex.Deadlock {
				c.Violate(sc.Name+":deadlock", fmt.Sprintf("scenario %s: every live task is blocked under choices %v", sc.Name, choices), c12Payload{Scenario: sc, Choices: choices, Loop: gox.LoopPoints})
			}
			if got != want {
				c.Violate(c12Signature(sc.Name, want, got), fmt.Sprintf("scenario %s %q with %d workers, choices %v:\n--- single worker:\n%s--- this schedule / map order:\n%s", sc.Name, sc.SQL, sc.CPU, choices, want, got),
					c12Payload{Scenario: sc, Choices: choices, Want: want, Got: got, Loop: gox.LoopPoints})
			}
		})
		c.EvalN(int64(e.Executions), nontrivial)
		c.Add("thread_choice_points", int64(e.ThreadPoints))
		c.Max("max_tasks", int64(e.MaxTasks))
		c.Max("max_points", int64(e.MaxPoints))
		sites := make([]string, 0, len(e.MapSites))
		for s := range e.MapSites {
			sites = append(sites, s)
			c.Observe("map_iteration_sites_reached", s)
		}
		// the schedule tree of one scenario is spread over the workers: per-scenario totals are counters
		c.Observe("scenarios", sc.Name)
		c.Add("executions["+sc.Name+"]"+tag, int64(e.Executions))
		for o := range outcomes {
			c.Observe("outcomes["+sc.Name+"]", fmt.Sprintf("%x", h64s(o)))
		}
		if e.Capped {
			c.Incomplete("scenario " + sc.Name + ": time budget reached before all schedules within the bound were run")
		}
		if e.Divergences > 0 {
			c.Incomplete(fmt.Sprintf("scenario %s: %d executions diverged from their choice vector (harness nondeterminism); not covered", sc.Name, e.Divergences))
		}
		if c.WantSample() {
			c.Sample(map[string]any{"scenario": sc.Name, "sql": sc.SQL, "workers": sc.CPU, "executions": e.Executions, "distinct_outcomes": len(outcomes), "single_worker_outcome": want})
		}
	}
}

// exploreWith adapts gox.Explorer (which re-runs a body) to a runner that needs the choice vector up front.
func exploreWith(e *gox.Explorer, run func(prefix []int) gox.Execution, visit func([]int, gox.Execution)) {
	e.ExploreRunner(run, visit)
}

func c12Replay(c *core.Ctx, payload json.RawMessage) {
	if c12FamilyReplay(c, payload) {
		return
	}
	var p c12Payload
	if err := json.Unmarshal(payload, &p); err != nil {
		fmt.Println(err)
		return
	}
	gox.EvalPoints, gox.LoopPoints = true, p.Loop
	defer func() { gox.EvalPoints, gox.LoopPoints = false, false }()
	prev := query.GetGoroutineManager().MinimumRequiredPerCore
	query.GetGoroutineManager().MinimumRequiredPerCore = 2
	defer func() { query.GetGoroutineManager().MinimumRequiredPerCore = prev }()
	dir := core.Scratch("c12")
	want, _ := goxRunOnce(dir, p.Scenario, 1, false, nil)
	if p.Free {
		for i := 0; i < 20; i++ {
			got, _ := goxRunOnce(dir, p.Scenario, 4, false, nil)
			if got != want {
				fmt.Printf("free-running run %d differs from the single-worker run\n", i+1)
				c.Violate(c12Signature(p.Scenario.Name, want, got), fmt.Sprintf("scenario %s: %s", p.Scenario.Name, goxFirstDiff(want, got)), p)
				return
			}
		}
		fmt.Println("20 free-running runs equal to the single-worker run")
		return
	}
	for i := 0; i < 3; i++ {
		got, ex := goxRunOnce(dir, p.Scenario, p.Scenario.CPU, true, p.Choices)
		fmt.Printf("replay %d: %d choice points, outcome equal to the single-worker run: %v\n", i+1, len(ex.Points), got == want)
		if got != want {
			c.Violate(c12Signature(p.Scenario.Name, want, got), fmt.Sprintf("scenario %s: --- single worker:\n%s--- replayed schedule:\n%s", p.Scenario.Name, want, got), p)
		}
	}
}
