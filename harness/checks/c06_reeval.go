package checks

import (
	"encoding/json"
	"fmt"
	"strings"

	"verif/harness/internal/core"
	"verif/harness/internal/drv"
	"verif/harness/internal/rv"
)

// Family reeval: the value of an arithmetic expression is a function of its operands at the moment of the evaluation -
// not of how often, or on which operands, the same expression (the same node of the syntax tree) was evaluated before.
//
// The other families bind fresh values to variables and evaluate every expression once. Here ONE statement evaluates
// the same expression many times: on every record of a table (SELECT, UPDATE), in every iteration of a loop over a
// cursor, in every call of a user defined function within one statement, in every execution of a prepared statement.
// One operand (the "fixed" one) is the same in all evaluations and is written as a literal, a variable, a function
// call, a scalar subquery or a nested calculation, bare and in parentheses; the other one (the "varying" one) is the
// cell / loop variable / function parameter / placeholder of the evaluation, bare, in parentheses, inside a function
// call or inside a nested calculation. The table holds every value of the value list twice, so that equal operands meet
// again later in the statement. Oracle: every single evaluation gives what the reference model of the documented rules
// gives for the two operands of that evaluation (the same exact comparison as in the main family, whose value classes
// these values are drawn from); and reading does not write: afterwards the cells of the table and the variable hold the
// values they were given.
func init() {
	core.Extend("C06", "family reeval: 9 (thorough 14) fixed operand values x 7 ways of writing the fixed operand (literal, variable, both in parentheses, function call / scalar subquery / nested calculation in parentheses) x 4 ways of writing the varying operand x both orders x + - * / % "+
		"x 5 ways of evaluating the same expression repeatedly (per record of SELECT and of UPDATE, per iteration of WHILE IN over a cursor, per call of a user defined function in one statement, per EXECUTE of a prepared statement) over a table holding every value twice; "+
		"oracle: every evaluation equals the reference result for its operands, and the cells and the variable are unchanged afterwards", c06ReevalRun)
}

type c06ReevalCase struct {
	Family  string `json:"family"`
	Fixed   string `json:"fixed"`
	Form    int    `json:"fixed_form"`
	Context string `json:"context"`
}

func c06ReevalValues(thorough bool) []rv.V {
	vs := []rv.V{rv.I(2), rv.I(-7), rv.Fl(2.5), rv.Fl(3), rv.S("4"), rv.S(" 1.5"), rv.S("abc"), rv.N(), rv.I(3)}
	if thorough {
		vs = append(vs, rv.I(1), rv.I(10), rv.Fl(0.25), rv.S("-3"), rv.S("12"))
	}
	return vs
}

// ways of writing an operand; %s is the literal, the variable, the cell or the placeholder; plus0: the operand is the
// nested calculation <value> + 0
type c06ReevalForm struct {
	name  string
	tmpl  string
	lit   bool // %s is the literal of the fixed value (otherwise the variable @f)
	plus0 bool
}

var c06ReevalFixedForms = []c06ReevalForm{
	{"literal", "%s", true, false},
	{"literal-in-parentheses", "(%s)", true, false},
	{"variable", "%s", false, false},
	{"variable-in-parentheses", "(%s)", false, false},
	{"function-call-in-parentheses", "(COALESCE(%s, %s))", false, false},
	{"scalar-subquery-in-parentheses", "((SELECT %s))", false, false},
	{"nested-calculation-in-parentheses", "(%s + 0)", false, true},
}

var c06ReevalVaryingForms = []c06ReevalForm{
	{"bare", "%s", false, false},
	{"in-parentheses", "(%s)", false, false},
	{"function-call-in-parentheses", "(COALESCE(%s, %s))", false, false},
	{"nested-calculation-in-parentheses", "(%s + 0)", false, true},
}

var c06ReevalContexts = []string{"select-per-record", "update-per-record", "while-in-cursor", "function-per-call", "prepared-per-execute"}

func (f c06ReevalForm) text(operand string) string {
	return strings.ReplaceAll(f.tmpl, "%s", operand)
}

func (f c06ReevalForm) value(v rv.V) rv.V {
	if f.plus0 {
		return rv.Arith(v, rv.I(0), '+').V
	}
	return v
}

type c06ReevalExpr struct {
	sql     string
	vf      int
	op      byte
	fixedLH bool
}

// the expressions of one (fixed value, fixed form): varying form x operator x order
func c06ReevalExprs(fixedText string, varying string) []c06ReevalExpr {
	var out []c06ReevalExpr
	for vi, vf := range c06ReevalVaryingForms {
		for _, op := range c06Arith {
			out = append(out, c06ReevalExpr{fixedText + " " + string(op) + " " + vf.text(varying), vi, op, true})
			out = append(out, c06ReevalExpr{vf.text(varying) + " " + string(op) + " " + fixedText, vi, op, false})
		}
	}
	return out
}

func c06ReevalQuote(s string) string {
	return "'" + strings.ReplaceAll(strings.ReplaceAll(s, `\`, `\\`), "'", `\'`) + "'"
}

func c06ReevalRun(c *core.Ctx) { c06ReevalOver(c, nil) }

func c06ReevalOver(c *core.Ctx, only *c06ReevalCase) {
	vals := c06ReevalValues(c.Thorough() || only != nil)
	// the records: every value twice
	recs := append(append([]rv.V{}, vals...), vals...)
	var env *drv.Env
	closeEnv := func() {
		if env != nil {
			env.Close()
			env = nil
		}
	}
	defer closeEnv()
	nExprs := len(c06ReevalVaryingForms) * len(c06Arith) * 2
	// a fresh process image with the table t (k, x, r0 .. r<n-1>)
	build := func() error {
		closeEnv()
		env = drv.New(core.Scratch("c06reeval"))
		cols := []string{"k", "x"}
		for i := 0; i < nExprs; i++ {
			cols = append(cols, fmt.Sprintf("r%d", i))
		}
		if r := env.Exec("DECLARE t VIEW (" + strings.Join(cols, ", ") + ");"); r.Err != nil || r.Panic != nil {
			return fmt.Errorf("%v %v", r.Err, r.Panic)
		}
		if r := env.Exec("DECLARE res VIEW (" + strings.Join(append([]string{"k"}, cols[2:]...), ", ") + ");"); r.Err != nil || r.Panic != nil {
			return fmt.Errorf("%v %v", r.Err, r.Panic)
		}
		for i, v := range recs {
			env.SetVar("ins", v.Primary())
			if r := env.Exec(fmt.Sprintf("INSERT INTO t (k, x) VALUES (%d, @ins);", i+1)); r.Err != nil || r.Panic != nil {
				return fmt.Errorf("%v %v", r.Err, r.Panic)
			}
		}
		return nil
	}
	var idx int64
	for _, fixed := range vals {
		lit, ok := fixed.SQL()
		if !ok {
			continue
		}
		for fi, ff := range c06ReevalFixedForms {
			for _, ctxName := range c06ReevalContexts {
				idx++
				if only != nil {
					if only.Fixed != fixed.Key() || only.Form != fi || only.Context != ctxName {
						continue
					}
				} else if !c.Mine(idx) {
					continue
				}
				if c.Expired() {
					c.Incomplete("time budget reached inside family reeval")
					return
				}
				if env == nil {
					if err := build(); err != nil {
						c.Incomplete("family reeval: cannot build the table: " + err.Error())
						return
					}
				}
				pay := c06ReevalCase{"reeval", fixed.Key(), fi, ctxName}
				env.SetVar("f", fixed.Primary())
				fixedText := ff.text("@f")
				if ff.lit {
					fixedText = ff.text(lit)
				}
				fixedVal := ff.value(fixed)
				varying := map[string]string{"select-per-record": "x", "update-per-record": "x", "while-in-cursor": "@x", "function-per-call": "@x", "prepared-per-execute": ":x"}[ctxName]
				exprs := c06ReevalExprs(fixedText, varying)
				texts := make([]string, len(exprs))
				for i, e := range exprs {
					texts[i] = e.sql
				}
				var prog string
				wantViews := 2
				// statements inside a loop do not hand their result tables to the caller: the loop collects into the table res
				collect := func(k string) string { return "INSERT INTO res VALUES (" + k + ", " + strings.Join(texts, ", ") + ")" }
				switch ctxName {
				case "select-per-record":
					sel := "SELECT k, " + strings.Join(texts, ", ") + " FROM t;"
					prog = sel + sel
				case "update-per-record":
					var sets, cols []string
					for i, t := range texts {
						sets = append(sets, fmt.Sprintf("r%d = %s", i, t))
						cols = append(cols, fmt.Sprintf("r%d", i))
					}
					upd := "UPDATE t SET " + strings.Join(sets, ", ") + "; SELECT k, " + strings.Join(cols, ", ") + " FROM t;"
					prog = upd + upd
				case "while-in-cursor":
					prog = "DECLARE cur CURSOR FOR SELECT k, x FROM t; OPEN cur; WHILE VAR @k, @x IN cur DO " + collect("@k") + "; END WHILE; CLOSE cur; DISPOSE CURSOR cur; SELECT * FROM res; DELETE FROM res;"
					wantViews = 1
				case "function-per-call":
					var decl, calls, disp []string
					for i, t := range texts {
						decl = append(decl, fmt.Sprintf("DECLARE fn%d FUNCTION (@x, @f) AS BEGIN RETURN %s; END;", i, t))
						calls = append(calls, fmt.Sprintf("fn%d(x, @f)", i))
						disp = append(disp, fmt.Sprintf("DISPOSE FUNCTION fn%d;", i))
					}
					sel := "SELECT k, " + strings.Join(calls, ", ") + " FROM t;"
					prog = strings.Join(decl, " ") + sel + sel + strings.Join(disp, " ")
				case "prepared-per-execute":
					prog = "PREPARE st FROM " + c06ReevalQuote(collect(":k")) + "; " +
						"DECLARE cur CURSOR FOR SELECT k, x FROM t; OPEN cur; WHILE VAR @k, @x IN cur DO EXECUTE st USING @k AS k, @x AS x; END WHILE; CLOSE cur; DISPOSE CURSOR cur; DISPOSE PREPARE st; SELECT * FROM res; DELETE FROM res;"
					wantViews = 1
				}
				sigBase := "reeval:" + ctxName + ":fixed-operand-" + ff.name
				r := env.Exec(prog)
				if r.Err != nil || r.Panic != nil || len(r.Views) != wantViews {
					c.Violate("reeval:"+ctxName+":error", fmt.Sprintf("%s with @f = %s over the records %v: error %v, panic %v, %d result tables (expected %d)", prog, fixed.Key(), recs, r.Err, r.Panic, len(r.Views), wantViews), pay)
					closeEnv()
					continue
				}
				var rows [][]rv.V
				for _, v := range r.Views {
					rows = append(rows, drv.Rows(v)...)
				}
				broken := len(rows) != wantViews*len(recs)
				if broken {
					c.Violate("reeval:"+ctxName+":error", fmt.Sprintf("%s: %d result records, expected %d", prog, len(rows), wantViews*len(recs)), pay)
				}
				reported := map[string]bool{}
				for ri, row := range rows {
					if len(row) != 1+len(exprs) || row[0].K != rv.Int || row[0].I < 1 || row[0].I > int64(len(recs)) {
						c.Violate("reeval:"+ctxName+":error", fmt.Sprintf("%s: result record %d is %v", prog, ri+1, row), pay)
						broken = true
						break
					}
					x := recs[row[0].I-1]
					for i, e := range exprs {
						vfm := c06ReevalVaryingForms[e.vf]
						a, b := fixedVal, vfm.value(x)
						if !e.fixedLH {
							a, b = b, a
						}
						want := rv.Arith(a, b, e.op)
						if want.Err || want.Wrapped {
							continue // not in this family (no zero among the values, small numbers)
						}
						if !rv.SameValue(row[1+i], want.V) {
							broken = true
							sig := sigBase + ":varying-operand-" + vfm.name
							if !reported[sig] {
								reported[sig] = true
								c.Violate(sig, fmt.Sprintf("%s evaluated repeatedly (%s) with @f = %s: evaluation %d of %d, on the operand %s (record k = %d), gives %s, the documented rules give %s; the records hold %v",
									e.sql, ctxName, fixed.Key(), ri+1, len(rows), x.Key(), row[0].I, row[1+i].Key(), want.V.Key(), recs), pay)
							}
						}
					}
				}
				c.EvalN(int64(len(rows)*len(exprs)), int64(len(rows)*len(exprs)))
				// reading does not write
				chk := env.Exec("SELECT k, x FROM t; SELECT @f;")
				okState := chk.Err == nil && chk.Panic == nil && len(chk.Views) == 2
				if okState {
					tr := drv.Rows(chk.Views[0])
					fr := drv.Rows(chk.Views[1])
					okState = len(tr) == len(recs) && len(fr) == 1 && len(fr[0]) == 1 && rv.SameValue(fr[0][0], fixed)
					for i := 0; okState && i < len(tr); i++ {
						okState = len(tr[i]) == 2 && rv.SameValue(tr[i][0], rv.I(int64(i+1))) && rv.SameValue(tr[i][1], recs[i])
					}
					if !okState {
						c.Violate("reeval:"+ctxName+":operands-changed-by-the-evaluation", fmt.Sprintf("after %s with @f = %s: the table holds %v (it was filled with k = 1.., x = %v) and @f is %v", prog, fixed.Key(), tr, recs, fr), pay)
					}
				} else {
					c.Violate("reeval:"+ctxName+":error", fmt.Sprintf("reading the table and @f after %s: %v %v", prog, chk.Err, chk.Panic), pay)
				}
				c.EvalN(1, 1)
				if broken || !okState {
					closeEnv() // later cases start from a clean process image
				}
				if c.WantSample() && fi == 1 && ctxName == "select-per-record" {
					c.Sample(map[string]any{"family": "reeval", "context": ctxName, "fixed": fixed.Key(), "expr": exprs[0].sql, "evaluations": len(rows)})
				}
			}
		}
	}
}

func c06ReevalReplay(c *core.Ctx, payload json.RawMessage) bool {
	var k c06ReevalCase
	if json.Unmarshal(payload, &k) != nil || k.Family != "reeval" {
		return false
	}
	fmt.Printf("replaying family reeval: fixed operand %s, form %d, %s\n", k.Fixed, k.Form, k.Context)
	c06ReevalOver(c, &k)
	return true
}
