package checks

import (
	"encoding/json"
	"fmt"
	"runtime/debug"
	"strings"

	"github.com/mithrandie/csvq/lib/parser"
	"github.com/mithrandie/ternary"

	"verif/harness/internal/core"
	"verif/harness/internal/dml"
	"verif/harness/internal/drv"
	"verif/harness/internal/rv"
)

func init() {
	core.Register(&core.Check{
		ID:    "C08",
		Level: "model_checking",
		Rule: "from every reference state the C05 breadth-first search reaches (to the stated depth) every failing statement form is executed on a fresh csvq transaction after replaying the path: division by zero at the first/a middle/the last record, " +
			"at the second SET item, wrong length or failing value in the 2nd VALUES row, unknown field, ambiguous multi-table update, field of a table not updated, failing ADD default, duplicate/unknown column in ALTER, sub-query error, REPLACE key errors, " +
			"seven failing CREATE TABLE forms; on a file table (also through an alias), two file tables joined, a temporary table and standard input. one case = (state, failing statement) on which csvq returned an error; " +
			"compared: SELECT * of all four tables and of two views declared before the statement with their contents before it (differential), the repository files and control files, the transaction's file handlers, then a corrected statement against the reference, " +
			"then COMMIT and the files against the reference; non-trivial = the failure strikes after a part of the statement's work has been done (later record, later SET item/VALUES row/column definition, joined row after the first, CREATE after the file was created)",
		Assume: []string{"states and paths come from the reference model internal/dml (see C05); whether a statement must fail is decided by that model, a statement the model does not refuse in a state is not a case there",
			"single session; failures are evaluation errors, not cancellation (signals/cancellation are C01/C11's subject)",
			"per state one extra run keeps two declared views and two open cursors across successful UPDATE/REPLACE/DELETE/ALTER statements and checks that they still show the old rows"},
		Run:    c08Run,
		Replay: c08Replay,
	})
}

const c08SigStdinLock = "stdin:corrected-statement-after-a-failed-one-refused:lock-wait-timeout"

type c08Payload struct {
	Path    []string `json:"path"`
	Variant string   `json:"variant"` // "" = the snapshot probe of the state
	SQL     []string `json:"sql"`
}

type c08Runner struct {
	c05Runner
	sampled map[string]bool
}

var c08AllowedControl = map[string]bool{".t.csv.lock": true, ".t.csv.temp": true, ".u.csv.lock": true, ".u.csv.temp": true}

const c08Snap = "DECLARE snapt VIEW AS SELECT * FROM t; DECLARE snapm VIEW AS SELECT * FROM tmp;"

func snapOf(obs []dml.TabSnap, name string) dml.TabSnap {
	for _, o := range obs {
		if o.Name == name {
			return o
		}
	}
	return dml.TabSnap{}
}

const c08Churn = "SELECT k || 'p', w + 1, w * 1.5, 'q' || w FROM u; SELECT k || 'q', n + 1000, n * 2.5 FROM tmp; SELECT 'x' || 'y', 1 + 2, 2.5 * 2, DATETIME('2020-01-02 03:04:05');"

func sameSnap(a, b dml.TabSnap) bool {
	return strings.Join(a.Cols, ",") == strings.Join(b.Cols, ",") && drv.RowsKey(a.Rows) == drv.RowsKey(b.Rows)
}

// snapsUnchanged reads the two views declared before the statement and compares them with the tables as they were.
func snapsUnchanged(sys *dml.Sys, before []dml.TabSnap) string {
	for _, p := range [][2]string{{"snapt", "t"}, {"snapm", "tmp"}} {
		s, err := sys.ReadOne(p[0])
		if err != nil {
			return fmt.Sprintf("view %s unreadable: %v", p[0], err)
		}
		if b := snapOf(before, p[1]); !sameSnap(s, b) {
			return fmt.Sprintf("view %s (declared as SELECT * FROM %s before the statement) now shows %s, it was %s", p[0], p[1], s.Key(), b.Key())
		}
	}
	return ""
}

func (r *c08Runner) variant(path []dml.Op, st *dml.State, v *dml.Variant) {
	c := r.c
	out := v.Op.Apply(st)
	if out.Kind != dml.Fail {
		c.Add("variant_not_failing_in_state", 1)
		return
	}
	payload := c08Payload{Path: idsOf(path), Variant: v.Id, SQL: append(sqlOf(path, v.Op), v.Retry.SQL())}
	late := "early"
	if v.Late {
		late = "late"
	}
	cls := v.Op.Class() + "@" + kindsOf(v.Op, st) + ":" + late
	where := fmt.Sprintf("after %q the failing statement %q (%s)", strings.Join(sqlOf(path, nil), "; "), v.Op.SQL(), v.Id)
	violate := func(what, msg string) {
		c.Violate(cls+":"+what, where+": "+msg, payload)
	}
	sys, ok := r.replayPath(path)
	if !ok {
		c.Add("prefix_not_followed_by_csvq", 1)
		return
	}
	defer sys.Close()
	if res := sys.DoSQL(c08Snap); res.Err != nil || res.Panic != nil {
		c.Violate("harness:snapshot-views", fmt.Sprint(res.Err, res.Panic), payload)
		return
	}
	before, err := sys.ReadAll()
	if err != nil {
		c.Violate("harness:read-before", err.Error(), payload)
		return
	}
	if _, d, re := dml.CompareState(before, st, "", 0); d != dml.Same || re {
		c.Add("prefix_not_followed_by_csvq", 1)
		return
	}
	filesBefore, _ := sys.Files()
	if v.NeedsHandler != "" {
		held := false
		for _, h := range sys.HandlerKeys() {
			if h == v.NeedsHandler {
				held = true
			}
		}
		if !held {
			c.Add("variant_not_failing_in_state", 1)
			return
		}
	}

	res := sys.Do(v.Op)
	r.logf("  failing: %s -> err=%v log=%q", v.Op.SQL(), res.Err, res.Out)
	c.Add("transitions", 1)
	if res.Panic != nil {
		violate("panic", fmt.Sprint(res.Panic))
		return
	}
	if drv.IsFatal(res.Err) {
		violate("fatal-error", res.Err.Error())
		return
	}
	if dml.IsSyntaxError(res.Err) {
		c.Violate("harness:statement-does-not-parse", where+": "+res.Err.Error(), payload)
		return
	}
	if res.Err == nil {
		// not a case of this property; reported because the reference refuses the statement (that is C05's disagreement)
		violate("statement-the-reference-refuses-succeeded", fmt.Sprintf("reference: %v; csvq log %q", out.Why, res.Out))
		return
	}
	c.Eval(st.Key()+"|"+v.Id, v.Late)
	c.Observe("error_classes", dml.ErrClass(res.Err))
	c.Observe("failing_forms", v.Id)
	nViol := c.NViolations()

	// values the failed statement may have handed back to the pools are re-issued by the next evaluations: run
	// some before looking (a cell that was recycled while a table still holds it is overwritten here)
	sys.DoSQL(c08Churn)
	// 1. every table as before (differential)
	after, err := sys.ReadAll()
	if err != nil {
		violate("tables-unreadable-after-the-failure", err.Error())
		return
	}
	r.logf("  tables after the failure:\n      %s", showObs(after))
	for i := range after {
		if !sameSnap(after[i], before[i]) {
			violate("table-changed-by-failed-statement", fmt.Sprintf("csvq error %q; table %s\n    before: %s\n    after:  %s", res.Err, after[i].Name, before[i].Key(), after[i].Key()))
			return
		}
	}
	if msg := snapsUnchanged(sys, before); msg != "" {
		violate("declared-view-changed-by-failed-statement", msg)
		return
	}
	// 2. repository and handlers
	files, control := sys.Files()
	for k, g := range files {
		if w, ok := filesBefore[k]; !ok {
			violate("file-left-by-failed-statement", fmt.Sprintf("new file %s = %q", k, g))
			return
		} else if w != g {
			violate("file-changed-by-failed-statement", fmt.Sprintf("file %s = %q, was %q", k, g, w))
			return
		}
	}
	for k := range filesBefore {
		if _, ok := files[k]; !ok {
			violate("file-removed-by-failed-statement", k)
			return
		}
	}
	for _, k := range control {
		if !c08AllowedControl[k] {
			violate("control-file-left-by-failed-statement", k)
			return
		}
	}
	for _, h := range sys.HandlerKeys() {
		if h != "t.csv" && h != "u.csv" {
			violate("file-handler-left-by-failed-statement", h)
			return
		}
	}
	if v.NewFile != "" {
		if _, err := sys.ReadOne("`" + v.NewFile + "`"); err == nil {
			violate("table-of-failed-create-visible", "SELECT * FROM `"+v.NewFile+"` succeeds")
			return
		}
	}
	// 3. the corrected statement behaves as on an untouched state
	out2 := v.Retry.Apply(st)
	if out2.Kind == dml.Unspecified {
		c.Add("corrected_statement_has_two_readings", 1)
		return
	}
	res2 := sys.Do(v.Retry)
	obs2, err2 := sys.ReadAll()
	r.logf("  corrected: %s -> err=%v log=%q", v.Retry.SQL(), res2.Err, res2.Out)
	sr := compareStep(v.Retry, st, &out2, res2, obs2, err2)
	if sr.sig == c05SigStdinLock {
		c.Violate(c08SigStdinLock, where+fmt.Sprintf(": the corrected statement %q: %s", v.Retry.SQL(), sr.msg), payload)
		return
	}
	if sr.sig == c05SigReplaceOrder {
		c.Add("corrected_replace_appended_in_another_order", 1) // C05's finding; nothing of this property
		return
	}
	if sr.sig != "" {
		violate("corrected-statement:"+sr.sig, fmt.Sprintf("the corrected statement %q: %s", v.Retry.SQL(), sr.msg))
		return
	}
	if res2.Err == nil {
		if msg := snapsUnchanged(sys, before); msg != "" {
			violate("declared-view-changed-by-later-statement", fmt.Sprintf("after the corrected statement %q: %s", v.Retry.SQL(), msg))
			return
		}
	}
	// 4. COMMIT writes the reference state
	extra := map[string]string{}
	if cr, ok := v.Retry.(*dml.Create); ok && res2.Err == nil {
		extra[cr.File] = cr.Content(st)
	}
	if what, msg := commitAndCompare(sys, sr.final, extra); what != "" {
		violate("after-commit:"+what, msg)
		return
	}
	if c.NViolations() == nViol {
		c.Add("traces_validated_against_impl", 1)
		if c.WantSample() && v.Late && len(path) >= 1 && !r.sampled[v.Op.Class()] {
			r.sampled[v.Op.Class()] = true
			c.Sample(map[string]any{"statements": payload.SQL, "error": dml.ErrClass(res.Err), "variant": v.Id, "tables_after_failure": strings.Split(showObs(after), "\n      ")})
		}
	}
}

// overwriting statements of the snapshot probe, built for the columns the state has
func c08Overwriters(st *dml.State) []dml.Op {
	var ops []dml.Op
	for _, name := range []string{"t", "tmp"} {
		t := st.Tab(name)
		var sets []dml.SetItem
		for _, cn := range t.Cols {
			sets = append(sets, dml.SetItem{Col: dml.Col{Name: cn}, Val: dml.LS("OVER")})
		}
		if len(sets) > 0 {
			ops = append(ops, &dml.Update{Id: "probe-upd-" + name, Targets: []string{name}, From: []dml.TabRef{{Tab: name}}, Sets: sets})
		}
	}
	ops = append(ops,
		&dml.Update{Id: "probe-upd2", Multi: true, Targets: []string{"t", "tmp"}, From: []dml.TabRef{{Tab: "t"}, {Tab: "tmp"}},
			On:   dml.Cmp{Op: "=", L: dml.QC("t", "k"), R: dml.QC("tmp", "k")},
			Sets: []dml.SetItem{{Col: dml.Col{Tab: "t", Name: "k"}, Val: dml.LS("K2")}, {Col: dml.Col{Tab: "tmp", Name: "k"}, Val: dml.LS("K3")}}},
		&dml.Replace{Id: "probe-rep", Tab: "t", Cols: []string{"k"}, Keys: []string{"k"}, Rows: [][]dml.Expr{{dml.LS("OVER")}, {dml.LS("new")}}},
		&dml.Delete{Id: "probe-del", Targets: []string{"tmp"}, From: []dml.TabRef{{Tab: "tmp"}}},
		&dml.AddCols{Id: "probe-add", Tab: "t", Cols: []dml.NewCol{{Name: "cz", Default: dml.LI(1)}}, Pos: "FIRST"},
		&dml.DropCols{Id: "probe-drop", Tab: "t", Cols: []string{"k"}},
	)
	return ops
}

func (r *c08Runner) fetchAll(sys *dml.Sys, cursor string, ncols int) ([][]rv.V, error) {
	vars := make([]string, ncols)
	for i := range vars {
		vars[i] = fmt.Sprintf("@%s%d", cursor, i)
	}
	if ncols == 0 {
		return nil, nil
	}
	if res := sys.DoSQL("DECLARE " + strings.Join(vars, ", ")); res.Err != nil {
		return nil, res.Err
	}
	var rows [][]rv.V
	for i := 0; i < 1000; i++ {
		res := sys.DoSQL("FETCH " + cursor + " INTO " + strings.Join(vars, ", "))
		if res.Err != nil {
			return nil, res.Err
		}
		in, err := sys.Env.Proc.ReferenceScope.CursorIsInRange(parser.Identifier{Literal: cursor})
		if err != nil {
			return nil, err
		}
		if in != ternary.TRUE {
			break
		}
		row := make([]rv.V, ncols)
		for k, v := range vars {
			p, err := sys.Env.Proc.ReferenceScope.GetVariable(parser.Variable{Name: v[1:]})
			if err != nil {
				return nil, err
			}
			row[k] = rv.FromPrimary(p)
		}
		rows = append(rows, row)
	}
	return rows, nil
}

// snapshotProbe: views and cursors opened before later successful statements keep showing the old rows.
func (r *c08Runner) snapshotProbe(path []dml.Op, st *dml.State) {
	c := r.c
	ows := c08Overwriters(st)
	payload := c08Payload{Path: idsOf(path), SQL: sqlOf(path, nil)}
	sys, ok := r.replayPath(path)
	if !ok {
		c.Add("prefix_not_followed_by_csvq", 1)
		return
	}
	defer sys.Close()
	if res := sys.DoSQL(c08Snap + " DECLARE ct CURSOR FOR SELECT * FROM t; OPEN ct; DECLARE cm CURSOR FOR SELECT * FROM tmp; OPEN cm;"); res.Err != nil || res.Panic != nil {
		c.Violate("harness:snapshot-views", fmt.Sprint(res.Err, res.Panic), payload)
		return
	}
	before, err := sys.ReadAll()
	if err != nil {
		c.Violate("harness:read-before", err.Error(), payload)
		return
	}
	if _, d, re := dml.CompareState(before, st, "", 0); d != dml.Same || re {
		c.Add("prefix_not_followed_by_csvq", 1)
		return
	}
	cur := st
	changed := 0
	for _, o := range ows {
		out := o.Apply(cur)
		if out.Kind != dml.OK || len(out.Alt) > 0 {
			continue
		}
		res := sys.Do(o)
		payload.SQL = append(payload.SQL, o.SQL())
		r.logf("  overwrite: %s -> err=%v log=%q", o.SQL(), res.Err, res.Out)
		if res.Err != nil || res.Panic != nil {
			c.Add("probe_statement_refused", 1) // C05's matter
			return
		}
		if out.Next.Key() != cur.Key() {
			changed++
		}
		cur = out.Next
	}
	c.Add("snapshot_probes", 1)
	where := fmt.Sprintf("after %q, with views and cursors on t and tmp opened, then %q", strings.Join(sqlOf(path, nil), "; "), strings.Join(payload.SQL[len(path):], "; "))
	if msg := snapsUnchanged(sys, before); msg != "" {
		c.Violate("snapshot:declared-view-changed-by-later-statement", where+": "+msg, payload)
		return
	}
	for _, p := range [][2]string{{"ct", "t"}, {"cm", "tmp"}} {
		b := snapOf(before, p[1])
		rows, err := r.fetchAll(sys, p[0], len(b.Cols))
		if err != nil {
			c.Violate("snapshot:cursor-unreadable", where+": "+err.Error(), payload)
			return
		}
		if drv.RowsKey(rows) != drv.RowsKey(b.Rows) {
			c.Violate("snapshot:open-cursor-shows-later-changes", where+fmt.Sprintf(": cursor on %s fetched %s, the table was %s when it was opened", p[1], drv.RowsKey(rows), drv.RowsKey(b.Rows)), payload)
			return
		}
	}
	c.Eval(st.Key()+"|snapshot-probe", changed > 0)
}

func c08Run(c *core.Ctx) {
	debug.SetGCPercent(400)
	dir := core.Scratch("c08")
	r := &c08Runner{c05Runner{c: c, dir: dir}, map[string]bool{"update": true}}
	in, re, other := replaceOrderProbe(dir, 64)
	c.Info("replace_append_order_probe", fmt.Sprintf("64 runs: %d in the given order, %d reordered, %d other", in, re, other))
	stable := re == 0
	expand := func(o dml.Op, out *dml.Outcome) bool { return !(out.Tail >= 2 && !stable) }
	type search struct {
		label    string
		ops      []dml.Op
		depth    int
		lateOnly bool
		minDepth int
	}
	var searches []search
	if c.Thorough() {
		searches = []search{{"full-alphabet-states-to-depth-2", dml.Alphabet(true), 2, false, 0},
			{"core-alphabet-states-of-depth-3-late-failures", dml.Alphabet(false), 3, true, 3}}
	} else {
		searches = []search{{"core-alphabet-states-to-depth-2", dml.Alphabet(false), 2, false, 0}}
	}
	for _, s := range searches {
		g := dml.Explore(s.ops, s.depth, nil, expand, nil)
		c.Info("states_"+s.label, len(g.Nodes))
		for ni, n := range g.Nodes {
			if n.Depth < s.minDepth || !c.MineKey(n.Key) {
				continue
			}
			if c.Expired() {
				c.Incomplete(fmt.Sprintf("%s: time budget reached (state %d of %d in search order)", s.label, ni, len(g.Nodes)))
				return
			}
			pix := g.Path(ni)
			path := make([]dml.Op, len(pix))
			for i, x := range pix {
				path[i] = s.ops[x]
			}
			vs := dml.Variants(n.State, c.Thorough())
			for i := range vs {
				if s.lateOnly && !vs[i].Late {
					continue
				}
				r.variant(path, n.State, &vs[i])
			}
			if !s.lateOnly {
				r.snapshotProbe(path, n.State)
			}
			c.Add("states", 1)
			c.Add("states_"+s.label, 1)
			c.Max("max_depth", int64(n.Depth))
		}
	}
}

func c08Replay(c *core.Ctx, payload json.RawMessage) {
	if c08DialectReplay(c, payload) || c08FailedAttrReplay(c, payload) || c08LongReplay(c, payload) || c08AlterCancelReplay(c, payload) || c08RQReplay(c, payload) {
		return
	}
	var cp c08CancelPayload
	if json.Unmarshal(payload, &cp) == nil && cp.Family == "cancel" {
		if cp.SQL == "" {
			// {"family": "cancel"} alone: the whole family, serially, in this process
			fmt.Println("replaying the whole family cancel")
			c08CancelRun(c)
			return
		}
		fmt.Printf("replaying %q with the cancellation visible from poll %d on\n", cp.SQL, cp.K)
		c08CancelOne(c, core.Scratch("c08cancel"), c08CancelProgOf(cp.SQL), cp.K, cp.CPU)
		return
	}
	var p c08Payload
	if err := json.Unmarshal(payload, &p); err != nil {
		fmt.Println("bad payload:", err)
		return
	}
	ops := dml.Alphabet(true)
	st := dml.Initial()
	var path []dml.Op
	for _, id := range p.Path {
		o := dml.OpByID(ops, id)
		if o == nil {
			fmt.Println("unknown statement id", id)
			return
		}
		out := o.Apply(st)
		if out.Kind != dml.OK {
			fmt.Printf("path statement %s is %s in the reference\n", id, out.Kind)
			return
		}
		st = out.Next
		path = append(path, o)
	}
	r := &c08Runner{c05Runner{c: c, dir: core.Scratch("c08r"), verbose: true}, map[string]bool{}}
	fmt.Printf("replaying path %v, variant %q\n", p.Path, p.Variant)
	if p.Variant == "" {
		r.snapshotProbe(path, st)
		return
	}
	v := dml.VariantByID(dml.Variants(st, true), p.Variant)
	if v == nil {
		fmt.Println("the variant does not exist in this state")
		return
	}
	r.variant(path, st, v)
}
