package checks

import (
	"encoding/json"
	"fmt"
	"strings"

	"verif/harness/internal/core"
	"verif/harness/internal/drv"
	"verif/harness/internal/procx"
)

// Extra family for C02: the process that writes a table has written another one before. csvq keeps process-wide
// caches (parsed JSON column paths and queries, compiled patterns, ...); what the first table put there must not
// change what the second table is written as. The second table's names are near collisions of the first one's:
// other letter case, the same names in another order, a longer dotted path, a name that is a prefix of the other.
//
// Oracle: the file the second table was written to is read back by a fresh process with the header and the values
// the writing process saw for that table (the property's round trip), in every format.
func init() {
	core.Extend("C02", "family second-table: 5 formats (CSV, TSV, LTSV, JSON, JSON Lines) x 9 pairs of near-colliding headers (letter case, order, dotted JSON paths, prefixes) x 3 ways of writing the first table (CREATE TABLE AS SELECT, a SELECT printed in the format, JSON_OBJECT over the names) x "+
		"2 ways of writing the second (CREATE TABLE AS SELECT + COMMIT; INSERT into an existing empty table + COMMIT); oracle: the second file holds the bytes a process writes that ran the second program alone, and (names without dots) a fresh process reads it back with the second table's own header and values", c02SecondRun)
}

var c02SecondFormats = []struct{ name, ext, readAs string }{
	{"CSV", "csv", "`%s`"}, {"TSV", "tsv", "`%s`"}, {"LTSV", "ltsv", "`%s`"}, {"JSON", "json", "`%s`"}, {"JSONL", "jsonl", "`%s`"},
}

// first header, second header
var c02SecondHeaders = [][2][]string{
	{{"id", "name"}, {"id", "Name"}},
	{{"id", "name"}, {"ID", "NAME"}},
	{{"Total", "n"}, {"total", "N"}},
	{{"a", "b"}, {"b", "a"}},
	{{"a.b", "a.c"}, {"A.b", "a.C"}},
	{{"a.b", "a.c"}, {"a.B", "A.c"}},
	{{"k", "kk"}, {"kk", "K"}},
	{{"x y", "z"}, {"X Y", "Z"}},
	{{"v", "w"}, {"V", "w"}},
}

type c02SecondCase struct {
	Family string   `json:"family"`
	Format string   `json:"format"`
	H1     []string `json:"first_header"`
	H2     []string `json:"second_header"`
	First  string   `json:"first_written_by"`
	Second string   `json:"second_written_by"`
}

func c02Quoted(names []string) string {
	q := make([]string, len(names))
	for i, n := range names {
		q[i] = "`" + n + "`"
	}
	return strings.Join(q, ", ")
}

func c02SecondProgram(k c02SecondCase, ext string) (prime, target string) {
	sel := func(h []string, v string) string {
		return fmt.Sprintf("SELECT 1 AS `%s`, '%s' AS `%s`", h[0], v, h[1])
	}
	switch k.First {
	case "create":
		prime = fmt.Sprintf("CREATE TABLE `first.%s` (%s) AS %s; COMMIT;", ext, c02Quoted(k.H1), sel(k.H1, "p"))
	case "print":
		prime = fmt.Sprintf("SET @@FORMAT TO %s; %s; SET @@FORMAT TO CSV;", k.Format, sel(k.H1, "p"))
	case "json_object":
		prime = fmt.Sprintf("SELECT JSON_OBJECT(`%s`, `%s`) FROM (%s) s;", k.H1[0], k.H1[1], sel(k.H1, "p"))
	}
	switch k.Second {
	case "create":
		target = fmt.Sprintf("CREATE TABLE `second.%s` (%s) AS %s; COMMIT;", ext, c02Quoted(k.H2), sel(k.H2, "q"))
	case "insert":
		target = fmt.Sprintf("CREATE TABLE `second.%s` (%s); COMMIT; INSERT INTO `second.%s` VALUES (1, 'q'); COMMIT;", ext, c02Quoted(k.H2), ext)
	}
	return
}

func c02SecondOne(c *core.Ctx, dir string, k c02SecondCase) {
	ext := ""
	for _, f := range c02SecondFormats {
		if f.name == k.Format {
			ext = f.ext
		}
	}
	file := "second." + ext
	prime, target := c02SecondProgram(k, ext)
	// every program runs in a process of its own (the real CLI): the caches in question are process-wide
	drv.ClearDir(dir)
	r := procx.Exec(procx.Run{Dir: dir, Args: []string{"-q", prime + " " + target}})
	if r.Exit != 0 {
		// a header csvq refuses for this format: refused loudly, nothing was written
		c.Observe("second_table_refused", strings.Join(strings.Fields(fmt.Sprintf("%s %v: exit %d %s", k.Format, k.H2, r.Exit, r.Stderr)), " "))
		return
	}
	after := drv.DirSnapshot(dir)[file]
	drv.ClearDir(dir)
	ra := procx.Exec(procx.Run{Dir: dir, Args: []string{"-q", target}})
	alone := drv.DirSnapshot(dir)[file]
	c.Eval(fmt.Sprintf("second|%s|%v|%v|%s|%s", k.Format, k.H1, k.H2, k.First, k.Second), true)
	where := fmt.Sprintf("format %s: csvq -q %q leaves %s = %q", k.Format, prime+" "+target, file, clip(after))
	if ra.Exit != 0 {
		c.Violate("second-table:refused-alone-but-written-after-another-table:"+k.Format, fmt.Sprintf("%s, while csvq -q %q fails: %s", where, target, ra.Stderr), k)
		return
	}
	if alone != after {
		c.Violate("second-table:written-differently-after-another-table:"+k.Format+":first-"+k.First, fmt.Sprintf("%s; csvq -q %q alone writes %q", where, target, clip(alone)), k)
		return
	}
	if strings.Contains(strings.Join(k.H2, ""), ".") {
		return // a dotted name is a path into nested JSON objects: what it reads back as is the main families' subject
	}
	rb := procx.Exec(procx.Run{Dir: dir, Args: []string{"-f", "CSV", "SELECT * FROM `" + file + "`"}})
	want := strings.Join(k.H2, ",") + "\n1,q\n"
	if k.Format == "CSV" || k.Format == "TSV" {
		want = c02CsvHeader(k.H2) + "\n1,q\n"
	}
	if rb.Exit != 0 {
		c.Violate("second-table:written-file-unreadable:"+k.Format, fmt.Sprintf("%s; reading it back: %s", where, rb.Stderr), k)
		return
	}
	if rb.Stdout != want {
		c.Violate("second-table:written-file-reads-back-differently:"+k.Format+":first-"+k.First, fmt.Sprintf("%s; a fresh process reads it back as %q, the table is %q", where, rb.Stdout, want), k)
	}
}

// c02CsvHeader: the CSV rendering of a header (names with a space are not quoted by csvq's CSV writer unless needed)
func c02CsvHeader(h []string) string { return strings.Join(h, ",") }

func c02SecondRun(c *core.Ctx) {
	dir := core.Scratch("c02second")
	var idx int64
	for _, f := range c02SecondFormats {
		for _, h := range c02SecondHeaders {
			for _, first := range []string{"create", "print", "json_object"} {
				for _, second := range []string{"create", "insert"} {
					idx++
					if !c.Mine(idx) {
						continue
					}
					c02SecondOne(c, dir, c02SecondCase{"second-table", f.name, h[0], h[1], first, second})
				}
			}
		}
	}
}

func c02SecondReplay(c *core.Ctx, payload json.RawMessage) bool {
	var k c02SecondCase
	if json.Unmarshal(payload, &k) != nil || k.Family != "second-table" {
		return false
	}
	fmt.Printf("replaying family second-table: %+v\n", k)
	c02SecondOne(c, core.Scratch("c02second-replay"), k)
	return true
}

// Family extensions: the format of a file is chosen by its extension both when csvq writes (--out without --format,
// CREATE TABLE) and when it loads by name; the two must agree for every spelling of the extension.
func init() {
	core.Extend("C02", "family extensions: 5 formats x 4 letter-case spellings of the extension x 2 ways of writing (--out without --format, CREATE TABLE AS + COMMIT) on the real CLI; oracle: the file loads back by name with the header and the values written", c02ExtRun)
}

type c02ExtCase struct {
	Family string `json:"family"`
	File   string `json:"file"`
	Via    string `json:"written_by"`
}

func c02ExtOne(c *core.Ctx, dir string, k c02ExtCase) {
	drv.ClearDir(dir)
	var w procx.Outcome
	if k.Via == "out" {
		w = procx.Exec(procx.Run{Dir: dir, Args: []string{"-q", "-o", k.File, "SELECT 1 AS a, 'x y' AS b UNION ALL SELECT 2, 'z'"}})
	} else {
		w = procx.Exec(procx.Run{Dir: dir, Args: []string{"-q", "CREATE TABLE `" + k.File + "` (a, b) AS SELECT 1, 'x y' UNION ALL SELECT 2, 'z'; COMMIT;"}})
	}
	if w.Exit != 0 {
		c.Observe("extension_cases_refused", k.File+": "+strings.Join(strings.Fields(w.Stderr), " "))
		return
	}
	c.Eval("ext|"+k.File+"|"+k.Via, true)
	written := drv.DirSnapshot(dir)[k.File]
	rb := procx.Exec(procx.Run{Dir: dir, Args: []string{"-f", "CSV", "SELECT * FROM `" + k.File + "`"}})
	want := "a,b\n1,x y\n2,z\n"
	if rb.Exit != 0 || rb.Stdout != want {
		c.Violate("extensions:file-written-by-extension-loads-back-differently:"+k.Via, fmt.Sprintf("%s written through %s holds %q; loaded by name it reads %q (exit %d %s), written was %q", k.File, k.Via, clip(written), rb.Stdout, rb.Exit, strings.TrimSpace(rb.Stderr), want), k)
	}
}

func c02ExtRun(c *core.Ctx) {
	dir := core.Scratch("c02ext")
	var idx int64
	for _, ext := range []string{"csv", "tsv", "ltsv", "json", "jsonl"} {
		for _, sp := range []string{ext, strings.ToUpper(ext), strings.ToUpper(ext[:1]) + ext[1:], ext[:1] + strings.ToUpper(ext[1:])} {
			for _, via := range []string{"out", "create"} {
				idx++
				if !c.Mine(idx) {
					continue
				}
				c02ExtOne(c, dir, c02ExtCase{"extensions", "Out." + sp, via})
			}
		}
	}
}

func c02ExtReplay(c *core.Ctx, payload json.RawMessage) bool {
	var k c02ExtCase
	if json.Unmarshal(payload, &k) != nil || k.Family != "extensions" {
		return false
	}
	fmt.Printf("replaying family extensions: %+v\n", k)
	c02ExtOne(c, core.Scratch("c02ext-replay"), k)
	return true
}
