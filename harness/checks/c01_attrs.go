package checks

import (
	"encoding/json"
	"fmt"
	"strconv"
	"strings"

	"verif/harness/internal/core"
	"verif/harness/internal/drv"
	"verif/harness/internal/rv"
)

// Extra family for C01 (and, as the crash-free base line, C10): what COMMIT writes is encoded with the attributes
// of the table itself - its format, delimiter, header line, line break, encoding - as the procedure last saw them,
// whatever the session's flags for the output of SELECT and for the import of other files say, and whenever in the
// procedure those flags or the table's attributes (ALTER TABLE ... SET) were changed.
//
// Oracle (no hand-written expectation): the rows the procedure saw with its last SELECT of the table are the rows
// a fresh process with default flags reads from the file through the table's definition as the procedure left it;
// files that were not addressed keep their bytes; no other file appears.
func init() {
	c01AttrRule = "family attributes: 10 table layouts (CSV, CSV without header, semicolon, CRLF, TSV, LTSV, JSON, JSON Lines, fixed-length multi-line and single-line; by name or through a table function) x 6 data-changing statements (incl. a value too wide for a fixed-length column and the deletion of every row) x " +
		"26 session flags (every export flag, set before the table is loaded or after the change; every import flag, set after the change) and 11 ALTER TABLE ... SET attributes (before or after the change); " +
		"oracle: a fresh process reads back, through the table's definition as the procedure left it, exactly the rows the procedure last saw; an unaddressed file keeps its bytes"
	core.Extend("C01", c01AttrRule, func(c *core.Ctx) {
		if !c01FamilyOff("attributes") {
			c01AttrRun(c, "C01")
		}
	})
}

var c01AttrRule string

type c01AttrTable struct {
	Name, File, Init, Expr string
	Cols                   [2]string
	Ident                  bool // addressed by its name (ALTER TABLE applies)
}

var c01AttrTables = []c01AttrTable{
	{"csv", "t.csv", "a,b\n1,x\n2,y\n3,z\n", "`t.csv`", [2]string{"a", "b"}, true},
	{"csv-no-header", "n.csv", "1,x\n2,y\n3,z\n", "CSV(',', `n.csv`, 'UTF8', TRUE)", [2]string{"c1", "c2"}, false},
	{"csv-semicolon", "d.csv", "a;b\n1;x\n2;y\n3;z\n", "CSV(';', `d.csv`)", [2]string{"a", "b"}, false},
	{"csv-crlf", "r.csv", "a,b\r\n1,x\r\n2,y\r\n3,z\r\n", "`r.csv`", [2]string{"a", "b"}, true},
	{"tsv", "t.tsv", "a\tb\n1\tx\n2\ty\n3\tz\n", "`t.tsv`", [2]string{"a", "b"}, true},
	{"ltsv", "t.ltsv", "a:1\tb:x\na:2\tb:y\na:3\tb:z\n", "`t.ltsv`", [2]string{"a", "b"}, true},
	{"json", "t.json", "[{\"a\":1,\"b\":\"x\"},{\"a\":2,\"b\":\"y\"},{\"a\":3,\"b\":\"z\"}]\n", "`t.json`", [2]string{"a", "b"}, true},
	{"jsonl", "t.jsonl", "{\"a\":1,\"b\":\"x\"}\n{\"a\":2,\"b\":\"y\"}\n{\"a\":3,\"b\":\"z\"}\n", "`t.jsonl`", [2]string{"a", "b"}, true},
	{"fixed", "f.txt", "a b \n1 x \n2 y \n3 z \n", "FIXED('[2, 4]', `f.txt`)", [2]string{"a", "b"}, false},
	{"fixed-single-line", "s.txt", "1 x 2 y 3 z ", "FIXED('S[2, 4]', `s.txt`)", [2]string{"c1", "c2"}, false},
}

// %[1]s table expression, %[2]s first column, %[3]s second column
var c01AttrStmts = []string{
	"UPDATE x SET %[3]s = 'q' FROM %[1]s AS x WHERE %[2]s = 2",
	"INSERT INTO %[1]s VALUES (4, 'w')",
	"DELETE FROM %[1]s WHERE %[2]s = 1",
	"REPLACE INTO %[1]s (%[2]s, %[3]s) USING (%[2]s) VALUES (3, 'r'), (5, 'v')",
	// a value wider than a fixed-length column (the commit of such a table is refused and the file stays), no row left
	"UPDATE x SET %[3]s = 'wide-value' FROM %[1]s AS x WHERE %[2]s = 2",
	"DELETE FROM %[1]s",
}

type c01AttrFlag struct {
	Set    string
	Import bool // an import flag: set only after the table was loaded (before, it legitimately changes how the file is read)
}

var c01AttrFlags = []c01AttrFlag{
	{"@@FORMAT TO JSON", false}, {"@@FORMAT TO TSV", false}, {"@@FORMAT TO FIXED", false}, {"@@FORMAT TO LTSV", false}, {"@@FORMAT TO JSONL", false}, {"@@FORMAT TO GFM", false},
	{"@@WRITE_ENCODING TO SJIS", false}, {"@@WRITE_ENCODING TO UTF16", false}, {"@@WRITE_DELIMITER TO ';'", false},
	{"@@WRITE_DELIMITER_POSITIONS TO 'S[1, 3]'", false}, {"@@WRITE_DELIMITER_POSITIONS TO '[5, 9]'", false},
	{"@@WITHOUT_HEADER TO TRUE", false}, {"@@LINE_BREAK TO CRLF", false}, {"@@ENCLOSE_ALL TO TRUE", false},
	{"@@JSON_ESCAPE TO HEX", false}, {"@@PRETTY_PRINT TO TRUE", false}, {"@@STRIP_ENDING_LINE_BREAK TO TRUE", false},
	{"@@IMPORT_FORMAT TO TSV", true}, {"@@IMPORT_FORMAT TO FIXED", true}, {"@@DELIMITER TO ';'", true}, {"@@DELIMITER_POSITIONS TO 'S[1, 3]'", true}, {"@@DELIMITER_POSITIONS TO '[5, 9]'", true},
	{"@@ENCODING TO SJIS", true}, {"@@NO_HEADER TO TRUE", true}, {"@@WITHOUT_NULL TO TRUE", true}, {"@@JSON_QUERY TO 'x'", true},
}

// ALTER TABLE ... SET <attribute> TO <value> and the definition through which the file is to be read afterwards
// (%s = the file); RowsOnly: the new layout has no header line, the column names are the reader's
type c01AttrAlter struct {
	Set      string
	ReadAs   string
	RowsOnly bool
	Only     string // restricted to tables whose name has this prefix ("" = every named table)
}

var c01AttrAlters = []c01AttrAlter{
	{"DELIMITER TO ';'", "CSV(';', `%s`)", false, ""},
	{"DELIMITER TO '\\t'", "CSV('\\t', `%s`)", false, ""},
	{"HEADER TO FALSE", "", true, ""},
	{"LINE_BREAK TO CRLF", "", false, ""},
	{"LINE_BREAK TO LF", "", false, ""},
	{"ENCLOSE_ALL TO TRUE", "", false, ""},
	{"ENCODING TO SJIS", "", false, ""},
	{"FORMAT TO JSON", "JSON('', `%s`)", false, ""},
	{"FORMAT TO LTSV", "LTSV(`%s`)", false, ""},
	{"PRETTY_PRINT TO TRUE", "", false, "json"},
	{"JSON_ESCAPE TO HEX", "", false, "json"},
}

type c01AttrCase struct {
	Family string `json:"family"`
	Table  string `json:"table"`
	Prog   string `json:"program"`
	ReadAs string `json:"read_back_as"`
	Rows   bool   `json:"rows_only"`
}

// c01AttrReadAs builds the reading definition for a named table after ALTER ... SET
func c01AttrReadAs(t c01AttrTable, a c01AttrAlter) (string, bool) {
	switch {
	case a.ReadAs != "":
		return fmt.Sprintf(a.ReadAs, t.File), a.RowsOnly
	case a.RowsOnly: // HEADER TO FALSE
		switch t.Name {
		case "csv", "csv-crlf":
			return fmt.Sprintf("CSV(',', `%s`, 'UTF8', TRUE)", t.File), true
		case "tsv":
			return fmt.Sprintf("CSV('\\t', `%s`, 'UTF8', TRUE)", t.File), true
		}
		return "", false // the attribute does not apply to this format
	case strings.HasPrefix(a.Set, "ENCODING TO SJIS"):
		switch t.Name {
		case "csv", "csv-crlf":
			return fmt.Sprintf("CSV(',', `%s`, 'SJIS')", t.File), false
		case "tsv":
			return fmt.Sprintf("CSV('\\t', `%s`, 'SJIS')", t.File), false
		case "ltsv":
			return fmt.Sprintf("LTSV(`%s`, 'SJIS')", t.File), false
		}
		return "", false
	}
	return t.Expr, false
}

func c01AttrCases() []c01AttrCase {
	var out []c01AttrCase
	for _, t := range c01AttrTables {
		for _, st := range c01AttrStmts {
			stmt := fmt.Sprintf(st, t.Expr, t.Cols[0], t.Cols[1])
			out = append(out, c01AttrCase{"attributes", t.Name, stmt + ";", t.Expr, false})
			for _, f := range c01AttrFlags {
				out = append(out, c01AttrCase{"attributes", t.Name, stmt + "; SET " + f.Set + ";", t.Expr, false})
				if !f.Import {
					out = append(out, c01AttrCase{"attributes", t.Name, "SET " + f.Set + "; " + stmt + ";", t.Expr, false})
				}
			}
			if !t.Ident {
				continue
			}
			for _, a := range c01AttrAlters {
				if a.Only != "" && !strings.HasPrefix(t.Name, a.Only) {
					continue
				}
				if a.Only == "" && strings.HasPrefix(t.Name, "json") && !strings.HasPrefix(a.Set, "FORMAT") && !strings.HasPrefix(a.Set, "LINE_BREAK") {
					continue // delimiter, header, enclosure and encoding attributes are not JSON's
				}
				readAs, rowsOnly := c01AttrReadAs(t, a)
				if readAs == "" {
					continue
				}
				alter := "ALTER TABLE " + t.Expr + " SET " + a.Set
				out = append(out,
					c01AttrCase{"attributes", t.Name, stmt + "; " + alter + ";", readAs, rowsOnly},
					c01AttrCase{"attributes", t.Name, alter + "; " + stmt + ";", readAs, rowsOnly})
			}
		}
	}
	return out
}

func c01AttrTableOf(name string) c01AttrTable {
	for _, t := range c01AttrTables {
		if t.Name == name {
			return t
		}
	}
	return c01AttrTable{}
}

func c01AttrView(env *drv.Env, expr string, rowsOnly bool) (string, error) {
	r := env.Exec("SELECT * FROM " + expr + ";")
	if r.Panic != nil {
		return "", fmt.Errorf("panic: %v", r.Panic)
	}
	if r.Err != nil {
		return "", r.Err
	}
	if len(r.Views) == 0 {
		return "", fmt.Errorf("no result")
	}
	v := r.Views[len(r.Views)-1]
	// compared as texts: how a value is typed on reading is the format's business (C02), not this family's
	var sb strings.Builder
	if !rowsOnly {
		sb.WriteString(strings.Join(drv.Header(v), ",") + "|")
	}
	for _, row := range drv.Rows(v) {
		for _, x := range row {
			sb.WriteString(c01AttrText(x) + "\x1f")
		}
		sb.WriteString("\x1e")
	}
	return sb.String(), nil
}

func c01AttrText(x rv.V) string {
	switch x.K {
	case rv.Int:
		return strconv.FormatInt(x.I, 10)
	case rv.Float:
		return strconv.FormatFloat(x.F, 'g', -1, 64)
	case rv.Str:
		return x.S
	}
	return x.Key()
}

// c01AttrOne runs one case; id is the property the violation is reported for.
func c01AttrOne(c *core.Ctx, dir string, k c01AttrCase) {
	t := c01AttrTableOf(k.Table)
	drv.ClearDir(dir)
	files := map[string]string{t.File: t.Init, "other.csv": "k,v\n1,one\n"}
	drv.WriteFiles(dir, files)
	env := drv.New(dir)
	env.Tx.Flags.SetQuiet(true)
	r := env.Exec(k.Prog)
	if r.Panic != nil {
		env.Close()
		c.Violate("attributes:panic", fmt.Sprintf("table %s, %q: %v", k.Table, k.Prog, r.Panic), k)
		return
	}
	if r.Err != nil {
		// a flag value or attribute this table's format refuses: nothing to judge
		env.Close()
		c.Observe("attribute_cases_refused", strings.Join(strings.Fields(r.Err.Error()), " "))
		return
	}
	// what the procedure last saw: the cached table, read through the definition it was addressed by
	seen, err := c01AttrView(env, t.Expr, k.Rows)
	if err != nil {
		env.Close()
		c.Violate("attributes:table-unreadable-inside-the-procedure", fmt.Sprintf("table %s, %q: %v", k.Table, k.Prog, err), k)
		return
	}
	rc := env.Exec("COMMIT;")
	env.Close()
	if rc.Err != nil || rc.Panic != nil {
		// csvq refused the commit loudly (a value that does not fit the layout): the file must then be unchanged
		if snap := drv.DirSnapshot(dir); snap[t.File] != t.Init {
			c.Violate("attributes:file-changed-by-refused-commit", fmt.Sprintf("table %s, %q: COMMIT failed (%v %v) yet %s holds %q", k.Table, k.Prog, rc.Err, rc.Panic, t.File, clip(snap[t.File])), k)
		}
		c.Observe("attribute_cases_commit_refused", strings.Join(strings.Fields(fmt.Sprint(rc.Err)), " "))
		return
	}
	c.Eval("attributes|"+k.Table+"|"+k.Prog, true)
	snap := drv.DirSnapshot(dir)
	for n, b := range snap {
		if n == t.File {
			continue
		}
		if want, ok := files[n]; !ok {
			c.Violate("attributes:file-left-behind", fmt.Sprintf("table %s, %q: after the commit the directory holds %s", k.Table, k.Prog, n), k)
			return
		} else if b != want {
			c.Violate("attributes:unaddressed-file-changed", fmt.Sprintf("table %s, %q: %s now holds %q", k.Table, k.Prog, n, clip(b)), k)
			return
		}
	}
	fresh := drv.New(dir)
	got, err := c01AttrView(fresh, k.ReadAs, k.Rows)
	fresh.Close()
	where := fmt.Sprintf("table %s (%s), procedure %q, then COMMIT; the file now holds %q and is read by a fresh process as %s", k.Table, t.Expr, k.Prog, clip(snap[t.File]), k.ReadAs)
	if err != nil {
		c.Violate("attributes:committed-file-unreadable:"+k.Table+":"+c01AttrKind(k.Prog), where+": "+err.Error(), k)
		return
	}
	if strings.HasSuffix(seen, "|") && strings.HasSuffix(got, "|") && (strings.HasPrefix(k.Table, "json") || strings.HasPrefix(k.ReadAs, "JSON(") || strings.HasPrefix(k.ReadAs, "LTSV(")) {
		// a JSON or LTSV file without a record has no place for the column names: no rows read back as no rows
		return
	}
	if got != seen {
		c.Violate("attributes:committed-file-differs-from-last-state-seen:"+k.Table+":"+c01AttrKind(k.Prog), fmt.Sprintf("%s: read back %q, the procedure last saw %q", where, got, seen), k)
	}
}

// c01AttrKind: what besides the data-changing statement the procedure did (for the signature)
func c01AttrKind(prog string) string {
	switch {
	case strings.Contains(prog, "ALTER TABLE"):
		rest := prog[strings.Index(prog, "ALTER TABLE"):]
		return "alter-" + strings.ToLower(strings.Fields(rest[strings.Index(rest, " SET ")+5:])[0])
	case strings.Contains(prog, "SET @@"):
		i := strings.Index(prog, "SET @@")
		return "flag-" + strings.ToLower(strings.Fields(prog[i+6:])[0])
	}
	return "plain"
}

func c01AttrRun(c *core.Ctx, id string) {
	dir := core.Scratch("c01attr-" + id)
	for i, k := range c01AttrCases() {
		if !c.Mine(int64(i)) {
			continue
		}
		if c.Expired() {
			c.Incomplete("time budget reached in family attributes")
			return
		}
		c01AttrOne(c, dir, k)
	}
}

func c01AttrReplay(c *core.Ctx, payload json.RawMessage) bool {
	var k c01AttrCase
	if json.Unmarshal(payload, &k) != nil || k.Family != "attributes" {
		return false
	}
	fmt.Printf("replaying family attributes: table %s, %q\n", k.Table, k.Prog)
	c01AttrOne(c, core.Scratch("c01attr-replay"), k)
	return true
}
