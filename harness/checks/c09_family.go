//go:build verifx

package checks

import (
	"fmt"
	"os"
	"strings"
	"time"

	"github.com/mithrandie/csvq/lib/verifshim/vrt"
	"verif/harness/internal/core"
	"verif/harness/internal/fsx"
)

// Shared by the families of C09 (c09_<family>.go): one family = a list of explorer scenarios with its own oracle. Every
// scenario carries the slot it is sharded by: the main list of c09.go occupies the slots 1..28 (two scenarios on the
// workers 1..12), so the families name slots whose worker carries little.
type c09FamScenario struct {
	family       string
	name         string
	slot         int64
	thoroughOnly bool
	mapOrder     string
	build        func() *fsx.Scenario
}

var c09Families = map[string]func() []c09FamScenario{}

func c09FamRegister(family, rule string, list func() []c09FamScenario) {
	c09Families[family] = list
	core.Extend("C09", rule, func(c *core.Ctx) {
		for _, s := range list() {
			if s.thoroughOnly && !c.Thorough() {
				continue
			}
			if !c.Mine(s.slot) {
				continue
			}
			if only := os.Getenv("VERIF_C09_ONLY"); only != "" && !strings.Contains(s.name, only) && only != s.family {
				continue // development aid
			}
			c09FamRunOne(c, s, c.Deadline, nil)
		}
	})
}

func c09FamRunOne(c *core.Ctx, s c09FamScenario, deadline time.Time, replay []string) {
	sc := s.build()
	sc.Name = s.name
	vrt.SetProcOrder(s.mapOrder, true)
	defer vrt.SetProcOrder("", false)
	ex := fsx.NewExplorer(sc, core.Scratch("c09-"+s.family+"-"+strings.NewReplacer("|", "_", "(", "", ")", "", ",", "", " ", "-", "[", "", "]", "", "*", "", "?", "", "`", "", "/", "", ":", "", ";", "", "'", "", "\\", "").Replace(s.name)), deadline)
	if replay != nil {
		ex.Replay(fsx.ParseSchedule(replay))
	} else {
		ex.Explore()
	}
	st := ex.Stats
	c.Add("states", int64(st.States))
	c.Add("transitions", int64(st.Transitions))
	c.Add("traces_validated_against_impl", int64(st.Executions))
	c.Add("terminal_states", int64(st.Terminal))
	c.Add(s.family+"_family_states", int64(st.States))
	c.Max("max_depth", int64(st.MaxDepth))
	c.EvalN(int64(st.Transitions), int64(st.States)) // one evaluation = one step of the real code followed by the invariant in the state reached
	c.Observe("scenarios", fmt.Sprintf("%s: %d states, %d transitions, %d executions, %d terminal", s.name, st.States, st.Transitions, st.Executions, st.Terminal))
	if st.Capped {
		c.Incomplete("scenario " + s.name + ": time budget reached before the state space was exhausted")
	}
	if st.Nondeterminism > 0 {
		c.Incomplete(fmt.Sprintf("scenario %s: %d replay divergences (harness nondeterminism; those branches are not covered)", s.name, st.Nondeterminism))
	}
	for sig, v := range st.Violations {
		if !strings.HasPrefix(sig, s.family+":") {
			sig = s.family + ":" + sig // a family's findings are classes of their own (a known finding of one family does not hide another's)
		}
		c.Violate(sig, fmt.Sprintf("scenario %s: %s\n  schedule: %s\n  trace:\n    %s", s.name, v.Msg, strings.Join(v.Schedule, " "), strings.Join(v.Trace, "\n    ")),
			c09Payload{Family: s.family, Scenario: s.name, Schedule: v.Schedule, Trace: v.Trace})
	}
}

// c09FamReplay re-executes a recorded schedule of a family scenario (three times: the verdict must be the same).
func c09FamReplay(c *core.Ctx, p c09Payload) bool {
	list, ok := c09Families[p.Family]
	if !ok {
		return false
	}
	for _, s := range list() {
		if s.name == p.Scenario {
			for i := 0; i < 3; i++ {
				c09FamRunOne(c, s, time.Now().Add(time.Minute), p.Schedule)
			}
		}
	}
	return true
}

// c09LeftoverAndErrors: the two judgements every family shares in a terminal state - no control file remains, and a
// program ends well or by a lock time-out.
func c09Leftover(w *fsx.World) []fsx.Violation {
	for name := range w.Files {
		if strings.HasPrefix(name, ".") {
			return []fsx.Violation{{Sig: "leftover-control-file-after-clean-end", Msg: "all processes ended yet " + name + " remains"}}
		}
	}
	return nil
}
