//go:build verifx

package checks

import (
	"encoding/json"
	"fmt"
	"os"
	"sort"
	"strings"

	"github.com/mithrandie/csvq/lib/option"
	"github.com/mithrandie/csvq/lib/query"

	"verif/harness/internal/core"
	"verif/harness/internal/drv"
)

// Family udf-declaration (C14): the declaration of a user-defined function - parameters, DEFAULT clauses, body - is
// program text that lives as long as the function and is evaluated at every call. A call must leave it as it was:
// the value of a call is determined by its arguments, the variables, flags and tables it reads, never by the calls
// made before it. Functions here are free of side effects, every call sets the variable it reads first, so
//
//	(1) the stored function (query.UserDefinedFunction: parameters, default expressions, statements), deep-printed
//	    after the declaration and after the calls, is the same;
//	(2) every call of a sequence prints what the same call prints as the only call of a fresh session (for a
//	    statement that calls the function once per row, per group or per loop iteration: what the calls print one
//	    by one in sessions of their own).
//
// Enumerated: DEFAULT expression forms (literal, caller's variable, earlier parameter, arithmetic / string / logic /
// comparison over them, CASE, IF, built-in function, nested user function, subquery) x ways of calling (PRINT, a
// second optional parameter whose default reads the first, a wrapping function, a prepared statement, a user
// aggregate as aggregate / per group / as analytic function, once per row of a table, in a WHILE loop) x sequences
// of calls in different contexts (all ordered pairs of 4 calls, a repeated call, all orders of 3 calls; one of the
// calls passes the optional argument).

func init() {
	core.Extend("C14", "family udf-declaration: 22 forms of a DEFAULT expression of an optional parameter (thorough 30) x 10 ways of calling the function (scalar, chained defaults, wrapped, prepared, aggregate, per group, analytic, per row, in a loop upwards/downwards) "+
		"x 19 sequences of calls in different contexts (all ordered pairs of 4 calls, a repeated call, all orders of 3 calls; thorough: all orders of 4); oracle: the stored function object (parameters, defaults, statements) is unchanged by the calls, "+
		"and every call prints what it prints as the only call of a fresh session", c14UdfRun)
}

var c14UdfDefaults = []string{
	"1", "'k'", "@base", "@x", "(@x)", "-@x", "@x * 2", "@base + 1", "@x + @base", "'<' || @base || '>'", "@x || ''",
	"ABS(@x - 3)", "COALESCE(NULL, @x)", "IF(@x > 2, @base, @x)", "CASE WHEN @x > 2 THEN 'hi' ELSE 'lo' END", "CASE @x WHEN 1 THEN @base ELSE 0 END",
	"@x > @base / 10", "@x IN (1, 9)", "@x BETWEEN 2 AND 6", "h(@x)", "(SELECT MAX(a) FROM t WHERE a <= @x)", "(SELECT COUNT(*) FROM t WHERE a * 10 > @base)",
}

var c14UdfDefaultsThorough = []string{
	"NULL", "TRUE", "@x IS NULL", "NOT @x = 1", "@x % 2", "h(h(@x))", "INTEGER(@x || '0')", "EXISTS (SELECT 1 FROM t WHERE a = @x + 4)",
}

type c14UdfCall struct {
	SQL string   `json:"sql"`
	Ref []string `json:"one_by_one,omitempty"` // the calls the statement makes, one by one (default: the statement itself)
}

type c14UdfCase struct {
	Family  string       `json:"family"`
	Name    string       `json:"name"`
	Mode    string       `json:"mode"`
	Default string       `json:"default"`
	Setup   string       `json:"setup"`
	Calls   []c14UdfCall `json:"calls"`
}

const c14UdfHelper = "VAR @base := 0; VAR @i := 0; DECLARE h FUNCTION (@v) AS BEGIN RETURN @v + 100; END; "

type c14UdfMode struct {
	name  string
	setup string                   // $D = the default expression
	call  func(x, base int) string // a call that omits the optional argument
	expl  func(x, base int) string // a call that passes it
	whole func() []c14UdfCall      // statements that make several calls (instead of call/expl)
}

func c14UdfModes() []c14UdfMode {
	pr := func(f string) func(x, base int) string {
		return func(x, base int) string { return fmt.Sprintf("@base := %d; "+f+";", base, x) }
	}
	scalar := "DECLARE f FUNCTION (@x, @y DEFAULT $D) AS BEGIN RETURN @y; END; "
	agg := "DECLARE ag AGGREGATE (lst, @x, @y DEFAULT $D) AS BEGIN RETURN @y; END; "
	return []c14UdfMode{
		{name: "scalar", setup: scalar, call: pr("PRINT f(%d)"), expl: pr("PRINT f(%d, 'E')")},
		{name: "chained-defaults", setup: "DECLARE f FUNCTION (@w, @x DEFAULT @w, @y DEFAULT $D) AS BEGIN RETURN @y; END; ", call: pr("PRINT f(%d)"), expl: pr("PRINT f(%d, 2, 'E')")},
		{name: "wrapped", setup: scalar + "DECLARE o1 FUNCTION (@v) AS BEGIN VAR @r := f(@v); RETURN @r; END; ", call: pr("PRINT o1(%d)"), expl: pr("PRINT f(%d, 'E')")},
		{name: "prepared", setup: scalar + "PREPARE p FROM 'SELECT f(?) FROM DUAL'; PREPARE q FROM 'SELECT f(?, ''E'') FROM DUAL'; ", call: pr("EXECUTE p USING %d"), expl: pr("EXECUTE q USING %d")},
		{name: "aggregate", setup: agg, call: pr("SELECT ag(a, %d) FROM t"), expl: pr("SELECT ag(a, %d, 'E') FROM t")},
		{name: "aggregate-per-group", setup: agg, call: pr("SELECT b, ag(a, %d) FROM t GROUP BY b ORDER BY b"), expl: pr("SELECT b, ag(a, %d, 'E') FROM t GROUP BY b ORDER BY b")},
		{name: "analytic", setup: agg, call: pr("SELECT a, ag(a, %d) OVER (PARTITION BY b) FROM t ORDER BY a"), expl: pr("SELECT a, ag(a, %d, 'E') OVER (PARTITION BY b) FROM t ORDER BY a")},
		{name: "per-row", setup: scalar, whole: func() []c14UdfCall {
			var out []c14UdfCall
			for _, base := range []int{10, 20} {
				k := c14UdfCall{SQL: fmt.Sprintf("@base := %d; SELECT a, f(a) FROM t;", base)}
				for _, a := range []int{1, 5, 9} {
					k.Ref = append(k.Ref, fmt.Sprintf("@base := %d; SELECT a, f(a) FROM t WHERE a = %d;", base, a))
				}
				out = append(out, k)
			}
			return out
		}},
		{name: "loop-upwards", setup: scalar, whole: func() []c14UdfCall {
			return []c14UdfCall{{SQL: "@i := 0; WHILE @i < 3 DO @base := 10 + @i * 10; PRINT f(1 + @i * 4); @i := @i + 1; END WHILE;",
				Ref: []string{"@base := 10; PRINT f(1 + 0 * 4);", "@base := 20; PRINT f(1 + 1 * 4);", "@base := 30; PRINT f(1 + 2 * 4);"}}, {SQL: "@base := 10; PRINT f(1);"}}
		}},
		{name: "loop-downwards", setup: scalar, whole: func() []c14UdfCall {
			return []c14UdfCall{{SQL: "@i := 2; WHILE @i >= 0 DO @base := 10 + @i * 10; PRINT f(1 + @i * 4); @i := @i - 1; END WHILE;",
				Ref: []string{"@base := 30; PRINT f(1 + 2 * 4);", "@base := 20; PRINT f(1 + 1 * 4);", "@base := 10; PRINT f(1 + 0 * 4);"}}, {SQL: "@base := 30; PRINT f(9);"}}
		}},
	}
}

// sequences over the four calls 0..3 (3 = the call that passes the optional argument)
func c14UdfSequences(thorough bool) [][]int {
	var out [][]int
	for i := 0; i < 4; i++ {
		for j := 0; j < 4; j++ {
			if i != j {
				out = append(out, []int{i, j})
			}
		}
	}
	out = append(out, []int{0, 0})
	items := []int{0, 1, 3}
	if thorough {
		items = []int{0, 1, 2, 3}
	}
	var perm func(cur []int, used map[int]bool)
	perm = func(cur []int, used map[int]bool) {
		if len(cur) == len(items) {
			out = append(out, append([]int(nil), cur...))
			return
		}
		for _, it := range items {
			if !used[it] {
				used[it] = true
				perm(append(cur, it), used)
				used[it] = false
			}
		}
	}
	perm(nil, map[int]bool{})
	return out
}

func c14UdfCases(thorough bool) []c14UdfCase {
	defaults := append([]string(nil), c14UdfDefaults...)
	if thorough {
		defaults = append(defaults, c14UdfDefaultsThorough...)
	}
	var out []c14UdfCase
	for _, d := range defaults {
		for _, m := range c14UdfModes() {
			setup := c14UdfHelper + strings.ReplaceAll(m.setup, "$D", d) // in chained-defaults @x is itself an optional parameter (DEFAULT @w)
			if m.whole != nil {
				out = append(out, c14UdfCase{"udf-declaration", m.name + "|" + d, m.name, d, setup, m.whole()})
				continue
			}
			calls := []string{m.call(1, 10), m.call(5, 20), m.call(9, 10), m.expl(5, 10)}
			for _, seq := range c14UdfSequences(thorough) {
				k := c14UdfCase{Family: "udf-declaration", Mode: m.name, Default: d, Setup: setup}
				for _, i := range seq {
					k.Calls = append(k.Calls, c14UdfCall{SQL: calls[i]})
				}
				k.Name = m.name + "|" + d + "|" + fmt.Sprint(seq)
				out = append(out, k)
			}
		}
	}
	return out
}

func c14UdfOpen(dir string) *drv.Env {
	drv.ClearDir(dir)
	drv.WriteFiles(dir, map[string]string{"t.csv": "a,b\n1,x\n5,y\n9,x\n"})
	env := drv.NewText(dir)
	env.Tx.Flags.ExportOptions.Format = option.CSV
	env.Tx.Flags.ExportOptions.WithoutHeader = true
	env.Tx.Flags.SetQuiet(true)
	return env
}

func c14UdfExec(env *drv.Env, sql string) string {
	res := env.Exec(sql)
	out := strings.ReplaceAll(res.Out, "\r", "")
	if out != "" && !strings.HasSuffix(out, "\n") {
		out += "\n"
	}
	if res.Err != nil {
		out += "error: " + c14PrimedErr(res.Err.Error()) + "\n"
	}
	if res.Panic != nil {
		out += fmt.Sprint("panic: ", res.Panic) + "\n"
	}
	return out
}

// c14UdfObjects deep-prints the stored functions of the session.
func c14UdfObjects(env *drv.Env) string {
	sc, ag := env.Proc.ReferenceScope.AllFunctions()
	var sb strings.Builder
	for _, m := range []query.UserDefinedFunctionMap{sc, ag} {
		for _, n := range m.SortedKeys() {
			fn, ok := m.Load(n)
			if !ok {
				continue
			}
			sb.WriteString(n + "{parameters:" + astKey(fn.Parameters) + " required:" + fmt.Sprint(fn.RequiredArgs) + " defaults:[")
			names := make([]string, 0, len(fn.Defaults))
			for k := range fn.Defaults {
				names = append(names, k)
			}
			sort.Strings(names)
			for _, k := range names {
				sb.WriteString(k + "=" + astKey(fn.Defaults[k]) + ";")
			}
			sb.WriteString("] statements:" + astKey(fn.Statements) + "}\n")
		}
	}
	return sb.String()
}

func c14UdfOne(c *core.Ctx, dir string, k c14UdfCase, refs map[string]string) {
	alone := func(sql string) string {
		key := k.Setup + "\x00" + sql
		if r, ok := refs[key]; ok {
			return r
		}
		env := c14UdfOpen(dir)
		setupOut := c14UdfExec(env, k.Setup)
		r := c14UdfExec(env, sql)
		env.Close()
		if strings.Contains(setupOut, "error: ") {
			r = "setup fails: " + setupOut
		}
		refs[key] = r
		return r
	}
	var want []string
	for _, call := range k.Calls {
		if len(call.Ref) == 0 {
			want = append(want, alone(call.SQL))
			continue
		}
		w := ""
		for _, r := range call.Ref {
			w += alone(r)
		}
		want = append(want, w)
	}
	env := c14UdfOpen(dir)
	defer env.Close()
	if out := c14UdfExec(env, k.Setup); strings.Contains(out, "error: ") {
		c.Add("udf_cases_whose_declaration_fails", 1)
		c.Observe("udf_cases_whose_declaration_fails_list", k.Default+": "+clip(out))
		return
	}
	before := c14UdfObjects(env)
	nontrivial := false
	var got []string
	for _, call := range k.Calls {
		o := c14UdfExec(env, call.SQL)
		got = append(got, o)
		if !strings.Contains(o, "error: ") {
			nontrivial = true
		}
	}
	after := c14UdfObjects(env)
	c.Eval("udf|"+k.Name, nontrivial)
	// debugging aid: C14_DUMP=<path prefix> writes every program with what it printed
	if d := os.Getenv("C14_DUMP"); d != "" {
		if f, err := os.OpenFile(fmt.Sprintf("%s.udf.%d", d, os.Getpid()), os.O_APPEND|os.O_CREATE|os.O_WRONLY, 0644); err == nil {
			fmt.Fprintf(f, "%s\n  %s\n  got:  %q\n  want: %q\n", k.Name, c14UdfText(k), got, want)
			f.Close()
		}
	}
	if after != before {
		c.Violate("udf-declaration-edited-by-call:"+k.Mode, fmt.Sprintf("family udf-declaration: %s\n then %s\n the stored function differs after the calls\n before: %s\n after:  %s", k.Setup, c14UdfText(k), c14Diff(before, after), c14Diff(after, before)), k)
	}
	for i := range k.Calls {
		if got[i] != want[i] {
			c.Violate("udf-call-depends-on-earlier-calls:"+k.Mode, fmt.Sprintf("family udf-declaration: %s\n then %s\n statement %d prints %q; executed as the first statement after the declarations (every call in a session of its own) it prints %q", k.Setup, c14UdfText(k), i+1, clip(got[i]), clip(want[i])), k)
			break
		}
	}
}

// c14Diff shows the part of a around the first position where it differs from b
func c14Diff(a, b string) string {
	i := 0
	for i < len(a) && i < len(b) && a[i] == b[i] {
		i++
	}
	from := i - 60
	if from < 0 {
		from = 0
	}
	to := i + 160
	if to > len(a) {
		to = len(a)
	}
	return "..." + a[from:to] + "..."
}

func c14UdfText(k c14UdfCase) string {
	var s []string
	for _, call := range k.Calls {
		s = append(s, call.SQL)
	}
	return strings.Join(s, " ")
}

func c14UdfRun(c *core.Ctx) {
	dir := core.Scratch("c14udf")
	cases := c14UdfCases(c.Thorough())
	c.Info("udf_declaration_cases", len(cases))
	refs := map[string]string{}
	lastSetup := ""
	for i, k := range cases {
		// the cases of one declaration share their references: they go to one worker
		if k.Setup != lastSetup {
			lastSetup = k.Setup
			refs = map[string]string{}
		}
		if !c.MineKey(k.Setup) {
			continue
		}
		if c.Expired() {
			c.Incomplete("time budget reached in family udf-declaration")
			return
		}
		c14UdfOne(c, dir, k, refs)
		if i == 0 && c.WantSample() {
			c.Sample(map[string]any{"family": "udf-declaration", "declarations": k.Setup, "calls": c14UdfText(k)})
		}
	}
}

func c14UdfReplay(c *core.Ctx, payload json.RawMessage) bool {
	var k c14UdfCase
	if json.Unmarshal(payload, &k) != nil || k.Family != "udf-declaration" {
		return false
	}
	fmt.Printf("replaying family udf-declaration: %s\n  %s\n", k.Setup, c14UdfText(k))
	c14UdfOne(c, core.Scratch("c14udf-replay"), k, map[string]string{})
	return true
}
