package checks

import (
	"encoding/json"
	"fmt"
	"io"
	"sort"
	"strings"
	"time"

	"verif/harness/internal/core"
	"verif/harness/internal/dml"
	"verif/harness/internal/drv"
	"verif/harness/internal/rv"
)

// Extra family for C05: typed cells. A cell read from a file is a text; a cell written by an earlier statement of the
// session (INSERT / UPDATE / REPLACE / ALTER ... ADD ... DEFAULT with a cast, a literal or a function result) is a typed
// object - DATETIME, FLOAT, INTEGER, BOOLEAN, STRING - that the cached table, the temporary table or the standard-input
// table keeps until the end of the session. The statement under test compares, sorts, aggregates or keys on such cells;
// afterwards further values of every type are created and the table is read again.
//
// Oracle: a reference table (values of internal/rv, predicates through rv.Op, which C06 validates against csvq):
// UPDATE rewrites the named column of exactly the rows whose condition holds, DELETE removes exactly those rows, REPLACE
// updates the row with the key and appends the others, INSERT ... SELECT appends in the order of the query; every other
// cell (value AND type), the row order and the column order are unchanged; the reported count is the number of rows
// matched; a SELECT in between changes nothing; the committed file holds the same values.
func init() {
	core.Extend("C05", "family typed: a column of typed cells (DATETIME, FLOAT, INTEGER, STRING, BOOLEAN) written earlier in the session by UPDATE-with-cast / INSERT / REPLACE / ALTER ADD DEFAULT x "+
		"{file table, file table after COMMIT, temporary table, STDIN} x "+fmt.Sprint(len(c05TypedReaders))+" data-changing statements that compare, sort, aggregate, key on or compute from that column x "+
		"{read at once, read after further values of every type were created} (thorough: also 6 sequences of two writers); oracle: reference table (typed cells, rv.Op predicates), affected count, log line, table re-read after unrelated evaluation, values in the committed file",
		c05TypedRun)
}

type c05TypedKind struct {
	Name  string
	Texts [4]string // the cells as the file holds them, ascending
	Cast  string    // cast function: text -> typed
	New   [3]string // further values (texts), above the others
	Mid   string    // a value between Texts[1] and Texts[2]
	Lo    string    // between Texts[0] and Texts[1]
}

var c05TypedKinds = []c05TypedKind{
	{"datetime", [4]string{"2021-01-01 00:00:00", "2021-03-01 00:00:00", "2021-05-01 00:00:00", "2021-07-01 00:00:00"}, "DATETIME",
		[3]string{"2021-09-01 00:00:00", "2021-11-01 00:00:00", "2022-02-01 00:00:00"}, "2021-04-01 00:00:00", "2021-02-01 00:00:00"},
	{"float", [4]string{"1.5", "2.5", "3.5", "4.5"}, "FLOAT", [3]string{"5.5", "6.5", "7.5"}, "3.25", "2.25"},
	{"integer", [4]string{"10", "20", "30", "40"}, "INTEGER", [3]string{"50", "60", "70"}, "25", "15"},
	{"string", [4]string{"apple", "berry", "cherry", "damson"}, "STRING", [3]string{"elder", "fig", "grape"}, "cat", "avocado"},
	{"boolean", [4]string{"true", "false", "true", "false"}, "BOOLEAN", [3]string{"true", "false", "true"}, "true", "false"},
}

func c05TypedKindOf(name string) *c05TypedKind {
	for i := range c05TypedKinds {
		if c05TypedKinds[i].Name == name {
			return &c05TypedKinds[i]
		}
	}
	return nil
}

// typed value of a text of this kind
func (k *c05TypedKind) val(text string) rv.V {
	switch k.Name {
	case "datetime":
		t, err := time.ParseInLocation("2006-01-02 15:04:05", text, time.UTC)
		if err != nil {
			panic(err)
		}
		return rv.D(t)
	case "float":
		var f float64
		fmt.Sscan(text, &f)
		return rv.Fl(f)
	case "integer":
		var i int64
		fmt.Sscan(text, &i)
		return rv.I(i)
	case "boolean":
		return rv.B(text == "true")
	}
	return rv.S(text)
}

// SQL expression that evaluates to the typed value
func (k *c05TypedKind) expr(text string) string {
	switch k.Name {
	case "datetime":
		return "DATETIME('" + text + "')"
	case "float", "integer":
		return text
	case "boolean":
		return "BOOLEAN('" + text + "')"
	}
	return "'" + text + "'"
}

type c05TypedTab struct {
	Cols []string
	Rows [][]rv.V
}

func (t *c05TypedTab) col(name string) int {
	for i, c := range t.Cols {
		if c == name {
			return i
		}
	}
	panic("no column " + name)
}

func (t *c05TypedTab) clone() *c05TypedTab {
	n := &c05TypedTab{Cols: append([]string{}, t.Cols...)}
	for _, r := range t.Rows {
		n.Rows = append(n.Rows, append([]rv.V{}, r...))
	}
	return n
}

func (t *c05TypedTab) key() string {
	return "(" + strings.Join(t.Cols, ",") + ")" + drv.RowsKey(t.Rows)
}

var c05TypedTables = []string{"file", "file-committed", "temporary", "stdin"}
var c05TypedWriters = []string{"update-cast", "insert", "replace", "add-default"}

// c05TypedReader: a data-changing statement on table %[1]s whose typed column is %[2]s; apply gives the reference result.
type c05TypedReader struct {
	Name string
	SQL  func(k *c05TypedKind, tab, col string) string
	// Apply changes t in place and returns the number of affected rows and the verb of the log line; ok=false: this
	// reader is not defined for the kind (skipped)
	Apply func(k *c05TypedKind, t *c05TypedTab, col string) (n int, verb string, ok bool)
}

func c05TypedMatch(t *c05TypedTab, col string, pred func(v rv.V) int) []bool {
	ci := t.col(col)
	m := make([]bool, len(t.Rows))
	for i, r := range t.Rows {
		m[i] = pred(r[ci]) == rv.T
	}
	return m
}

func c05TypedUpdate(t *c05TypedTab, m []bool, target string, f func(row []rv.V) rv.V) int {
	ti, n := t.col(target), 0
	for i, r := range t.Rows {
		if m[i] {
			r[ti] = f(r)
			n++
		}
	}
	return n
}

func c05TypedDelete(t *c05TypedTab, m []bool) int {
	var keep [][]rv.V
	n := 0
	for i, r := range t.Rows {
		if m[i] {
			n++
		} else {
			keep = append(keep, r)
		}
	}
	t.Rows = keep
	return n
}

func c05TypedIntOf(v rv.V) int64 {
	if i, ok := v.StrictInt(); ok {
		return i
	}
	panic("id is not an integer: " + v.Key())
}

var c05TypedReaders = c05TypedBuildReaders()

func c05TypedBuildReaders() []c05TypedReader {
	var out []c05TypedReader
	for _, op := range []string{"<", "<=", ">", ">=", "=", "<>"} {
		op := op
		pred := func(k *c05TypedKind) func(v rv.V) int {
			return func(v rv.V) int { return rv.Op(v, k.val(k.Mid), op) }
		}
		out = append(out, c05TypedReader{"update-where" + op,
			func(k *c05TypedKind, tab, col string) string {
				return fmt.Sprintf("UPDATE %s SET v = 'U' WHERE %s %s %s", tab, col, op, k.expr(k.Mid))
			},
			func(k *c05TypedKind, t *c05TypedTab, col string) (int, string, bool) {
				return c05TypedUpdate(t, c05TypedMatch(t, col, pred(k)), "v", func([]rv.V) rv.V { return rv.S("U") }), "updated", true
			}})
		out = append(out, c05TypedReader{"delete-where" + op,
			func(k *c05TypedKind, tab, col string) string {
				return fmt.Sprintf("DELETE FROM %s WHERE %s %s %s", tab, col, op, k.expr(k.Mid))
			},
			func(k *c05TypedKind, t *c05TypedTab, col string) (int, string, bool) {
				return c05TypedDelete(t, c05TypedMatch(t, col, pred(k))), "deleted", true
			}})
	}
	// the comparand is a text that the comparison converts
	out = append(out, c05TypedReader{"update-where-text-comparand",
		func(k *c05TypedKind, tab, col string) string {
			return fmt.Sprintf("UPDATE %s SET v = 'U' WHERE %s < '%s'", tab, col, k.Mid)
		},
		func(k *c05TypedKind, t *c05TypedTab, col string) (int, string, bool) {
			m := c05TypedMatch(t, col, func(v rv.V) int { return rv.Op(v, rv.S(k.Mid), "<") })
			return c05TypedUpdate(t, m, "v", func([]rv.V) rv.V { return rv.S("U") }), "updated", true
		}})
	out = append(out, c05TypedReader{"update-between",
		func(k *c05TypedKind, tab, col string) string {
			return fmt.Sprintf("UPDATE %s SET v = 'U' WHERE %s BETWEEN %s AND %s", tab, col, k.expr(k.Lo), k.expr(k.Mid))
		},
		func(k *c05TypedKind, t *c05TypedTab, col string) (int, string, bool) {
			m := c05TypedMatch(t, col, func(v rv.V) int { return rv.And(rv.Op(v, k.val(k.Lo), ">="), rv.Op(v, k.val(k.Mid), "<=")) })
			return c05TypedUpdate(t, m, "v", func([]rv.V) rv.V { return rv.S("U") }), "updated", true
		}})
	out = append(out, c05TypedReader{"delete-in-list",
		func(k *c05TypedKind, tab, col string) string {
			return fmt.Sprintf("DELETE FROM %s WHERE %s IN (%s, %s)", tab, col, k.expr(k.Texts[0]), k.expr(k.Texts[2]))
		},
		func(k *c05TypedKind, t *c05TypedTab, col string) (int, string, bool) {
			m := c05TypedMatch(t, col, func(v rv.V) int { return rv.Or(rv.Op(v, k.val(k.Texts[0]), "="), rv.Op(v, k.val(k.Texts[2]), "=")) })
			return c05TypedDelete(t, m), "deleted", true
		}})
	// another column is computed, the typed column only read (the demonstration of C05-r8m1)
	out = append(out, c05TypedReader{"update-other-column-computed",
		func(k *c05TypedKind, tab, col string) string {
			return fmt.Sprintf("UPDATE %s SET id = id * 10 WHERE %s < %s", tab, col, k.expr(k.Mid))
		},
		func(k *c05TypedKind, t *c05TypedTab, col string) (int, string, bool) {
			m := c05TypedMatch(t, col, func(v rv.V) int { return rv.Op(v, k.val(k.Mid), "<") })
			ii := t.col("id")
			return c05TypedUpdate(t, m, "id", func(r []rv.V) rv.V { return rv.I(c05TypedIntOf(r[ii]) * 10) }), "updated", true
		}})
	// the typed column itself is rewritten where it compares
	out = append(out, c05TypedReader{"update-typed-column-itself",
		func(k *c05TypedKind, tab, col string) string {
			return fmt.Sprintf("UPDATE %s SET %s = %s WHERE %s > %s", tab, col, k.expr(k.New[2]), col, k.expr(k.Mid))
		},
		func(k *c05TypedKind, t *c05TypedTab, col string) (int, string, bool) {
			m := c05TypedMatch(t, col, func(v rv.V) int { return rv.Op(v, k.val(k.Mid), ">") })
			return c05TypedUpdate(t, m, col, func([]rv.V) rv.V { return k.val(k.New[2]) }), "updated", true
		}})
	// the typed column copied into another column (the same object then sits in two cells)
	out = append(out, c05TypedReader{"update-copy-typed-cell",
		func(k *c05TypedKind, tab, col string) string {
			return fmt.Sprintf("UPDATE %s SET v = %s WHERE %s >= %s", tab, col, col, k.expr(k.Mid))
		},
		func(k *c05TypedKind, t *c05TypedTab, col string) (int, string, bool) {
			m := c05TypedMatch(t, col, func(v rv.V) int { return rv.Op(v, k.val(k.Mid), ">=") })
			ci := t.col(col)
			return c05TypedUpdate(t, m, "v", func(r []rv.V) rv.V { return r[ci] }), "updated", true
		}})
	// REPLACE keyed on the typed column: one row carries an existing key, one a new key
	out = append(out, c05TypedReader{"replace-keyed-on-typed-column",
		func(k *c05TypedKind, tab, col string) string {
			return fmt.Sprintf("REPLACE INTO %s (id, %s, v) USING (%s) VALUES (90, %s, 'R'), (91, %s, 'S')", tab, col, col, k.expr(k.Texts[1]), k.expr(k.New[2]))
		},
		func(k *c05TypedKind, t *c05TypedTab, col string) (int, string, bool) {
			if k.Name == "boolean" {
				return 0, "", false // several rows carry one key
			}
			ci, ii, vi := t.col(col), t.col("id"), t.col("v")
			hit := 0
			for _, r := range t.Rows {
				if rv.Equivalent(r[ci], k.val(k.Texts[1])) {
					r[ii], r[vi] = rv.I(90), rv.S("R")
					hit++
				}
				if rv.Equivalent(r[ci], k.val(k.New[2])) {
					return 0, "", false
				}
			}
			if hit != 1 {
				return 0, "", false
			}
			row := make([]rv.V, len(t.Cols))
			row[ii], row[ci], row[vi] = rv.I(91), k.val(k.New[2]), rv.S("S")
			t.Rows = append(t.Rows, row)
			return 2, "replaced", true
		}})
	// INSERT ... SELECT from the table itself, filtered and sorted on the typed column
	out = append(out, c05TypedReader{"insert-select-sorted-on-typed-column",
		func(k *c05TypedKind, tab, col string) string {
			return fmt.Sprintf("INSERT INTO %s (id, %s, v) SELECT id + 100, %s, v FROM %s WHERE %s >= %s ORDER BY %s DESC", tab, col, col, tab, col, k.expr(k.Mid), col)
		},
		func(k *c05TypedKind, t *c05TypedTab, col string) (int, string, bool) {
			if k.Name == "boolean" {
				return 0, "", false // ties, and no order among booleans
			}
			ci, ii, vi := t.col(col), t.col("id"), t.col("v")
			var sel [][]rv.V
			for _, r := range t.Rows {
				if rv.Op(r[ci], k.val(k.Mid), ">=") == rv.T {
					sel = append(sel, r)
				}
			}
			for i := range sel {
				for j := i + 1; j < len(sel); j++ {
					if c := rv.Compare(sel[i][ci], sel[j][ci]); c != rv.LT && c != rv.GT {
						return 0, "", false // a tie: the order is free
					}
				}
			}
			sort.SliceStable(sel, func(a, b int) bool { return rv.Compare(sel[a][ci], sel[b][ci]) == rv.GT })
			for _, r := range sel {
				row := make([]rv.V, len(t.Cols))
				row[ii], row[ci], row[vi] = rv.I(c05TypedIntOf(r[ii])+100), r[ci], r[vi]
				t.Rows = append(t.Rows, row)
			}
			return len(sel), "inserted", true
		}})
	// aggregate over the typed column in a subquery of the condition
	out = append(out, c05TypedReader{"delete-where-in-max",
		func(k *c05TypedKind, tab, col string) string {
			return fmt.Sprintf("DELETE FROM %s WHERE %s IN (SELECT MAX(%s) FROM %s)", tab, col, col, tab)
		},
		func(k *c05TypedKind, t *c05TypedTab, col string) (int, string, bool) {
			if k.Name == "boolean" || k.Name == "string" {
				return 0, "", false // MAX is documented for numbers and datetimes
			}
			ci := t.col(col)
			max := t.Rows[0][ci]
			for _, r := range t.Rows {
				if rv.Compare(r[ci], max) == rv.GT {
					max = r[ci]
				}
			}
			return c05TypedDelete(t, c05TypedMatch(t, col, func(v rv.V) int { return rv.Op(v, max, "=") })), "deleted", true
		}})
	// DISTINCT over the typed column in a subquery (bucket keys are built from the cells)
	out = append(out, c05TypedReader{"update-where-in-distinct",
		func(k *c05TypedKind, tab, col string) string {
			return fmt.Sprintf("UPDATE %s SET v = 'U' WHERE %s IN (SELECT DISTINCT %s FROM %s WHERE id + 0 <= 2)", tab, col, col, tab)
		},
		func(k *c05TypedKind, t *c05TypedTab, col string) (int, string, bool) {
			ci, ii := t.col(col), t.col("id")
			var set []rv.V
			for _, r := range t.Rows {
				if c05TypedIntOf(r[ii]) <= 2 {
					set = append(set, r[ci])
				}
			}
			m := c05TypedMatch(t, col, func(v rv.V) int {
				res := rv.F
				for _, s := range set {
					res = rv.Or(res, rv.Op(v, s, "="))
				}
				return res
			})
			return c05TypedUpdate(t, m, "v", func([]rv.V) rv.V { return rv.S("U") }), "updated", true
		}})
	// functions of the type applied to the cells inside the condition
	out = append(out, c05TypedReader{"update-where-function-of-typed-column",
		func(k *c05TypedKind, tab, col string) string {
			var cond string
			switch k.Name {
			case "datetime":
				cond = fmt.Sprintf("MONTH(%[1]s) < 4 OR DATE_DIFF(%[1]s, DATETIME('2021-06-30 00:00:00')) > 0 OR DATETIME_FORMAT(%[1]s, '%%m') = '05' AND UNIX_TIME(%[1]s) > 0", col)
			case "float":
				cond = fmt.Sprintf("FLOOR(%[1]s) = 2 OR %[1]s + 0.5 = 5", col)
			case "integer":
				cond = fmt.Sprintf("%[1]s %% 20 = 0 OR %[1]s + 1 = 11", col)
			case "string":
				cond = fmt.Sprintf("UPPER(%[1]s) = 'BERRY' OR %[1]s || 'x' = 'damsonx'", col)
			default:
				cond = fmt.Sprintf("%[1]s IS TRUE", col)
			}
			return fmt.Sprintf("UPDATE %s SET v = 'U' WHERE %s", tab, cond)
		},
		func(k *c05TypedKind, t *c05TypedTab, col string) (int, string, bool) {
			m := c05TypedMatch(t, col, func(v rv.V) int {
				hit := false
				switch k.Name {
				case "datetime":
					d, ok := v.Datetime()
					if !ok {
						panic("not a datetime: " + v.Key())
					}
					hit = d.Month() < 4 || d.After(time.Date(2021, 6, 30, 0, 0, 0, 0, time.UTC).Add(24*time.Hour-1)) || d.Month() == 5
				case "float":
					f, _ := v.Float()
					hit = f == 2.5 || f == 4.5
				case "integer":
					i, _ := v.StrictInt()
					hit = i%20 == 0 || i == 10
				case "string":
					hit = strings.EqualFold(v.S, "berry") || v.S == "damson"
				default:
					b, ok := v.Boolean()
					hit = ok && b
				}
				if hit {
					return rv.T
				}
				return rv.F
			})
			return c05TypedUpdate(t, m, "v", func([]rv.V) rv.V { return rv.S("U") }), "updated", true
		}})
	return out
}

type c05TypedCase struct {
	Family string `json:"family"`
	Kind   string `json:"kind"`
	Table  string `json:"table"`
	Writer string `json:"writer"`
	Reader string `json:"reader"`
	Churn  bool   `json:"churn"`
}

const c05TypedChurn = "SELECT DATETIME('1999-09-09 09:09:09'), DATETIME('1998-08-08 08:08:08'), ADD_DAY(DATETIME('1997-07-07 07:07:07'), 1), 0.25 + 0.5, FLOAT('0.125'), 7 * 11, INTEGER('77'), 'zz' || 'yy', STRING(5), BOOLEAN('false'), BOOLEAN('true'), '1996-06-06 06:06:06' < DATETIME('1995-05-05 05:05:05'), '8.5' < 9.5, '6' < 7;"

// c05TypedInitial: the table as it is before the writer; file and stdin cells are texts, the temporary table's id is an integer.
func c05TypedInitial(k *c05TypedKind, table string) *c05TypedTab {
	t := &c05TypedTab{Cols: []string{"id", "k", "v"}}
	for i := 0; i < 4; i++ {
		id := rv.S(fmt.Sprint(i + 1))
		if table == "temporary" {
			id = rv.I(int64(i + 1))
		}
		t.Rows = append(t.Rows, []rv.V{id, rv.S(k.Texts[i]), rv.S(string(rune('a' + i)))})
	}
	return t
}

func c05TypedCSV(k *c05TypedKind) string {
	s := "id,k,v\n"
	for i := 0; i < 4; i++ {
		s += fmt.Sprintf("%d,%s,%c\n", i+1, k.Texts[i], 'a'+i)
	}
	return s
}

// c05TypedWrite: the writer's statement and its effect on the reference; returns the name of the typed column.
func c05TypedWrite(k *c05TypedKind, writer, tab string, t *c05TypedTab) (sql, col string) {
	ki, ii, vi := t.col("k"), t.col("id"), t.col("v")
	switch writer {
	case "update-cast":
		for _, r := range t.Rows {
			if r[ki].K == rv.Str {
				r[ki] = k.val(r[ki].S)
			}
		}
		return fmt.Sprintf("UPDATE %s SET k = %s(k)", tab, k.Cast), "k"
	case "insert":
		t.Rows = append(t.Rows, []rv.V{rv.I(5), k.val(k.New[0]), rv.S("e")}, []rv.V{rv.I(6), k.val(k.New[1]), rv.S("f")})
		return fmt.Sprintf("INSERT INTO %s VALUES (5, %s, 'e'), (6, %s, 'f')", tab, k.expr(k.New[0]), k.expr(k.New[1])), "k"
	case "replace":
		for _, r := range t.Rows {
			if c05TypedIntOf(r[ii]) == 2 {
				r[ki], r[vi] = k.val(k.Texts[1]), rv.S("B")
			}
		}
		t.Rows = append(t.Rows, []rv.V{rv.I(7), k.val(k.New[0]), rv.S("g")})
		return fmt.Sprintf("REPLACE INTO %s (id, k, v) USING (id) VALUES (2, %s, 'B'), (7, %s, 'g')", tab, k.expr(k.Texts[1]), k.expr(k.New[0])), "k"
	case "add-default":
		t.Cols = append(t.Cols, "k2")
		for i, r := range t.Rows {
			if r[ki].K == rv.Str {
				t.Rows[i] = append(r, k.val(r[ki].S))
			} else {
				t.Rows[i] = append(r, r[ki])
			}
		}
		return fmt.Sprintf("ALTER TABLE %s ADD k2 DEFAULT %s(k)", tab, k.Cast), "k2"
	}
	panic("writer " + writer)
}

func c05TypedRead(env *drv.Env, tab string) (*c05TypedTab, error) {
	r := env.Exec("SELECT * FROM " + tab + ";")
	if r.Panic != nil {
		return nil, fmt.Errorf("panic: %v", r.Panic)
	}
	if r.Err != nil {
		return nil, r.Err
	}
	if len(r.Views) == 0 {
		return nil, fmt.Errorf("no result set")
	}
	v := r.Views[len(r.Views)-1]
	return &c05TypedTab{Cols: drv.Header(v), Rows: drv.Rows(v)}, nil
}

func c05TypedSame(a, b *c05TypedTab) bool {
	if strings.Join(a.Cols, ",") != strings.Join(b.Cols, ",") || len(a.Rows) != len(b.Rows) {
		return false
	}
	for i := range a.Rows {
		if len(a.Rows[i]) != len(b.Rows[i]) {
			return false
		}
		for j := range a.Rows[i] {
			if !rv.SameValue(a.Rows[i][j], b.Rows[i][j]) {
				return false
			}
		}
	}
	return true
}

// c05TypedSameValues: the texts a fresh process reads from the committed file denote the reference values
func c05TypedSameValues(file, ref *c05TypedTab) bool {
	if strings.Join(file.Cols, ",") != strings.Join(ref.Cols, ",") || len(file.Rows) != len(ref.Rows) {
		return false
	}
	for i := range ref.Rows {
		if len(file.Rows[i]) != len(ref.Rows[i]) {
			return false
		}
		for j, want := range ref.Rows[i] {
			got := file.Rows[i][j]
			switch want.K {
			case rv.Null:
				if got.K != rv.Null && !(got.K == rv.Str && got.S == "") {
					return false
				}
			case rv.Str:
				if got.K != rv.Str || got.S != want.S {
					return false
				}
			case rv.Bool:
				if b, ok := got.Boolean(); !ok || b != want.B {
					return false
				}
			default:
				if got.K == rv.Null || rv.Op(got, want, "=") != rv.T {
					return false
				}
			}
		}
	}
	return true
}

func c05TypedOne(c *core.Ctx, dir string, k c05TypedCase) {
	kind := c05TypedKindOf(k.Kind)
	var rd *c05TypedReader
	for i := range c05TypedReaders {
		if c05TypedReaders[i].Name == k.Reader {
			rd = &c05TypedReaders[i]
		}
	}
	if kind == nil || rd == nil {
		return
	}
	tab := "d"
	switch k.Table {
	case "temporary":
		tab = "tt"
	case "stdin":
		tab = "STDIN"
	}
	ref := c05TypedInitial(kind, k.Table)
	wsql, col := "", "k"
	for i, w := range strings.Split(k.Writer, "+") {
		one, wcol := c05TypedWrite(kind, w, tab, ref)
		if i > 0 {
			wsql += "; "
		}
		wsql += one
		if wcol != "k" {
			col = wcol
		}
	}
	rsql := rd.SQL(kind, tab, col)
	sig := func(what string) string {
		return "typed:" + k.Kind + ":" + strings.Fields(rsql)[0] + ":" + what
	}
	var prog []string
	say := func(s string) { prog = append(prog, s) }
	where := func() string {
		return fmt.Sprintf("%s table of %s cells (writer %s): %s", k.Table, k.Kind, k.Writer, strings.Join(prog, " "))
	}

	drv.ClearDir(dir)
	drv.WriteFiles(dir, map[string]string{"d.csv": c05TypedCSV(kind)})
	env := drv.NewText(dir)
	defer env.Close()
	env.Tx.Flags.SetQuiet(false)
	if k.Table == "stdin" {
		if err := env.Sess.SetStdin(io.NopCloser(strings.NewReader(c05TypedCSV(kind)))); err != nil {
			c.Violate("harness:setup", err.Error(), nil)
			return
		}
	}
	if k.Table == "temporary" {
		setup := "DECLARE tt VIEW (id, k, v); INSERT INTO tt VALUES "
		for i := 0; i < 4; i++ {
			if i > 0 {
				setup += ", "
			}
			setup += fmt.Sprintf("(%d, '%s', '%c')", i+1, kind.Texts[i], 'a'+i)
		}
		say(setup + ";")
		if r := env.Exec(setup + ";"); r.Err != nil || r.Panic != nil {
			c.Violate("harness:setup", fmt.Sprintf("%s: %v %v", setup, r.Err, r.Panic), nil)
			return
		}
	}
	say(wsql + ";")
	if r := env.Exec(wsql + ";"); r.Err != nil || r.Panic != nil {
		c.Violate(sig("writer-refused"), fmt.Sprintf("%s: %v %v", where(), r.Err, r.Panic), k)
		return
	}
	if k.Table == "file-committed" {
		say("COMMIT;")
		if r := env.Exec("COMMIT;"); r.Err != nil || r.Panic != nil {
			c.Violate(sig("commit-failed"), fmt.Sprintf("%s: %v %v", where(), r.Err, r.Panic), k)
			return
		}
	}
	// the writer's own effect is the main search's subject; here it has to be in place for the case to say anything
	got, err := c05TypedRead(env, tab)
	if err == nil && k.Table == "file-committed" && c05TypedSameValues(got, ref) {
		// COMMIT releases the cached table: the cells are the texts of the file again (how a value is spelled there is
		// C02's subject); the reference goes on from the cells csvq shows
		ref = got
	}
	if err != nil || !c05TypedSame(got, ref) {
		c.Add("typed_writer_effect_differs_case_skipped", 1)
		c.Observe("typed_writer_effect_differs", k.Kind+":"+k.Table+":"+k.Writer)
		return
	}
	pre := ref.clone()
	wantN, verb, ok := rd.Apply(kind, ref, col)
	if !ok {
		c.Add("typed_reader_not_defined_for_kind", 1)
		return
	}
	say(rsql + ";")
	r := env.Exec(rsql + ";")
	c.Eval("typed|"+k.Kind+"|"+k.Table+"|"+k.Writer+"|"+k.Reader+"|"+fmt.Sprint(k.Churn), ref.key() != pre.key())
	if r.Panic != nil {
		c.Violate(sig("panic"), fmt.Sprintf("%s: panic %v", where(), r.Panic), k)
		return
	}
	if r.Err != nil {
		c.Violate(sig("unexpected-error"), fmt.Sprintf("%s: %v", where(), r.Err), k)
		return
	}
	lines, _ := dml.ParseLog(r.Out)
	if r.Affected != wantN || len(lines) != 1 || lines[0].N != wantN || lines[0].Verb != verb {
		c.Violate(sig("reported-count"), fmt.Sprintf("%s: Tx.AffectedRows = %d, log %q; the reference: %d record(s) %s\n    before: %s", where(), r.Affected, strings.TrimSpace(r.Out), wantN, verb, pre.key()), k)
		return
	}
	if k.Churn {
		say(c05TypedChurn)
		for i := 0; i < 3; i++ {
			if r := env.Exec(c05TypedChurn); r.Err != nil || r.Panic != nil {
				c.Violate("harness:setup", fmt.Sprintf("churn: %v %v", r.Err, r.Panic), nil)
				return
			}
		}
	}
	say("SELECT * FROM " + tab + ";")
	got, err = c05TypedRead(env, tab)
	if err != nil {
		c.Violate(sig("table-unreadable-afterwards"), fmt.Sprintf("%s: %v", where(), err), k)
		return
	}
	if !c05TypedSame(got, ref) {
		c.Violate(sig("table-differs"), fmt.Sprintf("%s\n    csvq:      %s\n    reference: %s\n    before:    %s", where(), got.key(), ref.key(), pre.key()), k)
		return
	}
	// nothing but SELECTs from here on: the table stays what it is
	env.Exec(c05TypedChurn)
	again, err := c05TypedRead(env, tab)
	if err != nil || !c05TypedSame(again, ref) {
		c.Violate(sig("table-changes-without-a-data-changing-statement"), fmt.Sprintf("%s %s SELECT * FROM %s;\n    csvq:      %v %v\n    reference: %s", where(), c05TypedChurn, tab, again, err, ref.key()), k)
		return
	}
	if !strings.HasPrefix(k.Table, "file") {
		return
	}
	say("COMMIT;")
	if r := env.Exec("COMMIT;"); r.Err != nil || r.Panic != nil {
		c.Violate(sig("commit-failed"), fmt.Sprintf("%s: %v %v", where(), r.Err, r.Panic), k)
		return
	}
	fresh := drv.New(dir)
	file, err := c05TypedRead(fresh, "d")
	fresh.Close()
	if err != nil || !c05TypedSameValues(file, ref) {
		c.Violate(sig("committed-file"), fmt.Sprintf("%s\n    d.csv: %q (%v)\n    reference: %s", where(), clip(drv.DirSnapshot(dir)["d.csv"]), err, ref.key()), k)
	}
}

// thorough: two writers one after the other (cells written at different times, texts and typed cells mixed)
var c05TypedWriterPairs = []string{"insert+update-cast", "insert+replace", "replace+add-default", "update-cast+insert", "insert+add-default", "update-cast+replace"}

func c05TypedCases(thorough bool) []c05TypedCase {
	var out []c05TypedCase
	writers := c05TypedWriters
	if thorough {
		writers = append(append([]string{}, writers...), c05TypedWriterPairs...)
	}
	for _, k := range c05TypedKinds {
		for _, t := range c05TypedTables {
			for _, w := range writers {
				for _, r := range c05TypedReaders {
					for _, churn := range []bool{false, true} {
						out = append(out, c05TypedCase{"typed", k.Name, t, w, r.Name, churn})
					}
				}
			}
		}
	}
	return out
}

func c05TypedRun(c *core.Ctx) {
	dir := core.Scratch("c05typed")
	for i, k := range c05TypedCases(c.Thorough()) {
		if !c.Mine(int64(i)) {
			continue
		}
		if c.Expired() {
			c.Incomplete("time budget reached in family typed")
			return
		}
		c05TypedOne(c, dir, k)
	}
}

func c05TypedReplay(c *core.Ctx, payload json.RawMessage) bool {
	var k c05TypedCase
	if json.Unmarshal(payload, &k) != nil || k.Family != "typed" {
		return false
	}
	fmt.Printf("replaying family typed: %+v\n", k)
	c05TypedOne(c, core.Scratch("c05typed-replay"), k)
	return true
}
