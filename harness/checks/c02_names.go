package checks

import (
	m "verif/harness/internal/c02m"
	"verif/harness/internal/core"
)

// Extra family for C02: column names that collide or nearly collide. In LTSV, JSON and JSON Lines a column name is
// not a text at a position of a header line but the KEY of every field (label, member name), so two columns with one
// name are two fields with one key, and what the writer does to a name (trimming, re-spelling) is done to every
// record. The main family's header pairs are pairs of different, blank-edged-free names; this family closes the class:
// every header of one or two names (and the three-name headers whose first and last name coincide) over an alphabet
// of a plain name, its other letter case, its three blank-edged spellings, a blank-only name and a second plain name.
//
// Oracle: the main family's (model c02m.Reload): the written table reads back with the same number of fields and the
// same header - LTSV labels outside [0-9A-Za-z_.-], a repeated label and a repeated JSON member name cannot be spelled
// and must be refused with nothing written; fixed-length drops the edge blanks of a name.
//
// Headers that repeat a name are run on the key-addressed formats only: in CSV, TSV and fixed-length files the two
// columns are there after the load (SHOW FIELDS lists both), but `SELECT *`, which the harness reads a file with,
// answers "field a is ambiguous" - that is csvq's rule for field references, not a matter of what was written.
func init() {
	core.Extend("C02", "family names: every header of 1 or 2 names, and every 3-name header whose first and last name coincide, over 7 names (a, A, ' a', 'a ', ' a ', ' ', b) x 0 or 1 record x "+
		"9 format variants (plain dialect, plus enclose-all / without-header / pretty-print where the format has them) x 3 write paths; headers that repeat a name on LTSV, JSON and JSON Lines only; "+
		"oracle: the main family's reference model (same fields and header read back, or refused with nothing written)", c02NamesRun)
}

var c02Names = []string{"a", "A", " a", "a ", " a ", " ", "b"}

func c02NamesHeaders(thorough bool) [][]string {
	names := c02Names
	if thorough {
		names = append(append([]string{}, names...), "\ta", "a\t", "a  b", "B")
	}
	var hs [][]string
	for _, x := range names {
		hs = append(hs, []string{x})
	}
	for _, x := range names {
		for _, y := range names {
			hs = append(hs, []string{x, y})
		}
	}
	for _, x := range names {
		for _, y := range names {
			hs = append(hs, []string{x, y, x})
		}
	}
	return hs
}

func c02Repeats(h []string) bool {
	seen := map[string]bool{}
	for _, x := range h {
		if seen[x] {
			return true
		}
		seen[x] = true
	}
	return false
}

func c02NamesRun(c *core.Ctx) {
	if !c02Only(c, "names") {
		return
	}
	r := &c02Runner{c: c, dir: core.Scratch("c02names"), mdir: core.Scratch("c02namesmin"), cache: map[string]string{}}
	grid := c02Grid{Formats: c02AllFormats, Encs: []string{"UTF8"}, LBs: []string{"LF"}, Bools: true, Strip: []bool{false}, Paths: c02AllPaths}
	if c.Thorough() {
		grid.Encs = []string{"UTF8", "UTF16LE", "SJIS"}
		grid.LBs = []string{"LF", "CRLF"}
	}
	byCols := map[int][]m.Dialect{}
	var idx, n int64
	for _, h := range c02NamesHeaders(c.Thorough()) {
		ds, ok := byCols[len(h)]
		if !ok {
			ds = grid.dialects(len(h))
			byCols[len(h)] = ds
		}
		for _, rows := range []int{1, 0} {
			t := m.Table{Header: h}
			for i := 0; i < rows; i++ {
				row := make([]m.Cell, len(h))
				for j := range row {
					row[j] = m.Str(string(rune('p' + j)))
				}
				t.Rows = append(t.Rows, row)
			}
			for _, d := range ds {
				if d.IsJSON() && d.Escape != "BACKSLASH" {
					continue // the escape style concerns characters none of these names holds
				}
				for _, p := range grid.Paths {
					idx++
					if !c.Mine(idx) {
						continue
					}
					if c.Expired() {
						c.Incomplete("time budget reached in family names")
						return
					}
					r.one(c02Case{Fam: "A", Path: p, T: t, D: d})
					n++
				}
			}
		}
	}
	c.Add("family_names_cases", n)
}
