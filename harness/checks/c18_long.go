package checks

import (
	"encoding/json"
	"fmt"
	"os"
	"path/filepath"
	"strings"
	"time"

	"verif/harness/internal/core"
	"verif/harness/internal/drv"
	"verif/harness/internal/procx"
)

// Extra family for C18: long inputs. "For every input text the parser terminates and ... never panics" includes
// texts in which one construct is repeated or nested a few million times; a scanner or parser that calls itself once
// per repetition dies with Go's unrecoverable stack overflow. Every text is given to the real CLI as a source file
// (a child process, address space limited): it must end with exit code 0 or with a syntax error.
func init() {
	core.Extend("C18", "family long: 12 constructs repeated 4,000,000 times (comments, line comments, blanks, line breaks, semicolons) or nested / chained 5,000-50,000 times (parentheses, unary operators, NOT, AND chains, concatenations, list items, CASE arms), "+
		"each run by the real CLI from a source file; oracle: the process ends normally or with a syntax error (no crash, no signal, not killed for time or memory)", c18LongRun)
}

type c18LongCase struct {
	Family string `json:"family"`
	Name   string `json:"construct"`
	N      int    `json:"repetitions"`
}

func c18LongText(name string, n int) string {
	rep := func(s string) string { return strings.Repeat(s, n) }
	switch name {
	case "block-comments":
		return rep("/**/") + "SELECT 1;"
	case "block-comments-between-tokens":
		return "SELECT " + rep("/* c */ ") + "1;"
	case "line-comments":
		return rep("-- c\n") + "SELECT 1;"
	case "blanks":
		return "SELECT" + rep(" ") + "1;"
	case "line-breaks":
		return rep("\n") + "SELECT 1;" + rep("\r\n")
	case "semicolons":
		return rep(";") + "SELECT 1;"
	case "parentheses":
		return "SELECT " + rep("(") + "1" + rep(")") + ";"
	case "unary-minus":
		return "SELECT " + rep("- ") + "1;"
	case "not-chain":
		return "SELECT " + rep("NOT ") + "TRUE;"
	case "and-chain":
		return "SELECT TRUE" + rep(" AND TRUE") + ";"
	case "concat-chain":
		return "SELECT 'a'" + rep(" || 'a'") + " IS NOT NULL;"
	case "in-list":
		return "SELECT 1 IN (0" + rep(", 0") + ");"
	case "case-arms":
		return "SELECT CASE 1" + rep(" WHEN 0 THEN 0") + " ELSE 1 END;"
	}
	return ""
}

var c18LongConstructs = []struct {
	name string
	n    int
}{
	{"block-comments", 4000000}, {"block-comments-between-tokens", 2000000}, {"line-comments", 3000000}, {"blanks", 4000000}, {"line-breaks", 4000000}, {"semicolons", 1000000},
	// the grammar's right-recursive lists are copied at every item (quadratic time and garbage): kept at a few thousand items
	{"parentheses", 20000}, {"unary-minus", 20000}, {"not-chain", 20000}, {"and-chain", 20000}, {"concat-chain", 50000}, {"in-list", 5000}, {"case-arms", 5000},
}

func c18LongOne(c *core.Ctx, dir string, k c18LongCase) {
	drv.ClearDir(dir)
	text := c18LongText(k.Name, k.N)
	if text == "" {
		return
	}
	src := filepath.Join(dir, "long.sql")
	if err := os.WriteFile(src, []byte(text), 0644); err != nil {
		c.Incomplete("family long: cannot write the source file: " + err.Error())
		return
	}
	defer os.Remove(src)
	r := procx.Exec(procx.Run{Dir: dir, Args: []string{"-q", "-f", "CSV", "-s", "long.sql"}, Timeout: 300 * time.Second, Env: []string{"GOMEMLIMIT=3GiB"}})
	c.Eval("long|"+k.Name, r.Exit == 0)
	tail := r.Stderr
	if len(tail) > 600 {
		tail = tail[:300] + " ... " + tail[len(tail)-300:]
	}
	switch {
	case r.Killed:
		c.Violate("long:does-not-end:"+k.Name, fmt.Sprintf("%s x %d (%d bytes): csvq -s long.sql did not end within 300 s", k.Name, k.N, len(text)), k)
	case r.Exit == -1 || r.Signal != 0 || strings.Contains(r.Stderr, "fatal error:") || strings.Contains(r.Stderr, "goroutine ") || strings.Contains(r.Stderr, "panic:"):
		c.Violate("long:crash:"+k.Name, fmt.Sprintf("%s x %d (%d bytes): csvq -s long.sql ends with exit %d signal %v: %s", k.Name, k.N, len(text), r.Exit, r.Signal, tail), k)
	case r.Exit != 0 && !strings.Contains(r.Stderr, "syntax error"):
		// a resource limit of csvq's own would be a documented refusal; anything else is looked at
		c.Observe("long_family_other_endings", fmt.Sprintf("%s: exit %d %s", k.Name, r.Exit, strings.Join(strings.Fields(tail), " ")))
	}
}

func c18LongRun(c *core.Ctx) {
	dir := core.Scratch("c18long")
	for i, k := range c18LongConstructs {
		if !c.Mine(int64(i)) {
			continue
		}
		c18LongOne(c, dir, c18LongCase{"long", k.name, k.n})
	}
}

func c18LongReplay(c *core.Ctx, payload json.RawMessage) bool {
	var k c18LongCase
	if json.Unmarshal(payload, &k) != nil || k.Family != "long" {
		return false
	}
	fmt.Printf("replaying family long: %s x %d\n", k.Name, k.N)
	c18LongOne(c, core.Scratch("c18long-replay"), k)
	return true
}
