package checks

import (
	"encoding/json"
	"fmt"
	"io"
	"os"
	"path/filepath"
	"sort"
	"strconv"
	"strings"
	"syscall"
	"time"

	"github.com/mithrandie/csvq/lib/option"
	"github.com/mithrandie/csvq/lib/parser"
	"github.com/mithrandie/csvq/lib/query"

	"verif/harness/internal/c01m"
	"verif/harness/internal/core"
	"verif/harness/internal/drv"
	"verif/harness/internal/procx"
	"verif/harness/internal/rv"
)

func init() {
	core.Register(&core.Check{
		ID:    "C01",
		Level: "model_checking",
		Rule: "procedures over an 18-statement alphabet (INSERT/UPDATE/DELETE/REPLACE on t1, UPDATE with and without affected records on the oddly spelled t2, CREATE TABLE plain / AS SELECT, INSERT into the new table, " +
			"ALTER TABLE ADD, DECLARE/INSERT/UPDATE of a temporary table, COMMIT, ROLLBACK, SELECT probes, an LTSV value that cannot be committed), every sequence up to length L, one of 6 endings (end, failing UPDATE, failing SELECT, EXIT, EXIT 1, " +
			"TRIGGER ERROR) at every position, optionally one IF / two-pass WHILE block around every segment, optionally a SELECT of every table just before the ending; deeper sequences by breadth-first search deduplicated on the reference state; " +
			"the same procedures on the real CLI up to a smaller length; each run whole as one procedure with automatic commit and compared with the reference model (committed/working maps, restore points of temporary tables); " +
			"one case = one (procedure, seam); non-trivial = at least one executed statement changed a table or a temporary table before the procedure ended; cases are enumerated without repetition",
		Assume: []string{
			"fixed initial directory: t1.csv (csvq's own CSV form), t2.csv (needlessly quoted fields, no final line break), l.ltsv; table values are short ASCII texts",
			"reference model written from the manual pages transaction, temporary-table, control-flow, the five data-changing queries and the return-code table (internal/c01m); file bytes from the C02 format reference (internal/c02m)",
			"a table addressed by a statement that affected no record, or changed and changed back, may keep its bytes or be rewritten in csvq's spelling (both readings accepted); a never-addressed file must keep its bytes",
			"in-process seam = Processor.Execute with AutoCommit followed by the CLI's deferred AutoRollback + ReleaseResourcesWithErrors; temporary tables after the end are read through the same Processor",
			"signals at statement points are C11's, crash points C10's; no file-system faults are injected here",
		},
		Run:            c01Run,
		Replay:         c01Replay,
		QuickBudget:    240 * time.Second,
		ThoroughBudget: 570 * time.Second,
	})
}

// c01Case is one procedure and the seam it runs on; it is also the replay payload.
type c01Case struct {
	Seam  string   `json:"seam"`           // inproc | cli
	Ops   []string `json:"ops"`            // statement sequence with the ending at its position
	Wrap  string   `json:"wrap,omitempty"` // IF | WHILE around Ops[From:To]
	From  int      `json:"from,omitempty"`
	To    int      `json:"to,omitempty"`
	Probe bool     `json:"probe,omitempty"` // SELECT every table just before the ending
	SQL   string   `json:"sql,omitempty"`   // informational (regenerated on replay)
	// map iteration order of the in-process run ("" = Go's own; "j:1" = sorted keys, the j-th map range deviating)
	MapOrder string `json:"map_order,omitempty"`
}

func (k c01Case) key() string {
	return fmt.Sprintf("%s|%s|%s%d-%d|%v", k.Seam, strings.Join(k.Ops, " "), k.Wrap, k.From, k.To, k.Probe)
}

func isTerminator(op string) bool {
	for _, t := range c01m.Terminators {
		if t == op {
			return true
		}
	}
	return false
}

func (k c01Case) build() []*c01m.Node {
	var flat []*c01m.Node
	from, to := k.From, k.To
	for i, op := range k.Ops {
		if k.Probe && isTerminator(op) {
			flat = append(flat, &c01m.Node{Op: "PA"})
			// the probe belongs to the side of the block boundary its ending is on
			if k.Wrap != "" {
				if i < k.From {
					from++
				}
				if i < k.To {
					to++
				}
			}
		}
		flat = append(flat, &c01m.Node{Op: op})
	}
	if k.Wrap == "" {
		return flat
	}
	var prog []*c01m.Node
	prog = append(prog, flat[:from]...)
	prog = append(prog, &c01m.Node{Op: k.Wrap, Body: flat[from:to]})
	prog = append(prog, flat[to:]...)
	return prog
}

type c01Limits struct {
	flatL    int // tier alphabet: all sequences up to this length, every ending at every position, probe variant for endings at the end
	flatEndL int // base alphabet: lengths flatL+1..flatEndL, endings at the end only
	wrapL    int // tier alphabet: a block around every segment of every sequence up to this length
	wrapAllP int // ... up to this length the ending of a wrapped procedure is put at every position, above only at the end
	wrapEndL int // base alphabet: lengths wrapL+1..wrapEndL, ending at the end, no probe variant
	bfsDepth int // breadth-first search (deduplicated on the reference state) up to this depth
	cliL     int // real CLI, base alphabet: all sequences up to this length, endings at the end
	cliBfs   int // real CLI: the search's transitions at depths cliL+1..cliBfs
	cliWrapL int // real CLI, base alphabet: blocks
}

func c01LimitsOf(thorough bool) c01Limits {
	if thorough {
		return c01Limits{flatL: 3, flatEndL: 4, wrapL: 2, wrapAllP: 2, wrapEndL: 3, bfsDepth: 5, cliL: 2, cliBfs: 3, cliWrapL: 2}
	}
	return c01Limits{flatL: 2, flatEndL: 3, wrapL: 2, wrapAllP: 1, wrapEndL: 2, bfsDepth: 4, cliL: 2, cliBfs: 2, cliWrapL: 1}
}

// the thorough tier adds: a locking read of the oddly spelled table, a DELETE that affects nothing, ALTER of the temporary table,
// a created LTSV table that no commit can write
func c01Alphabet(thorough bool) []string {
	if thorough {
		return append(append([]string(nil), c01m.Alphabet...), "S2F", "D2z", "AV", "RV", "IS", "US", "DJ", "CLX")
	}
	// a column rename of the temporary table (same width, other header) and a DELETE that affects nothing belong to the quick tier too: a statement that changes no record must leave
	// an oddly spelled file byte-identical
	return append(append([]string(nil), c01m.Alphabet...), "D2z", "RV", "IS", "DJ")
}

func inBase(ops []string) bool {
	for _, o := range ops {
		if o == "S2F" || o == "D2z" || o == "AV" || o == "RV" || o == "IS" || o == "US" || o == "DJ" || o == "CLX" {
			return false
		}
	}
	return true
}

type c01Runner struct {
	c      *core.Ctx
	dir    string
	cliDir string
	idx    int64
	cut    bool
	states map[string]struct{}
}

func c01Run(c *core.Ctx) {
	// the cheap families multi-table and commit-swap-failure go first: a budget that runs out cuts the deep enumerations below, and says so
	c01MultiTableRun(c)
	c01SwapFailRun(c)
	if c01FamilyOff("base") {
		return
	}
	lim := c01LimitsOf(c.Thorough())
	al := c01Alphabet(c.Thorough())
	r := &c01Runner{c: c, dir: core.Scratch("c01"), cliDir: core.Scratch("c01cli"), states: map[string]struct{}{}}
	c.Info("alphabet", al)
	c.Info("terminators", c01m.Terminators)
	c.Info("bounds", fmt.Sprintf("%+v", lim))

	// the CLI runs go first, the deduplicated search last: a budget that runs out cuts the deepest level, and says so
	base := c01m.Alphabet
	r.flat(base, 0, lim.cliL, "cli", false)
	r.wrapped(base, 1, lim.cliWrapL, 1, "cli", false)
	r.flat(al, 0, lim.flatL, "inproc", true)
	r.wrapped(al, 1, lim.wrapL, lim.wrapAllP, "inproc", true)
	r.flat(base, lim.flatL+1, lim.flatEndL, "inproc", false)
	r.wrapped(base, lim.wrapL+1, lim.wrapEndL, 0, "inproc", false)
	r.bfs(al, lim)
}

// every sequence of length <= L, every ending at every position (deadTails) or at the end only
func (r *c01Runner) flat(al []string, L0, L int, seam string, deadTails bool) {
	for k := L0; k <= L; k++ {
		seq := make([]int, k)
		for {
			ops := make([]string, k)
			for i, x := range seq {
				ops[i] = al[x]
			}
			r.endings(ops, seam, deadTails, "", 0, 0)
			if r.cut {
				return
			}
			if !next(seq, len(al)) {
				break
			}
		}
	}
}

func next(seq []int, n int) bool {
	for i := len(seq) - 1; i >= 0; i-- {
		seq[i]++
		if seq[i] < n {
			return true
		}
		seq[i] = 0
	}
	return false
}

func insertAt(ops []string, p int, t string) []string {
	out := make([]string, 0, len(ops)+1)
	out = append(out, ops[:p]...)
	out = append(out, t)
	out = append(out, ops[p:]...)
	return out
}

func (r *c01Runner) endings(ops []string, seam string, deadTails bool, wrap string, from, to int) {
	k := len(ops)
	for _, t := range c01m.Terminators {
		p0 := k
		if deadTails && t != "END" {
			p0 = 0
		}
		for p := p0; p <= k; p++ {
			full := insertAt(ops, p, t)
			r.one(c01Case{Seam: seam, Ops: full, Wrap: wrap, From: from, To: to})
			if p == k {
				r.one(c01Case{Seam: seam, Ops: full, Wrap: wrap, From: from, To: to, Probe: true})
			}
		}
	}
}

// one block (IF, WHILE) around every segment of every sequence with its ending
func (r *c01Runner) wrapped(al []string, L0, L, allP int, seam string, probes bool) {
	for k := L0; k <= L; k++ {
		seq := make([]int, k)
		for {
			ops := make([]string, k)
			for i, x := range seq {
				ops[i] = al[x]
			}
			for _, t := range c01m.Terminators {
				p0 := k
				if t != "END" && k <= allP {
					p0 = 0
				}
				for p := p0; p <= k; p++ {
					full := insertAt(ops, p, t)
					n := len(full)
					if t == "END" {
						n-- // a block around nothing but the end of the list is no block
					}
					for from := 0; from < n; from++ {
						for to := from + 1; to <= n; to++ {
							for _, w := range []string{"IF", "WHILE"} {
								r.one(c01Case{Seam: seam, Ops: full, Wrap: w, From: from, To: to})
								if p == k && probes {
									r.one(c01Case{Seam: seam, Ops: full, Wrap: w, From: from, To: to, Probe: true})
								}
							}
						}
					}
				}
			}
			if r.cut {
				return
			}
			if !next(seq, len(al)) {
				break
			}
		}
	}
}

// breadth-first search over statement sequences, deduplicated on the reference state: a sequence is extended
// only if it is the first (in enumeration order) to reach its reference state. Every transition found is run on
// csvq (replay of the path on a fresh csvq + the statement) with every ending.
func (r *c01Runner) bfs(al []string, lim c01Limits) {
	type entry struct {
		path []string
		st   *c01m.State
	}
	seen := map[string]struct{}{}
	start := c01m.NewState()
	seen[start.Key()] = struct{}{}
	frontier := []entry{{nil, start}}
	var states, transitions int64 = 1, 0
	for depth := 1; depth <= lim.bfsDepth; depth++ {
		var nextF []entry
		for _, e := range frontier {
			for _, op := range al {
				st := e.st.Clone()
				ended := c01m.Step(st, &c01m.Node{Op: op})
				transitions++
				path := append(append([]string(nil), e.path...), op)
				if depth > lim.flatL && !(depth <= lim.flatEndL && inBase(path)) {
					// the shorter ones were run exhaustively above
					r.endings(path, "inproc", false, "", 0, 0)
				}
				if depth > lim.cliL && depth <= lim.cliBfs && inBase(path) {
					r.endings(path, "cli", false, "", 0, 0)
				}
				if r.cut {
					r.c.Incomplete(fmt.Sprintf("breadth-first search cut at depth %d", depth))
					r.report(states, transitions, depth-1)
					return
				}
				if ended {
					continue
				}
				k := st.Key()
				if _, ok := seen[k]; ok {
					continue
				}
				seen[k] = struct{}{}
				states++
				nextF = append(nextF, entry{path, st})
			}
		}
		frontier = nextF
		if r.c.Shard == 0 {
			r.c.Info(fmt.Sprintf("bfs_states_new_at_depth_%d", depth), len(nextF))
		}
	}
	r.report(states, transitions, lim.bfsDepth)
}

func (r *c01Runner) report(states, transitions int64, depth int) {
	// every worker walks the same reference-state graph; it is counted once
	if r.c.Shard == 0 {
		r.c.Add("states", states)
		r.c.Add("transitions", transitions)
	}
	r.c.Max("max_depth", int64(depth))
}

func (r *c01Runner) one(k c01Case) {
	if r.cut {
		return
	}
	// the lock-wait ending costs a real wait per run: it ends flat procedures only (in the thorough tier also blocks),
	// always as the last statement, after at most 2 (3) statements, without the probe variant
	for i, o := range k.Ops {
		if o == "LK" && (i != len(k.Ops)-1 || k.Probe || (k.Wrap != "" && !r.c.Thorough()) || len(k.Ops) > map[bool]int{false: 3, true: 4}[r.c.Thorough()]) {
			return
		}
	}
	// the failing COMMIT needs the real CLI (its external command works in the process's working directory)
	for _, o := range k.Ops {
		if o == "CF" && k.Seam != "cli" {
			return
		}
	}
	// a procedure with the multi-table DELETE is run under every single-range deviation of the map order: it is
	// kept to procedures of at most 2 (3) statements before the ending, flat in the quick tier
	for _, o := range k.Ops {
		if o == "DJ" && (len(k.Ops) > map[bool]int{false: 3, true: 4}[r.c.Thorough()] || (k.Wrap != "" && !r.c.Thorough())) {
			return
		}
	}
	r.idx++
	if !r.c.Mine(r.idx) {
		return
	}
	if r.c.Expired() {
		r.cut = true
		r.c.Incomplete("time budget reached at " + k.Seam + " procedures of " + fmt.Sprint(len(k.Ops)-1) + " statements" + map[bool]string{true: " in a block", false: ""}[k.Wrap != ""])
		return
	}
	if os.Getenv("VERIF_C01_DRY") != "" {
		r.c.Add(fmt.Sprintf("dry_%s_%s_len%d", k.Seam, map[bool]string{true: "block", false: "flat"}[k.Wrap != ""], len(k.Ops)-1), 1) // development aid: count the cases only
		return
	}
	if only := os.Getenv("VERIF_C01_ONLY"); only != "" && only != k.Seam {
		return // development aid: run one seam only
	}
	if k.Seam == "cli" {
		c01Cli(r.c, r.cliDir, k)
	} else {
		c01Inproc(r.c, r.dir, k)
	}
}

// ---- judging ------------------------------------------------------------------------------------

type c01Judge struct {
	c    *core.Ctx
	k    c01Case
	out  *c01m.Outcome
	seen map[string]bool
}

func (j *c01Judge) violate(problem, msg string) {
	cause := j.out.Cause
	if j.out.Natural {
		cause = "state-dependent-error"
	}
	if cause == "" {
		cause = "-"
	}
	blk := ""
	if j.k.Wrap != "" {
		blk = ":in-" + j.k.Wrap
	}
	sig := fmt.Sprintf("%s:%s/%s%s:%s", j.k.Seam, j.out.End, cause, blk, problem)
	if j.seen[sig] {
		return
	}
	j.seen[sig] = true
	k := j.k
	j.c.Violate(sig, fmt.Sprintf("procedure %q (reference: ends %s, cause %q): %s", k.SQL, j.out.End, j.out.Cause, msg), k)
}

func fileClass(name string) string {
	switch {
	case strings.HasSuffix(name, ".lock"), strings.HasSuffix(name, ".rlock"), strings.HasSuffix(name, ".temp"):
		return "control-file"
	case name == "n.csv", name == "m.ltsv":
		return name
	}
	return "other"
}

func (j *c01Judge) directory(st *c01m.State, snap map[string]string) {
	want := st.Directory()
	names := make([]string, 0, len(snap))
	for n := range snap {
		names = append(names, n)
	}
	sort.Strings(names)
	for _, n := range names {
		if _, ok := want[n]; !ok {
			j.violate("file-must-not-exist:"+fileClass(n), fmt.Sprintf("the directory holds %s (%q) which no committed transaction created", n, snap[n]))
		}
	}
	for _, tn := range st.Order {
		f := st.Files[tn]
		if !f.DiskExists {
			continue
		}
		got, ok := snap[f.Name]
		if !ok {
			j.violate("file-missing:"+f.Name, fmt.Sprintf("%s is gone; committed state is %s", f.Name, f.Disk.Key()))
			continue
		}
		okb := false
		for _, a := range f.Accept {
			if a == got {
				okb = true
			}
		}
		if okb {
			if f.TwoReadings && len(f.Accept) > 1 {
				// addressed by a committed transaction that left the table as it was: keeping the bytes and rewriting are both accepted
				j.c.Add("cases_where_both_readings_were_accepted", 1)
				j.c.Observe("addressed_but_unchanged_table", f.Name+": "+map[bool]string{true: "bytes kept", false: "rewritten"}[got == f.Accept[0]])
			}
			if f.FinalBreakOptional && got != c01m.T2Bytes {
				j.c.Observe("rewritten_t2_ends_with_line_break", fmt.Sprint(strings.HasSuffix(got, "\n")))
			}
			continue
		}
		// diagnosis: the same table in other bytes, or another table
		same := false
		for _, fb := range []bool{true, false} {
			if s, ok := c01m.Render(f.Disk, f.Format, fb); ok && s == got {
				same = true
			}
		}
		if same {
			j.violate("file-rewritten-though-never-changed:"+f.Name, fmt.Sprintf("%s holds %q; the transaction(s) that ended in a commit never addressed it, it must still hold %q", f.Name, got, f.Accept))
		} else {
			j.violate("file-holds-wrong-state:"+f.Name, fmt.Sprintf("%s holds %q; the committed state is %s, acceptable bytes %q", f.Name, got, f.Disk.Key(), f.Accept))
		}
	}
}

func (j *c01Judge) exit(code int, errText string) {
	for _, w := range j.out.ExitCodes {
		if w == code {
			return
		}
	}
	j.violate("exit-code", fmt.Sprintf("exit code %d (%s), documented %v", code, strings.TrimSpace(errText), j.out.ExitCodes))
}

func c01Nontrivial(out *c01m.Outcome) bool { return out.Changes > 0 }

// c01HoldForeignLock takes the exclusive flock(2) on k.csv on a descriptor of its own, the way another csvq
// process updating k would hold it, when the procedure contains the terminator LK. The returned function releases it.
func c01HoldForeignLock(dir string, k c01Case) func() {
	need := false
	for _, o := range k.Ops {
		if o == "LK" {
			need = true
		}
	}
	if !need {
		return func() {}
	}
	fp, err := os.OpenFile(filepath.Join(dir, "k.csv"), os.O_RDWR, 0)
	if err != nil {
		return func() {}
	}
	syscall.Flock(int(fp.Fd()), syscall.LOCK_EX)
	return func() { syscall.Flock(int(fp.Fd()), syscall.LOCK_UN); fp.Close() }
}

// c01Reset puts the directory into the initial state; a directory the previous case left in exactly that state is kept.
var c01Clean = map[string]bool{}

func c01Reset(dir string) {
	if c01Clean[dir] {
		return
	}
	drv.ClearDir(dir)
	drv.WriteFiles(dir, c01m.InitialFiles())
}

func c01Snapshot(dir string) map[string]string {
	snap := drv.DirSnapshot(dir)
	init := c01m.InitialFiles()
	same := len(snap) == len(init)
	for n, b := range init {
		if snap[n] != b {
			same = false
		}
	}
	c01Clean[dir] = same
	return snap
}

// ---- in-process seam ----------------------------------------------------------------------------

// c01Exec is what action.Run does with the program text: parse, Execute (automatic commit at a normal end).
func c01Exec(e *drv.Env, sql string) (r drv.Result) {
	e.Out.Reset()
	defer func() {
		if p := recover(); p != nil {
			r.Panic = p
		}
		r.Out = e.Out.String()
	}()
	stmts, _, err := parser.Parse(sql, "", false, e.Tx.Flags.AnsiQuotes)
	if err != nil {
		r.Err = query.NewSyntaxError(err.(*parser.SyntaxError))
		return
	}
	r.Flow, r.Err = e.Proc.Execute(e.Ctx, stmts)
	return
}

func viewTable(v *query.View) c01m.Table {
	t := c01m.Table{Header: drv.Header(v)}
	for _, row := range drv.Rows(v) {
		cs := make([]c01m.Cell, len(row))
		for i, x := range row {
			switch x.K {
			case rv.Null:
				cs[i] = c01m.Nul()
			case rv.Str:
				cs[i] = c01m.S(x.S)
			case rv.Int:
				cs[i] = c01m.S(strconv.FormatInt(x.I, 10))
			default:
				cs[i] = c01m.S(x.Key())
			}
		}
		t.Rows = append(t.Rows, cs)
	}
	return t
}

// c01Inproc runs one procedure in process. A procedure with a statement that names several target tables is run
// once per map iteration order (c01_order.go): sorted keys at every map range, then each map range deviating.
func c01Inproc(c *core.Ctx, dir string, k c01Case) {
	for _, o := range k.Ops {
		if o == "DJ" {
			c01WithMapOrders(c, dir, k)
			return
		}
	}
	c01InprocOrder(c, dir, k)
}

func c01InprocOrder(c *core.Ctx, dir string, k c01Case) {
	prog := k.build()
	st := c01m.NewState()
	out := c01m.Run(st, prog)
	k.SQL = c01m.SQL(prog)
	j := &c01Judge{c: c, k: k, out: out, seen: map[string]bool{}}

	c01Reset(dir)
	c01Clean[dir] = false
	env := drv.NewText(dir)
	env.Tx.AutoCommit = true
	env.Tx.Flags.SetQuiet(true)
	// csvq's lock waits are wall-clock; on a loaded machine drv's 2 s can expire although nothing holds a lock.
	// 40 s cannot: a wait that long is a lock this very process leaked, and the run is then reported.
	env.Tx.UpdateWaitTimeout(40, 5*time.Millisecond)
	env.Tx.Flags.ExportOptions.Format = option.CSV
	env.Sess.SetStdin(io.NopCloser(strings.NewReader(c01m.StdinCSV)))
	release := c01HoldForeignLock(dir, k)
	defer release()
	r := c01Exec(env, k.SQL)

	nt := c01Nontrivial(out)
	c.EvalN(1, b2i(nt))
	c.Add("traces_validated_against_impl", 1)
	c.Add("statements_executed", int64(out.Executed))
	c.Observe("endings", out.End+"/"+map[bool]string{true: "state-dependent-error", false: out.Cause}[out.Natural])

	if r.Panic != nil {
		j.violate("panic", fmt.Sprint("csvq panicked: ", r.Panic))
		env.Close()
		return
	}
	// how it ended
	got, code := "normal", 0
	if r.Err == nil && r.Flow == query.Exit {
		got = "exit"
	}
	if r.Err != nil {
		code = drv.ErrCode(r.Err)
		switch r.Err.(type) {
		case *query.ForcedExit:
			got = "exit"
		case *query.CommitError:
			got = "commit-error"
		default:
			got = "error"
		}
		if drv.IsFatal(r.Err) {
			j.violate("internal-error", "csvq ended with its internal error: "+r.Err.Error())
		}
	}
	if got != out.End {
		j.violate("ending", fmt.Sprintf("csvq ended %s (%v), the reference %s", got, r.Err, out.End))
	} else {
		j.exit(code, fmt.Sprint(r.Err))
	}
	// probes: SELECT results are written to the standard output in CSV (statements in blocks run in child processors)
	var want strings.Builder
	for _, p := range out.Probes {
		s, _ := c01m.Render(p.T, "CSV", true)
		want.WriteString(s)
	}
	if r.Out != want.String() {
		j.violate("probe", fmt.Sprintf("SELECT results %q, the reference's %q", r.Out, want.String()))
	}
	// the CLI's deferred handler, first half; then the temporary tables of the outermost block
	func() {
		defer func() {
			if p := recover(); p != nil {
				j.violate("panic", fmt.Sprint("csvq panicked in AutoRollback: ", p))
			}
		}()
		if err := env.Proc.AutoRollback(); err != nil {
			j.violate("rollback-error", "AutoRollback: "+err.Error())
		}
	}()
	env.Tx.AutoCommit = false
	names := make([]string, 0, len(out.TopTemps))
	for n := range out.TopTemps {
		names = append(names, n)
	}
	sort.Strings(names)
	for _, n := range names {
		r2 := env.Exec("SELECT * FROM " + n)
		if r2.Err != nil || r2.Panic != nil || len(r2.Views) != 1 {
			j.violate("temporary-table-after-end:unreadable", fmt.Sprintf("temporary table %s after the end: %v %v", n, r2.Err, r2.Panic))
			continue
		}
		if g := viewTable(r2.Views[0]); !g.Equal(out.TopTemps[n]) {
			j.violate("temporary-table-after-end", fmt.Sprintf("temporary table %s after the end holds %s, the reference %s", n, g.Key(), out.TopTemps[n].Key()))
		}
	}
	env.Close()
	snap := c01Snapshot(dir)
	j.directory(st, snap)

	if c.WantSample() && nt && len(k.Ops) >= 3 && out.End != "normal" {
		c.Sample(map[string]any{"seam": k.Seam, "procedure": k.SQL, "ends": out.End, "exit": code, "directory": snap})
	}
}

// ---- real CLI -----------------------------------------------------------------------------------

func c01Cli(c *core.Ctx, dir string, k c01Case) {
	prog := k.build()
	st := c01m.NewState()
	out := c01m.Run(st, prog)
	if out.Unjudged {
		c.Add("cases_the_reference_does_not_define", 1)
		return
	}
	k.SQL = c01m.SQL(prog)
	j := &c01Judge{c: c, k: k, out: out, seen: map[string]bool{}}

	args := []string{k.SQL}
	if len(out.Probes) > 0 || k.Probe {
		args = []string{"-q", "-f", "CSV", k.SQL}
	}
	if k.SQL == "" {
		// an empty argument starts the interactive shell; the empty procedure is the in-process seam's
		return
	}
	c01Reset(dir)
	c01Clean[dir] = false
	release := c01HoldForeignLock(dir, k)
	o := procx.Exec(procx.Run{Dir: dir, Args: args, Timeout: 40 * time.Second})
	release()
	nt := c01Nontrivial(out)
	c.EvalN(1, b2i(nt))
	c.Add("traces_validated_against_impl", 1)
	c.Add("cli_processes", 1)
	c.Add("statements_executed", int64(out.Executed))
	if o.Killed {
		j.violate("hang", "no exit within 40 s")
		return
	}
	if o.Exit < 0 {
		j.violate("killed-or-not-started", fmt.Sprintf("exit %d signal %v: %s", o.Exit, o.Signal, o.Stderr))
		return
	}
	if strings.Contains(o.Stderr, "Fatal Error") || strings.Contains(o.Stderr, "goroutine ") {
		j.violate("internal-error", "stderr: "+o.Stderr)
	}
	j.exit(o.Exit, o.Stderr)
	if len(args) > 1 {
		var want strings.Builder
		for _, p := range out.Probes {
			s, _ := c01m.Render(p.T, "CSV", true)
			want.WriteString(s)
		}
		if o.Stdout != want.String() {
			j.violate("probe", fmt.Sprintf("standard output %q, the reference's SELECT results %q", o.Stdout, want.String()))
		}
	}
	snap := c01Snapshot(dir)
	j.directory(st, snap)
	if c.WantSample() && nt && len(k.Ops) >= 3 && out.End != "normal" {
		c.Sample(map[string]any{"seam": k.Seam, "args": args, "ends": out.End, "exit": o.Exit, "directory": snap})
	}
}

func c01Replay(c *core.Ctx, payload json.RawMessage) {
	if c01AttrReplay(c, payload) || c01NestedReplay(c, payload) || c01InterruptReplay(c, payload) || c01CommitCancelReplay(c, payload) || c01MultiTableReplay(c, payload) || c01SwapFailReplay(c, payload) {
		return
	}
	var k c01Case
	if err := json.Unmarshal(payload, &k); err != nil {
		fmt.Println("bad payload:", err)
		return
	}
	prog := k.build()
	st := c01m.NewState()
	out := c01m.Run(st, prog)
	fmt.Printf("replaying on seam %s: %s\nreference: ends %s (cause %q), exit %v, directory %q\n", k.Seam, c01m.SQL(prog), out.End, out.Cause, out.ExitCodes, st.Directory())
	if k.Seam == "cli" {
		c01Cli(c, core.Scratch("c01cli"), k)
	} else {
		c01Inproc(c, core.Scratch("c01"), k)
	}
}
