//go:build verifx

package checks

import (
	"fmt"
	"strings"

	"verif/harness/internal/core"
)

// Family ragged (C12): tables whose records do not all have the same keys - a JSON array of objects, JSON Lines,
// LTSV. csvq derives the columns of such a table from all records (lib/json ConvertToTableValue, the LTSV and JSONL
// readers of lib/query), so the header is computed by code that collects keys; the property demands that it - and with
// it SELECT *, column numbers and every file written from the table - is the same on every run and for every --cpu.
// ALL shapes within the bound are run: sequences of records, each a non-empty ordered list of distinct keys, keys named in
// the order of their first appearance (a, b, ...: shapes that differ only in the names of the keys are one shape) -
// 2 records of at most 4 out of at most 5 keys (372 shapes) and 3 records of at most 2 out of at most 4 keys (187);
// thorough: 3 records of at most 3 out of 4 keys (2683) and 4 records of at most 2 out of 4 keys (2795) as well. Per shape and format: two single-worker runs and 6
// (thorough 24) more free runs with 1..3 workers under Go's own map order - the map ranges of lib/json are not
// instrumented, so their order is whatever the runtime picks -, then all executions with at most one non-default
// scheduling decision and one deviating instrumented map site. Oracle: every outcome equals the first run. No claim
// is made about WHICH column order is right: the manual does not say.
func init() {
	core.Extend("C12", "family ragged: JSON / JSONL / LTSV tables whose records have different key lists, all shapes up to renaming of 2 records x ordered lists of <= 4 of <= 5 keys and 3 records x <= 2 of <= 4 keys (thorough: 3 records x <= 3 of 4, 4 records x <= 2 of 4), "+
		"SELECT * and CREATE TABLE AS SELECT * + COMMIT; 2 + 6 (thorough 24) free runs with 1..3 workers under Go's map order and all executions with at most 1 scheduling decision / 1 deviating map site; oracle: header, rows and file bytes equal in all runs", c12RaggedRun)
}

// c12RaggedShapes: all sequences of nrec records in canonical naming. A record is a list of key indices.
func c12RaggedShapes(nrec, maxKeys, maxLen int) [][][]int {
	var out [][][]int
	var cur [][]int
	var rec func(seen int)
	var fill func(list []int, seen int, done func(list []int, seen int))
	fill = func(list []int, seen int, done func([]int, int)) {
		if len(list) > 0 {
			done(list, seen)
		}
		if len(list) == maxLen {
			return
		}
		for key := 0; key <= seen && key < maxKeys; key++ {
			dup := false
			for _, x := range list {
				if x == key {
					dup = true
				}
			}
			if dup {
				continue
			}
			ns := seen
			if key == seen {
				ns++
			}
			fill(append(append([]int(nil), list...), key), ns, done)
		}
	}
	rec = func(seen int) {
		if len(cur) == nrec {
			cp := make([][]int, len(cur))
			copy(cp, cur)
			out = append(out, cp)
			return
		}
		fill(nil, seen, func(list []int, ns int) {
			cur = append(cur, list)
			rec(ns)
			cur = cur[:len(cur)-1]
		})
	}
	rec(0)
	return out
}

func c12RaggedName(shape [][]int) string {
	parts := make([]string, len(shape))
	for i, r := range shape {
		var sb strings.Builder
		for _, k := range r {
			sb.WriteByte(byte('a' + k))
		}
		parts[i] = sb.String()
	}
	return strings.Join(parts, "|")
}

func c12RaggedFile(format string, shape [][]int) (string, string) {
	var sb strings.Builder
	switch format {
	case "json":
		sb.WriteString("[")
		for i, r := range shape {
			if i > 0 {
				sb.WriteString(",\n")
			}
			sb.WriteString("{")
			for j, k := range r {
				if j > 0 {
					sb.WriteString(",")
				}
				fmt.Fprintf(&sb, "\"%c\":\"%d%c\"", 'a'+k, i+1, 'a'+k)
			}
			sb.WriteString("}")
		}
		sb.WriteString("]\n")
		return "x.json", sb.String()
	case "jsonl":
		for i, r := range shape {
			sb.WriteString("{")
			for j, k := range r {
				if j > 0 {
					sb.WriteString(",")
				}
				fmt.Fprintf(&sb, "\"%c\":\"%d%c\"", 'a'+k, i+1, 'a'+k)
			}
			sb.WriteString("}\n")
		}
		return "x.jsonl", sb.String()
	}
	for i, r := range shape {
		for j, k := range r {
			if j > 0 {
				sb.WriteString("\t")
			}
			fmt.Fprintf(&sb, "%c:%d%c", 'a'+k, i+1, 'a'+k)
		}
		sb.WriteString("\n")
	}
	return "x.ltsv", sb.String()
}

// lateKeys: keys that the first record does not have (the header has to be extended for them)
func c12RaggedLate(shape [][]int) int {
	first := map[int]bool{}
	for _, k := range shape[0] {
		first[k] = true
	}
	late := map[int]bool{}
	for _, r := range shape[1:] {
		for _, k := range r {
			if !first[k] {
				late[k] = true
			}
		}
	}
	return len(late)
}

func c12RaggedRun(c *core.Ctx) {
	if !c12FamilyOnly("ragged") {
		return
	}
	// (records, keys at most, keys per record at most)
	bounds, free := [][3]int{{2, 5, 4}, {3, 4, 2}}, 6
	if c.Thorough() {
		bounds, free = [][3]int{{2, 5, 4}, {3, 4, 3}, {4, 4, 2}}, 24
	}
	var idx int64
	for _, b := range bounds {
		nrec := b[0]
		shapes := c12RaggedShapes(nrec, b[1], b[2])
		c.Max(fmt.Sprintf("max_ragged_shapes_of_%d_records", nrec), int64(len(shapes)))
		for _, shape := range shapes {
			for _, format := range []string{"json", "jsonl", "ltsv"} {
				idx++
				if !c.Mine(idx) {
					continue
				}
				if c.Expired() {
					c.Incomplete("family ragged: time budget reached")
					return
				}
				file, content := c12RaggedFile(format, shape)
				sc := goxScenario{Name: "ragged:" + format + "/" + c12RaggedName(shape), Files: map[string]string{file: content},
					SQL: "SELECT * FROM x; CREATE TABLE `o.csv` AS SELECT * FROM x; COMMIT;", CPU: 3}
				// free runs only where a header has to be extended by more than one key; the other shapes get the two single-worker runs
				fr := 0
				if c12RaggedLate(shape) >= 2 {
					fr = free
					c.Add("ragged_shapes_with_2_or_more_late_keys", 1)
				}
				c12FamilyScenario(c, "ragged", format, sc, false, 1, fr, nil)
				if c.WantSample() && c12RaggedLate(shape) >= 2 {
					c.Sample(map[string]any{"family": "ragged", "format": format, "shape": c12RaggedName(shape), "file": content, "sql": sc.SQL, "free_runs": fr + 2})
				}
			}
		}
	}
}
