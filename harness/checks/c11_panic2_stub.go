//go:build !verifx

package checks

import (
	"encoding/json"

	"verif/harness/internal/core"
)

// without the overlay (tag verifx) the goroutine-schedule explorer is not available
func c11Panic2Replay(c *core.Ctx, raw json.RawMessage) bool { return false }
