package checks

import (
	"fmt"

	"verif/harness/internal/anref"
	"verif/harness/internal/core"
	"verif/harness/internal/rv"
)

// Extra family for C17: aggregates with DISTINCT and OVER under the comparison mode @@STRICT_EQUAL ("Compare strictly
// that two values are equal for DISTINCT, GROUP BY and ORDER BY", manual pages flag and command). The values of v are
// CSV texts that are equal under the default comparison but not the same text (1 / 01, x / X); all cells of a CSV file
// are strings, so under the strict mode two cells are the same value exactly when their texts are the same. p and o
// hold only the texts 1, 2 (and NULL for o), on which the two modes agree.
//
// Oracle: the definitional model of the main family with "the distinct values of the frame" taken by identity:
// frame of the row -> values -> duplicates (same text) removed, first occurrence kept -> the aggregate's definition.
func init() {
	core.Extend("C17", "family strict-distinct: SET @@STRICT_EQUAL TO TRUE; COUNT/SUM/AVG/MEDIAN/VAR/STDEVP/user aggregate (DISTINCT v) x PARTITION BY none/p x (no order + {o, o DESC} x (no frame + 4 ROWS frames)) and "+
		"LISTAGG/JSON_AGG(DISTINCT v) x PARTITION BY none/p x none/o/o DESC, 12 calls per SELECT, on every table with v in {NULL,1,01,2,x,X} (thorough also 1.0, +1), o in {NULL,1,2}, p in {1,2}: "+
		"v alone 0..3 rows, two columns 0..2 rows and all multisets of 3, three columns 0..2 rows (thorough: and all multisets of 3); oracle: the definitional model with duplicates removed by identity of the text", c17StrictRun)
}

func c17SameText(a, b rv.V) bool {
	if a.K == rv.Null || b.K == rv.Null {
		return a.K == b.K
	}
	return a.K == rv.Str && b.K == rv.Str && a.S == b.S
}

// c17StrictEval is anref.Eval for the strict mode: a call with DISTINCT is computed here, frame by frame, with the
// duplicates removed by identity; every other call is left to anref.Eval. Order keys hold 1, 2, NULL only.
func c17StrictEval(call *anref.Call, part []anref.Row, rd anref.Reading) anref.Result {
	if !call.Distinct {
		return anref.Eval(call, part, rd)
	}
	n := len(part)
	plain := *call
	plain.Distinct = false
	dedup := func(vs []rv.V) []rv.V {
		var out []rv.V
		for _, v := range vs {
			dup := false
			for _, w := range out {
				if c17SameText(v, w) {
					dup = true
					break
				}
			}
			if !dup {
				out = append(out, v)
			}
		}
		return out
	}
	sep := "|"
	if call.HasSep {
		sep = call.Sep
	}
	out := make([]rv.V, n)
	if !call.Windowed() { // LISTAGG, JSON_AGG: the whole partition in its order
		vs := make([]rv.V, n)
		for i := range vs {
			vs[i] = part[i].C[anref.ColV]
		}
		vs = dedup(vs)
		var r rv.V
		switch call.Fn {
		case "LISTAGG":
			r = anref.Aggregate(&plain, vs, call.Sep)
		case "JSON_AGG":
			r = rv.S(anref.JSONArray(vs))
		default:
			return anref.Result{Err: true}
		}
		for i := range out {
			out[i] = r
		}
		return anref.Result{Vals: out}
	}
	peer := func(i, j int) bool {
		for _, o := range call.Order {
			if !c17SameText(part[i].C[o.Col], part[j].C[o.Col]) {
				return false
			}
		}
		return true
	}
	for i := 0; i < n; i++ {
		lo, hi := 0, n-1
		switch {
		case len(call.Order) == 0:
		case call.Frame == nil:
			switch rd.DefaultFrame {
			case 0:
				hi = i
			case 1:
				hi = i
				for hi+1 < n && peer(i, hi+1) {
					hi++
				}
			}
		default:
			pos := func(b anref.Bound) int {
				switch b.K {
				case anref.UnbPrec:
					return 0
				case anref.Prec:
					return i - b.N
				case anref.Cur:
					return i
				case anref.Foll:
					return i + b.N
				}
				return n - 1
			}
			lo, hi = pos(call.Frame.Low), i
			if call.Frame.High != nil {
				hi = pos(*call.Frame.High)
			}
			if lo < 0 {
				lo = 0
			}
			if hi > n-1 {
				hi = n - 1
			}
		}
		var vs []rv.V
		for k := lo; k <= hi; k++ {
			vs = append(vs, part[k].C[anref.ColV])
		}
		out[i] = anref.Aggregate(&plain, dedup(vs), sep)
	}
	return anref.Result{Vals: out}
}

func c17StrictPacks() map[int][]*c17FamPack {
	byMask := map[int][]c17FamItem{}
	add := func(base anref.Call, part []int, order []anref.OrdItem, fr *anref.Frame) {
		c := base
		c.Part, c.Order, c.Frame = part, order, fr
		if c.Frame != nil && c17FrameCanInvert(c.Frame) {
			return
		}
		m := c17Refs(&c)
		byMask[m] = append(byMask[m], c17FamItem{Call: &c, SQL: c.SQL()})
	}
	for _, part := range [][]int{nil, {anref.ColP}} {
		for _, fn := range []string{"COUNT", "SUM", "AVG", "MEDIAN", "VAR", "STDEVP", "UCAT"} {
			b := anref.Call{Fn: fn, Distinct: true}
			add(b, part, nil, nil)
			for _, o := range [][]anref.OrdItem{c17OrdAsc, c17OrdDesc} {
				add(b, part, o, nil)
				for _, fr := range c17ReducedFrames() {
					add(b, part, o, fr)
				}
			}
		}
		for _, b := range []anref.Call{{Fn: "LISTAGG", Distinct: true, HasSep: true, Sep: ","}, {Fn: "JSON_AGG", Distinct: true}} {
			add(b, part, nil, nil)
			add(b, part, c17OrdAsc, nil)
			add(b, part, c17OrdDesc, nil)
		}
	}
	packs := map[int][]*c17FamPack{}
	for m, items := range byMask {
		for i := 0; i < len(items); i += c17PackSize {
			j := i + c17PackSize
			if j > len(items) {
				j = len(items)
			}
			packs[m] = append(packs[m], &c17FamPack{items: items[i:j], parsed: mustParse(c17FamSelect(items[i:j]))})
		}
	}
	return packs
}

func c17StrictRun(c *core.Ctx) {
	if c17SkipFamily("strict-distinct") {
		return
	}
	thorough := c.Thorough()
	packs := c17StrictPacks()
	f := newC17Fam(c, "strict-distinct", "c17strict", true)
	defer f.close()
	f.eval = c17StrictEval
	vals := [3][]string{{"1", "2"}, {"", "1", "2"}, {"", "1", "01", "2", "x", "X"}}
	if thorough {
		vals[2] = append(vals[2], "1.0", "+1")
	}
	var idx int64
	stopped := false
	for mask := 1; mask < 8 && !stopped; mask++ {
		ps := packs[mask]
		if len(ps) == 0 {
			continue
		}
		k := 0
		for b := 0; b < 3; b++ {
			k += mask >> b & 1
		}
		alphabet := c17FamAlphabet(mask, vals)
		visit := func(rows [][3]string) bool {
			idx++
			if !c.Mine(idx) {
				return true
			}
			if c.Expired() {
				c.Incomplete(fmt.Sprintf("time budget reached in family strict-distinct at a table of %d rows", len(rows)))
				stopped = true
				return false
			}
			for _, p := range ps {
				f.one(c17FamCase{Family: "strict-distinct", Rows: rows, Items: p.items, Strict: true}, p.parsed, true)
			}
			c.Add("strict_distinct_tables", 1)
			return true
		}
		switch k {
		case 1:
			c17FamSeqs(alphabet, 3, visit)
		case 2:
			c17FamSeqs(alphabet, 2, visit)
			if !stopped {
				c17FamMultisets(alphabet, 3, visit)
			}
		default:
			c17FamSeqs(alphabet, 2, visit)
			if thorough && !stopped {
				c17FamMultisets(alphabet, 3, visit)
			}
		}
	}
}
