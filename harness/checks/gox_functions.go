//go:build verifx

package checks

import (
	"fmt"
	"os"
	"sort"
	"strings"
	"time"

	"github.com/mithrandie/csvq/lib/query"

	"verif/harness/internal/core"
	"verif/harness/internal/drv"
)

// Family builtin-calls (C12: result equal to the single-worker run; C13: race detector silent).
//
// Every built-in function, every aggregate function (per group, with GROUP BY) and every analytic function (per
// partition) is called over the columns of a table long enough to be split over real threads. A built-in keeps no
// scheduling point inside: an object it shares between calls (a cache, a scratch buffer, a stateful transformer) can
// only be met by two workers that are really inside it at the same time, so this family runs on real threads, several
// times. The call forms are found, not listed: for each function and arity 0..3 the first argument tuples of a fixed
// candidate list that evaluate without an error on a probe table and name at least one column.

const goxFnRows = 700

// the table: a text of several words of varying length, an integer, a float, a datetime, a JSON text, a boolean text, a group key
func goxFnTable(n int) string {
	words := []string{"alpha", "beta", "Gamma delta", "epsilon-zeta eta", "THETA", "iota kappa lambda mu", "nu", "xi omicron", "pi rho sigma tau upsilon", "phi chi", "psi", "omega  end"}
	return csvTable("s,n,f,d,j,b,g", n, func(i int) string {
		s := words[i%len(words)] + " " + words[(i*7+3)%len(words)]
		if i%5 == 0 {
			s += " " + strings.Repeat("x", i%17)
		}
		d := fmt.Sprintf("20%02d-%02d-%02d %02d:%02d:%02d", 10+i%13, 1+i%12, 1+i%28, i%24, i%60, (i*7)%60)
		j := fmt.Sprintf("\"{\"\"k\"\":%d,\"\"l\"\":[%d,\"\"%s\"\"]}\"", i, i%9, words[i%len(words)])
		return fmt.Sprintf("%s,%d,%d.%d,%s,%s,%v,k%d", s, i+1, i%50, i%7, d, j, i%2 == 0, i%41)
	})
}

var goxFnColumns = []string{"s", "n", "f", "d", "j"}

// candidate arguments after the first: columns, then literals of the kinds the functions ask for
var goxFnOthers = []string{"n", "s", "2", "'%s|%s'", "'[a-z]+'", "','", "'x'", "'k'", "'%Y-%m-%d %H'", "f", "d", "1", "'key'", "'UTF8'", "0"}

var goxFnNondeterministic = map[string]bool{"NOW": true, "RAND": true, "CALL": true}

type goxFnCall struct {
	Name string // e.g. fn:TITLE_CASE/1
	SQL  string
}

func goxFnNames() []string {
	names := make([]string, 0, len(query.Functions)+2)
	for n := range query.Functions {
		if n == "CALL" {
			continue
		}
		names = append(names, n)
	}
	names = append(names, "JSON_OBJECT", "NOW")
	sort.Strings(names)
	return names
}

// goxFnProbe finds the call forms of one function: at most perArity per arity.
func goxFnProbe(env *drv.Env, fn string, perArity int) []goxFnCall {
	var out []goxFnCall
	ok := func(expr string) bool {
		r := env.Exec("SELECT " + expr + " FROM w")
		return r.Err == nil && r.Panic == nil && len(r.Views) == 1
	}
	for arity := 0; arity <= 3; arity++ {
		found := 0
		firsts := map[string]bool{}
		try := func(args []string) bool {
			expr := fn + "(" + strings.Join(args, ", ") + ")"
			if !ok(expr) {
				return false
			}
			out = append(out, goxFnCall{Name: fmt.Sprintf("fn:%s/%d", fn, arity), SQL: "SELECT n, " + expr + " FROM w"})
			found++
			if len(args) > 0 {
				firsts[args[0]] = true
			}
			return found >= perArity
		}
		switch arity {
		case 0:
			try(nil)
		case 1:
			for _, a := range goxFnColumns {
				if try([]string{a}) {
					break
				}
			}
		case 2:
		two:
			for _, a := range goxFnColumns {
				for _, b := range goxFnOthers {
					if firsts[a] {
						continue
					}
					if try([]string{a, b}) {
						break two
					}
				}
			}
			if found == 0 {
				// the column in the second place (formats, patterns and separators come first)
			two2:
				for _, b := range goxFnOthers[2:] {
					for _, a := range goxFnColumns {
						if try([]string{b, a}) {
							break two2
						}
					}
				}
			}
		case 3:
		three:
			for _, a := range goxFnColumns {
				for _, b := range goxFnOthers {
					for _, c := range goxFnOthers {
						if firsts[a] {
							continue
						}
						if try([]string{a, b, c}) {
							break three
						}
					}
				}
			}
		}
	}
	return out
}

// goxFnAggregates: aggregate functions per group and analytic functions per partition (41 groups over 700 rows).
func goxFnAggregates(env *drv.Env) []goxFnCall {
	var out []goxFnCall
	ok := func(sql string) bool {
		r := env.Exec(sql)
		return r.Err == nil && r.Panic == nil && len(r.Views) == 1
	}
	names := []string{}
	for n := range query.AggregateFunctions {
		names = append(names, n)
	}
	names = append(names, "LISTAGG", "JSON_AGG")
	sort.Strings(names)
	for _, fn := range names {
		for _, form := range []string{"%s(n)", "%s(DISTINCT f)", "%s(s)", "%s(s, ',')", "%s(s, ',') WITHIN GROUP (ORDER BY n DESC)", "%s(s) WITHIN GROUP (ORDER BY s || 'x')"} {
			call := fmt.Sprintf(form, fn)
			sql := "SELECT g, " + call + " FROM w GROUP BY g ORDER BY g"
			if ok(sql) {
				out = append(out, goxFnCall{Name: "agg:" + strings.Replace(form, "%s", fn, 1), SQL: sql})
			}
			sql = "SELECT n, " + call + " OVER (PARTITION BY g) FROM w ORDER BY n"
			if !strings.Contains(form, "WITHIN") && ok(sql) {
				out = append(out, goxFnCall{Name: "agg-over:" + strings.Replace(form, "%s", fn, 1), SQL: sql})
			}
		}
	}
	names = names[:0]
	for n := range query.AnalyticFunctions {
		names = append(names, n)
	}
	sort.Strings(names)
	for _, fn := range names {
		for _, form := range []string{"%s()", "%s(n)", "%s(s)", "%s(3)", "%s(s, 2)", "%s(f, 1, 0)", "%s(s) IGNORE NULLS"} {
			call := fmt.Sprintf(form, fn)
			sql := "SELECT n, " + call + " OVER (PARTITION BY g ORDER BY f, n) FROM w ORDER BY n"
			if ok(sql) {
				out = append(out, goxFnCall{Name: "analytic:" + strings.Replace(form, "%s", fn, 1), SQL: sql})
			}
		}
	}
	return out
}

// goxFnFamily runs the family. judge is called once per call form with the single-worker outcome and the outcomes of
// the free-running runs (C12 compares them; C13 collects the race detector's reports after each run through after()).
func goxFnFamily(c *core.Ctx, runs int, judge func(call goxFnCall, sc goxScenario, want string, got []string), after func(call goxFnCall, sc goxScenario)) {
	prev := query.GetGoroutineManager().MinimumRequiredPerCore
	query.GetGoroutineManager().MinimumRequiredPerCore = 2
	defer func() { query.GetGoroutineManager().MinimumRequiredPerCore = prev }()
	probeDir := core.Scratch("goxfn-probe")
	drv.ClearDir(probeDir)
	drv.WriteFiles(probeDir, map[string]string{"w.csv": goxFnTable(3)})
	big := goxFnTable(goxFnRows)
	dir := core.Scratch("goxfn")
	perArity := 1
	if c.Thorough() {
		perArity = 3
	}
	var idx int64
	forms, nontrivial := int64(0), int64(0)
	handle := func(call goxFnCall) {
		if only := os.Getenv("VERIF_GOXFN_ONLY"); only != "" && !strings.Contains(call.Name, only) {
			return
		}
		sc := goxScenario{Name: "builtin-calls:" + call.Name, Files: map[string]string{"w.csv": big}, SQL: call.SQL, CPU: 4}
		want, _ := goxRunOnce(dir, sc, 1, false, nil)
		if after != nil {
			after(call, sc) // reports of the single-worker run belong to nobody
		}
		got := make([]string, 0, runs)
		for i := 0; i < runs; i++ {
			g, _ := goxRunOnce(dir, sc, 4, false, nil)
			got = append(got, g)
			if after != nil {
				after(call, sc)
			}
		}
		forms++
		if !strings.Contains(want, "error:") {
			nontrivial++
		}
		c.Observe("builtin_call_forms", call.Name)
		if judge != nil {
			judge(call, sc, want, got)
		}
		if c.WantSample() {
			c.Sample(map[string]any{"family": "builtin-calls", "form": call.Name, "sql": call.SQL, "rows": goxFnRows, "workers": 4, "free_running_runs": runs})
		}
	}
	for _, fn := range goxFnNames() {
		idx++
		if !c.Mine(idx) {
			continue
		}
		if c.Expired() {
			c.Incomplete("family builtin-calls: time budget reached")
			break
		}
		t0 := time.Now()
		env := drv.NewText(probeDir)
		env.Tx.Flags.SetQuiet(true)
		calls := goxFnProbe(env, fn, perArity)
		env.Close()
		c.Add("builtin_calls_ms_probing", time.Since(t0).Milliseconds())
		t0 = time.Now()
		for _, call := range calls {
			handle(call)
		}
		c.Add("builtin_calls_ms_running", time.Since(t0).Milliseconds())
	}
	idx++
	if c.Mine(idx) {
		env := drv.NewText(probeDir)
		env.Tx.Flags.SetQuiet(true)
		calls := goxFnAggregates(env)
		env.Close()
		for _, call := range calls {
			if c.Expired() {
				c.Incomplete("family builtin-calls: time budget reached")
				break
			}
			handle(call)
		}
	}
	c.EvalN(forms*int64(runs+1), nontrivial*int64(runs+1))
	c.Add("builtin_call_forms_run", forms)
	c.Add("free_running_executions", forms*int64(runs))
}

// goxFirstDiff shows where two outcomes part.
func goxFirstDiff(want, got string) string {
	i := 0
	for i < len(want) && i < len(got) && want[i] == got[i] {
		i++
	}
	from := i - 120
	if from < 0 {
		from = 0
	}
	cut := func(s string) string {
		to := i + 160
		if to > len(s) {
			to = len(s)
		}
		if from > len(s) {
			return ""
		}
		return s[from:to]
	}
	return fmt.Sprintf("outcomes part at byte %d:\n--- single worker: ...%s...\n--- this run:      ...%s...", i, cut(want), cut(got))
}
