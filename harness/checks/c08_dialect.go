package checks

import (
	"encoding/json"
	"fmt"
	"strings"

	"verif/harness/internal/core"
	"verif/harness/internal/drv"
)

// Extra family for C08: the file was first read through a table function that states its dialect (no header line,
// another delimiter, fixed-length positions, a JSON query, ...), which caches it without a lock; the failing
// data-changing statement then addresses it by its plain name and has to take it for update. The table the
// following statements see - under either spelling - must be the one seen before, and a COMMIT must leave the file
// as it is.
func init() {
	core.Extend("C08", "family dialect: 7 files whose dialect differs from the session defaults, first read through the table function that states it x 5 failing statements under the plain file name (wrong row length, division by zero, unknown field, "+
		"failing ADD default, REPLACE without its key) ; oracle: SELECT * under both spellings as before the statement, also after further evaluation, COMMIT leaves the bytes", c08DialectRun)
}

var c08DialectTables = []struct {
	Name, File, Content, Fn, Col string
}{
	{"csv-no-header", "t.csv", "1,a\n2,b\n", "CSV(',', `t.csv`, 'UTF8', TRUE)", "c1"},
	{"csv-semicolon", "t.csv", "a;b\n1;x\n2;y\n", "CSV(';', `t.csv`)", "a"},
	{"csv-crlf-no-header", "t.csv", "1,a\r\n2,b\r\n", "CSV(',', `t.csv`, 'UTF8', TRUE)", "c1"},
	{"fixed-positions", "t.txt", "a b \n1 x \n2 y \n", "FIXED('[2, 4]', `t.txt`)", "a"},
	{"fixed-positions-no-header", "t.txt", "1 x \n2 y \n", "FIXED('[2, 4]', `t.txt`, 'UTF8', TRUE)", "c1"},
	{"json-query", "t.json", "{\"list\":[{\"a\":1,\"b\":\"x\"},{\"a\":2,\"b\":\"y\"}]}\n", "JSON('list', `t.json`)", "a"},
	{"ltsv-without-null", "t.ltsv", "a:1\tb:x\na:2\n", "LTSV(`t.ltsv`, 'UTF8', TRUE)", "a"},
}

// %[1]s the plain name, %[2]s a column
var c08DialectFails = []string{
	"INSERT INTO `%[1]s` VALUES (9)",
	"UPDATE `%[1]s` SET %[2]s = 1 / 0",
	"DELETE FROM `%[1]s` WHERE nosuch = 1",
	"ALTER TABLE `%[1]s` ADD (z DEFAULT 1 / 0)",
	"REPLACE INTO `%[1]s` (%[2]s) USING (nosuch) VALUES (1)",
}

type c08DialectCase struct {
	Family string `json:"family"`
	Table  string `json:"table"`
	Stmt   string `json:"failing_statement"`
	Before bool   `json:"earlier_change_in_the_transaction"`
}

func c08DialectOne(c *core.Ctx, dir string, k c08DialectCase) {
	var t struct{ Name, File, Content, Fn, Col string }
	for _, x := range c08DialectTables {
		if x.Name == k.Table {
			t = x
		}
	}
	drv.ClearDir(dir)
	drv.WriteFiles(dir, map[string]string{t.File: t.Content})
	env := drv.New(dir)
	defer env.Close()
	env.Tx.Flags.SetQuiet(true)
	read := func() (string, error) {
		a, err := c01AttrView(env, t.Fn, false)
		if err != nil {
			return "", err
		}
		b, err := c01AttrView(env, "`"+t.File+"`", false)
		return a + "\n" + b, err
	}
	if _, err := c01AttrView(env, t.Fn, false); err != nil {
		c.Incomplete(fmt.Sprintf("family dialect: %s cannot be read through %s: %v", t.File, t.Fn, err))
		return
	}
	before, err := read()
	if err != nil {
		c.Observe("dialect_family_plain_name_unreadable", t.Name+": "+err.Error())
		return
	}
	sql := fmt.Sprintf(k.Stmt, t.File, t.Col)
	r := env.Exec(sql + ";")
	where := fmt.Sprintf("table %s (%s, first read through %s): %q", t.Name, t.File, t.Fn, sql)
	if r.Panic != nil {
		c.Violate("dialect:panic", where+": "+fmt.Sprint(r.Panic), k)
		return
	}
	if r.Err == nil {
		c.Observe("dialect_family_statement_did_not_fail", t.Name+": "+sql)
		return
	}
	c.Eval("dialect|"+t.Name+"|"+sql, true)
	env.Exec(c08DialectChurn)
	after, err := read()
	cls := strings.Fields(sql)[0]
	if err != nil {
		c.Violate("dialect:"+cls+":table-unreadable-after-the-failed-statement", fmt.Sprintf("%s failed with %q; afterwards: %v", where, r.Err, err), k)
		return
	}
	if after != before {
		c.Violate("dialect:"+cls+":table-changed-by-failed-statement", fmt.Sprintf("%s failed with %q, yet the table reads %q afterwards, %q before", where, r.Err, after, before), k)
		return
	}
	if rc := env.Exec("COMMIT;"); rc.Err != nil || rc.Panic != nil {
		c.Violate("dialect:"+cls+":commit-fails-after-the-failed-statement", fmt.Sprintf("%s: COMMIT: %v %v", where, rc.Err, rc.Panic), k)
		return
	}
	if snap := drv.DirSnapshot(dir); len(snap) != 1 || snap[t.File] != t.Content {
		c.Violate("dialect:"+cls+":files-changed-by-failed-statement", fmt.Sprintf("%s: after COMMIT the directory holds %v", where, snap), k)
	}
}

const c08DialectChurn = "SELECT 'x' || 'y', 1 + 2, 2.5 * 2, DATETIME('2020-01-02 03:04:05');"

func c08DialectRun(c *core.Ctx) {
	dir := core.Scratch("c08dialect")
	var idx int64
	for _, t := range c08DialectTables {
		for _, f := range c08DialectFails {
			idx++
			if !c.Mine(idx) {
				continue
			}
			c08DialectOne(c, dir, c08DialectCase{"dialect", t.Name, f, false})
		}
	}
}

func c08DialectReplay(c *core.Ctx, payload json.RawMessage) bool {
	var k c08DialectCase
	if json.Unmarshal(payload, &k) != nil || k.Family != "dialect" {
		return false
	}
	fmt.Printf("replaying family dialect: %+v\n", k)
	c08DialectOne(c, core.Scratch("c08dialect-replay"), k)
	return true
}

// Family failed-attribute: ALTER TABLE ... SET <attribute> TO <a value the attribute refuses> is a data-changing
// statement that fails: the table - rows AND the layout a later COMMIT writes it in - stays as it was.
func init() {
	core.Extend("C08", "family failed-attribute: 14 refused ALTER TABLE ... SET statements (every attribute with invalid values) on a CSV, a TSV and a JSON table, followed by a successful UPDATE and COMMIT; "+
		"oracle: rows unchanged after the failure, and the committed file equals the file the same UPDATE commits without the failed statement before it", c08FailedAttrRun)
}

var c08FailedAttrs = []string{
	"DELIMITER_POSITIONS TO 'invalid'", "DELIMITER_POSITIONS TO 'S[]'", "DELIMITER_POSITIONS TO '[1, 2'", "DELIMITER_POSITIONS TO '[3, 1]'", "DELIMITER_POSITIONS TO NULL",
	"FORMAT TO 'NOSUCH'", "DELIMITER TO 'ab'", "DELIMITER TO ''", "ENCODING TO 'NOSUCH'", "LINE_BREAK TO 'X'", "JSON_ESCAPE TO 'X'", "HEADER TO 'maybe'", "ENCLOSE_ALL TO 5", "NOSUCH_ATTRIBUTE TO 1",
}

var c08FailedAttrTables = []struct{ file, content, upd string }{
	{"t.csv", "a,b\n1,x\n2,y\n", "UPDATE `t.csv` SET b = 'q' WHERE a = 2"},
	{"t.tsv", "a\tb\n1\tx\n2\ty\n", "UPDATE `t.tsv` SET b = 'q' WHERE a = 2"},
	{"t.json", "[{\"a\":1,\"b\":\"x\"},{\"a\":2,\"b\":\"y\"}]\n", "UPDATE `t.json` SET b = 'q' WHERE a = 2"},
}

type c08FailedAttrCase struct {
	Family string `json:"family"`
	Table  int    `json:"table"`
	Attr   string `json:"refused_attribute"`
}

func c08FailedAttrOne(c *core.Ctx, dir string, k c08FailedAttrCase) {
	tb := c08FailedAttrTables[k.Table]
	run := func(withAlter bool) (snap map[string]string, rowsBefore, rowsAfter string, aerr error, ok bool) {
		drv.ClearDir(dir)
		drv.WriteFiles(dir, map[string]string{tb.file: tb.content})
		env := drv.New(dir)
		defer env.Close()
		env.Tx.Flags.SetQuiet(true)
		rowsBefore, _ = c01AttrView(env, "`"+tb.file+"`", false)
		if withAlter {
			r := env.Exec("ALTER TABLE `" + tb.file + "` SET " + k.Attr + ";")
			if r.Panic != nil {
				c.Violate("failed-attribute:panic", fmt.Sprintf("%s: ALTER TABLE SET %s: %v", tb.file, k.Attr, r.Panic), k)
				return nil, "", "", nil, false
			}
			aerr = r.Err
			if aerr == nil {
				return nil, "", "", nil, false // the value is accepted: not a case
			}
			env.Exec(c08DialectChurn)
			rowsAfter, _ = c01AttrView(env, "`"+tb.file+"`", false)
		}
		if r := env.Exec(tb.upd + "; COMMIT;"); r.Err != nil || r.Panic != nil {
			c.Violate("failed-attribute:later-statement-fails", fmt.Sprintf("%s: after the refused ALTER TABLE SET %s (%v): %s; COMMIT: %v %v", tb.file, k.Attr, aerr, tb.upd, r.Err, r.Panic), k)
			return nil, "", "", aerr, false
		}
		return drv.DirSnapshot(dir), rowsBefore, rowsAfter, aerr, true
	}
	want, _, _, _, ok := run(false)
	if !ok {
		return
	}
	got, before, after, aerr, ok := run(true)
	if !ok {
		if aerr == nil {
			c.Observe("failed_attribute_values_accepted", k.Attr)
		}
		return
	}
	c.Eval(fmt.Sprintf("failed-attribute|%s|%s", tb.file, k.Attr), true)
	if before != after {
		c.Violate("failed-attribute:rows-changed-by-refused-statement", fmt.Sprintf("%s: ALTER TABLE SET %s fails (%v), the table read %q before and %q after", tb.file, k.Attr, aerr, before, after), k)
		return
	}
	if fmt.Sprint(got) != fmt.Sprint(want) {
		c.Violate("failed-attribute:layout-changed-by-refused-statement", fmt.Sprintf("%s: ALTER TABLE SET %s fails (%v); %s; COMMIT then writes %v - without the refused statement %v", tb.file, k.Attr, aerr, tb.upd, got, want), k)
	}
}

func c08FailedAttrRun(c *core.Ctx) {
	dir := core.Scratch("c08failedattr")
	var idx int64
	for ti := range c08FailedAttrTables {
		for _, a := range c08FailedAttrs {
			idx++
			if !c.Mine(idx) {
				continue
			}
			c08FailedAttrOne(c, dir, c08FailedAttrCase{"failed-attribute", ti, a})
		}
	}
}

func c08FailedAttrReplay(c *core.Ctx, payload json.RawMessage) bool {
	var k c08FailedAttrCase
	if json.Unmarshal(payload, &k) != nil || k.Family != "failed-attribute" {
		return false
	}
	fmt.Printf("replaying family failed-attribute: %+v\n", k)
	c08FailedAttrOne(c, core.Scratch("c08failedattr-replay"), k)
	return true
}
