//go:build verifx

package checks

import (
	"encoding/json"
	"fmt"
	"os"
	"path/filepath"
	"strings"
	"time"

	"github.com/mithrandie/csvq/lib/verifshim/vrt"

	"verif/harness/internal/core"
	"verif/harness/internal/drv"
	"verif/harness/internal/fsx"
)

// Extra family for C20: the locking access that has to WAIT. In the histories of c20.go the second process runs to
// completion between two statements of T, so T's locking access finds the table either free or held for good. Here
// T's locking statement and the other process's UPDATE + commit run as two simulated processes under the
// file-system-step explorer (engine fsx): ALL interleavings of their file-system steps, retry waits and wait-timeouts.
// T's locking statement is the first access of its transaction, or follows a plain SELECT (the documented reload),
// or follows a COMMIT.
//
// Oracle: a locking access that succeeds holds the table from then on, so what T works on is the file as it is when
// the statement has ended - "the file will be reloaded" / "after COMMIT the next read sees the current file" - plus
// T's own change: the read after the statement is compared with the file's contents taken at that moment, and the
// file after both processes ended holds every committed change, in the order the lock was granted.
func init() {
	core.Extend("C20", "family contended-lock: T = [nothing | SELECT t | UPDATE t; COMMIT] then one of 4 locking statements (SELECT FOR UPDATE, UPDATE, INSERT, DELETE; thorough also REPLACE and a locking set operation), a plain SELECT, COMMIT "+
		"| P = UPDATE t, auto-commit, as two simulated processes: ALL interleavings of their file-system steps, retry waits and wait-timeouts (engine fsx, state-cached DFS); "+
		"oracle: after a successful locking statement T reads the file as it is at that moment plus its own change; the final file holds every committed change in lock order", c20ContendRun)
}

type c20ContendScenario struct {
	Prefix  string `json:"prefix"` // none | read | committed
	Locking string `json:"locking"`
	Kind    string `json:"-"`
	deep    bool
}

var c20ContendLocking = []struct {
	sql, kind string
	deep      bool
}{
	{"SELECT n FROM t FOR UPDATE", "none", false},
	{"UPDATE t SET n = n + 1", "inc", false},
	{"INSERT INTO t VALUES (500)", "ins", false},
	{"DELETE FROM t WHERE n >= 500", "none", false},
	{"REPLACE INTO t (n) USING (n) VALUES (500)", "ins", true},
	{"SELECT n FROM t UNION ALL SELECT n FROM t FOR UPDATE", "none", true},
}

func c20ContendScenarios(thorough bool) []c20ContendScenario {
	var out []c20ContendScenario
	for _, pre := range []string{"none", "read", "committed"} {
		for _, l := range c20ContendLocking {
			if l.deep && !thorough {
				continue
			}
			out = append(out, c20ContendScenario{Prefix: pre, Locking: l.sql, Kind: l.kind})
		}
	}
	return out
}

type c20ContendPayload struct {
	Family   string             `json:"family"`
	Scenario c20ContendScenario `json:"scenario"`
	Schedule []string           `json:"schedule"`
	Trace    []string           `json:"trace"`
}

func c20ContendRows(content string) ([]int, bool) {
	lines := strings.Split(strings.TrimRight(content, "\n"), "\n")
	if len(lines) == 0 || lines[0] != "n" {
		return nil, false
	}
	out := []int{}
	for _, l := range lines[1:] {
		var k int
		if _, err := fmt.Sscanf(l, "%d", &k); err != nil {
			return nil, false
		}
		out = append(out, k)
	}
	return out, true
}

func c20ContendOwn(kind string, rows []int) []int {
	out := append([]int{}, rows...)
	switch kind {
	case "inc":
		for i := range out {
			out[i]++
		}
	case "ins":
		out = append(out, 500)
	}
	return out
}

func c20ContendBodies(s c20ContendScenario) func(dir string) []func(*fsx.Proc) {
	return func(dir string) []func(*fsx.Proc) {
		// built (and T's statements before the locking one run) outside scheduling: no other process has started
		t := drv.New(dir)
		t.Tx.Flags.SetQuiet(true)
		pre := "-"
		switch s.Prefix {
		case "read":
			r := t.Exec("SELECT n FROM t;")
			pre = fmt.Sprintf("%v", r.Err)
			if r.Err == nil && len(r.Views) > 0 {
				pre = drv.RowsKey(drv.Rows(r.Views[len(r.Views)-1]))
			}
		case "committed":
			r := t.Exec("UPDATE t SET n = n + 100; COMMIT;")
			pre = fmt.Sprintf("%v", r.Err)
		}
		p := drv.New(dir)
		p.Tx.AutoCommit = true
		p.Tx.Flags.SetQuiet(true)
		res := func(r drv.Result) string {
			if r.Panic != nil {
				return fmt.Sprintf("PANIC %v", r.Panic)
			} else if r.Err != nil {
				return "ERR " + sqlErrClass(r.Err)
			}
			return "ok"
		}
		rows := func(r drv.Result) string {
			if r.Err != nil || r.Panic != nil || len(r.Views) == 0 {
				return "-"
			}
			ints, ok := viewInts(drv.Rows(r.Views[len(r.Views)-1]))
			if !ok {
				return "unreadable " + drv.RowsKey(drv.Rows(r.Views[len(r.Views)-1]))
			}
			return fmt.Sprint(ints)
		}
		return []func(*fsx.Proc){
			func(pr *fsx.Proc) {
				pr.Obs("T-prefix " + pre)
				r := t.Exec(s.Locking + ";")
				disk, _ := os.ReadFile(filepath.Join(dir, "t.csv")) // the harness looks at the file: not a step of T
				pr.Obs(fmt.Sprintf("T-lock %s disk=%q", res(r), disk))
				if r.Err == nil && r.Panic == nil {
					r2 := t.Exec("SELECT n FROM t;")
					pr.Obs(fmt.Sprintf("T-read %s rows=%s", res(r2), rows(r2)))
					r3 := t.Exec("COMMIT;")
					pr.Obs("T-commit " + res(r3))
				}
				t.Close()
				pr.Obs("closed")
			},
			func(pr *fsx.Proc) {
				r := p.Exec("UPDATE t SET n = n + 10;")
				pr.Obs("P-update " + res(r))
				p.Close()
				pr.Obs("closed")
			},
		}
	}
}

func c20ContendCheck(s c20ContendScenario) func(w *fsx.World) []fsx.Violation {
	return func(w *fsx.World) []fsx.Violation {
		if !w.Final {
			return nil
		}
		var out []fsx.Violation
		bad := func(sig, msg string) { out = append(out, fsx.Violation{Sig: "contended-lock:" + sig, Msg: msg}) }
		T, P := w.Procs[0], w.Procs[1]
		get := func(p *fsx.Proc, prefix string) string {
			if l := p.ObsWithPrefix(prefix); len(l) > 0 {
				return l[0]
			}
			return ""
		}
		initial := []int{1}
		if s.Prefix == "committed" {
			initial = []int{101}
		}
		pRes := get(P, "P-update ")
		pOK := pRes == "ok"
		if !pOK && !strings.HasPrefix(pRes, "ERR lock-timeout") {
			bad("unexpected-error-or-panic", "P: UPDATE t SET n = n + 10 -> "+pRes)
		}
		lock := get(T, "T-lock ")
		lockRes := lock
		if i := strings.Index(lock, " disk="); i >= 0 {
			lockRes = lock[:i]
		}
		lockOK := lockRes == "ok"
		if !lockOK && !strings.HasPrefix(lockRes, "ERR lock-timeout") {
			bad("unexpected-error-or-panic", "T: "+s.Locking+" -> "+lockRes)
		}
		plus10 := func(rows []int) []int {
			o := make([]int, len(rows))
			for i, r := range rows {
				o[i] = r + 10
			}
			return o
		}
		want := initial
		if pOK {
			want = plus10(initial)
		}
		if lockOK {
			var diskText string
			fmt.Sscanf(lock[strings.Index(lock, " disk=")+6:], "%q", &diskText)
			disk, ok := c20ContendRows(diskText)
			if !ok {
				bad("table-file-unreadable-while-T-holds-it", fmt.Sprintf("t.csv is %q when T's %s has ended", diskText, s.Locking))
				return out
			}
			read := get(T, "T-read ")
			expect := c20ContendOwn(s.Kind, disk)
			if read != fmt.Sprintf("ok rows=%v", expect) {
				bad("the-locking-access-does-not-load-the-current-file", fmt.Sprintf("T's %s succeeded; t.csv held %v at that moment, so T's next SELECT n FROM t shows %v; it shows: %s", s.Locking, disk, expect, read))
			}
			if c := get(T, "T-commit "); c != "ok" {
				bad("unexpected-error-or-panic", "T: COMMIT -> "+c)
			}
			// the order in which the lock was granted: P's commit is in the file T found, or it is not
			switch {
			case fmt.Sprint(disk) == fmt.Sprint(initial):
				want = expect
				if pOK {
					want = plus10(expect)
				}
			case pOK && fmt.Sprint(disk) == fmt.Sprint(plus10(initial)):
				want = expect
			default:
				bad("the-file-T-locked-is-no-committed-state", fmt.Sprintf("t.csv held %v when T's %s had ended; the committed states are %v and (after P) %v", disk, s.Locking, initial, plus10(initial)))
				return out
			}
		}
		final, ok := c20ContendRows(w.Files["t.csv"])
		if !ok || fmt.Sprint(final) != fmt.Sprint(want) {
			bad("a-committed-change-is-lost", fmt.Sprintf("t.csv ends as %q; T: %s; P: %s; every committed change in lock order gives %v", w.Files["t.csv"], lock, pRes, want))
		}
		for name := range w.Files {
			if strings.HasPrefix(name, ".") {
				bad("leftover-control-file", "both processes ended yet "+name+" remains")
				break
			}
		}
		return out
	}
}

func c20ContendRunScenario(c *core.Ctx, s c20ContendScenario, deadline time.Time, replay []string) {
	name := "contended-lock " + s.Prefix + " | " + s.Locking
	sc := &fsx.Scenario{Name: name,
		Setup:  func(dir string) { os.WriteFile(filepath.Join(dir, "t.csv"), []byte("n\n1\n"), 0644) },
		Bodies: c20ContendBodies(s), Check: c20ContendCheck(s)}
	vrt.SetProcOrder("", true)
	defer vrt.SetProcOrder("", false)
	ex := fsx.NewExplorer(sc, core.Scratch(fmt.Sprintf("c20contend-%s-%x", s.Prefix, hash16Name(s.Locking))), deadline)
	if replay != nil {
		ex.Replay(fsx.ParseSchedule(replay))
	} else {
		ex.Explore()
	}
	st := ex.Stats
	c.Add("states", int64(st.States))
	c.Add("transitions", int64(st.Transitions))
	c.Add("traces_validated_against_impl", int64(st.Executions))
	c.EvalN(int64(st.Transitions), int64(st.States))
	c.Observe("contended_lock_scenarios", fmt.Sprintf("%s: %d states, %d transitions, %d executions, %d terminal", name, st.States, st.Transitions, st.Executions, st.Terminal))
	if st.Capped {
		c.Incomplete("family contended-lock, " + name + ": time budget reached before the state space was exhausted")
	}
	if st.Nondeterminism > 0 {
		c.Incomplete(fmt.Sprintf("family contended-lock, %s: %d replay divergences (harness nondeterminism; those branches are not covered)", name, st.Nondeterminism))
	}
	for sig, v := range st.Violations {
		c.Violate(sig, fmt.Sprintf("%s: %s\n  schedule: %s\n  trace:\n    %s", name, v.Msg, strings.Join(v.Schedule, " "), strings.Join(v.Trace, "\n    ")),
			c20ContendPayload{Family: "contended-lock", Scenario: s, Schedule: v.Schedule, Trace: v.Trace})
	}
}

func hash16Name(s string) uint32 {
	var h uint32 = 2166136261
	for i := 0; i < len(s); i++ {
		h = (h ^ uint32(s[i])) * 16777619
	}
	return h
}

func c20ContendRun(c *core.Ctx) {
	if !c20Only("contended-lock") {
		return
	}
	for i, s := range c20ContendScenarios(c.Thorough()) {
		if !c.Mine(int64(i)) {
			continue
		}
		if c.Expired() {
			c.Incomplete("family contended-lock: time budget reached")
			return
		}
		c20ContendRunScenario(c, s, c.Deadline, nil)
	}
}

func c20ContendReplay(c *core.Ctx, payload json.RawMessage) bool {
	var k c20ContendPayload
	if json.Unmarshal(payload, &k) != nil || k.Family != "contended-lock" {
		return false
	}
	for _, l := range c20ContendLocking {
		if l.sql == k.Scenario.Locking {
			k.Scenario.Kind = l.kind
		}
	}
	fmt.Printf("replaying family contended-lock: %s | %s, schedule %v\n", k.Scenario.Prefix, k.Scenario.Locking, k.Schedule)
	c20ContendRunScenario(c, k.Scenario, time.Now().Add(time.Minute), k.Schedule)
	return true
}
