//go:build verifx

package checks

import (
	"os"

	"verif/harness/internal/fsx"
)

// Family rmw (C09): ONE data-changing statement that reads the table it changes is a read-modify-write transaction of
// its own. The manual (Transaction Management, File Locking) gives every SELECT query a shared lock that is released
// right after reading and reloads a table that is updated after such a read - unless the read is FOR UPDATE. So the
// statement is one critical section exactly when its first access to the table is the exclusive one: the statement's own
// target (subqueries of SET, WHERE, VALUES and the query of INSERT ... SELECT run after the target was loaded for
// update), or a common table / derived table that says FOR UPDATE. The family enumerates these forms; each runs against
// a second process that increments (or appends to) the same table, all interleavings.
//
// Oracle: the two committed changes are serialised - the counter ends at initial + number of committed increments; for
// the appending forms the table ends with the values initial .. initial + k without a gap or a repeat.
// Not judged (documented): a common table or a derived table WITHOUT FOR UPDATE that reads the table before the
// statement's target is loaded (proposals/C09-notes.md, S22).
const c09RmwRule = "family rmw: single statements that read the table they change, the first access being the exclusive one {UPDATE with a subquery on t in SET, in WHERE; WITH x AS (SELECT ... FROM t FOR UPDATE) UPDATE t / INSERT INTO t; thorough: subquery on t in WHERE, UPDATE t FROM t JOIN (derived table on t), WITH ... FOR UPDATE before a joined UPDATE and before REPLACE} against a concurrent increment, all interleavings; " +
	"oracle: both committed changes survive (counter = initial + committed increments; appended values form initial..initial+k)"

func init() { c09FamRegister("rmw", c09RmwRule, c09RmwList) }

func c09RmwList() []c09FamScenario {
	type form struct {
		name     string
		stmt     string
		other    string
		seq      bool // appending form (oracle of the main list's INSERT ... SELECT MAX(n) + 1 scenarios)
		slot     int64
		thorough bool
	}
	const inc = "UPDATE t SET n = n + 1;"
	const app = "INSERT INTO t SELECT MAX(n) + 1 FROM t;"
	forms := []form{
		{name: "UPDATE SET (subquery t)", stmt: "UPDATE t SET n = (SELECT MAX(n) FROM t) + 1;", other: inc, slot: 10},
		{name: "WITH x (t FOR UPDATE) UPDATE t", stmt: "WITH x AS (SELECT n FROM t FOR UPDATE) UPDATE t SET n = (SELECT x.n + 1 FROM x);", other: inc, slot: 5},
		{name: "WITH x (t FOR UPDATE) INSERT t", stmt: "WITH x AS (SELECT MAX(n) + 1 AS m FROM t FOR UPDATE) INSERT INTO t SELECT m FROM x;", other: app, seq: true, slot: 6},
		{name: "UPDATE WHERE (subquery t)", stmt: "UPDATE t SET n = n + 1 WHERE n IN (SELECT n FROM t);", other: inc, slot: 3, thorough: true},
		{name: "UPDATE t FROM t JOIN derived(t)", stmt: "UPDATE t SET t.n = s.m + 1 FROM t JOIN (SELECT MAX(n) AS m FROM t) s ON 1 = 1;", other: inc, slot: 1, thorough: true},
		{name: "WITH x (t FOR UPDATE) UPDATE t FROM t JOIN x", stmt: "WITH x AS (SELECT n AS m FROM t FOR UPDATE) UPDATE t SET t.n = x.m + 1 FROM t JOIN x ON 1 = 1;", other: inc, slot: 13, thorough: true},
		{name: "WITH x (t FOR UPDATE) REPLACE t", stmt: "WITH x AS (SELECT MAX(n) + 1 AS m FROM t FOR UPDATE) REPLACE INTO t (n) USING (n) SELECT m FROM x;", other: app, seq: true, slot: 14, thorough: true},
	}
	if os.Getenv("VERIF_C09_S22") != "" { // development aid: the documented forms, to see what they do (never part of a run)
		forms = []form{
			{name: "S22 WITH x (t) UPDATE t", stmt: "WITH x AS (SELECT n FROM t) UPDATE t SET n = (SELECT x.n + 1 FROM x);", other: inc, slot: 10},
			{name: "S22 WITH x (t) INSERT t", stmt: "WITH x AS (SELECT MAX(n) + 1 AS m FROM t) INSERT INTO t SELECT m FROM x;", other: app, seq: true, slot: 5},
		}
	}
	var out []c09FamScenario
	for _, f := range forms {
		f := f
		out = append(out, c09FamScenario{family: "rmw", name: "rmw: " + f.name + " || " + map[bool]string{false: "INC", true: "INSERT MAX+1"}[f.seq], slot: f.slot, thoroughOnly: f.thorough,
			build: func() *fsx.Scenario {
				check := c09SQLOracle(5)
				if f.seq {
					check = c09SeqInsertOracle(5)
				}
				return &fsx.Scenario{Setup: c09Setup(map[string]int{"t.csv": 5}), Check: check, Bodies: func(d string) []func(*fsx.Proc) { return sqlBodies(d, f.stmt, f.other) }}
			}})
	}
	return out
}
