package checks

import (
	"fmt"
	"strings"

	"verif/harness/internal/core"
	"verif/harness/internal/drv"
)

// Extra family for C16: the same cursor name declared in two nested blocks. Every statement addresses the
// innermost declaration: a closed inner cursor is an error for FETCH and WHILE IN (never the rows of the outer one),
// status predicates describe the inner cursor, and the outer cursor keeps its position.
func init() {
	core.Extend("C16", "family nested: outer cursor state {undeclared, closed, open, open+1 fetch} x block {IF, WHILE, CASE} x inner cursor history {declared, opened, opened+fetched, opened+closed, opened+fetched+closed} x "+
		"probe inside {FETCH, WHILE IN, IS OPEN, IS IN RANGE} x the outer cursor fetched after the block; compared with a two-level reference of cursor lookup", c16NestedRun)
}

type c16nCur struct {
	rows []int
	open bool
	pos  int // rows fetched so far
}

type c16nProg struct {
	sql        string
	want       []string
	wantErr    string // fragment of the expected error message ("" = none)
	nontrivial bool
}

func c16NestedProgram(outer, block, inner, probe int) c16nProg {
	var sb strings.Builder
	var want []string
	wantErr := ""
	sb.WriteString("VAR @v;\n")
	var oc *c16nCur
	if outer >= 1 {
		oc = &c16nCur{rows: []int{1, 2, 3}}
		sb.WriteString("DECLARE cur CURSOR FOR SELECT 1 UNION ALL SELECT 2 UNION ALL SELECT 3;\n")
	}
	if outer >= 2 {
		oc.open = true
		sb.WriteString("OPEN cur;\n")
	}
	if outer >= 3 {
		oc.pos = 1
		sb.WriteString("FETCH cur INTO @v; PRINT @v;\n")
		want = append(want, "1")
	}
	switch block {
	case 0:
		sb.WriteString("IF TRUE THEN\n")
	case 1:
		sb.WriteString("VAR @k := 0; WHILE @k < 1 DO @k := @k + 1;\n")
	case 2:
		sb.WriteString("CASE WHEN TRUE THEN\n")
	}
	ic := &c16nCur{rows: []int{10, 20}}
	sb.WriteString("  DECLARE cur CURSOR FOR SELECT 10 UNION ALL SELECT 20;\n")
	if inner >= 1 {
		ic.open = true
		sb.WriteString("  OPEN cur;\n")
	}
	if inner == 2 || inner == 4 {
		ic.pos = 1
		sb.WriteString("  FETCH cur INTO @v; PRINT @v;\n")
		want = append(want, "10")
	}
	if inner >= 3 {
		ic.open = false
		sb.WriteString("  CLOSE cur;\n")
	}
	// probe of the inner cursor
	failed := false
	switch probe {
	case 0:
		sb.WriteString("  FETCH cur INTO @v; PRINT @v;\n")
		if !ic.open {
			wantErr, failed = "closed", true
		} else {
			want = append(want, fmt.Sprint(ic.rows[ic.pos]))
			ic.pos++
		}
	case 1:
		sb.WriteString("  WHILE @v IN cur DO PRINT @v; END WHILE;\n")
		if !ic.open {
			wantErr, failed = "closed", true
		} else {
			for ; ic.pos < len(ic.rows); ic.pos++ {
				want = append(want, fmt.Sprint(ic.rows[ic.pos]))
			}
		}
	case 2:
		sb.WriteString("  PRINT CURSOR cur IS OPEN;\n")
		want = append(want, map[bool]string{true: "TRUE", false: "FALSE"}[ic.open])
	case 3:
		sb.WriteString("  PRINT CURSOR cur IS IN RANGE;\n")
		switch {
		case !ic.open:
			wantErr, failed = "closed", true
		case ic.pos == 0:
			want = append(want, "UNKNOWN")
		default:
			want = append(want, "TRUE")
		}
	}
	sb.WriteString([]string{"END IF;\n", "END WHILE;\n", "END CASE;\n"}[block])
	if !failed {
		// the outer cursor, untouched by what the block did to its own
		sb.WriteString("FETCH cur INTO @v; PRINT @v;\n")
		switch {
		case oc == nil:
			wantErr = "undeclared"
		case !oc.open:
			wantErr = "closed"
		default:
			want = append(want, fmt.Sprint(oc.rows[oc.pos]))
		}
	}
	return c16nProg{sql: sb.String(), want: want, wantErr: wantErr, nontrivial: outer >= 2}
}

func c16NestedRun(c *core.Ctx) {
	dir := core.Scratch("c16nested")
	var idx int64
	for outer := 0; outer < 4; outer++ {
		for block := 0; block < 3; block++ {
			for inner := 0; inner < 5; inner++ {
				for probe := 0; probe < 4; probe++ {
					idx++
					if !c.Mine(idx) {
						continue
					}
					p := c16NestedProgram(outer, block, inner, probe)
					env := drv.NewText(dir)
					env.Tx.Flags.SetQuiet(true)
					r := env.Exec(p.sql)
					env.Close()
					c.Eval(fmt.Sprintf("nested:%d:%d:%d:%d", outer, block, inner, probe), p.nontrivial)
					got := strings.Fields(strings.TrimSpace(r.Out))
					ok := r.Panic == nil && strings.Join(got, ",") == strings.Join(p.want, ",")
					if p.wantErr == "" {
						ok = ok && r.Err == nil
					} else {
						ok = ok && r.Err != nil && strings.Contains(r.Err.Error(), p.wantErr)
					}
					if !ok {
						kind := []string{"FETCH", "WHILE IN", "IS OPEN", "IS IN RANGE"}[probe]
						c.Violate("nested:"+kind+": a statement on a cursor name declared in two nested blocks does not address the innermost declaration",
							fmt.Sprintf("%s\ncsvq prints %v (err=%v panic=%v); the innermost-declaration rule gives %v, error containing %q", p.sql, got, r.Err, r.Panic, p.want, p.wantErr),
							map[string]any{"family": "nested", "outer": outer, "block": block, "inner": inner, "probe": probe, "program": p.sql})
					}
				}
			}
		}
	}
}

// Family position: the position of FETCH ABSOLUTE / RELATIVE given by a variable, an expression or a numeric
// text, used again after other integers were computed: the same position addresses the same row every time and
// the variable keeps its value.
func init() {
	core.Extend("C16", "family position: FETCH ABSOLUTE/RELATIVE with the position as variable, expression or numeric text, repeated after further integer evaluation", c16PositionRun)
}

var c16Position = []struct{ prog, want string }{
	{"VAR @pos := 1; FETCH ABSOLUTE @pos cur INTO @v; PRINT @v; VAR @z := 41 + 1; FETCH ABSOLUTE @pos cur INTO @v; PRINT @v; PRINT @pos; FETCH ABSOLUTE 0 cur INTO @v; PRINT @v;", "20,20,1,10"},
	{"VAR @step := 1; FETCH cur INTO @v; FETCH RELATIVE @step cur INTO @v; PRINT @v; VAR @z := 7 * 6; FETCH RELATIVE @step cur INTO @v; PRINT @v; PRINT @step; FETCH RELATIVE -2 cur INTO @v; PRINT @v;", "20,30,1,10"},
	{"VAR @i := 0; WHILE @i < 3 DO FETCH ABSOLUTE @i cur INTO @v; PRINT @v; @i := @i + 1; END WHILE; PRINT @i;", "10,20,30,3"},
	{"VAR @i := 2; WHILE @i >= 0 DO FETCH ABSOLUTE 2 - @i cur INTO @v; PRINT @v; VAR @w := @i * 100; @i := @i - 1; END WHILE;", "10,20,30"},
	{"VAR @s := '2'; FETCH ABSOLUTE @s cur INTO @v; PRINT @v; VAR @z := 1 + 1; FETCH ABSOLUTE @s cur INTO @v; PRINT @v; PRINT @s;", "30,30,'2'"},
	{"DECLARE f FUNCTION (@p) AS BEGIN VAR @r; FETCH ABSOLUTE @p cur INTO @r; RETURN @r; END; PRINT f(1); VAR @z := 3 + 4; PRINT f(1); PRINT f(2);", "20,20,30"},
}

func c16PositionRun(c *core.Ctx) {
	dir := core.Scratch("c16position")
	for i, tc := range c16Position {
		if !c.Mine(int64(1000 + i)) {
			continue
		}
		prog := "VAR @v; DECLARE cur CURSOR FOR SELECT 10 UNION ALL SELECT 20 UNION ALL SELECT 30; OPEN cur; " + tc.prog
		for run := 0; run < 2; run++ {
			env := drv.NewText(dir)
			env.Tx.Flags.SetQuiet(true)
			r := env.Exec(prog)
			env.Close()
			got := strings.Join(strings.Fields(strings.TrimSpace(r.Out)), ",")
			c.Eval(fmt.Sprintf("position:%d", i), true)
			if r.Panic != nil || r.Err != nil || got != tc.want {
				c.Violate("position: FETCH ABSOLUTE/RELATIVE with a position that is not a plain literal addresses another row, or changes the variable",
					fmt.Sprintf("%s\ncsvq prints %q (err=%v panic=%v), the cursor rows 10,20,30 and the given positions give %q", prog, got, r.Err, r.Panic, tc.want),
					map[string]any{"family": "position", "program": prog, "want": tc.want})
			}
		}
	}
}
