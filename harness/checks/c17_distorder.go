package checks

import (
	"encoding/json"
	"fmt"
	"math"
	"strconv"
	"strings"

	"github.com/mithrandie/csvq/lib/parser"

	"verif/harness/internal/anref"
	"verif/harness/internal/core"
	"verif/harness/internal/rv"
)

// Extra family for C17: an analytic function as key of the query's ORDER BY clause behind a SELECT DISTINCT whose
// select list holds another analytic function and the table's columns in another order than the table has them.
// The value of the ORDER BY function is seen only in the order of the result rows. State that the select clause's
// function leaves behind (sort values kept per record and column) must not reach the function of the ORDER BY
// clause, which sees records with other columns at the same positions.
//
// Only tables whose rows (p, o, v) are pairwise different are run, so DISTINCT removes nothing and the rows the
// ORDER BY function sees are the table's rows under either reading of "DISTINCT, then ORDER BY".
//
// Oracle: the definitional model. The select list's function is decided per column as in the main family; the result
// order is accepted when some accepted reading and some admissible tie order of each partition give the ORDER BY
// function values that do not decrease along the result rows (ORDER BY clause of the manual: ascending, nulls first;
// the order of rows with equal keys is left free).
func init() {
	core.Extend("C17", "family distinct-order: SELECT DISTINCT <list>, f1 AS r FROM t ORDER BY f2 - 4 column lists (v,o,p / o,id,v,p / p,o,v / id,p,o,v) x 5 analytic functions f1 in the select list x 18 analytic functions f2 as the ORDER BY key "+
		"(ROW_NUMBER, RANK, DENSE_RANK, COUNT(*), SUM, LAG, LEAD over PARTITION BY none/one column and ORDER BY one column, ascending or DESC) on every sequence of 0..3 pairwise different rows over p, o, v in {1,2} "+
		"(thorough: 0..4 rows, and 0..3 rows with NULL as third value of o); oracle: the model for f1's column, and for the row order: some accepted reading and admissible tie order of f2 whose values do not decrease along the result", c17DistOrderRun)
}

var c17DistOrderLists = [][]string{{"v", "o", "p"}, {"o", "id", "v", "p"}, {"p", "o", "v"}, {"id", "p", "o", "v"}}

func c17DistOrderF1() []anref.Call {
	P, O, V := anref.ColP, anref.ColO, anref.ColV
	return []anref.Call{
		{Fn: "RANK", Order: []anref.OrdItem{{Col: P}}},
		{Fn: "ROW_NUMBER", Part: []int{O}, Order: []anref.OrdItem{{Col: V}}},
		{Fn: "SUM", Part: []int{P}, Order: []anref.OrdItem{{Col: O, Desc: true}}},
		{Fn: "COUNT", Star: true, Part: []int{V}},
		{Fn: "DENSE_RANK", Order: []anref.OrdItem{{Col: V, Desc: true}, {Col: O}}},
	}
}

func c17DistOrderF2() []anref.Call {
	P, O, V := anref.ColP, anref.ColO, anref.ColV
	asc := func(c int) []anref.OrdItem { return []anref.OrdItem{{Col: c}} }
	desc := func(c int) []anref.OrdItem { return []anref.OrdItem{{Col: c, Desc: true}} }
	return []anref.Call{
		{Fn: "ROW_NUMBER", Order: asc(P)}, {Fn: "ROW_NUMBER", Order: asc(O)}, {Fn: "ROW_NUMBER", Order: asc(V)},
		{Fn: "ROW_NUMBER", Order: desc(O)}, {Fn: "ROW_NUMBER", Order: desc(V)},
		{Fn: "RANK", Order: asc(P)}, {Fn: "RANK", Order: asc(O)}, {Fn: "RANK", Order: desc(V)},
		{Fn: "DENSE_RANK", Part: []int{P}, Order: asc(O)}, {Fn: "DENSE_RANK", Part: []int{O}, Order: asc(V)}, {Fn: "DENSE_RANK", Part: []int{V}, Order: desc(P)},
		{Fn: "ROW_NUMBER", Part: []int{P}, Order: asc(V)}, {Fn: "ROW_NUMBER", Part: []int{O}, Order: desc(P)},
		{Fn: "COUNT", Star: true, Part: []int{P}}, {Fn: "COUNT", Star: true, Part: []int{O}},
		{Fn: "SUM", Part: []int{P}, Order: asc(O)},
		{Fn: "LAG", Order: asc(O)}, {Fn: "LEAD", Order: desc(P)},
	}
}

type c17DistOrderCase struct {
	Family string      `json:"family"`
	Rows   [][3]string `json:"rows"` // CSV texts of p, o, v; the empty text is NULL
	List   []string    `json:"select_list_columns"`
	F1     *anref.Call `json:"select_list_function"`
	F2     *anref.Call `json:"order_by_function"`
}

func c17DistOrderSQL(list []string, f1, f2 *anref.Call) string {
	return "SELECT DISTINCT " + strings.Join(list, ", ") + ", " + f1.SQL() + " AS r FROM t ORDER BY " + f2.SQL()
}

// c17DistOrderNum: an ORDER BY key of the family as a number (NULL sorts first).
func c17DistOrderNum(v rv.V) (float64, bool) {
	switch v.K {
	case rv.Null:
		return math.Inf(-1), true
	case rv.Int:
		return float64(v.I), true
	case rv.Float:
		return v.F, !math.IsNaN(v.F)
	case rv.Str:
		f, err := strconv.ParseFloat(strings.TrimSpace(v.S), 64)
		return f, err == nil
	}
	return 0, false
}

// c17DistOrderAdmissible: is the sequence of ids a possible result order under ORDER BY call (ascending)?
// undecided is set when the model gives a key that is not a number or NULL.
func c17DistOrderAdmissible(call *anref.Call, rows []anref.Row, out []int) (ok bool, undecided bool) {
	parts := anref.Partitions(rows, call.Part)
	for _, rd := range anref.Readings(call) {
		// per partition: the different assignments id -> key over the admissible tie orders
		var choices [][]map[int]float64
		bad := false
		for _, part := range parts {
			seen := map[string]bool{}
			var list []map[int]float64
			anref.Orderings(part, call.Order, 0, func(ord []anref.Row) bool {
				res := anref.Eval(call, ord, rd)
				if res.Err {
					bad = true
					return true
				}
				m := map[int]float64{}
				key := make([]string, len(part))
				for i := range ord {
					f, isNum := c17DistOrderNum(res.Vals[i])
					if !isNum {
						undecided = true
						return true
					}
					m[ord[i].ID] = f
				}
				for i, r := range part {
					key[i] = strconv.FormatFloat(m[r.ID], 'g', -1, 64)
				}
				if k := strings.Join(key, " "); !seen[k] {
					seen[k] = true
					list = append(list, m)
				}
				return false
			})
			if bad || undecided {
				break
			}
			choices = append(choices, list)
		}
		if undecided {
			return false, true
		}
		if bad {
			continue
		}
		keys := map[int]float64{}
		var rec func(pi int) bool
		rec = func(pi int) bool {
			if pi == len(choices) {
				for i := 1; i < len(out); i++ {
					if keys[out[i-1]] > keys[out[i]] {
						return false
					}
				}
				return true
			}
			for _, m := range choices[pi] {
				for id, f := range m {
					keys[id] = f
				}
				if rec(pi + 1) {
					return true
				}
			}
			return false
		}
		if rec(0) {
			return true, false
		}
	}
	return false, false
}

func c17DistOrderOne(f *c17Fam, k c17DistOrderCase, st []parser.Statement) {
	c := f.c
	sql := c17DistOrderSQL(k.List, k.F1, k.F2)
	if st == nil {
		var perr error
		st, _, perr = parser.Parse(sql, "", false, false)
		if perr != nil {
			c.Violate("distinct-order:syntax", "documented syntax rejected: "+sql+": "+perr.Error(), k)
			return
		}
	}
	rows := c17FamRows(k.Rows)
	f.load(k.Rows)
	o := f.exec(st)
	c.Add("statements", 1)
	c.EvalN(1, int64(map[bool]int{false: 0, true: 1}[len(rows) > 1]))
	where := fmt.Sprintf("family distinct-order, table [%s]", c17FamKey(k.Rows))
	cls := k.F2.FnLabel() + "|" + k.F2.ClauseClass()
	if o.err != nil || o.panic != nil {
		msg := fmt.Sprint(o.err)
		if o.panic != nil {
			msg = fmt.Sprint("panic: ", o.panic)
		}
		c.Violate("distinct-order:error:"+cls, fmt.Sprintf("%s: %s\n  csvq: %s", where, sql, msg), k)
		return
	}
	bad := func(msg string) {
		c.Violate("distinct-order:rows-or-other-columns-changed", fmt.Sprintf("%s: %s: %s", where, sql, msg), k)
	}
	// the rows of the table are pairwise different in (p, o, v): DISTINCT removes nothing
	if len(o.rows) != len(rows) {
		bad(fmt.Sprintf("%d result rows for %d pairwise different table rows", len(o.rows), len(rows)))
		return
	}
	pos := map[string]int{}
	for i, name := range k.List {
		pos[name] = i
	}
	byKey := map[string]int{}
	for _, r := range rows {
		byKey[r.C[0].Key()+"|"+r.C[1].Key()+"|"+r.C[2].Key()] = r.ID
	}
	var out []int
	got := map[int]rv.V{}
	for _, r := range o.rows {
		if len(r) != len(k.List)+1 {
			bad(fmt.Sprintf("a result row has %d cells, the SELECT has %d columns", len(r), len(k.List)+1))
			return
		}
		id, ok := byKey[r[pos["p"]].Key()+"|"+r[pos["o"]].Key()+"|"+r[pos["v"]].Key()]
		if _, twice := got[id]; !ok || twice {
			bad(fmt.Sprintf("the result row %v is not a row of the table, or is there twice", c17DistOrderRowText(r)))
			return
		}
		if ip, has := pos["id"]; has && (r[ip].K != rv.Str || r[ip].S != strconv.Itoa(id)) {
			bad(fmt.Sprintf("the result row %v has the id of another row", c17DistOrderRowText(r)))
			return
		}
		got[id] = r[len(k.List)]
		out = append(out, id)
	}
	if ok, _, _ := c17Explained(c, k.F1, rows, got, anref.Readings(k.F1), anref.Eval); !ok {
		c.Violate("distinct-order:select-column-mismatch:"+k.F1.FnLabel()+"|"+k.F1.ClauseClass(),
			fmt.Sprintf("%s: column r of\n  %s\n  csvq: %s\n  no admissible tie order and no accepted reading reproduces it", where, sql, c17ColumnText(rows, got)), k)
		return
	}
	ok, undecided := c17DistOrderAdmissible(k.F2, rows, out)
	if undecided {
		c.Incomplete("family distinct-order: the model gives a key that is neither a number nor NULL for " + k.F2.SQL())
		return
	}
	if !ok {
		c.Violate("distinct-order:row-order-not-that-of-the-order-by-function:"+cls,
			fmt.Sprintf("%s:\n  %s\n  returns the table rows (numbered in file order) in the order %v; under no accepted reading and no admissible tie order do the values of %s ascend along this order",
				where, sql, out, k.F2.SQL()), k)
	}
}

func c17DistOrderRowText(r []rv.V) string {
	t := make([]string, len(r))
	for i, v := range r {
		t[i] = v.Key()
	}
	return "(" + strings.Join(t, ", ") + ")"
}

// c17DistOrderTables: every sequence of 0..maxLen pairwise different rows of the alphabet.
func c17DistOrderTables(alphabet [][3]string, minLen, maxLen int, fn func(rows [][3]string) bool) {
	used := make([]bool, len(alphabet))
	var rec func(cur [][3]string, n int) bool
	rec = func(cur [][3]string, n int) bool {
		if len(cur) == n {
			return fn(append([][3]string(nil), cur...))
		}
		for i, r := range alphabet {
			if used[i] {
				continue
			}
			used[i] = true
			ok := rec(append(cur, r), n)
			used[i] = false
			if !ok {
				return false
			}
		}
		return true
	}
	for n := minLen; n <= maxLen; n++ {
		if !rec(nil, n) {
			return
		}
	}
}

func c17DistOrderRun(c *core.Ctx) {
	if c17SkipFamily("distinct-order") {
		return
	}
	f1s, f2s := c17DistOrderF1(), c17DistOrderF2()
	type stmt struct {
		list   []string
		f1, f2 *anref.Call
		parsed []parser.Statement
	}
	var stmts []stmt
	for _, list := range c17DistOrderLists {
		for i := range f1s {
			for j := range f2s {
				stmts = append(stmts, stmt{list, &f1s[i], &f2s[j], mustParse(c17DistOrderSQL(list, &f1s[i], &f2s[j]))})
			}
		}
	}
	f := newC17Fam(c, "distinct-order", "c17distorder", false)
	defer f.close()
	var idx int64
	stopped := false
	visit := func(rows [][3]string) bool {
		idx++
		if !c.Mine(idx) {
			return true
		}
		if c.Expired() {
			c.Incomplete(fmt.Sprintf("time budget reached in family distinct-order at a table of %d rows", len(rows)))
			stopped = true
			return false
		}
		for _, s := range stmts {
			c17DistOrderOne(f, c17DistOrderCase{"distinct-order", rows, s.list, s.f1, s.f2}, s.parsed)
		}
		c.Add("distinct_order_tables", 1)
		return true
	}
	two := []string{"1", "2"}
	small := c17FamAlphabet(7, [3][]string{two, two, two})
	if !c.Thorough() {
		c17DistOrderTables(small, 0, 3, visit)
		return
	}
	c17DistOrderTables(small, 0, 4, visit)
	if !stopped {
		c17DistOrderTables(c17FamAlphabet(7, [3][]string{two, {"", "1", "2"}, two}), 1, 3, func(rows [][3]string) bool {
			for _, r := range rows {
				if r[1] == "" {
					return visit(rows)
				}
			}
			return true // without a NULL: run above
		})
	}
}

func c17DistOrderReplay(c *core.Ctx, payload json.RawMessage) bool {
	var k c17DistOrderCase
	if json.Unmarshal(payload, &k) != nil || k.Family != "distinct-order" || k.F1 == nil || k.F2 == nil {
		return false
	}
	fmt.Printf("replaying family distinct-order: table [%s] %s\n", c17FamKey(k.Rows), c17DistOrderSQL(k.List, k.F1, k.F2))
	f := newC17Fam(c, "distinct-order", "c17distorder-replay", false)
	defer f.close()
	c17DistOrderOne(f, k, nil)
	return true
}
