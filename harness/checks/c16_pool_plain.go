//go:build !verifx

package checks

func c16InPool(p any) (string, bool) { return "", false }
