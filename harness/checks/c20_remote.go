package checks

import (
	"encoding/json"
	"fmt"
	"net"
	"net/http"
	"strconv"
	"strings"
	"sync"

	"verif/harness/internal/core"
	"verif/harness/internal/drv"
)

// Extra family for C20: remote tables (http://...), the other kind of source a transaction keeps a copy of
// (Transaction.UrlCache, emptied at COMMIT / ROLLBACK). The "other process" is the server: a local HTTP server whose
// table has a new version at every download, reachable directly and through 301 / 302 / 307 redirects.
//
// Reference: inside one transaction every read of the same written address returns the version of its first read;
// the first read after COMMIT or ROLLBACK returns a version newer than every version seen before.
func init() {
	core.Extend("C20", "family remote: a local HTTP server whose table changes at every download, addressed directly, through a 301, a 302 and a 307 redirect, plainly and inside CSV(...) x every statement sequence up to length 4 (quick 3) over "+
		"{read of each address, COMMIT, ROLLBACK}; oracle: one version per written address inside a transaction, a newer one after its end", c20RemoteRun)
}

type c20RemoteServer struct {
	mu      sync.Mutex
	version int
	ln      net.Listener
}

func (s *c20RemoteServer) start() (string, error) {
	ln, err := net.Listen("tcp", "127.0.0.1:0")
	if err != nil {
		return "", err
	}
	s.ln = ln
	mux := http.NewServeMux()
	mux.HandleFunc("/data.csv", func(w http.ResponseWriter, r *http.Request) {
		s.mu.Lock()
		s.version++
		v := s.version
		s.mu.Unlock()
		w.Header().Set("Content-Type", "text/csv")
		fmt.Fprintf(w, "n\n%d\n", v)
	})
	for path, code := range map[string]int{"/moved.csv": http.StatusMovedPermanently, "/found.csv": http.StatusFound, "/temporary.csv": http.StatusTemporaryRedirect} {
		code := code
		mux.HandleFunc(path, func(w http.ResponseWriter, r *http.Request) { http.Redirect(w, r, "/data.csv", code) })
	}
	go http.Serve(ln, mux)
	return "http://" + ln.Addr().String(), nil
}

// statements; %s = base address
var c20RemoteAlphabet = []string{
	"SELECT n FROM URL::('%s/data.csv')",
	"SELECT n FROM URL::('%s/found.csv')",
	"SELECT n FROM URL::('%s/moved.csv')",
	"SELECT n FROM URL::('%s/temporary.csv')",
	"SELECT n FROM CSV(',', URL::('%s/found.csv'))",
	"COMMIT",
	"ROLLBACK",
}

type c20RemoteCase struct {
	Family string `json:"family"`
	Seq    []int  `json:"statements"`
}

func c20RemoteAddr(stmt string) string {
	i := strings.Index(stmt, "%s/")
	if i < 0 {
		return ""
	}
	return stmt[i+2 : strings.Index(stmt[i:], "'")+i]
}

func c20RemoteOne(c *core.Ctx, dir, base string, k c20RemoteCase) {
	drv.ClearDir(dir)
	env := drv.New(dir)
	defer env.Close()
	env.Tx.Flags.SetQuiet(true)
	seen := map[string]int{} // written address -> version of this transaction
	max := 0
	var trace []string
	reads := 0
	for _, si := range k.Seq {
		stmt := c20RemoteAlphabet[si]
		r := env.Exec(strings.ReplaceAll(stmt, "%s", base) + ";")
		if r.Panic != nil || r.Err != nil {
			c.Incomplete(fmt.Sprintf("family remote: %q fails: %v %v", stmt, r.Err, r.Panic))
			return
		}
		addr := c20RemoteAddr(stmt)
		if addr == "" {
			seen = map[string]int{}
			trace = append(trace, stmt)
			continue
		}
		reads++
		got := -1
		if len(r.Views) > 0 {
			if rows := drv.Rows(r.Views[len(r.Views)-1]); len(rows) == 1 && len(rows[0]) == 1 {
				got, _ = strconv.Atoi(c01AttrText(rows[0][0]))
			}
		}
		trace = append(trace, fmt.Sprintf("%s -> version %d", addr, got))
		if v, ok := seen[addr]; ok {
			if got != v {
				c.Violate("remote:second-read-in-one-transaction-sees-another-version:"+addr, fmt.Sprintf("statements %v: %s was read as version %d earlier in the same transaction, now as %d\n  %s", k.Seq, addr, v, got, strings.Join(trace, "\n  ")), k)
				return
			}
		} else {
			if got <= max {
				c.Violate("remote:first-read-of-a-transaction-sees-an-old-version:"+addr, fmt.Sprintf("statements %v: the first read of %s in this transaction returns version %d, version %d had been seen before\n  %s", k.Seq, addr, got, max, strings.Join(trace, "\n  ")), k)
				return
			}
			seen[addr] = got
		}
		if got > max {
			max = got
		}
	}
	c.Eval(fmt.Sprintf("remote|%v", k.Seq), reads >= 2)
}

func c20RemoteRun(c *core.Ctx) {
	if !c20Only("remote") {
		return
	}
	srv := &c20RemoteServer{}
	base, err := srv.start()
	if err != nil {
		c.Incomplete("family remote: no local listener: " + err.Error())
		return
	}
	defer srv.ln.Close()
	dir := core.Scratch("c20remote")
	maxLen := 3
	if c.Thorough() {
		maxLen = 4
	}
	n := len(c20RemoteAlphabet)
	var idx int64
	for l := 1; l <= maxLen; l++ {
		total := 1
		for i := 0; i < l; i++ {
			total *= n
		}
		for code := 0; code < total; code++ {
			idx++
			if !c.Mine(idx) {
				continue
			}
			seq := make([]int, l)
			x := code
			for i := range seq {
				seq[i] = x % n
				x /= n
			}
			c20RemoteOne(c, dir, base, c20RemoteCase{"remote", seq})
		}
	}
}

func c20RemoteReplay(c *core.Ctx, payload json.RawMessage) bool {
	var k c20RemoteCase
	if json.Unmarshal(payload, &k) != nil || k.Family != "remote" {
		return false
	}
	srv := &c20RemoteServer{}
	base, err := srv.start()
	if err != nil {
		fmt.Println("no local listener:", err)
		return true
	}
	defer srv.ln.Close()
	fmt.Printf("replaying family remote: %v\n", k.Seq)
	c20RemoteOne(c, core.Scratch("c20remote-replay"), base, k)
	return true
}
