//go:build verifx

package checks

import (
	"encoding/json"
	"fmt"
	"strings"

	"github.com/mithrandie/csvq/lib/query"

	"verif/harness/internal/core"
	"verif/harness/internal/gox"
)

// Extra family for C14: "evaluated repeatedly" includes many rows evaluated by several goroutines. The statements
// that compare whole records (DISTINCT, UNION, EXCEPT, INTERSECT, GROUP BY on two keys) read the table through
// per-record scratch space; evaluating one record must not change what the evaluation of another one sees.
// The statement is executed twice in one program, by 3 workers over 6 records, under every goroutine schedule with
// at most one non-default decision (every loop iteration and every expression evaluation is a scheduling point).
// Oracle: both executions give what the single-worker run gives.
func init() {
	core.Extend("C14", "family parallel-repeat: 7 record-comparing statements (DISTINCT on 2 columns, UNION, EXCEPT, INTERSECT, GROUP BY on 2 keys, IN (subquery), DISTINCT inside an aggregate) executed twice by 3 workers over 6 records, "+
		"all goroutine schedules with at most 1 non-default decision (loop iterations and expression evaluations are scheduling points); oracle: both executions equal the single-worker run", c14ParallelRun)
}

func c14ParallelScenarios() []goxScenario {
	t := csvTable("a,g,b", 6, func(i int) string {
		return fmt.Sprintf("%d,%s,%d", i+1, []string{"x", "y", "z", "y", "x", "w"}[i], (i*7)%5)
	})
	u := csvTable("a,g,c", 4, func(i int) string { return fmt.Sprintf("%d,%s,%d", i+1, []string{"y", "x", "q", "y"}[i], i*10) })
	files := map[string]string{"t.csv": t, "u.csv": u}
	var out []goxScenario
	for _, s := range []struct{ name, sql string }{
		{"distinct-2-columns", "SELECT DISTINCT g, b FROM t"},
		{"union-2-columns", "SELECT g, b FROM t UNION SELECT g, c FROM u"},
		{"except-2-columns", "SELECT g, a FROM t EXCEPT SELECT g, a FROM u"},
		{"intersect-2-columns", "SELECT g, a FROM t INTERSECT SELECT g, a FROM u"},
		{"group-by-2-keys", "SELECT g, b, COUNT(*) FROM t GROUP BY g, b"},
		{"in-subquery-2-columns", "SELECT a FROM t WHERE (g, a) IN (SELECT g, a FROM u)"},
		{"count-distinct", "SELECT g, COUNT(DISTINCT b), LISTAGG(DISTINCT b, ',') FROM t GROUP BY g"},
	} {
		out = append(out, goxScenario{Name: "repeat-" + s.name, Files: files, SQL: s.sql + "; " + s.sql + ";", CPU: 3})
	}
	return out
}

type c14ParallelPayload struct {
	Family   string      `json:"family"`
	Scenario goxScenario `json:"scenario"`
	Choices  []int       `json:"choices"`
}

func c14ParallelExplore(c *core.Ctx, sc goxScenario, replay []int) {
	prev := query.GetGoroutineManager().MinimumRequiredPerCore
	query.GetGoroutineManager().MinimumRequiredPerCore = 2
	gox.EvalPoints, gox.LoopPoints = true, true
	defer func() {
		query.GetGoroutineManager().MinimumRequiredPerCore = prev
		gox.EvalPoints, gox.LoopPoints = false, false
	}()
	dir := core.Scratch("c14parallel")
	want, _ := goxRunOnce(dir, sc, 1, false, nil)
	judge := func(choices []int, got string) {
		if got != want {
			c.Violate("parallel-repeat:"+sc.Name+":"+c12Signature("x", want, got)[2:], fmt.Sprintf("scenario %s %q with %d workers, choices %v:\n--- single worker:\n%s--- this schedule:\n%s", sc.Name, sc.SQL, sc.CPU, choices, want, got),
				c14ParallelPayload{"parallel-repeat", sc, choices})
		}
	}
	if replay != nil {
		got, _ := goxRunOnce(dir, sc, sc.CPU, true, replay)
		fmt.Printf("replayed schedule equal to the single-worker run: %v\n", got == want)
		judge(replay, got)
		return
	}
	e := &gox.Explorer{MaxPreempt: 1, MaxMapDev: 0, MaxSwitch: 1, Stop: c.Expired}
	var got string
	nontrivial := int64(0)
	e.ExploreRunner(func(prefix []int) gox.Execution {
		var ex gox.Execution
		got, ex = goxRunOnce(dir, sc, sc.CPU, true, prefix)
		return ex
	}, func(choices []int, ex gox.Execution) {
		if ex.Tasks > 1 {
			nontrivial++
		}
		judge(choices, got)
	})
	c.EvalN(int64(e.Executions), nontrivial)
	c.Observe("parallel_repeat_family", fmt.Sprintf("%s: %d schedules, %d tasks max", sc.Name, e.Executions, e.MaxTasks))
	if e.Capped {
		c.Incomplete("family parallel-repeat, scenario " + sc.Name + ": time budget reached before all schedules within the bound were run")
	}
	if e.Divergences > 0 {
		c.Incomplete(fmt.Sprintf("family parallel-repeat, scenario %s: %d executions diverged from their choice vector", sc.Name, e.Divergences))
	}
}

func c14ParallelRun(c *core.Ctx) {
	for i, sc := range c14ParallelScenarios() {
		if !c.Mine(int64(i)) {
			continue
		}
		c14ParallelExplore(c, sc, nil)
	}
}

func c14ParallelReplay(c *core.Ctx, payload json.RawMessage) bool {
	var p c14ParallelPayload
	if json.Unmarshal(payload, &p) != nil || p.Family != "parallel-repeat" {
		return false
	}
	fmt.Printf("replaying family parallel-repeat, scenario %s\n", strings.TrimSpace(p.Scenario.Name))
	c14ParallelExplore(c, p.Scenario, p.Choices)
	return true
}
