//go:build verifx

package checks

import (
	"encoding/json"
	"fmt"

	"verif/harness/internal/core"
)

// Extra family for C14: "evaluated repeatedly" includes many rows evaluated by several goroutines. The statements
// that compare whole records (DISTINCT, UNION, EXCEPT, INTERSECT, GROUP BY on two keys) read the table through
// per-record scratch space; evaluating one record must not change what the evaluation of another one sees.
// The statement is executed twice in one program, by 3 workers over 6 records, under every goroutine schedule with
// at most one non-default decision (every loop iteration and every expression evaluation is a scheduling point).
// Oracle: both executions give what the single-worker run gives.
func init() {
	core.Extend("C14", "family parallel-repeat: 7 record-comparing statements (DISTINCT on 2 columns, UNION, EXCEPT, INTERSECT, GROUP BY on 2 keys, IN (subquery), DISTINCT inside an aggregate) executed twice by 3 workers over 6 records, "+
		"all goroutine schedules with at most 1 non-default decision (loop iterations and expression evaluations are scheduling points); oracle: both executions equal the single-worker run", c14ParallelRun)
}

func c14ParallelScenarios() []goxScenario {
	t := csvTable("a,g,b", 6, func(i int) string {
		return fmt.Sprintf("%d,%s,%d", i+1, []string{"x", "y", "z", "y", "x", "w"}[i], (i*7)%5)
	})
	u := csvTable("a,g,c", 4, func(i int) string { return fmt.Sprintf("%d,%s,%d", i+1, []string{"y", "x", "q", "y"}[i], i*10) })
	files := map[string]string{"t.csv": t, "u.csv": u}
	var out []goxScenario
	for _, s := range []struct{ name, sql string }{
		{"distinct-2-columns", "SELECT DISTINCT g, b FROM t"},
		{"union-2-columns", "SELECT g, b FROM t UNION SELECT g, c FROM u"},
		{"except-2-columns", "SELECT g, a FROM t EXCEPT SELECT g, a FROM u"},
		{"intersect-2-columns", "SELECT g, a FROM t INTERSECT SELECT g, a FROM u"},
		{"group-by-2-keys", "SELECT g, b, COUNT(*) FROM t GROUP BY g, b"},
		{"in-subquery-2-columns", "SELECT a FROM t WHERE (g, a) IN (SELECT g, a FROM u)"},
		{"count-distinct", "SELECT g, COUNT(DISTINCT b), LISTAGG(DISTINCT b, ',') FROM t GROUP BY g"},
	} {
		out = append(out, goxScenario{Name: "repeat-" + s.name, Files: files, SQL: s.sql + "; " + s.sql + ";", CPU: 3})
	}
	return out
}

func c14ParallelRun(c *core.Ctx) { goxFamilyRun(c, "parallel-repeat", c14ParallelScenarios(), true) }

func c14ParallelReplay(c *core.Ctx, payload json.RawMessage) bool {
	return goxFamilyReplay(c, "parallel-repeat", true, payload)
}
