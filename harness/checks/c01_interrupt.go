package checks

import (
	"encoding/json"
	"fmt"
	"path/filepath"
	"strings"

	"verif/harness/internal/core"
	"verif/harness/internal/drv"
	"verif/harness/internal/procx"
)

// Extra family for C01: the interrupt as an ending. A real csvq process runs a procedure without a COMMIT statement
// and is sent SIGINT / SIGTERM before every point that precedes the first write of the automatic commit (file-system
// steps, statement boundaries and every look at the cancellation, as in C11's enumeration). The run then ends by the
// interrupt: every file must be as it was at the start and no created file may exist - whatever the tables hold
// (tables emptied by DELETE, new tables without records: the writers of a COMMIT look for a cancellation only while
// they walk the records).
func init() {
	core.Extend("C01", "family interrupt: 9 procedures without COMMIT (updates, deletion of every row, created tables with and without records, a temporary table, several tables) x SIGINT / SIGTERM before every point that precedes the first write of the automatic commit; "+
		"oracle: the process reports the interrupt and the directory is byte-identical to the initial one", c01InterruptRun)
}

func c01InterruptPrograms() []c11Program {
	t := "a,b\n1,x\n2,y\n3,z\n"
	u := "a,c\n1,p\n2,q\n"
	tu := map[string]string{"t.csv": t, "u.csv": u}
	return []c11Program{
		{Name: "update", Files: tu, Args: []string{"UPDATE t SET b = 'w' WHERE a = 1"}},
		{Name: "delete-all", Files: tu, Args: []string{"DELETE FROM t"}},
		{Name: "delete-all-then-read", Files: tu, Args: []string{"DELETE FROM t; SELECT COUNT(*) FROM t; SELECT * FROM u;"}},
		{Name: "delete-all-2-tables", Files: tu, Args: []string{"DELETE FROM t; DELETE FROM u;"}},
		{Name: "create-empty", Files: tu, Args: []string{"CREATE TABLE `n.csv` (c1, c2);"}},
		{Name: "create-empty-delete-all", Files: tu, Args: []string{"CREATE TABLE `n.csv` (c1, c2); DELETE FROM u;"}},
		{Name: "create-insert-update", Files: tu, Args: []string{"CREATE TABLE `n.csv` (c1); INSERT INTO n VALUES (1); UPDATE t SET b = 'w';"}},
		{Name: "temporary-table-and-delete-all", Files: tu, Args: []string{"DECLARE v VIEW (x) AS SELECT a FROM t; DELETE FROM t WHERE a IN (SELECT x FROM v);"}},
		{Name: "alter-empty", Files: map[string]string{"e.csv": "a,b\n", "u.csv": u}, Args: []string{"ALTER TABLE e ADD c; ALTER TABLE e DROP a;"}},
		{Name: "jsonl-delete-all", Files: map[string]string{"j.jsonl": "{\"a\":1}\n{\"a\":2}\n", "u.csv": u}, Args: []string{"DELETE FROM j"}},
		{Name: "ltsv-update-fixed-delete-all", Files: map[string]string{"l.ltsv": "a:1\tb:x\n", "f.txt": "a  b\n1  x\n"}, Args: []string{"UPDATE l SET b = 'y'; DELETE FROM FIXED('[3, 6]', `f.txt`);"}},
	}
}

type c01IntPayload struct {
	Family  string     `json:"family"`
	Program c11Program `json:"program"`
	K       int        `json:"point"`
	Signal  string     `json:"signal"`
}

func c01InterruptOne(c *core.Ctx, dir string, p c11Program, k int, sig string, point string) {
	out := c11Exec(dir, p, []string{fmt.Sprintf("VERIF_SIGNAL_AT=%d:%s", k, sig)})
	snap := drv.DirSnapshot(dir)
	payload := c01IntPayload{"interrupt", p, k, sig}
	c.Eval(fmt.Sprintf("interrupt|%s|%d|%s", p.Name, k, sig), true)
	c.Add("cli_processes", 1)
	where := fmt.Sprintf("program %s %q, SIG%s before point %d (%s)", p.Name, p.Args, sig, k, point)
	if out.Killed {
		c.Violate("interrupt:hang:"+p.Name, where+": the process did not end within 40 s", payload)
		return
	}
	var diff []string
	for n, b := range p.Files {
		if got, ok := snap[n]; !ok {
			diff = append(diff, n+" is gone")
		} else if got != b {
			diff = append(diff, fmt.Sprintf("%s holds %q, it held %q", n, got, b))
		}
	}
	for n := range snap {
		if _, ok := p.Files[n]; !ok {
			diff = append(diff, n+" exists")
		}
	}
	if out.Exit == 0 {
		c.Violate("interrupt:run-ends-normally-after-an-interrupt-that-preceded-its-commit:"+p.Name, fmt.Sprintf("%s: exit code 0 (%s)", where, clip(out.Stdout+out.Stderr)), payload)
		return
	}
	if len(diff) > 0 {
		c.Violate("interrupt:files-changed-by-an-interrupted-run:"+p.Name, fmt.Sprintf("%s: the run ends with exit code %d (%s) and yet: %s", where, out.Exit, clip(strings.TrimSpace(out.Stderr)), strings.Join(diff, "; ")), payload)
	}
}

func c01InterruptRun(c *core.Ctx) {
	if c01FamilyOff("interrupt") {
		return
	}
	dir := core.Scratch("c01int")
	var idx int64
	for _, p := range c01InterruptPrograms() {
		p.Base = p.Name
		tr := filepath.Join(filepath.Dir(dir), "c01int-trace-"+p.Name+".txt")
		ref := c11Exec(dir, p, []string{"VERIF_TRACE=" + tr})
		if ref.Exit != 0 {
			c.Violate("harness:interrupt-program-fails-undisturbed:"+p.Name, fmt.Sprintf("%q exits %d: %s", p.Args, ref.Exit, clip(ref.Stderr)), c01IntPayload{"interrupt", p, 0, ""})
			continue
		}
		// the automatic commit starts writing at the first truncate
		commitStart := len(ref.Trace) + 1
		for _, tp := range ref.Trace {
			if tp.Name == "truncate" {
				commitStart = tp.K
				break
			}
		}
		if c.Shard == 0 {
			c.Observe("interrupt_programs", fmt.Sprintf("%s: %d points before the commit's first write, %d in all", p.Name, commitStart-1, len(ref.Trace)))
		}
		for _, tp := range ref.Trace {
			if tp.K >= commitStart {
				break
			}
			for _, sig := range []string{"INT", "TERM"} {
				idx++
				if !c.Mine(idx) {
					continue
				}
				if c.Expired() {
					c.Incomplete("time budget reached in family interrupt")
					return
				}
				c01InterruptOne(c, dir, p, tp.K, sig, tp.String())
			}
		}
	}
}

func c01InterruptReplay(c *core.Ctx, payload json.RawMessage) bool {
	var k c01IntPayload
	if json.Unmarshal(payload, &k) != nil || k.Family != "interrupt" {
		return false
	}
	fmt.Printf("replaying family interrupt: %s, SIG%s before point %d\n", k.Program.Name, k.Signal, k.K)
	c01InterruptOne(c, core.Scratch("c01int-replay"), k.Program, k.K, k.Signal, "")
	return true
}

var _ = procx.Binary
