package checks

// C17 — analytic functions equal their per-partition, per-frame definition.
//
// Bounded-exhaustive: a catalogue of analytic calls (function form x PARTITION BY list x ORDER BY list x
// ROWS frame) over the columns p, o, v of a table t(id, p, o, v); every call is executed by the real csvq
// on every small table over the columns the call refers to (cell values NULL, 1, 2 loaded from a CSV
// file) and its result column is compared with internal/anref, the definitional model written from the
// manual.  Tie order under ORDER BY (and the row order of a partition without ORDER BY) is free: a column
// is accepted when, for every partition, SOME order of the partition's rows consistent with the ORDER BY
// reproduces it.
//
// Signatures: mismatch:<function form>|<no-order|order-no-frame|explicit-frame>, error:/fatal:/panic:/syntax: with the
// same suffix, rows-or-other-columns-changed, result-row-of-wrong-width, and four narrow ones for behaviours of the
// unchanged tree that were triaged as csvq defects (a mismatch gets such a name only when a model of exactly that
// defect reproduces csvq's column):
//
//	defect:COUNT(*)-OVER-rejected-as-not-available            analytic_function.go:71-73, Args[0] of the shared syntax tree overwritten
//	defect:LAST_VALUE-frame-laid-over-reversed-partition      LastValue.Execute reverses the partition, so PRECEDING/FOLLOWING swap
//	defect:NTH_VALUE-returns-last-examined-row-when-frame-has-fewer-than-n-values   setNthValue assigns val on every row
//	defect:frame-ending-before-it-starts-fatal-makeslice      windowValues: make(.., 0, High-Low+1) with a negative capacity

import (
	"encoding/json"
	"fmt"
	"os"
	"path/filepath"
	"runtime/pprof"
	"sort"
	"strconv"
	"strings"
	"time"

	"github.com/mithrandie/csvq/lib/parser"
	"github.com/mithrandie/csvq/lib/query"

	"verif/harness/internal/anref"
	"verif/harness/internal/core"
	"verif/harness/internal/drv"
	"verif/harness/internal/rv"
)

func init() {
	core.Register(&core.Check{
		ID:    "C17",
		Level: "exploration",
		Rule: "one case = one (table, analytic call) pair. Calls: the catalogue of the tier (function form x partition list x order list x ROWS frame, coverage.catalogue_calls). " +
			"Tables: for a call that mentions k of the columns p,o,v, every table over those k columns with cells in {NULL,1,2} within coverage.bounds " +
			"(all row sequences up to a length, then all row multisets in ascending and descending arrangement); columns the call does not mention hold a fixed cyclic pattern. " +
			"Every pair is executed inside a SELECT of up to 12 calls; calls without ORDER BY additionally on every three-column table behind an ordered call in the same SELECT; " +
			"the smallest tables (up to 2 rows, 1 row for calls mentioning all three columns) also with one call per freshly parsed SELECT; " +
			"a family of 24..52-row tables run with --cpu 4 reaches the multi-goroutine partition loop. Pairs are enumerated without repetition; " +
			"non-trivial = the call's PARTITION BY puts at least two rows of the table into one partition",
		Assume: []string{
			"cell values are the CSV texts 1, 2 (parallel family: 1..52) and the empty field (NULL); richer value classes are the subject of C04/C06/C07",
			"reference model internal/anref written from the manual pages analytic-functions, aggregate-functions, user-defined-function, select-query (ORDER BY); " +
				"where the manual is silent (default frame with ORDER BY, ranking functions without ORDER BY, PERCENT_RANK of a single row, offset counting of LAG/LEAD IGNORE NULLS) every reading listed in REPORT.md is accepted",
			"tie order under ORDER BY is free; floats are compared to a relative 1e-9; JSON_AGG is compared after re-encoding",
			"TZ=UTC, default flags, in-process csvq (lib/query); the CLI's text encoding of results is not exercised",
		},
		Run:            c17Run,
		Replay:         c17Replay,
		QuickBudget:    240 * time.Second,
		ThoroughBudget: 25 * time.Minute,
	})
}

// ---- catalogue of calls -------------------------------------------------------------------------

// value 0 is NULL, value k is the CSV text of k; the exhaustive tables use 0..2, the parallel family more
var c17Vals = func() []rv.V {
	vs := []rv.V{rv.N()}
	for i := 1; i <= 99; i++ {
		vs = append(vs, rv.S(strconv.Itoa(i)))
	}
	return vs
}()

// c17Frames: every windowing clause of the manual's grammar with the given offsets.
func c17Frames(offs []int) []*anref.Frame {
	lows := []anref.Bound{{K: anref.UnbPrec}}
	highs := []anref.Bound{{K: anref.UnbFoll}}
	rel := []anref.Bound{}
	for _, o := range offs {
		rel = append(rel, anref.Bound{K: anref.Prec, N: o})
	}
	rel = append(rel, anref.Bound{K: anref.Cur})
	for _, o := range offs {
		rel = append(rel, anref.Bound{K: anref.Foll, N: o})
	}
	lows = append(lows, rel...)
	highs = append(highs, rel...)
	var fs []*anref.Frame
	for _, l := range lows { // short form: ROWS window_position
		if l.K == anref.Foll {
			continue // the grammar of the short form has no FOLLOWING
		}
		fs = append(fs, &anref.Frame{Low: l})
	}
	for _, l := range lows {
		for _, h := range highs {
			h := h
			fs = append(fs, &anref.Frame{Low: l, High: &h})
		}
	}
	return fs
}

func c17ZeroOffsetFrames() []*anref.Frame {
	p0, f0, p1 := anref.Bound{K: anref.Prec, N: 0}, anref.Bound{K: anref.Foll, N: 0}, anref.Bound{K: anref.Prec, N: 1}
	return []*anref.Frame{{Low: p0}, {Low: p0, High: &f0}, {Low: p1, High: &f0}}
}

func c17ReducedFrames() []*anref.Frame {
	p1, f1, cur, uf := anref.Bound{K: anref.Prec, N: 1}, anref.Bound{K: anref.Foll, N: 1}, anref.Bound{K: anref.Cur}, anref.Bound{K: anref.UnbFoll}
	return []*anref.Frame{{Low: p1}, {Low: p1, High: &f1}, {Low: cur, High: &uf}, {Low: f1, High: &uf}}
}

// c17FrameCanInvert: is there a row position (partitions up to 6 rows) at which the raw high bound lies more
// than one row before the raw low bound?
func c17FrameCanInvert(f *anref.Frame) bool {
	pos := func(b anref.Bound, i, n int) int {
		switch b.K {
		case anref.UnbPrec:
			return 0
		case anref.Prec:
			return i - b.N
		case anref.Cur:
			return i
		case anref.Foll:
			return i + b.N
		}
		return n - 1
	}
	for n := 1; n <= 6; n++ {
		for i := 0; i < n; i++ {
			hi := i
			if f.High != nil {
				hi = pos(*f.High, i, n)
			}
			if hi-pos(f.Low, i, n)+1 < 0 {
				return true
			}
		}
	}
	return false
}

var (
	c17OrdAsc  = []anref.OrdItem{{Col: anref.ColO}}
	c17OrdDesc = []anref.OrdItem{{Col: anref.ColO, Desc: true}}
)

func c17ExtraOrders() [][]anref.OrdItem {
	return [][]anref.OrdItem{
		{{Col: anref.ColO, Nulls: 2}},
		{{Col: anref.ColO, Desc: true, Nulls: 1}},
		{{Col: anref.ColO}, {Col: anref.ColV, Desc: true}},
	}
}

// c17Calls lists every call of the tier.
//
//	plain functions (no frame):  x {(), PARTITION BY p} x {no order, o, o DESC}
//	windowed functions:          x {(), PARTITION BY p} x ({no order} + {o, o DESC} x ({no frame} + frames))
//	   quick:    probes (UCAT, FIRST/LAST_VALUE, NTH_VALUE(v,2), each with IGNORE NULLS where it exists, COUNT, SUM) get
//	             every frame of the grammar with offset 1 (19 frames), the other forms 4 frames
//	   thorough: probes get every frame with offsets 1 and 2 (40 frames) and 3 frames with offset 0; the other forms the
//	             19 frames when unpartitioned and 4 frames with PARTITION BY p
//	   thorough: plain functions and probes also with PARTITION BY p, o and with the orders o NULLS LAST,
//	             o DESC NULLS FIRST, (o, v DESC), on 4 frames
func c17Calls(thorough bool) (calls []*anref.Call, countStar []*anref.Call) {
	var plain, probes, others []anref.Call
	for _, fn := range []string{"ROW_NUMBER", "RANK", "DENSE_RANK", "CUME_DIST", "PERCENT_RANK"} {
		plain = append(plain, anref.Call{Fn: fn})
	}
	ntiles := []int{1, 2, 3}
	if thorough {
		ntiles = []int{1, 2, 3, 4, 5, 7}
	}
	for _, n := range ntiles {
		plain = append(plain, anref.Call{Fn: "NTILE", N: n})
	}
	lagOffs := []int{0, 1, 2}
	if thorough {
		lagOffs = []int{0, 1, 2, 5}
	}
	for _, fn := range []string{"LAG", "LEAD"} {
		for _, ign := range []bool{false, true} {
			plain = append(plain, anref.Call{Fn: fn, IgnoreNulls: ign})
			for _, o := range lagOffs {
				plain = append(plain, anref.Call{Fn: fn, IgnoreNulls: ign, HasOffset: true, Offset: o})
				if thorough || o == 1 || o == 2 {
					plain = append(plain, anref.Call{Fn: fn, IgnoreNulls: ign, HasOffset: true, Offset: o, HasDefault: true, Default: rv.S("d")})
				}
			}
		}
	}
	plain = append(plain,
		anref.Call{Fn: "LISTAGG"}, anref.Call{Fn: "LISTAGG", HasSep: true, Sep: ","}, anref.Call{Fn: "LISTAGG", Distinct: true, HasSep: true, Sep: ","},
		anref.Call{Fn: "JSON_AGG"}, anref.Call{Fn: "JSON_AGG", Distinct: true})

	probes = append(probes, anref.Call{Fn: "UCAT"})
	for _, fn := range []string{"FIRST_VALUE", "LAST_VALUE"} {
		probes = append(probes, anref.Call{Fn: fn}, anref.Call{Fn: fn, IgnoreNulls: true})
	}
	probes = append(probes, anref.Call{Fn: "NTH_VALUE", N: 2}, anref.Call{Fn: "NTH_VALUE", N: 2, IgnoreNulls: true},
		anref.Call{Fn: "COUNT"}, anref.Call{Fn: "SUM"})

	nths := []int{1, 3}
	if thorough {
		nths = []int{1, 3, 5}
	}
	for _, n := range nths {
		others = append(others, anref.Call{Fn: "NTH_VALUE", N: n}, anref.Call{Fn: "NTH_VALUE", N: n, IgnoreNulls: true})
	}
	for _, fn := range []string{"MIN", "MAX", "AVG", "MEDIAN", "VAR", "VARP", "STDEV", "STDEVP"} {
		others = append(others, anref.Call{Fn: fn})
	}
	for _, fn := range []string{"COUNT", "SUM", "AVG"} {
		others = append(others, anref.Call{Fn: fn, Distinct: true})
	}
	others = append(others, anref.Call{Fn: "UCAT", Distinct: true}, anref.Call{Fn: "UCAT", HasSep: true, Sep: "+"}, anref.Call{Fn: "UCAT", SepCol: anref.ColO + 1})

	add := func(base anref.Call, part []int, order []anref.OrdItem, fr *anref.Frame) {
		c := base
		c.Part, c.Order, c.Frame = part, order, fr
		calls = append(calls, &c)
	}
	for _, part := range [][]int{nil, {anref.ColP}} {
		for _, b := range plain {
			add(b, part, nil, nil)
			add(b, part, c17OrdAsc, nil)
			add(b, part, c17OrdDesc, nil)
		}
		probeFrames, otherFrames := c17Frames([]int{1}), c17ReducedFrames()
		if thorough {
			probeFrames = append(c17Frames([]int{1, 2}), c17ZeroOffsetFrames()...)
			if part == nil {
				otherFrames = c17Frames([]int{1})
			}
		}
		for wi, list := range [][]anref.Call{probes, others} {
			frames := probeFrames
			if wi == 1 {
				frames = otherFrames
			}
			for _, b := range list {
				add(b, part, nil, nil)
				for _, o := range [][]anref.OrdItem{c17OrdAsc, c17OrdDesc} {
					add(b, part, o, nil)
					for _, fr := range frames {
						add(b, part, o, fr)
					}
				}
			}
		}
	}
	if thorough {
		po := []int{anref.ColP, anref.ColO}
		type combo struct {
			part  []int
			order []anref.OrdItem
		}
		var combos []combo
		for _, o := range c17ExtraOrders() {
			combos = append(combos, combo{nil, o}, combo{[]int{anref.ColP}, o}, combo{po, o})
		}
		combos = append(combos, combo{po, nil}, combo{po, c17OrdAsc}, combo{po, c17OrdDesc})
		for _, cb := range combos {
			for _, b := range plain {
				add(b, cb.part, cb.order, nil)
			}
			for _, b := range probes {
				add(b, cb.part, cb.order, nil)
				if cb.order != nil {
					for _, fr := range c17ReducedFrames() {
						add(b, cb.part, cb.order, fr)
					}
				}
			}
		}
	}
	// COUNT(*) OVER: the manual gives it a partition clause only
	countStar = append(countStar, &anref.Call{Fn: "COUNT", Star: true}, &anref.Call{Fn: "COUNT", Star: true, Part: []int{anref.ColP}})
	return calls, countStar
}

// c17Refs: bit c is set when the call mentions column c.
func c17Refs(c *anref.Call) int {
	m := 0
	for _, p := range c.Part {
		m |= 1 << p
	}
	for _, o := range c.Order {
		m |= 1 << o.Col
	}
	switch c.Fn {
	case "ROW_NUMBER", "RANK", "DENSE_RANK", "CUME_DIST", "PERCENT_RANK", "NTILE":
	default:
		if !c.Star {
			m |= 1 << anref.ColV
		}
	}
	if c.SepCol > 0 {
		m |= 1 << (c.SepCol - 1)
	}
	return m
}

const c17PackSize = 12

// a group: the calls that mention the same set of columns, packed into SELECTs.
type c17Group struct {
	mask   int
	cols   []int
	packs  [][]*anref.Call
	primed []bool // pack i starts with a primer call that is not counted (it is a case of another pack)
	parsed [][]parser.Statement
}

func c17PackSQL(calls []*anref.Call) string {
	cols := make([]string, len(calls))
	for i, c := range calls {
		cols[i] = c.SQL() + " AS c" + strconv.Itoa(i)
	}
	return "SELECT id, p, o, v, " + strings.Join(cols, ", ") + " FROM t"
}

func c17Groups(thorough bool) []*c17Group {
	calls, star := c17Calls(thorough)
	gs := make([]*c17Group, 8)
	for m := range gs {
		g := &c17Group{mask: m}
		for c := 0; c < 3; c++ {
			if m&(1<<c) != 0 {
				g.cols = append(g.cols, c)
			}
		}
		// Calls whose frame can have its high bound more than one row before its low bound are packed apart from
		// the rest: on the unchanged tree they end in a Fatal Error (a finding of this check) which fails the whole
		// SELECT, and every failed pack is re-run call by call. COUNT(*) likewise.
		var normal, apart, stars []*anref.Call
		for _, c := range calls {
			if c17Refs(c) != m {
				continue
			}
			if c.Frame != nil && c17FrameCanInvert(c.Frame) {
				apart = append(apart, c)
			} else {
				normal = append(normal, c)
			}
		}
		for _, c := range star {
			if c17Refs(c) == m {
				stars = append(stars, c)
			}
		}
		for _, l := range [][]*anref.Call{normal, apart, stars} {
			for i := 0; i < len(l); i += c17PackSize {
				j := i + c17PackSize
				if j > len(l) {
					j = len(l)
				}
				g.packs = append(g.packs, l[i:j])
				g.primed = append(g.primed, false)
			}
		}
		if m == 7 {
			// Mixed SELECTs: the calls without ORDER BY (which the grouping above keeps among themselves) run on the
			// three-column tables behind an ordered, partitioned call, so that whatever the ordered call leaves
			// behind in the view (sort keys, row order, per-cell caches) is in place when they are evaluated.
			primer := &anref.Call{Fn: "DENSE_RANK", Part: []int{anref.ColP}, Order: c17OrdDesc}
			var unordered []*anref.Call
			for _, c := range calls {
				if len(c.Order) == 0 && c17Refs(c) != 7 {
					unordered = append(unordered, c)
				}
			}
			for i := 0; i < len(unordered); i += c17PackSize - 1 {
				j := i + c17PackSize - 1
				if j > len(unordered) {
					j = len(unordered)
				}
				g.packs = append(g.packs, append([]*anref.Call{primer}, unordered[i:j]...))
				g.primed = append(g.primed, true)
			}
		}
		gs[m] = g
	}
	return gs
}

const c17UCAT = `DECLARE ucat AGGREGATE (list, @sep DEFAULT '|') AS
BEGIN
  VAR @r := '';
  VAR @f;
  WHILE @f IN list DO
    @r := @r || COALESCE(@f, 'N') || @sep;
  END WHILE;
  RETURN @r;
END;`

// ---- tables -------------------------------------------------------------------------------------

type c17Table [][3]int // indexes into c17Vals

func (t c17Table) rows() []anref.Row {
	rs := make([]anref.Row, len(t))
	for i, r := range t {
		rs[i] = anref.Row{ID: i + 1, C: [3]rv.V{c17Vals[r[0]], c17Vals[r[1]], c17Vals[r[2]]}}
	}
	return rs
}

func (t c17Table) csv() string {
	var sb strings.Builder
	sb.WriteString("id,p,o,v\n")
	for i, r := range t {
		sb.WriteString(strconv.Itoa(i + 1))
		for _, x := range r {
			sb.WriteByte(',')
			if x > 0 {
				sb.WriteString(c17Vals[x].S)
			}
		}
		sb.WriteByte('\n')
	}
	return sb.String()
}

func (t c17Table) key() string {
	var sb strings.Builder
	for i, r := range t {
		if i > 0 {
			sb.WriteByte(' ')
		}
		for k, x := range r {
			if k > 0 {
				sb.WriteByte(',')
			}
			if x == 0 {
				sb.WriteByte('N')
			} else {
				sb.WriteString(c17Vals[x].S)
			}
		}
	}
	return sb.String()
}

// row kind number -> table row for a group: digit j (base 3) of the kind is the value of the group's j-th
// column; a column the group's calls do not mention gets the cyclic pattern 1, 2, NULL, 1, ... by row position.
func (g *c17Group) row(kind, pos int) [3]int {
	r := [3]int{(pos + 1) % 3, (pos + 1) % 3, (pos + 1) % 3}
	for _, c := range g.cols {
		r[c] = kind % 3
		kind /= 3
	}
	return r
}

type c17Bound struct {
	SeqLen   int // all sequences of 0..SeqLen rows
	MultiLen int // all multisets of SeqLen+1..MultiLen rows in ascending and, unless OneArr, descending arrangement
	OneArr   bool
	// thorough, three-column groups: all multisets of MultiLen+1..NarrowLen rows whose p is NULL or 1 (ascending arrangement)
	NarrowLen int
}

func c17BoundsOf(thorough bool) [4]c17Bound { // indexed by the number of columns the calls mention
	b := [4]c17Bound{{SeqLen: 6, MultiLen: 6}, {SeqLen: 5, MultiLen: 5}, {SeqLen: 3, MultiLen: 4}, {SeqLen: 2, MultiLen: 3, OneArr: true}}
	if thorough {
		b = [4]c17Bound{{SeqLen: 8, MultiLen: 8}, {SeqLen: 6, MultiLen: 7}, {SeqLen: 3, MultiLen: 5}, {SeqLen: 2, MultiLen: 3, NarrowLen: 4}}
	}
	if s := os.Getenv("C17_BOUNDS"); s != "" { // experimentation only: "seq,multi,narrow" for every group
		var x c17Bound
		fmt.Sscanf(s, "%d,%d,%d", &x.SeqLen, &x.MultiLen, &x.NarrowLen)
		b = [4]c17Bound{x, x, x, x}
	}
	return b
}

// tables enumerates the group's tables, simplest first; fn returns false to stop.
func (g *c17Group) tables(b c17Bound, fn func(t c17Table) bool) {
	kinds := 1
	for range g.cols {
		kinds *= 3
	}
	build := func(ks []int) c17Table {
		t := make(c17Table, len(ks))
		for i, k := range ks {
			t[i] = g.row(k, i)
		}
		return t
	}
	var seq func(ks []int, n int) bool
	seq = func(ks []int, n int) bool {
		if len(ks) == n {
			return fn(build(ks))
		}
		for k := 0; k < kinds; k++ {
			if !seq(append(ks, k), n) {
				return false
			}
		}
		return true
	}
	for n := 0; n <= b.SeqLen; n++ {
		if !seq(nil, n) {
			return
		}
	}
	var multi func(ks []int, from, n int, narrow bool) bool
	multi = func(ks []int, from, n int, narrow bool) bool {
		if len(ks) == n {
			if !fn(build(ks)) {
				return false
			}
			if !narrow && !b.OneArr && ks[0] != ks[n-1] {
				rev := make([]int, n)
				for i := range ks {
					rev[n-1-i] = ks[i]
				}
				return fn(build(rev))
			}
			return true
		}
		for k := from; k < kinds; k++ {
			if narrow && g.mask&1 != 0 && k%3 == 2 {
				continue // p is the first digit; narrow tables keep p in {NULL, 1}
			}
			if !multi(append(ks, k), k, n, narrow) {
				return false
			}
		}
		return true
	}
	for n := b.SeqLen + 1; n <= b.MultiLen; n++ {
		if !multi(nil, 0, n, false) {
			return
		}
	}
	for n := b.MultiLen + 1; n <= b.NarrowLen; n++ {
		if !multi(nil, 0, n, true) {
			return
		}
	}
}

// ---- running ------------------------------------------------------------------------------------

type c17Payload struct {
	Table    c17Table    `json:"table"`
	Call     *anref.Call `json:"call"`
	SQL      string      `json:"sql"`
	Mode     string      `json:"mode"` // single | packed | parallel
	Thorough bool        `json:"thorough"`
	Group    int         `json:"group"`
	Pack     int         `json:"pack"`
	CPU      int         `json:"cpu"`
}

type c17Runner struct {
	c        *core.Ctx
	env      *drv.Env
	dir      string
	thorough bool
	groups   []*c17Group
	cpu      int
	mode     string
	onlySQL  string // replay: within a packed SELECT only this call's column is judged
}

func newC17Runner(c *core.Ctx, thorough bool, name string) *c17Runner {
	r := &c17Runner{c: c, dir: core.Scratch(name), thorough: thorough, mode: "packed"}
	r.groups = c17Groups(thorough)
	for _, g := range r.groups {
		g.parsed = make([][]parser.Statement, len(g.packs))
		for i, p := range g.packs {
			g.parsed[i] = mustParse(c17PackSQL(p))
		}
	}
	r.env = drv.New(r.dir)
	r.cpu = r.env.Tx.Flags.CPU
	if res := r.env.Exec(c17UCAT); res.Err != nil || res.Panic != nil {
		panic(fmt.Sprint("C17: cannot declare the user defined aggregate: ", res.Err, res.Panic))
	}
	return r
}

func (r *c17Runner) load(csv string) {
	_ = r.env.Tx.ReleaseResources()
	if err := os.WriteFile(filepath.Join(r.dir, "t.csv"), []byte(csv), 0644); err != nil {
		panic(err)
	}
}

type c17Outcome struct {
	rows  [][]rv.V
	err   error
	panic any
}

func (r *c17Runner) exec(st []parser.Statement) (o c17Outcome) {
	defer func() {
		if p := recover(); p != nil {
			o.panic = p
		}
	}()
	_, err := r.env.Proc.Execute(query.ContextForStoringResults(r.env.Ctx), st)
	if err != nil {
		o.err = err
		return
	}
	vs := r.env.Tx.SelectedViews
	if len(vs) == 0 {
		o.err = fmt.Errorf("harness: no result view")
		return
	}
	o.rows = drv.Rows(vs[len(vs)-1])
	return
}

func (r *c17Runner) payload(t c17Table, call *anref.Call, g *c17Group, pack int) c17Payload {
	return c17Payload{Table: t, Call: call, SQL: "SELECT id, p, o, v, " + call.SQL() + " FROM t", Mode: r.mode, Thorough: r.thorough, Group: g.mask, Pack: pack, CPU: r.cpu}
}

// checkOthers: number of rows and the other columns are unaffected. Returns the result rows indexed by id.
func (r *c17Runner) checkOthers(t c17Table, rows []anref.Row, out [][]rv.V, width int, what *anref.Call, g *c17Group, pack int) (map[int][]rv.V, bool) {
	byID := map[int][]rv.V{}
	bad := func(msg string) (map[int][]rv.V, bool) {
		r.c.Violate("rows-or-other-columns-changed", fmt.Sprintf("table [%s] %s: %s", t.key(), what.SQL(), msg), r.payload(t, what, g, pack))
		return nil, false
	}
	if len(out) != len(rows) {
		return bad(fmt.Sprintf("%d result rows for %d table rows", len(out), len(rows)))
	}
	for _, o := range out {
		if len(o) != width {
			r.c.Violate("result-row-of-wrong-width", fmt.Sprintf("table [%s] (cpu %d, %s) %s: a result row has %d cells, the SELECT has %d columns", t.key(), r.cpu, r.mode, what.SQL(), len(o), width), r.payload(t, what, g, pack))
			return nil, false
		}
		if o[0].K != rv.Str {
			return bad("id column is not the loaded text: " + o[0].Key())
		}
		id, err := strconv.Atoi(o[0].S)
		if err != nil || id < 1 || id > len(rows) {
			return bad("unknown id " + o[0].Key())
		}
		if _, dup := byID[id]; dup {
			return bad("row id " + o[0].Key() + " returned twice")
		}
		for k := 0; k < 3; k++ {
			if !rv.SameValue(o[1+k], rows[id-1].C[k]) {
				return bad(fmt.Sprintf("row id %d column %s is %s, loaded %s", id, anref.ColNames[k], o[1+k].Key(), rows[id-1].C[k].Key()))
			}
		}
		byID[id] = o
	}
	return byID, true
}

func c17NormJSON(v rv.V) rv.V {
	if v.K != rv.Str {
		return v
	}
	var arr []any
	dec := json.NewDecoder(strings.NewReader(v.S))
	dec.UseNumber()
	if err := dec.Decode(&arr); err != nil {
		return rv.S("not a JSON array: " + v.S)
	}
	vs := make([]rv.V, len(arr))
	for i, e := range arr {
		switch x := e.(type) {
		case nil:
			vs[i] = rv.N()
		case string:
			vs[i] = rv.S(x)
		case json.Number:
			if n, err := x.Int64(); err == nil {
				vs[i] = rv.I(n)
			} else {
				f, _ := x.Float64()
				vs[i] = rv.Fl(f)
			}
		default:
			vs[i] = rv.S(fmt.Sprintf("unexpected JSON element %v", e))
		}
	}
	return rv.S(anref.JSONArray(vs))
}

// c17Explained: does some reading, with some admissible order of each partition, reproduce the column?
// evalFn is the model (anref.Eval, or a defect model used only to name a signature).
func c17Explained(c *core.Ctx, call *anref.Call, rows []anref.Row, got map[int]rv.V, readings []anref.Reading,
	evalFn func(*anref.Call, []anref.Row, anref.Reading) anref.Result) (ok bool, reading int, nonStable bool) {
	parts := anref.Partitions(rows, call.Part)
	for ri, rd := range readings {
		all := true
		usedOther := false
		for _, part := range parts {
			tried := 0
			found, cut := anref.Orderings(part, call.Order, 50000, func(ord []anref.Row) bool {
				tried++
				res := evalFn(call, ord, rd)
				if res.Err {
					return false
				}
				for i := range ord {
					if !anref.Same(got[ord[i].ID], res.Vals[i]) {
						return false
					}
				}
				return true
			})
			if cut && c != nil {
				c.Incomplete("more than 50000 admissible orders of one partition; a column was left undecided: " + call.SQL())
				found = true
			}
			if !found {
				all = false
				break
			}
			if tried > 1 {
				usedOther = true
			}
		}
		if all {
			return true, ri, usedOther
		}
	}
	return false, -1, false
}

// defect models: csvq behaviours already diagnosed as violations; they only give the violation a narrow name.

// LAST_VALUE computed as FIRST_VALUE of the frame laid over the REVERSED partition
func c17MirrorLast(call *anref.Call, ord []anref.Row, rd anref.Reading) anref.Result {
	n := len(ord)
	rev := make([]anref.Row, n)
	for i := range ord {
		rev[n-1-i] = ord[i]
	}
	c2 := *call
	c2.Fn = "FIRST_VALUE"
	res := anref.Eval(&c2, rev, anref.Reading{})
	out := make([]rv.V, n)
	for i := range out {
		out[i] = res.Vals[n-1-i]
	}
	return anref.Result{Vals: out}
}

// NTH_VALUE that answers with the last row it looked at when the frame has fewer than n (non-null) values
func c17NthLastExamined(call *anref.Call, ord []anref.Row, rd anref.Reading) anref.Result {
	n := len(ord)
	uc := *call
	uc.Fn, uc.IgnoreNulls = "LAST_VALUE", false
	last := anref.Eval(&uc, ord, rd)
	right := anref.Eval(call, ord, rd)
	cnt := *call
	cnt.Fn, cnt.IgnoreNulls, cnt.Star = "COUNT", false, !call.IgnoreNulls
	have := anref.Eval(&cnt, ord, rd)
	out := make([]rv.V, n)
	for i := range out {
		if have.Vals[i].I >= int64(call.N) {
			out[i] = right.Vals[i]
		} else {
			out[i] = last.Vals[i]
		}
	}
	return anref.Result{Vals: out}
}

func c17Column(call *anref.Call, byID map[int][]rv.V, col int) map[int]rv.V {
	got := make(map[int]rv.V, len(byID))
	for id, o := range byID {
		v := o[col]
		if call.Fn == "JSON_AGG" {
			v = c17NormJSON(v)
		}
		got[id] = v
	}
	return got
}

func c17ReadingName(call *anref.Call, rd anref.Reading) string {
	switch {
	case call.Windowed() && call.Frame == nil && len(call.Order) > 0:
		return call.Fn + ": default frame = " + [...]string{"ROWS UNBOUNDED PRECEDING..CURRENT ROW", "up to the last peer (RANGE)", "whole partition"}[rd.DefaultFrame]
	case call.Fn == "PERCENT_RANK":
		s := fmt.Sprintf("PERCENT_RANK: single row = %v", rd.PercentRankSingle)
		if len(call.Order) == 0 {
			s += fmt.Sprintf(", without ORDER BY rows ranked sequentially=%v", rd.NoOrderSequential)
		}
		return s
	case len(call.Order) == 0 && (call.Fn == "RANK" || call.Fn == "DENSE_RANK" || call.Fn == "CUME_DIST"):
		return fmt.Sprintf("%s without ORDER BY: rows ranked sequentially=%v", call.Fn, rd.NoOrderSequential)
	case (call.Fn == "LAG" || call.Fn == "LEAD") && call.IgnoreNulls:
		return fmt.Sprintf("%s IGNORE NULLS: offset counted over non-null rows=%v", call.Fn, rd.LagCountsNonNull)
	}
	return ""
}

func c17ColumnText(rows []anref.Row, got map[int]rv.V) string {
	ids := make([]int, 0, len(got))
	for id := range got {
		ids = append(ids, id)
	}
	sort.Ints(ids)
	if len(ids) > 12 {
		ids = ids[:12]
	}
	s := make([]string, len(ids))
	for i, id := range ids {
		r := rows[id-1]
		s[i] = fmt.Sprintf("id%d(p=%s o=%s v=%s)->%s", id, anref.Text2(r.C[0]), anref.Text2(r.C[1]), anref.Text2(r.C[2]), got[id].Key())
	}
	return strings.Join(s, "  ")
}

// compare one result column with the model and report.
func (r *c17Runner) compare(t c17Table, rows []anref.Row, call *anref.Call, got map[int]rv.V, g *c17Group, pack int) {
	readings := anref.Readings(call)
	ok, ri, other := c17Explained(r.c, call, rows, got, readings, anref.Eval)
	if ok {
		if name := c17ReadingName(call, readings[ri]); name != "" && len(rows) > 1 && len(rows) <= 6 {
			// which reading csvq follows is informative only where the readings differ on this table
			distinctive := true
			for k := range readings {
				if k != ri {
					if ok2, _, _ := c17Explained(nil, call, rows, got, readings[k:k+1], anref.Eval); ok2 {
						distinctive = false
					}
				}
			}
			if distinctive {
				r.c.Observe("readings_followed", name)
			}
		}
		if other {
			// not counted: csvq evaluates the analytic functions of one SELECT in an order that changes from
			// execution to execution (map iteration in appendAnalyticFunctionToListIfNotExist), so how often
			// the file order is not the order csvq used is not reproducible
			r.c.Observe("oracle_notes", "some columns were reproduced only by a tie order (or, without ORDER BY, a row order) other than the file order")
		}
		return
	}
	// name the violation
	sig := "mismatch:" + call.FnLabel() + "|" + call.ClauseClass()
	switch call.Fn {
	case "LAST_VALUE":
		if ok, _, _ := c17Explained(nil, call, rows, got, []anref.Reading{{}}, c17MirrorLast); ok {
			sig = "defect:LAST_VALUE-frame-laid-over-reversed-partition"
		}
	case "NTH_VALUE":
		if ok, _, _ := c17Explained(nil, call, rows, got, readings, c17NthLastExamined); ok {
			sig = "defect:NTH_VALUE-returns-last-examined-row-when-frame-has-fewer-than-n-values"
		}
	}
	// the model's column under the first reading and the stable order, for the message
	exp := map[int]rv.V{}
	for _, part := range anref.Partitions(rows, call.Part) {
		anref.Orderings(part, call.Order, 1, func(ord []anref.Row) bool {
			res := anref.Eval(call, ord, readings[0])
			for i := range ord {
				if !res.Err {
					exp[ord[i].ID] = res.Vals[i]
				}
			}
			return true
		})
	}
	r.c.Violate(sig, fmt.Sprintf("table [%s] (cpu %d, %s): %s\n  csvq:  %s\n  model: %s\n  (model shown for the stable tie order and the first reading; no admissible tie order and no accepted reading reproduces csvq's column)",
		t.key(), r.cpu, r.mode, call.SQL(), c17ColumnText(rows, got), c17ColumnText(rows, exp)), r.payload(t, call, g, pack))
}

func c17ErrSig(call *anref.Call, o c17Outcome) (string, string) {
	switch {
	case o.panic != nil:
		return "panic:" + call.FnLabel() + "|" + call.ClauseClass(), fmt.Sprint("panic: ", o.panic)
	case drv.IsFatal(o.err) && strings.Contains(o.err.Error(), "makeslice: cap out of range") && call.Frame != nil && c17FrameCanInvert(call.Frame):
		return "defect:frame-ending-before-it-starts-fatal-makeslice", strings.SplitN(o.err.Error(), "\n", 2)[0]
	case call.Star && strings.Contains(o.err.Error(), "is only available in select clause or order by clause"):
		return "defect:COUNT(*)-OVER-rejected-as-not-available", o.err.Error()
	case drv.IsFatal(o.err):
		return "fatal:" + call.FnLabel() + "|" + call.ClauseClass(), o.err.Error()
	}
	return "error:" + call.FnLabel() + "|" + call.ClauseClass(), o.err.Error()
}

// single executes one call in its own freshly parsed SELECT.
func (r *c17Runner) single(t c17Table, rows []anref.Row, call *anref.Call, g *c17Group, pack int) {
	sql := "SELECT id, p, o, v, " + call.SQL() + " AS c0 FROM t"
	st, _, perr := parser.Parse(sql, "", false, false)
	if perr != nil {
		r.c.Violate("syntax:"+call.FnLabel()+"|"+call.ClauseClass(), "documented syntax rejected: "+sql+": "+perr.Error(), r.payload(t, call, g, pack))
		return
	}
	o := r.exec(st)
	r.c.Add("statements", 1)
	if o.err != nil || o.panic != nil {
		sig, msg := c17ErrSig(call, o)
		r.c.Violate(sig, fmt.Sprintf("table [%s] (cpu %d, %s): %s\n  csvq: %s", t.key(), r.cpu, r.mode, sql, msg), r.payload(t, call, g, pack))
		return
	}
	byID, ok := r.checkOthers(t, rows, o.rows, 5, call, g, pack)
	if !ok {
		return
	}
	r.compare(t, rows, call, c17Column(call, byID, 4), g, pack)
}

func c17Nontrivial(rows []anref.Row, call *anref.Call) bool {
	for _, p := range anref.Partitions(rows, call.Part) {
		if len(p) > 1 {
			return true
		}
	}
	return false
}

// table runs the group's packs (or one of them) on the loaded table.
func (r *c17Runner) table(t c17Table, rows []anref.Row, g *c17Group, singles bool, onlyPack int) {
	for pi, pack := range g.packs {
		if onlyPack >= 0 && pi != onlyPack {
			continue
		}
		o := r.exec(g.parsed[pi])
		r.c.Add("statements", 1)
		if o.err != nil || o.panic != nil {
			// one failing call fails the SELECT: isolate it
			for _, call := range pack {
				if r.onlySQL == "" || call.SQL() == r.onlySQL {
					r.single(t, rows, call, g, pi)
				}
			}
		} else if byID, ok := r.checkOthers(t, rows, o.rows, 4+len(pack), pack[0], g, pi); ok {
			for ci, call := range pack {
				if r.onlySQL == "" || call.SQL() == r.onlySQL {
					r.compare(t, rows, call, c17Column(call, byID, 4+ci), g, pi)
				}
			}
		}
		nt := int64(0)
		counted := pack
		if g.primed[pi] {
			counted = pack[1:]
		}
		for _, call := range counted {
			if c17Nontrivial(rows, call) {
				nt++
			}
		}
		r.c.EvalN(int64(len(counted)), nt)
		if singles && !g.primed[pi] {
			old := r.mode
			r.mode = "single"
			for _, call := range pack {
				r.single(t, rows, call, g, pi)
			}
			r.mode = old
			r.c.Add("calls_also_run_alone", int64(len(pack)))
		}
	}
}

func c17Run(c *core.Ctx) {
	if c17SkipFamily("main") { // experimentation only
		return
	}
	thorough := c.Thorough()
	bounds := c17BoundsOf(thorough)
	r := newC17Runner(c, thorough, "c17")
	defer r.env.Close()
	ncalls := 0
	for _, g := range r.groups {
		for pi, p := range g.packs {
			if !g.primed[pi] {
				ncalls += len(p)
			}
		}
	}
	c.Info("catalogue_calls", ncalls)
	bt := []string{}
	for k, b := range bounds {
		s := fmt.Sprintf("calls mentioning %d column(s): all sequences of 0..%d rows", k, b.SeqLen)
		if b.MultiLen > b.SeqLen {
			s += fmt.Sprintf(", all multisets of %d..%d rows in %d arrangement(s)", b.SeqLen+1, b.MultiLen, 2-int(b2i(b.OneArr)))
		}
		if b.NarrowLen > b.MultiLen {
			s += fmt.Sprintf(", all multisets of %d..%d rows with p in {NULL,1}", b.MultiLen+1, b.NarrowLen)
		}
		bt = append(bt, s)
	}
	c.Info("bounds", bt)
	if pf := os.Getenv("C17_PROF"); pf != "" && c.Shard == 0 { // experimentation only
		f, _ := os.Create(pf)
		pprof.StartCPUProfile(f)
		defer pprof.StopCPUProfile()
	}
	t0 := time.Now()
	idx := int64(0)
	stopped := false
	for _, g := range r.groups {
		if len(g.packs) == 0 || stopped {
			continue
		}
		sampled := false
		g.tables(bounds[len(g.cols)], func(t c17Table) bool {
			i := idx
			idx++
			if !c.Mine(i) {
				return true
			}
			if c.Expired() {
				c.Incomplete(fmt.Sprintf("time budget reached in the group of calls mentioning columns %v at a table of %d rows", g.cols, len(t)))
				stopped = true
				return false
			}
			rows := t.rows()
			r.load(t.csv())
			r.table(t, rows, g, len(t) <= 2 && (len(g.cols) < 3 || len(t) <= 1), -1)
			c.Add("tables", 1)
			c.Max("max_rows", int64(len(t)))
			if !sampled && c.WantSample() && len(t) >= 3 && len(g.cols) == 3 && c.Shard < 2 {
				sampled = true
				pk := g.packs[(int(i)/16)%len(g.packs)]
				c.Sample(map[string]any{"table(p,o,v per row)": t.key(), "call": pk[int(i)%len(pk)].SQL()})
			}
			return true
		})
	}
	t1 := time.Now()
	if !c.Expired() {
		c17Parallel(c, thorough)
	}
	if os.Getenv("C17_TIMING") != "" { // experimentation only
		c.Add("timing_ms_exhaustive", t1.Sub(t0).Milliseconds())
		c.Add("timing_ms_parallel", time.Since(t1).Milliseconds())
	}
}

func c17Replay(c *core.Ctx, payload json.RawMessage) {
	if c17NestedReplay(c, payload) || c17TwinsReplay(c, payload) || c17DistOrderReplay(c, payload) || c17FamReplay(c, payload) {
		return
	}
	var fam struct {
		Family string   `json:"family"`
		P      []string `json:"p"`
		K      []string `json:"k"`
	}
	if json.Unmarshal(payload, &fam) == nil && (fam.Family == "spelled" || fam.Family == "wide-keys") {
		defer func() { c17OnlySeq = nil }()
		if fam.Family == "spelled" {
			c17OnlySeq = fam.P
			c17SpelledRun(c)
		} else {
			c17OnlySeq = fam.K
			c17WideRun(c)
		}
		return
	}
	var p c17Payload
	if err := json.Unmarshal(payload, &p); err != nil {
		fmt.Println("bad payload:", err)
		return
	}
	fmt.Printf("replaying %s [%s] on table [%s]\n", p.Mode, p.SQL, p.Table.key())
	r := newC17Runner(c, p.Thorough, "c17replay")
	defer r.env.Close()
	if p.Mode == "parallel" {
		defer r.parallelKnobs()()
	}
	if p.Group < 0 || p.Group >= len(r.groups) {
		p.Group = c17Refs(p.Call)
	}
	g := r.groups[p.Group]
	rows := p.Table.rows()
	r.load(p.Table.csv())
	mode := r.mode
	r.mode = p.Mode + ", replayed alone"
	r.single(p.Table, rows, p.Call, g, p.Pack)
	if p.Mode != "single" && p.Pack >= 0 && p.Pack < len(g.packs) {
		r.mode = mode
		r.onlySQL = p.Call.SQL()
		// csvq evaluates the calls of one SELECT in an order that varies between executions; repeat the SELECT so
		// that a violation that depends on that order shows again
		for i := 0; i < 25 && c.NViolations() == 0; i++ {
			r.load(p.Table.csv())
			r.table(p.Table, rows, g, false, p.Pack)
		}
	}
}

// ---- the multi-goroutine partition loop -----------------------------------------------------------

// parallelKnobs makes csvq split its per-record and per-partition loops over several goroutines for
// tables of a few dozen rows (csvq --cpu 4; the exported per-core minimum lowered from 80 to 4).
func (r *c17Runner) parallelKnobs() (restore func()) {
	gm := query.GetGoroutineManager()
	oldMin, oldCPU := gm.MinimumRequiredPerCore, r.env.Tx.Flags.CPU
	gm.MinimumRequiredPerCore = 4
	r.env.Tx.Flags.CPU = 4
	r.cpu = 4
	r.mode = "parallel"
	return func() { gm.MinimumRequiredPerCore = oldMin; r.env.Tx.Flags.CPU = oldCPU; r.cpu = oldCPU }
}

// c17BigTable k: P partitions (one of them the NULL partition) interleaved in file order, o unique in the
// table except for a few tied pairs inside one partition and a few NULLs, v in {NULL,1..4}.
// rows x partitions >= 240, which is what Analyze needs (rows*partitions/80 >= 2) to start a second goroutine.
func c17BigTable(k int) c17Table {
	P := 10 + 2*(k%4)
	R := 2*P + (k%3)*(P/2) + 4
	t := make(c17Table, R)
	for i := 0; i < R; i++ {
		p := (i*11 + k) % P   // 11 is coprime to every P used
		o := 1 + (i*19+3*k)%R // 19 is coprime to every R used, so o is a permutation of 1..R
		switch {
		case i%9 == 4 && i >= P: // a tie with the row P places earlier, in that row's partition
			p, o = t[i-P][0], t[i-P][1]
		case i%13 == 6:
			o = 0
		}
		t[i] = [3]int{p, o, (i*3 + 2*k) % 5}
	}
	return t
}

func c17OrderSensitive(call *anref.Call) bool {
	switch call.Fn {
	case "COUNT", "MIN", "MAX", "SUM", "AVG", "MEDIAN", "VAR", "VARP", "STDEV", "STDEVP":
		return false
	}
	return true
}

func c17Parallel(c *core.Ctx, thorough bool) {
	K := 3
	if thorough {
		K = 12
	}
	r := newC17Runner(c, thorough, "c17par")
	defer r.env.Close()
	defer r.parallelKnobs()()
	// A call without PARTITION BY and without ORDER BY depends on an arbitrary order of all 24+ rows; deciding
	// it would need up to 52! orders, so the order sensitive ones are left to the small tables.
	for _, g := range r.groups {
		for pi := range g.packs {
			var keep []*anref.Call
			for _, call := range g.packs[pi] {
				if len(call.Part) == 0 && len(call.Order) == 0 && c17OrderSensitive(call) {
					continue
				}
				if call.Frame != nil && c17FrameCanInvert(call.Frame) {
					// On the unchanged tree these end in the makeslice panic (defect reported by the sequential part).
					// With several goroutines the panic is raised in more than one of them; analyzeFn recovers only
					// while no error has been recorded, so the second panic is not recovered and takes the whole
					// process down - a worker of this harness included. They are therefore not run here.
					continue
				}
				keep = append(keep, call)
			}
			if len(keep) != len(g.packs[pi]) {
				g.packs[pi] = keep
				if len(keep) > 0 {
					g.parsed[pi] = mustParse(c17PackSQL(keep))
				}
			}
		}
	}
	idx := int64(0)
	for k := 0; k < K; k++ {
		t := c17BigTable(k)
		rows := t.rows()
		loaded := false
		for _, g := range r.groups {
			for pi := range g.packs {
				idx++
				if len(g.packs[pi]) == 0 || !c.Mine(idx) {
					continue
				}
				if c.Expired() {
					c.Incomplete("time budget reached in the parallel family")
					return
				}
				if !loaded {
					r.load(t.csv())
					loaded = true
				}
				r.table(t, rows, g, false, pi)
				c.Add("parallel_family_cases", int64(len(g.packs[pi])))
			}
		}
		c.Max("max_rows_parallel_family", int64(len(t)))
	}
}
