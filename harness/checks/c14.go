//go:build verifx

package checks

import (
	"encoding/json"
	"fmt"
	"reflect"
	"runtime"
	"sort"
	"strings"
	"time"

	"github.com/mithrandie/csvq/lib/option"
	"github.com/mithrandie/csvq/lib/parser"
	"github.com/mithrandie/csvq/lib/query"
	"github.com/mithrandie/csvq/lib/value"
	"github.com/mithrandie/csvq/lib/verifshim/vrt"

	"verif/harness/internal/core"
	"verif/harness/internal/drv"
	"verif/harness/internal/rv"
)

func init() {
	core.Register(&core.Check{
		ID:    "C14",
		Level: "exploration",
		Rule: "families: (fn-var) every built-in scalar function x arity 0-3 x all argument tuples over a boundary alphabet held in variables; (fn-lit) the same with literals in the program text (arity <= 2); " +
			"(fn-cell) every scalar, aggregate, analytic and list function over a temporary table whose cells hold the alphabet; (twice) a catalogue of statement forms executed twice from one syntax tree - plainly, in a WHILE loop, " +
			"in a user function called twice, as a prepared statement executed twice, through a cursor opened twice. Oracles on every case: (1) provenance - value.Discard must never be handed an object that a variable, a table cell or the " +
			"syntax tree still holds (hook on Discard through the overlay); (2) the syntax tree, deep-printed before and after, is unchanged; (3) the second evaluation gives what the first gave; " +
			"(4) variables and table cells hold their old values afterwards. non-trivial = at least one argument is not NULL / the statement touches a table",
		Assume: []string{"csvq's own convention (lib/value/conv.go): conversions return fresh objects and only such temporaries are discarded; an object still referenced by a variable, a cell or the program is never a temporary",
			"NOW/RAND-like functions are excluded from the repeat-evaluation oracle", "integers that make a function allocate or loop without bound (NUMBER_FORMAT precision, padding lengths) are kept at 1000: runaway arguments are C19's subject"},
		Run:         c14Run,
		Replay:      c14Replay,
		WorkerProcs: 1,
	})
}

// ---- provenance registry ---------------------------------------------------------------------------

type c14Registry struct {
	ptrs map[uintptr]string
	hits []string
}

func ptrOf(p any) uintptr {
	v := reflect.ValueOf(p)
	if v.Kind() == reflect.Pointer && !v.IsNil() {
		return v.Pointer()
	}
	return 0
}

func (r *c14Registry) add(p value.Primary, what string) {
	if k := ptrOf(p); k != 0 {
		r.ptrs[k] = what
	}
}

func (r *c14Registry) hook(p any) {
	if what, ok := r.ptrs[ptrOf(p)]; ok {
		// who discards it: first csvq frame above value.Discard
		pcs := make([]uintptr, 12)
		n := runtime.Callers(3, pcs)
		fr := runtime.CallersFrames(pcs[:n])
		where := "?"
		for {
			f, more := fr.Next()
			if strings.Contains(f.Function, "mithrandie/csvq/lib/") && !strings.HasSuffix(f.Function, "value.Discard") && !strings.Contains(f.Function, "verifshim") {
				where = strings.TrimPrefix(f.Function, "github.com/mithrandie/csvq/lib/")
				break
			}
			if !more {
				break
			}
		}
		r.hits = append(r.hits, what+" discarded by "+where)
	}
}

// walkPrimaries collects every value.Primary reachable from x (syntax trees are plain structs and slices).
func walkPrimaries(x any, f func(p value.Primary)) {
	seen := map[uintptr]bool{}
	var walk func(v reflect.Value, depth int)
	walk = func(v reflect.Value, depth int) {
		if depth > 60 || !v.IsValid() {
			return
		}
		if v.CanInterface() {
			if p, ok := v.Interface().(value.Primary); ok && v.Kind() != reflect.Struct {
				if p != nil {
					f(p)
				}
				return
			}
		}
		switch v.Kind() {
		case reflect.Pointer:
			if v.IsNil() || seen[v.Pointer()] {
				return
			}
			seen[v.Pointer()] = true
			walk(v.Elem(), depth+1)
		case reflect.Interface:
			if !v.IsNil() {
				walk(v.Elem(), depth+1)
			}
		case reflect.Struct:
			for i := 0; i < v.NumField(); i++ {
				if v.Type().Field(i).IsExported() {
					walk(v.Field(i), depth+1)
				}
			}
		case reflect.Slice, reflect.Array:
			for i := 0; i < v.Len(); i++ {
				walk(v.Index(i), depth+1)
			}
		}
	}
	walk(reflect.ValueOf(x), 0)
}

// astKey deep-prints a syntax tree (values of literals included, source positions left out).
func astKey(x any) string {
	var sb strings.Builder
	var walk func(v reflect.Value, depth int)
	walk = func(v reflect.Value, depth int) {
		if depth > 60 || !v.IsValid() {
			return
		}
		if v.CanInterface() {
			if p, ok := v.Interface().(value.Primary); ok && v.Kind() != reflect.Struct {
				if p == nil || (v.Kind() == reflect.Pointer && v.IsNil()) {
					sb.WriteString("<nil-primary>")
				} else {
					sb.WriteString(rv.FromPrimary(p).Key())
				}
				return
			}
			if _, ok := v.Interface().(*parser.BaseExpr); ok {
				return
			}
		}
		switch v.Kind() {
		case reflect.Pointer, reflect.Interface:
			if v.IsNil() {
				sb.WriteString("nil")
				return
			}
			walk(v.Elem(), depth+1)
		case reflect.Struct:
			sb.WriteString(v.Type().Name() + "{")
			for i := 0; i < v.NumField(); i++ {
				if v.Type().Field(i).IsExported() {
					sb.WriteString(v.Type().Field(i).Name + ":")
					walk(v.Field(i), depth+1)
					sb.WriteByte(' ')
				}
			}
			sb.WriteString("}")
		case reflect.Slice, reflect.Array:
			fmt.Fprintf(&sb, "[%d:", v.Len())
			for i := 0; i < v.Len(); i++ {
				walk(v.Index(i), depth+1)
				sb.WriteByte(',')
			}
			sb.WriteString("]")
		case reflect.String:
			fmt.Fprintf(&sb, "%q", v.String())
		case reflect.Int, reflect.Int64, reflect.Int32:
			fmt.Fprintf(&sb, "%d", v.Int())
		case reflect.Bool:
			fmt.Fprintf(&sb, "%v", v.Bool())
		case reflect.Float64:
			fmt.Fprintf(&sb, "%v", v.Float())
		}
	}
	walk(reflect.ValueOf(x), 0)
	return sb.String()
}

// ---- alphabets -------------------------------------------------------------------------------------

func c14Args(thorough bool) []rv.V {
	d := time.Date(2012, 2, 3, 9, 18, 15, 0, time.UTC)
	a := []rv.V{rv.N(), rv.I(0), rv.I(1), rv.I(-1), rv.I(1000), rv.Fl(1.5), rv.S(""), rv.S("a"), rv.S(" 1 "), rv.S("abc"), rv.Tv(rv.T), rv.D(d), rv.B(true)}
	if thorough {
		a = append(a, rv.I(2), rv.Fl(-0.5), rv.S("2012-02-03 09:18:15"), rv.S("[1,2]"), rv.S("%s"), rv.Tv(rv.U), rv.S("a,b"))
	}
	return a
}

var c14Nondeterministic = map[string]bool{"NOW": true, "RAND": true}

func c14Functions() []string {
	names := make([]string, 0, len(query.Functions))
	for n := range query.Functions {
		names = append(names, n)
	}
	// functions the evaluator dispatches by name, outside the table
	names = append(names, "JSON_OBJECT", "NOW") // CALL runs external commands: left out
	sort.Strings(names)
	return names
}

type c14Payload struct {
	Family string   `json:"family"`
	SQL    string   `json:"sql"`
	Args   []string `json:"args,omitempty"`
	Setup  string   `json:"setup,omitempty"`
}

type c14Runner struct {
	c   *core.Ctx
	env *drv.Env
	reg *c14Registry
	// result cells found in a pool by exec (see there)
	poolHits []string
}

func newC14Runner(c *core.Ctx) *c14Runner {
	r := &c14Runner{c: c, env: drv.New(core.Scratch("c14")), reg: &c14Registry{ptrs: map[uintptr]string{}}}
	vrt.DiscardHook = r.reg.hook
	return r
}

func (r *c14Runner) close() {
	vrt.DiscardHook = nil
	r.env.Close()
}

func (r *c14Runner) exec(stmts []parser.Statement) (out string, err error) {
	defer func() {
		if p := recover(); p != nil {
			err = fmt.Errorf("panic: %v", p)
		}
	}()
	_, err = r.env.Proc.Execute(query.ContextForStoringResults(r.env.Ctx), stmts)
	var sb strings.Builder
	for _, v := range r.env.Tx.SelectedViews {
		sb.WriteString(drv.RowsKey(drv.Rows(v)))
		sb.WriteByte('\n')
		// a cell of a result is live: it must not sit in a pool, from where the next evaluations would re-issue and overwrite it
		for _, rec := range v.RecordSet {
			for _, cell := range rec {
				if len(cell) > 0 {
					if who, ok := vrt.InPool(cell[0]); ok {
						r.poolHits = append(r.poolHits, "a result cell holding "+rv.FromPrimary(cell[0]).Key()+" was handed to value.Discard by "+who)
					}
				}
			}
		}
	}
	return sb.String(), err
}

func errText(err error) string {
	if err == nil {
		return ""
	}
	return err.Error()
}

// evalTwice runs the parsed statement twice and applies oracles 1-3; vars are the variables (name -> original value).
func (r *c14Runner) evalTwice(family, sqlText string, stmts []parser.Statement, vars map[string]rv.V, nondet bool, nontrivial bool) {
	before := astKey(stmts)
	r.reg.ptrs = map[uintptr]string{}
	r.reg.hits = r.reg.hits[:0]
	walkPrimaries(stmts, func(p value.Primary) { r.reg.add(p, "a literal of the program text") })
	names := make([]string, 0, len(vars))
	for n := range vars {
		names = append(names, n)
	}
	sort.Strings(names)
	args := []string{}
	for _, n := range names {
		p := vars[n].Primary()
		r.env.SetVar(n, p)
		r.reg.add(p, "the value of variable @"+n)
		args = append(args, "@"+n+"="+vars[n].Key())
	}
	payload := c14Payload{Family: family, SQL: sqlText, Args: args}
	out1, err1 := r.exec(stmts)
	out2, err2 := r.exec(stmts)
	r.c.Eval(family+"|"+sqlText+"|"+strings.Join(args, ","), nontrivial)
	cls := family + ":" + strings.SplitN(sqlText, "(", 2)[0]
	if len(r.reg.hits) > 0 {
		r.c.Violate("provenance:"+r.reg.hits[0][strings.Index(r.reg.hits[0], "discarded by"):], fmt.Sprintf("%s with %v: %s (value.Discard was handed an object that is still referenced)", sqlText, args, r.reg.hits[0]), payload)
	}
	if len(r.poolHits) > 0 {
		h := r.poolHits[0]
		r.c.Violate("live-object-in-pool:"+h[strings.Index(h, "value.Discard by")+17:], fmt.Sprintf("%s with %v: %s and is still in its pool: later values will be written into it", sqlText, args, h), payload)
		r.poolHits = nil
	}
	if after := astKey(stmts); after != before {
		r.c.Violate("syntax-tree-edited-by-evaluation:"+cls, fmt.Sprintf("%s with %v: the stored syntax tree differs after evaluation\n before: %s\n after:  %s", sqlText, args, clip(before), clip(after)), payload)
	}
	if !nondet && (out1 != out2 || errText(err1) != errText(err2)) {
		r.c.Violate("second-evaluation-differs:"+cls, fmt.Sprintf("%s with %v: first evaluation gives %q (%v), second %q (%v)", sqlText, args, out1, err1, out2, err2), payload)
	}
	if drv.IsFatal(err1) || (err1 != nil && strings.HasPrefix(err1.Error(), "panic:")) {
		r.c.Observe("internal_failures_seen_(C19's_subject)", cls)
	}
	for _, n := range names {
		got, gerr := r.env.Proc.ReferenceScope.GetVariable(parser.Variable{Name: n})
		if gerr != nil || !rv.SameValue(rv.FromPrimary(got), vars[n]) {
			r.c.Violate("variable-changed-by-evaluation:"+cls, fmt.Sprintf("%s with %v: @%s holds %s afterwards", sqlText, args, n, rv.FromPrimary(got).Key()), payload)
		}
	}
}

// ---- families --------------------------------------------------------------------------------------

func (r *c14Runner) familyFnVar(thorough bool) {
	al := c14Args(thorough)
	small := al[:6]
	if thorough {
		small = al[:9]
	}
	var idx int64
	for _, fn := range c14Functions() {
		for arity := 0; arity <= 3; arity++ {
			idx++
			if !r.c.Mine(idx) {
				continue
			}
			if r.c.Expired() {
				r.c.Incomplete("time budget reached in family fn-var")
				return
			}
			params := []string{"@a", "@b", "@c"}[:arity]
			sqlText := fmt.Sprintf("SELECT %s(%s)", fn, strings.Join(params, ", "))
			stmts, _, perr := parser.Parse(sqlText, "", false, false)
			if perr != nil {
				continue
			}
			// a wrong arity is refused before anything is evaluated: skip the whole arity then
			r.env.SetVar("a", value.NewNull())
			r.env.SetVar("b", value.NewNull())
			r.env.SetVar("c", value.NewNull())
			if _, err := r.exec(stmts); err != nil && strings.Contains(err.Error(), "argument") && strings.Contains(err.Error(), "function "+strings.ToLower(fn)+" takes") {
				continue
			}
			doms := [][]rv.V{al, al, small}
			var rec func(k int, cur []rv.V)
			rec = func(k int, cur []rv.V) {
				if k == arity {
					vars := map[string]rv.V{}
					nt := false
					for i, v := range cur {
						vars[string(rune('a'+i))] = v
						if v.K != rv.Null {
							nt = true
						}
					}
					r.evalTwice("fn-var", sqlText, stmts, vars, c14Nondeterministic[fn], nt || arity == 0)
					return
				}
				d := doms[k]
				if arity == 3 {
					d = small
				}
				for _, v := range d {
					rec(k+1, append(cur, v))
				}
			}
			rec(0, nil)
		}
	}
}

func (r *c14Runner) familyFnLit(thorough bool) {
	al := []rv.V{}
	for _, v := range c14Args(thorough) {
		if _, ok := v.SQL(); ok {
			al = append(al, v)
		}
	}
	var idx int64
	for _, fn := range c14Functions() {
		for arity := 1; arity <= 2; arity++ {
			idx++
			if !r.c.Mine(idx) {
				continue
			}
			if r.c.Expired() {
				r.c.Incomplete("time budget reached in family fn-lit")
				return
			}
			var rec func(k int, cur []string, nt bool)
			rec = func(k int, cur []string, nt bool) {
				if k == arity {
					sqlText := fmt.Sprintf("SELECT %s(%s)", fn, strings.Join(cur, ", "))
					stmts, _, perr := parser.Parse(sqlText, "", false, false)
					if perr != nil {
						return
					}
					r.evalTwice("fn-lit", sqlText, stmts, nil, c14Nondeterministic[fn], nt)
					return
				}
				for _, v := range al {
					s, _ := v.SQL()
					rec(k+1, append(cur, s), nt || v.K != rv.Null)
				}
			}
			rec(0, nil, false)
		}
	}
}

// table v(id, c): one row per alphabet value, typed cells
func (r *c14Runner) makeTable(al []rv.V) (cells []value.Primary) {
	r.exec(mustParse("DECLARE v VIEW (id, c)"))
	ins := mustParse("INSERT INTO v VALUES (@i, @x)")
	for i, v := range al {
		r.env.SetVar("i", value.NewInteger(int64(i)))
		r.env.SetVar("x", v.Primary())
		if _, err := r.exec(ins); err != nil {
			panic(err)
		}
	}
	view, err := r.env.Proc.ReferenceScope.GetTemporaryTable(parser.Identifier{Literal: "v"})
	if err != nil {
		panic(err)
	}
	for _, rec := range view.RecordSet {
		cells = append(cells, rec[1][0])
	}
	return cells
}

// familyFnDML: the same function call inside a data-changing statement. The working rows of UPDATE and DELETE
// carry an internal identity cell in front of the table's cells; a function that touches the record it is given
// would change which row gets which value, or which rows are removed. Oracle: what SELECT computes per row is
// what UPDATE stores in that row and what decides the row in DELETE; the other column is untouched.
func (r *c14Runner) familyFnDML(thorough bool) {
	al := c14Args(thorough)
	var idx int64
	for _, fn := range c14Functions() {
		if c14Nondeterministic[fn] || fn == "UUID" || fn == "CALL" {
			continue
		}
		for _, form := range []string{"%s()", "%s(c)", "%s(c, c)", "%s(c, 1)"} {
			idx++
			if !r.c.Mine(idx) {
				continue
			}
			call := fmt.Sprintf(form, fn)
			env := drv.New(core.Scratch("c14dml"))
			env.Tx.Flags.SetQuiet(true)
			env.Exec("DECLARE w VIEW (id, c, d);")
			ins := mustParse("INSERT INTO w VALUES (@i, @x, 'keep')")
			for i, v := range al {
				// the first cell counts down: it never equals the row's position (the internal identity of the working rows)
				env.SetVar("i", value.NewInteger(int64(len(al)-1-i)))
				env.SetVar("x", v.Primary())
				env.Proc.Execute(env.Ctx, ins)
			}
			sel := env.Exec("SELECT id, c, " + call + " FROM w ORDER BY id;")
			if sel.Err != nil || sel.Panic != nil || len(sel.Views) != 1 {
				env.Close()
				continue // forms the function rejects are the subject of the other families
			}
			want := drv.Rows(sel.Views[0])
			payload := c14Payload{Family: "fn-dml", SQL: call}
			r.c.Eval("fn-dml|"+call, true)
			upd := env.Exec("UPDATE w SET d = " + call + "; SELECT id, c, d FROM w ORDER BY id;")
			if upd.Err != nil || upd.Panic != nil || len(upd.Views) != 1 {
				r.c.Violate("fn-dml:update-fails:"+fn, fmt.Sprintf("SELECT id, c, %s FROM w succeeds, UPDATE w SET d = %s fails: %v %v", call, call, upd.Err, upd.Panic), payload)
			} else if got := drv.Rows(upd.Views[0]); drv.RowsKey(got) != drv.RowsKey(want) {
				r.c.Violate("fn-dml:update-stores-other-values:"+fn, fmt.Sprintf("UPDATE w SET d = %s leaves (id, c, d) = %s; SELECT id, c, %s gave %s", call, clip(drv.RowsKey(got)), call, clip(drv.RowsKey(want))), payload)
			}
			del := env.Exec("DELETE FROM w WHERE (" + call + ") IS NULL; SELECT id FROM w ORDER BY id;")
			if del.Err == nil && del.Panic == nil && len(del.Views) == 1 {
				var keep []string
				for _, row := range want {
					if row[2].K != rv.Null {
						keep = append(keep, row[0].Key())
					}
				}
				var got []string
				for _, row := range drv.Rows(del.Views[0]) {
					got = append(got, row[0].Key())
				}
				if strings.Join(got, ",") != strings.Join(keep, ",") {
					r.c.Violate("fn-dml:delete-removes-other-rows:"+fn, fmt.Sprintf("DELETE FROM w WHERE (%s) IS NULL keeps ids %v; the rows for which SELECT computed a non-NULL value are %v", call, got, keep), payload)
				}
			} else {
				r.c.Violate("fn-dml:delete-fails:"+fn, fmt.Sprintf("DELETE FROM w WHERE (%s) IS NULL fails: %v %v", call, del.Err, del.Panic), payload)
			}
			env.Close()
		}
	}
}

func (r *c14Runner) familyFnCell(thorough bool) {
	al := c14Args(thorough)
	cells := r.makeTable(al)
	forms := []string{}
	for _, fn := range c14Functions() {
		forms = append(forms, fmt.Sprintf("SELECT %s(c) FROM v", fn), fmt.Sprintf("SELECT %s(c, c) FROM v", fn), fmt.Sprintf("SELECT %s(c, 1) FROM v", fn))
	}
	aggs := []string{"COUNT", "MIN", "MAX", "SUM", "AVG", "STDEV", "STDEVP", "VAR", "VARP", "MEDIAN"}
	for _, a := range aggs {
		forms = append(forms, fmt.Sprintf("SELECT %s(c) FROM v", a), fmt.Sprintf("SELECT %s(DISTINCT c) FROM v", a), fmt.Sprintf("SELECT id, %s(c) OVER (ORDER BY id) FROM v", a),
			fmt.Sprintf("SELECT id, %s(c) OVER (ORDER BY id ROWS BETWEEN 1 PRECEDING AND 1 FOLLOWING) FROM v", a), fmt.Sprintf("SELECT c, %s(id) FROM v GROUP BY c", a))
	}
	forms = append(forms,
		"SELECT LISTAGG(c, ',') FROM v", "SELECT LISTAGG(c, ',') WITHIN GROUP (ORDER BY c) FROM v", "SELECT JSON_AGG(c) FROM v", "SELECT id, LISTAGG(c, ',') OVER (ORDER BY id) FROM v",
		"SELECT id, FIRST_VALUE(c) OVER (ORDER BY id), LAST_VALUE(c) OVER (ORDER BY id), NTH_VALUE(c, 2) OVER (ORDER BY id), LAG(c) OVER (ORDER BY id), LEAD(c, 2, 'd') OVER (ORDER BY id) FROM v",
		"SELECT id, RANK() OVER (ORDER BY c), DENSE_RANK() OVER (ORDER BY c), ROW_NUMBER() OVER (PARTITION BY c), CUME_DIST() OVER (ORDER BY c), PERCENT_RANK() OVER (ORDER BY c), NTILE(3) OVER (ORDER BY c) FROM v",
		"SELECT id, COUNT(*) OVER (PARTITION BY c) FROM v",
		"SELECT DISTINCT c FROM v", "SELECT c FROM v ORDER BY c, id", "SELECT c FROM v ORDER BY c DESC NULLS FIRST LIMIT 3 WITH TIES", "SELECT c FROM v UNION SELECT c FROM v", "SELECT c FROM v EXCEPT SELECT c FROM v WHERE id < 3",
		"SELECT a.c, b.c FROM v a JOIN v b ON a.c = b.c", "SELECT c FROM v WHERE c IN (SELECT c FROM v WHERE id > 2)", "SELECT c FROM v WHERE c BETWEEN 0 AND 'b'", "SELECT c || c, c + 1, -c, c = c, c IS NULL, c LIKE 'a%' FROM v",
		"SELECT CASE c WHEN 1 THEN 'one' WHEN 'a' THEN 'A' ELSE c END FROM v", "SELECT c, (SELECT MAX(x.c) FROM v x WHERE x.id < v.id) FROM v",
	)
	var idx int64
	for _, f := range forms {
		idx++
		if !r.c.Mine(idx) {
			continue
		}
		if r.c.Expired() {
			r.c.Incomplete("time budget reached in family fn-cell")
			return
		}
		stmts, _, perr := parser.Parse(f, "", false, false)
		if perr != nil {
			continue
		}
		before := astKey(stmts)
		r.reg.ptrs = map[uintptr]string{}
		r.reg.hits = r.reg.hits[:0]
		for i, p := range cells {
			r.reg.add(p, fmt.Sprintf("the cell of row %d of table v", i))
		}
		walkPrimaries(stmts, func(p value.Primary) { r.reg.add(p, "a literal of the program text") })
		out1, err1 := r.exec(stmts)
		out2, err2 := r.exec(stmts)
		payload := c14Payload{Family: "fn-cell", SQL: f}
		r.c.Eval("fn-cell|"+f, true)
		cls := "fn-cell:" + strings.SplitN(strings.TrimPrefix(f, "SELECT "), "(", 2)[0]
		if len(r.reg.hits) > 0 {
			r.c.Violate("provenance:"+r.reg.hits[0][strings.Index(r.reg.hits[0], "discarded by"):], fmt.Sprintf("%s: %s", f, r.reg.hits[0]), payload)
		}
		if astKey(stmts) != before {
			r.c.Violate("syntax-tree-edited-by-evaluation:"+cls, f+": the stored syntax tree differs after evaluation", payload)
		}
		if out1 != out2 || errText(err1) != errText(err2) {
			r.c.Violate("second-evaluation-differs:"+cls, fmt.Sprintf("%s: first evaluation gives %q (%v), second %q (%v)", f, clip(out1), err1, clip(out2), err2), payload)
		}
		// the table still holds what it held
		view, err := r.env.Proc.ReferenceScope.GetTemporaryTable(parser.Identifier{Literal: "v"})
		if err != nil || len(view.RecordSet) != len(al) {
			r.c.Violate("table-changed-by-reading:"+cls, f+": table v changed its shape", payload)
			continue
		}
		for i, rec := range view.RecordSet {
			if !rv.SameValue(rv.FromPrimary(rec[1][0]), al[i]) {
				r.c.Violate("table-changed-by-reading:"+cls, fmt.Sprintf("%s: row %d of v holds %s afterwards, it held %s", f, i, rv.FromPrimary(rec[1][0]).Key(), al[i].Key()), payload)
				break
			}
		}
	}
}

// statements executed twice from one syntax tree, each on a fresh process image with the same setup
var c14Twice = []struct{ setup, sql string }{
	{"", "SELECT a, b FROM t WHERE a > 1 ORDER BY b DESC LIMIT 1 + 1 OFFSET 1 - 1"},
	{"", "SELECT a FROM t ORDER BY a FETCH FIRST 2 ROWS ONLY"},
	{"", "SELECT a FROM t LIMIT 50 PERCENT"},
	{"", "SELECT a, COUNT(*) OVER (), COUNT(*) OVER (PARTITION BY b), NTILE(2) OVER (ORDER BY a), NTH_VALUE(a, 2) OVER (ORDER BY a), LAG(a, 1, 0) OVER (ORDER BY a) FROM t"},
	{"", "SELECT b, COUNT(*), SUM(a), LISTAGG(a, ',') FROM t GROUP BY b HAVING COUNT(*) > 0 ORDER BY b"},
	{"", "SELECT CASE WHEN a BETWEEN 1 AND 2 THEN 'lo' WHEN a IN (3, 4) THEN 'hi' ELSE 'x' END, a || '-' || b, a LIKE '%1' FROM t"},
	{"", "WITH RECURSIVE r (n) AS (SELECT 1 UNION ALL SELECT n + 1 FROM r WHERE n < 3) SELECT n FROM r"},
	{"", "SELECT a FROM t WHERE EXISTS (SELECT 1 FROM u WHERE u.a = t.a) UNION ALL SELECT a FROM u"},
	{"", "SELECT t.a, u.c FROM t LEFT JOIN u ON t.a = u.a; SELECT * FROM t NATURAL JOIN u;"},
	{"", "UPDATE t SET b = b || '!' WHERE a IN (SELECT a FROM u); SELECT * FROM t;"},
	{"", "INSERT INTO t VALUES (9, 'n'), (10, 'm'); DELETE FROM t WHERE a = 1; SELECT * FROM t;"},
	{"", "REPLACE INTO t (a, b) USING (a) VALUES (2, 'r'), (7, 's'); SELECT * FROM t;"},
	{"", "ALTER TABLE t ADD c DEFAULT a * 2; SELECT * FROM t;"},
	{"", "VAR @i := 0; WHILE @i < 2 DO SELECT a, COUNT(*) OVER () FROM t WHERE a > @i LIMIT 2; @i := @i + 1; END WHILE;"},
	{"", "VAR @i := 0; WHILE @i < 2 DO UPDATE t SET b = b || @i WHERE a = 1 + @i; @i := @i + 1; END WHILE; SELECT * FROM t;"},
	{"", "DECLARE f FUNCTION (@x) AS BEGIN RETURN (SELECT COUNT(*) FROM t WHERE a >= @x) + @x * 2; END; SELECT f(1), f(1), f(2);"},
	{"", "DECLARE agg AGGREGATE (c) AS BEGIN VAR @s := 0; WHILE @v IN c DO @s := @s + IFNULL(@v, 0); END WHILE; RETURN @s; END; SELECT agg(a), agg(a) FROM t; SELECT b, agg(a) OVER (PARTITION BY b) FROM t;"},
	{"", "PREPARE p FROM 'SELECT a, ? FROM t WHERE a > ? ORDER BY a LIMIT 2'; EXECUTE p USING 'x', 1; EXECUTE p USING 'x', 1; EXECUTE p USING 'y', 2;"},
	{"", "DECLARE c CURSOR FOR SELECT a, b FROM t ORDER BY a DESC LIMIT 2; OPEN c; VAR @x, @y; FETCH c INTO @x, @y; PRINT @x; CLOSE c; OPEN c; FETCH c INTO @x, @y; PRINT @x; CLOSE c;"},
	{"", "DECLARE c CURSOR FOR SELECT a FROM t; OPEN c; WHILE @x IN c DO PRINT @x; END WHILE; CLOSE c; OPEN c; WHILE @x IN c DO PRINT @x; END WHILE;"},
	{"", "SELECT DATETIME_FORMAT(DATETIME('2012-02-03 09:18:15'), '%Y'), YEAR(DATETIME('2012-02-03')), ADD_DAY(DATETIME('2012-02-03'), 1) FROM t"},
	{"", "VAR @d := DATETIME('2012-02-03 09:18:15'); VAR @i := 0; WHILE @i < 2 DO PRINT YEAR(@d); PRINT DATETIME('2020-01-01'); PRINT @d; @i := @i + 1; END WHILE;"},
	{"", "DECLARE w VIEW (d) AS SELECT DATETIME('2012-02-03'); SELECT d FROM w ORDER BY d; SELECT DATETIME('2020-01-01'); SELECT d FROM w;"},
}

// clauses that take a value: each template is run with plain literals and with variables holding the same values
// (the variables are printed afterwards: evaluation must not have changed them)
var c14ClauseTemplates = []string{
	"SELECT a FROM t ORDER BY a LIMIT $1",
	"SELECT a FROM t ORDER BY a LIMIT $2 OFFSET $1",
	"SELECT a FROM t ORDER BY a OFFSET $1",
	"SELECT a FROM t ORDER BY a LIMIT $3 OFFSET $1; SELECT a FROM t ORDER BY a DESC LIMIT $1",
	"SELECT a FROM t ORDER BY a LIMIT $2 PERCENT",
	"SELECT a FROM t ORDER BY b LIMIT $1 WITH TIES",
	"SELECT a FROM t ORDER BY a OFFSET $1 ROWS FETCH NEXT $2 ROWS ONLY",
	"SELECT a, NTILE($2) OVER (ORDER BY a) FROM t",
	"SELECT a, NTH_VALUE(a, $2) OVER (ORDER BY a) FROM t",
	"SELECT a, LAG(a, $1, $3) OVER (ORDER BY a), LEAD(a, $2) OVER (ORDER BY a) FROM t",
	"SELECT a, SUM(a) OVER (ORDER BY a ROWS BETWEEN $1 PRECEDING AND $2 FOLLOWING) FROM t",
	"SELECT a FROM t WHERE a BETWEEN $1 AND $2",
	"SELECT a FROM t WHERE a IN ($1, $3) OR a = ANY (SELECT a + $1 FROM u)",
	"SELECT CASE a WHEN $1 THEN $2 ELSE $3 END, IF(a = $2, $1, $3), COALESCE(NULL, $2), NULLIF(a, $1) FROM t",
	"SELECT a + $1 AS x, COUNT(*) FROM t GROUP BY a + $1 HAVING COUNT(*) >= $1 ORDER BY x",
	"SELECT SUBSTRING(b, $1, $1), LPAD(b, $3, '0'), ROUND(a / $3, $2), a % $2 FROM t",
	"DECLARE c CURSOR FOR SELECT a FROM t; OPEN c; VAR @v; FETCH ABSOLUTE $1 c INTO @v; PRINT @v; FETCH RELATIVE $1 c INTO @v; PRINT @v; VAR @z := 100 + 1; PRINT @z; FETCH ABSOLUTE $1 c INTO @v; PRINT @v; FETCH RELATIVE $2 c INTO @v; PRINT @v; VAR @y := 50 + 2; FETCH ABSOLUTE $2 c INTO @v; PRINT @v",
	"UPDATE t SET a = a + $1 WHERE a > $2; SELECT a FROM t",
	"INSERT INTO t VALUES ($3 + 4, 'n'); SELECT a FROM t WHERE a > $3",
}

func c14ClausePrograms() []struct{ setup, sql string } {
	var out []struct{ setup, sql string }
	for _, t := range c14ClauseTemplates {
		lit := strings.NewReplacer("$1", "1", "$2", "2", "$3", "3").Replace(t)
		va := "VAR @p1 := 1; VAR @p2 := 2; VAR @p3 := 3; " + strings.NewReplacer("$1", "@p1", "$2", "@p2", "$3", "@p3").Replace(t) + "; PRINT @p1; PRINT @p2; PRINT @p3;"
		out = append(out, struct{ setup, sql string }{"", lit}, struct{ setup, sql string }{"", va})
	}
	// built-in commands and flag statements evaluate an expression, convert it and release the temporary
	for _, q := range []string{
		"VAR @d := '.'; CHDIR @d; CHDIR '.'; PRINT @d; SELECT a, b FROM t",
		"VAR @s := 'x%sy'; PRINTF @s USING 'a'; PRINTF 'l%s' USING @s; PRINT @s; ECHO @s; PRINT @s",
		"VAR @f := '%Y'; SET @@DATETIME_FORMAT TO @f; ADD @f TO @@DATETIME_FORMAT; REMOVE @f FROM @@DATETIME_FORMAT; PRINT @f; SHOW @@DATETIME_FORMAT",
		"VAR @e := 'SELECT 1'; EXECUTE @e; EXECUTE @e; PRINT @e",
		"VAR @n := 2; SET @@CPU TO @n; SET @@LIMIT_RECURSION TO @n; PRINT @n; VAR @w := 1.5; SET @@WAIT_TIMEOUT TO @w; PRINT @w",
		"VAR @z := 'UTC'; SET @@TIMEZONE TO @z; PRINT @z; VAR @b := TRUE; SET @@ENCLOSE_ALL TO @b; PRINT @b; VAR @q := ','; SET @@DELIMITER TO @q; PRINT @q",
		"VAR @p := 't.csv'; SHOW FIELDS FROM t; PRINT @p; SHOW TABLES; SHOW VIEWS; SHOW CURSORS; SHOW FUNCTIONS; SHOW STATEMENTS; SHOW FLAGS; SHOW ENV; SHOW RUNINFO",
		"VAR @x := 'a'; SET @%C14VAR TO @x; PRINT @%C14VAR; UNSET @%C14VAR; PRINT @x",
		"VAR @m := 'oops'; TRIGGER ERROR 'E: ' || @m",
	} {
		out = append(out, struct{ setup, sql string }{"", q})
	}
	// table lists: the FROM clause of a stored statement is folded into joins at every evaluation
	for _, q := range []string{
		"SELECT t.a, u.c FROM t, u WHERE t.a = u.a",
		"SELECT t.a, u2.c, t2.b FROM t, (SELECT a, c FROM u) AS u2, t AS t2 WHERE t.a = u2.a AND t2.a = t.a",
		"SELECT x.a FROM t AS x, (SELECT a FROM u) AS s WHERE x.a = s.a",
		"SELECT t.a FROM t, u CROSS JOIN t AS t3 WHERE t.a = u.a AND t3.a = 1",
	} {
		out = append(out, struct{ setup, sql string }{"", q},
			struct{ setup, sql string }{"", "VAR @i := 0; WHILE @i < 2 DO " + q + "; @i := @i + 1; END WHILE;"},
			struct{ setup, sql string }{"", "DECLARE c CURSOR FOR " + q + "; OPEN c; CLOSE c; OPEN c; VAR @v1, @v2, @v3; CLOSE c;"},
			struct{ setup, sql string }{"", "PREPARE p FROM '" + q + "'; EXECUTE p; EXECUTE p;"})
	}
	return out
}

func (r *c14Runner) familyTwice() {
	dir := core.Scratch("c14twice")
	var idx int64
	for _, tc := range append(append([]struct{ setup, sql string }(nil), c14Twice...), c14ClausePrograms()...) {
		idx++
		if !r.c.Mine(idx) {
			continue
		}
		stmts, _, perr := parser.Parse(tc.sql, "", false, false)
		if perr != nil {
			// a clause that takes literals only (frame bounds) has no variable variant
			r.c.Add("twice_programs_not_in_grammar", 1)
			r.c.Observe("twice_programs_not_in_grammar_list", tc.sql)
			continue
		}
		before := astKey(stmts)
		var outs []string
		payload := c14Payload{Family: "twice", SQL: tc.sql}
		for run := 0; run < 2; run++ {
			drv.ClearDir(dir)
			drv.WriteFiles(dir, map[string]string{"t.csv": "a,b\n1,x\n2,y\n3,x\n4,z\n", "u.csv": "a,c\n2,p\n4,q\n5,r\n"})
			env := drv.NewText(dir)
			reg := &c14Registry{ptrs: map[uintptr]string{}}
			walkPrimaries(stmts, func(p value.Primary) { reg.add(p, "a literal of the program text") })
			vrt.DiscardHook = reg.hook
			_, err := env.Proc.Execute(query.ContextForStoringResults(env.Ctx), stmts)
			vrt.DiscardHook = r.reg.hook
			outs = append(outs, env.Out.String()+"|err="+errText(err))
			env.Close()
			if len(reg.hits) > 0 {
				r.c.Violate("provenance:"+reg.hits[0][strings.Index(reg.hits[0], "discarded by"):], fmt.Sprintf("%s: %s", tc.sql, reg.hits[0]), payload)
			}
		}
		r.c.Eval("twice|"+tc.sql, true)
		c14CheckPools(r.c, tc.sql, payload)
		cls := "twice:" + strings.Fields(tc.sql)[0]
		if after := astKey(stmts); after != before {
			r.c.Violate("syntax-tree-edited-by-evaluation:"+cls, fmt.Sprintf("%s: the stored syntax tree differs after execution", tc.sql), payload)
		}
		if outs[0] != outs[1] {
			r.c.Violate("second-evaluation-differs:"+cls, fmt.Sprintf("%s: executed twice from one syntax tree on identical data:\n first:  %q\n second: %q", tc.sql, clip(outs[0]), clip(outs[1])), payload)
		}
		if r.c.WantSample() {
			r.c.Sample(map[string]any{"family": "twice", "sql": tc.sql, "output": clip(outs[0])})
		}
	}
}

// values captured before a data-changing statement (a declared view, the rows of an open cursor, the restore point
// of a temporary table) must not change when the statement runs: expected outputs follow from the snapshot rule
var c14Snapshots = []struct{ sql, want string }{
	{"INSERT INTO t VALUES (5, 'q'); DECLARE w VIEW AS SELECT a, b FROM t; DECLARE c CURSOR FOR SELECT b FROM t ORDER BY a; OPEN c; UPDATE t SET b = 'X' || b; SELECT b FROM w ORDER BY a; VAR @v; FETCH c INTO @v; PRINT @v; FETCH c INTO @v; PRINT @v; ROLLBACK;",
		"b\nx\ny\nx\nz\nq\n'x'\n'y'\n"},
	{"INSERT INTO t VALUES (5, 'q'); DECLARE c CURSOR FOR SELECT a, b FROM t WHERE a > 3; OPEN c; REPLACE INTO t (a, b) USING (a) VALUES (4, 'R'), (5, 'S'); DELETE FROM t WHERE a = 5; VAR @x, @y; WHILE @x, @y IN c DO PRINT @y; END WHILE; ROLLBACK;",
		"'z'\n'q'\n"},
	{"DECLARE tt VIEW (k, s) AS SELECT 1, 'one'; COMMIT; UPDATE tt SET k = k + 1, s = 'two'; SELECT k, s FROM tt; ROLLBACK; SELECT k, s FROM tt;",
		"k,s\n2,two\nk,s\n1,one\n"},
	{"DECLARE tt VIEW (k) AS SELECT 1 UNION ALL SELECT 2; DECLARE c CURSOR FOR SELECT k FROM tt; OPEN c; UPDATE tt SET k = k * 10; VAR @k; FETCH c INTO @k; PRINT @k; SELECT k FROM tt;",
		"1\nk\n10\n20\n"},
}

// the same data read through two references in one statement must give each reference the stored values: the
// statement with one shared source (common table expression, declared view, cached file table) is compared with
// the statement in which every reference has a source of its own
var c14Reread = [][2]string{
	{"WITH c AS (SELECT a, b FROM t) SELECT b FROM c UNION ALL SELECT a FROM c", "SELECT b FROM (SELECT a, b FROM t) AS c UNION ALL SELECT a FROM (SELECT a, b FROM t) AS c"},
	{"WITH c AS (SELECT a, b FROM t) SELECT a FROM c UNION ALL SELECT b FROM c", "SELECT a FROM (SELECT a, b FROM t) AS c UNION ALL SELECT b FROM (SELECT a, b FROM t) AS c"},
	{"WITH c AS (SELECT a, b FROM t) SELECT x.b, y.a, y.b FROM (SELECT b, a FROM c) AS x JOIN c AS y ON x.a = y.a", "SELECT x.b, y.a, y.b FROM (SELECT b, a FROM t) AS x JOIN (SELECT a, b FROM t) AS y ON x.a = y.a"},
	{"WITH c AS (SELECT a, b FROM t) SELECT a, b FROM c WHERE b IN (SELECT b FROM c WHERE a > 1)", "SELECT a, b FROM t WHERE b IN (SELECT b FROM (SELECT a, b FROM t) AS c WHERE a > 1)"},
	{"WITH c AS (SELECT a, b FROM t) SELECT a, (SELECT MAX(b) FROM c AS d WHERE d.a <= c.a) FROM c", "SELECT a, (SELECT MAX(b) FROM (SELECT a, b FROM t) AS d WHERE d.a <= c.a) FROM t AS c"},
	{"DECLARE w VIEW AS SELECT a, b FROM t; SELECT b FROM w UNION ALL SELECT a FROM w; SELECT a, b FROM w", "SELECT b FROM t UNION ALL SELECT a FROM t; SELECT a, b FROM t"},
	{"SELECT b FROM t UNION ALL SELECT a FROM t; SELECT x.b, y.a FROM t AS x JOIN t AS y ON x.a = y.a; SELECT a, b FROM t", "SELECT b FROM (SELECT a, b FROM t) AS s UNION ALL SELECT a FROM (SELECT a, b FROM t) AS s; SELECT x.b, y.a FROM (SELECT a, b FROM t) AS x JOIN (SELECT a, b FROM t) AS y ON x.a = y.a; SELECT a, b FROM (SELECT a, b FROM t) AS s"},
	{"WITH RECURSIVE r (n, m) AS (SELECT 1, 10 UNION ALL SELECT n + 1, m + 10 FROM r WHERE n < 3) SELECT m FROM r UNION ALL SELECT n FROM r", "SELECT 10 UNION ALL SELECT 20 UNION ALL SELECT 30 UNION ALL SELECT 1 UNION ALL SELECT 2 UNION ALL SELECT 3"},
}

func (r *c14Runner) familyReread() {
	dir := core.Scratch("c14reread")
	for i, pair := range c14Reread {
		if !r.c.Mine(int64(i)) {
			continue
		}
		var outs [2]string
		for k := 0; k < 2; k++ {
			drv.ClearDir(dir)
			drv.WriteFiles(dir, map[string]string{"t.csv": "a,b\n1,x\n2,y\n3,x\n4,z\n"})
			env := drv.NewText(dir)
			env.Tx.Flags.ExportOptions.Format = option.CSV
			env.Tx.Flags.ExportOptions.WithoutHeader = true
			env.Tx.Flags.SetQuiet(true)
			res := env.Exec(pair[k])
			env.Close()
			outs[k] = strings.ReplaceAll(res.Out, "\r", "") + "|err=" + errText(res.Err)
		}
		r.c.Eval("reread|"+pair[0], true)
		if outs[0] != outs[1] {
			r.c.Violate("shared-source-read-twice-differs:"+fmt.Sprint(i), fmt.Sprintf("%s\n prints %q;\nthe same statement with a source of its own for every reference\n%s\n prints %q", pair[0], clip(outs[0]), pair[1], clip(outs[1])),
				c14Payload{Family: "reread", SQL: pair[0]})
		}
	}
}

func (r *c14Runner) familySnapshot() {
	dir := core.Scratch("c14snap")
	for i, tc := range c14Snapshots {
		if !r.c.Mine(int64(i)) {
			continue
		}
		drv.ClearDir(dir)
		drv.WriteFiles(dir, map[string]string{"t.csv": "a,b\n1,x\n2,y\n3,x\n4,z\n"})
		env := drv.NewText(dir)
		env.Tx.Flags.ExportOptions.Format = option.CSV
		env.Tx.Flags.SetQuiet(true)
		res := env.Exec(tc.sql)
		env.Close()
		r.c.Eval("snapshot|"+tc.sql, true)
		got := strings.ReplaceAll(res.Out, "\r", "")
		if res.Err != nil || got != tc.want {
			r.c.Violate("snapshot-changed-by-later-statement:"+fmt.Sprint(i), fmt.Sprintf("%s\n prints %q (err=%v); values captured before the data-changing statement must stay as they were: %q", tc.sql, got, res.Err, tc.want),
				c14Payload{Family: "snapshot", SQL: tc.sql})
		}
	}
}

// c14CheckPools reports objects that were handed to value.Discard while they were already in their pool.
func (r *c14Runner) checkLive(what string, payload any) {
	for _, h := range r.poolHits {
		r.c.Violate("live-object-in-pool:"+h[strings.Index(h, "value.Discard by")+17:], fmt.Sprintf("%s: %s and is still in its pool: later values will be written into it", what, h), payload)
	}
	r.poolHits = nil
}

func c14CheckPools(c *core.Ctx, what string, payload any) {
	for _, d := range vrt.DoubleDiscards() {
		c.Violate("double-discard:"+d, fmt.Sprintf("%s: an object was handed to value.Discard twice without being re-issued in between (%s): the pool now holds it twice and two later values will be one object", what, d), payload)
	}
}

func c14Run(c *core.Ctx) {
	vrt.TrackPools(true)
	defer vrt.TrackPools(false)
	r := newC14Runner(c)
	defer r.close()
	r.familySnapshot()
	c14CheckPools(c, "family snapshot", c14Payload{Family: "snapshot"})
	r.familyTwice()
	c14CheckPools(c, "family twice", c14Payload{Family: "twice"})
	c14FailureFamily(c, r)
	r.familyReread()
	c14CheckPools(c, "family reread", c14Payload{Family: "reread"})
	r.familyFnDML(c.Thorough())
	r.checkLive("family fn-dml", c14Payload{Family: "fn-dml"})
	c14CheckPools(c, "family fn-dml (functions inside UPDATE and DELETE)", c14Payload{Family: "fn-dml"})
	r.familyFnCell(c.Thorough())
	r.checkLive("family fn-cell", c14Payload{Family: "fn-cell"})
	c14CheckPools(c, "family fn-cell (functions over table cells)", c14Payload{Family: "fn-cell"})
	r.familyFnLit(c.Thorough())
	r.checkLive("family fn-lit", c14Payload{Family: "fn-lit"})
	c14CheckPools(c, "family fn-lit (functions over literals)", c14Payload{Family: "fn-lit"})
	r.familyFnVar(c.Thorough())
	r.checkLive("family fn-var", c14Payload{Family: "fn-var"})
	c14CheckPools(c, "family fn-var (functions over variables)", c14Payload{Family: "fn-var"})
	if c.WantSample() {
		c.Sample(map[string]any{"family": "fn-var", "example": "SELECT SUBSTRING(@a, @b, @c) with every (a, b, c) over the alphabet, evaluated twice"})
	}
}

func c14Replay(c *core.Ctx, payload json.RawMessage) {
	if c14ParallelReplay(c, payload) || c14PrimedReplay(c, payload) || c14ReleaseReplay(c, payload) || c14UdfReplay(c, payload) || c14CachedReplay(c, payload) {
		return
	}
	var p c14Payload
	if err := json.Unmarshal(payload, &p); err != nil {
		fmt.Println(err)
		return
	}
	fmt.Printf("replaying family %s: %s %v\n", p.Family, p.SQL, p.Args)
	r := newC14Runner(c)
	defer r.close()
	switch p.Family {
	case "snapshot":
		r.familySnapshot()
	case "twice":
		r.familyTwice()
	case "fn-cell":
		r.familyFnCell(true)
	case "fn-lit":
		r.familyFnLit(true)
	default:
		r.familyFnVar(true)
	}
}
