//go:build verifx

package checks

import (
	"encoding/json"
	"fmt"

	"verif/harness/internal/core"
)

// Extra family for C05: the data-changing statement is the body of a user function that a query evaluates once per
// record, with the records spread over 2-3 worker goroutines - several statements of one transaction on one table
// are in flight at once. Every statement is acknowledged, so every one of them must be in the table afterwards.
//
// The goroutine-schedule explorer (C12's) runs ALL schedules with at most one non-default scheduling decision
// (the acquisition of every mutex is a scheduling point); the statements are chosen so that their combined effect
// does not depend on their order. Oracle: the table, read in a fixed order, and the number of calls equal the
// single-worker run's in every schedule.
func init() {
	core.Extend("C05", "family parallel: INSERT / REPLACE / UPDATE / DELETE / INSERT-SELECT as the body of a user function evaluated per record by 3 workers (6 records), on a temporary table and on a file table; "+
		"all goroutine schedules with at most 1 non-default decision (thorough: 2); oracle: the table read in a fixed order equals the single-worker run's in every schedule", c05ParallelRun)
}

func c05ParallelScenarios() []goxScenario {
	t := csvTable("a", 6, func(i int) string { return fmt.Sprint(i + 1) })
	logf := "id,v\n1,0\n2,0\n3,0\n4,0\n5,0\n6,0\n7,0\n"
	var out []goxScenario
	for _, d := range []struct{ name, dml string }{
		{"insert", "INSERT INTO %[1]s VALUES (@x + 10, @x * 2)"},
		{"replace-new-keys", "REPLACE INTO %[1]s (id, v) USING (id) VALUES (@x + 10, @x * 2)"},
		{"replace-existing-keys", "REPLACE INTO %[1]s (id, v) USING (id) VALUES (@x, @x * 2)"},
		{"update", "UPDATE %[1]s SET v = v + @x WHERE id <= 2 OR id = @x"},
		{"delete", "DELETE FROM %[1]s WHERE id = @x AND id <> 3"},
		{"insert-select", "INSERT INTO %[1]s SELECT @x + 20, COUNT(*) * 0 FROM t"},
	} {
		for _, tbl := range []struct{ name, ref, setup string }{
			{"temporary", "log", "DECLARE log VIEW (id, v); INSERT INTO log VALUES (1, 0), (2, 0), (3, 0), (4, 0), (5, 0), (6, 0), (7, 0);"},
			{"file", "`log.csv`", ""},
		} {
			files := map[string]string{"t.csv": t}
			if tbl.name == "file" {
				files["log.csv"] = logf
			}
			sql := tbl.setup + " DECLARE f FUNCTION (@x) AS BEGIN " + fmt.Sprintf(d.dml, tbl.ref) + "; RETURN @x; END; SELECT COUNT(f(a)) FROM t; SELECT id, v FROM " + tbl.ref + " ORDER BY id + 0, v + 0;"
			out = append(out, goxScenario{Name: "parallel-" + d.name + "-" + tbl.name, Files: files, SQL: sql, CPU: 3})
		}
	}
	return out
}

func c05ParallelRun(c *core.Ctx) { goxFamilyRun(c, "parallel", c05ParallelScenarios(), false) }

func c05ParallelReplay(c *core.Ctx, payload json.RawMessage) bool {
	return goxFamilyReplay(c, "parallel", false, payload)
}
