//go:build verifx

package checks

import (
	"encoding/json"
	"fmt"

	"github.com/mithrandie/csvq/lib/query"

	"verif/harness/internal/core"
	"verif/harness/internal/gox"
)

// Extra family for C05: the data-changing statement is the body of a user function that a query evaluates once per
// record, with the records spread over 2-3 worker goroutines - several statements of one transaction on one table
// are in flight at once. Every statement is acknowledged, so every one of them must be in the table afterwards.
//
// The goroutine-schedule explorer (C12's) runs ALL schedules with at most one non-default scheduling decision
// (the acquisition of every mutex is a scheduling point); the statements are chosen so that their combined effect
// does not depend on their order. Oracle: the table, read in a fixed order, and the number of calls equal the
// single-worker run's in every schedule.
func init() {
	core.Extend("C05", "family parallel: INSERT / REPLACE / UPDATE / DELETE / INSERT-SELECT as the body of a user function evaluated per record by 3 workers (6 records), on a temporary table and on a file table; "+
		"all goroutine schedules with at most 1 non-default decision; oracle: the table read in a fixed order equals the single-worker run's in every schedule", c05ParallelRun)
}

func c05ParallelScenarios() []goxScenario {
	t := csvTable("a", 6, func(i int) string { return fmt.Sprint(i + 1) })
	logf := "id,v\n1,0\n2,0\n3,0\n4,0\n5,0\n6,0\n7,0\n"
	var out []goxScenario
	for _, d := range []struct{ name, dml string }{
		{"insert", "INSERT INTO %[1]s VALUES (@x + 10, @x * 2)"},
		{"replace-new-keys", "REPLACE INTO %[1]s (id, v) USING (id) VALUES (@x + 10, @x * 2)"},
		{"replace-existing-keys", "REPLACE INTO %[1]s (id, v) USING (id) VALUES (@x, @x * 2)"},
		{"update", "UPDATE %[1]s SET v = v + @x WHERE id <= 2 OR id = @x"},
		{"delete", "DELETE FROM %[1]s WHERE id = @x AND id <> 3"},
		{"insert-select", "INSERT INTO %[1]s SELECT @x + 20, COUNT(*) * 0 FROM t"},
	} {
		for _, tbl := range []struct{ name, ref, setup string }{
			{"temporary", "log", "DECLARE log VIEW (id, v); INSERT INTO log VALUES (1, 0), (2, 0), (3, 0), (4, 0), (5, 0), (6, 0), (7, 0);"},
			{"file", "`log.csv`", ""},
		} {
			files := map[string]string{"t.csv": t}
			if tbl.name == "file" {
				files["log.csv"] = logf
			}
			sql := tbl.setup + " DECLARE f FUNCTION (@x) AS BEGIN " + fmt.Sprintf(d.dml, tbl.ref) + "; RETURN @x; END; SELECT COUNT(f(a)) FROM t; SELECT id, v FROM " + tbl.ref + " ORDER BY id + 0, v + 0;"
			out = append(out, goxScenario{Name: "parallel-" + d.name + "-" + tbl.name, Files: files, SQL: sql, CPU: 3})
		}
	}
	return out
}

type c05ParallelPayload struct {
	Family   string      `json:"family"`
	Scenario goxScenario `json:"scenario"`
	Choices  []int       `json:"choices"`
}

func c05ParallelRun(c *core.Ctx) {
	prev := query.GetGoroutineManager().MinimumRequiredPerCore
	query.GetGoroutineManager().MinimumRequiredPerCore = 2
	defer func() { query.GetGoroutineManager().MinimumRequiredPerCore = prev }()
	dir := core.Scratch("c05parallel")
	for i, sc := range c05ParallelScenarios() {
		if !c.Mine(int64(i)) {
			continue
		}
		want, _ := goxRunOnce(dir, sc, 1, false, nil)
		e := &gox.Explorer{MaxPreempt: 1, MaxMapDev: 0, MaxSwitch: 1, Stop: c.Expired}
		var got string
		nontrivial := int64(0)
		e.ExploreRunner(func(prefix []int) gox.Execution {
			var ex gox.Execution
			got, ex = goxRunOnce(dir, sc, sc.CPU, true, prefix)
			return ex
		}, func(choices []int, ex gox.Execution) {
			if ex.Tasks > 1 {
				nontrivial++
			}
			p := c05ParallelPayload{"parallel", sc, choices}
			if ex.Deadlock {
				c.Violate("parallel:"+sc.Name+":deadlock", fmt.Sprintf("scenario %s: every live task is blocked under choices %v", sc.Name, choices), p)
			}
			if got != want {
				c.Violate("parallel:"+sc.Name+":table-differs-from-the-single-worker-run", fmt.Sprintf("scenario %s %q with %d workers, choices %v:\n--- single worker:\n%s--- this schedule:\n%s", sc.Name, sc.SQL, sc.CPU, choices, want, got), p)
			}
		})
		c.EvalN(int64(e.Executions), nontrivial)
		c.Observe("parallel_family", fmt.Sprintf("%s: %d schedules, %d tasks max", sc.Name, e.Executions, e.MaxTasks))
		if e.Capped {
			c.Incomplete("family parallel, scenario " + sc.Name + ": time budget reached before all schedules within the bound were run")
		}
		if e.Divergences > 0 {
			c.Incomplete(fmt.Sprintf("family parallel, scenario %s: %d executions diverged from their choice vector", sc.Name, e.Divergences))
		}
	}
}

func c05ParallelReplay(c *core.Ctx, payload json.RawMessage) bool {
	var p c05ParallelPayload
	if json.Unmarshal(payload, &p) != nil || p.Family != "parallel" {
		return false
	}
	prev := query.GetGoroutineManager().MinimumRequiredPerCore
	query.GetGoroutineManager().MinimumRequiredPerCore = 2
	defer func() { query.GetGoroutineManager().MinimumRequiredPerCore = prev }()
	dir := core.Scratch("c05parallel-replay")
	want, _ := goxRunOnce(dir, p.Scenario, 1, false, nil)
	got, ex := goxRunOnce(dir, p.Scenario, p.Scenario.CPU, true, p.Choices)
	fmt.Printf("replaying family parallel, scenario %s: %d choice points, equal to the single-worker run: %v\n", p.Scenario.Name, len(ex.Points), got == want)
	if got != want {
		c.Violate("parallel:"+p.Scenario.Name+":table-differs-from-the-single-worker-run", fmt.Sprintf("--- single worker:\n%s--- replayed schedule:\n%s", want, got), p)
	}
	return true
}
