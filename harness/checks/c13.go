//go:build verifx

package checks

import (
	"encoding/json"
	"fmt"
	"os"
	"path/filepath"
	"regexp"
	"sort"
	"strings"
	"time"

	"github.com/mithrandie/csvq/lib/query"

	"verif/harness/internal/core"
	"verif/harness/internal/gox"
)

func init() {
	core.Register(&core.Check{
		ID:             "C13",
		ThoroughBudget: 45 * time.Minute,
		Level:          "exploration",
		Rule: "the C12 scenarios plus file-loading scenarios are executed by a -race build of the real query code under the goroutine-schedule explorer, whose hand-offs are invisible to the race detector (spin on plain memory in norace functions) " +
			"while csvq's own mutexes are really taken: for EVERY schedule with at most S non-default scheduling decisions (S=1 quick, 2 thorough) and every map order with at most one deviating site the detector's report log must stay empty; " +
			"each scenario is additionally run free (no scheduler, 4 workers, larger tables) a few times. one case = one (scenario, choice vector); non-trivial = more than one task ran",
		Assume: []string{"the Go race detector's happens-before analysis is the oracle for one execution; the enumeration supplies the executions (orders of mutex acquisition and error-path timing decide which incidental lock edges exist)",
			"only a -race build can decide this property: if the race-enabled harness cannot be built the check reports no verdict"},
		Run:         c13Run,
		Replay:      c13Replay,
		WorkerProcs: 2,
	})
}

var reRaceFrame = regexp.MustCompile(`(?m)^\s+(github\.com/mithrandie/csvq/\S+)\(\)\n\s+\S*/(lib/[^\s:]+:\d+)`)

// raceSignature reduces one detector report to the unordered pair of the first csvq frames of its two stacks.
func raceSignature(report string) string {
	parts := regexp.MustCompile(`(?m)^(Previous |Read at|Write at|Goroutine )`).Split(report, -1)
	var tops []string
	for _, p := range parts {
		if m := reRaceFrame.FindStringSubmatch(p); m != nil {
			fn := m[1]
			fn = strings.TrimPrefix(fn, "github.com/mithrandie/csvq/lib/")
			fn = regexp.MustCompile(`\.func\d+(\.\d+)*$`).ReplaceAllString(fn, "")
			line := regexp.MustCompile(`:\d+$`).ReplaceAllString(m[2], "")
			tops = append(tops, fn+"@"+line)
			if len(tops) == 2 {
				break
			}
		}
	}
	sort.Strings(tops)
	return "race:" + strings.Join(tops, " <-> ")
}

func raceLogPath() string {
	// GORACE=log_path=<base> makes the runtime write to <base>.<pid>
	for _, kv := range strings.Fields(os.Getenv("GORACE")) {
		if strings.HasPrefix(kv, "log_path=") {
			return fmt.Sprintf("%s.%d", strings.TrimPrefix(kv, "log_path="), os.Getpid())
		}
	}
	return ""
}

type raceWatcher struct {
	path string
	off  int64
}

// newReports returns the detector reports written since the last call.
func (w *raceWatcher) newReports() []string {
	b, err := os.ReadFile(w.path)
	if err != nil || int64(len(b)) <= w.off {
		return nil
	}
	txt := string(b[w.off:])
	w.off = int64(len(b))
	var out []string
	for _, r := range strings.Split(txt, "==================") {
		if strings.Contains(r, "WARNING: DATA RACE") {
			out = append(out, r)
		}
	}
	return out
}

func c13Scenarios() []goxScenario {
	sc := goxScenarios()
	// file loads of 2+ rows through both loader goroutine pairs, and a correlated subquery evaluated by several workers
	big := csvTable("a,g,b", 12, func(i int) string { return fmt.Sprintf("%d,k%d,%d", i+1, i%3, i*3%7) })
	small := csvTable("a,g,b", 6, func(i int) string { return fmt.Sprintf("%d,k%d,%d", i+1, i%3, i*3%7) })
	sc = append(sc,
		goxScenario{Name: "load-csv", Files: map[string]string{"t.csv": big}, SQL: "SELECT COUNT(*) FROM t", CPU: 2},
		goxScenario{Name: "load-jsonl", Files: map[string]string{"j.jsonl": "{\"a\":1}\n{\"a\":2}\n{\"a\":3}\n{\"a\":4}\n"}, SQL: "SELECT COUNT(*) FROM j", CPU: 2},
		// loads that fail after some good records: the reading and the converting goroutine both see the failure
		goxScenario{Name: "load-csv-uneven-record", Files: map[string]string{"bad.csv": csvTable("a,g,b", 12, func(i int) string {
			if i == 7 {
				return "8,k,1,extra"
			}
			return fmt.Sprintf("%d,k%d,%d", i+1, i%3, i)
		})}, SQL: "SELECT COUNT(*) FROM bad", CPU: 2},
		goxScenario{Name: "load-csv-unterminated-quote", Files: map[string]string{"bad.csv": "a,b\n1,x\n2,y\n3,\"z\n4,w\n"}, SQL: "SELECT COUNT(*) FROM bad", CPU: 2},
		goxScenario{Name: "load-ltsv-and-fixed", Files: map[string]string{"l.ltsv": "a:1\tb:2\na:3\tb:4\nbroken\na:5\n", "f.txt": "a  b\n1  x\n2  y\n3  z\n"}, SQL: "SELECT COUNT(*) FROM l; SELECT COUNT(*) FROM FIXED('SPACES', `f.txt`);", CPU: 2},
		goxScenario{Name: "load-jsonl-bad-line", Files: map[string]string{"j.jsonl": "{\"a\":1}\n{\"a\":2}\n{\"a\":\n{\"a\":4}\n"}, SQL: "SELECT COUNT(*) FROM j", CPU: 2},
		// a file read as an inline table inside a subquery that every worker evaluates
		goxScenario{Name: "inline-table-in-subquery", FreeRows: 800, Files: map[string]string{"t.csv": big, "u.csv": "a,c\n1,p\n3,q\n5,r\n"},
			SQL: "SELECT a FROM t WHERE EXISTS (SELECT 1 FROM CSV_INLINE(',', `u.csv`) i WHERE i.a = t.a); SELECT a FROM t WHERE a IN (SELECT a FROM CSV_INLINE(',', `u.csv`)); SELECT a, (SELECT COUNT(*) FROM JSON_INLINE('', '[{\"k\":1}]') j) FROM t;", CPU: 3},
		goxScenario{Name: "correlated-subquery", Files: map[string]string{"t.csv": big}, SQL: "SELECT a FROM t WHERE EXISTS (SELECT 1 FROM t z WHERE z.g = t.g AND z.a < t.a)", CPU: 3},
		goxScenario{Name: "error-in-two-records", Files: map[string]string{"t.csv": big}, SQL: "SELECT a, 10 / (b - 3) FROM t", CPU: 3},
		// built-in functions that keep process-wide state (random source, compiled-pattern, JSON-query and time-zone caches), one call per record on every worker
		goxScenario{Name: "functions-with-process-wide-state", FreeRows: 800, Files: map[string]string{"t.csv": big},
			SQL: "SELECT a, RAND() >= 0, RAND(1, 1 + a) > 0, REGEXP_MATCH(g, 'k[0-9]'), REGEXP_REPLACE(g, '[0-9]', 'x'), JSON_VALUE('a', '{\"a\":1}'), DATETIME_FORMAT(DATETIME('2012-02-03 04:05:06 +09:00'), '%Y'), NOW() IS NOT NULL, TRUNC_TIME(DATETIME('2012-02-03 04:05:06')) IS NOT NULL FROM t", CPU: 3},
		goxScenario{Name: "print-in-user-function-per-row", Files: map[string]string{"t.csv": big}, SQL: "DECLARE f FUNCTION (@x) AS BEGIN PRINT @x; RETURN @x; END; SELECT f(a) FROM t;", CPU: 3},
		goxScenario{Name: "variable-assignment-per-row", Files: map[string]string{"t.csv": big}, SQL: "VAR @v := 0; SELECT a, @v := @v + 1 FROM t;", CPU: 3},
		goxScenario{Name: "cursor-and-table-in-user-function-per-row", Files: map[string]string{"t.csv": big},
			SQL: "DECLARE f FUNCTION (@x) AS BEGIN DECLARE c CURSOR FOR SELECT @x + 1; OPEN c; VAR @y; FETCH c INTO @y; CLOSE c; DECLARE tt VIEW (n); INSERT INTO tt VALUES (@y); RETURN (SELECT n FROM tt); END; SELECT a, f(a) FROM t;", CPU: 3},
		// a cursor of the enclosing scope fetched by a user function that runs once per record on every worker
		goxScenario{Name: "outer-cursor-fetched-in-user-function-per-row", Files: map[string]string{"t.csv": big},
			SQL: "DECLARE cur CURSOR FOR SELECT a FROM t; OPEN cur; DECLARE nxt FUNCTION (@x) AS BEGIN VAR @v; FETCH cur INTO @v; RETURN @v; END; SELECT COUNT(*) FROM (SELECT nxt(a) AS n FROM t) s WHERE n IS NOT NULL;", CPU: 3},
		// ... and asked for its status (open, in range, count) by the other workers meanwhile
		goxScenario{Name: "outer-cursor-status-in-user-function-per-row", FreeRows: 800, Files: map[string]string{"t.csv": big},
			SQL: "DECLARE cur CURSOR FOR SELECT a FROM t; OPEN cur; DECLARE nxt FUNCTION (@x) AS BEGIN VAR @v; FETCH cur INTO @v; IF CURSOR cur IS IN RANGE THEN RETURN CURSOR cur COUNT + @v; END IF; IF CURSOR cur IS OPEN THEN RETURN -1; END IF; RETURN -2; END; SELECT COUNT(*) FROM (SELECT nxt(a) AS n FROM t) s WHERE n IS NOT NULL;", CPU: 3},
		// the parser called from every worker: a user function that EXECUTEs a text, evaluated per record
		goxScenario{Name: "execute-in-user-function-per-row", FreeRows: 800, Files: map[string]string{"t.csv": big},
			SQL: "DECLARE ex FUNCTION (@x) AS BEGIN VAR @r := 0; EXECUTE 'SELECT w' || @x || ' + 1 INTO @r FROM (SELECT ' || @x || ' AS w' || @x || ') AS s' || @x || ';'; RETURN @r; END; SELECT a, ex(a) FROM t;", CPU: 3},
		// one view per group, built by the group workers from the grouped view (whose header they share), each sorted by an expression
		goxScenario{Name: "aggregate-ordered-by-expression-per-group", FreeRows: 800, Files: map[string]string{"t.csv": small},
			SQL: "SELECT gg, LISTAGG(b, ',') WITHIN GROUP (ORDER BY a * 2) FROM (SELECT a % 40 AS gg, a, b FROM t) s GROUP BY gg;", CPU: 3},
		goxScenario{Name: "two-aggregates-ordered-by-different-expressions", FreeRows: 800, Files: map[string]string{"t.csv": small},
			SQL: "SELECT g, JSON_AGG(b) WITHIN GROUP (ORDER BY a * -1), LISTAGG(b, ',') WITHIN GROUP (ORDER BY b + a), COUNT(DISTINCT b + 1) FROM t GROUP BY g;", CPU: 3},
		goxScenario{Name: "user-function-per-row", FreeRows: 800, Files: map[string]string{"t.csv": big}, SQL: "DECLARE f FUNCTION (@x) AS BEGIN VAR @y := @x * 2; RETURN @y + 1; END; SELECT a, f(a) FROM t;", CPU: 3},
	)
	return sc
}

type c13Payload struct {
	Family   string      `json:"family,omitempty"` // the family that recorded the case (empty: the scenarios of this file)
	Scenario goxScenario `json:"scenario"`
	Choices  []int       `json:"choices"`
	Free     bool        `json:"free_running"`
	Report   string      `json:"report"`
}

func c13Run(c *core.Ctx) {
	if !raceEnabled {
		c.Incomplete("this binary was built without -race: C13 cannot be decided")
		return
	}
	w := &raceWatcher{path: raceLogPath()}
	if w.path == "" {
		c.Incomplete("GORACE log_path is not set: race reports cannot be collected")
		return
	}
	if f := os.Getenv("VERIF_C13_FAMILY"); f != "" && f != "main" {
		return // development: one family alone ("main" = the scenarios of this file alone)
	}
	prev := query.GetGoroutineManager().MinimumRequiredPerCore
	query.GetGoroutineManager().MinimumRequiredPerCore = 2
	defer func() { query.GetGoroutineManager().MinimumRequiredPerCore = prev }()
	dir := core.Scratch("c13")
	k := 0
	for _, sc := range c13Scenarios() {
		if sc.Thorough && !c.Thorough() {
			continue
		}
		k++
		// every worker takes its share of every scenario's schedule tree
		if only := os.Getenv("VERIF_C12_ONLY"); only != "" && only != sc.Name {
			continue
		}
		if !c.Thorough() && sc.Name == "user-aggregate-with-row-argument-over-partitions" {
			// nine tenths of the quick tier's executions under the race detector: the quick tier keeps the per-partition statement only
			sc.SQL = sc.SQL[:strings.Index(sc.SQL, " SELECT g, wsum")]
		}
		w.newReports() // anything written so far does not belong to this scenario
		// thorough: two non-default decisions where the all-default execution has at most 200 choice points (the
		// number of executions grows with its square, and the race build is slow); one decision otherwise
		maxS := 1
		if c.Thorough() {
			if _, probe := goxRunOnce(dir, sc, sc.CPU, true, nil); len(probe.Points) <= 200 {
				maxS = 2
			}
			c.Observe("scenarios_explored_with_two_decisions", fmt.Sprintf("%s: %v", sc.Name, maxS == 2))
		}
		e := &gox.Explorer{MaxPreempt: maxS, MaxMapDev: 1, MaxSwitch: maxS, Stop: c.Expired}
		e.Shard, e.NShards = c.Shard, c.N
		nontrivial := int64(0)
		report := func(choices []int, free bool) {
			for _, r := range w.newReports() {
				sig := raceSignature(r)
				c.Violate(sig, fmt.Sprintf("scenario %s %q, %d workers, choices %v (free running: %v):\n%s", sc.Name, sc.SQL, sc.CPU, choices, free, strings.TrimSpace(r)),
					c13Payload{Scenario: sc, Choices: choices, Free: free, Report: r})
			}
		}
		e.ExploreRunner(func(prefix []int) gox.Execution {
			_, ex := goxRunOnce(dir, sc, sc.CPU, true, prefix)
			return ex
		}, func(choices []int, ex gox.Execution) {
			if ex.Tasks > 1 {
				nontrivial++
			}
			report(choices, false)
		})
		// the same body without the scheduler, as the guidance asks: real threads, real thresholds lowered the same way
		// per worker process: 16 x 1 runs quick, 16 x 4 thorough
		free := 1
		if c.Thorough() {
			free = 4
		}
		fsc := sc
		if sc.FreeRows > 0 {
			// the same program over a table long enough for real threads to overlap
			fsc.Files = map[string]string{}
			for n, b := range sc.Files {
				fsc.Files[n] = b
			}
			fsc.Files["t.csv"] = csvTable("a,g,b", sc.FreeRows, func(i int) string { return fmt.Sprintf("%d,k%d,%d", i+1, i%3, i*3%7) })
		}
		for i := 0; i < free; i++ {
			goxRunOnce(dir, fsc, 4, false, nil)
			report(nil, true)
		}
		c.EvalN(int64(e.Executions+free), nontrivial)
		c.Add("free_running_executions", int64(free))
		c.Max("max_tasks", int64(e.MaxTasks))
		c.Observe("scenarios", sc.Name)
		c.Add("scheduled_executions["+sc.Name+"]", int64(e.Executions))
		if e.Capped {
			c.Incomplete("scenario " + sc.Name + ": time budget reached before all schedules within the bound were run")
		}
		if c.WantSample() {
			c.Sample(map[string]any{"scenario": sc.Name, "sql": sc.SQL, "workers": sc.CPU, "scheduled_executions": e.Executions, "free_running_executions": free})
		}
	}
	_ = filepath.Join
	// family builtin-calls: every built-in / aggregate / analytic function over a table split over real threads
	runs := 2
	if c.Thorough() {
		runs = 10
	}
	w.newReports()
	first := true
	goxFnFamily(c, runs, nil, func(call goxFnCall, sc goxScenario) {
		rs := w.newReports()
		if first {
			// the single-worker run comes first: what it leaves in the log is not a report about workers
			first = false
		}
		for _, r := range rs {
			c.Violate(raceSignature(r), fmt.Sprintf("scenario %s %q, 4 workers on real threads over %d rows:\n%s", sc.Name, sc.SQL, goxFnRows, strings.TrimSpace(r)),
				c13Payload{Scenario: sc, Free: true, Report: r})
		}
	})
}

func c13Replay(c *core.Ctx, payload json.RawMessage) {
	var p c13Payload
	if err := json.Unmarshal(payload, &p); err != nil {
		fmt.Println(err)
		return
	}
	if !raceEnabled {
		fmt.Println("replay needs the -race build (./check C13 --replay builds it)")
		return
	}
	w := &raceWatcher{path: raceLogPath()}
	prev := query.GetGoroutineManager().MinimumRequiredPerCore
	query.GetGoroutineManager().MinimumRequiredPerCore = 2
	defer func() { query.GetGoroutineManager().MinimumRequiredPerCore = prev }()
	dir := core.Scratch("c13")
	sc := p.Scenario
	if prep := c13FamilyPrep[p.Family]; prep != nil {
		var done func()
		sc, done = prep(sc)
		defer done()
	}
	w.newReports()
	runOnce := c13FamilyExecOf(p.Family)
	for i := 0; i < 3; i++ {
		if p.Free {
			runOnce(dir, sc, 4, false, nil)
		} else {
			runOnce(dir, sc, sc.CPU, true, p.Choices)
		}
	}
	for _, r := range w.newReports() {
		fmt.Println(strings.TrimSpace(r))
		c.Violate(raceSignature(r), r, p)
	}
}
