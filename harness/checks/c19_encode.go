package checks

import (
	"bytes"
	"fmt"
	"runtime/debug"
	"strings"

	"github.com/mithrandie/csvq/lib/option"
	"github.com/mithrandie/csvq/lib/query"
	"github.com/mithrandie/go-text"

	"verif/harness/internal/core"
	"verif/harness/internal/drv"
)

// Extra family for C19: writing a result. The other families keep result views in memory; here every view is
// encoded in every output format (what the CLI does with a SELECT result, --out and COMMIT), with column names and
// cell values that are awkward for some format: JSON paths in names (a.b, a[0], names that extend each other),
// empty and duplicate names, line breaks, delimiters, very wide and empty cells, zero columns worth of records.
func init() {
	core.Extend("C19", "family encode: result views over 16 column names (pairs and triples) x 10 cell values, empty result included, written by query.EncodeView in the 10 output formats x {default, without header / enclose all / pretty print / JSON escape variants}; "+
		"an encoder returns bytes or a documented error, it never panics", c19EncodeRun)
}

var c19EncNames = []string{"a", "a.b", "a.b.c", "a[0]", "a[1].b", "b", "", " ", "a b", "a,b", "a\tb", "1", "a..b", ".a", "a.", "日本"}
var c19EncValues = []string{"NULL", "1", "-1.5", "''", "'x'", "'a,b'", "'a\"b'", "'a\nb'", "'abc\r'", "'a\rb'", "'a\r\nb\r\n'", "'\r'", "'\n'", "'\t'", "TRUE", "DATETIME('2012-02-03 04:05:06')", "'" + strings.Repeat("w", 300) + "'", "'日本語'"}

type c19EncOpt struct {
	name string
	set  func(o *option.ExportOptions)
}

var c19EncFormats = []option.Format{option.CSV, option.TSV, option.FIXED, option.JSON, option.JSONL, option.LTSV, option.GFM, option.ORG, option.BOX, option.TEXT}

var c19EncOpts = []c19EncOpt{
	{"default", func(o *option.ExportOptions) {}},
	{"without-header", func(o *option.ExportOptions) { o.WithoutHeader = true }},
	{"enclose-all", func(o *option.ExportOptions) { o.EncloseAll = true }},
	{"pretty-print", func(o *option.ExportOptions) { o.PrettyPrint = true }},
	{"json-escape-hex", func(o *option.ExportOptions) { o.JsonEscape = 1 }},
	{"single-line", func(o *option.ExportOptions) { o.SingleLine = true; o.DelimiterPositions = []int{2, 5} }},
	{"positions", func(o *option.ExportOptions) { o.DelimiterPositions = []int{1, 3, 4} }},
	{"sjis-crlf", func(o *option.ExportOptions) { o.Encoding = text.SJIS; o.LineBreak = text.CRLF }},
	{"utf16", func(o *option.ExportOptions) { o.Encoding = text.UTF16 }},
}

type c19EncPayload struct {
	Family string `json:"family"`
	SQL    string `json:"sql"`
	Format string `json:"format"`
	Opt    string `json:"options"`
}

func c19Ident(n string) string { return "`" + strings.ReplaceAll(n, "`", "``") + "`" }

func c19EncodeOne(c *core.Ctx, env *drv.Env, sql string, only *c19EncPayload) {
	res := env.Exec(sql)
	if res.Panic != nil {
		c.Violate("encode:panic-in-select", fmt.Sprintf("%s: %v", sql, res.Panic), c19EncPayload{"encode", sql, "", ""})
		return
	}
	if res.Err != nil {
		if drv.IsFatal(res.Err) {
			c.Violate("encode:fatal-in-select", fmt.Sprintf("%s: %v", sql, res.Err), c19EncPayload{"encode", sql, "", ""})
		}
		return
	}
	for _, v := range res.Views {
		for _, f := range c19EncFormats {
			for _, o := range c19EncOpts {
				if only != nil && (only.Format != f.String() || only.Opt != o.name) {
					continue
				}
				opts := env.Tx.Flags.ExportOptions.Copy()
				opts.Format = f
				o.set(&opts)
				var buf bytes.Buffer
				var err error
				var pnc any
				var stack string
				func() {
					defer func() {
						if p := recover(); p != nil {
							pnc = p
							stack = string(debug.Stack())
						}
					}()
					_, err = query.EncodeView(env.Ctx, &buf, v, opts, env.Tx.Palette)
				}()
				c.Eval(fmt.Sprintf("encode|%s|%s|%s", sql, f, o.name), true)
				if pnc != nil {
					where := "?"
					for _, l := range strings.Split(stack, "\n") {
						if strings.Contains(l, "mithrandie/") && !strings.Contains(l, "verif/harness") && strings.Contains(l, "(") && !strings.Contains(l, "panic") {
							where = strings.TrimSpace(l[:strings.LastIndex(l, "(")])
							where = where[strings.LastIndex(where, "/")+1:]
							break
						}
					}
					c.Violate("encode:panic:"+f.String()+"@"+where, fmt.Sprintf("query.EncodeView panicked writing the result of %s as %s (%s): %v", sql, f, o.name, pnc), c19EncPayload{"encode", sql, f.String(), o.name})
				} else if err != nil {
					c.Observe("encode_errors", firstLine(err))
				}
			}
		}
	}
}

func c19EncodeRun(c *core.Ctx) {
	if c19ExtOff(c, "encode") {
		return
	}
	dir := core.Scratch("c19encode")
	env := drv.New(dir)
	defer func() { env.Close() }()
	var idx int64
	names := c19EncNames
	for i, n1 := range names {
		for j, n2 := range names {
			idx++
			if !c.Mine(idx) {
				continue
			}
			if c.Expired() {
				c.Incomplete("time budget reached in family encode")
				return
			}
			// two rows of values that rotate through the value alphabet, an empty result, and a third column
			v1, v2 := c19EncValues[(i+j)%len(c19EncValues)], c19EncValues[(i*3+j+1)%len(c19EncValues)]
			w1, w2 := c19EncValues[(i+2*j+5)%len(c19EncValues)], c19EncValues[(2*i+j+7)%len(c19EncValues)]
			sel := fmt.Sprintf("SELECT %s AS %s, %s AS %s", v1, c19Ident(n1), v2, c19Ident(n2))
			c19EncodeOne(c, env, sel+fmt.Sprintf(" UNION ALL SELECT %s, %s;", w1, w2), nil)
			c19EncodeOne(c, env, "SELECT * FROM ("+sel+") AS s WHERE FALSE;", nil)
			n3 := names[(i+j+1)%len(names)]
			c19EncodeOne(c, env, sel+fmt.Sprintf(", %s AS %s;", w1, c19Ident(n3)), nil)
		}
	}
	// every value under one plain name, in every format
	for _, v := range c19EncValues {
		idx++
		if !c.Mine(idx) {
			continue
		}
		c19EncodeOne(c, env, "SELECT "+v+" AS c1, "+v+" AS c2;", nil)
	}
}
