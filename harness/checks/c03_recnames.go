package checks

import (
	"strings"

	"verif/harness/internal/core"
	"verif/harness/internal/rv"
)

// Extra family for C03: a recursive table declared WITHOUT a column list (the list is optional in the manual's
// grammar: `[RECURSIVE] table_name [(column_name [, column_name ...])] AS (select_query)`).
//
// The columns of a table that has no column list are named by its query, and the names of a set operation are those
// of its first operand (that is what csvq shows for the finished table and for every non-recursive table). The
// recursive query refers to the table by these names in every iteration, whatever its own select list calls its
// results. Differential oracle: the same statement with the names of the base query written as the column list; the
// base queries used here name every column explicitly (plain column, alias or *), so the list is known.
func init() {
	core.Extend("C03", "family recnames: a recursive table without a column list: 4 base select lists (plain, aliased, qualified, *) x 6 recursive select lists whose own result names differ from the table's "+
		"(same order, swapped, other aliases, join with the base table, aliased table, constant) x recursion by UNION ALL and UNION x 2 outer queries x every ordered t1 of <=2 rows (thorough <=3 rows, 4 levels); "+
		"oracle: the same statement with the base query's column names written as the table's column list", c03RecnamesRun)
}

func c03RecnamesPairs(thorough bool) []*c03DiffPair {
	depth := "2"
	if thorough {
		depth = "3"
	}
	bases := []struct{ id, sql, n1, n2 string }{
		{"plain", "SELECT a, b, 0 AS d FROM t1", "a", "b"},
		{"aliased", "SELECT a AS x, b AS y, 0 AS d FROM t1", "x", "y"},
		{"qualified", "SELECT t1.a, t1.b, 0 AS d FROM t1", "a", "b"},
		{"star", "SELECT *, 0 AS d FROM t1", "a", "b"},
	}
	steps := []struct{ id, sql string }{
		{"same-order", "SELECT $1, $2, d + 1 FROM r WHERE d < #"},
		{"swapped", "SELECT $2, $1, d + 1 FROM r WHERE d < #"},
		{"other-aliases", "SELECT r.$1 AS p, r.$2 AS q, r.d + 1 AS e FROM r WHERE r.d < #"},
		{"join", "SELECT t1.a, t1.b, r.d + 1 FROM r, t1 WHERE r.d < # AND t1.a = r.$2"},
		{"aliased-table", "SELECT q.$1, q.$2, q.d + 1 FROM r q WHERE q.d < #"},
		{"constant", "SELECT 7, $1, d + 1 FROM r WHERE d < #"},
	}
	outers := []struct{ id, sql string }{
		{"star", "SELECT * FROM r"},
		{"columns", "SELECT $2, d FROM r WHERE d > 0"},
	}
	var pairs []*c03DiffPair
	for _, b := range bases {
		fill := strings.NewReplacer("$1", b.n1, "$2", b.n2, "#", depth)
		for _, s := range steps {
			for _, root := range []string{"UNION ALL", "UNION"} {
				for _, o := range outers {
					body := " AS (" + b.sql + " " + root + " " + fill.Replace(s.sql) + ") " + fill.Replace(o.sql)
					pairs = append(pairs, &c03DiffPair{
						ID:     b.id + "/" + s.id + "/recursion-by-" + strings.ReplaceAll(root, " ", "-") + "/" + o.id,
						Class:  "recursive-query:" + s.id,
						SQL:    "WITH RECURSIVE r" + body,
						Ref:    "WITH RECURSIVE r (" + b.n1 + ", " + b.n2 + ", d)" + body,
						Tables: []string{"t1"},
					})
				}
			}
		}
	}
	return pairs
}

func c03RecnamesRun(c *core.Ctx) {
	th := c.Thorough()
	r := newC03Runner(c)
	pairs := c03RecnamesPairs(th)
	c03DiffParse(pairs)
	c.Info("queries_recnames", len(pairs))
	maxRows := 2
	if th {
		maxRows = 3
	}
	idx := int64(0)
	stop := false
	c03Tables(c03RowsOver(c03Alpha1), maxRows, true, func(t1 [][]rv.V) {
		idx++
		if stop || !c.Mine(idx) {
			return
		}
		if c.Expired() {
			c.Incomplete("time budget reached in family recnames")
			stop = true
			return
		}
		c03DiffWorld(c, r, "recnames", &c03World{T1: t1, T2: [][]rv.V{{rv.I(1), rv.S("X")}}}, pairs)
		c.Add("worlds_recnames", 1)
	})
}
