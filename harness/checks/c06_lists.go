package checks

import (
	"encoding/json"
	"fmt"
	"strings"

	"verif/harness/internal/core"
	"verif/harness/internal/drv"
	"verif/harness/internal/procx"
	"verif/harness/internal/rv"
)

// Two further families for C06.
//
// lists: IN / NOT IN / <op> ANY / <op> ALL whose right side is a SUBQUERY that returns 0, 1 or 2 records (the main
// family only has literal lists, which cannot be empty). The manual: ANY is the Kleene OR of the comparisons and FALSE
// when the subquery returns no record, ALL the Kleene AND and TRUE when it returns none, IN is = ANY, NOT IN is <> ALL -
// whatever the left operand is, NULL included.
//
// switch: the result of a comparison is a function of the operands and the session's settings at that moment - not of
// what the same process compared before under other settings. A program sets flags F1, evaluates every comparison of a
// pair of texts silently, sets flags F2 and prints the comparisons; it must print what the program "F1; F2; print"
// prints, which never compared anything under F1. Runs on the real CLI: anything that outlives a statement lives at
// least as long as the process.
func init() {
	core.Extend("C06", "family lists: every left operand of the alphabet x subqueries returning 0, 1 or 2 records (one value per value class) x (6 relational operators x ANY / ALL, IN, NOT IN), plus row values of two fields against subqueries of two fields; "+
		"reference: Kleene OR / AND of the comparisons, FALSE / TRUE for no record", c06ListsRun)
	core.Extend("C06", "family switch: every ordered pair of 7 flag settings (datetime formats, time zones, none) x every pair of 10 datetime-like texts x 9 comparison forms, evaluated silently under the first setting and printed under the second in one real csvq process; "+
		"oracle: equal to the process that applies both settings and only then compares", c06SwitchRun)
}

type c06ListCase struct {
	Family string   `json:"family"`
	A      string   `json:"a"`
	List   []string `json:"list"`
	Expr   string   `json:"expr"`
}

// one representative per value class (and per reading of a text) for the records of the subquery
func c06ListValues(al []rv.V) []rv.V {
	want := []string{"Null", "Int:1", "Int:5", "Float:1", "Float:1.5", "Float:NaN", "Str:1", "Str: 1 ", "Str:abc", "Str:ABC", "Str:true", "Str:2012-01-01", "Str:", "Bool:true", "Tern:U", "Date"}
	var out []rv.V
	seen := map[string]bool{}
	for _, w := range want {
		for _, v := range al {
			k := sigKind(v)
			switch {
			case w == k && (k == "Null" || k == "Date"):
			case k == "Int" && w == fmt.Sprintf("Int:%d", v.I):
			case k == "Float" && w == "Float:"+strings.TrimSuffix(fmt.Sprintf("%g", v.F), ".0"):
			case k == "Str" && w == "Str:"+v.S:
			case k == "Bool" && w == fmt.Sprintf("Bool:%v", v.B):
			case k == "Tern" && w == "Tern:U" && v.T == rv.U:
			default:
				continue
			}
			if !seen[w] {
				seen[w] = true
				out = append(out, v)
			}
		}
	}
	return out
}

func c06ListsRun(c *core.Ctx) {
	al := c06Alphabet(c.Thorough())
	lv := c06ListValues(al)
	c.Info("lists_family_record_values", len(lv))
	env := drv.New(core.Scratch("c06lists"))
	defer env.Close()
	if r := env.Exec("DECLARE lst VIEW (k, v, w);"); r.Err != nil {
		c.Incomplete("family lists: cannot declare the list table: " + r.Err.Error())
		return
	}
	env.SetVar("a", al[0].Primary())
	env.SetVar("b", al[0].Primary())
	env.SetVar("c", al[0].Primary())
	ops := []string{"=", "<>", "<", "<=", ">", ">="}
	type ex struct {
		sql string
		n   int // records of the subquery
		ref func(a rv.V, l []rv.V) int
	}
	var exprs []ex
	for n := 0; n <= 2; n++ {
		n := n
		sub := fmt.Sprintf("(SELECT v FROM lst WHERE k <= %d)", n)
		for _, op := range ops {
			op := op
			exprs = append(exprs, ex{"@a " + op + " ANY " + sub, n, func(a rv.V, l []rv.V) int { return anyOf(a, op, l[:n]...) }})
			exprs = append(exprs, ex{"@a " + op + " ALL " + sub, n, func(a rv.V, l []rv.V) int { return allOf(a, op, l[:n]...) }})
		}
		exprs = append(exprs, ex{"@a IN " + sub, n, func(a rv.V, l []rv.V) int { return anyOf(a, "=", l[:n]...) }})
		exprs = append(exprs, ex{"@a NOT IN " + sub, n, func(a rv.V, l []rv.V) int { return allOf(a, "<>", l[:n]...) }})
		// row values of two fields: (a, a) against the records (v, w) = (b, c), (c, b)
		sub2 := fmt.Sprintf("(SELECT v, w FROM lst WHERE k <= %d)", n)
		rows := func(a rv.V, l []rv.V, op string, any bool) int {
			recs := [][2]rv.V{{l[0], l[1]}, {l[1], l[0]}}
			r := rv.T
			if any {
				r = rv.F
			}
			for _, rec := range recs[:n] {
				t := rowCmp(a, a, rec[0], rec[1], op)
				if any {
					r = rv.Or(r, t)
				} else {
					r = rv.And(r, t)
				}
			}
			return r
		}
		exprs = append(exprs, ex{"(@a, @a) IN " + sub2, n, func(a rv.V, l []rv.V) int { return rows(a, l, "=", true) }})
		exprs = append(exprs, ex{"(@a, @a) NOT IN " + sub2, n, func(a rv.V, l []rv.V) int { return rows(a, l, "<>", false) }})
		exprs = append(exprs, ex{"(@a, @a) = ANY " + sub2, n, func(a rv.V, l []rv.V) int { return rows(a, l, "=", true) }})
		exprs = append(exprs, ex{"(@a, @a) <> ALL " + sub2, n, func(a rv.V, l []rv.V) int { return rows(a, l, "<>", false) }})
	}
	parts := make([]string, len(exprs))
	for i, e := range exprs {
		parts[i] = fmt.Sprintf("%s AS c%d", e.sql, i)
	}
	sel := "SELECT " + strings.Join(parts, ", ") + ";"
	var idx int64
	for bi, b := range lv {
		for ci, cc := range lv {
			idx++
			if !c.Mine(idx) {
				continue
			}
			if c.Expired() {
				c.Incomplete("time budget reached inside family lists")
				return
			}
			env.SetVar("b", b.Primary())
			env.SetVar("c", cc.Primary())
			if r := env.Exec("DELETE FROM lst; INSERT INTO lst VALUES (1, @b, @c), (2, @c, @b);"); r.Err != nil {
				c.Violate("lists:setup", fmt.Sprintf("filling the list table with %s, %s: %v", b.Key(), cc.Key(), r.Err), c06ListCase{"lists", "", []string{b.Key(), cc.Key()}, ""})
				continue
			}
			_ = bi
			_ = ci
			for _, a := range al {
				env.SetVar("a", a.Primary())
				r := env.Exec(sel)
				c.EvalN(int64(len(exprs)), b2i(a.K != rv.Null)*int64(len(exprs)))
				if r.Err != nil || r.Panic != nil || len(r.Views) != 1 || len(drv.Rows(r.Views[0])) != 1 {
					c.Violate("lists:error", fmt.Sprintf("a = %s, list (%s, %s): %v %v", a.Key(), b.Key(), cc.Key(), r.Err, r.Panic), c06ListCase{"lists", a.Key(), []string{b.Key(), cc.Key()}, sel})
					continue
				}
				row := drv.Rows(r.Views[0])[0]
				for i, e := range exprs {
					want := e.ref(a, []rv.V{b, cc})
					if row[i].Tern3() != want || row[i].K == rv.Null {
						form := e.sql[:strings.Index(e.sql, "(SELECT")]
						c.Violate(fmt.Sprintf("lists:%s:subquery-of-%d-records:%s", strings.TrimSpace(strings.ReplaceAll(form, "@a", "a")), e.n, sigKind(a)),
							fmt.Sprintf("%s with @a = %s and the records %v of (%s, %s): csvq gives %s, the documented expansion gives %s", e.sql, a.Key(), e.n, b.Key(), cc.Key(), row[i].Key(), rv.TernName(want)),
							c06ListCase{"lists", a.Key(), []string{b.Key(), cc.Key()}, e.sql})
					}
				}
			}
		}
	}
}

// ---- switch ---------------------------------------------------------------------------------------------------

var c06SwitchSettings = []string{
	"",
	"SET @@DATETIME_FORMAT TO '%d.%m.%Y';",
	"SET @@DATETIME_FORMAT TO '%m.%d.%Y';",
	"SET @@DATETIME_FORMAT TO '[\"%d/%m/%Y\", \"%Y%m%d\"]';",
	"SET @@DATETIME_FORMAT TO '';",
	"SET @@TIMEZONE TO 'Asia/Tokyo';",
	"SET @@TIMEZONE TO 'America/New_York';",
}

var c06SwitchTexts = []string{
	"01.02.2012", "15.01.2012", "02.01.2012", "01/02/2012", "20120201", "20120115",
	"2012-02-01 00:00:00", "2012-02-01T00:00:00+09:00", "2012-01-31T15:00:00Z", "abc",
}

type c06SwitchCase struct {
	Family string `json:"family"`
	First  string `json:"first_setting"`
	Second string `json:"second_setting"`
	A      string `json:"a"`
}

func c06SwitchExprs(a string) []string {
	var out []string
	for _, b := range c06SwitchTexts {
		for _, op := range []string{"=", "<>", "<", "<=", ">", ">="} {
			out = append(out, fmt.Sprintf("'%s' %s '%s'", a, op, b))
		}
		out = append(out, fmt.Sprintf("'%s' BETWEEN '%s' AND '%s'", a, b, b))
		out = append(out, fmt.Sprintf("'%s' IN ('%s')", a, b))
		out = append(out, fmt.Sprintf("CASE '%s' WHEN '%s' THEN 1 ELSE 0 END", a, b))
	}
	return out
}

func c06SwitchOne(c *core.Ctx, dir string, k c06SwitchCase) {
	exprs := c06SwitchExprs(k.A)
	var silent []string
	for i, e := range exprs {
		silent = append(silent, fmt.Sprintf("VAR @p%d := %s;", i, e))
	}
	sel := "SELECT " + strings.Join(exprs, ", ") + ";"
	run := func(prog string) procx.Outcome {
		return procx.Exec(procx.Run{Dir: dir, Args: []string{"-f", "CSV", "-N", prog}})
	}
	primed := run(k.First + " " + strings.Join(silent, " ") + " " + k.Second + " " + sel)
	alone := run(k.First + " " + k.Second + " " + sel)
	c.EvalN(int64(len(exprs)), int64(len(exprs)))
	if alone.Exit != 0 {
		c.Observe("switch_family_settings_refused", k.First+" "+k.Second)
		return
	}
	if primed.Exit != alone.Exit || primed.Stdout != alone.Stdout {
		kind := "format"
		if strings.Contains(k.First+k.Second, "TIMEZONE") {
			kind = "format-or-zone"
		}
		if !strings.Contains(k.First+k.Second, "DATETIME_FORMAT") {
			kind = "zone"
		}
		pa, aa := strings.Split(strings.TrimSpace(primed.Stdout), ","), strings.Split(strings.TrimSpace(alone.Stdout), ",")
		detail := fmt.Sprintf("exit %d / %d", primed.Exit, alone.Exit)
		for i := range exprs {
			if i < len(pa) && i < len(aa) && pa[i] != aa[i] {
				detail = fmt.Sprintf("%s is %s after the same comparison was evaluated under the first setting, %s otherwise", exprs[i], pa[i], aa[i])
				break
			}
		}
		c.Violate("switch:comparison-depends-on-an-earlier-comparison-under-other-settings:"+kind,
			fmt.Sprintf("first setting %q, second setting %q: %s; stderr %q", k.First, k.Second, detail, primed.Stderr), k)
	}
}

func c06SwitchRun(c *core.Ctx) {
	if procx.Binary() == "" {
		c.Incomplete("family switch needs the csvq-verif binary (overlay build)")
		return
	}
	dir := core.Scratch("c06switch")
	var idx int64
	for _, f1 := range c06SwitchSettings {
		for _, f2 := range c06SwitchSettings {
			if f1 == f2 {
				continue
			}
			for _, a := range c06SwitchTexts {
				idx++
				if !c.Mine(idx) {
					continue
				}
				if c.Expired() {
					c.Incomplete("time budget reached inside family switch")
					return
				}
				c06SwitchOne(c, dir, c06SwitchCase{"switch", f1, f2, a})
			}
		}
	}
}

func c06ListsReplay(c *core.Ctx, payload json.RawMessage) bool {
	var k struct {
		Family string `json:"family"`
	}
	if json.Unmarshal(payload, &k) != nil {
		return false
	}
	switch k.Family {
	case "lists":
		fmt.Println("replaying family lists: the whole family is run again (it is small)")
		c06ListsRun(c)
		return true
	case "switch":
		var s c06SwitchCase
		_ = json.Unmarshal(payload, &s)
		fmt.Printf("replaying family switch: %+v\n", s)
		c06SwitchOne(c, core.Scratch("c06switch"), s)
		return true
	}
	return false
}
