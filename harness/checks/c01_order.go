//go:build verifx

package checks

import (
	"fmt"

	"github.com/mithrandie/csvq/lib/verifshim/vrt"

	"verif/harness/internal/core"
)

// c01WithMapOrders runs the procedure with sorted keys at every map range, then once per map range of that run
// with that range deviating (Go's map order is an environment answer; a replay carries the order in MapOrder).
func c01WithMapOrders(c *core.Ctx, dir string, k c01Case) {
	defer vrt.SetProcOrder("", false)
	if k.MapOrder != "" { // replay of one order
		vrt.SetProcOrder(k.MapOrder, true)
		c01InprocOrder(c, dir, k)
		return
	}
	vrt.SetProcOrder("", true)
	c01InprocOrder(c, dir, k)
	n := vrt.ProcCalls()
	for j := int64(1); j <= n && j <= 40; j++ {
		k2 := k
		k2.MapOrder = fmt.Sprintf("%d:1", j)
		vrt.SetProcOrder(k2.MapOrder, true)
		c01InprocOrder(c, dir, k2)
	}
	c.Add("map_orders_run_for_multi_table_statements", n+1)
}

// setProcOrder: the order of every map range inside csvq for the code run in this process ("" ascending, "rev" descending)
func setProcOrder(spec string, on bool) { vrt.SetProcOrder(spec, on) }

// procCalls: the number of map ranges over two or more keys since the order was set
func procCalls() int64 { return vrt.ProcCalls() }
