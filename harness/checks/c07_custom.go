package checks

import (
	"encoding/json"
	"fmt"
	"sort"
	"strings"
	"time"

	"verif/harness/internal/core"
	"verif/harness/internal/drv"
)

// Extra family for C07: sort keys that are datetimes only by a notation registered with @@DATETIME_FORMAT
// ("Jan 9 2022", "5/3/21"): they are mutually comparable values of the property's quantifier, and they sort as
// the instants they denote, not as texts.
func init() {
	core.Extend("C07", "family custom-datetime: 2 registered notations (%b %e %Y; %e/%c/%y) x every sequence of 1-4 rows over 5 dates written in the notation (two of them the same day) and NULL x ORDER BY k / k DESC / LIMIT 2 WITH TIES; "+
		"reference: chronological order (NULL first ascending), ties by the day", c07CustomRun)
}

var c07CustomNotations = []struct {
	flag, layout string
}{
	{"%b %e %Y", "Jan 2 2006"},
	{"%e/%c/%y", "2/1/06"},
}

var c07CustomDays = []time.Time{
	time.Date(2021, 3, 5, 0, 0, 0, 0, time.UTC), time.Date(2021, 12, 25, 0, 0, 0, 0, time.UTC), time.Date(2022, 1, 9, 0, 0, 0, 0, time.UTC),
	time.Date(2020, 10, 1, 0, 0, 0, 0, time.UTC), time.Date(2022, 1, 9, 0, 0, 0, 0, time.UTC),
}

type c07CustomCase struct {
	Family   string `json:"family"`
	Notation int    `json:"notation"`
	Rows     []int  `json:"rows"` // index into the days, -1 = NULL
}

func c07CustomOne(c *core.Ctx, dir string, k c07CustomCase) {
	nt := c07CustomNotations[k.Notation]
	var sb strings.Builder
	sb.WriteString("id,k\n")
	for i, d := range k.Rows {
		if d < 0 {
			fmt.Fprintf(&sb, "%d,\n", i+1)
		} else {
			fmt.Fprintf(&sb, "%d,%s\n", i+1, c07CustomDays[d].Format(nt.layout))
		}
	}
	drv.ClearDir(dir)
	drv.WriteFiles(dir, map[string]string{"t.csv": sb.String()})
	env := drv.New(dir)
	defer env.Close()
	if r := env.Exec("SET @@DATETIME_FORMAT TO '" + nt.flag + "';"); r.Err != nil {
		c.Incomplete("family custom-datetime: " + r.Err.Error())
		return
	}
	ids := func(sql string) ([]int, error) {
		r := env.Exec(sql)
		if r.Err != nil || r.Panic != nil || len(r.Views) == 0 {
			return nil, fmt.Errorf("%v %v", r.Err, r.Panic)
		}
		var out []int
		for _, row := range drv.Rows(r.Views[len(r.Views)-1]) {
			var x int
			fmt.Sscan(c01AttrText(row[0]), &x)
			out = append(out, x)
		}
		return out, nil
	}
	key := func(id int) (time.Time, bool) { // value, isNull
		d := k.Rows[id-1]
		if d < 0 {
			return time.Time{}, true
		}
		return c07CustomDays[d], false
	}
	less := func(a, b int) bool { // ascending, NULL first
		ta, na := key(a)
		tb, nb := key(b)
		if na || nb {
			return na && !nb
		}
		return ta.Before(tb)
	}
	sortedOK := func(got []int, desc bool) bool {
		if len(got) != len(k.Rows) {
			return false
		}
		seen := map[int]bool{}
		for i, id := range got {
			if id < 1 || id > len(k.Rows) || seen[id] {
				return false
			}
			seen[id] = true
			if i > 0 {
				if !desc && less(id, got[i-1]) {
					return false
				}
				if desc && less(got[i-1], id) {
					return false
				}
			}
		}
		return true
	}
	c.Eval(fmt.Sprintf("custom|%d|%v", k.Notation, k.Rows), len(k.Rows) > 1)
	for _, q := range []struct {
		sql  string
		desc bool
	}{{"SELECT id FROM t ORDER BY k", false}, {"SELECT id FROM t ORDER BY k DESC", true}} {
		got, err := ids(q.sql)
		if err != nil || !sortedOK(got, q.desc) {
			c.Violate("custom-datetime:not-sorted-chronologically", fmt.Sprintf("@@DATETIME_FORMAT '%s', t.csv = %q: %s returns the ids %v (err=%v)", nt.flag, sb.String(), q.sql, got, err), k)
			return
		}
	}
	if len(k.Rows) >= 3 {
		got, err := ids("SELECT id FROM t ORDER BY k LIMIT 2 WITH TIES")
		all := make([]int, len(k.Rows))
		for i := range all {
			all[i] = i + 1
		}
		sort.SliceStable(all, func(i, j int) bool { return less(all[i], all[j]) })
		n := 2
		for n < len(all) && !less(all[1], all[n]) && !less(all[n], all[1]) {
			n++
		}
		wantSet := map[int]bool{}
		for _, id := range all[:n] {
			wantSet[id] = true
		}
		ok := err == nil && len(got) == n
		for _, id := range got {
			if !wantSet[id] {
				ok = false
			}
		}
		if !ok {
			c.Violate("custom-datetime:with-ties-cut", fmt.Sprintf("@@DATETIME_FORMAT '%s', t.csv = %q: ORDER BY k LIMIT 2 WITH TIES returns the ids %v (err=%v); the first two rows and their ties are %v", nt.flag, sb.String(), got, err, all[:n]), k)
		}
	}
}

func c07CustomRun(c *core.Ctx) {
	dir := core.Scratch("c07custom")
	vals := []int{-1, 0, 1, 2, 3, 4}
	var idx int64
	for ni := range c07CustomNotations {
		for l := 1; l <= 4; l++ {
			total := 1
			for i := 0; i < l; i++ {
				total *= len(vals)
			}
			for code := 0; code < total; code++ {
				idx++
				if !c.Mine(idx) {
					continue
				}
				rows := make([]int, l)
				x := code
				for i := range rows {
					rows[i] = vals[x%len(vals)]
					x /= len(vals)
				}
				c07CustomOne(c, dir, c07CustomCase{"custom-datetime", ni, rows})
			}
		}
	}
}

func c07CustomReplay(c *core.Ctx, payload json.RawMessage) bool {
	var k c07CustomCase
	if json.Unmarshal(payload, &k) != nil || k.Family != "custom-datetime" {
		return false
	}
	fmt.Printf("replaying family custom-datetime: %+v\n", k)
	c07CustomOne(c, core.Scratch("c07custom-replay"), k)
	return true
}
