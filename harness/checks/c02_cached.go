package checks

import (
	"fmt"
	"strings"

	"verif/harness/internal/core"
	"verif/harness/internal/drv"
)

// Extra family for C02: the dialect of a file is learnt by the statement that first loads it (here through a table
// function whose settings differ from the session's defaults); a later statement of the same transaction that
// changes the file under its plain name works on the cached table, and the commit must write the file back in the
// dialect it was read in ("an updated file keeps its delimiter, encoding, line break and header convention").
func init() {
	core.Extend("C02", "family cached: 6 files whose dialect differs from the session defaults x first access through the table function that states the dialect x 4 later data-changing statements under the plain file name; "+
		"the committed bytes are the model's rendering in the file's own dialect", c02CachedRun)
}

var c02Cached = []struct {
	name, file, content, load string
	stmts                     [][2]string // statement, expected file afterwards
}{
	{"csv-no-header", "t.csv", "1,a\n2,b\n", "SELECT COUNT(*) FROM CSV(',', `t.csv`, 'UTF8', TRUE)", [][2]string{
		{"UPDATE `t.csv` SET c2 = 'z' WHERE c1 = 1", "1,z\n2,b\n"},
		{"INSERT INTO `t.csv` VALUES (3, 'c')", "1,a\n2,b\n3,c\n"},
		{"DELETE FROM `t.csv` WHERE c1 = 1", "2,b\n"},
		{"ALTER TABLE `t.csv` ADD (c3 DEFAULT 'z')", "1,a,z\n2,b,z\n"},
	}},
	{"csv-semicolon", "t.csv", "a;b\n1;x\n2;y\n", "SELECT COUNT(*) FROM CSV(';', `t.csv`)", [][2]string{
		{"UPDATE `t.csv` SET b = 'z' WHERE a = 1", "a;b\n1;z\n2;y\n"},
		{"INSERT INTO `t.csv` VALUES (3, 'c')", "a;b\n1;x\n2;y\n3;c\n"},
		{"DELETE FROM `t.csv` WHERE a = 1", "a;b\n2;y\n"},
		{"ALTER TABLE `t.csv` ADD (c DEFAULT 'z')", "a;b;c\n1;x;z\n2;y;z\n"},
	}},
	{"csv-crlf-no-header", "t.csv", "1,a\r\n2,b\r\n", "SELECT COUNT(*) FROM CSV(',', `t.csv`, 'UTF8', TRUE)", [][2]string{
		{"UPDATE `t.csv` SET c2 = 'z' WHERE c1 = 1", "1,z\r\n2,b\r\n"},
		{"INSERT INTO `t.csv` VALUES (3, 'c')", "1,a\r\n2,b\r\n3,c\r\n"},
	}},
	{"fixed-positions", "t.txt", "a b \n1 x \n2 y \n", "SELECT COUNT(*) FROM FIXED('[2, 4]', `t.txt`)", [][2]string{
		{"UPDATE `t.txt` SET b = 'z' WHERE a = 1", "a b \n1 z \n2 y \n"},
		{"DELETE FROM `t.txt` WHERE a = 1", "a b \n2 y \n"},
	}},
	{"fixed-positions-no-header", "t.txt", "1 x \n2 y \n", "SELECT COUNT(*) FROM FIXED('[2, 4]', `t.txt`, 'UTF8', TRUE)", [][2]string{
		{"UPDATE `t.txt` SET c2 = 'z' WHERE c1 = 1", "1 z \n2 y \n"},
		{"INSERT INTO `t.txt` VALUES ('3', 'w')", "1 x \n2 y \n3 w \n"},
	}},
	{"ltsv-crlf", "t.ltsv", "a:1\tb:x\r\na:2\tb:y\r\n", "SELECT COUNT(*) FROM LTSV(`t.ltsv`)", [][2]string{
		{"UPDATE `t.ltsv` SET b = 'z' WHERE a = 1", "a:1\tb:z\r\na:2\tb:y\r\n"},
	}},
}

func c02CachedRun(c *core.Ctx) {
	dir := core.Scratch("c02cached")
	var idx int64
	for _, tc := range c02Cached {
		for _, st := range tc.stmts {
			for _, twice := range []bool{false, true} {
				idx++
				if !c.Mine(idx) {
					continue
				}
				drv.ClearDir(dir)
				drv.WriteFiles(dir, map[string]string{tc.file: tc.content})
				env := drv.New(dir)
				env.Tx.Flags.SetQuiet(true)
				prog := tc.load + "; " + st[0] + "; COMMIT;"
				if twice { // a second, plain read between the two
					prog = tc.load + "; SELECT COUNT(*) FROM `" + tc.file + "`; " + st[0] + "; COMMIT;"
				}
				r := env.Exec(prog)
				env.Close()
				got := drv.DirSnapshot(dir)[tc.file]
				c.Eval("cached:"+tc.name+":"+st[0]+fmt.Sprint(twice), true)
				if r.Err != nil || r.Panic != nil || got != st[1] {
					c.Violate("cached:"+tc.name+":"+strings.Fields(st[0])[0]+": a file first read through a table function is not written back in its own dialect",
						fmt.Sprintf("%s holds %q; program %s (err=%v panic=%v); after COMMIT the file holds %q, expected %q", tc.file, tc.content, prog, r.Err, r.Panic, got, st[1]),
						map[string]any{"family": "cached", "program": prog, "file": tc.file, "content": tc.content})
				}
			}
		}
	}
}
