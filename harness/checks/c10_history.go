package checks

import (
	"encoding/json"
	"fmt"
	"os/exec"
	"sort"
	"strings"

	"verif/harness/internal/core"
	"verif/harness/internal/drv"
	"verif/harness/internal/procx"
	"verif/harness/internal/ptx"
)

// Two families about files the transaction does not own.
//
// bystander: next to the updated table NAME lies a table whose own file name is the name of a control file of NAME
// (.NAME.temp, .NAME.lock, .NAME.<12 characters>.rlock - legal hidden file names, readable as tables). Such a table
// existed before the transaction and the transaction does not write to it: it must keep its bytes at every crash
// point and in the complete run (csvq either refuses the update or works around the file).
//
// rerun: a job is killed at some file system call and NOBODY cleans up; then a job (the same one, or another one that
// creates/updates the same names) is run in the directory as it was left. Every table that lay complete in that
// directory is an existing table of the second transaction: old or new at every crash point of the second run.

const c10BystanderRule = "family bystander: for each updated table file (x.csv, x.tsv), each control-file look-alike lying next to it as a table of its own (.NAME.temp, .NAME.lock, .NAME.<12 chars>.rlock) and each of 4 (thorough: 6) transactions on x, " +
	"the real CLI is killed before every file system call under the directory (k = 1, 2, ... until a run completes): the look-alike table keeps its bytes, x holds its old or its new bytes, at every crash point and after the complete run"

const c10RerunRule = "family rerun: for each of 3 (thorough: 4) jobs killed before each of its file system calls k1, the directory is left as it is (no clean-up) and each of the jobs (with other values) is run in it, killed before each of ITS file system calls k2: " +
	"every table file that lay complete (initial or finally committed bytes of the first job) in the left-behind directory exists and holds those bytes or the bytes the uninterrupted second run leaves"

func init() {
	core.Extend("C10", c10BystanderRule, c10BystanderRun)
	core.Extend("C10", c10RerunRule, c10RerunRun)
}

// one run of csvq under the ptrace driver in dir, killed before the k-th file system call under dir (k = 0: never)
func c10Ptx(dir string, args []string, k int) ptx.Result {
	cmd := exec.Command(procx.Binary(), args...)
	cmd.Dir = dir
	cmd.Env = []string{"HOME=" + procx.Home(), "XDG_CONFIG_HOME=" + procx.Home(), "PATH=/usr/bin:/bin", "TZ=UTC", "GOMAXPROCS=2", "VERIF_MAPORDER="}
	return ptx.Run(cmd, dir, k)
}

func c10LastCall(r ptx.Result) string {
	if len(r.Calls) == 0 {
		return "?"
	}
	cl := r.Calls[len(r.Calls)-1]
	// the random part of a read lock's name is no part of a class
	if strings.HasSuffix(cl.Path, ".rlock") {
		return cl.Name + "(*.rlock)"
	}
	return cl.String()
}

// a lock wait in these families is always in vain (the file waited for belongs to nobody and never goes away); the
// time-out only decides how long a refusal takes, never which files are touched
const c10Wait = "0.1"

const c10MaxCalls = 600

// ---------------------------------------------------------------------------------------------------- bystander

type c10BystanderCase struct {
	Family    string `json:"family"` // "bystander"
	Table     string `json:"table"`  // file name of the updated table
	Kind      string `json:"kind"`   // temp | lock | rlock
	Bystander string `json:"bystander"`
	Prog      string `json:"prog"`
	K         int    `json:"crash_before_call,omitempty"`
}

func c10BystanderFiles(k c10BystanderCase) map[string]string {
	sep := ","
	if strings.HasSuffix(k.Table, ".tsv") {
		sep = "\t"
	}
	x := "a" + sep + "b\n1" + sep + "10\n2" + sep + "20\n3" + sep + "30\n"
	return map[string]string{k.Table: x, k.Bystander: "a,b\n1,100\n2,200\n"}
}

func c10BystanderCases(thorough bool) []c10BystanderCase {
	var out []c10BystanderCase
	for _, tbl := range []string{"x.csv", "x.tsv"} {
		for _, kind := range []string{"temp", "lock", "rlock"} {
			by := "." + tbl + "." + kind
			if kind == "rlock" {
				by = "." + tbl + ".AbCdEfGhIjKl.rlock"
			}
			progs := []string{
				"UPDATE x SET b = b + 10",
				"UPDATE x SET b = b + 10; CREATE TABLE `n.csv` (c1, c2); INSERT INTO n VALUES (1, 2);",
				"INSERT INTO x VALUES (4, 40)",
				"UPDATE x SET b = b + 10 WHERE a IN (SELECT a FROM `" + by + "`)",
			}
			if thorough {
				progs = append(progs, "DELETE FROM x WHERE a = 2", "ALTER TABLE x ADD c DEFAULT 0")
			}
			for _, p := range progs {
				out = append(out, c10BystanderCase{Family: "bystander", Table: tbl, Kind: kind, Bystander: by, Prog: p})
			}
		}
	}
	return out
}

// judges the directory after a (killed or complete) run; returns false after a violation
func c10BystanderJudge(c *core.Ctx, dir string, k c10BystanderCase, files map[string]string, newX string, where string, pt string) bool {
	snap := drv.DirSnapshot(dir)
	got, exists := snap[k.Bystander]
	switch {
	case !exists:
		c.Violate("bystander-named-like-control-file:"+k.Kind+":missing:"+pt, fmt.Sprintf("table %s lies next to a table of its own whose file is named %s; %q, %s: %s no longer exists; directory: %v",
			k.Table, k.Bystander, k.Prog, where, k.Bystander, keys(snap)), k)
		return false
	case got != files[k.Bystander]:
		c.Violate("bystander-named-like-control-file:"+k.Kind+":changed:"+pt, fmt.Sprintf("table %s lies next to a table of its own whose file is named %s; %q, %s: %s now holds %q instead of %q (the transaction never mentions it as a target)",
			k.Table, k.Bystander, k.Prog, where, k.Bystander, clip(got), files[k.Bystander]), k)
		return false
	}
	gx, exists := snap[k.Table]
	switch {
	case !exists:
		c.Violate("missing-table:beside-look-alike-"+k.Kind+":"+pt, fmt.Sprintf("%q beside %s, %s: %s no longer exists; directory: %v", k.Prog, k.Bystander, where, k.Table, keys(snap)), k)
		return false
	case gx != files[k.Table] && gx != newX:
		c.Violate("mixed-or-truncated-table:beside-look-alike-"+k.Kind+":"+pt, fmt.Sprintf("%q beside %s, %s: %s holds %q, neither the old nor the new contents", k.Prog, k.Bystander, where, k.Table, clip(gx)), k)
		return false
	}
	return true
}

func c10BystanderOne(c *core.Ctx, dir string, k c10BystanderCase, only int) {
	files := c10BystanderFiles(k)
	args := []string{"--wait-timeout", c10Wait, k.Prog}
	tag := k.Table + "|" + k.Kind + "|" + k.Prog
	// the complete run: what it leaves of x is "new" (when the update is refused: the old bytes)
	drv.ClearDir(dir)
	drv.WriteFiles(dir, files)
	ref := c10Ptx(dir, args, 0)
	if ref.Err != nil {
		c.Incomplete("family bystander: ptrace run failed: " + ref.Err.Error())
		return
	}
	newX := drv.DirSnapshot(dir)[k.Table]
	outcome := "update refused"
	if ref.Exit == 0 {
		outcome = "update done"
	}
	c.Observe("bystander_outcomes", k.Kind+": "+outcome)
	// (after a violation of the complete run the crash points are still gone through: the first one that shows damage is reported too)
	c10BystanderJudge(c, dir, k, files, newX, "complete run (exit "+fmt.Sprint(ref.Exit)+")", "complete-run")
	c.Eval("bystander|"+tag+"|complete", true)
	for kk := 1; ; kk++ {
		if only > 0 {
			kk = only
		}
		if c.Expired() {
			c.Incomplete("time budget reached (family bystander)")
			return
		}
		if kk > c10MaxCalls {
			c.Incomplete("family bystander: more than " + fmt.Sprint(c10MaxCalls) + " file system calls in " + tag)
			return
		}
		drv.ClearDir(dir)
		drv.WriteFiles(dir, files)
		r := c10Ptx(dir, args, kk)
		if r.Err != nil {
			c.Incomplete("family bystander: ptrace run failed: " + r.Err.Error())
			return
		}
		kc := k
		kc.K = kk
		if !r.Killed {
			// fewer than kk calls: a complete run (a refused one retries a number of times that is not fixed)
			c10BystanderJudge(c, dir, kc, files, newX, "complete run", "complete-run")
			return
		}
		pt := c10LastCall(r)
		if !c10BystanderJudge(c, dir, kc, files, newX, fmt.Sprintf("killed before file system call %d %s", kk, pt), "killed-before "+pt) {
			return
		}
		c.Eval(fmt.Sprintf("bystander|%s|%d", tag, kk), true)
		c.Add("bystander_crash_points", 1)
		if only > 0 {
			return
		}
	}
}

func c10BystanderRun(c *core.Ctx) {
	dir := core.Scratch("c10by")
	for i, k := range c10BystanderCases(c.Thorough()) {
		if !c.Mine(int64(i)) {
			continue
		}
		if c.Expired() {
			c.Incomplete("time budget reached (family bystander)")
			return
		}
		c10BystanderOne(c, dir, k, 0)
	}
}

// ---------------------------------------------------------------------------------------------------- rerun

type c10RerunCase struct {
	Family string `json:"family"` // "rerun"
	First  string `json:"first_job"`
	K1     int    `json:"first_job_killed_before_call"`
	Second string `json:"second_job"`
	K2     int    `json:"second_job_killed_before_call,omitempty"`
}

var c10RerunInitial = map[string]string{"t.csv": "k,v\n1,10\n2,20\n"}

// the jobs; run = 1: as the first run, 2: as the second run (other values, so that old and new differ)
func c10RerunJobs(thorough bool, run int) []string {
	rows := "(1, 2), (3, 4)"
	inc := "1"
	if run == 2 {
		rows = "(1, 2), (3, 4), (5, 6)"
		inc = "7"
	}
	jobs := []string{
		"CREATE TABLE `n.csv` (a, b); INSERT INTO n VALUES " + rows + ";",
		"UPDATE t SET v = v + " + inc + "; CREATE TABLE `n.csv` (a, b); INSERT INTO n VALUES " + rows + ";",
		"UPDATE t SET v = v + " + inc + ";",
	}
	if thorough {
		jobs = append(jobs, "CREATE TABLE `n.csv` (a, b); CREATE TABLE `m.csv` (c); INSERT INTO n VALUES "+rows+"; UPDATE t SET v = v + "+inc+"; INSERT INTO m VALUES ("+inc+");")
	}
	return jobs
}

// c10RerunLeave prepares dir as the first job leaves it when killed before its k1-th call; ok=false: not killed
func c10RerunLeave(dir string, first string, k1 int) (map[string]string, ptx.Result) {
	drv.ClearDir(dir)
	drv.WriteFiles(dir, c10RerunInitial)
	r := c10Ptx(dir, []string{"--wait-timeout", c10Wait, first}, k1)
	return drv.DirSnapshot(dir), r
}

func c10RerunRestore(dir string, left map[string]string) {
	drv.ClearDir(dir)
	drv.WriteFiles(dir, left)
}

// second job in the directory `left`, killed before call k2 (0 = complete); judged against old = left, new = after
func c10RerunJudge(c *core.Ctx, dir string, k c10RerunCase, left map[string]string, complete []string, after map[string]string, where string, pt string) bool {
	snap := drv.DirSnapshot(dir)
	for _, n := range complete {
		got, exists := snap[n]
		switch {
		case !exists:
			c.Violate("rerun-without-cleanup:missing-table:"+pt, fmt.Sprintf("first job %q killed before its call %d and nothing cleaned up (directory: %v); second job %q, %s: %s, which lay complete in the directory, no longer exists",
				k.First, k.K1, keys(left), k.Second, where, n), k)
			return false
		case got != left[n] && (after == nil || got != after[n]):
			c.Violate("rerun-without-cleanup:mixed-or-truncated-table:"+pt, fmt.Sprintf("first job %q killed before its call %d and nothing cleaned up (directory: %v); second job %q, %s: %s, which lay complete in the directory (%q), holds %q - neither that nor what the uninterrupted second job leaves",
				k.First, k.K1, keys(left), k.Second, where, n, clip(left[n]), clip(got)), k)
			return false
		}
	}
	return true
}

// all crash points of the second job in the left-behind directory
func c10RerunSecond(c *core.Ctx, dir string, k c10RerunCase, left map[string]string, firstFinal map[string]string, only int) {
	// the tables that lie complete in the left-behind directory
	var complete []string
	for n, b := range left {
		if isControl(n) || strings.HasSuffix(n, "/") {
			continue
		}
		if init, ok := c10RerunInitial[n]; ok && b == init {
			complete = append(complete, n)
		} else if fin, ok := firstFinal[n]; ok && b == fin {
			complete = append(complete, n)
		} else {
			c.Add("rerun_incomplete_tables_left_behind_not_judged", 1)
		}
	}
	sort.Strings(complete)
	args := []string{"--wait-timeout", c10Wait, k.Second}
	tag := fmt.Sprintf("rerun|%s|%d|%s", k.First, k.K1, k.Second)
	c10RerunRestore(dir, left)
	ref := c10Ptx(dir, args, 0)
	if ref.Err != nil {
		c.Incomplete("family rerun: ptrace run failed: " + ref.Err.Error())
		return
	}
	after := drv.DirSnapshot(dir)
	if ref.Exit == 0 {
		c.Observe("rerun_second_job", "runs")
	} else {
		c.Observe("rerun_second_job", "refused")
	}
	// the complete second run: every complete table still exists (its bytes are "new" by definition)
	c10RerunJudge(c, dir, k, left, complete, after, fmt.Sprintf("complete run (exit %d)", ref.Exit), "complete-run")
	c.Eval(tag+"|complete", len(left) > len(c10RerunInitial))
	for k2 := 1; ; k2++ {
		if only > 0 {
			k2 = only
		}
		if c.Expired() {
			c.Incomplete("time budget reached (family rerun)")
			return
		}
		if k2 > c10MaxCalls {
			c.Incomplete("family rerun: more than " + fmt.Sprint(c10MaxCalls) + " file system calls in " + tag)
			return
		}
		c10RerunRestore(dir, left)
		r := c10Ptx(dir, args, k2)
		if r.Err != nil {
			c.Incomplete("family rerun: ptrace run failed: " + r.Err.Error())
			return
		}
		kc := k
		kc.K2 = k2
		if !r.Killed {
			c10RerunJudge(c, dir, kc, left, complete, after, "complete run", "complete-run")
			return
		}
		pt := c10LastCall(r)
		if !c10RerunJudge(c, dir, kc, left, complete, after, fmt.Sprintf("killed before its file system call %d %s", k2, pt), "second-run-killed-before "+pt) {
			return
		}
		c.Eval(fmt.Sprintf("%s|%d", tag, k2), len(left) > len(c10RerunInitial))
		c.Add("rerun_crash_points_of_second_runs", 1)
		if only > 0 {
			return
		}
	}
}

func c10RerunRun(c *core.Ctx) {
	dir := core.Scratch("c10rr")
	var idx int64
	seconds := c10RerunJobs(c.Thorough(), 2)
	for _, first := range c10RerunJobs(c.Thorough(), 1) {
		// the complete first run: its calls and what it finally commits
		drv.ClearDir(dir)
		drv.WriteFiles(dir, c10RerunInitial)
		ref := c10Ptx(dir, []string{"--wait-timeout", c10Wait, first}, 0)
		if ref.Err != nil || ref.Exit != 0 {
			c.Incomplete(fmt.Sprintf("family rerun: first job %q does not run under ptrace (exit %d, %v)", first, ref.Exit, ref.Err))
			continue
		}
		firstFinal := drv.DirSnapshot(dir)
		// k1 = len+1: the first job ran to its end (the control of the family: a second run after a complete first one)
		for k1 := 1; k1 <= len(ref.Calls)+1; k1++ {
			idx++
			if !c.Mine(idx) {
				continue
			}
			if c.Expired() {
				c.Incomplete("time budget reached (family rerun)")
				return
			}
			left, r := c10RerunLeave(dir, first, k1)
			if r.Err != nil || r.Killed != (k1 <= len(ref.Calls)) {
				c.Incomplete(fmt.Sprintf("family rerun: first job %q: call sequence not stable between runs (k1=%d, killed=%v, %v)", first, k1, r.Killed, r.Err))
				continue
			}
			// a directory equal to the one the previous crash point leaves is judged there
			if k1 > 1 {
				prev, rp := c10RerunLeave(dir, first, k1-1)
				if rp.Err == nil && rp.Killed && drv.SnapshotKey(prev) == drv.SnapshotKey(left) {
					c.Add("rerun_left_behind_directories_equal_to_previous", 1)
					continue
				}
			}
			c.Add("rerun_left_behind_directories", 1)
			c.Observe("rerun_left_behind", strings.Join(keys(left), " "))
			for _, second := range seconds {
				c10RerunSecond(c, dir, c10RerunCase{Family: "rerun", First: first, K1: k1, Second: second}, left, firstFinal, 0)
			}
		}
	}
}

func c10HistoryReplay(c *core.Ctx, payload json.RawMessage) bool {
	var b c10BystanderCase
	if json.Unmarshal(payload, &b) == nil && b.Family == "bystander" {
		fmt.Printf("replaying family bystander: %s beside %s, %q, kill before call %d\n", b.Table, b.Bystander, b.Prog, b.K)
		k := b.K
		b.K = 0
		c10BystanderOne(c, core.Scratch("c10by-replay"), b, k)
		return true
	}
	var r c10RerunCase
	if json.Unmarshal(payload, &r) == nil && r.Family == "rerun" {
		fmt.Printf("replaying family rerun: first job %q killed before call %d, second job %q killed before call %d\n", r.First, r.K1, r.Second, r.K2)
		dir := core.Scratch("c10rr-replay")
		drv.ClearDir(dir)
		drv.WriteFiles(dir, c10RerunInitial)
		ref := c10Ptx(dir, []string{"--wait-timeout", c10Wait, r.First}, 0)
		firstFinal := drv.DirSnapshot(dir)
		_ = ref
		left, _ := c10RerunLeave(dir, r.First, r.K1)
		k2 := r.K2
		r.K2 = 0
		c10RerunSecond(c, dir, r, left, firstFinal, k2)
		return true
	}
	return false
}
