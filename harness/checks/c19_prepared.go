package checks

// Extra family for C19: degenerate texts of a prepared statement under every statement that consumes a prepared
// statement.
//
// PREPARE takes any string. What the string holds is known only when it is parsed: nothing at all (empty, blanks, a
// comment, bare semicolons), one statement, several, a select query or something else, with or without placeholders,
// or no program at all (a syntax error: the statement is then not declared and the consumers meet an unknown name).
// The consumers (EXECUTE with and without values, a cursor declared FOR the statement and everything done with such a
// cursor, DISPOSE, SHOW, a second PREPARE) each make their own assumptions about the list of statements. This family
// enumerates every text built of one or two (thorough: three) pieces of a small alphabet under every consumer.

import (
	"encoding/json"
	"fmt"
	"strings"

	"verif/harness/internal/core"
	"verif/harness/internal/drv"
)

func init() {
	core.Extend("C19", "family prepared: texts of a prepared statement = all sequences of 1-2 (thorough: 3) pieces over {nothing, blank, block comment, line comment, ';', SELECT 1, SELECT ?, SELECT :a, a select on a table, "+
		"PRINT, VAR, INSERT, a syntax error} joined with nothing or ';' x 19 consumers (EXECUTE without / with positional / named / surplus values, DECLARE CURSOR FOR the statement + OPEN without / with values + FETCH / WHILE IN / "+
		"cursor status / CLOSE / DISPOSE, reopening, SHOW STATEMENTS / CURSORS, DISPOSE PREPARE and use afterwards, a second PREPARE, inside a user function, nested PREPARE), each statement run alone; "+
		"oracle: no panic, no Fatal Error, documented return code, rectangular results", c19PrRun)
	c19ExtReplays["prepared"] = c19PrReplay
}

var c19PrPieces = []string{
	"", " ", "/* c */", "-- c\n", ";",
	"SELECT 1", "SELECT ?", "SELECT :a", "SELECT c1 FROM t", "SELECT c1 FROM t WHERE c1 = ?",
	"PRINT 1", "VAR @x := 1", "INSERT INTO u VALUES (5, 6)", "SELECT FROM",
}

var c19PrJoints = []string{"", ";", " "}

// %T = the text of the statement (no single quotes in it)
type c19PrConsumer struct{ id, sql string }

var c19PrConsumers = []c19PrConsumer{
	{"execute", "PREPARE s FROM '%T'; EXECUTE s; EXECUTE s"},
	{"execute-using-1", "PREPARE s FROM '%T'; EXECUTE s USING 1; EXECUTE s USING NULL"},
	{"execute-using-2", "PREPARE s FROM '%T'; EXECUTE s USING 1, 2"},
	{"execute-using-named", "PREPARE s FROM '%T'; EXECUTE s USING 1 AS a; EXECUTE s USING 1 AS b, 2"},
	{"cursor", "VAR @v; PREPARE s FROM '%T'; DECLARE cur CURSOR FOR s; OPEN cur; FETCH cur INTO @v; FETCH LAST cur INTO @v; CLOSE cur; DISPOSE CURSOR cur"},
	{"cursor-using-1", "VAR @v; PREPARE s FROM '%T'; DECLARE cur CURSOR FOR s; OPEN cur USING 1; FETCH cur INTO @v; CLOSE cur"},
	{"cursor-using-named", "VAR @v; PREPARE s FROM '%T'; DECLARE cur CURSOR FOR s; OPEN cur USING 1 AS a, 2; FETCH ABSOLUTE 0 cur INTO @v; CLOSE cur"},
	{"cursor-status", "PREPARE s FROM '%T'; DECLARE cur CURSOR FOR s; OPEN cur; SELECT CURSOR cur IS OPEN, CURSOR cur IS IN RANGE, CURSOR cur COUNT; SHOW CURSORS"},
	{"cursor-while", "VAR @v; PREPARE s FROM '%T'; DECLARE cur CURSOR FOR s; OPEN cur; WHILE @v IN cur DO PRINT @v; END WHILE; CLOSE cur"},
	{"cursor-reopen", "PREPARE s FROM '%T'; DECLARE cur CURSOR FOR s; OPEN cur; OPEN cur; CLOSE cur; OPEN cur USING 1; CLOSE cur; CLOSE cur"},
	{"cursor-before-prepare", "DECLARE cur CURSOR FOR s; OPEN cur; PREPARE s FROM '%T'; OPEN cur; SHOW CURSORS"},
	{"cursor-after-dispose", "PREPARE s FROM '%T'; DECLARE cur CURSOR FOR s; DISPOSE PREPARE s; OPEN cur; SHOW CURSORS"},
	{"show", "PREPARE s FROM '%T'; SHOW STATEMENTS; DECLARE cur CURSOR FOR s; SHOW CURSORS"},
	{"dispose", "PREPARE s FROM '%T'; DISPOSE PREPARE s; EXECUTE s; DISPOSE PREPARE s; SHOW STATEMENTS"},
	{"prepare-twice", "PREPARE s FROM '%T'; PREPARE s FROM '%T'; PREPARE s2 FROM '%T'; EXECUTE s2 USING 1; SHOW STATEMENTS"},
	{"in-function", "DECLARE f FUNCTION () AS BEGIN VAR @v; PREPARE s FROM '%T'; EXECUTE s USING 1; DECLARE cur CURSOR FOR s; OPEN cur USING 1; FETCH cur INTO @v; RETURN @v; END; SELECT f(); SELECT f()"},
	{"in-loop", "VAR @i := 0; WHILE @i < 2 DO @i := @i + 1; PREPARE s FROM '%T'; EXECUTE s USING @i; DISPOSE PREPARE s; END WHILE"},
	{"nested", "PREPARE o FROM 'PREPARE s FROM ''%T''; EXECUTE s USING 1; DECLARE cur CURSOR FOR s; OPEN cur;'; EXECUTE o; SHOW STATEMENTS"},
	{"nested-values", "PREPARE o FROM 'PREPARE s FROM ''%T''; EXECUTE s USING ?; DECLARE cur CURSOR FOR s; OPEN cur USING ?;'; EXECUTE o USING 1; EXECUTE o USING 1, 2"},
}

type c19PrPayload struct {
	Family   string `json:"family"`
	Consumer string `json:"consumer"`
	Text     string `json:"text"`
}

func c19PrFiles(dir string) {
	drv.ClearDir(dir)
	drv.WriteFiles(dir, map[string]string{"t.csv": c19TableT, "u.csv": "a,b\n1,2\n3,4\n"})
}

func c19PrOne(c *core.Ctx, dir string, k c19PrPayload, verbose bool) string {
	var cons *c19PrConsumer
	for i := range c19PrConsumers {
		if c19PrConsumers[i].id == k.Consumer {
			cons = &c19PrConsumers[i]
		}
	}
	if cons == nil || strings.Contains(k.Text, "'") {
		fmt.Println("prepared: unknown consumer or a quote in the text of the payload")
		return ""
	}
	sql := strings.ReplaceAll(cons.sql, "%T", k.Text)
	env := drv.New(dir)
	defer env.Close()
	outcome := "ok"
	failed := false
	c19ExtExec(env, sql, func(i int, r c19ExtResult) {
		o := c19ExtJudge(c, "prepared", cons.id, r, fmt.Sprintf("statement %d of %q", i+1, sql), k)
		if o != "ok" && !failed {
			outcome, failed = o, true
		}
		if verbose {
			fmt.Printf("  statement %d: err=%v panic=%v views=%d\n", i+1, r.Err, r.Panic, len(r.Views))
		}
	})
	// nothing is committed: the tables are as before for the next case
	c19ExtExec(env, "ROLLBACK", func(i int, r c19ExtResult) {
		c19ExtJudge(c, "prepared", cons.id+":rollback", r, fmt.Sprintf("ROLLBACK after %q", sql), k)
	})
	return outcome
}

// c19PrTexts: every sequence of 1..max pieces, neighbours joined by every joint; each text once.
func c19PrTexts(max int) []string {
	seen := map[string]bool{}
	var out []string
	level := []string{}
	for _, p := range c19PrPieces {
		level = append(level, p)
	}
	add := func(s string) {
		if !seen[s] {
			seen[s] = true
			out = append(out, s)
		}
	}
	for _, s := range level {
		add(s)
	}
	for n := 2; n <= max; n++ {
		var next []string
		for _, p := range level {
			for _, j := range c19PrJoints {
				for _, q := range c19PrPieces {
					next = append(next, p+j+q)
				}
			}
		}
		for _, s := range next {
			add(s)
		}
		level = next
	}
	return out
}

func c19PrRun(c *core.Ctx) {
	if c19ExtOff(c, "prepared") {
		return
	}
	max := 2
	if c.Thorough() {
		max = 3
	}
	texts := c19PrTexts(max)
	dir := core.Scratch("c19prepared")
	c19PrFiles(dir)
	var idx int64
	for _, t := range texts {
		idx++
		if !c.Mine(idx) {
			continue
		}
		if c.Expired() {
			c.Incomplete("time budget reached in family prepared")
			return
		}
		for _, cons := range c19PrConsumers {
			k := c19PrPayload{Family: "prepared", Consumer: cons.id, Text: t}
			o := c19PrOne(c, dir, k, false)
			c.EvalN(1, 1)
			c.Observe("prepared_outcomes", o)
			if c.WantSample() && cons.id == "cursor" && t == "/* c */" {
				c.Sample(map[string]any{"family": "prepared", "consumer": cons.id, "text": t, "outcome": o})
			}
		}
	}
}

func c19PrReplay(c *core.Ctx, payload json.RawMessage) {
	var k c19PrPayload
	if json.Unmarshal(payload, &k) != nil {
		fmt.Println("bad payload")
		return
	}
	dir := core.Scratch("c19prepared-replay")
	c19PrFiles(dir)
	fmt.Println("outcome:", c19PrOne(c, dir, k, true))
}
