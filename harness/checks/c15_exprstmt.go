package checks

import (
	"encoding/json"
	"fmt"
	"runtime"
	"strings"

	"verif/harness/internal/core"
	"verif/harness/internal/drv"
)

// Extra family for C15: a VALUE EXPRESSION USED AS A STATEMENT (the grammar takes any value as a statement; in
// practice a user-defined function called for its effect: `f(1);`). Such a statement evaluates the expression and
// drops the value. Whatever the value was - a variable of the block, the parameter or a local of an invocation,
// an outer variable the function has just assigned, a constant of a function body - every variable, parameter and
// local that is alive around the statement keeps the value the scoping rules give it, and "assignments to outer
// variables persist".
//
// Enumerated: 4 value types x 8 places of the statement (top level, IF, IF with a shadowing declaration, WHILE,
// WHILE with a shadowing declaration, function body over its parameter - argument a constant or a variable of the
// caller -, recursive function over a local) x every sequence of 1-2 (thorough: 3) statements over 14 expression
// forms; each statement is followed by a declaration whose initial value is computed. Every program is executed
// twice as written and twice with the value kept (`@sink := expr;`), on one process image.
// Oracle: the printed variables equal the values of the constants they were given last (the printed form of a
// constant is taken from `PRINT <constant>` on the same csvq).
func init() {
	core.Extend("C15", "family exprstmt: value expression used as a statement (bare variable, parenthesised, CASE / COALESCE / IF / subquery / comparison over it, user function returning its parameter, a local, "+
		"an outer variable, an outer variable it has assigned, a constant, a computed value; nested call) x 4 value types x 8 places (top, IF, IF+shadow, WHILE, WHILE+shadow, function parameter from constant / from caller's variable, "+
		"recursive function local) x all sequences of 1-2 statements (thorough: 3), each followed by a computed declaration; run twice as written and twice with the value assigned to a variable; "+
		"oracle: every live variable prints the constant it was given last", c15ExprStmtRun)
}

type c15XType struct {
	name  string
	lit   func(k int) string    // constant number k (distinct values)
	mk    func(n string) string // a value of the type computed from the integer expression n
	churn func(j int) string    // a computed (newly made) value, number j
	fresh func(p string) string // a value computed from the value p
}

var c15XTypes = []c15XType{
	{"integer",
		func(k int) string { return fmt.Sprint(10 + k) },
		func(n string) string { return "(20 + " + n + ")" },
		func(j int) string { return fmt.Sprintf("(100 + %d)", j) },
		func(p string) string { return "(" + p + " + 1000)" }},
	{"float",
		func(k int) string { return fmt.Sprintf("%d.25", k+1) },
		func(n string) string { return "(0.5 + " + n + ")" },
		func(j int) string { return fmt.Sprintf("(100.5 + %d)", j) },
		func(p string) string { return "(" + p + " + 1000)" }},
	{"string",
		func(k int) string { return fmt.Sprintf("'s%d'", k) },
		func(n string) string { return "('r' || " + n + ")" },
		func(j int) string { return fmt.Sprintf("('c' || %d)", j) },
		func(p string) string { return "(" + p + " || 'x')" }},
	{"datetime",
		func(k int) string { return fmt.Sprintf("DATETIME('2001-02-03 04:05:0%d')", k) },
		func(n string) string { return "DATETIME('2001-02-0' || " + n + ")" },
		func(j int) string { return fmt.Sprintf("ADD_DAY(DATETIME('2010-01-01 00:00:00'), %d)", j) },
		func(p string) string { return "ADD_DAY(" + p + ", 40)" }},
}

type c15XForm struct {
	name  string
	sql   func(t c15XType, k int) string
	sets  bool // the statement assigns constant k to the subject variable
	named bool // uses the functions that name @a
}

func c15XFixed(s string) func(c15XType, int) string {
	return func(c15XType, int) string { return s }
}

var c15XForms = []c15XForm{
	{name: "@a", sql: c15XFixed("@a")},
	{name: "(@a)", sql: c15XFixed("(@a)")},
	{name: "idf(@a)", sql: c15XFixed("idf(@a)")},
	{name: "idf(idf(@a))", sql: c15XFixed("idf(idf(@a))")},
	{name: "loc(@a)", sql: c15XFixed("loc(@a)")},
	{name: "geta()", sql: c15XFixed("geta()"), named: true},
	{name: "seta(const)", sql: func(t c15XType, k int) string { return "seta(" + t.lit(k) + ")" }, sets: true, named: true},
	{name: "lit()", sql: c15XFixed("lit()")},
	{name: "fresh(@a)", sql: c15XFixed("fresh(@a)")},
	{name: "(CASE..@a)", sql: c15XFixed("(CASE WHEN TRUE THEN @a END)")},
	{name: "COALESCE(NULL,@a)", sql: c15XFixed("COALESCE(NULL, @a)")},
	{name: "(IF(TRUE,@a,NULL))", sql: c15XFixed("(IF(TRUE, @a, NULL))")},
	{name: "(SELECT @a)", sql: c15XFixed("(SELECT @a)")},
	{name: "@a = @a", sql: c15XFixed("@a = @a")},
}

var c15XPlaces = []string{"top", "if", "if-shadow", "while", "while-shadow", "func-param-const", "func-param-var", "recursion-local"}

const c15XLitConst = 9 // the constant the function lit() returns

type c15XCase struct {
	Family string `json:"family"`
	Type   int    `json:"type"`
	Place  int    `json:"place"`
	Forms  []int  `json:"forms"`
}

// c15XProgram renders the case; keep = the value of every expression statement is assigned to @sink instead of
// being dropped. expect holds the expression whose printed form every output line must equal.
func c15XProgram(k c15XCase, keep bool) (sql string, expect []string) {
	t := c15XTypes[k.Type]
	place := c15XPlaces[k.Place]
	var sb strings.Builder
	w := func(f string, a ...any) { fmt.Fprintf(&sb, f, a...) }
	w("DECLARE idf FUNCTION (@p) AS BEGIN RETURN @p; END;\n")
	w("DECLARE loc FUNCTION (@p) AS BEGIN VAR @l := @p; RETURN @l; END;\n")
	w("DECLARE lit FUNCTION () AS BEGIN RETURN %s; END;\n", t.lit(c15XLitConst))
	w("DECLARE fresh FUNCTION (@p) AS BEGIN RETURN %s; END;\n", t.fresh("@p"))
	w("VAR @sink;\nVAR @a := %s;\n", t.lit(0))
	named := func(ind string) {
		// declared where the subject variable is the innermost @a of the declaring block and of every caller
		w("%sDECLARE geta FUNCTION () AS BEGIN RETURN @a; END;\n%sDECLARE seta FUNCTION (@p) AS BEGIN @a := @p; RETURN @a; END;\n", ind, ind)
	}
	subject := t.lit(0)
	body := func(ind string) {
		for i, f := range k.Forms {
			e := c15XForms[f].sql(t, 2+i)
			if keep {
				w("%s@sink := %s;\n", ind, e)
			} else {
				w("%s%s;\n", ind, e)
			}
			if c15XForms[f].sets {
				subject = t.lit(2 + i)
			}
			w("%sVAR @c%d := %s;\n", ind, i, t.churn(i+1))
		}
	}
	prints := func(ind string) []string {
		out := []string{}
		w("%sPRINT @a;\n", ind)
		out = append(out, subject)
		for i := range k.Forms {
			w("%sPRINT @c%d;\n", ind, i)
			out = append(out, t.churn(i+1))
		}
		w("%sPRINT lit();\n", ind)
		return append(out, t.lit(c15XLitConst))
	}
	switch place {
	case "top":
		named("")
		body("")
		expect = prints("")
	case "if":
		named("")
		w("IF TRUE THEN\n")
		body("  ")
		expect = prints("  ")
		w("END IF;\nPRINT @a;\n")
		expect = append(expect, subject)
	case "if-shadow":
		w("IF TRUE THEN\n  VAR @a := %s;\n", t.lit(1))
		subject = t.lit(1)
		named("  ")
		body("  ")
		expect = prints("  ")
		w("END IF;\nPRINT @a;\n")
		expect = append(expect, t.lit(0))
	case "while":
		named("")
		w("VAR @i := 0;\nWHILE @i < 2 DO\n  @i := @i + 1;\n")
		body("  ")
		once := prints("  ")
		expect = append(append(expect, once...), once...)
		w("END WHILE;\nPRINT @a;\n")
		expect = append(expect, subject)
	case "while-shadow":
		w("VAR @i := 0;\nWHILE @i < 2 DO\n  @i := @i + 1;\n  VAR @a := %s;\n", t.lit(1))
		subject = t.lit(1)
		named("  ")
		body("  ")
		once := prints("  ")
		expect = append(append(expect, once...), once...)
		w("END WHILE;\nPRINT @a;\n")
		expect = append(expect, t.lit(0))
	case "func-param-const", "func-param-var":
		w("DECLARE outerf FUNCTION (@a) AS BEGIN\n")
		subject = t.lit(1)
		named("  ")
		body("  ")
		expect = prints("  ")
		w("  RETURN @a;\nEND;\n")
		if place == "func-param-const" {
			w("VAR @r := outerf(%s);\nPRINT @r;\n", t.lit(1))
			expect = append(expect, subject)
		} else {
			// the parameter is the invocation's own: assigning it does not reach the caller's variable
			w("VAR @b := %s;\nVAR @r := outerf(@b);\nPRINT @r;\nVAR @d := %s;\nPRINT @b;\n", t.lit(1), t.churn(7))
			expect = append(expect, subject, t.lit(1))
		}
		w("PRINT @a;\n")
		expect = append(expect, t.lit(0))
	case "recursion-local":
		w("DECLARE rec FUNCTION (@n) AS BEGIN\n  IF @n < 1 THEN RETURN 0; END IF;\n  VAR @a := %s;\n", t.mk("@n"))
		named("  ")
		body("  ")
		w("  VAR @below := rec(@n - 1);\n  PRINT @a;\n  RETURN @n;\nEND;\nVAR @r := rec(3);\nPRINT @a;\n")
		sets := subject != t.lit(0)
		for n := 1; n <= 3; n++ {
			if sets {
				expect = append(expect, subject)
			} else {
				expect = append(expect, t.mk(fmt.Sprint(n)))
			}
		}
		expect = append(expect, t.lit(0))
	}
	return sb.String(), expect
}

// c15XCalibrate asks csvq for the printed form of every constant expression the family compares with.
func c15XCalibrate(dir string) (map[string]string, error) {
	var exprs []string
	for _, t := range c15XTypes {
		for k := 0; k <= c15XLitConst; k++ {
			exprs = append(exprs, t.lit(k))
		}
		for j := 1; j <= 7; j++ {
			exprs = append(exprs, t.churn(j))
		}
		for n := 1; n <= 3; n++ {
			exprs = append(exprs, t.mk(fmt.Sprint(n)))
		}
	}
	var sb strings.Builder
	for _, e := range exprs {
		sb.WriteString("PRINT " + e + ";\n")
	}
	env := drv.NewText(dir)
	env.Tx.Flags.SetQuiet(true)
	r := env.Exec(sb.String())
	env.Close()
	lines := strings.Split(strings.TrimSpace(r.Out), "\n")
	if r.Err != nil || r.Panic != nil || len(lines) != len(exprs) {
		return nil, fmt.Errorf("printing the constants: err=%v panic=%v, %d lines for %d constants", r.Err, r.Panic, len(lines), len(exprs))
	}
	cal := map[string]string{}
	seen := map[string]string{}
	for i, e := range exprs {
		l := strings.TrimSpace(lines[i])
		if other, dup := seen[l]; dup && other != e {
			return nil, fmt.Errorf("the constants %s and %s print alike (%s)", other, e, l)
		}
		seen[l] = e
		cal[e] = l
	}
	return cal, nil
}

func c15XOne(c *core.Ctx, dir string, cal map[string]string, k c15XCase) {
	names := make([]string, len(k.Forms))
	for i, f := range k.Forms {
		names[i] = c15XForms[f].name
	}
	c.Eval(fmt.Sprintf("exprstmt|%d|%d|%v", k.Type, k.Place, k.Forms), k.Place != 0)
	type res struct {
		got []string
		err string
		ok  bool
	}
	run := func(keep bool) (string, []string, res) {
		sql, expect := c15XProgram(k, keep)
		want := make([]string, len(expect))
		for i, e := range expect {
			want[i] = cal[e]
		}
		var first res
		for n := 0; n < 2; n++ { // twice on one process image
			env := drv.NewText(dir)
			env.Tx.Flags.SetQuiet(true)
			r := env.Exec(sql)
			env.Close()
			c.Add("exprstmt_executions", 1)
			var x res
			for _, l := range strings.Split(strings.TrimSpace(r.Out), "\n") {
				x.got = append(x.got, strings.TrimSpace(l))
			}
			if r.Err != nil || r.Panic != nil {
				x.err = fmt.Sprintf("err=%v panic=%v", r.Err, r.Panic)
			}
			x.ok = x.err == "" && strings.Join(x.got, "\n") == strings.Join(want, "\n")
			if n == 0 || (first.ok && !x.ok) {
				first = x
			}
		}
		return sql, want, first
	}
	sqlD, want, dropped := run(false)
	_, _, kept := run(true)
	if dropped.ok && kept.ok {
		return
	}
	cat := "a variable, parameter or local that is alive around the statement does not keep its value"
	switch {
	case dropped.err != "" || kept.err != "":
		cat = "error or panic"
	case !kept.ok:
		cat = "variables do not keep their values, also when the value of the expression is assigned instead of dropped"
	}
	form := names[0]
	if len(names) > 1 {
		form = fmt.Sprintf("sequence of %d", len(names))
	}
	c.Violate("exprstmt:"+form+":"+cat,
		fmt.Sprintf("value type %s, place %s, expression statements %v\n%s\nas written:      prints %v %s\nvalue assigned:  prints %v %s\nscoping rules:   %v",
			c15XTypes[k.Type].name, c15XPlaces[k.Place], names, sqlD, dropped.got, dropped.err, kept.got, kept.err, want), k)
}

func c15ExprStmtRun(c *core.Ctx) {
	if c15Skip(c, "exprstmt") {
		return
	}
	prev := runtime.GOMAXPROCS(1) // one P: what is put into a sync.Pool is handed to the next request
	defer runtime.GOMAXPROCS(prev)
	dir := core.Scratch("c15exprstmt")
	cal, err := c15XCalibrate(dir)
	if err != nil {
		if c.Mine(0) {
			c.Violate("harness:exprstmt-calibration", err.Error(), c15XCase{Family: "exprstmt"})
		}
		return
	}
	maxLen := 2
	if c.Thorough() {
		maxLen = 3
	}
	c.Info("exprstmt_max_statements", maxLen)
	var idx int64
	nf := len(c15XForms)
	for L := 1; L <= maxLen; L++ {
		total := 1
		for i := 0; i < L; i++ {
			total *= nf
		}
		for code := 0; code < total; code++ {
			forms := make([]int, L)
			x := code
			for i := range forms {
				forms[i] = x % nf
				x /= nf
			}
			for ti := range c15XTypes {
				for pi := range c15XPlaces {
					idx++
					if !c.Mine(idx) {
						continue
					}
					if c.Expired() {
						c.Incomplete(fmt.Sprintf("time budget reached in family exprstmt at %d statements", L))
						return
					}
					k := c15XCase{Family: "exprstmt", Type: ti, Place: pi, Forms: forms}
					c15XOne(c, dir, cal, k)
					if c.WantSample() && L == 2 && pi == 7 && forms[0] == 2 {
						sql, _ := c15XProgram(k, false)
						c.Sample(map[string]any{"family": "exprstmt", "type": c15XTypes[ti].name, "place": c15XPlaces[pi], "program": sql})
					}
				}
			}
		}
	}
}

func c15ExprStmtReplay(c *core.Ctx, payload json.RawMessage) bool {
	var k c15XCase
	if json.Unmarshal(payload, &k) != nil || k.Family != "exprstmt" {
		return false
	}
	if k.Type >= len(c15XTypes) || k.Place >= len(c15XPlaces) || len(k.Forms) == 0 {
		fmt.Println("replay of family exprstmt: nothing to re-execute in this payload")
		return true
	}
	runtime.GOMAXPROCS(1)
	dir := core.Scratch("c15exprstmt-replay")
	cal, err := c15XCalibrate(dir)
	if err != nil {
		fmt.Println("calibration failed:", err)
		return true
	}
	sql, _ := c15XProgram(k, false)
	fmt.Printf("replaying family exprstmt: type %s, place %s, forms %v\n%s", c15XTypes[k.Type].name, c15XPlaces[k.Place], k.Forms, sql)
	c15XOne(c, dir, cal, k)
	return true
}
