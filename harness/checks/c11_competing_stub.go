//go:build !verifx

package checks

import (
	"encoding/json"

	"verif/harness/internal/core"
)

// without the overlay (tag verifx) the file-system-step explorer is not available
func c11CompetingReplay(c *core.Ctx, raw json.RawMessage) bool { return false }
