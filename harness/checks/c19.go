package checks

// C19 — csvq never fails internally: any program, data or file state ends cleanly.
//
// Parts covered here (see REPORT.md): (a) loader inputs x option vectors, in memory and file backed,
// including large files; (b) every built-in function x boundary argument tuples; (c) boundary arguments to
// every clause / statement; (d) file-system conditions that need no fault injection.
//
// Process layout. The runner starts 16 worker processes. Each C19 worker is only a *supervisor*: for every
// family of cases it starts a child process (the same binary, C19_CHILD=1) that enumerates the worker's shard
// of that family in process, under an address-space limit, and records the case it is about to run in a
// progress file.
//   - The child dies (Go "fatal error", unrecovered panic in a csvq goroutine, one runaway allocation): the
//     supervisor runs exactly that case again, alone in a fresh child; a failure that repeats is reported.
//   - The child stalls (c19SuspectSeconds of user CPU without a progress record, or every thread asleep that
//     long) or fills its heap: the case is examined alone in a parallel lane — violation if it neither ends within
//     c19HangSeconds CPU-seconds nor stays inside its memory; the other cases of the same class are set aside.
// In both situations the enumeration resumes behind the case.

import (
	"context"
	"encoding/hex"
	"encoding/json"
	"fmt"
	"math"
	"os"
	"os/exec"
	"path/filepath"
	"regexp"
	"runtime/debug"
	"runtime/pprof"
	"strconv"
	"strings"
	"sync"
	"sync/atomic"
	"syscall"
	"time"

	"github.com/mithrandie/csvq/lib/parser"
	"github.com/mithrandie/csvq/lib/query"
	"github.com/mithrandie/csvq/lib/value"
	"github.com/mithrandie/ternary"

	"verif/harness/internal/c19ref"
	"verif/harness/internal/core"
	"verif/harness/internal/drv"
)

const (
	// Non-termination is measured in work, not in wall-clock time: a case is "stalled" when its process has burnt
	// that many user-mode CPU-seconds since the last progress record (or, for a deadlock, when every thread of the process has
	// been asleep that long). Machine load therefore cannot fake a hang.
	c19SuspectSeconds   = 4       // trigger inside an enumeration of small cases (the case is then examined alone; not an oracle)
	c19SuspectBig       = 25      // the same trigger for the family of large files
	c19HangSeconds      = 30      // the oracle: alone in a fresh process, 30 CPU-seconds (or 30 s asleep) without ending
	c19LaneAddressSpace = 3 << 30 // RLIMIT_AS while a stalled case is examined alone
	c19AddressSpace     = 4 << 30 // RLIMIT_AS of a child: stands for a machine with 4 GiB
	c19ProgressRecord   = 4096
	c19MaxAbnormal      = 20
)

func init() {
	core.Register(&core.Check{
		ID:    "C19",
		Level: "exploration",
		Rule: "one case = one load of one input under one option vector (all byte strings over per-format alphabets up to a length bound, in memory via DATA::() and file backed; generated large files), " +
			"or one call of one built-in function (scalar, aggregate, analytic form) on one argument tuple of the boundary alphabet, or one clause/statement template on one argument tuple, " +
			"or one statement under one file-system condition, or one call with a length / precision / width argument of 2^32 or more (family huge); enumerated without repetition. non-trivial = load produced a table with at least one record (rectangularity and last-column selection are checked on it) / " +
			"the function call got past argument counting / the statement parsed / every file-system case",
		Assume: []string{
			"in-process csvq (lib/query) stands for the CLI: the exit code is computed like lib/cli/app.go Exit() does (query.Error.Code(), else 1)",
			"children run with RLIMIT_AS = 4 GiB (3 GiB while a stalled case is examined alone); integers between 1e6 and 2^32 are not passed where the manual defines an output length or precision (LPAD/RPAD len, NUMBER_FORMAT/ROUND/CEIL/FLOOR place, FORMAT width/precision): whether such a request is served is a matter of resources; 2^32 and more (family huge) cannot be served within the address space and must be refused",
			"non-termination = a case that stalls the enumeration (4 CPU-seconds without a progress record) and then, alone in a fresh process, burns 30 CPU-seconds (or sleeps 30 s with every thread blocked) without ending; TZ=UTC; no fault injection, no unreadable/read-only files (the harness runs as root)",
			"documented terminations: command.md 'Return Code' (0,1,2,4,8,16,32,64) and a non-empty message that is not csvq's '[Fatal Error]' report",
		},
		Run:            c19Run,
		Replay:         c19Replay,
		QuickBudget:    240 * time.Second,
		ThoroughBudget: 9 * time.Minute,
	})
}

// ---- cases ---------------------------------------------------------------------------------------

type c19Case struct {
	Fam  string          `json:"f"`           // fs | clause | fn | huge | load | big
	Fmt  string          `json:"m,omitempty"` // csv fixed ltsv json jsonl
	Via  string          `json:"v,omitempty"` // data | file | inline | auto
	Data string          `json:"d,omitempty"` // hex of the input bytes
	Big  *c19ref.BigSpec `json:"g,omitempty"`
	Elem string          `json:"e,omitempty"` // delimiter | delimiter positions | json query
	Enc  string          `json:"c,omitempty"`
	NH   bool            `json:"nh,omitempty"`
	WN   bool            `json:"wn,omitempty"`
	AU   bool            `json:"au,omitempty"`
	Fn   string          `json:"fn,omitempty"`
	Form string          `json:"fm,omitempty"`
	Args []string        `json:"a,omitempty"`
	Tpl  string          `json:"t,omitempty"`
	Cond string          `json:"fs,omitempty"`
	Stmt string          `json:"s,omitempty"`
	Lane bool            `json:"lane,omitempty"` // recorded by the supervisor: the case was examined under the stalled-case regime
}

// class is the part of a signature that names the kind of case without its data.
func (cs *c19Case) class() string {
	switch cs.Fam {
	case "fs":
		return "fs:" + cs.Cond + ":" + c19StmtClass(cs.Stmt)
	case "clause":
		return "clause:" + cs.Tpl
	case "fn":
		return "fn:" + cs.Form + ":" + cs.Fn
	case "huge":
		return "huge:" + cs.Fn + ":" + cs.Form
	case "big":
		if cs.Big != nil {
			return "big:" + cs.Big.Format + ":" + cs.Big.Shape
		}
	}
	return cs.Fam + ":" + cs.Fmt + ":" + cs.Via
}

// hangClass names what is set aside after a suspected non-termination, and signs a confirmed one.
func (cs *c19Case) hangClass() string {
	switch cs.Fam {
	case "load":
		return "load:" + cs.Fmt + ":" + c19ElemClass(cs.Elem)
	case "fs":
		return "fs:" + cs.Cond
	case "big":
		if cs.Big != nil {
			return "big:" + cs.Big.Format + ":" + c19ElemClass(cs.Elem) + ":" + cs.Big.LB
		}
	case "clause":
		// the kind of clause: "frame-between", "frame-rows-preceding@empty" ... are one class "frame"
		g := cs.Tpl
		if i := strings.IndexAny(g, "-@"); i > 0 {
			g = g[:i]
		}
		return "clause:" + g
	}
	return cs.class()
}

func c19ElemClass(e string) string {
	if len(e) > 24 {
		e = e[:24]
	}
	return strconv.QuoteToASCII(e)
}

// tableClass signs violations of rectangularity: format and route, not the data.
func (cs *c19Case) tableClass() string {
	switch cs.Fam {
	case "load", "big":
		return "load:" + cs.Fmt + ":" + cs.Via
	}
	return cs.class()
}

// sigFam is the coarse class used where the culprit is named by a code location instead.
func (cs *c19Case) sigFam() string {
	if cs.Fam == "fs" {
		if strings.HasPrefix(cs.Cond, "cwd-removed") {
			return "fs:cwd-removed"
		}
		return "fs:" + cs.Cond
	}
	if cs.Fam == "big" {
		return "load"
	}
	return cs.Fam
}

var c19FrameRe = regexp.MustCompile(`github\.com/mithrandie/[^\s\[(]+(\(\*?[A-Za-z0-9_]+\)[^\s\[(]*)?`)

// c19Frame names the csvq (or go-text/go-file) function in which a panic was raised: the first frame of
// those modules below the runtime's panic frames in a stack dump — csvq's own "Stack:" list of a Fatal Error,
// debug.Stack() or a goroutine dump. Line numbers are left out so that the name survives unrelated edits.
func c19Frame(text string) string {
	started := false
	for _, l := range strings.Split(text, "\n") {
		if strings.Contains(l, "runtime.gopanic") || strings.Contains(l, "runtime.panicmem") || strings.Contains(l, "runtime.sigpanic") ||
			strings.Contains(l, "runtime.goPanic") || strings.Contains(l, "runtime.panicdivide") || strings.HasPrefix(l, "panic(") ||
			strings.Contains(l, "runtime.throw") || strings.Contains(l, "runtime.fatal") || strings.HasPrefix(l, "panic: ") || strings.HasPrefix(l, "fatal error: ") {
			started = true
			continue
		}
		if !started {
			continue
		}
		if m := c19FrameRe.FindString(l); m != "" {
			m = strings.TrimPrefix(m, "github.com/mithrandie/csvq/lib/")
			return strings.TrimPrefix(m, "github.com/mithrandie/")
		}
	}
	return "unknown"
}

func c19StmtClass(s string) string {
	f := strings.Fields(s)
	if len(f) == 0 {
		return "empty"
	}
	k := strings.ToUpper(f[0])
	if k == "SELECT" && strings.Contains(strings.ToUpper(s), " FROM ") {
		return "SELECT-FROM"
	}
	return k
}

type c19Progress struct {
	Fam  int      `json:"fam"`
	Ord  int64    `json:"o"`
	Case *c19Case `json:"c"`
	Ev   int64    `json:"ev"` // cases this child has finished and counted so far (credited if the child dies)
	Nt   int64    `json:"nt"`
}

// ---- entry points --------------------------------------------------------------------------------

func c19Run(c *core.Ctx) {
	if os.Getenv("C19_CHILD") != "" {
		c19Child(c)
		return
	}
	c19Supervise(c)
}

func c19Replay(c *core.Ctx, payload json.RawMessage) {
	if os.Getenv("C19_CHILD") != "" {
		return
	}
	if c19CliReplay(c, payload) || c19ExtReplay(c, payload) {
		return
	}
	var cs c19Case
	if err := json.Unmarshal(payload, &cs); err != nil {
		fmt.Println("bad payload:", err)
		return
	}
	fmt.Printf("replaying %s\n", string(payload))
	if cs.Lane {
		c19ExamineStalled(c, &cs, true)
		return
	}
	res := c19Spawn(c, -1, 0, &cs, nil, c19HangSeconds, true)
	if res.stdout != "" {
		fmt.Print(res.stdout)
	}
	if res.partial != nil {
		c19Merge(c, res.partial)
	}
	if !res.ok {
		if c19Runaway(res) {
			c19ExamineStalled(c, &cs, true)
			return
		}
		c.Violate(c19CrashSig(&cs, res), c19CrashMsg(&cs, res), &cs)
	}
}

// ---- supervisor ----------------------------------------------------------------------------------

type c19SpawnResult struct {
	ok      bool
	partial *core.Partial
	prog    *c19Progress
	stderr  string
	stdout  string
	reason  string
}

var c19ChildSeq int64

func c19Spawn(c *core.Ctx, fam int, start int64, one *c19Case, skip []string, hangSeconds int, verbose bool) c19SpawnResult {
	return c19SpawnAS(c, fam, start, one, skip, hangSeconds, verbose, c19AddressSpace)
}

func c19SpawnAS(c *core.Ctx, fam int, start int64, one *c19Case, skip []string, hangSeconds int, verbose bool, addressSpace uint64) c19SpawnResult {
	base := core.Scratch(fmt.Sprintf("c19-sup-%d", atomic.AddInt64(&c19ChildSeq, 1)))
	progPath := filepath.Join(base, "progress")
	outPath := filepath.Join(base, "out.json")
	errPath := filepath.Join(base, "stderr.txt")
	stdoutPath := filepath.Join(base, "stdout.txt")
	os.WriteFile(progPath, nil, 0644)
	budget := time.Until(c.Deadline).Seconds()
	if budget < 1 || one != nil {
		budget = math.Max(budget, 120)
	}
	exe, err := os.Executable()
	if err != nil {
		exe = os.Args[0]
	}
	cmd := exec.Command(exe, "-worker", c.ID, c.Tier, strconv.FormatInt(c.Seed, 10), strconv.Itoa(c.Shard), strconv.Itoa(c.N),
		strconv.FormatFloat(budget, 'f', 1, 64), outPath)
	env := append(os.Environ(), "C19_CHILD=1", "C19_FAM="+strconv.Itoa(fam), "C19_START="+strconv.FormatInt(start, 10), "C19_PROGRESS="+progPath,
		"VERIF_SCRATCH="+base, "GOTRACEBACK=all", "C19_AS="+strconv.FormatUint(addressSpace, 10))
	if one != nil {
		b, _ := json.Marshal(one)
		env = append(env, "C19_ONE="+string(b))
	}
	if verbose {
		env = append(env, "C19_VERBOSE=1")
	}
	if len(skip) > 0 {
		b, _ := json.Marshal(skip)
		env = append(env, "C19_SKIP="+string(b))
	}
	cmd.Env = env
	ef, _ := os.Create(errPath)
	of, _ := os.Create(stdoutPath)
	cmd.Stderr, cmd.Stdout = ef, of
	res := c19SpawnResult{}
	if err := cmd.Start(); err != nil {
		res.reason = "cannot start child: " + err.Error()
		return res
	}
	done := make(chan error, 1)
	go func() { done <- cmd.Wait() }()
	var waitErr error
	hung := false
	overBudget := false
	last := ""
	pid := cmd.Process.Pid
	cpuAtChange, _ := c19ProcCPU(pid)
	wallAtChange := time.Now()
	limit := float64(hangSeconds)
	tick := time.NewTicker(200 * time.Millisecond)
	defer tick.Stop()
loop:
	for {
		select {
		case waitErr = <-done:
			break loop
		case <-tick.C:
			b, _ := os.ReadFile(progPath)
			cpu, asleep := c19ProcCPU(pid)
			if s := string(b); s != last {
				last = s
				cpuAtChange = cpu
				wallAtChange = time.Now()
				continue
			}
			if one != nil && !c.IsReplay && time.Now().After(c.Deadline.Add(3*time.Second)) {
				// the run's time budget is over: the examination is abandoned, not decided
				cmd.Process.Kill()
				waitErr = <-done
				overBudget = true
				break loop
			}
			spinning := cpu-cpuAtChange >= limit
			blocked := asleep && time.Since(wallAtChange).Seconds() >= limit && cpu-cpuAtChange < 0.5
			if spinning || blocked {
				hung = true
				cmd.Process.Signal(syscall.SIGQUIT) // the Go runtime dumps every goroutine, then exits
				select {
				case waitErr = <-done:
				case <-time.After(20 * time.Second):
					cmd.Process.Kill()
					waitErr = <-done
				}
				break loop
			}
		}
	}
	ef.Close()
	of.Close()
	eb, _ := os.ReadFile(errPath)
	res.stderr = string(eb)
	ob, _ := os.ReadFile(stdoutPath)
	res.stdout = string(ob)
	if pb, err := os.ReadFile(progPath); err == nil && len(strings.TrimSpace(string(pb))) > 0 {
		var p c19Progress
		if json.Unmarshal([]byte(strings.TrimSpace(string(pb))), &p) == nil && p.Case != nil {
			res.prog = &p
		}
	}
	if b, err := os.ReadFile(outPath); err == nil {
		var p core.Partial
		if json.Unmarshal(b, &p) == nil {
			res.partial = &p
		}
	}
	switch {
	case overBudget:
		res.reason = "budget"
	case hung:
		res.reason = "hang"
	case waitErr == nil && res.partial != nil:
		res.ok = true
	default:
		res.reason = c19CrashReason(res.stderr, waitErr)
	}
	os.RemoveAll(base)
	return res
}

// c19ProcCPU: user-mode CPU-seconds consumed so far by process pid (all threads) and whether every thread is asleep.
func c19ProcCPU(pid int) (cpu float64, asleep bool) {
	b, err := os.ReadFile(fmt.Sprintf("/proc/%d/stat", pid))
	if err != nil {
		return 0, false
	}
	s := string(b)
	i := strings.LastIndexByte(s, ')')
	if i < 0 {
		return 0, false
	}
	f := strings.Fields(s[i+1:])
	if len(f) < 13 {
		return 0, false
	}
	// user time only: system time is also charged for the kernel's page reclaim when the machine is short of memory
	ut, _ := strconv.ParseFloat(f[11], 64)
	cpu = ut / 100 // USER_HZ
	asleep = true
	ents, err := os.ReadDir(fmt.Sprintf("/proc/%d/task", pid))
	if err != nil {
		return cpu, false
	}
	for _, e := range ents {
		tb, err := os.ReadFile(fmt.Sprintf("/proc/%d/task/%s/stat", pid, e.Name()))
		if err != nil {
			continue
		}
		ts := string(tb)
		if j := strings.LastIndexByte(ts, ')'); j >= 0 {
			tf := strings.Fields(ts[j+1:])
			if len(tf) > 0 && tf[0] != "S" && tf[0] != "I" {
				asleep = false
			}
		}
	}
	return cpu, asleep
}

var c19Digits = regexp.MustCompile(`0x[0-9a-fA-F]+|[0-9]+`)
var c19Brackets = regexp.MustCompile(`\s*\[[^\]]*\]( with (length|capacity) [0-9]+)?`)
var c19IsType = regexp.MustCompile(`is \*?[A-Za-z0-9_.]+, not`)

func c19Norm(s string) string {
	if i := strings.IndexByte(s, '\n'); i >= 0 {
		s = s[:i]
	}
	s = c19Brackets.ReplaceAllString(s, "")
	s = c19IsType.ReplaceAllString(s, "is T, not")
	s = c19Digits.ReplaceAllString(strings.TrimSpace(s), "N")
	if len(s) > 100 {
		s = s[:100]
	}
	return s
}

func c19CrashReason(stderr string, waitErr error) string {
	// every way the Go runtime dies when the address space is used up
	for _, m := range []string{"failed to create new OS thread", "cannot allocate memory", "runtime: cannot map pages", "out of memory"} {
		if strings.Contains(stderr, m) {
			return "fatal error: out of memory"
		}
	}
	for _, l := range strings.Split(stderr, "\n") {
		switch {
		case strings.HasPrefix(l, "fatal error: "):
			return c19Norm(l)
		case strings.HasPrefix(l, "panic: "):
			return c19Norm(l)
		case strings.HasPrefix(l, "runtime: out of memory"), strings.Contains(l, "pthread_create failed"), strings.Contains(l, "cannot allocate memory"):
			return "fatal error: out of memory"
		}
	}
	if waitErr != nil {
		return c19Norm(waitErr.Error())
	}
	return "child wrote no result"
}

// c19CrashSig: the class of a whole-process failure, named by the csvq function it happened in where a dump says so.
func c19CrashSig(cs *c19Case, res c19SpawnResult) string {
	if c19Runaway(res) {
		// does not end within the CPU allowance, or fills the heap first: one class, the message says which
		return "runaway:" + cs.hangClass()
	}
	if c19SingleAllocation(res) {
		// one runaway allocation is named by the function that asked for it
		return "crash:" + cs.sigFam() + ":out of memory, single allocation@" + c19Frame(res.stderr)
	}
	if strings.Contains(res.reason, "stack overflow") && cs.Fam == "clause" && strings.HasPrefix(cs.Tpl, "recursion-") {
		// the frame at which a runaway recursion exhausts the stack varies from run to run: named by the template
		return "crash:" + cs.sigFam() + ":" + res.reason + "@" + cs.Tpl
	}
	if strings.Contains(res.reason, "stack overflow") && cs.Fam == "fs" && cs.Cond == "file-sourcing-itself" {
		return "crash:" + cs.sigFam() + ":" + res.reason + "@SOURCE"
	}
	return "crash:" + cs.sigFam() + ":" + res.reason + "@" + c19Frame(res.stderr)
}

// c19SingleAllocation: the process died on one request for a GiB or more (as opposed to a heap that filled up).
func c19SingleAllocation(res c19SpawnResult) bool {
	if !strings.Contains(res.reason, "out of memory") {
		return false
	}
	if m := c19AllocRe.FindStringSubmatch(res.stderr); m != nil {
		if n, _ := strconv.ParseUint(m[1], 10, 64); n >= 1<<30 {
			return true
		}
	}
	return false
}

// c19Runaway: no progress within the CPU allowance, or the heap filled up gradually — both are examined under the
// stalled-case regime.
func c19Runaway(res c19SpawnResult) bool {
	return res.reason == "hang" || (strings.Contains(res.reason, "out of memory") && !c19SingleAllocation(res))
}

var c19AllocRe = regexp.MustCompile(`cannot allocate ([0-9]+)-byte block`)

// c19HangFrame: the csvq function the busy goroutine of a SIGQUIT dump is in.
func c19HangFrame(dump string) string {
	best := ""
	inBusy := false
	for _, l := range strings.Split(dump, "\n") {
		if strings.HasPrefix(l, "goroutine ") {
			inBusy = strings.Contains(l, "[running") || strings.Contains(l, "[runnable")
			continue
		}
		if m := c19FrameRe.FindString(l); m != "" && !strings.HasPrefix(strings.TrimSpace(l), "/") {
			m = strings.TrimPrefix(strings.TrimPrefix(m, "github.com/mithrandie/csvq/lib/"), "github.com/mithrandie/")
			if inBusy {
				return m
			}
			if best == "" {
				best = m
			}
		}
	}
	if best == "" {
		return "unknown"
	}
	return best
}

func c19HarnessFault(reason string) bool {
	return strings.Contains(reason, "CN ") || strings.Contains(reason, "C19")
}

func c19CrashMsg(cs *c19Case, res c19SpawnResult) string {
	b, _ := json.Marshal(cs)
	tail := res.stderr
	if len(tail) > 2500 {
		tail = tail[:2500] + "\n..."
	}
	if c19Runaway(res) {
		return fmt.Sprintf("runaway: case %s stalled the enumeration (no progress for %d CPU-seconds, or heap exhausted) and then, alone in a fresh process with %d GiB, did not end within %d CPU-seconds or exhausted that memory (busy in %s). State at that moment:\n%s",
			string(b), c19SuspectSeconds, c19LaneAddressSpace>>30, c19HangSeconds, c19HangFrame(res.stderr), tail)
	}
	return fmt.Sprintf("csvq code took the whole process down (%s) on case %s; twice, the second time alone in a fresh process with RLIMIT_AS=%d GiB.\n%s",
		res.reason, string(b), c19AddressSpace>>30, tail)
}

func c19Merge(c *core.Ctx, p *core.Partial) {
	c.EvalN(p.Evaluations, p.Nontrivial)
	for k, v := range p.Counters {
		if strings.HasPrefix(k, "max_") {
			c.Max(k, v)
		} else {
			c.Add(k, v)
		}
	}
	for k, l := range p.Sets {
		for _, m := range l {
			c.Observe(k, m)
		}
	}
	for _, s := range p.Samples {
		c.Sample(json.RawMessage(s))
	}
	for _, v := range p.Violations {
		c.Violate(v.Sig, v.Msg, json.RawMessage(v.Replay))
		for i := int64(1); i < v.Count && i < 1000000; i++ {
			c.Violate(v.Sig, "", nil)
		}
	}
	for _, r := range p.Incomplete {
		c.Incomplete(r)
	}
	for k, v := range p.Info {
		c.Info(k, v)
	}
}

// c19ClaimClass: the 16 workers meet the same stalling class almost at the same time (every shard has such cases);
// the first one to create the claim file in the run's common scratch directory examines its case.
func c19ClaimClass(class string) bool {
	dir := filepath.Dir(os.Getenv("VERIF_SCRATCH"))
	if dir == "" || dir == "." {
		return true
	}
	f, err := os.OpenFile(filepath.Join(dir, "c19-claim-"+hex.EncodeToString([]byte(class))), os.O_CREATE|os.O_EXCL|os.O_WRONLY, 0644)
	if err != nil {
		return !os.IsExist(err)
	}
	f.Close()
	return true
}

// c19ExamineStalled runs a case that stalled an enumeration alone, under the smaller address space; it reports a
// violation unless the case ends by itself (then it returns true).
func c19ExamineStalled(c *core.Ctx, cs *c19Case, verbose bool) bool {
	cs.Lane = true
	again := c19SpawnAS(c, -1, 0, cs, nil, c19HangSeconds, verbose, c19LaneAddressSpace)
	if verbose && again.stdout != "" {
		fmt.Print(again.stdout)
	}
	if again.partial != nil {
		c19Merge(c, again.partial)
	}
	switch {
	case again.ok:
		return true
	case again.reason == "budget":
		c.Incomplete("the time budget ended while a stalled case of class " + cs.hangClass() + " was being examined alone; no verdict on it in this run")
		return false
	case strings.Contains(again.reason, "out of memory") && !c19SingleAllocation(again):
		// the stalled case did not end either: it consumed the whole address space first
		again.stderr = fmt.Sprintf("(alone, the case exhausted its %d GiB of address space before burning %d CPU-seconds: %s)\n", c19LaneAddressSpace>>30, c19HangSeconds, again.reason) + again.stderr
		again.reason = "hang"
	}
	c.Violate(c19CrashSig(cs, again), c19CrashMsg(cs, again), cs)
	return false
}

func c19Supervise(c *core.Ctx) {
	fams := c19Families()
	var lanes sync.WaitGroup
	defer lanes.Wait()
	var skip []string                 // classes set aside after a suspected non-termination; kept for the later families too
	only := os.Getenv("C19_FAMILIES") // debugging aid: comma separated family names; the run is then reported as incomplete
	if only != "" {
		c.Incomplete("restricted to families " + only + " by C19_FAMILIES")
	}
	for fi, fam := range fams {
		if only != "" && !strings.Contains(","+only+",", ","+fam.name+",") {
			continue
		}
		start := int64(0)
		abnormal := 0
		trigger := c19SuspectSeconds
		if fam.name == "big" {
			trigger = c19SuspectBig
		}
		for {
			if time.Until(c.Deadline) < time.Second {
				c.Incomplete("time budget reached before family " + fam.name + " was finished")
				break
			}
			res := c19Spawn(c, fi, start, nil, skip, trigger, false)
			if res.partial != nil {
				c19Merge(c, res.partial)
			}
			if res.ok {
				break
			}
			if c19HarnessFault(res.reason) {
				c.Incomplete(fmt.Sprintf("harness fault in family %s: %s", fam.name, res.reason))
				fmt.Fprintf(os.Stderr, "C19 harness fault: %s\n%s\n", res.reason, res.stderr)
				break
			}
			if res.prog == nil {
				c.Incomplete(fmt.Sprintf("child for family %s ended abnormally (%s) before its first case; shard part not covered", fam.name, res.reason))
				fmt.Fprintf(os.Stderr, "C19 child failed early: %s\n%s\n", res.reason, res.stderr)
				break
			}
			abnormal++
			c.Add("children_ended_abnormally", 1)
			if res.partial == nil {
				c.EvalN(res.prog.Ev, res.prog.Nt) // what the dead child had finished before the case that ended it
			}
			cs := res.prog.Case
			if c19Runaway(res) {
				// examined alone, in parallel with the rest of the enumeration; the other cases of the same class are set aside
				c.Add("suspected_non_terminations", 1)
				if j := c19JSON(cs); len(j) < 300 {
					c.Observe("suspected_runaway_cases", res.reason+" <- "+j)
				}
				skip = append(skip, cs.hangClass())
				if !c19ClaimClass(cs.hangClass()) {
					// another worker met the same class first and examines its case; one verdict per class and run
					c.Add("stalled_cases_left_to_the_worker_that_met_the_class_first", 1)
					start = res.prog.Ord + 1
					continue
				}
				lanes.Add(1)
				go func(cs *c19Case) {
					defer lanes.Done()
					if c19ExamineStalled(c, cs, false) {
						c.Observe("slow_cases_not_hangs", cs.hangClass())
						c.Incomplete("cases of class " + cs.hangClass() + " were set aside after one of them was slow (it terminated when examined alone)")
					}
				}(cs)
			} else {
				// re-confirm: the same case alone in a fresh process
				again := c19Spawn(c, -1, 0, cs, nil, c19HangSeconds, false)
				if again.partial != nil {
					c19Merge(c, again.partial)
				}
				switch {
				case again.reason == "budget":
					c.Incomplete("the time budget ended while a crashing case of class " + cs.class() + " was being re-run alone; no verdict on it in this run")
				case !again.ok:
					c.Violate(c19CrashSig(cs, again), c19CrashMsg(cs, again), cs)
				default:
					c.Observe("child_failures_not_reproduced", fam.name+": "+res.reason)
				}
			}
			start = res.prog.Ord + 1
			if abnormal >= c19MaxAbnormal {
				c.Incomplete(fmt.Sprintf("family %s: %d abnormal child terminations; rest of the shard not covered", fam.name, abnormal))
				break
			}
		}
	}
}

// ---- child ---------------------------------------------------------------------------------------

type c19Family struct {
	name string
	enum func(r *c19Runner)
}

func c19Families() []c19Family {
	return []c19Family{
		{"fs", c19EnumFS},
		{"load-fixed", c19EnumLoadFixed}, // early: stalled cases found here are examined in parallel with everything below
		{"clause", c19EnumClauses},
		{"fn-scalar", c19EnumScalar},
		{"fn-set", c19EnumSetFunctions},
		{"huge", c19EnumHuge}, // c19_huge.go
		{"load-csv", c19EnumLoadCSV},
		{"load-ltsv", c19EnumLoadLTSV},
		{"load-json", c19EnumLoadJSON},
		{"load-file", c19EnumLoadFile},
		{"big", c19EnumBig},
	}
}

type c19Runner struct {
	c       *core.Ctx
	fam     int
	prog    *os.File
	start   int64
	ord     int64
	verbose bool
	dir     string
	env     *drv.Env
	sctx    context.Context
	stmts   map[string][]parser.Statement
	tables  map[string][]parser.QueryExpression
	buf     []byte
	cut     bool
	setEnv  map[string]string // flags last set on r.env (auto loads)
	skip    map[string]bool   // classes set aside by the supervisor after a suspected hang
	sampled bool              // one sample per family and worker, so that the few sample slots show every family
	evals   int64
	nts     int64
}

// evalN counts finished cases, also in the progress record.
func (r *c19Runner) evalN(n, nt int64) {
	r.evals += n
	r.nts += nt
	r.c.EvalN(n, nt)
}

func (r *c19Runner) sample(v any) {
	if !r.sampled {
		r.sampled = true
		r.c.Sample(v)
	}
}

func (r *c19Runner) wantSample() bool { return !r.sampled && r.c.WantSample() }

var c19Ballast []byte

func c19SelfCPU() float64 {
	var ru syscall.Rusage
	if syscall.Getrusage(syscall.RUSAGE_SELF, &ru) != nil {
		return 0
	}
	return float64(ru.Utime.Sec) + float64(ru.Utime.Usec)/1e6
}

func c19Child(c *core.Ctx) {
	as := uint64(c19AddressSpace)
	if v, err := strconv.ParseUint(os.Getenv("C19_AS"), 10, 64); err == nil && v > 0 {
		as = v
	}
	// thousands of tiny executions per second: without this the collector runs a cycle every few MB
	c19Ballast = make([]byte, 64<<20)
	debug.SetGCPercent(800)
	debug.SetMemoryLimit(int64(as) * 6 / 10)
	lim := syscall.Rlimit{Cur: as, Max: as}
	if err := syscall.Setrlimit(syscall.RLIMIT_AS, &lim); err != nil {
		fmt.Fprintln(os.Stderr, "C19: cannot set RLIMIT_AS:", err)
	}
	// no user configuration leaks in
	home := core.Scratch("c19-home")
	os.Setenv("HOME", home)
	os.Setenv("XDG_CONFIG_HOME", home)
	r := &c19Runner{c: c, verbose: os.Getenv("C19_VERBOSE") != "", stmts: map[string][]parser.Statement{}, tables: map[string][]parser.QueryExpression{}}
	r.buf = make([]byte, c19ProgressRecord)
	r.skip = map[string]bool{}
	if sk := os.Getenv("C19_SKIP"); sk != "" {
		var l []string
		json.Unmarshal([]byte(sk), &l)
		for _, k := range l {
			r.skip[k] = true
		}
	}
	if p := os.Getenv("C19_PROGRESS"); p != "" {
		r.prog, _ = os.OpenFile(p, os.O_WRONLY|os.O_CREATE, 0644)
	}
	r.dir = core.Scratch("c19-data")
	r.newEnv()
	defer r.closeEnv()
	if one := os.Getenv("C19_ONE"); one != "" {
		var cs c19Case
		if err := json.Unmarshal([]byte(one), &cs); err != nil {
			fmt.Fprintln(os.Stderr, "C19: bad C19_ONE:", err)
			os.Exit(3)
		}
		r.fam = -1
		debug.SetGCPercent(100)
		if r.step(&cs) {
			r.exec(&cs)
		}
		return
	}
	r.fam, _ = strconv.Atoi(os.Getenv("C19_FAM"))
	r.start, _ = strconv.ParseInt(os.Getenv("C19_START"), 10, 64)
	fams := c19Families()
	if r.fam < 0 || r.fam >= len(fams) {
		fmt.Fprintln(os.Stderr, "C19: bad family")
		os.Exit(3)
	}
	if pf := os.Getenv("C19_PROF"); pf != "" {
		f, _ := os.Create(pf)
		pprof.StartCPUProfile(f)
		defer pprof.StopCPUProfile()
	}
	t0 := time.Now()
	cpu0 := c19SelfCPU()
	if fams[r.fam].name == "big" {
		debug.SetGCPercent(100) // few, large cases: the usual pacing keeps the address space small
	}
	fams[r.fam].enum(r)
	c.Max("max_wall_ms_in_family_"+fams[r.fam].name, time.Since(t0).Milliseconds())
	c.Max("max_cpu_ms_in_family_"+fams[r.fam].name, int64((c19SelfCPU()-cpu0)*1000))
	if r.cut {
		c.Incomplete("time budget reached inside family " + fams[r.fam].name)
	}
}

func (r *c19Runner) newEnv() {
	r.closeEnv()
	r.env = drv.New(r.dir)
	r.env.Tx.UpdateWaitTimeout(60, 5*time.Millisecond) // nothing contends for these files; only a loaded machine could make a 2 s wait expire
	r.sctx = query.ContextForStoringResults(r.env.Ctx)
	r.setEnv = map[string]string{}
}

func (r *c19Runner) closeEnv() {
	if r.env != nil {
		r.env.Close()
		r.env = nil
	}
}

// expired is polled by the enumerators in their outer loops.
func (r *c19Runner) expired() bool {
	if r.cut {
		return true
	}
	if r.c.Expired() {
		r.cut = true
	}
	return r.cut
}

// step advances the ordinal of the family's enumeration, skips what a previous child already did and
// records the case about to run.
func (r *c19Runner) step(cs *c19Case) bool {
	ord := r.ord
	r.ord++
	if ord < r.start {
		return false
	}
	if len(r.skip) > 0 && r.skip[cs.hangClass()] {
		r.c.Add("cases_set_aside_after_suspected_hang_in_same_class", 1)
		return false
	}
	if r.prog != nil {
		b, _ := json.Marshal(c19Progress{Fam: r.fam, Ord: ord, Case: cs, Ev: r.evals, Nt: r.nts})
		if len(b) < c19ProgressRecord {
			n := copy(r.buf, b)
			for i := n; i < c19ProgressRecord; i++ {
				r.buf[i] = ' '
			}
			r.prog.WriteAt(r.buf, 0)
		}
	}
	return true
}

func (r *c19Runner) exec(cs *c19Case) {
	switch cs.Fam {
	case "fs":
		r.execFS(cs)
	case "clause":
		r.execClause(cs)
	case "fn":
		r.execFn(cs)
	case "huge":
		r.execHuge(cs)
	case "load", "big":
		r.execLoad(cs)
	default:
		fmt.Fprintln(os.Stderr, "C19: unknown family in case:", cs.Fam)
	}
}

func (r *c19Runner) parse(key, sql string) []parser.Statement {
	if st, ok := r.stmts[key]; ok {
		return st
	}
	st, _, err := parser.Parse(sql, "", false, false)
	if err != nil {
		panic(fmt.Sprintf("C19 harness SQL does not parse: %s: %v", sql, err))
	}
	r.stmts[key] = st
	return st
}

// c19LastStack is the stack at the most recent captured panic.
var c19LastStack string

// run executes parsed statements on the runner's environment, capturing a panic that escapes csvq.
func (r *c19Runner) run(st []parser.Statement) (views []*query.View, err error, pnc any) {
	defer func() {
		if p := recover(); p != nil {
			pnc = p
			c19LastStack = string(debug.Stack())
		}
	}()
	r.env.Tx.SelectedViews = nil
	_, err = r.env.Proc.Execute(r.sctx, st)
	views = r.env.Tx.SelectedViews
	return
}

// runText parses and executes program text (a syntax error is an ordinary, documented outcome).
func (r *c19Runner) runText(sql string) (views []*query.View, err error, pnc any) {
	defer func() {
		if p := recover(); p != nil {
			pnc = p
			c19LastStack = string(debug.Stack())
		}
	}()
	st, _, perr := parser.Parse(sql, "", false, r.env.Tx.Flags.AnsiQuotes)
	if perr != nil {
		if se, ok := perr.(*parser.SyntaxError); ok {
			return nil, query.NewSyntaxError(se), nil
		}
		return nil, perr, nil
	}
	r.env.Tx.SelectedViews = nil
	_, err = r.env.Proc.Execute(r.sctx, st)
	views = r.env.Tx.SelectedViews
	return
}

// ---- the oracle on terminations --------------------------------------------------------------------

// judge checks one termination against the property: no panic, no "Fatal Error", a documented return code and
// a message. It returns a short outcome label ("ok", "E<number>").
func (r *c19Runner) judge(cs *c19Case, where string, err error, pnc any, userCode bool) string {
	if pnc != nil {
		st := c19LastStack
		if len(st) > 1800 {
			st = st[:1800] + "\n..."
		}
		// query.LoadView is called below csvq's own recover (Processor.execute): there a panic is what the CLI would
		// have reported as its Fatal Error, so it gets the same signature
		kind := "panic:"
		if where == "load" {
			kind = "fatal:"
		}
		r.c.Violate(kind+cs.sigFam()+":"+c19Norm(fmt.Sprint(pnc))+"@"+c19Frame(c19LastStack),
			fmt.Sprintf("a Go panic escaped csvq during %s of case %s: %v\n%s", where, c19JSON(cs), pnc, st), cs)
		return "panic"
	}
	if err == nil {
		return "ok"
	}
	if _, ok := err.(*query.ForcedExit); ok {
		return "exit"
	}
	msg := err.Error()
	if drv.IsFatal(err) {
		m := msg
		if i := strings.Index(m, "[Fatal Error] "); i >= 0 {
			m = m[i+len("[Fatal Error] "):]
		}
		if len(msg) > 1800 {
			msg = msg[:1800] + "\n..."
		}
		r.c.Violate("fatal:"+cs.sigFam()+":"+c19Norm(m)+"@"+c19Frame(err.Error()),
			fmt.Sprintf("csvq reported its internal Fatal Error (a recovered panic) during %s of case %s:\n%s", where, c19JSON(cs), msg), cs)
		return "fatal"
	}
	qe, ok := err.(query.Error)
	if !ok {
		// lib/cli/app.go Exit(): any other error ends the process with return code 1 and its text — a documented code;
		// the manual has no catalogue of messages, so only an empty one is refused
		r.c.Observe("errors_without_csvq_number", fmt.Sprintf("%s: %T", cs.class(), err))
		if strings.TrimSpace(msg) == "" {
			r.c.Violate("empty-error-message:"+cs.class()+":"+where, fmt.Sprintf("%s of case %s ended with an empty error message (%T)", where, c19JSON(cs), err), cs)
		}
		return "E-foreign"
	}
	if _, documented := c19ref.ReturnCodes[qe.Code()]; !documented && !userCode {
		r.c.Violate("undocumented-return-code:"+cs.class()+":"+where+":"+strconv.Itoa(qe.Code()),
			fmt.Sprintf("%s of case %s ended with return code %d, which the manual's table does not list: %v", where, c19JSON(cs), qe.Code(), err), cs)
	}
	if strings.TrimSpace(qe.Message()) == "" && strings.TrimSpace(msg) == "" {
		r.c.Violate("empty-error-message:"+cs.class()+":"+where, fmt.Sprintf("%s of case %s ended with an empty error message (number %d)", where, c19JSON(cs), qe.Number()), cs)
	}
	if qe.Number() == query.ErrorFatal {
		r.c.Violate("fatal:"+cs.class()+":"+where+":error-number-1", fmt.Sprintf("%s of case %s: error number 1 (fatal): %v", where, c19JSON(cs), err), cs)
	}
	return "E" + strconv.Itoa(qe.Number())
}

func c19JSON(cs *c19Case) string { b, _ := json.Marshal(cs); return string(b) }

// ---- values --------------------------------------------------------------------------------------

func c19Primary(v c19ref.Val) value.Primary {
	switch v.Kind {
	case 'n':
		return value.NewNull()
	case 'i':
		return value.NewInteger(v.I)
	case 'f':
		switch v.F {
		case "nan":
			return value.NewFloat(math.NaN())
		case "inf":
			return value.NewFloat(math.Inf(1))
		case "-inf":
			return value.NewFloat(math.Inf(-1))
		case "-0":
			return value.NewFloat(math.Copysign(0, -1))
		}
		f, err := strconv.ParseFloat(v.F, 64)
		if err != nil {
			panic(err)
		}
		return value.NewFloat(f)
	case 's':
		return value.NewString(v.S)
	case 'b':
		return value.NewBoolean(v.I == 1)
	case 't':
		if v.I == 1 {
			return value.NewTernary(ternary.TRUE)
		}
		return value.NewTernary(ternary.UNKNOWN)
	case 'd':
		t, err := time.Parse(time.RFC3339Nano, v.S)
		if err != nil {
			panic(err)
		}
		return value.NewDatetime(t)
	}
	panic("c19: bad value kind")
}

func c19Names(vs []c19ref.Val) []string {
	out := make([]string, len(vs))
	for i, v := range vs {
		out[i] = v.Name
	}
	return out
}

func (r *c19Runner) setArgs(prefix string, names []string) bool {
	for i, n := range names {
		v, ok := c19ref.ValByName(n)
		if !ok {
			fmt.Fprintln(os.Stderr, "C19: unknown alphabet entry", n)
			return false
		}
		r.env.SetVar(prefix+strconv.Itoa(i), c19Primary(v))
	}
	return true
}

func c19Hex(s string) string { return hex.EncodeToString([]byte(s)) }
