package checks

import (
	"encoding/json"
	"fmt"
	"os"
	"path/filepath"
	"runtime/debug"
	"strings"
	"time"

	"github.com/mithrandie/csvq/lib/query"

	"verif/harness/internal/core"
	cm "verif/harness/internal/curmodel"
	"verif/harness/internal/drv"
	"verif/harness/internal/rv"
)

// C16 — a cursor walks a snapshot of its query taken at OPEN, with exact positioning.
//
// Breadth-first search over histories of cursor and data-changing statements.  The states are those of
// the reference model (internal/curmodel); every transition (state, operation) is validated against the
// real csvq by replaying the shortest history that reaches the state on a fresh csvq process image, then
// the operation, then a "state probe": status expressions, a pointer probe and a walk over every
// position of the cursor, each fetched row compared with the snapshot the model took at OPEN, and the
// contents of the underlying table.

func init() {
	core.Register(&core.Check{
		ID:    "C16",
		Level: "model_checking",
		Rule: "BFS over histories of {DECLARE, OPEN, CLOSE, DISPOSE, FETCH [NEXT|PRIOR|FIRST|LAST|ABSOLUTE n|RELATIVE n], CURSOR IS [NOT] OPEN / IS [NOT] IN RANGE / COUNT, " +
			"three WHILE IN forms (plain, VAR + UPDATE of the underlying table in the body, BREAK), UPDATE, INSERT, DELETE, REPLACE, COMMIT, ROLLBACK on the underlying table} " +
			"per configuration (file-backed or temporary table x cursor query shape x 0..3 initial rows); states deduplicated on the reference model's state " +
			"(table, committed table, cursor: undeclared | closed | open(snapshot, pointer, fetched)); one evaluation = one transition (state, operation) replayed on the real csvq " +
			"followed by a state probe that fetches every position of the cursor and compares it with the snapshot taken at OPEN; transitions are enumerated without repetition; " +
			"non-trivial = the cursor is open before or after the operation, or the operation is required to fail",
		Assume: []string{
			"reference model written from docs/_posts cursor / control-flow (WHILE IN) / temporary-table / transaction pages and the property text (internal/curmodel); pointer clamped to [-1, len]",
			"manual silent, csvq followed: CLOSE of a closed cursor succeeds, DECLARE of a declared cursor is refused, DISPOSE of an open cursor is allowed, INSERT appends",
			"data-changing statements are fixed simple forms whose effect is modelled directly (their general semantics is C05's subject); single process, TZ=UTC",
			"equivalence of csvq's hidden cursor state with the model's is judged through the state probe (status expressions + fetches), not by reading csvq's fields",
		},
		Run:            c16Run,
		Replay:         c16Replay,
		QuickBudget:    240 * time.Second,
		ThoroughBudget: 9 * time.Minute,
	})
}

const c16Sentinel = "#unset#"

const c16Huge = int64(9223372036854775807)

// signatures of the genuine csvq deviations found on the unchanged tree (see REPORT.md)
const (
	c16SigVarsKept = "FETCH of a record that does not exist leaves the variables unchanged (manual: sets them to NULL)"
	c16SigWrap     = "FETCH RELATIVE with a huge offset: pointer wraps around instead of stopping before the first / after the last record"
)

const c16WhatNoRecord = "no record where the snapshot has one"

// c16Positional: the disagreement is one about WHERE the pointer is (a record of the snapshot at another position, a
// record where none exists or the reverse, a status value) - what a wrapped-around pointer looks like. A row that is
// not in the snapshot at all is another defect and keeps the signature of the operation it was seen after.
func c16Positional(what string) bool {
	switch what {
	case "a row where no record exists", "snapshot row of another position", c16WhatNoRecord, "status value", c16SigVarsKept:
		return true
	}
	return false
}

type c16Cfg struct {
	ID      string
	Src     string // file | temp
	Shape   string
	N       int
	Tbl     string
	Declare string
	Open    string
	Prelude []string
	Initial []cm.Row
	M       cm.Cfg
}

func c16sql(v rv.V) string {
	s, ok := v.SQL()
	if !ok {
		panic("no literal for " + v.Key())
	}
	return s
}

func c16Configs(thorough bool) []*c16Cfg {
	var out []*c16Cfg
	shapes := []string{"star", "filter-swap"}
	if thorough {
		shapes = append(shapes, "prepared", "for-update")
	}
	for n := 0; n <= 3; n++ {
		for _, shape := range shapes {
			for _, src := range []string{"file", "temp"} {
				if shape == "for-update" && src == "temp" {
					continue
				}
				cfg := &c16Cfg{ID: fmt.Sprintf("%s/%s/N%d", src, shape, n), Src: src, Shape: shape, N: n}
				var three rv.V
				if src == "file" {
					cfg.Tbl = "t"
					all := []cm.Row{{rv.S("1"), rv.S("a")}, {rv.S("2"), rv.S("b")}, {rv.S("3"), rv.S("c")}}
					cfg.Initial = all[:n]
					cfg.M = cm.Cfg{UpdV: rv.S("u"), Ins: cm.Row{rv.S("9"), rv.S("n")}, DelID: rv.S("1"), Rep: cm.Row{rv.S("2"), rv.S("r")}, WhileV: rv.S("w")}
					three = rv.S("3")
				} else {
					cfg.Tbl = "tmp"
					all := []cm.Row{{rv.I(1), rv.S("a")}, {rv.I(2), rv.N()}, {rv.I(3), rv.S("c")}}
					cfg.Initial = all[:n]
					cfg.M = cm.Cfg{UpdV: rv.S("u"), Ins: cm.Row{rv.I(9), rv.S("n")}, DelID: rv.I(1), Rep: cm.Row{rv.I(2), rv.S("r")}, WhileV: rv.S("w")}
					three = rv.I(3)
				}
				cfg.Prelude = []string{"VAR @a, @b", "DECLARE log VIEW (a, b)"}
				if src == "temp" {
					cfg.Prelude = append(cfg.Prelude, "DECLARE tmp VIEW (id, v)")
					for _, r := range cfg.Initial {
						cfg.Prelude = append(cfg.Prelude, fmt.Sprintf("INSERT INTO tmp (id, v) VALUES (%s, %s)", c16sql(r[0]), c16sql(r[1])))
					}
				}
				cfg.Open = "OPEN cur"
				switch shape {
				case "star":
					cfg.Declare = "DECLARE cur CURSOR FOR SELECT * FROM " + cfg.Tbl
				case "filter-swap":
					cfg.Declare = "DECLARE cur CURSOR FOR SELECT v, id FROM " + cfg.Tbl + " WHERE id <> 3"
					cfg.M.Q = cm.Query{Exclude: &three, Swap: true}
				case "prepared":
					cfg.Prelude = append(cfg.Prelude, "PREPARE st FROM 'SELECT id, v FROM "+cfg.Tbl+" WHERE id <> ?'")
					cfg.Declare = "DECLARE cur CURSOR FOR st"
					cfg.Open = "OPEN cur USING 3"
					cfg.M.Q = cm.Query{Exclude: &three}
				case "for-update":
					cfg.Declare = "DECLARE cur CURSOR FOR SELECT id, v FROM " + cfg.Tbl + " FOR UPDATE"
				}
				cfg.Prelude = append(cfg.Prelude, "COMMIT")
				out = append(out, cfg)
			}
		}
	}
	return out
}

// the operation alphabet, simplest first; leafOnly operations are validated as the last operation of a
// history (with the state probe after them) but are not used to reach new states.
func c16Ops(thorough bool) (ops []cm.Op, leafOnly map[cm.Op]bool) {
	leafOnly = map[cm.Op]bool{}
	ops = []cm.Op{{K: cm.Declare}, {K: cm.Open}, {K: cm.FetchNext}, {K: cm.FetchBare}, {K: cm.FetchPrior}, {K: cm.FetchFirst}, {K: cm.FetchLast}}
	for _, n := range []int64{0, 1, 2, 3, -1, -2} {
		ops = append(ops, cm.Op{K: cm.FetchAbs, N: n})
	}
	for _, n := range []int64{0, 1, 2, 3, -1, -2} {
		ops = append(ops, cm.Op{K: cm.FetchRel, N: n})
	}
	ops = append(ops, cm.Op{K: cm.Close}, cm.Op{K: cm.Dispose},
		cm.Op{K: cm.IsOpen}, cm.Op{K: cm.IsNotOpen}, cm.Op{K: cm.InRange}, cm.Op{K: cm.NotInRange}, cm.Op{K: cm.Count},
		cm.Op{K: cm.WhileAll}, cm.Op{K: cm.WhileVarDML}, cm.Op{K: cm.WhileBreak},
		cm.Op{K: cm.Update}, cm.Op{K: cm.Insert}, cm.Op{K: cm.DeleteOne}, cm.Op{K: cm.Replace}, cm.Op{K: cm.Rollback}, cm.Op{K: cm.Commit})
	if thorough {
		ops = append(ops, cm.Op{K: cm.DeleteAll})
	}
	for _, o := range []cm.Op{{K: cm.FetchAbs, N: c16Huge}, {K: cm.FetchAbs, N: -c16Huge}, {K: cm.FetchRel, N: c16Huge}, {K: cm.FetchRel, N: -c16Huge}} {
		ops = append(ops, o)
		leafOnly[o] = true
	}
	return
}

func c16OpClass(op cm.Op) string {
	if op.K == cm.FetchAbs || op.K == cm.FetchRel {
		cl := "0"
		switch {
		case op.N >= 1<<62:
			cl = "+huge"
		case op.N <= -(1 << 62):
			cl = "-huge"
		case op.N > 0:
			cl = "positive"
		case op.N < 0:
			cl = "negative"
		}
		return op.K.String() + " " + cl
	}
	return op.K.String()
}

func (cfg *c16Cfg) sql(op cm.Op) string {
	fetch := func(pos string) string {
		return fmt.Sprintf("@a := '%s'; @b := '%s'; FETCH %scur INTO @a, @b; SELECT @a, @b;", c16Sentinel, c16Sentinel, pos)
	}
	idVar := "@x"
	if cfg.M.Q.Swap {
		idVar = "@y"
	}
	switch op.K {
	case cm.Declare:
		return cfg.Declare + ";"
	case cm.Open:
		return cfg.Open + ";"
	case cm.Close:
		return "CLOSE cur;"
	case cm.Dispose:
		return "DISPOSE CURSOR cur;"
	case cm.FetchBare:
		return fetch("")
	case cm.FetchNext:
		return fetch("NEXT ")
	case cm.FetchPrior:
		return fetch("PRIOR ")
	case cm.FetchFirst:
		return fetch("FIRST ")
	case cm.FetchLast:
		return fetch("LAST ")
	case cm.FetchAbs:
		return fetch(fmt.Sprintf("ABSOLUTE %d ", op.N))
	case cm.FetchRel:
		return fetch(fmt.Sprintf("RELATIVE %d ", op.N))
	case cm.IsOpen:
		return "SELECT CURSOR cur IS OPEN;"
	case cm.IsNotOpen:
		return "SELECT CURSOR cur IS NOT OPEN;"
	case cm.InRange:
		return "SELECT CURSOR cur IS IN RANGE;"
	case cm.NotInRange:
		return "SELECT CURSOR cur IS NOT IN RANGE;"
	case cm.Count:
		return "SELECT CURSOR cur COUNT;"
	case cm.WhileAll:
		return "DELETE FROM log; WHILE @a, @b IN cur DO INSERT INTO log VALUES (@a, @b); END WHILE; SELECT a, b FROM log;"
	case cm.WhileVarDML:
		return fmt.Sprintf("DELETE FROM log; WHILE VAR @x, @y IN cur DO INSERT INTO log VALUES (@x, @y); UPDATE %s SET v = %s WHERE id = %s; END WHILE; SELECT a, b FROM log;",
			cfg.Tbl, c16sql(cfg.M.WhileV), idVar)
	case cm.WhileBreak:
		return "DELETE FROM log; WHILE @a, @b IN cur DO INSERT INTO log VALUES (@a, @b); BREAK; END WHILE; SELECT a, b FROM log;"
	case cm.Update:
		return fmt.Sprintf("UPDATE %s SET v = %s;", cfg.Tbl, c16sql(cfg.M.UpdV))
	case cm.Insert:
		return fmt.Sprintf("INSERT INTO %s (id, v) VALUES (%s, %s);", cfg.Tbl, c16sql(cfg.M.Ins[0]), c16sql(cfg.M.Ins[1]))
	case cm.DeleteOne:
		return fmt.Sprintf("DELETE FROM %s WHERE id = %s;", cfg.Tbl, c16sql(cfg.M.DelID))
	case cm.DeleteAll:
		return fmt.Sprintf("DELETE FROM %s;", cfg.Tbl)
	case cm.Replace:
		return fmt.Sprintf("REPLACE INTO %s (id, v) USING (id) VALUES (%s, %s);", cfg.Tbl, c16sql(cfg.M.Rep[0]), c16sql(cfg.M.Rep[1]))
	case cm.Commit:
		return "COMMIT;"
	case cm.Rollback:
		return "ROLLBACK;"
	}
	panic("no sql for op")
}

// ---- execution against csvq -------------------------------------------------------------------

type c16Div struct {
	What string // class of the disagreement (goes into the signature)
	Msg  string
	Soft bool // does not disturb the cursor state: judging goes on
}

type c16Exec struct {
	cfg     *c16Cfg
	env     *drv.Env
	stmts   int64
	rows    int64 // fetched rows compared with the snapshot
	verbose bool
	timeout bool // a lock wait / context deadline ended a statement (wall clock: the case is re-run once)
}

func c16Start(cfg *c16Cfg, dir string, verbose bool) (*c16Exec, error) {
	drv.ClearDir(dir)
	if cfg.Src == "file" {
		var sb strings.Builder
		sb.WriteString("id,v\n")
		for _, r := range cfg.Initial {
			sb.WriteString(r[0].S + "," + r[1].S + "\n")
		}
		if err := os.WriteFile(filepath.Join(dir, "t.csv"), []byte(sb.String()), 0644); err != nil {
			return nil, err
		}
	}
	x := &c16Exec{cfg: cfg, env: drv.New(dir), verbose: verbose}
	// one process, nothing to wait for: a lock wait can only end through a stall of the machine; make that improbable
	x.env.Tx.UpdateWaitTimeout(30, 5*time.Millisecond)
	p := strings.Join(cfg.Prelude, "; ") + ";"
	if r := x.exec(p); r.Err != nil || r.Panic != nil {
		x.env.Close()
		return x, fmt.Errorf("harness prelude %q failed: %v %v", p, r.Err, r.Panic)
	}
	return x, nil
}

func (x *c16Exec) exec(sql string) drv.Result {
	x.stmts++
	r := x.env.Exec(sql)
	switch r.Err.(type) {
	case *query.ContextDone, *query.FileLockTimeoutError:
		x.timeout = true
	}
	if x.verbose {
		fmt.Printf("  csvq> %s\n", sql)
		if r.Err != nil {
			fmt.Printf("        error: %v\n", r.Err)
		}
		if r.Panic != nil {
			fmt.Printf("        PANIC: %v\n", r.Panic)
		}
		for _, v := range r.Views {
			fmt.Printf("        -> %s\n", drv.RowsKey(drv.Rows(v)))
		}
	}
	return r
}

func c16ErrKind(err error) (cm.ErrKind, bool) {
	switch err.(type) {
	case nil:
		return cm.NoErr, true
	case *query.UndeclaredCursorError:
		return cm.ErrUndeclared, true
	case *query.CursorClosedError:
		return cm.ErrClosed, true
	case *query.CursorOpenError:
		return cm.ErrAlreadyOpen, true
	case *query.CursorRedeclaredError:
		return cm.ErrRedeclared, true
	}
	return cm.NoErr, false
}

func c16ViewRows(v *query.View) []cm.Row {
	rs := drv.Rows(v)
	out := make([]cm.Row, len(rs))
	for i := range rs {
		out[i] = cm.Row(rs[i])
	}
	return out
}

// step executes one operation and compares its own result with the model's outcome.
// pre/post are the model's states around the operation.
func (x *c16Exec) step(op cm.Op, pre, post cm.State, want cm.Outcome) *c16Div {
	r := x.exec(x.cfg.sql(op))
	if r.Panic != nil {
		return &c16Div{What: "panic", Msg: fmt.Sprintf("%s: csvq panicked: %v", op, r.Panic)}
	}
	if drv.IsFatal(r.Err) {
		return &c16Div{What: "fatal-error", Msg: fmt.Sprintf("%s: %v", op, r.Err)}
	}
	got, known := c16ErrKind(r.Err)
	if want.Err != cm.NoErr {
		if r.Err == nil {
			extra := ""
			if len(r.Views) > 0 {
				extra = "; it answered " + drv.RowsKey(drv.Rows(r.Views[len(r.Views)-1]))
			}
			return &c16Div{What: "no error where " + want.Err.String() + " is required",
				Msg: fmt.Sprintf("%s on a cursor that is %s must fail with %s, csvq executed it%s", op, pre.Class(), want.Err, extra)}
		}
		if !known || got != want.Err {
			return &c16Div{What: "wrong kind of error (" + want.Err.String() + " required)",
				Msg: fmt.Sprintf("%s on a cursor that is %s must fail with %s, csvq says: %v", op, pre.Class(), want.Err, r.Err)}
		}
		return nil
	}
	if r.Err != nil {
		return &c16Div{What: "unexpected error", Msg: fmt.Sprintf("%s on a cursor that is %s must succeed, csvq says: %v", op, pre.Class(), r.Err)}
	}
	switch {
	case want.HasFetch:
		if len(r.Views) != 1 || r.Views[0].RecordLen() != 1 || r.Views[0].FieldLen() != 2 {
			return &c16Div{What: "harness: variable read-back failed", Msg: fmt.Sprintf("%s: cannot read @a, @b back", op)}
		}
		gotRow := c16ViewRows(r.Views[0])[0]
		unset := cm.Row{rv.S(c16Sentinel), rv.S(c16Sentinel)}
		if want.Row == nil {
			if cm.SameRow(gotRow, cm.Row{rv.N(), rv.N()}) {
				return nil
			}
			if cm.SameRow(gotRow, unset) {
				return &c16Div{What: c16SigVarsKept, Soft: true,
					Msg: fmt.Sprintf("%s with the pointer moving to %d of %d records: the record does not exist, the manual says the variables are set to NULL; csvq left them as they were", op, post.Index, len(post.Snap))}
			}
			return &c16Div{What: "a row where no record exists",
				Msg: fmt.Sprintf("%s addresses position %d of a snapshot of %d records: no record exists there, csvq fetched %s", op, post.Index, len(post.Snap), gotRow.Key())}
		}
		x.rows++
		if cm.SameRow(gotRow, want.Row) {
			return nil
		}
		what := "row differs from the snapshot row"
		live := x.cfg.M.Q.Eval(pre.Table)
		switch {
		case cm.SameRow(gotRow, unset):
			what = "variables not assigned though the record exists"
		case cm.SameRow(gotRow, cm.Row{rv.N(), rv.N()}):
			what = c16WhatNoRecord
		case post.Index < len(live) && cm.SameRow(gotRow, live[post.Index]):
			what = "row of the live table, not of the snapshot taken at OPEN"
		default:
			for i, sr := range post.Snap {
				if i != post.Index && cm.SameRow(gotRow, sr) {
					what = "snapshot row of another position"
					break
				}
			}
		}
		return &c16Div{What: what, Msg: fmt.Sprintf("%s must fetch record %d of the snapshot taken at OPEN %s = %s, csvq fetched %s (underlying table now gives %s)",
			op, post.Index, cm.RowsKey(post.Snap), want.Row.Key(), gotRow.Key(), cm.RowsKey(live))}
	case want.HasTern, want.HasCount:
		if len(r.Views) != 1 || r.Views[0].RecordLen() != 1 || r.Views[0].FieldLen() != 1 {
			return &c16Div{What: "harness: probe read-back failed", Msg: fmt.Sprintf("%s: no single value", op)}
		}
		g := c16ViewRows(r.Views[0])[0][0]
		w := rv.Tv(want.Tern)
		if want.HasCount {
			w = rv.I(int64(want.Count))
		}
		if !rv.SameValue(g, w) {
			return &c16Div{What: "status value", Msg: fmt.Sprintf("%s on a cursor that is %s (pointer %d, %d records): csvq answers %s, expected %s", op, pre.Class(), pre.Index, len(pre.Snap), g.Key(), w.Key())}
		}
	case want.HasLoop:
		if len(r.Views) != 1 {
			return &c16Div{What: "harness: loop log read-back failed", Msg: fmt.Sprintf("%s: no log", op)}
		}
		g := c16ViewRows(r.Views[0])
		x.rows += int64(len(want.Visited))
		if !cm.SameRows(g, want.Visited) {
			return &c16Div{What: "rows visited by the loop", Msg: fmt.Sprintf("%s from pointer %d over the snapshot %s must visit %s, csvq's loop body saw %s",
				op, pre.Index, cm.RowsKey(pre.Snap), cm.RowsKey(want.Visited), cm.RowsKey(g))}
		}
	}
	return nil
}

// probeOps is the fixed observation sequence that identifies the cursor state.
func c16ProbeOps(s cm.State) []cm.Op {
	ops := []cm.Op{{K: cm.IsOpen}, {K: cm.IsNotOpen}, {K: cm.InRange}, {K: cm.NotInRange}, {K: cm.Count},
		{K: cm.FetchRel, N: 0}, {K: cm.InRange}, {K: cm.FetchPrior}, {K: cm.FetchNext}, {K: cm.FetchNext}}
	if s.IsOpen {
		for k := 0; k <= len(s.Snap); k++ {
			ops = append(ops, cm.Op{K: cm.FetchAbs, N: int64(k)})
		}
		ops = append(ops, cm.Op{K: cm.FetchAbs, N: -1}, cm.Op{K: cm.InRange})
	}
	return ops
}

type c16Payload struct {
	Cfg  string  `json:"cfg"`
	Path []cm.Op `json:"path"`
	Op   cm.Op   `json:"op"`
}

type c16Stats struct {
	stmts, rows int64
	nontrivial  bool
	diverged    bool // the live table differs from the snapshot while the probe walks the cursor
	timeout     bool
}

type c16Pending struct{ sig, msg, coarse string }

// A worker keeps at most 200 signatures. One defect in how snapshots are kept shows after almost every operation
// and would fill all of them with (operation x cursor state x probe) classes of the search, leaving none for the
// families that run after it: the search reports its first c16FineSigs classes as they are and every further one
// under the coarse class (table kind, kind of disagreement).
const c16FineSigs = 60

var c16Reported = map[string]bool{}

func c16Sig(p c16Pending) string {
	if c16Reported[p.sig] || p.coarse == "" {
		return p.sig
	}
	if len(c16Reported) < c16FineSigs {
		c16Reported[p.sig] = true
		return p.sig
	}
	return p.coarse
}

// c16Validate runs one case; a case in which csvq gave up waiting for a lock (only possible when the machine
// stalls for the whole wait time, there is no second process) is run a second time before it is believed.
func c16Validate(c *core.Ctx, cfg *c16Cfg, dir string, path []cm.Op, op cm.Op, verbose bool) c16Stats {
	pend, st := c16ValidateOnce(cfg, dir, path, op, verbose)
	if st.timeout {
		c.Add("cases_rerun_after_lock_wait_timeout", 1)
		pend, st = c16ValidateOnce(cfg, dir, path, op, verbose)
	}
	for _, p := range pend {
		c.Violate(c16Sig(p), p.msg, c16Payload{Cfg: cfg.ID, Path: path, Op: op})
	}
	return st
}

// validate replays path on a fresh csvq, executes op, then probes the state.  The first disagreement
// on the way is the one reported (soft ones are reported and judging continues).
func c16ValidateOnce(cfg *c16Cfg, dir string, path []cm.Op, op cm.Op, verbose bool) (pend []c16Pending, st c16Stats) {
	x, err := c16Start(cfg, dir, verbose)
	if err != nil {
		pend = append(pend, c16Pending{sig: "harness|prelude", msg: err.Error()})
		st.timeout = x != nil && x.timeout
		return
	}
	defer func() {
		st.stmts, st.rows, st.timeout = x.stmts, x.rows, x.timeout
		x.env.Close()
	}()
	history := func(upto int) string {
		parts := []string{}
		for i := 0; i < upto && i < len(path); i++ {
			parts = append(parts, path[i].String())
		}
		if upto > len(path) {
			parts = append(parts, op.String())
		}
		return "[" + cfg.ID + "] " + strings.Join(parts, "; ")
	}
	report := func(sig string, d *c16Div, hist string) {
		coarse := cfg.Src + "|further operations and cursor states|" + d.What
		if d.Soft || sig == c16SigWrap {
			coarse = ""
		}
		if d.Soft {
			sig = d.What
		}
		pend = append(pend, c16Pending{sig, hist + "\n" + d.Msg, coarse})
	}

	s := cm.State{Table: cfg.Initial, Committed: cfg.Initial}
	for i, p := range path {
		s2, out := cm.Apply(s, p, &cfg.M)
		if d := x.step(p, s, s2, out); d != nil {
			report(fmt.Sprintf("%s|%s on %s|%s", cfg.Src, c16OpClass(p), s.Class(), d.What), d, history(i+1))
			if !d.Soft {
				return
			}
		}
		s = s2
	}
	pre := s
	s2, out := cm.Apply(s, op, &cfg.M)
	st.nontrivial = pre.IsOpen || s2.IsOpen || out.Err != cm.NoErr
	if d := x.step(op, s, s2, out); d != nil {
		report(fmt.Sprintf("%s|%s on %s|%s", cfg.Src, c16OpClass(op), pre.Class(), d.What), d, history(len(path)+1))
		if !d.Soft {
			return
		}
	}
	s = s2
	st.diverged = s.IsOpen && !cm.SameRows(s.Snap, cfg.M.Q.Eval(s.Table))

	// state probe
	if verbose {
		fmt.Println("  -- state probe: model state after the operation is", s.Key())
	}
	for _, p := range c16ProbeOps(s) {
		p2, pout := cm.Apply(s, p, &cfg.M)
		if d := x.step(p, s, p2, pout); d != nil {
			sig := fmt.Sprintf("%s|%s on %s|state after the operation: %s: %s", cfg.Src, c16OpClass(op), pre.Class(), c16OpClass(p), d.What)
			if op.K == cm.FetchRel && (op.N >= 1<<62 || op.N <= -(1<<62)) && c16Positional(d.What) {
				sig = c16SigWrap
			}
			report(sig, d, history(len(path)+1)+"; then probing with "+p.String())
			if !d.Soft {
				return
			}
		}
		s = p2
	}
	r := x.exec("SELECT id, v FROM " + cfg.Tbl + ";")
	if r.Err != nil || r.Panic != nil || len(r.Views) != 1 {
		pend = append(pend, c16Pending{fmt.Sprintf("%s|%s on %s|underlying table unreadable afterwards", cfg.Src, c16OpClass(op), pre.Class()),
			fmt.Sprintf("%s\nSELECT from the underlying table fails: %v %v", history(len(path)+1), r.Err, r.Panic), cfg.Src + "|further operations and cursor states|underlying table unreadable afterwards"})
		return
	}
	if g := c16ViewRows(r.Views[0]); !cm.SameRows(g, s.Table) {
		pend = append(pend, c16Pending{fmt.Sprintf("%s|%s on %s|contents of the underlying table", cfg.Src, c16OpClass(op), pre.Class()),
			fmt.Sprintf("%s\nunderlying table is %s, the modelled statements give %s", history(len(path)+1), cm.RowsKey(g), cm.RowsKey(s.Table)), cfg.Src + "|further operations and cursor states|contents of the underlying table"})
	}
	return
}

// ---- exploration ------------------------------------------------------------------------------

type c16Node struct {
	s      cm.State
	parent int
	op     cm.Op
	depth  int     // operations after the seed
	seed   []cm.Op // set on seed nodes: the history that establishes the node
}

func c16Path(nodes []c16Node, i int) []cm.Op {
	var rev []cm.Op
	for nodes[i].parent >= 0 {
		rev = append(rev, nodes[i].op)
		i = nodes[i].parent
	}
	out := append([]cm.Op{}, nodes[i].seed...)
	for k := len(rev) - 1; k >= 0; k-- {
		out = append(out, rev[k])
	}
	return out
}

// bound on the number of operations explored after a seed history (the state probe comes on top of it);
// 0: the search is not made
func c16Depth(thorough bool, shape string, seeded bool) int {
	main := shape == "star" || shape == "filter-swap"
	switch {
	case !thorough && !seeded:
		return 5
	case !thorough:
		return 0
	case seeded && main:
		return 4
	case seeded:
		return 0
	case main:
		return 6
	}
	return 5
}

// Seed histories: the search starts from the empty history and, in the thorough tier, also from the states
// these histories establish (they are executed for real as the head of every replay), which puts the
// snapshot-versus-later-changes part of the property three to four operations deeper.
func c16Seeds(thorough bool) [][]cm.Op {
	seeds := [][]cm.Op{{}}
	if thorough {
		seeds = append(seeds,
			// table loaded for update in this transaction before OPEN, cursor open over N+1 records
			[]cm.Op{{K: cm.Insert}, {K: cm.Declare}, {K: cm.Open}},
			// cursor positioned on its first record, underlying table changed since OPEN
			[]cm.Op{{K: cm.Declare}, {K: cm.Open}, {K: cm.FetchNext}, {K: cm.Update}})
	}
	return seeds
}

// one breadth-first search: a configuration and a seed history
type c16Search struct {
	cfg   *c16Cfg
	si    int
	depth int
	nodes []c16Node
	next  int // first node not yet expanded
	seen  map[string]struct{}
	all   map[string]struct{} // distinct model states of the configuration over all its seeds (reported)
}

func c16Run(c *core.Ctx) {
	// the workload is millions of tiny short-lived csvq images; collect less often (no effect on results)
	debug.SetGCPercent(800)
	cfgs := c16Configs(c.Thorough())
	ops, leafOnly := c16Ops(c.Thorough())
	seeds := c16Seeds(c.Thorough())
	bound := fmt.Sprintf("histories of up to %d operations from the empty history", c16Depth(c.Thorough(), "star", false))
	if c.Thorough() {
		bound += fmt.Sprintf(" (query shapes star, filter-swap; %d for prepared, for-update), and up to %d operations after each of %d seed histories of 3-4 operations (star, filter-swap)",
			c16Depth(true, "prepared", false), c16Depth(true, "star", true), len(seeds)-1)
	}
	c.Info("history_length_bound", bound)
	c.Info("operations_in_alphabet", len(ops))
	c.Info("configurations", len(cfgs))
	dir := core.Scratch("c16")

	var searches []*c16Search
	var states int64
	maxDepth := 0
	for _, cfg := range cfgs {
		all := map[string]struct{}{}
		for si, seed := range seeds {
			root := cm.State{Table: cfg.Initial, Committed: cfg.Initial}
			for _, p := range seed {
				root, _ = cm.Apply(root, p, &cfg.M)
			}
			if c16Depth(c.Thorough(), cfg.Shape, si > 0) == 0 {
				continue
			}
			if _, ok := all[root.Key()]; !ok {
				all[root.Key()] = struct{}{}
				states++
			}
			sr := &c16Search{cfg: cfg, si: si, depth: c16Depth(c.Thorough(), cfg.Shape, si > 0), all: all,
				nodes: []c16Node{{s: root, parent: -1, seed: seed}}, seen: map[string]struct{}{root.Key(): {}}}
			if sr.depth > maxDepth {
				maxDepth = sr.depth
			}
			searches = append(searches, sr)
		}
	}
	// every worker walks the same model graph; states are counted once (by shard 0)
	defer func() {
		if c.Shard == 0 {
			c.Add("states", states)
		}
	}()

	// sizing aid: C16_MODEL_ONLY=1 walks the model graph without executing csvq (counts only)
	modelOnly := os.Getenv("C16_MODEL_ONLY") != ""
	// simplest first: all searches are advanced one history length at a time
	var tr int64
	for level := 0; level < maxDepth; level++ {
		for _, sr := range searches {
			cfg := sr.cfg
			for ; sr.next < len(sr.nodes) && sr.nodes[sr.next].depth == level && level < sr.depth; sr.next++ {
				i := sr.next
				n := sr.nodes[i]
				if c.Expired() {
					c.Incomplete(fmt.Sprintf("time budget reached while extending histories to %d operations (after the seed); every configuration is complete up to %d operations", level+1, level))
					return
				}
				var path []cm.Op
				for _, op := range ops {
					s2, _ := cm.Apply(n.s, op, &cfg.M)
					tr++
					if c.Mine(tr) && modelOnly {
						c.Add("transitions_model_only", 1)
						c.Add(fmt.Sprintf("transitions_model_only_level_%d", level+1), 1)
					} else if c.Mine(tr) {
						if path == nil {
							path = c16Path(sr.nodes, i)
						}
						st := c16Validate(c, cfg, dir, path, op, false)
						c.EvalN(1, b2i(st.nontrivial))
						c.Add("transitions", 1)
						c.Add("traces_validated_against_impl", 1)
						c.Add("csvq_statements_executed", st.stmts)
						c.Add("fetched_rows_compared_with_snapshot", st.rows)
						if st.diverged {
							c.Add("state_probes_with_table_changed_since_open", 1)
						}
						c.Max("max_depth", int64(len(path)+1))
						if c.WantSample() && st.diverged && len(path) >= 3 && op.IsData() {
							c.Sample(map[string]any{"configuration": cfg.ID, "history": fmt.Sprint(append(append([]cm.Op{}, path...), op)), "model_state_after": s2.Key()})
						}
					}
					if leafOnly[op] {
						continue
					}
					k := s2.Key()
					if _, ok := sr.all[k]; !ok {
						sr.all[k] = struct{}{}
						states++
					}
					if _, ok := sr.seen[k]; !ok {
						sr.seen[k] = struct{}{}
						if n.depth+1 < sr.depth { // states at the bound are probed, not expanded: no need to keep them
							sr.nodes = append(sr.nodes, c16Node{s: s2, parent: i, op: op, depth: n.depth + 1})
						}
					}
				}
			}
		}
	}
}

func c16Replay(c *core.Ctx, payload json.RawMessage) {
	if c16InvocationsReplay(c, payload) || c16RepoReplay(c, payload) || c16BlocksReplay(c, payload) || c16SharedReplay(c, payload) || c16ReleasedReplay(c, payload) || c16MagnitudeReplay(c, payload) {
		return
	}
	var np struct {
		Family                     string `json:"family"`
		Outer, Block, Inner, Probe int
	}
	if json.Unmarshal(payload, &np) == nil && np.Family == "nested" {
		p := c16NestedProgram(np.Outer, np.Block, np.Inner, np.Probe)
		env := drv.NewText(core.Scratch("c16nested"))
		env.Tx.Flags.SetQuiet(true)
		r := env.Exec(p.sql)
		env.Close()
		fmt.Printf("replaying nested-cursor program:\n%s\nprinted %v, error %v\nexpected %v, error containing %q\n", p.sql, strings.Fields(r.Out), r.Err, p.want, p.wantErr)
		return
	}
	var p c16Payload
	if err := json.Unmarshal(payload, &p); err != nil {
		fmt.Println("bad payload:", err)
		return
	}
	for _, cfg := range c16Configs(true) {
		if cfg.ID == p.Cfg {
			fmt.Printf("replaying configuration %s: history %v then %v\n", cfg.ID, p.Path, p.Op)
			if cfg.Src == "file" {
				fmt.Printf("  t.csv has %d data rows: %s\n", cfg.N, cm.RowsKey(cfg.Initial))
			}
			c16Validate(c, cfg, core.Scratch("c16"), p.Path, p.Op, true)
			return
		}
	}
	fmt.Println("unknown configuration", p.Cfg)
}
