package checks

import (
	"encoding/json"
	"fmt"
	"math"
	"math/big"
	"strconv"

	"github.com/mithrandie/csvq/lib/query"
	"github.com/mithrandie/csvq/lib/value"

	"verif/harness/internal/core"
	"verif/harness/internal/drv"
	"verif/harness/internal/rv"
)

// Family bounds: integer arithmetic whose operands or exact result lie at the edges of the 64-bit integers.
//
// The property: an operation on two integers yields an integer, and for + - * % integer and float arithmetic agree
// on integral operands. The reference is exact arithmetic (math/big). While the exact result fits a 64-bit integer
// csvq must return exactly that integer. When it does not fit, no 64-bit integer agrees with the float computation on
// the same operands; what csvq may do then is left open by the manual (an error, or the float result, are both
// accepted) - but an integer, which is necessarily another number than the exact result, is not an answer.
// csvq's present answer there, the two's-complement wrap-around, is reported under its own signature
// (overflow:integer-result-wrapped-around-int64:<operator>), any other integer or a NULL under another.
// For / the property states no agreement law: a wrapped quotient (MinInt64 / -1) is accepted as is an error.
func init() {
	core.Extend("C06", "family bounds: all ordered pairs over 29 (thorough 41) integers at the edges of the 64-bit range (the bounds and their neighbours, powers of two around 2^31, 2^32, 2^53, 2^62, 2^63, the neighbours of the square root of 2^63, small integers) x + - * / % x the operand given as integer or as text, "+
		"through query.Calculate and through parsed SELECT expressions; reference: exact arithmetic (math/big): the exact integer while it fits 64 bits, otherwise no integer (an error or the float result; csvq's wrap-around is a violation of the float/integer agreement for + - *)", c06BoundsRun)
}

const (
	c06OverflowOK = iota
	c06OverflowWrapped
	c06OverflowWrong
)

var c06OpNames = map[byte]string{'+': "a + b", '-': "a - b", '*': "a * b", '/': "a / b", '%': "a % b"}

// c06Overflow judges csvq's answer (got, err) to an integer operation whose exact result lies outside the 64-bit
// integers; wrapped is the two's-complement wrap-around of the exact result.
func c06Overflow(op byte, a, b, got rv.V, err error, wrapped rv.V) (verdict int, sig, msg string) {
	if err != nil {
		if drv.IsFatal(err) {
			return c06OverflowWrong, "", "internal error " + err.Error()
		}
		return c06OverflowOK, "", ""
	}
	if op == '/' {
		// MinInt64 / -1: no agreement law is stated for division
		if rv.SameValue(got, wrapped) {
			return c06OverflowOK, "", ""
		}
		return c06OverflowWrong, "", got.Key()
	}
	x, _ := a.Float()
	y, _ := b.Float()
	var f float64
	switch op {
	case '+':
		f = x + y
	case '-':
		f = x - y
	case '*':
		f = x * y
	}
	if got.K == rv.Float && got.F == f {
		return c06OverflowOK, "", ""
	}
	if rv.SameValue(got, wrapped) {
		return c06OverflowWrapped, "overflow:integer-result-wrapped-around-int64:" + c06OpNames[op],
			fmt.Sprintf("%s on (%s, %s): csvq gives the integer %d; the exact result does not fit a 64-bit integer and float arithmetic on the same operands gives %s: integer and float arithmetic do not agree (silent wrap-around)",
				c06OpNames[op], a.Key(), b.Key(), got.I, strconv.FormatFloat(f, 'g', -1, 64))
	}
	return c06OverflowWrong, "", got.Key()
}

func c06BoundInts(thorough bool) []int64 {
	const root = 3037000499 // floor(sqrt(2^63-1)); root*root fits, (root+1)*(root+1) does not
	vs := []int64{
		0, 1, -1, 2, -2, 3, -3, 10,
		math.MaxInt64, math.MaxInt64 - 1, math.MinInt64, math.MinInt64 + 1,
		1 << 62, -(1 << 62), 1<<62 - 1, 1<<62 + 1,
		1 << 31, -(1 << 31), 1 << 32, -(1 << 32), 1<<32 - 1,
		root, root + 1, -root, -(root + 1),
		1 << 53, 1<<53 + 1, math.MaxInt64 / 3, math.MinInt64 / 3,
	}
	if thorough {
		vs = append(vs, math.MaxInt64-2, math.MinInt64+2, 1<<61, -(1 << 61), 1<<63/10, 7, -7, 1<<31-1, 1<<33, root-1, -(root - 1), 1<<62+2)
	}
	return vs
}

type c06BoundsCase struct {
	Family string `json:"family"`
	A      int64  `json:"a"`
	B      int64  `json:"b"`
}

func c06BoundsRun(c *core.Ctx) { c06BoundsOver(c, nil) }

func c06BoundsOver(c *core.Ctx, only *c06BoundsCase) {
	vs := c06BoundInts(c.Thorough() || only != nil)
	env := drv.New(core.Scratch("c06bounds"))
	defer env.Close()
	env.SetVar("a", value.NewNull())
	env.SetVar("b", value.NewNull())
	sel := map[byte]string{}
	for _, op := range c06Arith {
		sel[op] = "SELECT @a " + string(op) + " @b;"
	}
	minI, maxI := big.NewInt(math.MinInt64), big.NewInt(math.MaxInt64)
	var idx int64
	for _, x := range vs {
		for _, y := range vs {
			idx++
			if only != nil {
				if x != only.A || y != only.B {
					continue
				}
			} else if !c.Mine(idx) {
				continue
			}
			if c.Expired() {
				c.Incomplete("time budget reached inside family bounds")
				return
			}
			pay := c06BoundsCase{"bounds", x, y}
			for rep := 0; rep < 4; rep++ {
				a, b := rv.I(x), rv.I(y)
				if rep&1 != 0 {
					a = rv.S(strconv.FormatInt(x, 10))
				}
				if rep&2 != 0 {
					b = rv.S(" " + strconv.FormatInt(y, 10) + " ")
				}
				kinds := sigKind(a) + "," + sigKind(b)
				for _, op := range c06Arith {
					name := c06OpNames[op]
					exact := new(big.Int)
					bx, by := big.NewInt(x), big.NewInt(y)
					divZero := false
					switch op {
					case '+':
						exact.Add(bx, by)
					case '-':
						exact.Sub(bx, by)
					case '*':
						exact.Mul(bx, by)
					case '/':
						if y == 0 {
							divZero = true
						} else {
							exact.Quo(bx, by)
						}
					case '%':
						if y == 0 {
							divZero = true
						} else {
							exact.Rem(bx, by)
						}
					}
					fits := exact.Cmp(minI) >= 0 && exact.Cmp(maxI) <= 0
					c.EvalN(2, 2)
					if !fits {
						c.Add("bounds_family_results_outside_int64", 2)
					}
					for seam := 0; seam < 2; seam++ {
						var got rv.V
						var err error
						seamName := "direct"
						if seam == 0 {
							pa, pb := a.Primary(), b.Primary()
							var p value.Primary
							p, err = query.Calculate(pa, pb, int(op))
							if err == nil {
								got = rv.FromPrimary(p)
							}
						} else {
							seamName = "sql"
							env.SetVar("a", a.Primary())
							env.SetVar("b", b.Primary())
							r := env.Exec(sel[op])
							err = r.Err
							if r.Panic != nil {
								err = fmt.Errorf("Fatal Error: panic %v", r.Panic)
							}
							if err == nil {
								if len(r.Views) != 1 || len(drv.Rows(r.Views[0])) != 1 {
									err = fmt.Errorf("Fatal Error: harness expected one row")
								} else {
									got = drv.Rows(r.Views[0])[0][0]
								}
							}
						}
						where := fmt.Sprintf("%s on (%s, %s) [%s]", name, a.Key(), b.Key(), seamName)
						switch {
						case divZero:
							if err == nil || drv.IsFatal(err) {
								c.Violate("bounds:"+seamName+":"+name+":"+kinds+":division-by-zero", fmt.Sprintf("%s: csvq gives %v %v, the property demands the integer-division-by-zero error", where, got.Key(), err), pay)
							}
						case fits:
							if err != nil || got.K != rv.Int || got.I != exact.Int64() {
								c.Violate("bounds:"+seamName+":"+name+":"+kinds+":result-fits-int64", fmt.Sprintf("%s: csvq gives %s %v, exact arithmetic gives the integer %s", where, got.Key(), err, exact.String()), pay)
							}
						default:
							wrapped := rv.Arith(rv.I(x), rv.I(y), op).V
							verdict, sig, msg := c06Overflow(op, a, b, got, err, wrapped)
							switch verdict {
							case c06OverflowWrapped:
								c.Violate(sig, msg, pay)
							case c06OverflowWrong:
								c.Violate("bounds:"+seamName+":"+name+":"+kinds+":result-outside-int64", fmt.Sprintf("%s: csvq gives %s; the exact result %s does not fit a 64-bit integer (admissible: an error or the float result)", where, msg, exact.String()), pay)
							}
						}
					}
				}
			}
		}
	}
}

func c06BoundsReplay(c *core.Ctx, payload json.RawMessage) bool {
	var k c06BoundsCase
	if json.Unmarshal(payload, &k) != nil || k.Family != "bounds" {
		return false
	}
	fmt.Printf("replaying family bounds: %+v\n", k)
	c06BoundsOver(c, &k)
	return true
}
