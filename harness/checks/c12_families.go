//go:build verifx

package checks

import (
	"encoding/json"
	"fmt"
	"os"
	"sort"
	"strings"

	"github.com/mithrandie/csvq/lib/query"

	"verif/harness/internal/core"
	"verif/harness/internal/gox"
)

// Shared by the families of C12 (c12_wide.go, c12_ragged.go, c12_firsttouch.go): one scenario = one program; it is
// run (1) twice by a single worker with Go's own map iteration order - the two runs must agree: "on every run" -,
// (2) optionally some more times free-running with several workers, (3) under the schedule explorer: ALL executions
// with at most one non-default scheduling decision and at most mapDev deviating map-order sites. Every outcome
// (views with header and rows, error, messages, bytes of all files) must equal the first single-worker run.

type c12FamPayload struct {
	Family   string      `json:"family"`
	Class    string      `json:"class"`
	Scenario goxScenario `json:"scenario"`
	Choices  []int       `json:"choices"`
	Fine     bool        `json:"fine_points"`
	MapDev   int         `json:"map_deviations"`
	FreeRuns int         `json:"free_runs"`
	Coarse   bool        `json:"coarse_signature"`
	Free     bool        `json:"violated_by_a_free_run"`
	Threads  bool        `json:"command_line_runs,omitempty"` // family first-touch, part 2: the scenario is run by the real CLI
}

// c12FamilyOnly: VERIF_C12_FAMILY=<name> runs one family alone (development aid; the base scenarios are skipped too).
func c12FamilyOnly(name string) bool {
	only := os.Getenv("VERIF_C12_FAMILY")
	return only == "" || only == name
}

// c12DiffClass names the kind of the first difference between two outcomes of goxRunOnce, free of data values.
func c12DiffClass(want, got string) string {
	wl, gl := strings.Split(want, "\n"), strings.Split(got, "\n")
	for i := 0; i < len(wl) && i < len(gl); i++ {
		if wl[i] == gl[i] {
			continue
		}
		w, g := wl[i], gl[i]
		we, ge := strings.HasPrefix(w, "error: ") || strings.HasPrefix(w, "panic: "), strings.HasPrefix(g, "error: ") || strings.HasPrefix(g, "panic: ")
		switch {
		case we && ge:
			return "another-error"
		case ge:
			return "fails-where-the-single-worker-run-succeeds"
		case we:
			return "succeeds-where-the-single-worker-run-fails"
		}
		part := strings.TrimRight(strings.SplitN(w, " ", 2)[0], ":0123456789")
		if part == "view" && strings.HasPrefix(g, "view") {
			hw, hg := c12HeaderOf(w), c12HeaderOf(g)
			if hw != hg {
				a, b := strings.Fields(hw), strings.Fields(hg)
				sort.Strings(a)
				sort.Strings(b)
				if strings.Join(a, " ") == strings.Join(b, " ") {
					return "same-columns-in-another-order"
				}
				return "columns-differ"
			}
			if sameMultiset(w, g) {
				return "same-rows-in-another-order"
			}
			return "rows-differ"
		}
		return part + "-differs"
	}
	return "length-differs"
}

func c12HeaderOf(line string) string {
	i, j := strings.Index(line, "["), strings.Index(line, "]")
	if i < 0 || j < i {
		return ""
	}
	return line[i+1 : j]
}

// c12FamilyScenario runs one scenario of a family. class is the part of the signature that names the feature
// (statement form, format ...), never a concrete size or value.
func c12FamilyScenario(c *core.Ctx, family, class string, sc goxScenario, fine bool, mapDev, freeRuns int, replay *c12FamPayload) {
	c12FamilyScenarioSig(c, family, class, sc, fine, mapDev, freeRuns, false, replay)
}

// c12CoarseKind folds the kinds of difference in a result into one, for families whose signature has to be the same
// whether a difference is seen in process (views) or through the command line (text).
func c12CoarseKind(kind string) string {
	switch kind {
	case "another-error", "fails-where-the-single-worker-run-succeeds", "succeeds-where-the-single-worker-run-fails":
		return kind
	}
	return "result-differs"
}

func c12FamilyScenarioSig(c *core.Ctx, family, class string, sc goxScenario, fine bool, mapDev, freeRuns int, coarse bool, replay *c12FamPayload) {
	prev := query.GetGoroutineManager().MinimumRequiredPerCore
	query.GetGoroutineManager().MinimumRequiredPerCore = 2
	gox.EvalPoints, gox.LoopPoints = fine, fine
	defer func() {
		query.GetGoroutineManager().MinimumRequiredPerCore = prev
		gox.EvalPoints, gox.LoopPoints = false, false
	}()
	dir := core.Scratch("c12-" + family)
	want, _ := goxRunOnce(dir, sc, 1, false, nil)
	violated := false
	judge := func(how string, choices []int, free bool, got string) {
		if got == want || violated {
			return
		}
		violated = true // one report per scenario: the signature is the class, the payload the first case found
		kind := c12DiffClass(want, got)
		if coarse {
			kind = c12CoarseKind(kind)
		}
		c.Violate(family+":"+class+":"+kind,
			fmt.Sprintf("family %s, scenario %s %q, %s:\n--- first single-worker run:\n%s--- this run:\n%s", family, sc.Name, clip(sc.SQL), how, want, got),
			c12FamPayload{Family: family, Class: class, Scenario: sc, Choices: choices, Fine: fine, MapDev: mapDev, FreeRuns: freeRuns, Coarse: coarse, Free: free})
	}
	if replay != nil && !replay.Free {
		got, _ := goxRunOnce(dir, sc, sc.CPU, true, replay.Choices)
		fmt.Printf("replayed choice vector: outcome equal to the single-worker run: %v\n", got == want)
		judge(fmt.Sprintf("%d workers, choices %v", sc.CPU, replay.Choices), replay.Choices, false, got)
		return
	}
	runs := int64(1)
	// (1) the same program once more, one worker, Go's own map order
	got, _ := goxRunOnce(dir, sc, 1, false, nil)
	runs++
	judge("second single-worker run", nil, true, got)
	// (2) free-running runs, the number of workers cycling through 1..CPU
	for i := 0; i < freeRuns && !violated; i++ {
		cpu := 1 + i%sc.CPU
		got, _ = goxRunOnce(dir, sc, cpu, false, nil)
		runs++
		judge(fmt.Sprintf("free run %d with %d workers", i+1, cpu), nil, true, got)
	}
	if replay != nil {
		fmt.Printf("%d free runs repeated: a difference was seen: %v\n", runs-1, violated)
		return
	}
	// (3) all schedules / map orders within the bound
	e := &gox.Explorer{MaxPreempt: 1, MaxMapDev: mapDev, MaxSwitch: 1, Stop: func() bool { return violated || c.Expired() }}
	nontrivial := int64(0)
	e.ExploreRunner(func(prefix []int) gox.Execution {
		var ex gox.Execution
		got, ex = goxRunOnce(dir, sc, sc.CPU, true, prefix)
		return ex
	}, func(choices []int, ex gox.Execution) {
		if ex.Tasks > 1 || len(ex.MapSites) > 0 {
			nontrivial++
		}
		if ex.Overflow {
			c.Incomplete("family " + family + ", scenario " + sc.Name + ": an execution had more choice points than the explorer records")
		}
		if ex.Deadlock && !violated {
			violated = true
			c.Violate(family+":"+class+":deadlock", fmt.Sprintf("family %s, scenario %s: every live task is blocked under choices %v", family, sc.Name, choices),
				c12FamPayload{Family: family, Class: class, Scenario: sc, Choices: choices, Fine: fine, MapDev: mapDev})
		}
		judge(fmt.Sprintf("%d workers, %s", sc.CPU, c12Choices(choices)), choices, false, got)
	})
	c.EvalN(runs+int64(e.Executions), runs-1+nontrivial)
	c.Add(family+"_scenarios", 1)
	c.Add(family+"_explored_executions", int64(e.Executions))
	c.Add(family+"_free_runs", runs)
	c.Max("max_tasks_"+family, int64(e.MaxTasks))
	for s := range e.MapSites {
		c.Observe(family+"_map_iteration_sites_reached", s)
	}
	if e.Capped && !violated {
		c.Incomplete("family " + family + ", scenario " + sc.Name + ": time budget reached before all schedules within the bound were run")
	}
	if e.Divergences > 0 {
		c.Incomplete(fmt.Sprintf("family %s, scenario %s: %d executions diverged from their choice vector (harness nondeterminism); not covered", family, sc.Name, e.Divergences))
	}
}

// c12Choices prints a choice vector by its non-default entries.
func c12Choices(choices []int) string {
	var parts []string
	for i, ch := range choices {
		if ch != 0 {
			parts = append(parts, fmt.Sprintf("alternative %d at choice point %d", ch, i))
		}
	}
	if len(parts) == 0 {
		return fmt.Sprintf("all %d choices default", len(choices))
	}
	return strings.Join(parts, ", ") + fmt.Sprintf(" (of %d points)", len(choices))
}

// c12FamilyReplay re-executes the case of a family's violation; false if the payload is not a family's.
func c12FamilyReplay(c *core.Ctx, payload json.RawMessage) bool {
	var p c12FamPayload
	if json.Unmarshal(payload, &p) != nil || p.Family == "" {
		return false
	}
	fmt.Printf("replaying family %s, scenario %s\n", p.Family, p.Scenario.Name)
	if p.Threads {
		c12ThreadsReplay(c, p)
		return true
	}
	c12FamilyScenarioSig(c, p.Family, p.Class, p.Scenario, p.Fine, p.MapDev, p.FreeRuns, p.Coarse, &p)
	return true
}
