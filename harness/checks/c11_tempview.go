package checks

import (
	"fmt"
	"strings"

	"verif/harness/internal/core"
	"verif/harness/internal/procx"
)

// Family tempview for C11: the transaction's bookkeeping of TEMPORARY views (DECLARE ... VIEW, the STDIN table) is
// unwound by the same rollback that has to release the files, and before it. Enumerated: every statement history
//
//	<life of a changed temporary view> ; <what the transaction holds in the repository> ; <way of ending>
//
// from the alphabets below (the full product), on the real CLI. Oracle: the main family's (c11Judge) - whatever the
// view's fate, after the process has ended nothing of the run's control files and uncommitted tables remains, tables
// hold old or new contents, and csvq did not fail internally. For one history per life the run is additionally ended
// by a signal at every point from the first statement on.
func init() {
	core.Extend("C11", "family tempview: statement histories (life of a changed temporary view: "+strings.Join(c11TvLives, ", ")+") x (change: "+strings.Join(c11TvMods, ", ")+
		") x (held: "+strings.Join(c11TvHelds, ", ")+") x (ending: "+strings.Join(c11TvEndings, ", ")+"), each run undisturbed, and per life one history with SIGINT (thorough: TERM, QUIT, 2 errno) at every point; oracle as in the main family", c11TempviewRun)
}

var c11TvLives = []string{"kept", "disposed", "disposed-redeclared", "if-block", "while-block", "function-block", "stdin"}
var c11TvMods = []string{"insert", "update", "delete", "alter-add"}
var c11TvHelds = []string{"update", "create", "update+create", "select-for-update"}
var c11TvEndings = []string{"commit", "error", "trigger-error", "exit", "rollback-then-update", "lock-timeout"}

func c11TvProgram(life, mod, held, ending string, heldFirst bool) c11Program {
	target := "v"
	if life == "stdin" {
		target = "STDIN"
	}
	var m string
	switch mod {
	case "insert":
		m = "INSERT INTO " + target + " VALUES (2);"
	case "update":
		m = "UPDATE " + target + " SET a = 3;"
	case "delete":
		m = "DELETE FROM " + target + ";"
	case "alter-add":
		m = "ALTER TABLE " + target + " ADD b;"
	}
	decl := "DECLARE v VIEW (a) AS SELECT 1;"
	var v string
	switch life {
	case "kept":
		v = decl + " " + m
	case "disposed":
		v = decl + " " + m + " DISPOSE VIEW v;"
	case "disposed-redeclared":
		v = decl + " " + m + " DISPOSE VIEW v; DECLARE v VIEW (a, b);"
	case "if-block":
		v = "IF TRUE THEN " + decl + " " + m + " END IF;"
	case "while-block":
		v = "VAR @i := 0; WHILE @i < 1 DO " + decl + " " + m + " @i := @i + 1; END WHILE;"
	case "function-block":
		v = "DECLARE f FUNCTION () AS BEGIN " + decl + " " + m + " RETURN 1; END; VAR @r := f();"
	case "stdin":
		v = m
	}
	var h string
	switch held {
	case "update":
		h = "UPDATE t SET b = 'z' WHERE a = 1;"
	case "create":
		h = "CREATE TABLE `n.csv` (c1, c2);"
	case "update+create":
		h = "UPDATE t SET b = 'z' WHERE a = 1; CREATE TABLE `n.csv` (c1, c2);"
	case "select-for-update":
		h = "SELECT COUNT(*) FROM t FOR UPDATE;"
	}
	var e string
	switch ending {
	case "error":
		e = "SELECT nosuch FROM w;"
	case "trigger-error":
		e = "TRIGGER ERROR 'stop';"
	case "exit":
		e = "EXIT;"
	case "rollback-then-update":
		e = "ROLLBACK; UPDATE w SET c = 'r';"
	case "lock-timeout":
		e = "UPDATE u SET c = 'r';"
	}
	sql := v + " " + h
	order := ""
	if heldFirst {
		sql = h + " " + v
		order = "/held-first"
	}
	if e != "" {
		sql += " " + e
	}
	p := c11Program{Name: "tempview/" + life + "/" + mod + "/" + held + "/" + ending + order,
		Files: map[string]string{"t.csv": "a,b\n1,x\n2,y\n", "w.csv": "a,c\n1,p\n3,q\n", "u.csv": "a,c\n1,p\n", ".u.csv.lock": ""},
		Args:  []string{"--wait-timeout", "120", sql}}
	if ending == "lock-timeout" {
		// only the program that is meant to wait in vain waits briefly: a short wait anywhere else turns machine load into errors
		p.Args[1] = "0.05"
	}
	p.Base = p.Name
	if life == "stdin" {
		p.Stdin = "a\n1\n"
	}
	p.WantFail = ending == "error" || ending == "trigger-error" || ending == "lock-timeout"
	if strings.Contains(held, "create") && ending == "commit" {
		p.Created = []string{"n.csv"}
	}
	return p
}

func c11TempviewRun(c *core.Ctx) {
	dir := core.Scratch("c11")
	var idx int64
	orders := []bool{false}
	if c.Thorough() {
		orders = []bool{false, true}
	}
	for _, life := range c11TvLives {
		for _, mod := range c11TvMods {
			for _, held := range c11TvHelds {
				for _, ending := range c11TvEndings {
					for _, heldFirst := range orders {
						idx++
						if !c.Mine(idx) {
							continue
						}
						if c.Expired() {
							c.Incomplete("family tempview: time budget reached")
							return
						}
						p := c11TvProgram(life, mod, held, ending, heldFirst)
						ref, _, _ := c11Undisturbed(c, dir, p, "tempview")
						c.Eval(p.Name, life != "kept")
						c.Observe("exit_codes", fmt.Sprint(ref.Exit))
					}
				}
			}
		}
	}
	// the run ended from outside at every point of one history per life
	sigs, errnos, endings := []string{"INT"}, []string{}, []string{"commit"}
	if c.Thorough() {
		sigs, errnos, endings = []string{"INT", "TERM", "QUIT"}, []string{"EACCES", "EIO"}, []string{"commit", "rollback-then-update"}
	}
	for _, life := range c11TvLives {
		for _, ending := range endings {
			p := c11TvProgram(life, "insert", "update+create", ending, false)
			ref, final, ok := c11Undisturbed(c, dir, p, "tempview")
			if !ok {
				continue
			}
			from := c11FirstStmt(ref.Trace)
			if !c11Sweep(c, dir, p, "tempview", ref, final, &idx, func(tp procx.TracePoint) []c11Injection {
				if tp.K < from {
					return nil
				}
				var injs []c11Injection
				for _, s := range sigs {
					injs = append(injs, c11Injection{Kind: "signal", Arg: s})
				}
				if tp.Name != "stmt" && tp.Name != "wait" && tp.Name != "glob" && tp.Name != "poll" {
					for _, e := range errnos {
						injs = append(injs, c11Injection{Kind: "fail", Arg: e})
					}
				}
				return injs
			}) {
				return
			}
		}
	}
}
