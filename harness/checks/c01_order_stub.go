//go:build !verifx

package checks

import "verif/harness/internal/core"

// without the overlay map ranges are not rewritten: Go's own order
func c01WithMapOrders(c *core.Ctx, dir string, k c01Case) { c01InprocOrder(c, dir, k) }

func setProcOrder(spec string, on bool) {}

func procCalls() int64 { return 0 }
