//go:build verifx

package checks

import (
	"fmt"
	"strings"

	"verif/harness/internal/core"
)

// Family wide (C12): statements over k columns, k straddling the sizes at which lib/query changes the container it
// keeps column positions in (UintPool: a slice searched linearly below LimitToUseUintSlicePool = 20 values, a map
// from there on; FieldIndexCache: slice below LimitToUseFieldIndexSliceChache = 8, map above). The containers decide
// the layout of the merged columns of NATURAL / USING joins, the SET list of UPDATE and the columns of ALTER TABLE
// DROP; the tests of csvq use 1-3 columns. Every statement form is run for EVERY k from 1 to the bound (24 quick, 48
// thorough): two single-worker runs with Go's own map order, then all executions with at most one non-default
// scheduling decision and at most one map-iteration site that deviates from the canonical order (every map range of
// lib/query, lib/file, lib/value and lib/action is routed through the explorer by the overlay, also one that a
// change adds). Oracle: the property itself - header, rows, row order, messages and the bytes of the written files are
// the same in every execution.
func init() {
	core.Extend("C12", "family wide: NATURAL/USING joins of all four kinds over k join columns, UPDATE SET of k columns, ALTER TABLE DROP of k columns, INSERT with k named columns, SELECT / GROUP BY / ORDER BY over k field references, "+
		"for every k in 1..24 (thorough 1..48: both sides of the container thresholds 8 and 20 of lib/query); two single-worker runs with Go's map order plus all executions with at most 1 non-default scheduling decision and at most 1 deviating map-iteration site; "+
		"oracle: every outcome (header, rows, messages, file bytes) equals the first single-worker run", c12WideRun)
}

type c12WideForm struct {
	Name string
	SQL  func(k int) string
}

func c12WideCols(k int, f func(j int) string, sep string) string {
	parts := make([]string, k)
	for j := 1; j <= k; j++ {
		parts[j-1] = f(j)
	}
	return strings.Join(parts, sep)
}

// l: k1..kk,pa (3 rows); r: kk..k1,pb (the join columns in the opposite order; rows 2 and 1 of l match, one row matches nothing)
func c12WideFiles(k int) map[string]string {
	l := c12WideCols(k, func(j int) string { return fmt.Sprintf("k%d", j) }, ",") + ",pa\n"
	for i := 1; i <= 3; i++ {
		l += c12WideCols(k, func(j int) string { return fmt.Sprintf("v%d", i) }, ",") + fmt.Sprintf(",%d\n", i)
	}
	r := c12WideCols(k, func(j int) string { return fmt.Sprintf("k%d", k+1-j) }, ",") + ",pb\n"
	for n, i := range []int{2, 1, 4} {
		r += c12WideCols(k, func(j int) string { return fmt.Sprintf("v%d", i) }, ",") + fmt.Sprintf(",%d\n", 10*(n+1))
	}
	return map[string]string{"l.csv": l, "r.csv": r}
}

func c12WideForms() []c12WideForm {
	var forms []c12WideForm
	for _, kind := range []string{"", "LEFT ", "RIGHT ", "FULL "} {
		kind := kind
		tag := strings.ToLower(strings.TrimSpace(kind))
		if tag == "" {
			tag = "inner"
		}
		forms = append(forms,
			c12WideForm{"natural-" + tag + "-join", func(k int) string {
				return "SELECT * FROM l NATURAL " + kind + "JOIN r; CREATE TABLE `o.csv` AS SELECT * FROM l NATURAL " + kind + "JOIN r; COMMIT;"
			}},
			// the USING list starts in the middle of the columns
			c12WideForm{tag + "-join-using", func(k int) string {
				return "SELECT * FROM l " + kind + "JOIN r USING (" + c12WideCols(k, func(j int) string { return fmt.Sprintf("k%d", (j+k/2-1)%k+1) }, ", ") + ")"
			}})
	}
	forms = append(forms,
		c12WideForm{"update-set", func(k int) string {
			return "UPDATE l SET " + c12WideCols(k, func(j int) string { return fmt.Sprintf("k%d = 'u%d'", k+1-j, j) }, ", ") + " WHERE pa > 1; SELECT * FROM l; COMMIT;"
		}},
		c12WideForm{"update-2-tables-set", func(k int) string {
			return "UPDATE l, r SET " + c12WideCols(k, func(j int) string {
				if j%2 == 0 {
					return fmt.Sprintf("r.k%d = l.pa", j)
				}
				return fmt.Sprintf("l.k%d = r.pb", j)
			}, ", ") + " FROM l JOIN r ON l.k1 = r.k1; SELECT * FROM l; SELECT * FROM r; COMMIT;"
		}},
		c12WideForm{"alter-table-drop", func(k int) string {
			return "ALTER TABLE l DROP (" + c12WideCols(k, func(j int) string { return fmt.Sprintf("k%d", k+1-j) }, ", ") + "); SELECT * FROM l; COMMIT;"
		}},
		c12WideForm{"insert-named-columns", func(k int) string {
			return "INSERT INTO l (" + c12WideCols(k, func(j int) string { return fmt.Sprintf("k%d", k+1-j) }, ", ") + ", pa) VALUES (" +
				c12WideCols(k, func(j int) string { return fmt.Sprintf("'n%d'", j) }, ", ") + ", 9); SELECT * FROM l; COMMIT;"
		}},
		c12WideForm{"select-field-references", func(k int) string {
			cols := c12WideCols(k, func(j int) string { return fmt.Sprintf("k%d", k+1-j) }, ", ")
			return "SELECT " + cols + ", pa FROM l WHERE " + c12WideCols(k, func(j int) string { return fmt.Sprintf("k%d IS NOT NULL", j) }, " AND ") + " ORDER BY " + cols + " DESC"
		}},
		c12WideForm{"group-by", func(k int) string {
			cols := c12WideCols(k, func(j int) string { return fmt.Sprintf("k%d", j) }, ", ")
			return "SELECT " + cols + ", COUNT(*) FROM l GROUP BY " + cols
		}})
	return forms
}

func c12WideRun(c *core.Ctx) {
	if !c12FamilyOnly("wide") {
		return
	}
	maxK := 24
	if c.Thorough() {
		maxK = 48
	}
	var idx int64
	for _, f := range c12WideForms() {
		for k := 1; k <= maxK; k++ {
			idx++
			if !c.Mine(idx) {
				continue
			}
			if c.Expired() {
				c.Incomplete("family wide: time budget reached")
				return
			}
			sc := goxScenario{Name: fmt.Sprintf("wide:%s/%d-columns", f.Name, k), Files: c12WideFiles(k), SQL: f.SQL(k), CPU: 2}
			c12FamilyScenario(c, "wide", f.Name, sc, false, 1, 0, nil)
			c.Observe("wide_forms", f.Name)
			c.Max("max_columns_wide", int64(k))
			if c.WantSample() && k == 20 {
				c.Sample(map[string]any{"family": "wide", "form": f.Name, "columns": k, "sql": sc.SQL})
			}
		}
	}
}
