//go:build verifx

package checks

import "github.com/mithrandie/csvq/lib/verifshim/vrt"

// poolTrack switches the shim's bookkeeping of what sits in csvq's pools on or off; poolDoubleReleases returns (and
// clears) the objects that were put into a pool while they were already there.
func poolTrack(on bool)            { vrt.TrackPools(on) }
func poolDoubleReleases() []string { return vrt.DoubleDiscards() }
