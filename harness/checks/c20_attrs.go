//go:build verifx

package checks

import (
	"encoding/json"
	"fmt"
	"strings"

	"verif/harness/internal/core"
	"verif/harness/internal/drv"
)

// Extra family for C20: one file, referred to with DIFFERENT import attributes inside one transaction - another JSON
// query, another delimiter, no header, without-null, another format; given in a table function or through the flags
// (SET @@JSON_QUERY, @@DELIMITER, @@NO_HEADER, @@WITHOUT_NULL, @@IMPORT_FORMAT) that apply to a plain name. Whatever a
// reference with other attributes shows (the manual does not say), it is not another process's commit: the
// transaction has loaded the file.
//
// Oracle (differential, no model of the formats): the sequence S is run three times - on the untouched file (B0), on
// the file another process has committed to before S starts (B1), and with that commit arriving between two
// statements of S (A). A read of A that belongs to a transaction which loaded the file before the commit arrived
// equals the same read of B0; a read of a transaction that started after the commit (or loaded the file only after
// it) equals the same read of B1. None of the statements locks the table.
func init() {
	core.Extend("C20", "family import-attributes: one JSON file x 5 references (3 JSON queries in the table function, the plain name, the file name) + SET @@JSON_QUERY, and one CSV file x 7 references (plain, CSV with ',' / ';' / tab, no header, without null, FIXED) "+
		"+ 4 flags, each with COMMIT and ROLLBACK: every statement sequence up to length 3 (thorough 4) x another process's commit at every inner statement boundary; oracle: differential against the same sequence on a file that does not change", c20AttrsRun)
}

type c20AttrsGroup struct {
	name     string
	files    map[string]string
	alphabet []string
	pSQL     string // the other process
}

var c20AttrsGroups = []c20AttrsGroup{
	{
		name:  "json",
		files: map[string]string{"j.json": "[{\"id\":1,\"name\":\"ann\",\"x\":null},{\"id\":2,\"name\":\"bob\",\"x\":1}]\n"},
		alphabet: []string{
			"SELECT * FROM json('{}', `j.json`)",
			"SELECT * FROM json('{id, name}', `j.json`)",
			"SELECT * FROM json('{name}', `j.json`)",
			"SELECT * FROM j",
			"SELECT * FROM `j.json`",
			"SET @@JSON_QUERY TO '{id}'",
			"COMMIT",
			"ROLLBACK",
		},
		pSQL: "UPDATE j SET name = 'zed', id = 7 WHERE id = 1;",
	},
	{
		name:  "csv",
		files: map[string]string{"t.csv": "id,v\n1,aa\n2,\n"},
		alphabet: []string{
			"SELECT * FROM t",
			"SELECT * FROM csv(',', `t.csv`)",
			"SELECT * FROM csv(';', `t.csv`)",
			"SELECT * FROM csv('\\t', `t.csv`)",
			"SELECT * FROM csv(',', `t.csv`, 'UTF8', TRUE)",
			"SELECT * FROM csv(',', `t.csv`, 'UTF8', FALSE, TRUE)",
			"SELECT * FROM fixed('[2,5]', `t.csv`)",
			"SET @@DELIMITER TO ';'",
			"SET @@NO_HEADER TO TRUE",
			"SET @@WITHOUT_NULL TO TRUE",
			"SET @@IMPORT_FORMAT TO 'FIXED'",
			"COMMIT",
			"ROLLBACK",
		},
		pSQL: "UPDATE t SET v = 'zed', id = 7 WHERE id = 1;",
	},
}

type c20AttrsCase struct {
	Family string `json:"family"`
	Group  int    `json:"group"`
	Seq    []int  `json:"statements"`
	At     int    `json:"commit_before_statement"`
}

// c20AttrsExec runs the sequence; the other process commits before statement `at` (-1: never; 0: before the first).
// It returns one outcome per statement ("" for statements that are not reads).
func c20AttrsExec(dir string, g c20AttrsGroup, seq []int, at int) (out []string, pErr string) {
	drv.ClearDir(dir)
	drv.WriteFiles(dir, g.files)
	env := drv.New(dir)
	defer env.Close()
	env.Tx.Flags.SetQuiet(true)
	for i, si := range seq {
		if i == at {
			penv := drv.New(dir)
			penv.Tx.AutoCommit = true
			penv.Tx.Flags.SetQuiet(true)
			r := penv.Exec(g.pSQL)
			penv.Close()
			if r.Err != nil || r.Panic != nil {
				pErr = fmt.Sprintf("%v %v", r.Err, r.Panic)
			}
		}
		stmt := g.alphabet[si]
		r := env.Exec(stmt + ";")
		switch {
		case r.Panic != nil:
			out = append(out, fmt.Sprintf("panic: %v", r.Panic))
		case r.Err != nil:
			out = append(out, "error: "+r.Err.Error())
		case strings.HasPrefix(stmt, "SELECT") && len(r.Views) > 0:
			v := r.Views[len(r.Views)-1]
			out = append(out, fmt.Sprintf("%q", drv.Header(v))+" "+drv.RowsKey(drv.Rows(v)))
		default:
			out = append(out, "")
		}
	}
	return
}

func c20AttrsOne(c *core.Ctx, dir string, k c20AttrsCase, b0, b1 []string) {
	g := c20AttrsGroups[k.Group]
	if b0 == nil {
		b0, _ = c20AttrsExec(dir, g, k.Seq, -1)
		b1, _ = c20AttrsExec(dir, g, k.Seq, 0)
	}
	a, pErr := c20AttrsExec(dir, g, k.Seq, k.At)
	stmts := make([]string, len(k.Seq))
	for i, si := range k.Seq {
		stmts[i] = g.alphabet[si]
	}
	if pErr != "" {
		c.Violate("import-attributes:another-process-cannot-update-a-table-that-was-only-read", fmt.Sprintf("T = %v; %q before statement %d fails: %s", stmts, g.pSQL, k.At, pErr), k)
		return
	}
	// which file version each statement's transaction has to see: 0 = loaded before the commit arrived, 1 = after,
	// -1 = both acceptable (the transaction tried to load the file before the commit, without success)
	loaded, tried := false, false
	nontrivial := false
	for i, si := range k.Seq {
		stmt := g.alphabet[si]
		if stmt == "COMMIT" || stmt == "ROLLBACK" {
			loaded, tried = false, false
			continue
		}
		if !strings.HasPrefix(stmt, "SELECT") {
			continue
		}
		isErr := strings.HasPrefix(a[i], "error") || strings.HasPrefix(a[i], "panic")
		if i < k.At {
			if isErr {
				tried = true
			} else {
				loaded = true
			}
			if a[i] != b0[i] {
				c.Incomplete(fmt.Sprintf("family import-attributes: T = %v: statement %d gives %s in one run and %s in another before anything differs (nondeterminism)", stmts, i, a[i], b0[i]))
				return
			}
			continue
		}
		var okv bool
		var want string
		switch {
		case loaded:
			okv, want = a[i] == b0[i], b0[i]
			nontrivial = true
		case tried:
			okv, want = a[i] == b0[i] || a[i] == b1[i], b0[i]+" or "+b1[i]
		default:
			okv, want = a[i] == b1[i], b1[i]
		}
		if !okv {
			what := "a transaction that has loaded the file shows another process's commit (or neither version) when the file is referred to with other attributes"
			sig := "import-attributes:a-loaded-file-is-read-again:" + g.name
			if !loaded {
				what = "a transaction that starts after the other process's commit does not show the current file"
				sig = "import-attributes:the-first-read-of-a-transaction-does-not-show-the-file:" + g.name
			}
			c.Violate(sig, fmt.Sprintf("%s\n  T = %v; another process commits %q before statement %d\n  statement %d %q returns %s\n  expected %s\n  all results: %v", what, stmts, g.pSQL, k.At, i, stmt, a[i], want, a), k)
			break
		}
	}
	c.Eval(fmt.Sprintf("import-attributes|%d|%v|%d", k.Group, k.Seq, k.At), nontrivial)
}

func c20AttrsRun(c *core.Ctx) {
	if !c20Only("import-attributes") {
		return
	}
	dir := core.Scratch("c20attrs")
	maxLen := 3
	if c.Thorough() {
		maxLen = 4
	}
	var idx int64
	for gi, g := range c20AttrsGroups {
		n := len(g.alphabet)
		for l := 2; l <= maxLen; l++ {
			total := 1
			for i := 0; i < l; i++ {
				total *= n
			}
			for code := 0; code < total; code++ {
				idx++
				if !c.Mine(idx) {
					continue
				}
				if c.Expired() {
					c.Incomplete("family import-attributes: time budget reached")
					return
				}
				seq := make([]int, l)
				x := code
				reads := 0
				for i := range seq {
					seq[i] = x % n
					x /= n
					if strings.HasPrefix(g.alphabet[seq[i]], "SELECT") {
						reads++
					}
				}
				if reads == 0 {
					continue
				}
				b0, _ := c20AttrsExec(dir, g, seq, -1)
				b1, _ := c20AttrsExec(dir, g, seq, 0)
				for at := 1; at < l; at++ {
					c20AttrsOne(c, dir, c20AttrsCase{"import-attributes", gi, seq, at}, b0, b1)
				}
			}
		}
	}
}

func c20AttrsReplay(c *core.Ctx, payload json.RawMessage) bool {
	var k c20AttrsCase
	if json.Unmarshal(payload, &k) != nil || k.Family != "import-attributes" {
		return false
	}
	fmt.Printf("replaying family import-attributes: %+v\n", k)
	c20AttrsOne(c, core.Scratch("c20attrs-replay"), k, nil, nil)
	return true
}
