// Package c01m is the reference model of property C01: what a csvq procedure
// over a fixed statement alphabet leaves in its repository directory, and what
// its SELECT probes show, according to how the procedure ended.
//
// It is written from the manual (docs/_posts/2006-01-02-transaction.md,
// -temporary-table.md, -control-flow.md, -insert/update/delete/replace/create-table/
// alter-table-query.md, -command.md "Return Code") and the property text; it shares no
// code with lib/query. Tables are lists of text cells (NULL and the empty text are one
// value for a CSV file, which has one spelling for both).
//
//	committed (Disk)  what the files hold as of the most recent COMMIT (or the start)
//	working   (Work)  what the procedure sees
//	temporary tables  current rows + the rows saved at declaration / the previous COMMIT
//
// COMMIT copies working to committed, ROLLBACK and every abnormal end discard working;
// a normal end commits. A commit that cannot spell a value in the file's format fails as a
// whole and is an abnormal end.
package c01m

import (
	"fmt"
	"sort"
	"strings"

	"verif/harness/internal/c02m"
)

type Cell struct {
	Null bool   `json:"null,omitempty"`
	S    string `json:"s,omitempty"`
}

func (c Cell) Text() string {
	if c.Null {
		return ""
	}
	return c.S
}

func S(s string) Cell { return Cell{S: s} }
func Nul() Cell       { return Cell{Null: true} }

type Table struct {
	Header []string `json:"header"`
	Rows   [][]Cell `json:"rows"`
}

func (t Table) Clone() Table {
	n := Table{Header: append([]string(nil), t.Header...)}
	for _, r := range t.Rows {
		n.Rows = append(n.Rows, append([]Cell(nil), r...))
	}
	return n
}

// Key: canonical text of a table, NULL and "" being one value.
func (t Table) Key() string {
	var sb strings.Builder
	sb.WriteString(strings.Join(t.Header, ","))
	for _, r := range t.Rows {
		sb.WriteByte('[')
		for i, c := range r {
			if i > 0 {
				sb.WriteByte('|')
			}
			sb.WriteString(c.Text())
		}
		sb.WriteByte(']')
	}
	return sb.String()
}

func (t Table) Equal(o Table) bool { return t.Key() == o.Key() }

func (t Table) col(name string) int {
	for i, h := range t.Header {
		if strings.EqualFold(h, name) {
			return i
		}
	}
	return -1
}

// ---- files --------------------------------------------------------------------------------------

type File struct {
	Tab    string // table name used in statements
	Name   string // file name
	Format string // CSV | LTSV
	// committed
	DiskExists bool
	Disk       Table
	Accept     []string // the byte strings the file may hold for the committed state
	// working
	WorkExists bool
	Work       Table
	Touched    bool // a data-changing statement addressed the table since the transaction started
	Changed    bool // ... and affected at least one record / the structure / created it
	Loaded     bool // the transaction has read the table
	// the original file does not end with a line break: a rewritten file may or may not
	FinalBreakOptional bool
	// the last commit addressed the table without changing what it holds: the property's wording has two
	// readings there (keep the bytes / rewrite in csvq's spelling) and both are in Accept
	TwoReadings bool
}

type Temp struct {
	Cur     Table
	Restore Table
	Dirty   bool
}

type Scope map[string]*Temp

type State struct {
	Files  map[string]*File
	Order  []string
	Scopes []Scope
}

// Initial contents. t1 is in csvq's own output form; t2 is deliberately not (needless quotes, no
// final line break), so that a rewrite of it is visible in its bytes; l is an LTSV file, a format that
// cannot spell a TAB inside a value.
const (
	T1Bytes = "a,b\n1,x\n2,y\n"
	T2Bytes = "\"a\",\"c\"\n\"1\",\"p\"\n3,q"
	LBytes  = "k:1\tv:x\nk:2\tv:y\n"
)

func InitialFiles() map[string]string {
	return map[string]string{"t1.csv": T1Bytes, "t2.csv": T2Bytes, "l.ltsv": LBytes, "k.csv": KBytes}
}

func tab(header []string, rows ...[]string) Table {
	t := Table{Header: header}
	for _, r := range rows {
		cs := make([]Cell, len(r))
		for i, s := range r {
			cs[i] = S(s)
		}
		t.Rows = append(t.Rows, cs)
	}
	return t
}

// LockTimeoutCode is the exit code of "lock wait timeout period exceeded" (ReturnCodeContextDone).
const LockTimeoutCode = 8

// StdinCSV is what the in-process seam gives the session as standard input.
const StdinCSV = "k,s\nk1,p\nk2,q\n"

// KBytes: a table another process holds locked while the procedure runs (terminator LK); never changed.
const KBytes = "k,v\n1,x\n"

func NewState() *State {
	st := &State{Files: map[string]*File{}, Order: []string{"t1", "t2", "n", "l", "m", "k"}, Scopes: []Scope{{}}}
	kt := tab([]string{"k", "v"}, []string{"1", "x"})
	// the standard-input table: an in-memory table of the outermost scope, like a temporary table
	sin := tab([]string{"k", "s"}, []string{"k1", "p"}, []string{"k2", "q"})
	st.Scopes[0]["STDIN"] = &Temp{Cur: sin, Restore: sin.Clone()}
	st.Files["k"] = &File{Tab: "k", Name: "k.csv", Format: "CSV", DiskExists: true, Disk: kt, Accept: []string{KBytes}, WorkExists: true, Work: kt.Clone()}
	t1 := tab([]string{"a", "b"}, []string{"1", "x"}, []string{"2", "y"})
	t2 := tab([]string{"a", "c"}, []string{"1", "p"}, []string{"3", "q"})
	l := tab([]string{"k", "v"}, []string{"1", "x"}, []string{"2", "y"})
	st.Files["t1"] = &File{Tab: "t1", Name: "t1.csv", Format: "CSV", DiskExists: true, Disk: t1, Accept: []string{T1Bytes}, WorkExists: true, Work: t1.Clone()}
	st.Files["t2"] = &File{Tab: "t2", Name: "t2.csv", Format: "CSV", DiskExists: true, Disk: t2, Accept: []string{T2Bytes}, WorkExists: true, Work: t2.Clone(), FinalBreakOptional: true}
	st.Files["n"] = &File{Tab: "n", Name: "n.csv", Format: "CSV"}
	st.Files["m"] = &File{Tab: "m", Name: "m.ltsv", Format: "LTSV"}
	st.Files["l"] = &File{Tab: "l", Name: "l.ltsv", Format: "LTSV", DiskExists: true, Disk: l, Accept: []string{LBytes}, WorkExists: true, Work: l.Clone()}
	return st
}

// Key identifies the reference state (used to deduplicate the breadth-first search).
func (st *State) Key() string {
	var sb strings.Builder
	for _, n := range st.Order {
		f := st.Files[n]
		fmt.Fprintf(&sb, "%s{d=%v:%s;a=%d:%s;w=%v:%s;%v%v%v}", n, f.DiskExists, f.Disk.Key(), len(f.Accept), strings.Join(f.Accept, "\x00"),
			f.WorkExists, f.Work.Key(), f.Touched, f.Changed, f.Loaded)
	}
	for i, sc := range st.Scopes {
		names := make([]string, 0, len(sc))
		for k := range sc {
			names = append(names, k)
		}
		sort.Strings(names)
		for _, k := range names {
			t := sc[k]
			fmt.Fprintf(&sb, "s%d.%s{%s;%s;%v}", i, k, t.Cur.Key(), t.Restore.Key(), t.Dirty)
		}
	}
	return sb.String()
}

// workKey: what the procedure sees (tables and temporary tables), without the bookkeeping.
func (st *State) workKey() string {
	var sb strings.Builder
	for _, n := range st.Order {
		f := st.Files[n]
		fmt.Fprintf(&sb, "%s=%v:%s;", n, f.WorkExists, f.Work.Key())
	}
	for i, sc := range st.Scopes {
		if t, ok := sc["v"]; ok {
			fmt.Fprintf(&sb, "s%d=%s;", i, t.Cur.Key())
		}
	}
	return sb.String()
}

// Render spells a table in the file's own dialect (the format reference of C02).
func Render(t Table, format string, finalBreak bool) (string, bool) {
	ct := c02m.Table{Header: append([]string(nil), t.Header...)}
	for _, r := range t.Rows {
		cr := make([]c02m.Cell, len(r))
		for i, c := range r {
			if c.Null {
				cr[i] = c02m.Null()
			} else {
				cr[i] = c02m.Str(c.S)
			}
		}
		ct.Rows = append(ct.Rows, cr)
	}
	if format == "LTSV" {
		for _, r := range t.Rows {
			for _, c := range r {
				if strings.ContainsAny(c.S, "\t\r\n") {
					return "", false
				}
			}
		}
	}
	b, ok := c02m.Render(ct, c02m.Dialect{Format: format, Enc: "UTF8", LB: "LF"}, finalBreak)
	return string(b), ok
}

func (f *File) canon() []string {
	s, _ := Render(f.Work, f.Format, true)
	out := []string{s}
	if f.FinalBreakOptional {
		s2, _ := Render(f.Work, f.Format, false)
		out = append(out, s2)
	}
	return out
}

func union(a, b []string) []string {
	out := append([]string(nil), a...)
	for _, s := range b {
		dup := false
		for _, x := range out {
			if x == s {
				dup = true
			}
		}
		if !dup {
			out = append(out, s)
		}
	}
	return out
}

// ---- programs -----------------------------------------------------------------------------------

// Node is one statement (Op names an entry of the alphabet or a terminator) or a block
// (Op "IF" / "WHILE" with Body).
type Node struct {
	Op     string   `json:"op"`
	Body   []*Node  `json:"body,omitempty"`
	Tables []string `json:"tables,omitempty"` // PA: the tables probed, fixed at the first execution
}

// Statement alphabet.
var Alphabet = []string{"I1", "U1", "D1", "R1", "U2", "U2z", "CN", "CNS", "IN", "A1", "DV", "IV", "UV", "CM", "RB", "PA", "P2", "XL"}

// Terminators (END = the statement list simply ends).
// LK: a data-changing statement on a table that another process holds locked for the whole run: the procedure
// ends by the lock-wait error.
// CF: a COMMIT that fails in its file phase: an external command run from the procedure removes the shadow files
// the new contents are written to, so the rename over the first changed table fails (real CLI only: the command
// works in the working directory). It ends the procedure only when an existing table file is dirty; otherwise
// the COMMIT succeeds and the procedure goes on.
var Terminators = []string{"END", "E1", "E2", "EX0", "EX1", "TE", "LK", "CF"}

var sqlOf = map[string]string{
	"I1":  "INSERT INTO t1 (a, b) VALUES (3, 'i');",
	"U1":  "UPDATE t1 SET b = 'u' WHERE a = 1;",
	"D1":  "DELETE FROM t1 WHERE a = 2;",
	"R1":  "REPLACE INTO t1 (a, b) USING (a) VALUES (2, 'r,s');",
	"U2":  "UPDATE t2 SET c = 'z' WHERE a = 3;",
	"U2z": "UPDATE t2 SET c = 'z' WHERE a = 99;",
	"CN":  "CREATE TABLE `n.csv` (c1, c2);",
	"CNS": "CREATE TABLE `n.csv` (c1, c2) AS SELECT a, b FROM t1;",
	"IN":  "INSERT INTO n VALUES (7, 'k');",
	"A1":  "ALTER TABLE t1 ADD c;",
	"DV":  "DECLARE v VIEW (k, w);",
	"IV":  "INSERT INTO v VALUES (1, 'a');",
	"UV":  "UPDATE v SET w = 'b';",
	"CM":  "COMMIT;",
	"RB":  "ROLLBACK;",
	"P2":  "SELECT * FROM t2;",
	"XL":  "UPDATE l SET v = 'a\\tb' WHERE k = 1;",
	"S2F": "SELECT * FROM t2 FOR UPDATE;",
	"D2z": "DELETE FROM t2 WHERE a = 99;",
	"AV":  "ALTER TABLE v ADD x;",
	"RV":  "ALTER TABLE v RENAME w TO ww;",
	"IS":  "INSERT INTO STDIN VALUES ('k9', 'i');",
	"DJ":  "DELETE t1, t2 FROM t1 LEFT JOIN t2 ON t1.a = t2.a WHERE t1.a = 2;",
	"US":  "UPDATE STDIN SET s = 'u' WHERE k = 'k1';",
	"CLX": "CREATE TABLE `m.ltsv` (k, v) AS SELECT 1, 'a\\tb';",
	// terminators
	"E1":  "UPDATE t1 SET b = 1/0;",
	"E2":  "SELECT nosuch FROM t2;",
	"EX0": "EXIT;",
	"EX1": "EXIT 1;",
	"TE":  "TRIGGER ERROR;",
	"LK":  "SET @@WAIT_TIMEOUT TO 0.05; UPDATE k SET v = 'z';",
	"CF":  "$ sh -c 'rm -f .*.temp'; COMMIT;",
	"END": "",
}

// SQL renders a program as csvq program text.
func SQL(prog []*Node) string {
	var sb strings.Builder
	var walk func(ns []*Node)
	walk = func(ns []*Node) {
		for _, n := range ns {
			switch n.Op {
			case "IF":
				sb.WriteString("IF TRUE THEN ")
				walk(n.Body)
				sb.WriteString("END IF; ")
			case "WHILE":
				sb.WriteString("VAR @i := 0; WHILE @i < 2 DO ")
				walk(n.Body)
				sb.WriteString("@i := @i + 1; END WHILE; ")
			case "PA":
				ts := n.Tables
				if ts == nil {
					ts = []string{"t1", "t2"}
				}
				for _, t := range ts {
					sb.WriteString("SELECT * FROM " + t + "; ")
				}
			case "END":
			default:
				s, ok := sqlOf[n.Op]
				if !ok {
					panic("c01m: unknown op " + n.Op)
				}
				sb.WriteString(s + " ")
			}
		}
	}
	walk(prog)
	return strings.TrimSpace(sb.String())
}

// ---- execution ----------------------------------------------------------------------------------

type Probe struct {
	Table string `json:"table"`
	T     Table  `json:"t"`
}

type Outcome struct {
	End       string  // normal | error | exit | commit-error
	Cause     string  // the op that ended the procedure ("" = ran off the end)
	Natural   bool    // the ending error is a consequence of the state (e.g. INSERT INTO a table that does not exist), not a terminator
	ExitCodes []int   // the exit codes the manual allows
	Probes    []Probe // SELECT results in execution order
	Executed  int     // statements executed (transitions of the model)
	Changes   int     // executed statements that changed a table or a temporary table
	Unjudged  bool    // the procedure reached a point whose outcome the reference does not define (CF with a created table dirty)
	// after the end
	TopTemps map[string]Table // temporary tables of the outermost scope as they must be after the end
}

type stop struct {
	kind  string
	cause string
	nat   bool
	codes []int
}

type runner struct {
	st  *State
	out *Outcome
}

// Run executes prog on st (which is modified: afterwards st.Files[..].Disk*/Accept describe the
// directory the procedure must leave).
func Run(st *State, prog []*Node) *Outcome {
	r := &runner{st: st, out: &Outcome{}}
	s := r.block(prog)
	if s == nil {
		// normal end: automatic commit
		if cause, ok := st.commit(); !ok {
			s = &stop{kind: "commit-error", cause: cause, codes: []int{1, 16}}
		}
	}
	if s == nil {
		r.out.End = "normal"
		r.out.ExitCodes = []int{0}
	} else {
		r.out.End, r.out.Cause, r.out.Natural, r.out.ExitCodes = s.kind, s.cause, s.nat, s.codes
		// only the outermost scope survives for the observation after the end
		st.Scopes = st.Scopes[:1]
		st.rollback()
	}
	r.out.TopTemps = map[string]Table{}
	for k, t := range st.Scopes[0] {
		r.out.TopTemps[k] = t.Cur.Clone()
	}
	return r.out
}

// Step executes one more top-level statement on a state (used by the breadth-first search to
// compute successor states without the implicit end).
func Step(st *State, n *Node) (ended bool) {
	r := &runner{st: st, out: &Outcome{}}
	return r.block([]*Node{n}) != nil
}

func (st *State) commit() (cause string, ok bool) {
	for _, n := range st.Order {
		f := st.Files[n]
		if f.Changed && f.WorkExists {
			if _, ok := Render(f.Work, f.Format, true); !ok {
				return n, false
			}
		}
	}
	for _, n := range st.Order {
		f := st.Files[n]
		if !f.Touched {
			f.Loaded = false
			continue
		}
		switch {
		case !f.DiskExists:
			f.Accept, f.TwoReadings = f.canon(), false
		case f.Changed && !f.Work.Equal(f.Disk):
			f.Accept, f.TwoReadings = f.canon(), false
		case !f.Changed:
			// addressed only by statements that affected no record: the transaction never changed the file,
			// which must stay byte-identical ("Files the transaction never changed stay byte-identical")
			f.TwoReadings = false
		default:
			f.TwoReadings = true
			// changed and changed back: both the old bytes and a rewrite hold the state
			f.Accept = union(f.Accept, f.canon())
		}
		f.DiskExists, f.Disk = f.WorkExists, f.Work.Clone()
		f.Touched, f.Changed, f.Loaded = false, false, false
	}
	for _, sc := range st.Scopes {
		for _, t := range sc {
			if t.Dirty {
				t.Restore = t.Cur.Clone()
				t.Dirty = false
			}
		}
	}
	return "", true
}

func (st *State) rollback() {
	for _, n := range st.Order {
		f := st.Files[n]
		f.WorkExists, f.Work = f.DiskExists, f.Disk.Clone()
		f.Touched, f.Changed, f.Loaded = false, false, false
	}
	for _, sc := range st.Scopes {
		for _, t := range sc {
			if t.Dirty {
				t.Cur = t.Restore.Clone()
				t.Dirty = false
			}
		}
	}
}

func (st *State) temp(name string) *Temp {
	for i := len(st.Scopes) - 1; i >= 0; i-- {
		if t, ok := st.Scopes[i][name]; ok {
			return t
		}
	}
	return nil
}

func (r *runner) block(ns []*Node) *stop {
	for _, n := range ns {
		if s := r.stmt(n); s != nil {
			return s
		}
	}
	return nil
}

func natural(op string, codes ...int) *stop {
	return &stop{kind: "error", cause: op, nat: true, codes: codes}
}

func (r *runner) stmt(n *Node) *stop {
	st := r.st
	switch n.Op {
	case "IF":
		st.Scopes = append(st.Scopes, Scope{})
		s := r.block(n.Body)
		if s == nil {
			st.Scopes = st.Scopes[:len(st.Scopes)-1]
		}
		return s
	case "WHILE":
		r.out.Executed++ // VAR @i
		for i := 0; i < 2; i++ {
			st.Scopes = append(st.Scopes, Scope{})
			if s := r.block(n.Body); s != nil {
				return s
			}
			r.out.Executed++ // @i := @i + 1
			st.Scopes = st.Scopes[:len(st.Scopes)-1]
		}
		return nil
	case "END":
		return nil
	}
	r.out.Executed++
	before := st.workKey()
	defer func() {
		if st.workKey() != before {
			r.out.Changes++
		}
	}()
	t1, t2, nf, l := st.Files["t1"], st.Files["t2"], st.Files["n"], st.Files["l"]
	switch n.Op {
	case "I1":
		row := make([]Cell, len(t1.Work.Header))
		for i := range row {
			row[i] = Nul()
		}
		row[t1.Work.col("a")] = S("3")
		row[t1.Work.col("b")] = S("i")
		t1.Work.Rows = append(t1.Work.Rows, row)
		t1.Touched, t1.Changed, t1.Loaded = true, true, true
	case "U1":
		update(t1, "a", "1", "b", "u")
	case "D1":
		del(t1, "a", "2")
	case "DJ":
		// two target tables: t1 loses the record a = 2 (if it is there), t2 holds no record joined to it and loses none
		del(t1, "a", "2")
		del(t2, "a", "2")
	case "R1":
		a, b := t1.Work.col("a"), t1.Work.col("b")
		found := false
		for _, row := range t1.Work.Rows {
			if row[a].Text() == "2" {
				row[b] = S("r,s")
				found = true
			}
		}
		if !found {
			row := make([]Cell, len(t1.Work.Header))
			for i := range row {
				row[i] = Nul()
			}
			row[a], row[b] = S("2"), S("r,s")
			t1.Work.Rows = append(t1.Work.Rows, row)
		}
		t1.Touched, t1.Changed, t1.Loaded = true, true, true
	case "U2":
		update(t2, "a", "3", "c", "z")
	case "U2z":
		update(t2, "a", "99", "c", "z")
	case "D2z":
		del(t2, "a", "99")
	case "P2":
		t2.Loaded = true
		r.out.Probes = append(r.out.Probes, Probe{"t2", t2.Work.Clone()})
	case "S2F":
		t2.Loaded = true
		r.out.Probes = append(r.out.Probes, Probe{"t2", t2.Work.Clone()})
	case "CN", "CNS":
		if nf.WorkExists {
			return natural(n.Op, 1, 16)
		}
		nf.WorkExists = true
		nf.Work = Table{Header: []string{"c1", "c2"}}
		if n.Op == "CNS" {
			a, b := t1.Work.col("a"), t1.Work.col("b")
			for _, row := range t1.Work.Rows {
				nf.Work.Rows = append(nf.Work.Rows, []Cell{row[a], row[b]})
			}
			t1.Loaded = true
		}
		nf.Touched, nf.Changed, nf.Loaded = true, true, true
	case "IN":
		if !nf.WorkExists {
			return natural(n.Op, 1, 16)
		}
		nf.Work.Rows = append(nf.Work.Rows, []Cell{S("7"), S("k")})
		nf.Touched, nf.Changed, nf.Loaded = true, true, true
	case "A1":
		if t1.Work.col("c") >= 0 {
			return natural(n.Op, 1)
		}
		t1.Work.Header = append(t1.Work.Header, "c")
		for i := range t1.Work.Rows {
			t1.Work.Rows[i] = append(t1.Work.Rows[i], Nul())
		}
		t1.Touched, t1.Changed, t1.Loaded = true, true, true
	case "DV":
		// the manual does not say whether a block may declare a name an enclosing block holds;
		// csvq refuses ("view v is redeclared") and the model follows it
		if st.temp("v") != nil {
			return natural(n.Op, 1)
		}
		empty := Table{Header: []string{"k", "w"}}
		st.Scopes[len(st.Scopes)-1]["v"] = &Temp{Cur: empty, Restore: empty.Clone()}
	case "IV":
		v := st.temp("v")
		if v == nil {
			return natural(n.Op, 1, 16)
		}
		row := make([]Cell, len(v.Cur.Header))
		for i := range row {
			row[i] = Nul()
		}
		if len(row) != 2 {
			return natural(n.Op, 1) // INSERT without a column list into a table of another width
		}
		row[0], row[1] = S("1"), S("a")
		v.Cur.Rows = append(v.Cur.Rows, row)
		v.Dirty = true
	case "UV":
		v := st.temp("v")
		if v == nil {
			return natural(n.Op, 1, 16)
		}
		w := v.Cur.col("w")
		if w < 0 {
			// the column was renamed; csvq resolves the SET field per record, so an empty table raises nothing
			if len(v.Cur.Rows) == 0 {
				break
			}
			return natural(n.Op, 1)
		}
		for _, row := range v.Cur.Rows {
			row[w] = S("b")
			v.Dirty = true
		}
	case "AV":
		v := st.temp("v")
		if v == nil {
			return natural(n.Op, 1, 16)
		}
		if v.Cur.col("x") >= 0 {
			return natural(n.Op, 1)
		}
		v.Cur.Header = append(v.Cur.Header, "x")
		for i := range v.Cur.Rows {
			v.Cur.Rows[i] = append(v.Cur.Rows[i], Nul())
		}
		v.Dirty = true
	case "IS":
		v := st.temp("STDIN")
		v.Cur.Rows = append(v.Cur.Rows, []Cell{S("k9"), S("i")})
		v.Dirty = true
	case "US":
		v := st.temp("STDIN")
		for _, row := range v.Cur.Rows {
			if row[0].Text() == "k1" {
				row[1] = S("u")
				v.Dirty = true
			}
		}
	case "RV":
		// the number of columns stays the same: only the header distinguishes the two states
		v := st.temp("v")
		if v == nil {
			return natural(n.Op, 1, 16)
		}
		w := v.Cur.col("w")
		if w < 0 {
			return natural(n.Op, 1)
		}
		v.Cur.Header = append([]string(nil), v.Cur.Header...)
		v.Cur.Header[w] = "ww"
		v.Dirty = true
	case "CM":
		if cause, ok := st.commit(); !ok {
			return &stop{kind: "commit-error", cause: cause, codes: []int{1, 16}}
		}
	case "RB":
		st.rollback()
	case "PA":
		if n.Tables == nil {
			n.Tables = []string{"t1", "t2"}
			if nf.WorkExists {
				n.Tables = append(n.Tables, "n")
			}
			if st.temp("v") != nil {
				n.Tables = append(n.Tables, "v")
			}
		}
		for i, name := range n.Tables {
			if i > 0 {
				r.out.Executed++
			}
			if name == "v" {
				v := st.temp("v")
				if v == nil {
					return natural(n.Op, 1, 16)
				}
				r.out.Probes = append(r.out.Probes, Probe{"v", v.Cur.Clone()})
				continue
			}
			f := st.Files[name]
			if !f.WorkExists {
				return natural(n.Op, 1, 16)
			}
			f.Loaded = true
			r.out.Probes = append(r.out.Probes, Probe{name, f.Work.Clone()})
		}
	case "XL":
		update(l, "k", "1", "v", "a\tb")
	case "CLX":
		// a new LTSV table holding a value LTSV cannot spell: it exists for the procedure, and no commit can write it
		m := st.Files["m"]
		if m.WorkExists {
			return natural(n.Op, 1, 16)
		}
		m.WorkExists = true
		m.Work = Table{Header: []string{"k", "v"}, Rows: [][]Cell{{S("1"), S("a\tb")}}}
		m.Touched, m.Changed, m.Loaded = true, true, true
	case "E1":
		// fails while evaluating the new value of the first record: no table is changed
		return &stop{kind: "error", cause: "E1", codes: []int{1}}
	case "E2":
		return &stop{kind: "error", cause: "E2", codes: []int{1}}
	case "EX0":
		return &stop{kind: "exit", cause: "EX0", codes: []int{0}}
	case "EX1":
		return &stop{kind: "exit", cause: "EX1", codes: []int{1}}
	case "TE":
		return &stop{kind: "error", cause: "TE", codes: []int{64}}
	case "LK":
		return &stop{kind: "error", cause: "LK", codes: []int{LockTimeoutCode}}
	case "CF":
		r.out.Executed++ // the external command
		dirtyOld, dirtyNew, unspellable := false, false, false
		for _, n := range st.Order {
			f := st.Files[n]
			if f.Changed && f.WorkExists {
				if f.DiskExists {
					dirtyOld = true
				} else {
					dirtyNew = true
				}
				if _, ok := Render(f.Work, f.Format, true); !ok {
					unspellable = true
				}
			}
		}
		if !dirtyOld {
			// no shadow file is renamed: an ordinary COMMIT
			if cause, ok := st.commit(); !ok {
				return &stop{kind: "commit-error", cause: cause, codes: []int{1, 16}}
			}
			return nil
		}
		if dirtyNew {
			// csvq commits file by file: the created table is complete before the first rename fails. What the
			// directory must hold then is not what this family judges.
			r.out.Unjudged = true
		}
		if unspellable {
			return &stop{kind: "commit-error", cause: "CF", codes: []int{1, 16}}
		}
		return &stop{kind: "commit-error", cause: "CF", codes: []int{16}}
	default:
		panic("c01m: unknown op " + n.Op)
	}
	return nil
}

func update(f *File, keyCol, key, setCol, val string) {
	k, s := f.Work.col(keyCol), f.Work.col(setCol)
	f.Touched, f.Loaded = true, true
	for _, row := range f.Work.Rows {
		if row[k].Text() == key {
			row[s] = S(val)
			f.Changed = true
		}
	}
}

func del(f *File, keyCol, key string) {
	k := f.Work.col(keyCol)
	f.Touched, f.Loaded = true, true
	var keep [][]Cell
	for _, row := range f.Work.Rows {
		if row[k].Text() == key {
			f.Changed = true
			continue
		}
		keep = append(keep, row)
	}
	f.Work.Rows = keep
}

// Directory the procedure must leave: file name -> acceptable contents.
func (st *State) Directory() map[string][]string {
	m := map[string][]string{}
	for _, n := range st.Order {
		f := st.Files[n]
		if f.DiskExists {
			m[f.Name] = f.Accept
		}
	}
	return m
}

// Clone copies a state (for the search).
func (st *State) Clone() *State {
	n := &State{Files: map[string]*File{}, Order: st.Order}
	for k, f := range st.Files {
		c := *f
		c.Disk, c.Work = f.Disk.Clone(), f.Work.Clone()
		c.Accept = append([]string(nil), f.Accept...)
		n.Files[k] = &c
	}
	for _, sc := range st.Scopes {
		ns := Scope{}
		for k, t := range sc {
			ns[k] = &Temp{Cur: t.Cur.Clone(), Restore: t.Restore.Clone(), Dirty: t.Dirty}
		}
		n.Scopes = append(n.Scopes, ns)
	}
	return n
}
