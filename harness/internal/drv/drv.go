// Package drv drives the real csvq (lib/query) in process: one Env is one csvq
// process image (Session + Transaction + Processor) working on a private
// repository directory.
package drv

import (
	"context"
	"fmt"
	"os"
	"path/filepath"
	"sort"
	"strings"
	"time"

	"github.com/mithrandie/csvq/lib/parser"
	"github.com/mithrandie/csvq/lib/query"
	"github.com/mithrandie/csvq/lib/value"

	"verif/harness/internal/rv"
)

func init() {
	os.Setenv("TZ", "UTC")
	time.Local = time.UTC
}

type Env struct {
	Dir  string
	Sess *query.Session
	Tx   *query.Transaction
	Proc *query.Processor
	Out  *query.Output
	Ctx  context.Context
	Cancel context.CancelFunc
}

// New creates a csvq process image whose repository is dir; result tables are kept as
// objects only (stdout discarded, which also skips csvq's text encoding of results).
func New(dir string) *Env { return newEnv(dir, false) }

// NewText is New with stdout/stderr captured in Env.Out.
func NewText(dir string) *Env { return newEnv(dir, true) }

func newEnv(dir string, text bool) *Env {
	sess := query.NewSession()
	out := query.NewOutput()
	if text {
		sess.SetStdout(out)
		sess.SetStderr(out)
	} else {
		sess.SetStdout(query.NewDiscard())
		sess.SetStderr(query.NewDiscard())
	}
	ctx, cancel := context.WithCancel(context.Background())
	tx, err := query.NewTransaction(ctx, 120*time.Second, 5*time.Millisecond, sess)
	if err != nil {
		panic(err)
	}
	tx.Flags.Repository = dir
	tx.Flags.SetQuiet(false)
	tx.UpdateWaitTimeout(120, 5*time.Millisecond) // generous: a short lock wait would turn machine load into spurious time-out errors
	proc := query.NewProcessor(tx)
	return &Env{Dir: dir, Sess: sess, Tx: tx, Proc: proc, Out: out, Ctx: ctx, Cancel: cancel}
}

type Result struct {
	Views []*query.View
	Out   string
	Flow  query.StatementFlow
	Err   error
	Panic any
	Affected int
}

// Exec parses and executes program text the way `csvq "<text>"` does except that no
// auto-commit happens unless e.Tx.AutoCommit was set. Panics are captured.
func (e *Env) Exec(sql string) (r Result) {
	e.Out.Reset()
	defer func() {
		if p := recover(); p != nil {
			r.Panic = p
		}
		r.Out = e.Out.String()
	}()
	stmts, _, err := parser.Parse(sql, "", false, e.Tx.Flags.AnsiQuotes)
	if err != nil {
		r.Err = query.NewSyntaxError(err.(*parser.SyntaxError))
		return
	}
	r.Flow, r.Err = e.Proc.Execute(query.ContextForStoringResults(e.Ctx), stmts)
	r.Views = e.Tx.SelectedViews
	r.Affected = e.Tx.AffectedRows
	return
}

// Close ends the process image the way the CLI's deferred handler does.
func (e *Env) Close() {
	defer func() { recover() }()
	_ = e.Proc.AutoRollback()
	_ = e.Proc.ReleaseResourcesWithErrors()
	e.Cancel()
}

// IsFatal tells whether err is csvq's internal "Fatal Error" (a recovered panic).
func IsFatal(err error) bool {
	if err == nil {
		return false
	}
	if _, ok := err.(*query.FatalError); ok {
		return true
	}
	return strings.Contains(err.Error(), "Fatal Error")
}

func ErrCode(err error) int {
	if err == nil {
		return 0
	}
	if qe, ok := err.(query.Error); ok {
		return qe.Code()
	}
	return -1
}

// Rows converts a view to reference values.
func Rows(v *query.View) [][]rv.V {
	out := make([][]rv.V, 0, v.RecordLen())
	for _, rec := range v.RecordSet {
		row := make([]rv.V, len(rec))
		for i := range rec {
			row[i] = rv.FromPrimary(rec[i][0])
		}
		out = append(out, row)
	}
	return out
}

func Header(v *query.View) []string {
	h := make([]string, len(v.Header))
	for i := range v.Header {
		h[i] = v.Header[i].Column
	}
	return h
}

func RowsKey(rows [][]rv.V) string {
	var sb strings.Builder
	for _, r := range rows {
		sb.WriteByte('[')
		for i, c := range r {
			if i > 0 {
				sb.WriteByte('|')
			}
			sb.WriteString(c.Key())
		}
		sb.WriteString("]")
	}
	return sb.String()
}

// SetVar declares or assigns a variable directly with a csvq object.
func (e *Env) SetVar(name string, p value.Primary) {
	v := parser.Variable{Name: name}
	if _, err := e.Proc.ReferenceScope.SubstituteVariableDirectly(v, p); err != nil {
		if err := e.Proc.ReferenceScope.DeclareVariableDirectly(v, p); err != nil {
			panic(err)
		}
	}
}

// Snapshot of a directory: name -> content.
func DirSnapshot(dir string) map[string]string {
	m := map[string]string{}
	var walk func(rel string)
	walk = func(rel string) {
		ents, _ := os.ReadDir(filepath.Join(dir, rel))
		for _, en := range ents {
			name := filepath.Join(rel, en.Name())
			if en.IsDir() {
				m[name+"/"] = ""
				walk(name) // files of a sub-directory appear as "sub/name"
				continue
			}
			b, _ := os.ReadFile(filepath.Join(dir, name))
			m[name] = string(b)
		}
	}
	walk("")
	return m
}

func SnapshotKey(m map[string]string) string {
	ks := make([]string, 0, len(m))
	for k := range m {
		ks = append(ks, k)
	}
	sort.Strings(ks)
	var sb strings.Builder
	for _, k := range ks {
		fmt.Fprintf(&sb, "%s=%q;", k, m[k])
	}
	return sb.String()
}

func WriteFiles(dir string, files map[string]string) {
	for n, c := range files {
		if strings.Contains(n, "/") {
			os.MkdirAll(filepath.Dir(filepath.Join(dir, n)), 0755)
		}
		if err := os.WriteFile(filepath.Join(dir, n), []byte(c), 0644); err != nil {
			panic(err)
		}
	}
}

func ClearDir(dir string) {
	ents, _ := os.ReadDir(dir)
	for _, en := range ents {
		os.RemoveAll(filepath.Join(dir, en.Name()))
	}
}

// ClearFile removes one file (helper for recovery steps).
func ClearFile(path string) { os.Remove(path) }
