//go:build linux && amd64

// Package ptx is a small ptrace(2) driver: it runs a command, counts — process-wide, over all its
// threads — the system calls that touch files under a given directory, and can kill the whole process
// immediately BEFORE the k-th of them is executed (a crash point at system-call granularity).
package ptx

import (
	"bytes"
	"fmt"
	"os"
	"os/exec"
	"runtime"
	"strings"
	"syscall"
)

type Call struct {
	K    int
	Name string
	Path string
}

func (c Call) String() string { return c.Name + "(" + c.Path + ")" }

type Result struct {
	Calls    []Call // the matching calls in order (up to and including the one killed at)
	Killed   bool
	Exit     int
	Stderr   string
	Err      error
}

var names = map[uint64]string{
	1: "write", 3: "close", 18: "pwrite64", 20: "writev", 73: "flock", 74: "fsync", 75: "fdatasync", 76: "truncate", 77: "ftruncate",
	82: "rename", 83: "mkdir", 84: "rmdir", 85: "creat", 86: "link", 87: "unlink", 88: "symlink", 90: "chmod", 91: "fchmod",
	257: "openat", 2: "open", 258: "mkdirat", 263: "unlinkat", 264: "renameat", 265: "linkat", 266: "symlinkat", 268: "fchmodat", 316: "renameat2",
	285: "fallocate", 40: "sendfile", 326: "copy_file_range",
}

// path argument index (in the syscall's argument list) or -1 when the first argument is a file descriptor
var pathArg = map[uint64]int{
	1: -1, 3: -1, 18: -1, 20: -1, 73: -1, 74: -1, 75: -1, 77: -1, 91: -1, 285: -1, 40: -1, 326: -1,
	76: 0, 82: 0, 83: 0, 84: 0, 85: 0, 86: 0, 87: 0, 88: 1, 90: 0, 2: 0,
	257: 1, 258: 1, 263: 1, 264: 1, 265: 1, 266: 2, 268: 1, 316: 1,
}

func arg(regs *syscall.PtraceRegs, i int) uint64 {
	switch i {
	case 0:
		return regs.Rdi
	case 1:
		return regs.Rsi
	case 2:
		return regs.Rdx
	case 3:
		return regs.R10
	}
	return 0
}

func readString(pid int, addr uint64) string {
	var out []byte
	buf := make([]byte, 64)
	for len(out) < 4096 {
		n, err := syscall.PtracePeekData(pid, uintptr(addr)+uintptr(len(out)), buf)
		if err != nil || n == 0 {
			break
		}
		if i := bytes.IndexByte(buf[:n], 0); i >= 0 {
			out = append(out, buf[:i]...)
			break
		}
		out = append(out, buf[:n]...)
	}
	return string(out)
}

// Run executes cmd under ptrace. Only calls whose path (or descriptor target) lies under dir are
// counted. killAt > 0: kill everything right before the killAt-th counted call is executed.
func Run(cmd *exec.Cmd, dir string, killAt int) (res Result) {
	runtime.LockOSThread()
	defer runtime.UnlockOSThread()
	var se bytes.Buffer
	cmd.Stderr = &se
	cmd.SysProcAttr = &syscall.SysProcAttr{Ptrace: true}
	if err := cmd.Start(); err != nil {
		res.Err = err
		return
	}
	pid := cmd.Process.Pid
	var ws syscall.WaitStatus
	if _, err := syscall.Wait4(pid, &ws, 0, nil); err != nil {
		res.Err = err
		return
	}
	opts := syscall.PTRACE_O_TRACESYSGOOD | syscall.PTRACE_O_TRACECLONE | syscall.PTRACE_O_TRACEFORK | syscall.PTRACE_O_TRACEVFORK | 0x100000 /* EXITKILL */
	if err := syscall.PtraceSetOptions(pid, opts); err != nil {
		res.Err = err
		cmd.Process.Kill()
		return
	}
	inSyscall := map[int]bool{}
	if err := syscall.PtraceSyscall(pid, 0); err != nil {
		res.Err = err
		return
	}
	count := 0
	for {
		wpid, err := syscall.Wait4(-1, &ws, syscall.WALL, nil)
		if err != nil {
			if err == syscall.EINTR {
				continue
			}
			if err == syscall.ECHILD {
				break
			}
			res.Err = err
			break
		}
		if ws.Exited() || ws.Signaled() {
			if wpid == pid {
				if ws.Exited() {
					res.Exit = ws.ExitStatus()
				} else {
					res.Exit = -1
				}
				break
			}
			continue
		}
		if !ws.Stopped() {
			continue
		}
		sig := ws.StopSignal()
		deliver := 0
		switch {
		case sig == syscall.SIGTRAP|0x80: // syscall stop
			inSyscall[wpid] = !inSyscall[wpid]
			if inSyscall[wpid] {
				var regs syscall.PtraceRegs
				if err := syscall.PtraceGetRegs(wpid, &regs); err == nil {
					nr := regs.Orig_rax
					if name, ok := names[nr]; ok {
						var path string
						if pi := pathArg[nr]; pi >= 0 {
							path = readString(wpid, arg(&regs, pi))
							if !strings.HasPrefix(path, "/") {
								path = dir + "/" + path // csvq runs with cwd = dir
							}
						} else {
							path, _ = os.Readlink(fmt.Sprintf("/proc/%d/fd/%d", wpid, int32(regs.Rdi)))
						}
						if strings.HasPrefix(path, dir+"/") || path == dir {
							count++
							res.Calls = append(res.Calls, Call{K: count, Name: name, Path: strings.TrimPrefix(path, dir+"/")})
							if count == killAt {
								syscall.Kill(pid, syscall.SIGKILL)
								res.Killed = true
								// reap everything
								for {
									p, err := syscall.Wait4(-1, &ws, syscall.WALL, nil)
									if err == syscall.ECHILD || (err == nil && p == pid && (ws.Exited() || ws.Signaled())) {
										break
									}
									if err != nil && err != syscall.EINTR {
										break
									}
								}
								cmd.Process.Release()
								res.Exit = -1
								res.Stderr = se.String()
								return
							}
						}
					}
				}
			}
		case sig == syscall.SIGTRAP:
			// ptrace event stop (clone etc.) — nothing to deliver
		case sig == syscall.SIGSTOP && !inSyscallKnown(inSyscall, wpid):
			// initial stop of a new thread
			inSyscall[wpid] = false
		default:
			deliver = int(sig)
		}
		if err := syscall.PtraceSyscall(wpid, deliver); err != nil && err != syscall.ESRCH {
			res.Err = err
		}
	}
	cmd.Process.Release()
	res.Stderr = se.String()
	return
}

func inSyscallKnown(m map[int]bool, pid int) bool { _, ok := m[pid]; return ok }
