// Package core is the shared runner of all checks: it shards a check's
// enumeration over worker subprocesses, merges what they covered, matches
// violations against the committed known-findings file, writes the evidence
// and replay files and decides the exit code.
package core

import (
	"crypto/sha256"
	"encoding/hex"
	"encoding/json"
	"fmt"
	"hash/fnv"
	"os"
	"os/exec"
	"path/filepath"
	"runtime/pprof"
	"sort"
	"strconv"
	"strings"
	"sync"
	"syscall"
	"time"
)

// VerifDir is the directory the machinery lives in (known_findings.jsonl, evidence/, replays/): the `check`
// script exports its own location, so a copy of /verif elsewhere reads and writes inside the copy.
var VerifDir = func() string {
	if d := os.Getenv("VERIF_DIR"); d != "" {
		return d
	}
	return "/verif"
}()

type Check struct {
	ID                          string
	Level                       string // evidence level
	Rule                        string // how cases are enumerated / what is non-trivial
	Assume                      []string
	Workers                     int  // 0 = 16
	Serial                      bool // run in the parent process only (no sharding)
	WorkerProcs                 int  // GOMAXPROCS of each worker (0 = 2)
	Run                         func(c *Ctx)
	Replay                      func(c *Ctx, payload json.RawMessage) // re-executes one recorded case
	QuickBudget, ThoroughBudget time.Duration
}

var registry = map[string]*Check{}

func Register(c *Check) { registry[c.ID] = c }

// Extend adds another enumeration family to an already registered check (run after its own Run, in every worker).
func Extend(id string, rule string, run func(c *Ctx)) {
	chk := registry[id]
	if chk == nil {
		panic("core.Extend: unknown check " + id)
	}
	prev := chk.Run
	chk.Rule += "; " + rule
	chk.Run = func(c *Ctx) {
		prev(c)
		run(c)
	}
}

type Violation struct {
	Sig    string          `json:"sig"`
	Msg    string          `json:"msg"`
	Replay json.RawMessage `json:"replay,omitempty"`
	Count  int64           `json:"count"`
}

type Partial struct {
	Evaluations int64                 `json:"evaluations"`
	Nontrivial  int64                 `json:"nontrivial"`
	Counters    map[string]int64      `json:"counters"`
	Sets        map[string][]string   `json:"sets"`
	Samples     []json.RawMessage     `json:"samples"`
	Violations  map[string]*Violation `json:"violations"`
	Incomplete  []string              `json:"incomplete"`
	Info        map[string]any        `json:"info"`
}

type Ctx struct {
	ID       string
	Tier     string
	Seed     int64
	Shard, N int
	Deadline time.Time
	IsReplay bool

	mu      sync.Mutex
	p       Partial
	seen    map[uint64]struct{}
	expired bool
}

func newCtx(id, tier string, seed int64, shard, n int, budget time.Duration) *Ctx {
	return &Ctx{ID: id, Tier: tier, Seed: seed, Shard: shard, N: n, Deadline: time.Now().Add(budget),
		seen: map[uint64]struct{}{},
		p:    Partial{Counters: map[string]int64{}, Sets: map[string][]string{}, Violations: map[string]*Violation{}, Info: map[string]any{}}}
}

func (c *Ctx) Thorough() bool { return c.Tier == "thorough" }

// Mine reports whether case number i belongs to this shard.
func (c *Ctx) Mine(i int64) bool { return c.N <= 1 || int((i+c.Seed)%int64(c.N)) == c.Shard }

func h64(s string) uint64 { h := fnv.New64a(); h.Write([]byte(s)); return h.Sum64() }

// MineKey shards by a hash of the case key.
func (c *Ctx) MineKey(k string) bool {
	return c.N <= 1 || int((h64(k)+uint64(c.Seed))%uint64(c.N)) == c.Shard
}

// Eval counts one explored case; key identifies it, nontrivial per the check's rule.
func (c *Ctx) Eval(key string, nontrivial bool) {
	c.mu.Lock()
	c.p.Evaluations++
	if nontrivial {
		k := h64(key)
		if _, ok := c.seen[k]; !ok {
			c.seen[k] = struct{}{}
			c.p.Nontrivial++
		}
	}
	c.mu.Unlock()
}

// EvalN counts n cases all distinct and non-trivial (used where keys are enumerated without repetition).
func (c *Ctx) EvalN(n, nontrivial int64) {
	c.mu.Lock()
	c.p.Evaluations += n
	c.p.Nontrivial += nontrivial
	c.mu.Unlock()
}

func (c *Ctx) Add(name string, n int64) { c.mu.Lock(); c.p.Counters[name] += n; c.mu.Unlock() }

// Max keeps the maximum over shards of a counter (merged with max when name has prefix "max_").
func (c *Ctx) Max(name string, n int64) {
	c.mu.Lock()
	if c.p.Counters[name] < n {
		c.p.Counters[name] = n
	}
	c.mu.Unlock()
}

// Observe adds a member to a named small set (e.g. distinct outcomes); merged by union.
func (c *Ctx) Observe(set, member string) {
	c.mu.Lock()
	l := c.p.Sets[set]
	for _, m := range l {
		if m == member {
			c.mu.Unlock()
			return
		}
	}
	if len(l) < 2000 {
		c.p.Sets[set] = append(l, member)
	}
	c.mu.Unlock()
}

func (c *Ctx) Info(k string, v any) { c.mu.Lock(); c.p.Info[k] = v; c.mu.Unlock() }

func (c *Ctx) Sample(v any) {
	c.mu.Lock()
	defer c.mu.Unlock()
	if len(c.p.Samples) >= 4 {
		return
	}
	b, err := json.Marshal(v)
	if err == nil {
		c.p.Samples = append(c.p.Samples, b)
	}
}

// SampleEvery samples sparsely: the first case and then every k-th call site decides itself.
func (c *Ctx) WantSample() bool { c.mu.Lock(); defer c.mu.Unlock(); return len(c.p.Samples) < 4 }

func (c *Ctx) Violate(sig, msg string, replay any) {
	c.mu.Lock()
	defer c.mu.Unlock()
	if v, ok := c.p.Violations[sig]; ok {
		v.Count++
		return
	}
	if len(c.p.Violations) >= 200 {
		return
	}
	b, _ := json.Marshal(replay)
	c.p.Violations[sig] = &Violation{Sig: sig, Msg: msg, Replay: b, Count: 1}
	if c.IsReplay {
		fmt.Printf("replayed violation: %s\n  %s\n", sig, msg)
	}
}

func (c *Ctx) Evaluations() int64 { c.mu.Lock(); defer c.mu.Unlock(); return c.p.Evaluations }

func (c *Ctx) NViolations() int { c.mu.Lock(); defer c.mu.Unlock(); return len(c.p.Violations) }

// Expired: the time budget of this run is used up; the check should stop enumerating and call Incomplete.
func (c *Ctx) Expired() bool {
	if c.expired {
		return true
	}
	if time.Now().After(c.Deadline) {
		c.expired = true
	}
	return c.expired
}

func (c *Ctx) Incomplete(reason string) {
	c.mu.Lock()
	for _, r := range c.p.Incomplete {
		if r == reason {
			c.mu.Unlock()
			return
		}
	}
	c.p.Incomplete = append(c.p.Incomplete, reason)
	c.mu.Unlock()
}

// ---------------------------------------------------------------------------------------------

type knownFinding struct {
	Status    string `json:"status"`
	Property  string `json:"property"`
	Signature string `json:"signature"`
	What      string `json:"what"`
	Commit    string `json:"commit,omitempty"`
}

func loadKnown(id string) map[string]knownFinding {
	m := map[string]knownFinding{}
	b, err := os.ReadFile(filepath.Join(VerifDir, "known_findings.jsonl"))
	if err != nil {
		return m
	}
	for _, l := range strings.Split(string(b), "\n") {
		l = strings.TrimSpace(l)
		if l == "" || strings.HasPrefix(l, "#") {
			continue
		}
		var k knownFinding
		if json.Unmarshal([]byte(l), &k) == nil && k.Property == id && k.Status == "known" {
			m[k.Signature] = k
		}
	}
	return m
}

func selfExe() string {
	if p, err := os.Executable(); err == nil {
		return p
	}
	return os.Args[0]
}

func scratchDir() string {
	d := fmt.Sprintf("/dev/shm/verif-%d", os.Getpid())
	os.MkdirAll(d, 0755)
	return d
}

// Scratch returns a fresh private directory on tmpfs for the calling process (removed by the parent at exit).
func Scratch(name string) string {
	base := os.Getenv("VERIF_SCRATCH")
	if base == "" {
		base = scratchDir()
	}
	d := filepath.Join(base, name)
	os.RemoveAll(d)
	os.MkdirAll(d, 0755)
	return d
}

func Main() {
	args := os.Args[1:]
	if len(args) >= 1 && args[0] == "-worker" {
		workerMain(args[1:])
		return
	}
	if len(args) < 2 {
		fmt.Fprintln(os.Stderr, "usage: vcheck <ID> quick|thorough | vcheck <ID> --replay <file>")
		os.Exit(2)
	}
	id := args[0]
	chk, ok := registry[id]
	if !ok {
		fmt.Fprintf(os.Stderr, "unknown check %s (not built into this binary)\n", id)
		os.Exit(2)
	}
	seed, _ := strconv.ParseInt(os.Getenv("VERIF_SEED"), 10, 64)
	if seed < 0 {
		seed = -seed
	}
	base := scratchDir()
	os.Setenv("VERIF_SCRATCH", base)
	defer os.RemoveAll(base)

	if args[1] == "--replay" {
		if len(args) < 3 {
			fmt.Fprintln(os.Stderr, "missing replay file")
			os.Exit(2)
		}
		os.Exit(replayMain(chk, args[2], seed, base))
	}
	tier := args[1]
	if t := os.Getenv("VERIF_TIER"); t == "quick" || t == "thorough" {
		_ = t // the explicit argument wins
	}
	if tier != "quick" && tier != "thorough" {
		fmt.Fprintln(os.Stderr, "tier must be quick or thorough")
		os.Exit(2)
	}
	code := parentMain(chk, tier, seed, base)
	os.RemoveAll(base)
	os.Exit(code)
}

func budgetOf(chk *Check, tier string) time.Duration {
	b := chk.QuickBudget
	if tier == "thorough" {
		b = chk.ThoroughBudget
	}
	if b == 0 {
		if tier == "thorough" {
			b = 12 * time.Minute
		} else {
			b = 240 * time.Second
		}
	}
	if s := os.Getenv("VERIF_BUDGET_S"); s != "" {
		if f, err := strconv.ParseFloat(s, 64); err == nil {
			b = time.Duration(f * float64(time.Second))
		}
	}
	return b
}

// ProcessCPU is the CPU time (user + system) this process has used.
func ProcessCPU() time.Duration {
	var ru syscall.Rusage
	if syscall.Getrusage(syscall.RUSAGE_SELF, &ru) != nil {
		return 0
	}
	return time.Duration(ru.Utime.Nano() + ru.Stime.Nano())
}

// ProcessRSS is the resident set size of this process in bytes (0 if unknown).
func ProcessRSS() int64 {
	b, err := os.ReadFile("/proc/self/statm")
	if err != nil {
		return 0
	}
	f := strings.Fields(string(b))
	if len(f) < 2 {
		return 0
	}
	pages, _ := strconv.ParseInt(f[1], 10, 64)
	return pages * int64(os.Getpagesize())
}

// memoryFuse protects the machine (no memory limit in the sandbox): a worker whose resident memory passes
// VERIF_WORKER_RSS_MB (default 6144) writes what it has, marks its shard as not covered and exits. This is never
// a verdict; checks whose property includes termination report the runaway case themselves, earlier.
func memoryFuse(c *Ctx, out string) {
	limit := int64(6144) << 20
	if s := os.Getenv("VERIF_WORKER_RSS_MB"); s != "" {
		if v, err := strconv.ParseInt(s, 10, 64); err == nil && v > 0 {
			limit = v << 20
		}
	}
	for range time.Tick(500 * time.Millisecond) {
		if rss := ProcessRSS(); rss > limit {
			c.Incomplete(fmt.Sprintf("worker %d stopped: resident memory %d MiB passed the fuse of %d MiB; the rest of its shard is not covered", c.Shard, rss>>20, limit>>20))
			c.mu.Lock()
			b, _ := json.Marshal(&c.p)
			if os.WriteFile(out+".tmp", b, 0644) == nil {
				os.Rename(out+".tmp", out)
			}
			os.Exit(0)
		}
	}
}

func workerMain(args []string) {
	// -worker ID tier seed shard n budget_s outfile
	id, tier := args[0], args[1]
	seed, _ := strconv.ParseInt(args[2], 10, 64)
	shard, _ := strconv.Atoi(args[3])
	n, _ := strconv.Atoi(args[4])
	bs, _ := strconv.ParseFloat(args[5], 64)
	out := args[6]
	chk := registry[id]
	c := newCtx(id, tier, seed, shard, n, time.Duration(bs*float64(time.Second)))
	os.Setenv("VERIF_SCRATCH", filepath.Join(os.Getenv("VERIF_SCRATCH"), fmt.Sprintf("w%d", shard)))
	os.MkdirAll(os.Getenv("VERIF_SCRATCH"), 0755)
	go memoryFuse(c, out)
	if pf := os.Getenv("VERIF_PPROF"); pf != "" {
		f, _ := os.Create(fmt.Sprintf("%s.%d", pf, shard))
		pprof.StartCPUProfile(f)
		chk.Run(c)
		pprof.StopCPUProfile()
		f.Close()
	} else {
		chk.Run(c)
	}
	b, _ := json.Marshal(&c.p)
	if err := os.WriteFile(out+".tmp", b, 0644); err != nil {
		fmt.Fprintln(os.Stderr, err)
		os.Exit(3)
	}
	os.Rename(out+".tmp", out)
	os.Exit(0)
}

func merge(dst *Partial, src *Partial) {
	dst.Evaluations += src.Evaluations
	dst.Nontrivial += src.Nontrivial
	for k, v := range src.Counters {
		if strings.HasPrefix(k, "max_") {
			if dst.Counters[k] < v {
				dst.Counters[k] = v
			}
		} else {
			dst.Counters[k] += v
		}
	}
	for k, l := range src.Sets {
		have := map[string]bool{}
		for _, m := range dst.Sets[k] {
			have[m] = true
		}
		for _, m := range l {
			if !have[m] {
				dst.Sets[k] = append(dst.Sets[k], m)
				have[m] = true
			}
		}
	}
	for _, s := range src.Samples {
		if len(dst.Samples) < 6 {
			dst.Samples = append(dst.Samples, s)
		}
	}
	for k, v := range src.Violations {
		if d, ok := dst.Violations[k]; ok {
			d.Count += v.Count
		} else {
			dst.Violations[k] = v
		}
	}
	for _, r := range src.Incomplete {
		found := false
		for _, x := range dst.Incomplete {
			if x == r {
				found = true
			}
		}
		if !found {
			dst.Incomplete = append(dst.Incomplete, r)
		}
	}
	for k, v := range src.Info {
		if _, ok := dst.Info[k]; !ok {
			dst.Info[k] = v
		}
	}
}

func parentMain(chk *Check, tier string, seed int64, base string) int {
	start := time.Now()
	budget := budgetOf(chk, tier)
	total := Partial{Counters: map[string]int64{}, Sets: map[string][]string{}, Violations: map[string]*Violation{}, Info: map[string]any{}}
	n := chk.Workers
	if n == 0 {
		n = 16
	}
	if chk.Serial {
		c := newCtx(chk.ID, tier, seed, 0, 1, budget)
		chk.Run(c)
		merge(&total, &c.p)
	} else {
		var wg sync.WaitGroup
		var mu sync.Mutex
		for i := 0; i < n; i++ {
			wg.Add(1)
			go func(i int) {
				defer wg.Done()
				var last string
				for attempt := 0; attempt < 2; attempt++ {
					out := filepath.Join(base, fmt.Sprintf("res-%d.json", i))
					os.Remove(out)
					cmd := exec.Command(selfExe(), "-worker", chk.ID, tier, strconv.FormatInt(seed, 10), strconv.Itoa(i), strconv.Itoa(n),
						strconv.FormatFloat(budget.Seconds(), 'f', 1, 64), out)
					logf := filepath.Join(base, fmt.Sprintf("log-%d.txt", i))
					lf, _ := os.Create(logf)
					cmd.Stdout, cmd.Stderr = lf, lf
					wp := chk.WorkerProcs
					if wp == 0 {
						wp = 2
					}
					cmd.Env = append(os.Environ(), fmt.Sprintf("GOMAXPROCS=%d", wp))
					done := make(chan error, 1)
					cmd.Start()
					go func() { done <- cmd.Wait() }()
					var err error
					select {
					case err = <-done:
					case <-time.After(budget*2 + 120*time.Second):
						cmd.Process.Kill()
						err = fmt.Errorf("worker exceeded twice its budget; killed")
						<-done
					}
					lf.Close()
					b, rerr := os.ReadFile(out)
					var p Partial
					if err == nil && rerr == nil && json.Unmarshal(b, &p) == nil {
						mu.Lock()
						merge(&total, &p)
						mu.Unlock()
						return
					}
					lb, _ := os.ReadFile(logf)
					if len(lb) > 3000 {
						lb = lb[len(lb)-3000:]
					}
					last = fmt.Sprintf("%v\n%s", err, lb)
				}
				mu.Lock()
				total.Incomplete = append(total.Incomplete, fmt.Sprintf("worker %d/%d failed twice and its shard is not covered", i, n))
				fmt.Fprintf(os.Stderr, "worker %d failed twice:\n%s\n", i, last)
				if strings.Contains(last, "github.com/mithrandie/csvq/lib") && (strings.Contains(last, "panic:") || strings.Contains(last, "fatal error:")) {
					total.Violations["worker-crash-in-csvq-code"] = &Violation{Sig: "worker-crash-in-csvq-code", Msg: last, Count: 1}
				}
				mu.Unlock()
			}(i)
		}
		wg.Wait()
	}
	return finish(chk, tier, seed, &total, time.Since(start))
}

func finish(chk *Check, tier string, seed int64, total *Partial, wall time.Duration) int {
	known := loadKnown(chk.ID)
	sigs := make([]string, 0, len(total.Violations))
	for s := range total.Violations {
		sigs = append(sigs, s)
	}
	sort.Strings(sigs)
	newV := 0
	knownHit := []string{}
	lines := []string{}
	for _, s := range sigs {
		v := total.Violations[s]
		if k, ok := known[s]; ok {
			lines = append(lines, fmt.Sprintf("KNOWN-FINDING: property=%s %s [%s] (seen %d times)", chk.ID, k.What, s, v.Count))
			knownHit = append(knownHit, s)
			continue
		}
		newV++
		h := sha256.Sum256([]byte(s))
		dir := filepath.Join(VerifDir, "replays", chk.ID)
		if os.Getenv("VERIF_NO_EVIDENCE") != "" {
			dir = filepath.Join("/tmp/verif-scratch-evidence", "replays", chk.ID)
		}
		os.MkdirAll(dir, 0755)
		path := filepath.Join(dir, hex.EncodeToString(h[:6])+".json")
		rb, _ := json.MarshalIndent(map[string]any{"property": chk.ID, "signature": s, "message": v.Msg, "count": v.Count, "replay": v.Replay, "tier": tier, "seed": seed}, "", " ")
		os.WriteFile(path, rb, 0644)
		lines = append(lines, fmt.Sprintf("VIOLATION property=%s replay=%s", chk.ID, path))
		fmt.Printf("--- %s\n    %s\n", s, strings.ReplaceAll(v.Msg, "\n", "\n    "))
	}
	exhaustive := len(total.Incomplete) == 0
	cov := map[string]any{
		"evaluations":         total.Evaluations,
		"distinct_nontrivial": total.Nontrivial,
		"rule":                chk.Rule,
		"exhaustive":          exhaustive,
		"known_findings_seen": knownHit,
	}
	samples := []any{}
	for _, s := range total.Samples {
		var x any
		json.Unmarshal(s, &x)
		samples = append(samples, x)
	}
	if len(samples) == 0 {
		samples = append(samples, "no sample recorded")
	}
	cov["samples"] = samples
	for k, v := range total.Counters {
		cov[k] = v
	}
	for k, l := range total.Sets {
		sort.Strings(l)
		if len(l) > 40 {
			cov[k+"_count"] = len(l)
			l = l[:40]
		} else {
			cov[k+"_count"] = len(l)
		}
		cov[k] = l
	}
	for k, v := range total.Info {
		cov[k] = v
	}
	if len(total.Incomplete) > 0 {
		cov["caps_hit"] = total.Incomplete
	}
	ev := map[string]any{
		"property_id": chk.ID,
		"tier":        tier,
		"seed":        seed,
		"level":       chk.Level,
		"coverage":    cov,
		"assumptions": chk.Assume,
		"wall_s":      float64(int(wall.Seconds()*100)) / 100,
		"violations":  newV,
	}
	evDir := filepath.Join(VerifDir, "evidence")
	if os.Getenv("VERIF_NO_EVIDENCE") != "" {
		evDir = "/tmp/verif-scratch-evidence" // a run against a scratch tree must not overwrite the evidence of /repo
	}
	os.MkdirAll(evDir, 0755)
	eb, _ := json.MarshalIndent(ev, "", " ")
	os.WriteFile(filepath.Join(evDir, chk.ID+".json"), append(eb, '\n'), 0644)
	fmt.Printf("%s %s: evaluations=%d distinct_nontrivial=%d exhaustive=%v wall=%.1fs", chk.ID, tier, total.Evaluations, total.Nontrivial, exhaustive, wall.Seconds())
	keys := []string{}
	for k := range total.Counters {
		keys = append(keys, k)
	}
	sort.Strings(keys)
	for _, k := range keys {
		fmt.Printf(" %s=%d", k, total.Counters[k])
	}
	fmt.Println()
	for _, r := range total.Incomplete {
		fmt.Println("cap:", r)
	}
	for _, l := range lines {
		fmt.Println(l)
	}
	if newV > 0 {
		return 1
	}
	return 0
}

func replayMain(chk *Check, path string, seed int64, base string) int {
	b, err := os.ReadFile(path)
	if err != nil {
		fmt.Fprintln(os.Stderr, err)
		return 2
	}
	var f struct {
		Signature string          `json:"signature"`
		Replay    json.RawMessage `json:"replay"`
	}
	if err := json.Unmarshal(b, &f); err != nil {
		fmt.Fprintln(os.Stderr, err)
		return 2
	}
	if chk.Replay == nil {
		fmt.Fprintln(os.Stderr, "this check has no replay function")
		return 2
	}
	c := newCtx(chk.ID, "quick", seed, 0, 1, 10*time.Minute)
	c.IsReplay = true
	chk.Replay(c, f.Replay)
	if len(c.p.Violations) > 0 {
		fmt.Printf("VIOLATION property=%s replay=%s\n", chk.ID, path)
		return 1
	}
	fmt.Println("replay: the recorded case does not violate the property on this tree")
	return 0
}
