// Package rv is the reference model of csvq values: the documented coercion
// ladder, ternary logic and arithmetic, written from docs/_posts/*value*,
// *comparison-operators*, *arithmetic-operators*, *logic-operators*.
// It shares no code with lib/value or lib/query.
package rv

import (
	"fmt"
	"math"
	"math/big"
	"regexp"
	"strconv"
	"strings"
	"time"
	"unicode"

	"github.com/mithrandie/csvq/lib/value"
	"github.com/mithrandie/ternary"
)

type Kind int

const (
	Null Kind = iota
	Int
	Float
	Str
	Bool
	Tern
	Date
)

// Ternary values.
const (
	F = -1
	U = 0
	T = 1
)

type V struct {
	K Kind
	I int64
	F float64
	S string
	B bool
	T int
	D time.Time
}

func N() V              { return V{K: Null} }
func I(i int64) V       { return V{K: Int, I: i} }
func Fl(f float64) V    { return V{K: Float, F: f} }
func S(s string) V      { return V{K: Str, S: s} }
func B(b bool) V        { return V{K: Bool, B: b} }
func Tv(t int) V        { return V{K: Tern, T: t} }
func D(t time.Time) V   { return V{K: Date, D: t} }
func TernName(t int) string {
	switch t {
	case T:
		return "TRUE"
	case F:
		return "FALSE"
	}
	return "UNKNOWN"
}

// Key is a canonical printable form (type tag + text) used in case keys and messages.
func (v V) Key() string {
	switch v.K {
	case Null:
		return "NULL"
	case Int:
		return "I:" + strconv.FormatInt(v.I, 10)
	case Float:
		return "F:" + strconv.FormatFloat(v.F, 'g', -1, 64)
	case Str:
		return "S:" + strconv.Quote(v.S)
	case Bool:
		return "B:" + strconv.FormatBool(v.B)
	case Tern:
		return "T:" + TernName(v.T)
	case Date:
		return "D:" + v.D.Format(time.RFC3339Nano)
	}
	return "?"
}

// Primary builds the csvq object for this value.
func (v V) Primary() value.Primary {
	switch v.K {
	case Int:
		return value.NewInteger(v.I)
	case Float:
		return value.NewFloat(v.F)
	case Str:
		return value.NewString(v.S)
	case Bool:
		return value.NewBoolean(v.B)
	case Tern:
		switch v.T {
		case T:
			return value.NewTernary(ternary.TRUE)
		case F:
			return value.NewTernary(ternary.FALSE)
		}
		return value.NewTernary(ternary.UNKNOWN)
	case Date:
		return value.NewDatetime(v.D)
	}
	return value.NewNull()
}

// FromPrimary converts a csvq object to the reference representation.
func FromPrimary(p value.Primary) V {
	switch x := p.(type) {
	case *value.Integer:
		return I(x.Raw())
	case *value.Float:
		return Fl(x.Raw())
	case *value.String:
		return S(x.Raw())
	case *value.Boolean:
		return B(x.Raw())
	case *value.Ternary:
		return Tv(FromTernary(x.Ternary()))
	case *value.Datetime:
		return D(x.Raw())
	}
	return N()
}

func FromTernary(t ternary.Value) int {
	switch t {
	case ternary.TRUE:
		return T
	case ternary.FALSE:
		return F
	}
	return U
}

// SQL renders the value as csvq program text. ok=false if there is no literal for it.
func (v V) SQL() (string, bool) {
	switch v.K {
	case Null:
		return "NULL", true
	case Int:
		if v.I == math.MinInt64 {
			return "", false // -9223372036854775808 is not a single literal
		}
		if v.I < 0 {
			return "(" + strconv.FormatInt(v.I, 10) + ")", true
		}
		return strconv.FormatInt(v.I, 10), true
	case Float:
		if math.IsNaN(v.F) || math.IsInf(v.F, 0) {
			return "", false
		}
		s := strconv.FormatFloat(v.F, 'f', -1, 64)
		if !strings.Contains(s, ".") {
			s += ".0"
		}
		if len(s) > 40 {
			return "", false
		}
		if v.F < 0 || (v.F == 0 && math.Signbit(v.F)) {
			return "", false
		}
		return s, true
	case Str:
		return "'" + strings.ReplaceAll(strings.ReplaceAll(v.S, `\`, `\\`), "'", `\'`) + "'", true
	case Bool:
		return "", false // TRUE/FALSE keywords are ternary literals
	case Tern:
		return TernName(v.T), true
	case Date:
		return "", false
	}
	return "", false
}

// ---- conversions (documented "Automatic Type Casting" table) ----------------------------------

func trim(s string) string { return strings.TrimFunc(s, unicode.IsSpace) }

var reInt = regexp.MustCompile(`^[+-]?[0-9]+$`)

// StrictInt: Integer, or String that is the representation of a decimal integer (in int64 range).
func (v V) StrictInt() (int64, bool) {
	switch v.K {
	case Int:
		return v.I, true
	case Str:
		s := trim(v.S)
		if !reInt.MatchString(s) {
			return 0, false
		}
		b, ok := new(big.Int).SetString(s, 10)
		if !ok || !b.IsInt64() {
			return 0, false
		}
		return b.Int64(), true
	}
	return 0, false
}

var reFloat = regexp.MustCompile(`^[+-]?([0-9]+\.?[0-9]*|\.[0-9]+)([eE][+-]?[0-9]+)?$`)

// DocumentedFloatText: is the (trimmed) text one of the spellings the manual lists.
func DocumentedFloatText(s string) bool {
	switch s {
	case "Inf", "+Inf", "-Inf", "NaN":
		return true
	}
	return reFloat.MatchString(s)
}

func (v V) Float() (float64, bool) {
	switch v.K {
	case Int:
		return float64(v.I), true
	case Float:
		return v.F, true
	case Str:
		s := trim(v.S)
		if !DocumentedFloatText(s) {
			return 0, false
		}
		f, err := strconv.ParseFloat(s, 64)
		if err != nil {
			// out of range: strconv returns ±Inf with ErrRange; csvq treats that as a failed conversion
			return 0, false
		}
		return f, true
	}
	return 0, false
}

var dateLayouts = []string{
	"2006-01-02", "2006-1-2", "2006/01/02", "2006/1/2",
	"2006-01-02 15:04:05.999999999", "2006-1-2 15:04:05.999999999",
	"2006/01/02 15:04:05.999999999", "2006/1/2 15:04:05.999999999",
	"2006-01-02T15:04:05.999999999",
}

// Datetime: only the unambiguous documented spellings are modelled (alphabets stay inside them).
func (v V) Datetime() (time.Time, bool) {
	switch v.K {
	case Date:
		return v.D, true
	case Str:
		s := trim(v.S)
		if len(s) < 8 || s[0] < '0' || s[0] > '9' {
			return time.Time{}, false
		}
		for _, l := range dateLayouts {
			if t, err := time.ParseInLocation(l, s, time.UTC); err == nil {
				return t, true
			}
		}
		if t, err := time.Parse(time.RFC3339Nano, s); err == nil {
			return t, true
		}
	}
	return time.Time{}, false
}

// Tern3: the documented conversion to ternary.
func (v V) Tern3() int {
	switch v.K {
	case Str:
		switch trim(v.S) {
		case "1", "t", "T", "true", "TRUE", "True":
			return T
		case "0", "f", "F", "false", "FALSE", "False":
			return F
		}
		return U
	case Int:
		if v.I == 1 {
			return T
		}
		if v.I == 0 {
			return F
		}
		return U
	case Float:
		if v.F == 1 {
			return T
		}
		if v.F == 0 {
			return F
		}
		return U
	case Bool:
		if v.B {
			return T
		}
		return F
	case Tern:
		return v.T
	}
	return U
}

func (v V) Boolean() (bool, bool) {
	switch v.K {
	case Bool:
		return v.B, true
	case Str, Int, Float, Tern:
		if t := v.Tern3(); t != U {
			return t == T, true
		}
	}
	return false, false
}

// ---- comparison ladder ------------------------------------------------------------------------

type Cmp int

const (
	EQ Cmp = iota
	BOOLEQ
	NE // unordered & different (NaN, booleans)
	LT
	GT
	INC // incommensurable
)

func (c Cmp) String() string { return [...]string{"EQ", "BOOLEQ", "NE", "LT", "GT", "INC"}[c] }

func Compare(a, b V) Cmp {
	if a.K == Null || b.K == Null {
		return INC
	}
	if x, ok := a.StrictInt(); ok {
		if y, ok := b.StrictInt(); ok {
			switch {
			case x == y:
				return EQ
			case x < y:
				return LT
			}
			return GT
		}
	}
	if x, ok := a.Float(); ok {
		if y, ok := b.Float(); ok {
			switch {
			case math.IsNaN(x) || math.IsNaN(y):
				return NE
			case x == y:
				return EQ
			case x < y:
				return LT
			}
			return GT
		}
	}
	if x, ok := a.Datetime(); ok {
		if y, ok := b.Datetime(); ok {
			switch {
			case x.Equal(y):
				return EQ
			case x.Before(y):
				return LT
			}
			return GT
		}
	}
	if x, ok := a.Boolean(); ok {
		if y, ok := b.Boolean(); ok {
			if x == y {
				return BOOLEQ
			}
			return NE
		}
	}
	if a.K == Str && b.K == Str {
		x, y := strings.ToUpper(trim(a.S)), strings.ToUpper(trim(b.S))
		switch {
		case x == y:
			return EQ
		case x < y:
			return LT
		}
		return GT
	}
	return INC
}

func tb(b bool) int {
	if b {
		return T
	}
	return F
}

// Op evaluates a relational operator per the manual.
func Op(a, b V, op string) int {
	if op == "==" {
		return Identical(a, b)
	}
	c := Compare(a, b)
	if c == INC {
		return U
	}
	switch op {
	case "=":
		return tb(c == EQ || c == BOOLEQ)
	case "<>", "!=":
		return tb(c != EQ && c != BOOLEQ)
	}
	if c == NE || c == BOOLEQ {
		return U
	}
	switch op {
	case "<":
		return tb(c == LT)
	case "<=":
		return tb(c == LT || c == EQ)
	case ">":
		return tb(c == GT)
	case ">=":
		return tb(c == GT || c == EQ)
	}
	panic("bad op " + op)
}

// Identical: same type and equal; UNKNOWN with NULL / UNKNOWN operands.
func Identical(a, b V) int {
	if a.K == Null || b.K == Null || (a.K == Tern && a.T == U) || (b.K == Tern && b.T == U) {
		return U
	}
	if a.K != b.K {
		return F
	}
	switch a.K {
	case Int:
		return tb(a.I == b.I)
	case Float:
		return tb(a.F == b.F)
	case Str:
		return tb(a.S == b.S)
	case Bool:
		return tb(a.B == b.B)
	case Tern:
		return tb(a.T == b.T)
	case Date:
		return tb(a.D.Equal(b.D))
	}
	return F
}

// Equivalent is the bucket equality of DISTINCT/GROUP BY: both NULL, or equal.
func Equivalent(a, b V) bool {
	if a.K == Null && b.K == Null {
		return true
	}
	return Op(a, b, "=") == T
}

// Kleene logic.
func And(a, b int) int {
	if a == F || b == F {
		return F
	}
	if a == T && b == T {
		return T
	}
	return U
}
func Or(a, b int) int {
	if a == T || b == T {
		return T
	}
	if a == F && b == F {
		return F
	}
	return U
}
func Not(a int) int { return -a }

// ---- arithmetic -------------------------------------------------------------------------------

type ArithResult struct {
	V       V
	Err     bool // integer division by zero
	Wrapped bool // the exact integer result is outside int64 (csvq wraps; excluded from agreement laws)
}

func Arith(a, b V, op byte) ArithResult {
	if x, ok := a.StrictInt(); ok {
		if y, ok := b.StrictInt(); ok {
			bx, by := big.NewInt(x), big.NewInt(y)
			r := new(big.Int)
			switch op {
			case '+':
				r.Add(bx, by)
			case '-':
				r.Sub(bx, by)
			case '*':
				r.Mul(bx, by)
			case '/':
				if y == 0 {
					return ArithResult{Err: true}
				}
				r.Quo(bx, by) // truncated
			case '%':
				if y == 0 {
					return ArithResult{Err: true}
				}
				r.Rem(bx, by) // sign of dividend
			}
			if !r.IsInt64() {
				// two's complement wrap, as a 64-bit integer type behaves
				m := new(big.Int).Lsh(big.NewInt(1), 64)
				r.Mod(r, m)
				if r.Cmp(new(big.Int).Lsh(big.NewInt(1), 63)) >= 0 {
					r.Sub(r, m)
				}
				return ArithResult{V: I(r.Int64()), Wrapped: true}
			}
			return ArithResult{V: I(r.Int64())}
		}
	}
	if x, ok := a.Float(); ok {
		if y, ok := b.Float(); ok {
			var r float64
			switch op {
			case '+':
				r = x + y
			case '-':
				r = x - y
			case '*':
				r = x * y
			case '/':
				r = x / y
			case '%':
				r = math.Mod(x, y) // sign of the dividend, magnitude below |y|
			}
			return ArithResult{V: Fl(r)}
		}
	}
	return ArithResult{V: N()}
}

// SameValue compares a csvq result with a reference result exactly (NaN equals NaN, -0 equals 0 is NOT assumed).
func SameValue(a, b V) bool {
	if a.K != b.K {
		return false
	}
	switch a.K {
	case Null:
		return true
	case Int:
		return a.I == b.I
	case Float:
		if math.IsNaN(a.F) && math.IsNaN(b.F) {
			return true
		}
		return a.F == b.F
	case Str:
		return a.S == b.S
	case Bool:
		return a.B == b.B
	case Tern:
		return a.T == b.T
	case Date:
		return a.D.Equal(b.D)
	}
	return false
}

func (v V) String() string { return v.Key() }

var _ = fmt.Sprint
