// Package relm is the reference model of C03: a small query AST that prints
// itself as csvq program text and a boring relational evaluator over Go
// slices.  It is written from the property text and the manual pages
// select-query, common-table-expression, comparison-operators (IN, EXISTS)
// and value (subquery); values and ternary logic come from internal/rv.
// It shares no code with lib/query.
package relm

import (
	"fmt"
	"sort"
	"strings"

	"verif/harness/internal/rv"
)

// ---- expressions --------------------------------------------------------------------------------

type Expr interface{ SQL() string }

type Col struct{ T, N string } // T == "" : unqualified
type Lit struct{ V rv.V }
type Cmp struct {
	Op   string
	L, R Expr
}
type Logic struct {
	Op   string // AND | OR
	L, R Expr
}
type Not struct{ E Expr }
type IsNull struct {
	E   Expr
	Neg bool
}
type Arith struct {
	Op   byte
	L, R Expr
}
type In struct {
	E   Expr
	Q   *Query
	Neg bool
}
type Exists struct {
	Q   *Query
	Neg bool
}
type Scalar struct{ Q *Query }

func (c Col) SQL() string {
	if c.T == "" {
		return c.N
	}
	return c.T + "." + c.N
}
func (l Lit) SQL() string {
	s, ok := l.V.SQL()
	if !ok {
		panic("relm: value without a literal: " + l.V.Key())
	}
	return s
}
func (c Cmp) SQL() string   { return c.L.SQL() + " " + c.Op + " " + c.R.SQL() }
func (l Logic) SQL() string { return "(" + l.L.SQL() + " " + l.Op + " " + l.R.SQL() + ")" }
func (n Not) SQL() string   { return "NOT (" + n.E.SQL() + ")" }
func (n IsNull) SQL() string {
	if n.Neg {
		return n.E.SQL() + " IS NOT NULL"
	}
	return n.E.SQL() + " IS NULL"
}
func (a Arith) SQL() string { return "(" + a.L.SQL() + " " + string(a.Op) + " " + a.R.SQL() + ")" }
func (i In) SQL() string {
	if i.Neg {
		return i.E.SQL() + " NOT IN (" + i.Q.SQL() + ")"
	}
	return i.E.SQL() + " IN (" + i.Q.SQL() + ")"
}
func (e Exists) SQL() string {
	if e.Neg {
		return "NOT EXISTS (" + e.Q.SQL() + ")"
	}
	return "EXISTS (" + e.Q.SQL() + ")"
}
func (s Scalar) SQL() string { return "(" + s.Q.SQL() + ")" }

// ---- queries ------------------------------------------------------------------------------------

type Query struct {
	With []*CTE
	Body Body
}

type CTE struct {
	Name      string
	Cols      []string
	Recursive bool
	Q         *Query
}

type Body interface{ bodySQL() string }

type Select struct {
	Fields []Field
	From   []Table // comma list; nil = no FROM clause
	Where  Expr
}

// UnionAll is UNION ALL; with Distinct it is UNION, used only as the body of a recursive table (what "equal rows" are
// in general is C04's subject: the catalogue keeps such relations free of values that only a normalisation equates)
type UnionAll struct {
	L, R     Body
	Distinct bool
}

type Field struct {
	Star  bool
	TStar string
	E     Expr
	As    string
}

type Table interface{ tableSQL() string }

type Ref struct{ Name, As string }

type Sub struct {
	Q       *Query
	As      string
	Lateral bool
}

// Kind: CROSS | INNER | LEFT | RIGHT | FULL
type Join struct {
	Kind    string
	Natural bool
	L, R    Table
	On      Expr
	Using   []string
}

func (q *Query) SQL() string {
	var sb strings.Builder
	if len(q.With) > 0 {
		sb.WriteString("WITH ")
		for i, c := range q.With {
			if i > 0 {
				sb.WriteString(", ")
			}
			if c.Recursive {
				sb.WriteString("RECURSIVE ")
			}
			sb.WriteString(c.Name)
			if len(c.Cols) > 0 {
				sb.WriteString(" (" + strings.Join(c.Cols, ", ") + ")")
			}
			sb.WriteString(" AS (" + c.Q.SQL() + ")")
		}
		sb.WriteString(" ")
	}
	sb.WriteString(q.Body.bodySQL())
	return sb.String()
}

func (s *Select) bodySQL() string {
	var sb strings.Builder
	sb.WriteString("SELECT ")
	for i, f := range s.Fields {
		if i > 0 {
			sb.WriteString(", ")
		}
		switch {
		case f.Star:
			sb.WriteString("*")
		case f.TStar != "":
			sb.WriteString(f.TStar + ".*")
		default:
			sb.WriteString(f.E.SQL())
			if f.As != "" {
				sb.WriteString(" AS " + f.As)
			}
		}
	}
	if len(s.From) > 0 {
		sb.WriteString(" FROM ")
		for i, t := range s.From {
			if i > 0 {
				sb.WriteString(", ")
			}
			sb.WriteString(t.tableSQL())
		}
	}
	if s.Where != nil {
		sb.WriteString(" WHERE " + s.Where.SQL())
	}
	return sb.String()
}

func (u *UnionAll) bodySQL() string {
	if u.Distinct {
		return u.L.bodySQL() + " UNION " + u.R.bodySQL()
	}
	return u.L.bodySQL() + " UNION ALL " + u.R.bodySQL()
}

func (r Ref) tableSQL() string {
	if r.As != "" {
		return r.Name + " " + r.As
	}
	return r.Name
}
func (s Sub) tableSQL() string {
	t := "(" + s.Q.SQL() + ")"
	if s.Lateral {
		t = "LATERAL " + t
	}
	if s.As != "" {
		t += " " + s.As
	}
	return t
}
func (j Join) tableSQL() string {
	l := j.L.tableSQL()
	r := j.R.tableSQL()
	if _, ok := j.R.(Join); ok {
		r = "(" + r + ")"
	}
	var kw string
	switch {
	case j.Kind == "CROSS":
		kw = "CROSS JOIN"
	case j.Natural && j.Kind == "INNER":
		kw = "NATURAL JOIN"
	case j.Natural:
		kw = "NATURAL " + j.Kind + " JOIN"
	case j.Kind == "INNER":
		kw = "JOIN"
	default:
		kw = j.Kind + " JOIN"
	}
	s := l + " " + kw + " " + r
	if j.On != nil {
		s += " ON " + j.On.SQL()
	} else if len(j.Using) > 0 {
		s += " USING (" + strings.Join(j.Using, ", ") + ")"
	}
	return s
}

// ---- relations ----------------------------------------------------------------------------------

type RCol struct {
	T, N string
	J    bool // merged USING / NATURAL column: referable only without a table name
	Anon bool // unnamed expression column: not referable
}

type Rel struct {
	Cols    []RCol
	Rows    [][]rv.V
	Ordered bool // the row order is promised by the property (single source)
}

func NewTable(name string, cols []string, rows [][]rv.V) *Rel {
	r := &Rel{Ordered: true}
	for _, c := range cols {
		r.Cols = append(r.Cols, RCol{T: name, N: c})
	}
	r.Rows = rows
	return r
}

// clone copies the header; rows are immutable in this package and are shared (the slice is capped so that an
// append never writes into shared memory).
func (r *Rel) clone() *Rel {
	return &Rel{Cols: append([]RCol(nil), r.Cols...), Rows: r.Rows[:len(r.Rows):len(r.Rows)], Ordered: r.Ordered}
}

func (r *Rel) rename(t string) {
	for i := range r.Cols {
		r.Cols[i].T = t
		r.Cols[i].J = false
	}
}

// Names of the result columns ("" for unnamed expressions).
func (r *Rel) Names() []string {
	out := make([]string, len(r.Cols))
	for i, c := range r.Cols {
		if !c.Anon {
			out[i] = c.N
		}
	}
	return out
}

// Error is a model-side refusal of a query; Kind names the rule.
type Error struct{ Kind, Msg string }

func (e *Error) Error() string { return e.Kind + ": " + e.Msg }

func errf(kind, f string, a ...any) error { return &Error{Kind: kind, Msg: fmt.Sprintf(f, a...)} }

// Reading selects among the readings the property text leaves open for USING / NATURAL joins.
type Reading struct {
	InPlace     bool // merged column stays where the left operand had it (else: merged columns first, SQL standard)
	PreferRight bool // a merged cell whose two sides are both non-NULL shows the right side's value (else the left's)
}

var Readings = []Reading{{false, false}, {false, true}, {true, false}, {true, true}}

type Ev struct {
	Tables map[string]*Rel // upper-case name -> contents
	R      Reading
	Merged bool // some USING / NATURAL merge took place (readings may differ)
}

type frame struct {
	cols []RCol
	row  []rv.V
}

type cteEnv struct {
	name   string
	rel    *Rel
	parent *cteEnv
}

type scope struct {
	frames []frame // innermost first
	ctes   *cteEnv
}

func (s scope) push(cols []RCol, row []rv.V) scope {
	fr := make([]frame, 0, len(s.frames)+1)
	fr = append(fr, frame{cols, row})
	fr = append(fr, s.frames...)
	return scope{frames: fr, ctes: s.ctes}
}

// bind returns a scope with a new innermost frame whose row can be replaced in place (setRow) between rows.
func (s scope) bind(cols []RCol) scope { return s.push(cols, nil) }
func (s scope) setRow(row []rv.V)      { s.frames[0].row = row }

func (s scope) findCTE(name string) *Rel {
	for c := s.ctes; c != nil; c = c.parent {
		if strings.EqualFold(c.name, name) {
			return c.rel
		}
	}
	return nil
}

// Run evaluates a whole query.
func (ev *Ev) Run(q *Query) (*Rel, error) { return ev.query(q, scope{}) }

func (ev *Ev) query(q *Query, sc scope) (*Rel, error) {
	for _, c := range q.With {
		rel, err := ev.cte(c, sc)
		if err != nil {
			return nil, err
		}
		sc.ctes = &cteEnv{name: c.Name, rel: rel, parent: sc.ctes}
	}
	return ev.body(q.Body, sc)
}

func (ev *Ev) cte(c *CTE, sc scope) (*Rel, error) {
	var rel *Rel
	var err error
	if c.Recursive {
		u, ok := c.Q.Body.(*UnionAll)
		if !ok || len(c.Q.With) > 0 {
			return nil, errf("model", "recursive table must be base UNION ALL step")
		}
		// manual: the base result is stored in the temporary view; the recursive query is executed against the
		// temporary view, which is then replaced by its result, until the result is empty; all results are combined.
		base, err := ev.body(u.L, sc)
		if err != nil {
			return nil, err
		}
		acc := base.clone()
		acc.Ordered = false
		if u.Distinct {
			acc.Rows = distinctRows(acc.Rows)
		}
		tmp := base
		for iter := 0; ; iter++ {
			if iter > 200 {
				return nil, errf("model", "recursion does not end")
			}
			t := tmp.clone()
			if err := nameCols(t, c); err != nil {
				return nil, err
			}
			step, err := ev.body(u.R, scope{frames: sc.frames, ctes: &cteEnv{name: c.Name, rel: t, parent: sc.ctes}})
			if err != nil {
				return nil, err
			}
			if len(step.Cols) != len(acc.Cols) {
				return nil, errf("fieldcount", "set operands differ in field count")
			}
			if len(step.Rows) == 0 {
				break
			}
			acc.Rows = append(acc.Rows, step.Rows...)
			if u.Distinct {
				// UNION: the combined result keeps one of equal rows; the next iteration still works on the whole result of this one
				acc.Rows = distinctRows(acc.Rows)
			}
			tmp = step
		}
		rel = acc
	} else {
		rel, err = ev.query(c.Q, sc)
		if err != nil {
			return nil, err
		}
		rel = rel.clone()
	}
	if err := nameCols(rel, c); err != nil {
		return nil, err
	}
	return rel, nil
}

func distinctRows(rows [][]rv.V) [][]rv.V {
	seen := map[string]bool{}
	out := rows[:0:0]
	for _, r := range rows {
		k := ""
		for _, v := range r {
			k += v.Key() + "\x1f"
		}
		if !seen[k] {
			seen[k] = true
			out = append(out, r)
		}
	}
	return out
}

func nameCols(rel *Rel, c *CTE) error {
	if len(c.Cols) > 0 {
		if len(c.Cols) != len(rel.Cols) {
			return errf("fieldcount", "column list of %s does not match", c.Name)
		}
		for i := range rel.Cols {
			rel.Cols[i] = RCol{N: c.Cols[i]}
		}
	}
	rel.rename(c.Name)
	return nil
}

func (ev *Ev) body(b Body, sc scope) (*Rel, error) {
	switch x := b.(type) {
	case *Select:
		return ev.sel(x, sc)
	case *UnionAll:
		if x.Distinct {
			return nil, errf("model", "UNION outside a recursive table is not modelled")
		}
		l, err := ev.body(x.L, sc)
		if err != nil {
			return nil, err
		}
		r, err := ev.body(x.R, sc)
		if err != nil {
			return nil, err
		}
		if len(l.Cols) != len(r.Cols) {
			return nil, errf("fieldcount", "set operands differ in field count")
		}
		out := l.clone()
		out.Ordered = false
		out.Rows = append(out.Rows, r.Rows...)
		return out, nil
	}
	return nil, errf("model", "unknown body")
}

func (ev *Ev) sel(s *Select, sc scope) (*Rel, error) {
	var src *Rel
	if len(s.From) == 0 {
		src = &Rel{Rows: [][]rv.V{{}}, Ordered: true}
	} else {
		var err error
		src, err = ev.table(s.From[0], sc)
		if err != nil {
			return nil, err
		}
		for _, t := range s.From[1:] {
			src, err = ev.join(src, Join{Kind: "CROSS", R: t}, sc)
			if err != nil {
				return nil, err
			}
		}
	}
	// WHERE: a row is kept iff the condition is TRUE
	if s.Where != nil {
		kept := make([][]rv.V, 0, len(src.Rows))
		wsc := sc.bind(src.Cols)
		for _, row := range src.Rows {
			wsc.setRow(row)
			v, err := ev.expr(s.Where, wsc)
			if err != nil {
				return nil, err
			}
			if v.Tern3() == rv.T {
				kept = append(kept, row)
			}
		}
		src = &Rel{Cols: src.Cols, Rows: kept, Ordered: src.Ordered}
	}
	// select list
	out := &Rel{Ordered: src.Ordered}
	type item struct {
		idx int
		e   Expr
	}
	var items []item
	for _, f := range s.Fields {
		switch {
		case f.Star:
			for i, c := range src.Cols {
				items = append(items, item{idx: i})
				out.Cols = append(out.Cols, c)
			}
		case f.TStar != "":
			n := 0
			for i, c := range src.Cols {
				if !c.J && strings.EqualFold(c.T, f.TStar) {
					items = append(items, item{idx: i})
					out.Cols = append(out.Cols, c)
					n++
				}
			}
			if n == 0 {
				return nil, errf("notexist", "no table %s", f.TStar)
			}
		default:
			c := RCol{}
			switch {
			case f.As != "":
				c.N = f.As
			default:
				if col, ok := f.E.(Col); ok {
					c.N = col.N
					c.T = col.T
				} else {
					c.Anon = true
				}
			}
			items = append(items, item{idx: -1, e: f.E})
			out.Cols = append(out.Cols, c)
		}
	}
	fsc := sc.bind(src.Cols)
	for _, row := range src.Rows {
		o := make([]rv.V, len(items))
		fsc.setRow(row)
		for i, it := range items {
			if it.idx >= 0 {
				o[i] = row[it.idx]
				continue
			}
			v, err := ev.expr(it.e, fsc)
			if err != nil {
				return nil, err
			}
			o[i] = v
		}
		out.Rows = append(out.Rows, o)
	}
	// even without rows the expressions must resolve
	if len(src.Rows) == 0 {
		for _, it := range items {
			if it.idx < 0 {
				if err := ev.check(it.e, sc.push(src.Cols, nil)); err != nil {
					return nil, err
				}
			}
		}
		if s.Where != nil {
			if err := ev.check(s.Where, sc.push(src.Cols, nil)); err != nil {
				return nil, err
			}
		}
	}
	return out, nil
}

func (ev *Ev) table(t Table, sc scope) (*Rel, error) {
	switch x := t.(type) {
	case Ref:
		var rel *Rel
		if c := sc.findCTE(x.Name); c != nil {
			rel = c.clone()
		} else if b, ok := ev.Tables[strings.ToUpper(x.Name)]; ok {
			rel = b.clone()
		} else {
			return nil, errf("notexist", "table %s", x.Name)
		}
		if x.As != "" {
			rel.rename(x.As)
		} else {
			rel.rename(x.Name)
		}
		return rel, nil
	case Sub:
		rel, err := ev.query(x.Q, sc)
		if err != nil {
			return nil, err
		}
		rel = rel.clone()
		if x.As != "" {
			rel.rename(x.As)
		} else {
			for i := range rel.Cols {
				rel.Cols[i].J = false
			}
		}
		return rel, nil
	case Join:
		l, err := ev.table(x.L, sc)
		if err != nil {
			return nil, err
		}
		return ev.join(l, x, sc)
	}
	return nil, errf("model", "unknown table")
}

func findCols(cols []RCol, name string) []int {
	var out []int
	for i, c := range cols {
		if !c.Anon && strings.EqualFold(c.N, name) {
			out = append(out, i)
		}
	}
	return out
}

// join joins the evaluated left operand with j.R.
func (ev *Ev) join(l *Rel, j Join, sc scope) (*Rel, error) {
	lateral := false
	if s, ok := j.R.(Sub); ok && s.Lateral {
		lateral = true
		if j.Kind == "RIGHT" || j.Kind == "FULL" {
			return nil, errf("lateral", "LATERAL with RIGHT or FULL")
		}
	}
	var rAll *Rel
	if !lateral {
		var err error
		rAll, err = ev.table(j.R, sc)
		if err != nil {
			return nil, err
		}
	}
	out := &Rel{}
	var rCols []RCol
	var pairs [][2]int // USING pairs: left index, right index (within the right operand)
	prepared := false
	prepare := func(rc []RCol) error {
		rCols = rc
		prepared = true
		var names []string
		if j.Natural {
			for _, c := range l.Cols {
				if c.Anon {
					continue
				}
				if len(findCols(rc, c.N)) > 0 {
					names = append(names, c.N)
				}
			}
		} else {
			names = j.Using
		}
		for _, n := range names {
			li := findCols(l.Cols, n)
			ri := findCols(rc, n)
			// a merged column of an earlier join stands for its name
			for _, i := range li {
				if l.Cols[i].J {
					li = []int{i}
					break
				}
			}
			if len(li) == 0 || len(ri) == 0 {
				return errf("notexist", "join column %s", n)
			}
			if len(li) > 1 || len(ri) > 1 {
				return errf("ambiguous", "join column %s", n)
			}
			pairs = append(pairs, [2]int{li[0], ri[0]})
		}
		return nil
	}
	var onScope scope
	var onBuf []rv.V
	matchRow := func(lrow, rrow []rv.V) (bool, error) {
		if j.Kind == "CROSS" {
			return true, nil
		}
		if j.On != nil {
			if onBuf == nil {
				onScope = sc.bind(append(append([]RCol(nil), l.Cols...), rCols...))
				onBuf = make([]rv.V, len(l.Cols)+len(rCols))
			}
			copy(onBuf, lrow)
			copy(onBuf[len(lrow):], rrow)
			onScope.setRow(onBuf)
			v, err := ev.expr(j.On, onScope)
			if err != nil {
				return false, err
			}
			return v.Tern3() == rv.T, nil
		}
		t := rv.T
		for _, p := range pairs {
			t = rv.And(t, rv.Op(lrow[p[0]], rrow[p[1]], "="))
		}
		return t == rv.T, nil
	}
	nulls := func(n int) []rv.V {
		r := make([]rv.V, n)
		for i := range r {
			r[i] = rv.N()
		}
		return r
	}
	type prow struct{ l, r []rv.V }
	var rows []prow
	if lateral {
		sub := j.R.(Sub)
		for _, lrow := range l.Rows {
			rr, err := ev.query(sub.Q, sc.push(l.Cols, lrow))
			if err != nil {
				return nil, err
			}
			rr = rr.clone()
			if sub.As != "" {
				rr.rename(sub.As)
			}
			if !prepared {
				if err := prepare(rr.Cols); err != nil {
					return nil, err
				}
			}
			matched := false
			for _, rrow := range rr.Rows {
				ok, err := matchRow(lrow, rrow)
				if err != nil {
					return nil, err
				}
				if ok {
					matched = true
					rows = append(rows, prow{lrow, rrow})
				}
			}
			if !matched && j.Kind == "LEFT" {
				rows = append(rows, prow{lrow, nulls(len(rCols))})
			}
		}
		if !prepared {
			// no left row: the shape of the right operand is still needed for the header
			rr, err := ev.query(sub.Q, sc.push(l.Cols, nil))
			if err != nil {
				return nil, err
			}
			rr = rr.clone()
			if sub.As != "" {
				rr.rename(sub.As)
			}
			if err := prepare(rr.Cols); err != nil {
				return nil, err
			}
		}
	} else {
		if err := prepare(rAll.Cols); err != nil {
			return nil, err
		}
		rMatched := make([]bool, len(rAll.Rows))
		for _, lrow := range l.Rows {
			matched := false
			for ri, rrow := range rAll.Rows {
				ok, err := matchRow(lrow, rrow)
				if err != nil {
					return nil, err
				}
				if ok {
					matched = true
					rMatched[ri] = true
					rows = append(rows, prow{lrow, rrow})
				}
			}
			if !matched && (j.Kind == "LEFT" || j.Kind == "FULL") {
				rows = append(rows, prow{lrow, nulls(len(rCols))})
			}
		}
		if j.Kind == "RIGHT" || j.Kind == "FULL" {
			for ri, rrow := range rAll.Rows {
				if !rMatched[ri] {
					rows = append(rows, prow{nulls(len(l.Cols)), rrow})
				}
			}
		}
		if len(l.Rows) == 0 || len(rAll.Rows) == 0 {
			if j.On != nil {
				if err := ev.check(j.On, sc.push(append(append([]RCol(nil), l.Cols...), rCols...), nil)); err != nil {
					return nil, err
				}
			}
		}
	}
	// header and rows
	if len(pairs) == 0 {
		out.Cols = append(append([]RCol(nil), l.Cols...), rCols...)
		for _, p := range rows {
			out.Rows = append(out.Rows, append(append([]rv.V(nil), p.l...), p.r...))
		}
		return out, nil
	}
	ev.Merged = true
	lj := map[int]int{} // left index -> right index
	rj := map[int]bool{}
	for _, p := range pairs {
		lj[p[0]] = p[1]
		rj[p[1]] = true
	}
	type src struct {
		l, r int // -1 = none
	}
	var plan []src
	if !ev.R.InPlace {
		for _, p := range pairs {
			plan = append(plan, src{p[0], p[1]})
			out.Cols = append(out.Cols, RCol{N: l.Cols[p[0]].N, J: true})
		}
		for i, c := range l.Cols {
			if _, ok := lj[i]; !ok {
				plan = append(plan, src{i, -1})
				out.Cols = append(out.Cols, c)
			}
		}
	} else {
		for i, c := range l.Cols {
			if ri, ok := lj[i]; ok {
				plan = append(plan, src{i, ri})
				out.Cols = append(out.Cols, RCol{N: c.N, J: true})
			} else {
				plan = append(plan, src{i, -1})
				out.Cols = append(out.Cols, c)
			}
		}
	}
	for i, c := range rCols {
		if !rj[i] {
			plan = append(plan, src{-1, i})
			out.Cols = append(out.Cols, c)
		}
	}
	for _, p := range rows {
		o := make([]rv.V, len(plan))
		for i, s := range plan {
			switch {
			case s.l >= 0 && s.r >= 0:
				a, b := p.l[s.l], p.r[s.r]
				switch {
				case a.K == rv.Null:
					o[i] = b
				case b.K == rv.Null:
					o[i] = a
				case ev.R.PreferRight:
					o[i] = b
				default:
					o[i] = a
				}
			case s.l >= 0:
				o[i] = p.l[s.l]
			default:
				o[i] = p.r[s.r]
			}
		}
		out.Rows = append(out.Rows, o)
	}
	return out, nil
}

// lookup resolves a field reference: innermost frame first, the first frame that knows the name decides.
func lookup(c Col, sc scope) (rv.V, error) {
	for _, f := range sc.frames {
		idx := -1
		n := 0
		for i, rc := range f.cols {
			if rc.Anon || !strings.EqualFold(rc.N, c.N) {
				continue
			}
			if c.T != "" {
				if rc.J || !strings.EqualFold(rc.T, c.T) {
					continue
				}
			} else if rc.J {
				idx, n = i, 1
				break
			}
			idx = i
			n++
		}
		if n > 1 {
			return rv.V{}, errf("ambiguous", "field %s", c.SQL())
		}
		if n == 1 {
			if f.row == nil {
				return rv.N(), nil
			}
			return f.row[idx], nil
		}
	}
	return rv.V{}, errf("notexist", "field %s", c.SQL())
}

// check resolves the field references of e without rows (an empty source must still reject unknown fields).
func (ev *Ev) check(e Expr, sc scope) error {
	switch x := e.(type) {
	case Col:
		_, err := lookup(x, sc)
		return err
	case Cmp:
		if err := ev.check(x.L, sc); err != nil {
			return err
		}
		return ev.check(x.R, sc)
	case Logic:
		if err := ev.check(x.L, sc); err != nil {
			return err
		}
		return ev.check(x.R, sc)
	case Arith:
		if err := ev.check(x.L, sc); err != nil {
			return err
		}
		return ev.check(x.R, sc)
	case Not:
		return ev.check(x.E, sc)
	case IsNull:
		return ev.check(x.E, sc)
	case In:
		return ev.check(x.E, sc)
	}
	return nil
}

func (ev *Ev) expr(e Expr, sc scope) (rv.V, error) {
	switch x := e.(type) {
	case Col:
		return lookup(x, sc)
	case Lit:
		return x.V, nil
	case Cmp:
		a, err := ev.expr(x.L, sc)
		if err != nil {
			return a, err
		}
		b, err := ev.expr(x.R, sc)
		if err != nil {
			return b, err
		}
		return rv.Tv(rv.Op(a, b, x.Op)), nil
	case Logic:
		a, err := ev.expr(x.L, sc)
		if err != nil {
			return a, err
		}
		b, err := ev.expr(x.R, sc)
		if err != nil {
			return b, err
		}
		if x.Op == "AND" {
			return rv.Tv(rv.And(a.Tern3(), b.Tern3())), nil
		}
		return rv.Tv(rv.Or(a.Tern3(), b.Tern3())), nil
	case Not:
		a, err := ev.expr(x.E, sc)
		if err != nil {
			return a, err
		}
		return rv.Tv(rv.Not(a.Tern3())), nil
	case IsNull:
		a, err := ev.expr(x.E, sc)
		if err != nil {
			return a, err
		}
		t := rv.F
		if (a.K == rv.Null) != x.Neg {
			t = rv.T
		}
		return rv.Tv(t), nil
	case Arith:
		a, err := ev.expr(x.L, sc)
		if err != nil {
			return a, err
		}
		b, err := ev.expr(x.R, sc)
		if err != nil {
			return b, err
		}
		r := rv.Arith(a, b, x.Op)
		if r.Err {
			return rv.V{}, errf("divzero", "integer division by zero")
		}
		return r.V, nil
	case In:
		a, err := ev.expr(x.E, sc)
		if err != nil {
			return a, err
		}
		rel, err := ev.query(x.Q, sc)
		if err != nil {
			return rv.V{}, err
		}
		if len(rel.Cols) != 1 {
			return rv.V{}, errf("fieldcount", "IN needs a single-field subquery")
		}
		// IN is = ANY, NOT IN is <> ALL
		if !x.Neg {
			t := rv.F
			for _, r := range rel.Rows {
				t = rv.Or(t, rv.Op(a, r[0], "="))
			}
			return rv.Tv(t), nil
		}
		t := rv.T
		for _, r := range rel.Rows {
			t = rv.And(t, rv.Op(a, r[0], "<>"))
		}
		return rv.Tv(t), nil
	case Exists:
		rel, err := ev.query(x.Q, sc)
		if err != nil {
			return rv.V{}, err
		}
		t := rv.F
		if (len(rel.Rows) > 0) != x.Neg {
			t = rv.T
		}
		return rv.Tv(t), nil
	case Scalar:
		rel, err := ev.query(x.Q, sc)
		if err != nil {
			return rv.V{}, err
		}
		if len(rel.Cols) != 1 {
			return rv.V{}, errf("fieldcount", "subquery needs exactly one field")
		}
		if len(rel.Rows) > 1 {
			return rv.V{}, errf("toomany", "subquery returns more than one record")
		}
		if len(rel.Rows) == 0 {
			return rv.N(), nil
		}
		return rel.Rows[0][0], nil
	}
	return rv.V{}, errf("model", "unknown expression %T", e)
}

// ---- comparison of results ----------------------------------------------------------------------

func RowKey(r []rv.V) string {
	var sb strings.Builder
	for i, c := range r {
		if i > 0 {
			sb.WriteByte('|')
		}
		sb.WriteString(c.Key())
	}
	return sb.String()
}

// SameRows compares two results: as sequences when ordered, as multisets otherwise.
func SameRows(got, want [][]rv.V, ordered bool) bool {
	if len(got) != len(want) {
		return false
	}
	g := make([]string, len(got))
	w := make([]string, len(want))
	for i := range got {
		g[i] = RowKey(got[i])
		w[i] = RowKey(want[i])
	}
	if !ordered {
		sort.Strings(g)
		sort.Strings(w)
	}
	for i := range g {
		if g[i] != w[i] {
			return false
		}
	}
	return true
}

// RowsText prints at most 12 rows.
func RowsText(rows [][]rv.V) string {
	var sb strings.Builder
	sb.WriteByte('{')
	for i, r := range rows {
		if i > 0 {
			sb.WriteString(" ; ")
		}
		if i >= 12 {
			fmt.Fprintf(&sb, "... %d rows in all", len(rows))
			break
		}
		sb.WriteString(RowKey(r))
	}
	sb.WriteByte('}')
	return sb.String()
}

// ---- static facts about a query -----------------------------------------------------------------------

// Visit calls fn for every table expression and every expression of the query, nested queries included.
func (q *Query) Visit(ft func(Table), fe func(Expr)) {
	for _, c := range q.With {
		c.Q.Visit(ft, fe)
	}
	visitBody(q.Body, ft, fe)
}

func visitBody(b Body, ft func(Table), fe func(Expr)) {
	switch x := b.(type) {
	case *Select:
		for _, t := range x.From {
			visitTable(t, ft, fe)
		}
		for _, f := range x.Fields {
			if f.E != nil {
				visitExpr(f.E, ft, fe)
			}
		}
		if x.Where != nil {
			visitExpr(x.Where, ft, fe)
		}
	case *UnionAll:
		visitBody(x.L, ft, fe)
		visitBody(x.R, ft, fe)
	}
}

func visitTable(t Table, ft func(Table), fe func(Expr)) {
	ft(t)
	switch x := t.(type) {
	case Sub:
		x.Q.Visit(ft, fe)
	case Join:
		visitTable(x.L, ft, fe)
		visitTable(x.R, ft, fe)
		if x.On != nil {
			visitExpr(x.On, ft, fe)
		}
	}
}

func visitExpr(e Expr, ft func(Table), fe func(Expr)) {
	fe(e)
	switch x := e.(type) {
	case Cmp:
		visitExpr(x.L, ft, fe)
		visitExpr(x.R, ft, fe)
	case Logic:
		visitExpr(x.L, ft, fe)
		visitExpr(x.R, ft, fe)
	case Arith:
		visitExpr(x.L, ft, fe)
		visitExpr(x.R, ft, fe)
	case Not:
		visitExpr(x.E, ft, fe)
	case IsNull:
		visitExpr(x.E, ft, fe)
	case In:
		visitExpr(x.E, ft, fe)
		x.Q.Visit(ft, fe)
	case Exists:
		x.Q.Visit(ft, fe)
	case Scalar:
		x.Q.Visit(ft, fe)
	}
}

// RefNames lists the names used as table references (CTE names included), lower-cased, without repetition.
func (q *Query) RefNames() []string {
	seen := map[string]bool{}
	var out []string
	q.Visit(func(t Table) {
		if r, ok := t.(Ref); ok {
			n := strings.ToLower(r.Name)
			if !seen[n] {
				seen[n] = true
				out = append(out, n)
			}
		}
	}, func(Expr) {})
	return out
}

// HasFromSubquery: some FROM clause contains a parenthesised query.
func (q *Query) HasFromSubquery() bool {
	found := false
	q.Visit(func(t Table) {
		if _, ok := t.(Sub); ok {
			found = true
		}
	}, func(Expr) {})
	return found
}
