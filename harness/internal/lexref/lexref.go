// Package lexref is the small reference model of check C18: how program text
// divides into lines and columns, where a reported syntax error may point, and
// how a string or an enclosed identifier is spelled in program text according
// to the manual (docs/_posts/2006-01-02-statement.md, "Parsing"):
//
//	"A string is a character string enclosed in Apostrophes or Quotation Marks
//	 (if --ansi-quotes is not specified). In a string, enclosure characters are
//	 escaped by backslashes or double enclosures."
//	"... you can use most character strings as an identifier by enclosing in
//	 Grave Accents or Quotation Marks if --ansi-quotes is specified. Enclosure
//	 characters are escaped by backslashes or double enclosures."
//
// Nothing here is derived from csvq's scanner.
package lexref

import "unicode"

// Lines splits program text into the rune content of its lines. The manual does
// not say which characters end a line; csvq counts LF, CR LF and a bare CR as one
// line break each and the model follows that reading. The text after the last
// line break is a line of its own, so there is always at least one line.
func Lines(src string) [][]rune {
	rs := []rune(src)
	lines := [][]rune{}
	cur := []rune{}
	for i := 0; i < len(rs); i++ {
		switch rs[i] {
		case '\r':
			if i+1 < len(rs) && rs[i+1] == '\n' {
				i++
			}
			lines = append(lines, cur)
			cur = []rune{}
		case '\n':
			lines = append(lines, cur)
			cur = []rune{}
		default:
			cur = append(cur, rs[i])
		}
	}
	return append(lines, cur)
}

// CheckPos decides whether (line, char) is a position inside src. Columns count
// runes from 1. atEnd is true for an error that reports the end of the text
// ("unexpected termination"): it must then name the last line and the column of
// the last character read (0 on an empty last line). Any other error names a token,
// so the position must hold a character that is not white space. The result is ""
// or the reason the position is rejected; the first word of the reason is a stable
// class name.
func CheckPos(src string, line, char int, atEnd bool) string {
	ls := Lines(src)
	if line < 1 || line > len(ls) {
		return "line-outside-input"
	}
	l := ls[line-1]
	if char < 0 || char > len(l) {
		return "column-outside-line"
	}
	if atEnd {
		if line != len(ls) || char != len(l) {
			return "termination-not-at-end-of-input"
		}
		return ""
	}
	if char == 0 {
		return "column-zero-for-a-token"
	}
	if unicode.IsSpace(l[char-1]) {
		return "position-on-white-space"
	}
	return ""
}

// Encode spells the character string v as an enclosed literal: every enclosure
// character inside is escaped by doubling it or by a backslash, and a backslash
// is written as two backslashes. Every other character (control characters, line
// breaks, multi-byte runes) is written as it is.
func Encode(v string, quote rune, doubling bool) string {
	out := []rune{quote}
	for _, r := range v {
		switch {
		case r == quote && doubling:
			out = append(out, quote, quote)
		case r == quote:
			out = append(out, '\\', quote)
		case r == '\\':
			out = append(out, '\\', '\\')
		default:
			out = append(out, r)
		}
	}
	return string(append(out, quote))
}

// Meaning is the character string that the literal written by Encode stands for:
// v itself, except that csvq reads a CR LF pair in program text as one line break
// and hands the literal a single LF (the manual is silent; followed).
func Meaning(v string) string {
	rs := []rune(v)
	out := make([]rune, 0, len(rs))
	for i := 0; i < len(rs); i++ {
		if rs[i] == '\r' && i+1 < len(rs) && rs[i+1] == '\n' {
			continue
		}
		out = append(out, rs[i])
	}
	return string(out)
}
