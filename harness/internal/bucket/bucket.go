// Package bucket is the reference model of property C04: which rows of a table
// belong to the same DISTINCT / GROUP BY / set-operator / PARTITION BY bucket, and
// what every aggregate function returns over the rows of one bucket.
//
// It is written from the manual (comparison-operators: the conversion ladder
// integer, float, datetime, boolean, string; flag/command: --strict-equal;
// aggregate-functions; set-operators) on top of the value model rv. It never builds
// a key string: bucket identity is decided by comparing cells pairwise.
package bucket

import (
	"encoding/json"
	"math"
	"sort"
	"strconv"
	"strings"
	"unicode"

	"verif/harness/internal/rv"
)

// StrictSame is the bucket equality under --strict-equal: same type and exactly the same value/text
// (two NULLs are the same).
func StrictSame(a, b rv.V) bool {
	if a.K != b.K {
		return false
	}
	if a.K == rv.Null {
		return true
	}
	return rv.SameValue(a, b)
}

// The property states bucket equality as "both NULL or equal under csvq's documented normalisation
// (integer, float, datetime, boolean, else case-insensitive trimmed text)". That sentence has two
// readings which differ on a few cross-type pairs: (P) the pair is compared with the documented `=`
// ladder; (N) each value is normalised alone to the first class of the ladder it reaches and the
// normal forms are compared. The oracle demands only what BOTH readings demand:
//   - rows equal under P and under N must share a bucket (CellEq, the "must share" relation);
//   - rows in one bucket must be connected by pairs equal under P or under N (CellEqEither, the
//     "may share" relation); anything else is a merge of different rows.

// NormEq is reading N: first class of the ladder a value reaches alone, then equality inside the class.
func NormEq(a, b rv.V) bool {
	if a.K != rv.Null && b.K != rv.Null {
		if x, ok := normInt(a); ok {
			if y, ok := normInt(b); ok {
				return x == y
			}
			return false
		} else if _, ok := normInt(b); ok {
			return false
		}
	}
	ca, cb := normClass(a), normClass(b)
	if ca != cb {
		return false
	}
	switch ca {
	case "N":
		return true
	case "I":
		x, _ := a.StrictInt()
		y, _ := b.StrictInt()
		return x == y
	case "F":
		x, _ := a.Float()
		y, _ := b.Float()
		return x == y || (x != x && y != y)
	case "D":
		x, _ := a.Datetime()
		y, _ := b.Datetime()
		return x.Equal(y)
	case "B":
		x, _ := a.Boolean()
		y, _ := b.Boolean()
		return x == y
	}
	return strings.ToUpper(trimSp(a.S)) == strings.ToUpper(trimSp(b.S))
}

func normClass(v rv.V) string {
	if v.K == rv.Null {
		return "N"
	}
	if _, ok := v.StrictInt(); ok {
		return "I"
	}
	if _, ok := v.Float(); ok {
		return "F"
	}
	if _, ok := v.Datetime(); ok {
		return "D"
	}
	if _, ok := v.Boolean(); ok {
		return "B" // compared as the integers 1 / 0 (the documented Boolean <-> Integer conversion)
	}
	if v.K == rv.Str {
		return "S"
	}
	return "N"
}

func normInt(v rv.V) (int64, bool) {
	if x, ok := v.StrictInt(); ok {
		return x, true
	}
	if _, ok := v.Float(); ok {
		return 0, false
	}
	if _, ok := v.Datetime(); ok {
		return 0, false
	}
	if b, ok := v.Boolean(); ok {
		if b {
			return 1, true
		}
		return 0, true
	}
	return 0, false
}

// CellEq is the "must share" equality of one column: equal under both readings.
func CellEq(a, b rv.V, strict bool) bool {
	if strict {
		return StrictSame(a, b)
	}
	return NormEq(a, b)
}

// RowsEqP: reading P (the pairwise `=` ladder), column by column.
func RowsEqP(a, b []rv.V) bool {
	for k := range a {
		if !rv.Equivalent(a[k], b[k]) {
			return false
		}
	}
	return true
}

// CellEqEither is the "may share" equality of one column: equal under at least one reading.
func CellEqEither(a, b rv.V, strict bool) bool {
	if strict {
		return StrictSame(a, b)
	}
	return rv.Equivalent(a, b) || NormEq(a, b)
}

// Matrix is the column equality over an alphabet of cell values, computed once.
type Matrix struct {
	n  int
	eq []bool
}

// NewMatrixEither is NewMatrix over the "may share" relation.
func NewMatrixEither(alpha []rv.V, strict bool) *Matrix {
	n := len(alpha)
	m := &Matrix{n: n, eq: make([]bool, n*n)}
	for i := 0; i < n; i++ {
		for j := i; j < n; j++ {
			e := CellEqEither(alpha[i], alpha[j], strict) || CellEqEither(alpha[j], alpha[i], strict)
			m.eq[i*n+j] = e
			m.eq[j*n+i] = e
		}
	}
	return m
}

func NewMatrix(alpha []rv.V, strict bool) *Matrix {
	n := len(alpha)
	m := &Matrix{n: n, eq: make([]bool, n*n)}
	for i := 0; i < n; i++ {
		for j := i; j < n; j++ {
			e := CellEq(alpha[i], alpha[j], strict)
			// the relation is symmetric by construction of the ladder; keep the matrix symmetric on the
			// stricter side so an asymmetry in rv can never create a demand
			if i != j {
				e = e && CellEq(alpha[j], alpha[i], strict)
			}
			m.eq[i*n+j] = e
			m.eq[j*n+i] = e
		}
	}
	return m
}

func (m *Matrix) Eq(i, j int) bool { return m.eq[i*m.n+j] }

// RowEq: column by column.
func (m *Matrix) RowEq(a, b []int) bool {
	for k := range a {
		if !m.eq[a[k]*m.n+b[k]] {
			return false
		}
	}
	return true
}

// Components returns the reference partition of rows 0..n-1: the connected components of the
// row-equality graph, numbered by first member. Where equality is an equivalence on the table
// (transitive==true) these are exactly its classes, i.e. the property's "same bucket iff equal".
// Where it is not (csvq's `=` is not transitive across types), the components are the weakest
// unambiguous reading: rows that are equal must share a bucket, and a bucket must hang together by
// equalities.
func Components(rows [][]int, m *Matrix) (comp []int, ncomp int, transitive bool) {
	n := len(rows)
	parent := make([]int, n)
	for i := range parent {
		parent[i] = i
	}
	var find func(int) int
	find = func(x int) int {
		for parent[x] != x {
			parent[x] = parent[parent[x]]
			x = parent[x]
		}
		return x
	}
	for i := 0; i < n; i++ {
		for j := i + 1; j < n; j++ {
			if m.RowEq(rows[i], rows[j]) {
				a, b := find(i), find(j)
				if a != b {
					if a < b {
						parent[b] = a
					} else {
						parent[a] = b
					}
				}
			}
		}
	}
	comp = make([]int, n)
	id := map[int]int{}
	members := [][]int{}
	for i := 0; i < n; i++ {
		r := find(i)
		c, ok := id[r]
		if !ok {
			c = len(id)
			id[r] = c
			members = append(members, nil)
		}
		comp[i] = c
		members[c] = append(members[c], i)
	}
	transitive = true
	budget := 4000000
outer:
	for _, ms := range members {
		for x := 0; x < len(ms); x++ {
			for y := x + 1; y < len(ms); y++ {
				budget--
				if !m.RowEq(rows[ms[x]], rows[ms[y]]) {
					transitive = false
					break outer
				}
				if budget < 0 {
					break outer
				}
			}
		}
	}
	return comp, len(id), transitive
}

// ---- classes used to NAME a disagreement (they never decide whether there is one) -----------------

// Class is the first rung of the documented ladder a single value reaches.
func Class(v rv.V) string {
	if v.K == rv.Null {
		return "N"
	}
	if _, ok := v.StrictInt(); ok {
		return "I"
	}
	if _, ok := v.Float(); ok {
		return "F"
	}
	if _, ok := v.Datetime(); ok {
		return "D"
	}
	if _, ok := v.Boolean(); ok {
		return "B"
	}
	if v.K == rv.Str {
		return "S"
	}
	return "X"
}

var kindNames = [...]string{"Null", "Int", "Float", "Str", "Bool", "Tern", "Date"}

func KindName(v rv.V) string { return kindNames[v.K] }

func hasKeySyntax(v rv.V) bool { return v.K == rv.Str && strings.Contains(v.S, ":[") }

func rowHasKeySyntax(r []rv.V) bool {
	for _, v := range r {
		if hasKeySyntax(v) {
			return true
		}
	}
	return false
}

func trimSp(s string) string { return strings.TrimFunc(s, unicode.IsSpace) }

// MergeFamily names the class of two rows that are NOT equal but were put in one bucket.
// recognised=false means no narrow family applies (the caller then includes the operator in the signature).
func MergeFamily(a, b []rv.V, strict bool) (family string, recognised bool) {
	// texts that contain the implementation's key syntax, in both rows, with at least two key columns
	if len(a) >= 2 && rowHasKeySyntax(a) && rowHasKeySyntax(b) {
		return "arity" + strconv.Itoa(len(a)) + ":text-with-key-separator", true
	}
	diff := []int{}
	for k := range a {
		if !CellEq(a[k], b[k], strict) {
			diff = append(diff, k)
		}
	}
	if strict {
		all := len(diff) > 0
		for _, k := range diff {
			if !(a[k].K == rv.Str && b[k].K == rv.Str && trimSp(a[k].S) == trimSp(b[k].S)) {
				all = false
			}
		}
		if all {
			return "strict:text-differs-only-in-surrounding-space", true
		}
	} else {
		all := len(diff) > 0
		for _, k := range diff {
			if !(intSpelledTruth(a[k], b[k]) || intSpelledTruth(b[k], a[k])) {
				all = false
			}
		}
		if all {
			return "normal:integer-text-vs-boolean", true
		}
	}
	return modeName(strict) + ":other", false
}

// x is an integer-class value 0/1 that is NOT itself convertible to boolean (e.g. '01', '+1', '00'),
// y is boolean-class only, with the same truth value.
func intSpelledTruth(x, y rv.V) bool {
	i, ok := x.StrictInt()
	if !ok || (i != 0 && i != 1) {
		return false
	}
	if _, isB := x.Boolean(); isB {
		return false
	}
	if Class(y) != "B" {
		return false
	}
	b, _ := y.Boolean()
	return b == (i == 1)
}

// SplitFamily names the class of two rows that ARE equal but were put in different buckets.
// First recognised family: in some column one value is float-class (a float, or text that is a number but not
// an integer spelling) and the other is integer-class or boolean-class, i.e. the pair is equal on the float or
// boolean rung of the ladder although the two values, taken alone, stop at different rungs.
func SplitFamily(a, b []rv.V, strict bool) (family string, recognised bool) {
	if strict {
		return "strict:other", false
	}
	for k := range a {
		ca, cb := Class(a[k]), Class(b[k])
		if ca > cb {
			ca, cb = cb, ca
		}
		if ca+cb == "FI" || ca+cb == "BF" {
			return "normal:float-class-vs-integer-or-boolean-class", true
		}
	}
	// second family: one text is a boolean spelling csvq accepts ('True'), the other is the same text in another
	// case that is not ('tRuE'): equal as case-insensitive text, but only one of them is boolean-class on its own
	for k := range a {
		ca, cb := Class(a[k]), Class(b[k])
		if ca > cb {
			ca, cb = cb, ca
		}
		if ca+cb == "BS" {
			return "normal:boolean-spelling-vs-same-text-in-other-case", true
		}
	}
	return "normal:other", false
}

func modeName(strict bool) string {
	if strict {
		return "strict"
	}
	return "normal"
}

// ---- aggregates over one bucket ----------------------------------------------------------------

// Agg is a reference result: either one value, or a set of acceptable values (MIN/MAX ties), or a float
// compared with a relative tolerance, or a multiset of items (LISTAGG / JSON_AGG without a promised order).
type Agg struct {
	Kind   string // "exact", "approx", "oneof", "list", "json"
	V      rv.V
	OneOf  []rv.V
	Items  []string // list: the separated texts; json: canonical JSON of each element
	IsNull bool     // list/json: NULL expected
	AlsoOK []rv.V   // further acceptable exact values where the manual is silent
}

func floats(vs []rv.V) []float64 {
	out := []float64{}
	for _, v := range vs {
		if v.K == rv.Null {
			continue
		}
		if f, ok := v.Float(); ok {
			out = append(out, f)
		}
	}
	return out
}

// Distinct keeps one representative per bucket of values (first member), buckets as for rows.
func Distinct(vs []rv.V, strict bool) []rv.V {
	out := []rv.V{}
	comp := make([]int, len(vs))
	for i := range comp {
		comp[i] = -1
	}
	// connected components of value equality, first member represents
	n := 0
	for i := range vs {
		if comp[i] >= 0 {
			continue
		}
		comp[i] = n
		stack := []int{i}
		for len(stack) > 0 {
			x := stack[len(stack)-1]
			stack = stack[:len(stack)-1]
			for j := range vs {
				if comp[j] < 0 && CellEq(vs[x], vs[j], strict) {
					comp[j] = n
					stack = append(stack, j)
				}
			}
		}
		out = append(out, vs[i])
		n++
	}
	return out
}

func Count(vs []rv.V) Agg {
	n := int64(0)
	for _, v := range vs {
		if v.K != rv.Null {
			n++
		}
	}
	return Agg{Kind: "exact", V: rv.I(n)}
}

func nonNull(vs []rv.V) []rv.V {
	out := []rv.V{}
	for _, v := range vs {
		if v.K != rv.Null {
			out = append(out, v)
		}
	}
	return out
}

func Sum(vs []rv.V) Agg {
	fs := floats(vs)
	if len(fs) == 0 {
		return Agg{Kind: "exact", V: rv.N()}
	}
	s := 0.0
	for _, f := range fs {
		s += f
	}
	return Agg{Kind: "approx", V: rv.Fl(s)}
}

func Avg(vs []rv.V) Agg {
	fs := floats(vs)
	if len(fs) == 0 {
		return Agg{Kind: "exact", V: rv.N()}
	}
	s := 0.0
	for _, f := range fs {
		s += f
	}
	return Agg{Kind: "approx", V: rv.Fl(s / float64(len(fs)))}
}

// Variance: population (divide by n) or sample (divide by n-1; undefined for one value: the manual only
// says NULL "if all values are null"; NULL for a single value is accepted as a reasonable reading).
func Variance(vs []rv.V, population, root bool) Agg {
	fs := floats(vs)
	if len(fs) == 0 {
		return Agg{Kind: "exact", V: rv.N()}
	}
	if !population && len(fs) < 2 {
		return Agg{Kind: "exact", V: rv.N()}
	}
	mean := 0.0
	for _, f := range fs {
		mean += f
	}
	mean /= float64(len(fs))
	ss := 0.0
	for _, f := range fs {
		ss += (f - mean) * (f - mean)
	}
	d := float64(len(fs))
	if !population {
		d--
	}
	r := ss / d
	if root {
		r = math.Sqrt(r)
	}
	return Agg{Kind: "approx", V: rv.Fl(r)}
}

func Median(vs []rv.V) Agg {
	fs := floats(vs)
	if len(fs) == 0 {
		return Agg{Kind: "exact", V: rv.N()}
	}
	sort.Float64s(fs)
	var m float64
	if len(fs)%2 == 1 {
		m = fs[len(fs)/2]
	} else {
		m = (fs[len(fs)/2-1] + fs[len(fs)/2]) / 2
	}
	return Agg{Kind: "approx", V: rv.Fl(m)}
}

// MinMax: the non-null values no other value is strictly below (above); any of them is acceptable.
// ok=false when the bucket holds values the ladder cannot order against each other (then nothing is demanded).
func MinMax(vs []rv.V, max bool) (Agg, bool) {
	nn := nonNull(vs)
	if len(nn) == 0 {
		return Agg{Kind: "exact", V: rv.N()}, true
	}
	for i := range nn {
		for j := range nn {
			c := rv.Compare(nn[i], nn[j])
			if c != rv.EQ && c != rv.LT && c != rv.GT {
				return Agg{}, false
			}
		}
	}
	op := "<"
	if max {
		op = ">"
	}
	out := []rv.V{}
	for i := range nn {
		minimal := true
		for j := range nn {
			if rv.Op(nn[j], nn[i], op) == rv.T {
				minimal = false
				break
			}
		}
		if minimal {
			out = append(out, nn[i])
		}
	}
	return Agg{Kind: "oneof", OneOf: out}, true
}

// Text is the string form of a value inside LISTAGG (ok=false: the value has no string form and is skipped,
// as the manual's "concatenated non-null values" is read for booleans/ternaries/datetimes by csvq).
func Text(v rv.V) (string, bool) {
	switch v.K {
	case rv.Str:
		return v.S, true
	case rv.Int:
		return strconv.FormatInt(v.I, 10), true
	case rv.Float:
		return strconv.FormatFloat(v.F, 'f', -1, 64), true
	}
	return "", false
}

func ListAgg(vs []rv.V) Agg {
	items := []string{}
	for _, v := range vs {
		if s, ok := Text(v); ok {
			items = append(items, s)
		}
	}
	if len(items) == 0 {
		return Agg{Kind: "list", IsNull: true}
	}
	sort.Strings(items)
	return Agg{Kind: "list", Items: items}
}

// JSONCanon renders one value as a canonical JSON token for structural comparison.
func JSONCanon(v rv.V) string {
	switch v.K {
	case rv.Null:
		return "null"
	case rv.Str:
		b, _ := json.Marshal(v.S)
		return string(b)
	case rv.Int:
		return "n" + strconv.FormatFloat(float64(v.I), 'g', -1, 64)
	case rv.Float:
		return "n" + strconv.FormatFloat(v.F, 'g', -1, 64)
	case rv.Bool:
		return strconv.FormatBool(v.B)
	case rv.Tern:
		if v.T == rv.T {
			return "true"
		}
		if v.T == rv.F {
			return "false"
		}
		return "null"
	}
	return "?"
}

func JSONAgg(vs []rv.V) Agg {
	if len(vs) == 0 {
		// the manual is silent about an empty group; NULL (csvq) and "[]" are both accepted
		return Agg{Kind: "json", IsNull: true}
	}
	items := []string{}
	for _, v := range vs {
		items = append(items, JSONCanon(v))
	}
	sort.Strings(items)
	return Agg{Kind: "json", Items: items}
}

// ParseJSONArray canonicalises csvq's JSON_AGG text the same way.
func ParseJSONArray(s string) ([]string, bool) {
	dec := json.NewDecoder(strings.NewReader(s))
	dec.UseNumber()
	var arr []any
	if err := dec.Decode(&arr); err != nil {
		return nil, false
	}
	out := []string{}
	for _, e := range arr {
		switch x := e.(type) {
		case nil:
			out = append(out, "null")
		case string:
			b, _ := json.Marshal(x)
			out = append(out, string(b))
		case json.Number:
			f, err := x.Float64()
			if err != nil {
				return nil, false
			}
			out = append(out, "n"+strconv.FormatFloat(f, 'g', -1, 64))
		case bool:
			out = append(out, strconv.FormatBool(x))
		default:
			return nil, false
		}
	}
	sort.Strings(out)
	return out, true
}

// UserAgg is the reference of the harness's user-defined aggregate: count of non-null values * 10^7 + their sum.
func UserAgg(vs []rv.V) Agg {
	n, s := 0.0, 0.0
	for _, v := range vs {
		if v.K == rv.Null {
			continue
		}
		f, ok := v.Float()
		if !ok {
			continue
		}
		n++
		s += f
	}
	return Agg{Kind: "approx", V: rv.Fl(n*1e7 + s)}
}

// Matches compares a csvq result with a reference aggregate.
func (a Agg) Matches(got rv.V) bool {
	switch a.Kind {
	case "exact":
		if rv.SameValue(got, a.V) {
			return true
		}
		for _, o := range a.AlsoOK {
			if rv.SameValue(got, o) {
				return true
			}
		}
		return false
	case "approx":
		if a.V.K == rv.Null {
			return got.K == rv.Null
		}
		g, ok := got.Float()
		if !ok || got.K == rv.Null || got.K == rv.Str {
			return false
		}
		w := a.V.F
		if g == w {
			return true
		}
		return math.Abs(g-w) <= 1e-9*math.Max(math.Abs(g), math.Abs(w))
	case "oneof":
		for _, o := range a.OneOf {
			if rv.SameValue(got, o) {
				return true
			}
		}
		return false
	}
	return false
}

// MatchesList compares a separated text (LISTAGG) as a multiset.
func (a Agg) MatchesList(got rv.V, sep string) bool {
	if a.IsNull {
		return got.K == rv.Null
	}
	if got.K != rv.Str {
		return false
	}
	items := strings.Split(got.S, sep)
	sort.Strings(items)
	if len(items) != len(a.Items) {
		return false
	}
	for i := range items {
		if items[i] != a.Items[i] {
			return false
		}
	}
	return true
}

func (a Agg) MatchesJSON(got rv.V) bool {
	if a.IsNull {
		return got.K == rv.Null || (got.K == rv.Str && strings.TrimSpace(got.S) == "[]")
	}
	if got.K != rv.Str {
		return false
	}
	items, ok := ParseJSONArray(got.S)
	if !ok || len(items) != len(a.Items) {
		return false
	}
	for i := range items {
		if items[i] != a.Items[i] {
			return false
		}
	}
	return true
}

func (a Agg) String() string {
	switch a.Kind {
	case "exact", "approx":
		return a.V.Key()
	case "oneof":
		s := []string{}
		for _, o := range a.OneOf {
			s = append(s, o.Key())
		}
		return "one of {" + strings.Join(s, ", ") + "}"
	}
	if a.IsNull {
		return "NULL"
	}
	return "multiset {" + strings.Join(a.Items, " ") + "}"
}
