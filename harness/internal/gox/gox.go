//go:build verifx

// Package gox is the goroutine-schedule explorer (engine E3). The worker goroutines csvq starts inside one
// query (all through vrt.GoN), their mutexes, their wait group and every per-record loop head are routed
// through the vrt shim; gox implements vrt.Sched as a cooperative scheduler: exactly one task runs at a
// time and every scheduling decision is taken from a prescribed choice vector. Go map iteration order is a
// choice point of the same kind (vrt.Keys).
//
// The hand-off between goroutines is a spin on plain memory inside //go:norace functions, and the
// scheduler's own state lives in fixed arrays touched only by such functions: the race detector sees no
// synchronisation added by the scheduler, so under -race it still reports every unsynchronised conflicting
// access between workers (and stays silent for accesses ordered by csvq's own mutexes, which are really
// taken). The same binary therefore serves result-determinism (C12) and race-freedom (C13).
package gox

import (
	"fmt"
	"os"
	"runtime"
	"sync"

	"github.com/mithrandie/csvq/lib/verifshim/vrt"
)

const (
	maxTasks  = 24
	maxLocks  = 64
	maxWgs    = 16
	maxPoints = 65536
)

const (
	stFree = iota
	stRunnable
	stBlockedLock
	stBlockedWg
	stDone
)

type task struct {
	state int
	turn  uint32
	waitL sync.Locker
	waitW *sync.WaitGroup
	fn    func()
}

type lockRec struct {
	l     sync.Locker
	owner int // task index + 1
}

type wgRec struct {
	wg *sync.WaitGroup
	n  int
}

// Point describes one choice point of an execution.
type Point struct {
	Kind       byte // 't' thread choice, 'm' map order choice
	N          int  // number of alternatives
	Chosen     int
	CurEnabled bool // thread choice: the running task could have continued
	Site       string
}

type scheduler struct {
	active  bool
	tasks   [maxTasks]task
	ntasks  int
	cur     int
	locks   [maxLocks]lockRec
	wgs     [maxWgs]wgRec
	prefix  [maxPoints]int
	nprefix int
	points  [maxPoints]Point
	npoints int
	// outcome flags
	spawned    int
	deadlock   bool
	overflow   bool
	divergence bool
	mapSites   [64]string
	nMapSites  int
}

var s scheduler

var dbgLog []string

func dbg(f string, a ...any) {
	if os.Getenv("VERIF_GOX_DEBUG") != "" {
		dbgLog = append(dbgLog, fmt.Sprintf(f, a...))
		if len(dbgLog) > 60 {
			dbgLog = dbgLog[1:]
		}
	}
}

type impl struct{}

//go:norace
func (impl) Active() bool { return s.active }

func init() { vrt.S = impl{} }

// The hand-off flag is plain memory (an atomic would be a happens-before edge for the race detector and blind
// it). Reads and writes of it go through non-inlined functions so the compiler cannot move the accesses to
// the scheduler's state across them; on amd64 the hardware keeps stores in program order.
//
//go:norace
//go:noinline
func giveTurn(t *task) { t.turn = 1 }

//go:norace
//go:noinline
func hasTurn(t *task) bool { return t.turn != 0 }

//go:norace
//go:noinline
func takeTurn(t *task) { t.turn = 0 }

//go:norace
func spinUntilTurn(t *task) {
	for !hasTurn(t) {
		runtime.Gosched()
	}
	takeTurn(t)
}

// choose consults the prefix (then the default 0) and records the point.
//
//go:norace
func choose(kind byte, n int, curEnabled bool, site string) int {
	c := 0
	if s.npoints < s.nprefix {
		c = s.prefix[s.npoints]
		if c >= n {
			s.divergence = true
			c = 0
		}
	}
	if s.npoints < maxPoints {
		s.points[s.npoints] = Point{Kind: kind, N: n, Chosen: c, CurEnabled: curEnabled, Site: site}
		s.npoints++
	} else {
		s.overflow = true
	}
	return c
}

// schedule picks the next task to run. Canonical order of the enabled tasks: the current task first if it is
// runnable, then ascending ids. Returns -1 if no task is runnable.
//
//go:norace
func schedule() int {
	var order [maxTasks]int
	n := 0
	curEnabled := s.tasks[s.cur].state == stRunnable
	if curEnabled {
		order[n] = s.cur
		n++
	}
	for i := 0; i < s.ntasks; i++ {
		if i != s.cur && s.tasks[i].state == stRunnable {
			order[n] = i
			n++
		}
	}
	if n == 0 {
		return -1
	}
	if n == 1 {
		return order[0]
	}
	return order[choose('t', n, curEnabled, "")]
}

// yield: the current task reaches a scheduling point (it may be blocked or done now).
//
//go:norace
func yield() {
	me := s.cur
	next := schedule()
	if next < 0 {
		// nobody can run: every live task is blocked
		alive := false
		for i := 0; i < s.ntasks; i++ {
			if s.tasks[i].state == stBlockedLock || s.tasks[i].state == stBlockedWg {
				alive = true
			}
		}
		if alive {
			s.deadlock = true
		}
		return
	}
	if next == me {
		return
	}
	// read everything about this task before the turn is given away: once another task runs, a finished
	// task's slot may be re-used by a newly spawned one
	done := s.tasks[me].state == stDone
	s.cur = next
	giveTurn(&s.tasks[next])
	if !done {
		spinUntilTurn(&s.tasks[me])
	}
}

// EvalPoints makes every expression evaluation (vrt.Point("eval") at the top of query.Evaluate) and every loop
// iteration in lib/query (vrt.Point("loop")) a scheduling
// point: two accesses to a buffer shared by mistake between workers then have a point between them. Off by
// default (C13 does not need it: the race detector sees such accesses wherever the switches are).
var EvalPoints bool

// LoopPoints does the same for every loop iteration in lib/query (vrt.Point("loop") at the top of each loop body).
var LoopPoints bool

//go:norace
func (impl) Point(kind string) {
	if (kind == "eval" && !EvalPoints) || (kind == "loop" && !LoopPoints) {
		return
	}
	yield()
}

//go:norace
func (impl) Spawn(fn func()) {
	id := -1
	for i := 1; i < s.ntasks; i++ { // slots of finished tasks are reused (the query runs many short parallel phases)
		if s.tasks[i].state == stDone && i != s.cur {
			id = i
			break
		}
	}
	if id < 0 {
		if s.ntasks >= maxTasks {
			s.overflow = true
			go fn()
			return
		}
		id = s.ntasks
		s.ntasks++
	}
	s.spawned++
	s.tasks[id] = task{state: stRunnable, fn: fn}
	go taskMain(id)
	yield()
}

//go:norace
func taskMain(id int) {
	spinUntilTurn(&s.tasks[id])
	s.tasks[id].fn()
	taskExit(id)
}

//go:norace
func taskExit(id int) {
	s.tasks[id].state = stDone
	s.tasks[id].fn = nil
	yield()
}

//go:norace
func findLock(l sync.Locker) *lockRec {
	var free *lockRec
	for i := range s.locks {
		if s.locks[i].l == l {
			return &s.locks[i]
		}
		if s.locks[i].l == nil && free == nil {
			free = &s.locks[i]
		}
	}
	if free == nil {
		s.overflow = true
		return &s.locks[0]
	}
	free.l = l
	free.owner = 0
	return free
}

//go:norace
func (impl) Lock(l sync.Locker) {
	dbg("task %d Lock(%p) enter", s.cur, l)
	yield() // the step "try to take the lock" is a scheduling point
	r := findLock(l)
	dbg("task %d Lock(%p) after yield owner=%d", s.cur, l, r.owner)
	for r.owner != 0 {
		me := s.cur
		s.tasks[me].state = stBlockedLock
		s.tasks[me].waitL = l
		yield()
		if s.deadlock {
			break
		}
		r = findLock(l) // the record may have been released and re-used meanwhile
	}
	r.owner = s.cur + 1
	if m, ok := l.(*sync.Mutex); ok && os.Getenv("VERIF_GOX_DEBUG") != "" {
		if !m.TryLock() {
			fmt.Fprintf(os.Stderr, "gox: INCONSISTENT: task %d takes %p which is really held; deadlock=%v cur=%d ntasks=%d npoints=%d\n", s.cur, m, s.deadlock, s.cur, s.ntasks, s.npoints)
			for i := 0; i < s.ntasks; i++ {
				fmt.Fprintf(os.Stderr, "  task %d state=%d turn=%d waitL=%v\n", i, s.tasks[i].state, s.tasks[i].turn, s.tasks[i].waitL)
			}
			for i := range s.locks {
				if s.locks[i].l != nil {
					fmt.Fprintf(os.Stderr, "  lock %d %v owner=%d\n", i, s.locks[i].l, s.locks[i].owner)
				}
			}
			for _, d := range dbgLog {
				fmt.Fprintln(os.Stderr, "   ", d)
			}
			os.Exit(7)
		}
		return
	}
	l.Lock() // the real primitive: never blocks here, and gives the race detector its true happens-before edge
}

//go:norace
func (impl) Unlock(l sync.Locker) {
	dbg("task %d Unlock(%p)", s.cur, l)
	l.Unlock()
	r := findLock(l)
	r.owner = 0
	r.l = nil
	for i := 0; i < s.ntasks; i++ {
		if s.tasks[i].state == stBlockedLock && s.tasks[i].waitL == l {
			s.tasks[i].state = stRunnable
			s.tasks[i].waitL = nil
		}
	}
}

//go:norace
func findWg(wg *sync.WaitGroup) *wgRec {
	var free *wgRec
	for i := range s.wgs {
		if s.wgs[i].wg == wg {
			return &s.wgs[i]
		}
		if s.wgs[i].wg == nil && free == nil {
			free = &s.wgs[i]
		}
	}
	if free == nil {
		s.overflow = true
		return &s.wgs[0]
	}
	free.wg = wg
	free.n = 0
	return free
}

//go:norace
func (impl) WgAdd(wg *sync.WaitGroup, n int) {
	wg.Add(n)
	findWg(wg).n += n
}

//go:norace
func (impl) WgDone(wg *sync.WaitGroup) {
	wg.Done()
	r := findWg(wg)
	r.n--
	if r.n <= 0 {
		r.wg = nil
		for i := 0; i < s.ntasks; i++ {
			if s.tasks[i].state == stBlockedWg && s.tasks[i].waitW == wg {
				s.tasks[i].state = stRunnable
				s.tasks[i].waitW = nil
			}
		}
	}
}

//go:norace
func wgCount(wg *sync.WaitGroup) int {
	for i := range s.wgs {
		if s.wgs[i].wg == wg {
			return s.wgs[i].n
		}
	}
	return 0
}

//go:norace
func (impl) WgWait(wg *sync.WaitGroup) {
	for wgCount(wg) > 0 {
		me := s.cur
		s.tasks[me].state = stBlockedWg
		s.tasks[me].waitW = wg
		yield()
		if s.deadlock {
			return
		}
	}
	wg.Wait()
}

var perms = map[int][][]int{}

func init() {
	for n := 2; n <= 4; n++ {
		perms[n] = allPerms(n)
	}
}

func allPerms(n int) [][]int {
	var out [][]int
	p := make([]int, n)
	for i := range p {
		p[i] = i
	}
	var rec func(k int)
	rec = func(k int) {
		if k == n {
			out = append(out, append([]int(nil), p...))
			return
		}
		for i := k; i < n; i++ {
			p[k], p[i] = p[i], p[k]
			rec(k + 1)
			p[k], p[i] = p[i], p[k]
		}
	}
	rec(0)
	return out
}

// MapOrder: all n! orders for n <= 4; identity, reversal and the n-1 rotations beyond.
func (impl) MapOrder(n int, site string) []int {
	var alts [][]int
	if n <= 4 {
		alts = perms[n]
	} else {
		id := make([]int, n)
		rev := make([]int, n)
		for i := range id {
			id[i] = i
			rev[i] = n - 1 - i
		}
		alts = append(alts, id, rev)
		for r := 1; r < n; r++ {
			rot := make([]int, n)
			for i := range rot {
				rot[i] = (i + r) % n
			}
			alts = append(alts, rot)
		}
	}
	c := chooseMap(len(alts), site)
	return alts[c]
}

//go:norace
func chooseMap(n int, site string) int {
	if s.nMapSites < len(s.mapSites) {
		seen := false
		for i := 0; i < s.nMapSites; i++ {
			if s.mapSites[i] == site {
				seen = true
			}
		}
		if !seen {
			s.mapSites[s.nMapSites] = site
			s.nMapSites++
		}
	}
	return choose('m', n, false, site)
}

// ---------------------------------------------------------------------------------------------

// Execution is the record of one controlled run.
type Execution struct {
	Points     []Point
	Deadlock   bool
	Overflow   bool
	Divergence bool
	Tasks      int
	MapSites   []string
}

// Run executes body as the main task under the choice vector prefix (missing choices default to 0).
//
//go:norace
func Run(prefix []int, body func()) Execution {
	s = scheduler{}
	for i, c := range prefix {
		if i < maxPoints {
			s.prefix[i] = c
		}
	}
	s.nprefix = len(prefix)
	if s.nprefix > maxPoints {
		s.nprefix = maxPoints
	}
	s.ntasks = 1
	s.tasks[0] = task{state: stRunnable}
	s.cur = 0
	s.active = true
	body()
	s.active = false
	ex := Execution{Deadlock: s.deadlock, Overflow: s.overflow, Divergence: s.divergence, Tasks: s.spawned + 1}
	ex.Points = make([]Point, s.npoints)
	copy(ex.Points, s.points[:s.npoints])
	for i := 0; i < s.nMapSites; i++ {
		ex.MapSites = append(ex.MapSites, s.mapSites[i])
	}
	return ex
}

// Explorer enumerates choice vectors depth-first with separate bounds on thread preemptions and on map-order
// deviations (a deviation = a non-default choice at one point).
type Explorer struct {
	MaxSwitch    int // bound on non-default thread choices of any kind (0 = unbounded); preemptions are a subset
	MaxPreempt   int
	MaxMapDev    int
	MaxExecs     int
	Stop         func() bool
	Executions   int
	Capped       bool
	MaxPoints    int
	MaxTasks     int
	Deadlocks    int
	Divergences  int
	MapSites     map[string]bool
	ThreadPoints int
	// Shard / NShards split ONE exploration between processes: every shard runs the all-default execution, and the
	// subtrees that start with the k-th first deviation belong to shard k mod NShards. Only shard 0 visits the root.
	Shard, NShards int
	rootChildren   int
}

// Explore runs body under every choice vector within the bounds; visit is called after each execution with
// the choice vector that produced it.
func (e *Explorer) Explore(body func(), visit func(choices []int, ex Execution)) {
	e.ExploreRunner(func(prefix []int) Execution { return Run(prefix, body) }, visit)
}

// ExploreRunner is Explore for callers that set up each execution themselves: run must execute the scenario
// under the given choice vector (through Run) and return its record.
func (e *Explorer) ExploreRunner(run func(prefix []int) Execution, visit func(choices []int, ex Execution)) {
	if e.MapSites == nil {
		e.MapSites = map[string]bool{}
	}
	e.explore(nil, run, visit)
}

func (e *Explorer) explore(prefix []int, body func(prefix []int) Execution, visit func([]int, Execution)) {
	if e.Capped {
		return
	}
	if (e.MaxExecs > 0 && e.Executions >= e.MaxExecs) || (e.Stop != nil && e.Stop()) {
		e.Capped = true
		return
	}
	ex := body(prefix)
	root := len(prefix) == 0
	mine := !root || e.NShards <= 1 || e.Shard == 0
	if mine {
		e.Executions++
	}
	if len(ex.Points) > e.MaxPoints {
		e.MaxPoints = len(ex.Points)
	}
	if ex.Tasks > e.MaxTasks {
		e.MaxTasks = ex.Tasks
	}
	if ex.Deadlock {
		e.Deadlocks++
	}
	if ex.Divergence {
		e.Divergences++
	}
	for _, m := range ex.MapSites {
		e.MapSites[m] = true
	}
	choices := make([]int, len(ex.Points))
	for i, p := range ex.Points {
		choices[i] = p.Chosen
		if p.Kind == 't' {
			e.ThreadPoints++
		}
	}
	if mine {
		visit(choices, ex)
	}
	if ex.Deadlock || ex.Divergence {
		return
	}
	// cost of the path up to each point
	pre, dev, sw := 0, 0, 0
	for i, p := range ex.Points {
		if i >= len(prefix) {
			for alt := 1; alt < p.N; alt++ {
				np, nd, ns := pre, dev, sw
				if p.Kind == 't' {
					ns++
					if p.CurEnabled {
						np++
					}
				} else {
					nd++
				}
				if np > e.MaxPreempt || nd > e.MaxMapDev || (e.MaxSwitch > 0 && ns > e.MaxSwitch) {
					continue
				}
				if root && e.NShards > 1 {
					e.rootChildren++
					if (e.rootChildren-1)%e.NShards != e.Shard {
						continue
					}
				}
				next := make([]int, i+1)
				copy(next, choices[:i])
				next[i] = alt
				e.explore(next, body, visit)
			}
		}
		if p.Chosen != 0 {
			if p.Kind == 't' {
				sw++
				if p.CurEnabled {
					pre++
				}
			} else {
				dev++
			}
		}
	}
}
