// Package c19ref is the reference side of check C19 ("csvq never fails internally").
//
// Everything here is written from the manual (docs/_posts/*.md) and from the text of the
// property, not from csvq's implementation:
//
//   - the documented process return codes (command.md, "Return Code"),
//   - the catalogue of built-in functions (the "### NAME" headings of the *-functions.md pages),
//   - the documented import options (command.md "Options", select-query.md "format_specified_function"),
//   - the boundary alphabets over which loader inputs, function arguments and clause arguments are
//     enumerated, and the generators of the large files,
//   - the predicate "this table is rectangular".
package c19ref

import (
	"fmt"
	"strings"
)

// ---- documented terminations ---------------------------------------------------------------------

// ReturnCodes is the table "Return Code" of command.md (128+n is a signal and cannot be returned by an error).
var ReturnCodes = map[int]string{
	0:  "Normally terminated",
	1:  "Errors inside the csvq",
	2:  "Incorrect command usage",
	4:  "Syntax errors",
	8:  "Timeout errors",
	16: "I/O errors",
	32: "Errors outside the csvq",
	64: "The default of triggered errors by TRIGGER ERROR statements",
}

// ---- built-in functions (manual headings) --------------------------------------------------------

type FnKind int

const (
	Scalar FnKind = iota
	Aggregate
	Analytic
)

type Fn struct {
	Name string
	Kind FnKind
	// AllocArgs: argument positions (0-based) that the manual describes as an output length / a
	// precision, i.e. the function is asked to produce that many characters. Integers whose
	// magnitude exceeds AllocCap are not passed at these positions (a request for 9e18 characters can
	// only end in memory exhaustion, which is not what C19 is about); see REPORT.md.
	AllocArgs []int
}

const AllocCap = 1000000

// Functions: every "### NAME" heading of logical-, numeric-, datetime-, string-, cast-, system-,
// cryptographic-hash-, aggregate- and analytic-functions.md.
var Functions = func() []Fn {
	var out []Fn
	add := func(kind FnKind, names string) {
		for _, n := range strings.Fields(names) {
			out = append(out, Fn{Name: n, Kind: kind})
		}
	}
	add(Scalar, "COALESCE IF IFNULL NULLIF")
	add(Scalar, "ABS ACOS ACOSH ASIN ASINH ATAN ATAN2 ATANH CBRT CEIL COS COSH EXP EXP2 EXPM1 FLOOR IS_INF IS_NAN LOG LOG10 LOG1P LOG2 LOGB POW ROUND SIN SINH SQRT TAN TANH "+
		"BIN_TO_DEC OCT_TO_DEC HEX_TO_DEC ENOTATION_TO_DEC BIN OCT HEX ENOTATION NUMBER_FORMAT RAND")
	add(Scalar, "NOW DATETIME_FORMAT YEAR MONTH DAY HOUR MINUTE SECOND MILLISECOND MICROSECOND NANOSECOND WEEKDAY UNIX_TIME UNIX_NANO_TIME DAY_OF_YEAR WEEK_OF_YEAR "+
		"ADD_YEAR ADD_MONTH ADD_DAY ADD_HOUR ADD_MINUTE ADD_SECOND ADD_MILLI ADD_MICRO ADD_NANO TRUNC_MONTH TRUNC_DAY TRUNC_TIME TRUNC_MINUTE TRUNC_SECOND TRUNC_MILLI TRUNC_MICRO TRUNC_NANO "+
		"DATE_DIFF TIME_DIFF TIME_NANO_DIFF UTC MILLI_TO_DATETIME NANO_TO_DATETIME")
	add(Scalar, "TRIM LTRIM RTRIM UPPER LOWER BASE64_ENCODE BASE64_DECODE HEX_ENCODE HEX_DECODE LEN BYTE_LEN WIDTH LPAD RPAD SUBSTRING SUBSTR INSTR LIST_ELEM REPLACE "+
		"REGEXP_MATCH REGEXP_FIND REGEXP_FIND_SUBMATCHES REGEXP_FIND_ALL REGEXP_REPLACE TITLE_CASE FORMAT JSON_VALUE JSON_OBJECT")
	add(Scalar, "STRING INTEGER FLOAT DATETIME BOOLEAN TERNARY")
	add(Scalar, "MD5 SHA1 SHA256 SHA512 MD5_HMAC SHA1_HMAC SHA256_HMAC SHA512_HMAC")
	add(Aggregate, "COUNT MIN MAX SUM AVG STDEV STDEVP VAR VARP MEDIAN LISTAGG JSON_AGG")
	add(Analytic, "ROW_NUMBER RANK DENSE_RANK CUME_DIST PERCENT_RANK NTILE FIRST_VALUE LAST_VALUE NTH_VALUE LAG LEAD "+
		"COUNT MIN MAX SUM AVG STDEV STDEVP VAR VARP MEDIAN LISTAGG JSON_AGG")
	for i := range out {
		switch out[i].Name {
		case "LPAD", "RPAD": // LPAD(str, len, padstr ...): "len: length of the return value"
			out[i].AllocArgs = []int{1}
		case "NUMBER_FORMAT": // NUMBER_FORMAT(number, precision ...): "precision: number of decimal places"
			out[i].AllocArgs = []int{1}
		case "ROUND", "CEIL", "FLOOR": // (number, place)
			out[i].AllocArgs = []int{1}
		}
	}
	return out
}()

// ---- boundary values -----------------------------------------------------------------------------

// Val is one boundary argument, identified by a stable name (used in replay payloads).
type Val struct {
	Name string
	Kind byte // 'n' null, 'i' integer, 'f' float, 's' string, 'b' boolean, 't' ternary, 'd' datetime
	I    int64
	F    string // float spelled out: "nan", "inf", "-inf" or a Go literal
	S    string
	Huge bool // |integer| > AllocCap
}

func iv(name string, i int64) Val {
	a := i
	if a < 0 {
		a = -a
	}
	return Val{Name: "i:" + name, Kind: 'i', I: i, Huge: a > AllocCap || a < 0}
}
func fv(f string) Val        { return Val{Name: "f:" + f, Kind: 'f', F: f} }
func sv(s string) Val        { return Val{Name: "s:" + s, Kind: 's', S: s} }
func nsv(name, s string) Val { return Val{Name: "s:" + name, Kind: 's', S: s} }

// Alphabet is the full boundary alphabet: 0, negative, huge, NULL, wrong type — for every value class of value.md.
var Alphabet = []Val{
	{Name: "NULL", Kind: 'n'},
	iv("0", 0), iv("1", 1), iv("-1", -1), iv("2", 2), iv("3", 3), iv("10", 10), iv("1e6", 1000000), iv("-1e6", -1000000),
	iv("max", 9223372036854775807), iv("min", -9223372036854775808), iv("max-1", 9223372036854775806), iv("2^31", 2147483648), iv("-2^31-1", -2147483649),
	fv("0.5"), fv("-0.5"), fv("2.5"), fv("1e308"), fv("-1e308"), fv("5e-324"), fv("1e19"), fv("nan"), fv("inf"), fv("-inf"), fv("-0"),
	sv(""), sv(" "), sv("a"), sv("abc"), sv("é"), nsv("badutf8", "a\xffb"), nsv("nul", "a\x00b"), sv("日本語"), sv("a b c"), sv("1"), sv("-1"), sv("1.5"), sv("1e400"),
	sv("2012-01-31"), sv("2012-02-30"), sv("2012-01-31 23:59:59.999999999"), sv("0000-00-00"), sv("9999-12-31 23:59:59"),
	sv("%"), sv("%s"), sv("%5d"), sv("%-05.3f|%q|%T|%i"), sv("%1000000s"), sv("%Y-%m-%d %H:%i:%s.%N %%"), sv("%*d"), sv("%.3s"), sv("%.9T"),
	sv("("), sv("["), sv("(a)(b)?"), sv("^$"), sv("a.b["), sv("a[0].b"), sv(`{"a":[1,{"b":null}]}`), sv("[1,2"), sv("[1,2]"),
	sv("LEN"), sv("BYTE"), sv("WIDTH"), sv("SJIS"), sv("UTF16"), sv("AUTO"), sv("i"), sv(","),
	{Name: "b:true", Kind: 'b', I: 1}, {Name: "b:false", Kind: 'b'},
	{Name: "t:unknown", Kind: 't', I: 0}, {Name: "t:true", Kind: 't', I: 1},
	{Name: "d:2012-01-31T23:59:59.999999999", Kind: 'd', S: "2012-01-31T23:59:59.999999999Z"},
	{Name: "d:0001-01-01", Kind: 'd', S: "0001-01-01T00:00:00Z"},
	{Name: "d:9999-12-31", Kind: 'd', S: "9999-12-31T23:59:59Z"},
}

var byName = func() map[string]Val {
	m := map[string]Val{}
	for _, v := range Alphabet {
		if _, dup := m[v.Name]; dup {
			panic("c19ref: duplicate alphabet name " + v.Name)
		}
		m[v.Name] = v
	}
	return m
}()

func ValByName(n string) (Val, bool) { v, ok := byName[n]; return v, ok }

func pick(names ...string) []Val {
	out := make([]Val, len(names))
	for i, n := range names {
		v, ok := byName[n]
		if !ok {
			panic("c19ref: no alphabet entry " + n)
		}
		out[i] = v
	}
	return out
}

// Reduced alphabets for the higher arities (documented in REPORT.md).
var (
	Alpha3Quick    = pick("NULL", "i:0", "i:-1", "i:3", "i:max", "i:min", "f:2.5", "f:nan", "s:", "s:abc", "s:é", "s:2012-01-31")
	Alpha3Thorough = pick("NULL", "i:0", "i:-1", "i:1", "i:3", "i:1e6", "i:max", "i:min", "f:2.5", "f:-0.5", "f:nan", "f:inf", "f:1e308", "s:", "s: ", "s:abc", "s:é", "s:badutf8",
		"s:2012-01-31", "s:2012-01-31 23:59:59.999999999", "s:%5d", "s:(", "s:a b c", "s:[1,2]", "b:true", "d:9999-12-31", "s:BYTE", "s:,")
	Alpha4Quick    = pick("NULL", "i:-1", "i:3", "s:", "s:é", "s:BYTE")
	Alpha4Thorough = pick("NULL", "i:0", "i:-1", "i:3", "i:max", "s:", "s:é", "s:abc", "s:BYTE", "s:WIDTH", "f:nan", "s:,")
	Alpha5Quick    = pick("NULL", "i:3", "s:é", "s:SJIS")
	Alpha5Thorough = pick("NULL", "i:-1", "i:3", "s:", "s:é", "s:BYTE", "s:SJIS", "s:UTF16")
)

// ---- loader inputs -------------------------------------------------------------------------------

// A Sym is one symbol of a loader alphabet (one or more bytes).
type Sym string

var (
	// CSV/TSV: the plan's alphabet plus a Shift_JIS lead byte and a tab.
	CSVSyms       = []Sym{"a", ",", "\"", "\n", "\r", " ", "é", "\xef\xbb\xbf", "\xff", "\xfe", "\x00", "\x83"}
	TSVSyms       = []Sym{"a", "\t", "\"", "\n", "\r", "\x00", "\xff"}
	LTSVSyms      = []Sym{"a", "b", ":", "\t", "\n", "\r", "é", "\x00"}
	FixedSyms     = []Sym{"a", " ", "\n", "\r", "é", "\x83", "\x00", "\xff\xfe"}
	JSONSyms      = []Sym{"{", "}", "[", "]", "\"", "a", ":", ",", "1", "n", "\\", "u", " "}
	JSONLSyms     = []Sym{"{", "}", "[", "]", "\"", "a", ":", ",", "1", "\n", "\\"}
	JSONQuerySyms = []Sym{"a", ".", "[", "]", "0", "{", "}", ","}
)

// Strings enumerates all strings over syms with minLen..maxLen symbols in length-then-lexicographic order and
// calls f(index, bytes); f returning false stops the enumeration.
func Strings(syms []Sym, minLen, maxLen int, f func(idx int64, s string) bool) {
	var idx int64
	if minLen <= 0 {
		if !f(idx, "") {
			return
		}
		idx++
		minLen = 1
	}
	n := len(syms)
	for l := minLen; l <= maxLen; l++ {
		digits := make([]int, l)
		for {
			var sb strings.Builder
			for _, d := range digits {
				sb.WriteString(string(syms[d]))
			}
			if !f(idx, sb.String()) {
				return
			}
			idx++
			k := l - 1
			for k >= 0 {
				digits[k]++
				if digits[k] < n {
					break
				}
				digits[k] = 0
				k--
			}
			if k < 0 {
				break
			}
		}
	}
}

// CSVCore: the CSV symbols that carry structure, for one more symbol of length.
var CSVCore = []Sym{"a", ",", "\"", "\n", "\r", "é", "\xff"}

// Encodings of command.md --encoding.
var (
	EncodingsAll   = []string{"AUTO", "UTF8", "UTF8M", "UTF16", "UTF16BE", "UTF16LE", "UTF16BEM", "UTF16LEM", "SJIS"}
	EncodingsQuick = []string{"AUTO", "UTF8", "UTF16", "SJIS"}
)

// Delimiter positions for FIXED: SPACES, JSON arrays, single-line arrays and invalid spellings.
var (
	PositionsQuick = []string{"SPACES", "[1]", "[1,2]", "[2,1]", "[0]", "[-1]", "[]", "[1,1]", "[100]", "S[1]", "S[1,3]", "S[]", "S[0]", "s[2,1]", "x", "[1", "[1.5]", "[null]"}
	PositionsMore  = []string{"spaces", "S", "[\"a\"]", "[9223372036854775807]", "[9223372036854775808]", "S[9223372036854775807]", "S[-1]", "[1,2,3,4,5,6,7,8,9]", "[3]", "S[2]", "{}", ""}
)

// ---- rectangularity ------------------------------------------------------------------------------

// Ragged returns the index of the first record whose length differs from the header's, or -1.
func Ragged(headerLen int, recordLens []int) int {
	for i, l := range recordLens {
		if l != headerLen {
			return i
		}
	}
	return -1
}

// ---- large files ---------------------------------------------------------------------------------

// BigSpec names one generated file: shape, record count, line break, encoding. The bytes are a pure
// function of the spec (Generate).
type BigSpec struct {
	Format string // csv tsv ltsv fixed jsonl json
	Shape  string
	Rows   int
	LB     string // lf crlf cr
	Enc    string // UTF8 SJIS UTF16LEM UTF16BEM
}

func (b BigSpec) String() string {
	return fmt.Sprintf("%s:%s:%d:%s:%s", b.Format, b.Shape, b.Rows, b.LB, b.Enc)
}

func lineBreak(lb string) string {
	switch lb {
	case "crlf":
		return "\r\n"
	case "cr":
		return "\r"
	}
	return "\n"
}

// GenerateText builds the file as text (before encoding). Non-ASCII cells use kana that exist in Shift_JIS.
func GenerateText(b BigSpec) string {
	nl := lineBreak(b.LB)
	var sb strings.Builder
	long := strings.Repeat("x", 200)
	cell := func(i int) string { return fmt.Sprintf("r%dア", i) }
	switch b.Format {
	case "csv", "tsv":
		d := ","
		if b.Format == "tsv" {
			d = "\t"
		}
		switch b.Shape {
		case "uniform":
			sb.WriteString("id" + d + "name" + d + "note" + nl)
			for i := 0; i < b.Rows; i++ {
				sb.WriteString(fmt.Sprint(i) + d + cell(i) + d + "\"q" + d + "q\"" + nl)
			}
		case "growing": // short records first: the size estimate made after 300 records is far too small
			sb.WriteString("id" + d + "v" + nl)
			for i := 0; i < b.Rows; i++ {
				if i < 300 {
					sb.WriteString("1" + d + "2" + nl)
				} else {
					sb.WriteString(fmt.Sprint(i) + d + long + nl)
				}
			}
		case "shrinking": // long records first: the estimate is too large
			sb.WriteString("id" + d + "v" + nl)
			for i := 0; i < b.Rows; i++ {
				if i < 300 {
					sb.WriteString(fmt.Sprint(i) + d + long + nl)
				} else {
					sb.WriteString("1" + d + nl)
				}
			}
		case "sparse-head": // one non-empty field among the first 300 records, every other field empty
			sb.WriteString("a" + d + "b" + nl)
			sb.WriteString("x" + d + nl)
			for i := 1; i < b.Rows; i++ {
				sb.WriteString(d + nl)
			}
		case "all-empty": // no byte of field data at all
			sb.WriteString("a" + d + "b" + nl)
			for i := 0; i < b.Rows; i++ {
				sb.WriteString(d + nl)
			}
		case "ragged": // 1..5 fields per record (only loadable with --allow-uneven-fields)
			sb.WriteString("a" + d + "b" + d + "c" + nl)
			for i := 0; i < b.Rows; i++ {
				for k := 0; k <= i%5; k++ {
					if k > 0 {
						sb.WriteString(d)
					}
					sb.WriteString(cell(i))
				}
				sb.WriteString(nl)
			}
		case "ragged-late": // rectangular for 300 records, then one longer record and one shorter
			sb.WriteString("a" + d + "b" + nl)
			for i := 0; i < b.Rows; i++ {
				switch {
				case i == b.Rows-2:
					sb.WriteString("1" + d + "2" + d + "3" + nl)
				case i == b.Rows-1:
					sb.WriteString("1" + nl)
				default:
					sb.WriteString("1" + d + "2" + nl)
				}
			}
		case "wide": // one header line and one record of Rows columns
			for i := 0; i < b.Rows; i++ {
				if i > 0 {
					sb.WriteString(d)
				}
				sb.WriteString(fmt.Sprintf("c%d", i))
			}
			sb.WriteString(nl)
			for i := 0; i < b.Rows; i++ {
				if i > 0 {
					sb.WriteString(d)
				}
				sb.WriteString("v")
			}
			sb.WriteString(nl)
		case "longfield": // a single quoted field of Rows*100 bytes containing line breaks
			sb.WriteString("a" + nl + "\"")
			for i := 0; i < b.Rows; i++ {
				sb.WriteString(strings.Repeat("y", 98) + nl)
			}
			sb.WriteString("\"" + nl)
		case "unterminated": // a quote opened in the last record and never closed
			sb.WriteString("a" + d + "b" + nl)
			for i := 0; i < b.Rows; i++ {
				sb.WriteString("1" + d + "2" + nl)
			}
			sb.WriteString("\"open" + d + "2" + nl)
		}
	case "ltsv":
		for i := 0; i < b.Rows; i++ {
			switch b.Shape {
			case "uniform":
				sb.WriteString("id:" + fmt.Sprint(i) + "\tname:" + cell(i) + nl)
			case "growing-header": // every 50th record introduces a new label
				sb.WriteString("id:" + fmt.Sprint(i) + fmt.Sprintf("\tk%d:", i/50) + cell(i) + nl)
			case "sparse-head":
				if i == 0 {
					sb.WriteString("a:x\tb:" + nl)
				} else {
					sb.WriteString("a:\tb:" + nl)
				}
			}
		}
	case "fixed":
		for i := -1; i < b.Rows; i++ {
			switch b.Shape {
			case "uniform":
				if i < 0 {
					sb.WriteString("id    name      " + nl)
				} else {
					sb.WriteString(fmt.Sprintf("%-6d%-10s", i, fmt.Sprintf("r%d", i)) + nl)
				}
			case "short-lines": // lines shorter than the last delimiter position, some empty
				if i < 0 {
					sb.WriteString("id    name      " + nl)
				} else {
					sb.WriteString(fmt.Sprintf("%-6d%-10s", i, "r")[:i%17] + nl)
				}
			case "multibyte": // a delimiter position may fall inside a multi-byte character
				if i < 0 {
					sb.WriteString("id    name      " + nl)
				} else {
					sb.WriteString(strings.Repeat("ア", 1+i%6) + " x" + nl)
				}
			}
		}
	case "jsonl":
		for i := 0; i < b.Rows; i++ {
			switch b.Shape {
			case "uniform":
				sb.WriteString(fmt.Sprintf(`{"id":%d,"name":"%s","n":null,"o":{"x":[1,2]}}`, i, cell(i)) + nl)
			case "growing-header":
				sb.WriteString(fmt.Sprintf(`{"id":%d,"k%d":"%s"}`, i, i/50, cell(i)) + nl)
			case "sparse-head":
				sb.WriteString(`{}` + nl)
			case "late-array": // record Rows-1 is not an object
				if i == b.Rows-1 {
					sb.WriteString(`[1,2]` + nl)
				} else {
					sb.WriteString(fmt.Sprintf(`{"id":%d}`, i) + nl)
				}
			}
		}
	case "json":
		switch b.Shape {
		case "uniform":
			sb.WriteString("[")
			for i := 0; i < b.Rows; i++ {
				if i > 0 {
					sb.WriteString(",")
				}
				sb.WriteString(fmt.Sprintf(`{"id":%d,"k%d":"%s"}`, i, i/50, cell(i)))
			}
			sb.WriteString("]")
		case "deep-array": // Rows nested arrays
			sb.WriteString(strings.Repeat("[", b.Rows) + strings.Repeat("]", b.Rows))
		case "deep-array-open": // never closed
			sb.WriteString(strings.Repeat("[", b.Rows))
		case "deep-object":
			sb.WriteString(strings.Repeat(`{"a":`, b.Rows) + "1" + strings.Repeat("}", b.Rows))
		case "array-of-arrays":
			sb.WriteString("[")
			for i := 0; i < b.Rows; i++ {
				if i > 0 {
					sb.WriteString(",")
				}
				sb.WriteString(fmt.Sprintf(`[%d,"x"]`, i))
			}
			sb.WriteString("]")
		}
	}
	return sb.String()
}
