package scopemodel

import (
	"strconv"
	"strings"
)

// Error classes the model predicts (the check maps csvq's error types onto them).
const (
	ErrUndeclaredVar    = "undeclared-variable"
	ErrRedeclaredVar    = "redeclared-variable"
	ErrUndeclaredCursor = "undeclared-cursor"
	ErrRedeclaredCursor = "redeclared-cursor"
	ErrCursorClosed     = "cursor-closed"
	ErrCursorOpen       = "cursor-open"
	ErrNoTable          = "table-not-found" // a query names a table that is neither a visible temporary table nor a file
	ErrUndeclaredView   = "undeclared-view" // DISPOSE VIEW of an unknown name
	ErrRedeclaredView   = "redeclared-view"
	ErrUndeclaredFunc   = "undeclared-function"
	ErrRedeclaredFunc   = "redeclared-function"
	ErrArgLen           = "function-argument-length"
	ErrPseudoCursor     = "pseudo-cursor-operation" // OPEN/CLOSE/DISPOSE of an aggregate's pseudo cursor
)

type Val struct {
	Kind int // 0 NULL, 1 integer, 2 ternary
	I    int64
	T    int // -1 FALSE, 0 UNKNOWN, 1 TRUE
}

func iv(i int64) Val { return Val{Kind: 1, I: i} }
func tv(b bool) Val {
	if b {
		return Val{Kind: 2, T: 1}
	}
	return Val{Kind: 2, T: -1}
}

func (v Val) isTrue() bool {
	switch v.Kind {
	case 2:
		return v.T == 1
	case 1:
		return v.I == 1
	}
	return false
}

// PrintText is what PRINT shows.
func (v Val) PrintText() string {
	switch v.Kind {
	case 1:
		return strconv.FormatInt(v.I, 10)
	case 2:
		return [...]string{"FALSE", "UNKNOWN", "TRUE"}[v.T+1]
	}
	return "NULL"
}

// CellText is what a result row shows in the CSV export without header (NULL is an empty cell).
func (v Val) CellText() string {
	if v.Kind == 0 {
		return ""
	}
	return v.PrintText()
}

type cursor struct {
	pseudo bool
	decl   *Stmt
	rows   []Val
	open   bool
	idx    int
}

type frame struct {
	vars  map[string]*Val
	curs  map[string]*cursor
	views map[string]*Val
	funcs map[string]*Stmt
}

func newFrame() *frame {
	return &frame{vars: map[string]*Val{}, curs: map[string]*cursor{}, views: map[string]*Val{}, funcs: map[string]*Stmt{}}
}

func (f *frame) empty() bool {
	return len(f.vars)+len(f.curs)+len(f.views)+len(f.funcs) == 0
}

type Options struct {
	// ViewNoShadow models csvq's actual behaviour for temporary tables: a declaration is refused
	// ("redeclared") when ANY visible scope already has a table of that name. The property (and this
	// model by default) lets an inner block shadow an outer table like every other object.
	ViewNoShadow bool
}

// Outcome is everything the property lets an observer see, plus bookkeeping about what the run exercised.
type Outcome struct {
	Out    string // PRINT lines and result rows, each terminated by \n
	Err    string // error class, "" when the procedure ended normally
	Exit   bool   // ended by EXIT
	Poison string // the run left the part of the language the oracle speaks about (e.g. FETCH beyond the last row)

	// what the run exercised
	MaxDepth          int // deepest scope stack (global = 1)
	Calls             int // function invocations
	MaxCallNest       int
	Shadows           int // declarations that shadowed a visible outer object of the same name
	OuterHits         int // references/assignments resolved in a scope other than the innermost
	Dropped           int // objects that ceased to exist because their block/invocation ended
	Ctrl              int // BREAK/CONTINUE/RETURN/EXIT executed
	Blocks            int // blocks and invocations entered
	ViewShadowAttempt bool
}

// Nontrivial: the run exercised scoping or a control transfer, not just straight-line global code.
func (o *Outcome) Nontrivial() bool {
	return o.Shadows+o.OuterHits+o.Dropped+o.Ctrl > 0
}

type rtErr struct{ class string }
type poison struct{ why string }

const (
	fNone = iota
	fBreak
	fContinue
	fExit
	fReturn
)

type interp struct {
	opt      Options
	frames   []*frame // innermost last
	out      strings.Builder
	o        *Outcome
	steps    int
	callNest int
	row      *int64
	ret      Val
}

const stepLimit = 200000

// Run interprets a program (without the textual prologue: m and @v are built in).
func Run(prog []*Stmt, opt Options) (res Outcome) {
	in := &interp{opt: opt, o: &res}
	g := newFrame()
	g.vars["v"] = &Val{}
	in.frames = []*frame{g}
	res.MaxDepth = 1
	defer func() {
		res.Out = in.out.String()
		if r := recover(); r != nil {
			switch x := r.(type) {
			case rtErr:
				res.Err = x.class
			case poison:
				res.Poison = x.why
			default:
				panic(r)
			}
		}
	}()
	if in.exec(prog) == fExit {
		res.Exit = true
	}
	return
}

func (in *interp) fail(class string) { panic(rtErr{class}) }

func (in *interp) push() *frame {
	f := newFrame()
	in.frames = append(in.frames, f)
	if len(in.frames) > in.o.MaxDepth {
		in.o.MaxDepth = len(in.frames)
	}
	in.o.Blocks++
	return f
}

func (in *interp) pop() {
	f := in.frames[len(in.frames)-1]
	in.o.Dropped += len(f.vars) + len(f.curs) + len(f.views) + len(f.funcs)
	in.frames = in.frames[:len(in.frames)-1]
}

func (in *interp) cur() *frame { return in.frames[len(in.frames)-1] }

// innermost-first lookups; hit reports whether the object was found outside the innermost scope
func (in *interp) findVar(n string) *Val {
	for i := len(in.frames) - 1; i >= 0; i-- {
		if v, ok := in.frames[i].vars[n]; ok {
			if i != len(in.frames)-1 {
				in.o.OuterHits++
			}
			return v
		}
	}
	return nil
}
func (in *interp) findCur(n string) *cursor {
	for i := len(in.frames) - 1; i >= 0; i-- {
		if v, ok := in.frames[i].curs[n]; ok {
			if i != len(in.frames)-1 {
				in.o.OuterHits++
			}
			return v
		}
	}
	return nil
}
func (in *interp) findView(n string) *Val {
	for i := len(in.frames) - 1; i >= 0; i-- {
		if v, ok := in.frames[i].views[n]; ok {
			if i != len(in.frames)-1 {
				in.o.OuterHits++
			}
			return v
		}
	}
	return nil
}
func (in *interp) findFunc(n string) *Stmt {
	for i := len(in.frames) - 1; i >= 0; i-- {
		if v, ok := in.frames[i].funcs[n]; ok {
			if i != len(in.frames)-1 {
				in.o.OuterHits++
			}
			return v
		}
	}
	return nil
}

func (in *interp) visibleOutside(has func(f *frame) bool) bool {
	for i := len(in.frames) - 2; i >= 0; i-- {
		if has(in.frames[i]) {
			return true
		}
	}
	return false
}

func (in *interp) eval(e *Expr) Val {
	switch e.Op {
	case EConst:
		return iv(e.K)
	case ENull:
		return Val{}
	case ETrue:
		return tv(true)
	case EFalse:
		return tv(false)
	case EVar:
		v := in.findVar(e.Name)
		if v == nil {
			in.fail(ErrUndeclaredVar)
		}
		return *v
	case ECol:
		if in.row == nil {
			panic("scopemodel: column outside a row")
		}
		return iv(*in.row)
	case EAdd, ESub, EMul:
		a, b := in.eval(e.Args[0]), in.eval(e.Args[1])
		if a.Kind != 1 || b.Kind != 1 {
			return Val{}
		}
		switch e.Op {
		case EAdd:
			return iv(a.I + b.I)
		case ESub:
			return iv(a.I - b.I)
		}
		return iv(a.I * b.I)
	case ELt, EEq:
		a, b := in.eval(e.Args[0]), in.eval(e.Args[1])
		if a.Kind != 1 || b.Kind != 1 {
			return Val{Kind: 2, T: 0}
		}
		if e.Op == ELt {
			return tv(a.I < b.I)
		}
		return tv(a.I == b.I)
	case EView:
		v := in.findView(e.Name)
		if v == nil {
			in.fail(ErrNoTable)
		}
		return *v
	case ECall:
		return in.call(e)
	case EAgg:
		return in.call(e)
	}
	panic("scopemodel: bad expression op " + e.Op)
}

// A user-defined function runs in a scope of its own (parameters and locals per invocation) that is a
// child of the scope the call is made from.
func (in *interp) call(e *Expr) Val {
	fn := in.findFunc(e.Name)
	if fn == nil {
		in.fail(ErrUndeclaredFunc)
	}
	if (fn.Op == SAgg) != (e.Op == EAgg) {
		panic("scopemodel: scalar/aggregate mix-up is outside the generated language")
	}
	args := make([]Val, len(e.Args))
	for i, a := range e.Args {
		args[i] = in.eval(a)
	}
	if len(args) != len(fn.Params) {
		in.fail(ErrArgLen)
	}
	in.o.Calls++
	in.callNest++
	if in.callNest > in.o.MaxCallNest {
		in.o.MaxCallNest = in.callNest
	}
	if in.callNest > 64 {
		panic(poison{"call-depth-limit"})
	}
	savedRow := in.row
	in.row = nil
	depth := len(in.frames)
	f := in.push()
	if fn.Op == SAgg {
		// the grouped values are reachable through a pseudo cursor that belongs to this invocation
		if in.visibleOutside(func(f *frame) bool { _, ok := f.curs[fn.Into]; return ok }) {
			in.o.Shadows++
		}
		rows := make([]Val, len(MRows))
		for i, r := range MRows {
			rows[i] = iv(r)
		}
		f.curs[fn.Into] = &cursor{pseudo: true, rows: rows, open: true, idx: -1}
	}
	for i, p := range fn.Params {
		if _, dup := f.vars[p]; dup {
			in.fail(ErrRedeclaredVar)
		}
		if in.visibleOutside(func(f *frame) bool { _, ok := f.vars[p]; return ok }) {
			in.o.Shadows++
		}
		v := args[i]
		f.vars[p] = &v
	}
	in.ret = Val{}
	flow := in.exec(fn.Body)
	r := Val{}
	if flow == fReturn {
		r = in.ret
	}
	in.unwind(depth)
	in.row = savedRow
	in.callNest--
	return r
}

func (in *interp) unwind(depth int) {
	for len(in.frames) > depth {
		in.pop()
	}
}

// block runs statements in a fresh child scope that ends with the block.
func (in *interp) block(body []*Stmt) int {
	depth := len(in.frames)
	in.push()
	flow := in.exec(body)
	in.unwind(depth)
	return flow
}

func (in *interp) exec(stmts []*Stmt) int {
	for _, s := range stmts {
		in.steps++
		if in.steps > stepLimit {
			panic(poison{"step-limit"})
		}
		if flow := in.stmt(s); flow != fNone {
			return flow
		}
	}
	return fNone
}

func (in *interp) stmt(s *Stmt) int {
	f := in.cur()
	switch s.Op {
	case SVar:
		v := Val{}
		if s.E != nil {
			v = in.eval(s.E)
		}
		if _, dup := f.vars[s.Name]; dup {
			in.fail(ErrRedeclaredVar)
		}
		if in.visibleOutside(func(f *frame) bool { _, ok := f.vars[s.Name]; return ok }) {
			in.o.Shadows++
		}
		f.vars[s.Name] = &v
	case SSet:
		v := in.eval(s.E)
		p := in.findVar(s.Name)
		if p == nil {
			in.fail(ErrUndeclaredVar)
		}
		*p = v
	case SPrint:
		v := in.eval(s.E)
		in.out.WriteString(v.PrintText())
		in.out.WriteByte('\n')
	case SDispVar:
		for i := len(in.frames) - 1; i >= 0; i-- {
			if _, ok := in.frames[i].vars[s.Name]; ok {
				if i != len(in.frames)-1 {
					in.o.OuterHits++
				}
				delete(in.frames[i].vars, s.Name)
				return fNone
			}
		}
		in.fail(ErrUndeclaredVar)
	case SCur:
		if _, dup := f.curs[s.Name]; dup {
			in.fail(ErrRedeclaredCursor)
		}
		if in.visibleOutside(func(f *frame) bool { _, ok := f.curs[s.Name]; return ok }) {
			in.o.Shadows++
		}
		f.curs[s.Name] = &cursor{decl: s}
	case SOpen:
		c := in.findCur(s.Name)
		if c == nil {
			in.fail(ErrUndeclaredCursor)
		}
		if c.pseudo {
			in.fail(ErrPseudoCursor)
		}
		if c.open {
			in.fail(ErrCursorOpen)
		}
		// the view is retrieved when the cursor is opened, in the scope of the OPEN statement
		var rows []Val
		if c.decl.E != nil {
			saved := in.row
			for _, r := range MRows {
				r := r
				in.row = &r
				rows = append(rows, in.eval(c.decl.E))
			}
			in.row = saved
		} else {
			for _, r := range c.decl.Rows {
				rows = append(rows, iv(r))
			}
		}
		c.rows, c.open, c.idx = rows, true, -1
	case SClose:
		c := in.findCur(s.Name)
		if c == nil {
			in.fail(ErrUndeclaredCursor)
		}
		if c.pseudo {
			in.fail(ErrPseudoCursor)
		}
		c.open, c.rows = false, nil
	case SFetch:
		c := in.findCur(s.Name)
		if c == nil {
			in.fail(ErrUndeclaredCursor)
		}
		if !c.open {
			in.fail(ErrCursorClosed)
		}
		c.idx++
		if c.idx >= len(c.rows) {
			// what the target holds after a fetch beyond the last row is a cursor question (C16), not a scoping one
			panic(poison{"fetch-beyond-last-row"})
		}
		p := in.findVar(s.Into)
		if p == nil {
			in.fail(ErrUndeclaredVar)
		}
		*p = c.rows[c.idx]
	case SDispCur:
		for i := len(in.frames) - 1; i >= 0; i-- {
			if cu, ok := in.frames[i].curs[s.Name]; ok {
				if cu.pseudo {
					in.fail(ErrPseudoCursor)
				}
				if i != len(in.frames)-1 {
					in.o.OuterHits++
				}
				delete(in.frames[i].curs, s.Name)
				return fNone
			}
		}
		in.fail(ErrUndeclaredCursor)
	case SView:
		if in.opt.ViewNoShadow {
			for i := len(in.frames) - 1; i >= 0; i-- {
				if _, ok := in.frames[i].views[s.Name]; ok {
					in.fail(ErrRedeclaredView)
				}
			}
		}
		if _, dup := f.views[s.Name]; dup {
			in.fail(ErrRedeclaredView)
		}
		v := in.eval(s.E)
		if in.visibleOutside(func(f *frame) bool { _, ok := f.views[s.Name]; return ok }) {
			in.o.Shadows++
			in.o.ViewShadowAttempt = true
		}
		f.views[s.Name] = &v
	case SUpd:
		p := in.findView(s.Name)
		if p == nil {
			in.fail(ErrNoTable)
		}
		*p = in.eval(s.E)
	case SDispView:
		for i := len(in.frames) - 1; i >= 0; i-- {
			if _, ok := in.frames[i].views[s.Name]; ok {
				if i != len(in.frames)-1 {
					in.o.OuterHits++
				}
				delete(in.frames[i].views, s.Name)
				return fNone
			}
		}
		in.fail(ErrUndeclaredView)
	case SFunc, SAgg:
		if _, dup := f.funcs[s.Name]; dup {
			in.fail(ErrRedeclaredFunc)
		}
		if in.visibleOutside(func(f *frame) bool { _, ok := f.funcs[s.Name]; return ok }) {
			in.o.Shadows++
		}
		f.funcs[s.Name] = s
	case SDispFunc:
		for i := len(in.frames) - 1; i >= 0; i-- {
			if _, ok := in.frames[i].funcs[s.Name]; ok {
				if i != len(in.frames)-1 {
					in.o.OuterHits++
				}
				delete(in.frames[i].funcs, s.Name)
				return fNone
			}
		}
		in.fail(ErrUndeclaredFunc)
	case SIf:
		for _, b := range s.Br {
			if in.eval(b.Cond).isTrue() {
				return in.block(b.Body)
			}
		}
		if s.HasElse {
			return in.block(s.Else)
		}
	case SCase:
		var cv Val
		if s.E != nil {
			cv = in.eval(s.E)
		}
		for _, b := range s.Br {
			w := in.eval(b.Cond)
			hit := false
			if s.E == nil {
				hit = w.isTrue()
			} else {
				hit = cv.Kind == 1 && w.Kind == 1 && cv.I == w.I
			}
			if hit {
				return in.block(b.Body)
			}
		}
		if s.HasElse {
			return in.block(s.Else)
		}
	case SWhile:
		for {
			in.steps++
			if in.steps > stepLimit {
				panic(poison{"step-limit"})
			}
			if !in.eval(s.E).isTrue() {
				return fNone
			}
			// every iteration is a block of its own
			switch flow := in.block(s.Body); flow {
			case fBreak:
				in.o.Ctrl++
				return fNone
			case fContinue:
				in.o.Ctrl++
			case fExit, fReturn:
				return flow
			}
		}
	case SWhileIn:
		for {
			in.steps++
			if in.steps > stepLimit {
				panic(poison{"step-limit"})
			}
			depth := len(in.frames)
			cf := in.push()
			if s.Decl {
				for _, v := range s.Vars {
					if in.visibleOutside(func(f *frame) bool { _, ok := f.vars[v]; return ok }) {
						in.o.Shadows++
					}
					cf.vars[v] = &Val{}
				}
			}
			c := in.findCur(s.Name)
			if c == nil {
				in.fail(ErrUndeclaredCursor)
			}
			if !c.open {
				in.fail(ErrCursorClosed)
			}
			c.idx++
			if c.idx >= len(c.rows) {
				c.idx = len(c.rows)
				in.unwind(depth)
				return fNone
			}
			p := in.findVar(s.Vars[0])
			if p == nil {
				in.fail(ErrUndeclaredVar)
			}
			*p = c.rows[c.idx]
			flow := in.exec(s.Body)
			in.unwind(depth)
			switch flow {
			case fBreak:
				in.o.Ctrl++
				return fNone
			case fContinue:
				in.o.Ctrl++
			case fExit, fReturn:
				return flow
			}
		}
	case SBreak:
		return fBreak
	case SContinue:
		return fContinue
	case SExit:
		in.o.Ctrl++
		return fExit
	case SReturn:
		in.o.Ctrl++
		in.ret = Val{}
		if s.E != nil {
			in.ret = in.eval(s.E)
		}
		return fReturn
	case SSelect:
		lines := make([]string, 0, len(MRows))
		saved := in.row
		for _, r := range MRows {
			r := r
			in.row = &r
			lines = append(lines, in.eval(s.E).CellText())
		}
		in.row = saved
		for _, l := range lines {
			in.out.WriteString(l)
			in.out.WriteByte('\n')
		}
	default:
		panic("scopemodel: bad statement op " + s.Op)
	}
	return fNone
}
