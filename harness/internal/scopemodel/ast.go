// Package scopemodel is the reference model of property C15: a tiny procedural
// language (the subset of csvq procedures the check generates), its rendering as
// csvq program text, and a boring interpreter of the documented scoping and
// control-flow rules (docs/_posts: control-flow, variable, cursor,
// temporary-table, user-defined-function).  It shares no code with lib/query.
package scopemodel

import (
	"fmt"
	"strconv"
	"strings"
)

// Expression operators.
const (
	EConst = "const" // K
	ENull  = "null"
	ETrue  = "true"
	EFalse = "false"
	EVar   = "var"  // @Name
	ECol   = "col"  // column x of the row being evaluated (only inside SSelect / cursor-over-m)
	EAdd   = "add"  // Args[0] + Args[1]
	ESub   = "sub"  // Args[0] - Args[1]
	EMul   = "mul"  // Args[0] * Args[1]
	ELt    = "lt"   // Args[0] < Args[1]
	EEq    = "eq"   // Args[0] = Args[1]
	ECall  = "call" // Name(Args...)
	EView  = "view" // (SELECT x FROM Name)
	EAgg   = "agg"  // (SELECT Name(x) FROM m): one invocation of a user-defined aggregate over the rows of m
)

type Expr struct {
	Op   string  `json:"op"`
	K    int64   `json:"k,omitempty"`
	Name string  `json:"name,omitempty"`
	Args []*Expr `json:"args,omitempty"`
}

func C(k int64) *Expr                 { return &Expr{Op: EConst, K: k} }
func Null() *Expr                     { return &Expr{Op: ENull} }
func True() *Expr                     { return &Expr{Op: ETrue} }
func False() *Expr                    { return &Expr{Op: EFalse} }
func Var(n string) *Expr              { return &Expr{Op: EVar, Name: n} }
func Col() *Expr                      { return &Expr{Op: ECol} }
func Add(a, b *Expr) *Expr            { return &Expr{Op: EAdd, Args: []*Expr{a, b}} }
func Sub(a, b *Expr) *Expr            { return &Expr{Op: ESub, Args: []*Expr{a, b}} }
func Mul(a, b *Expr) *Expr            { return &Expr{Op: EMul, Args: []*Expr{a, b}} }
func Lt(a, b *Expr) *Expr             { return &Expr{Op: ELt, Args: []*Expr{a, b}} }
func Eq(a, b *Expr) *Expr             { return &Expr{Op: EEq, Args: []*Expr{a, b}} }
func Call(n string, a ...*Expr) *Expr { return &Expr{Op: ECall, Name: n, Args: a} }
func ViewVal(n string) *Expr          { return &Expr{Op: EView, Name: n} }
func AggCall(n string) *Expr          { return &Expr{Op: EAgg, Name: n} }

// Statement operators.
const (
	SVar      = "var"      // VAR @Name := E   (E nil: VAR @Name)
	SSet      = "set"      // @Name := E
	SPrint    = "print"    // PRINT E
	SDispVar  = "dispvar"  // DISPOSE @Name
	SCur      = "cur"      // DECLARE Name CURSOR FOR SELECT Rows[0] UNION ALL ...   |  ... FOR SELECT E FROM m (E != nil)
	SOpen     = "open"     // OPEN Name
	SClose    = "close"    // CLOSE Name
	SFetch    = "fetch"    // FETCH Name INTO @Into
	SDispCur  = "dispcur"  // DISPOSE CURSOR Name
	SView     = "view"     // DECLARE Name VIEW (x) AS SELECT E
	SUpd      = "upd"      // UPDATE Name SET x = E
	SDispView = "dispview" // DISPOSE VIEW Name
	SFunc     = "func"     // DECLARE Name FUNCTION (@Params...) AS BEGIN Body END
	SAgg      = "aggr"     // DECLARE Name AGGREGATE (Into) AS BEGIN Body END   (Into: the pseudo cursor)
	SDispFunc = "dispfunc" // DISPOSE FUNCTION Name
	SIf       = "if"       // IF Br[0].Cond THEN Br[0].Body [ELSEIF ...] [ELSE Else] END IF
	SCase     = "case"     // CASE [E] WHEN Br[i].Cond THEN Br[i].Body ... [ELSE Else] END CASE
	SWhile    = "while"    // WHILE E DO Body END WHILE
	SWhileIn  = "whilein"  // WHILE [VAR] @Vars IN Name DO Body END WHILE
	SBreak    = "break"
	SContinue = "continue"
	SExit     = "exit"
	SReturn   = "return" // RETURN E
	SSelect   = "select" // SELECT E FROM m   (one output line per row of m)
)

type Branch struct {
	Cond *Expr   `json:"cond"`
	Body []*Stmt `json:"body"`
}

type Stmt struct {
	Op      string    `json:"op"`
	Name    string    `json:"name,omitempty"`
	Into    string    `json:"into,omitempty"`
	E       *Expr     `json:"e,omitempty"`
	Rows    []int64   `json:"rows,omitempty"`
	Params  []string  `json:"params,omitempty"`
	Vars    []string  `json:"vars,omitempty"`
	Decl    bool      `json:"decl,omitempty"`
	Br      []*Branch `json:"br,omitempty"`
	HasElse bool      `json:"has_else,omitempty"`
	Else    []*Stmt   `json:"else,omitempty"`
	Body    []*Stmt   `json:"body,omitempty"`
}

// MRows is the content of the three-row helper view m (column x) every program can select from.
var MRows = []int64{1, 2, 3}

// Prologue is prepended to every program: the helper view and the fetch target.
const Prologue = "DECLARE m VIEW (x) AS SELECT 1 UNION ALL SELECT 2 UNION ALL SELECT 3; VAR @v;\n"

func (e *Expr) SQL() string {
	switch e.Op {
	case EConst:
		if e.K < 0 {
			return "(" + strconv.FormatInt(e.K, 10) + ")"
		}
		return strconv.FormatInt(e.K, 10)
	case ENull:
		return "NULL"
	case ETrue:
		return "TRUE"
	case EFalse:
		return "FALSE"
	case EVar:
		return "@" + e.Name
	case ECol:
		return "x"
	case EAdd:
		return "(" + e.Args[0].SQL() + " + " + e.Args[1].SQL() + ")"
	case ESub:
		return "(" + e.Args[0].SQL() + " - " + e.Args[1].SQL() + ")"
	case EMul:
		return "(" + e.Args[0].SQL() + " * " + e.Args[1].SQL() + ")"
	case ELt:
		return "(" + e.Args[0].SQL() + " < " + e.Args[1].SQL() + ")"
	case EEq:
		return "(" + e.Args[0].SQL() + " = " + e.Args[1].SQL() + ")"
	case ECall:
		as := make([]string, len(e.Args))
		for i, a := range e.Args {
			as[i] = a.SQL()
		}
		return e.Name + "(" + strings.Join(as, ", ") + ")"
	case EView:
		return "(SELECT x FROM " + e.Name + ")"
	case EAgg:
		return "(SELECT " + e.Name + "(x) FROM m)"
	}
	panic("scopemodel: bad expression op " + e.Op)
}

func vars(vs []string) string {
	o := make([]string, len(vs))
	for i, v := range vs {
		o[i] = "@" + v
	}
	return strings.Join(o, ", ")
}

// Render writes statements as csvq program text, one statement per line, indented.
func Render(stmts []*Stmt) string {
	var sb strings.Builder
	render(&sb, stmts, 0)
	return sb.String()
}

func render(sb *strings.Builder, stmts []*Stmt, ind int) {
	pad := strings.Repeat("  ", ind)
	for _, s := range stmts {
		sb.WriteString(pad)
		switch s.Op {
		case SVar:
			if s.E == nil {
				fmt.Fprintf(sb, "VAR @%s;\n", s.Name)
			} else {
				fmt.Fprintf(sb, "VAR @%s := %s;\n", s.Name, s.E.SQL())
			}
		case SSet:
			fmt.Fprintf(sb, "@%s := %s;\n", s.Name, s.E.SQL())
		case SPrint:
			fmt.Fprintf(sb, "PRINT %s;\n", s.E.SQL())
		case SDispVar:
			fmt.Fprintf(sb, "DISPOSE @%s;\n", s.Name)
		case SCur:
			if s.E != nil {
				fmt.Fprintf(sb, "DECLARE %s CURSOR FOR SELECT %s FROM m;\n", s.Name, s.E.SQL())
			} else {
				parts := make([]string, len(s.Rows))
				for i, r := range s.Rows {
					parts[i] = "SELECT " + C(r).SQL()
				}
				fmt.Fprintf(sb, "DECLARE %s CURSOR FOR %s;\n", s.Name, strings.Join(parts, " UNION ALL "))
			}
		case SOpen:
			fmt.Fprintf(sb, "OPEN %s;\n", s.Name)
		case SClose:
			fmt.Fprintf(sb, "CLOSE %s;\n", s.Name)
		case SFetch:
			fmt.Fprintf(sb, "FETCH %s INTO @%s;\n", s.Name, s.Into)
		case SDispCur:
			fmt.Fprintf(sb, "DISPOSE CURSOR %s;\n", s.Name)
		case SView:
			fmt.Fprintf(sb, "DECLARE %s VIEW (x) AS SELECT %s;\n", s.Name, s.E.SQL())
		case SUpd:
			fmt.Fprintf(sb, "UPDATE %s SET x = %s;\n", s.Name, s.E.SQL())
		case SDispView:
			fmt.Fprintf(sb, "DISPOSE VIEW %s;\n", s.Name)
		case SFunc:
			fmt.Fprintf(sb, "DECLARE %s FUNCTION (%s) AS BEGIN\n", s.Name, vars(s.Params))
			render(sb, s.Body, ind+1)
			sb.WriteString(pad + "END;\n")
		case SAgg:
			fmt.Fprintf(sb, "DECLARE %s AGGREGATE (%s) AS BEGIN\n", s.Name, s.Into)
			render(sb, s.Body, ind+1)
			sb.WriteString(pad + "END;\n")
		case SDispFunc:
			fmt.Fprintf(sb, "DISPOSE FUNCTION %s;\n", s.Name)
		case SIf:
			for i, b := range s.Br {
				if i == 0 {
					fmt.Fprintf(sb, "IF %s THEN\n", b.Cond.SQL())
				} else {
					fmt.Fprintf(sb, "%sELSEIF %s THEN\n", pad, b.Cond.SQL())
				}
				render(sb, b.Body, ind+1)
			}
			if s.HasElse {
				sb.WriteString(pad + "ELSE\n")
				render(sb, s.Else, ind+1)
			}
			sb.WriteString(pad + "END IF;\n")
		case SCase:
			if s.E != nil {
				fmt.Fprintf(sb, "CASE %s\n", s.E.SQL())
			} else {
				sb.WriteString("CASE\n")
			}
			for _, b := range s.Br {
				fmt.Fprintf(sb, "%sWHEN %s THEN\n", pad, b.Cond.SQL())
				render(sb, b.Body, ind+1)
			}
			if s.HasElse {
				sb.WriteString(pad + "ELSE\n")
				render(sb, s.Else, ind+1)
			}
			sb.WriteString(pad + "END CASE;\n")
		case SWhile:
			fmt.Fprintf(sb, "WHILE %s DO\n", s.E.SQL())
			render(sb, s.Body, ind+1)
			sb.WriteString(pad + "END WHILE;\n")
		case SWhileIn:
			d := ""
			if s.Decl {
				d = "VAR "
			}
			fmt.Fprintf(sb, "WHILE %s%s IN %s DO\n", d, vars(s.Vars), s.Name)
			render(sb, s.Body, ind+1)
			sb.WriteString(pad + "END WHILE;\n")
		case SBreak:
			sb.WriteString("BREAK;\n")
		case SContinue:
			sb.WriteString("CONTINUE;\n")
		case SExit:
			sb.WriteString("EXIT;\n")
		case SReturn:
			if s.E == nil {
				sb.WriteString("RETURN;\n")
			} else {
				fmt.Fprintf(sb, "RETURN %s;\n", s.E.SQL())
			}
		case SSelect:
			fmt.Fprintf(sb, "SELECT %s FROM m;\n", s.E.SQL())
		default:
			panic("scopemodel: bad statement op " + s.Op)
		}
	}
}
