// Package curmodel is the reference model of csvq cursors for property C16,
// written from docs/_posts/2006-01-02-cursor.md, 2006-01-02-control-flow.md
// (WHILE IN), 2006-01-02-temporary-table.md / transaction.md (COMMIT, ROLLBACK)
// and the text of the property.  It shares no code with lib/query/cursor.go.
//
// A cursor is: undeclared | declared and closed | open with (snapshot, pointer,
// "a fetch has happened").  The snapshot is the list of rows the cursor's query
// yields on the table as it is at OPEN; nothing that happens to the table later
// touches it.  The pointer lives in [-1, len(snapshot)]: -1 is "before the first
// record" (where OPEN puts it), len is "after the last record".
package curmodel

import (
	"math/big"
	"strconv"
	"strings"

	"verif/harness/internal/rv"
)

type Row []rv.V

func (r Row) Key() string {
	var sb strings.Builder
	sb.WriteByte('(')
	for i, c := range r {
		if i > 0 {
			sb.WriteByte(',')
		}
		sb.WriteString(c.Key())
	}
	sb.WriteByte(')')
	return sb.String()
}

func RowsKey(rs []Row) string {
	var sb strings.Builder
	for _, r := range rs {
		sb.WriteString(r.Key())
	}
	return sb.String()
}

func SameRow(a, b Row) bool {
	if len(a) != len(b) {
		return false
	}
	for i := range a {
		if !rv.SameValue(a[i], b[i]) {
			return false
		}
	}
	return true
}

func SameRows(a, b []Row) bool {
	if len(a) != len(b) {
		return false
	}
	for i := range a {
		if !SameRow(a[i], b[i]) {
			return false
		}
	}
	return true
}

type ErrKind int

const (
	NoErr ErrKind = iota
	ErrUndeclared
	ErrClosed
	ErrAlreadyOpen
	ErrRedeclared
)

func (e ErrKind) String() string {
	return [...]string{"no error", "undeclared-cursor error", "cursor-closed error", "cursor-already-open error", "cursor-redeclared error"}[e]
}

type OpKind int

const (
	Declare OpKind = iota
	Open
	Close
	Dispose
	FetchBare // FETCH cur INTO ...  (no position keyword: NEXT)
	FetchNext
	FetchPrior
	FetchFirst
	FetchLast
	FetchAbs
	FetchRel
	IsOpen
	IsNotOpen
	InRange
	NotInRange
	Count
	WhileAll    // WHILE @a, @b IN cur DO log END WHILE
	WhileVarDML // WHILE VAR @x, @y IN cur DO log; UPDATE underlying table row END WHILE
	WhileBreak  // WHILE @a, @b IN cur DO log; BREAK END WHILE
	Update
	Insert
	DeleteOne
	DeleteAll
	Replace
	Commit
	Rollback
	nKinds
)

var kindNames = [...]string{"DECLARE", "OPEN", "CLOSE", "DISPOSE", "FETCH", "FETCH NEXT", "FETCH PRIOR", "FETCH FIRST", "FETCH LAST",
	"FETCH ABSOLUTE", "FETCH RELATIVE", "IS OPEN", "IS NOT OPEN", "IS IN RANGE", "IS NOT IN RANGE", "COUNT",
	"WHILE IN", "WHILE VAR IN +UPDATE", "WHILE IN +BREAK", "UPDATE", "INSERT", "DELETE one", "DELETE all", "REPLACE", "COMMIT", "ROLLBACK"}

func (k OpKind) String() string { return kindNames[k] }

type Op struct {
	K OpKind `json:"k"`
	N int64  `json:"n,omitempty"`
}

func (o Op) String() string {
	if o.K == FetchAbs || o.K == FetchRel {
		return o.K.String() + " " + strconv.FormatInt(o.N, 10)
	}
	return o.K.String()
}

func (o Op) IsFetch() bool { return o.K >= FetchBare && o.K <= FetchRel }
func (o Op) IsWhile() bool { return o.K >= WhileAll && o.K <= WhileBreak }
func (o Op) IsProbe() bool { return o.K >= IsOpen && o.K <= Count }
func (o Op) IsData() bool  { return o.K >= Update && o.K <= Rollback }

// Query is the cursor's select query: rows whose id is <> Exclude (when set), optionally with the
// two columns swapped.  (WHERE keeps the rows for which the condition is TRUE.)
type Query struct {
	Exclude *rv.V
	Swap    bool
}

func (q Query) Eval(table []Row) []Row {
	out := []Row{}
	for _, r := range table {
		if q.Exclude != nil && rv.Op(r[0], *q.Exclude, "<>") != rv.T {
			continue
		}
		if q.Swap {
			out = append(out, Row{r[1], r[0]})
		} else {
			out = append(out, Row{r[0], r[1]})
		}
	}
	return out
}

// Cfg fixes the cursor's query and the constants of the data-changing statements.
type Cfg struct {
	Q      Query
	UpdV   rv.V // UPDATE tbl SET v = UpdV
	Ins    Row  // INSERT INTO tbl (id, v) VALUES Ins
	DelID  rv.V // DELETE FROM tbl WHERE id = DelID
	Rep    Row  // REPLACE INTO tbl (id, v) USING (id) VALUES Rep
	WhileV rv.V // loop body: UPDATE tbl SET v = WhileV WHERE id = <fetched id>
}

type State struct {
	Table     []Row
	Committed []Row
	Declared  bool
	IsOpen    bool
	Snap      []Row
	Index     int
	Fetched   bool
}

func (s State) Key() string {
	var sb strings.Builder
	sb.WriteString("T")
	sb.WriteString(RowsKey(s.Table))
	sb.WriteString("|C")
	sb.WriteString(RowsKey(s.Committed))
	switch {
	case !s.Declared:
		sb.WriteString("|undeclared")
	case !s.IsOpen:
		sb.WriteString("|closed")
	default:
		sb.WriteString("|open")
		sb.WriteString(RowsKey(s.Snap))
		sb.WriteString("@")
		sb.WriteString(strconv.Itoa(s.Index))
		if s.Fetched {
			sb.WriteString("f")
		}
	}
	return sb.String()
}

// Class names the situation of the cursor (used in violation signatures, free of data values).
func (s State) Class() string {
	switch {
	case !s.Declared:
		return "undeclared"
	case !s.IsOpen:
		return "closed"
	case !s.Fetched:
		return "open-unfetched"
	case s.Index < 0:
		return "open-before-first"
	case s.Index >= len(s.Snap):
		return "open-after-last"
	}
	return "open-in-range"
}

type Outcome struct {
	Err      ErrKind
	HasFetch bool // a FETCH was executed without error
	Row      Row  // the record fetched; nil: the addressed record does not exist (variables become NULL)
	HasTern  bool
	Tern     int
	HasCount bool
	Count    int
	HasLoop  bool
	Visited  []Row // rows the WHILE IN body saw, in order
}

func cursorErr(s State, needOpen bool) ErrKind {
	if !s.Declared {
		return ErrUndeclared
	}
	if needOpen && !s.IsOpen {
		return ErrClosed
	}
	return NoErr
}

// target computes the addressed position with unbounded integers, then clamps it.
func target(s State, op Op) int {
	n := len(s.Snap)
	t := new(big.Int)
	switch op.K {
	case FetchBare, FetchNext:
		t.SetInt64(int64(s.Index) + 1)
	case FetchPrior:
		t.SetInt64(int64(s.Index) - 1)
	case FetchFirst:
		t.SetInt64(0)
	case FetchLast:
		t.SetInt64(int64(n) - 1)
	case FetchAbs:
		t.SetInt64(op.N)
	case FetchRel:
		t.Add(big.NewInt(int64(s.Index)), big.NewInt(op.N))
	}
	if t.Sign() < 0 {
		return -1
	}
	if t.Cmp(big.NewInt(int64(n))) >= 0 {
		return n
	}
	return int(t.Int64())
}

func fetch(s *State, op Op) Row {
	s.Index = target(*s, op)
	s.Fetched = true
	if s.Index >= 0 && s.Index < len(s.Snap) {
		return s.Snap[s.Index]
	}
	return nil
}

func tern(b bool) int {
	if b {
		return rv.T
	}
	return rv.F
}

// Apply is the transition function.  The state is a value; row slices are never modified in place.
func Apply(s State, op Op, cfg *Cfg) (State, Outcome) {
	var o Outcome
	switch op.K {
	case Declare:
		if s.Declared {
			o.Err = ErrRedeclared // the manual is silent; csvq refuses and keeps the existing cursor
			return s, o
		}
		s.Declared, s.IsOpen, s.Snap, s.Index, s.Fetched = true, false, nil, 0, false
	case Open:
		if o.Err = cursorErr(s, false); o.Err != NoErr {
			return s, o
		}
		if s.IsOpen {
			o.Err = ErrAlreadyOpen
			return s, o
		}
		s.IsOpen, s.Snap, s.Index, s.Fetched = true, cfg.Q.Eval(s.Table), -1, false
	case Close:
		if o.Err = cursorErr(s, false); o.Err != NoErr {
			return s, o
		}
		// closing a closed cursor: the manual is silent, csvq accepts it silently
		s.IsOpen, s.Snap, s.Index, s.Fetched = false, nil, 0, false
	case Dispose:
		if o.Err = cursorErr(s, false); o.Err != NoErr {
			return s, o
		}
		s.Declared, s.IsOpen, s.Snap, s.Index, s.Fetched = false, false, nil, 0, false
	case FetchBare, FetchNext, FetchPrior, FetchFirst, FetchLast, FetchAbs, FetchRel:
		if o.Err = cursorErr(s, true); o.Err != NoErr {
			return s, o
		}
		o.HasFetch = true
		o.Row = fetch(&s, op)
	case IsOpen, IsNotOpen:
		if o.Err = cursorErr(s, false); o.Err != NoErr {
			return s, o
		}
		o.HasTern, o.Tern = true, tern(s.IsOpen)
		if op.K == IsNotOpen {
			o.Tern = rv.Not(o.Tern)
		}
	case InRange, NotInRange:
		if o.Err = cursorErr(s, true); o.Err != NoErr {
			return s, o
		}
		o.HasTern = true
		if !s.Fetched {
			o.Tern = rv.U
		} else {
			o.Tern = tern(s.Index >= 0 && s.Index < len(s.Snap))
		}
		if op.K == NotInRange {
			o.Tern = rv.Not(o.Tern)
		}
	case Count:
		if o.Err = cursorErr(s, true); o.Err != NoErr {
			return s, o
		}
		o.HasCount, o.Count = true, len(s.Snap)
	case WhileAll, WhileVarDML, WhileBreak:
		if o.Err = cursorErr(s, true); o.Err != NoErr {
			return s, o
		}
		o.HasLoop = true
		o.Visited = []Row{}
		for {
			r := fetch(&s, Op{K: FetchNext})
			if r == nil {
				break
			}
			o.Visited = append(o.Visited, r)
			if op.K == WhileVarDML {
				id := r[0]
				if cfg.Q.Swap {
					id = r[1]
				}
				s.Table = mapRows(s.Table, func(x Row) Row {
					if rv.Op(x[0], id, "=") == rv.T {
						return Row{x[0], cfg.WhileV}
					}
					return x
				})
			}
			if op.K == WhileBreak {
				break
			}
		}
	case Update:
		s.Table = mapRows(s.Table, func(x Row) Row { return Row{x[0], cfg.UpdV} })
	case Insert:
		s.Table = append(append([]Row{}, s.Table...), cfg.Ins)
	case DeleteOne:
		t := []Row{}
		for _, x := range s.Table {
			if rv.Op(x[0], cfg.DelID, "=") != rv.T {
				t = append(t, x)
			}
		}
		s.Table = t
	case DeleteAll:
		s.Table = []Row{}
	case Replace:
		hit := false
		t := mapRows(s.Table, func(x Row) Row {
			if rv.Op(x[0], cfg.Rep[0], "=") == rv.T {
				hit = true
				return Row{x[0], cfg.Rep[1]}
			}
			return x
		})
		if !hit {
			t = append(t, cfg.Rep)
		}
		s.Table = t
	case Commit:
		s.Committed = s.Table
	case Rollback:
		s.Table = s.Committed
	}
	return s, o
}

func mapRows(rs []Row, f func(Row) Row) []Row {
	out := make([]Row, len(rs))
	for i, r := range rs {
		out[i] = f(r)
	}
	return out
}
