// Package dml is the reference model of csvq's data-changing statements
// (INSERT, UPDATE, DELETE, REPLACE, ALTER TABLE ADD/DROP/RENAME, single- and
// multi-table forms) over a handful of small tables, written from the manual
// pages docs/_posts/*insert-query*, *update-query*, *delete-query*,
// *replace-query*, *alter-table-query*, *create-table-query*, *temporary-table*
// and the text of properties C05/C08. A table is a list of column names and a
// list of rows; nothing of lib/query is used. Values and operators come from
// the value model internal/rv (itself validated against csvq by C06).
package dml

import (
	"errors"
	"fmt"
	"strconv"
	"strings"

	"verif/harness/internal/rv"
)

type TabKind int

const (
	File TabKind = iota
	Temp
	Stdin
)

func (k TabKind) String() string { return [...]string{"file", "temp", "stdin"}[k] }

type Table struct {
	Name string // the name used in SQL: t, u, tmp, STDIN
	Kind TabKind
	Cols []string
	Rows [][]rv.V
}

func (t *Table) Clone() *Table {
	n := &Table{Name: t.Name, Kind: t.Kind, Cols: append([]string(nil), t.Cols...), Rows: make([][]rv.V, len(t.Rows))}
	for i, r := range t.Rows {
		n.Rows[i] = append([]rv.V(nil), r...)
	}
	return n
}

func (t *Table) ColIndex(name string) int {
	for i, c := range t.Cols {
		if strings.EqualFold(c, name) {
			return i
		}
	}
	return -1
}

// FileName of a file-backed table inside the repository directory.
func (t *Table) FileName() string { return t.Name + ".csv" }

// LogName is the name csvq prints in its log lines (base name for files).
func (t *Table) LogName() string {
	if t.Kind == File {
		return t.FileName()
	}
	return t.Name
}

func (t *Table) Key() string {
	var sb strings.Builder
	sb.WriteString(t.Name)
	sb.WriteByte('(')
	sb.WriteString(strings.Join(t.Cols, ","))
	sb.WriteByte(')')
	for _, r := range t.Rows {
		sb.WriteByte('[')
		for i, c := range r {
			if i > 0 {
				sb.WriteByte('|')
			}
			sb.WriteString(c.Key())
		}
		sb.WriteByte(']')
	}
	return sb.String()
}

// CSV renders the table the way a committed CSV file must look (LF line breaks, header line, NULL = empty field).
// The alphabets keep texts free of delimiters, quotes and line breaks, so no quoting rule is involved.
func (t *Table) CSV() string {
	var sb strings.Builder
	sb.WriteString(strings.Join(t.Cols, ","))
	sb.WriteByte('\n')
	for _, r := range t.Rows {
		for i, c := range r {
			if i > 0 {
				sb.WriteByte(',')
			}
			switch c.K {
			case rv.Null:
			case rv.Int:
				sb.WriteString(strconv.FormatInt(c.I, 10))
			case rv.Str:
				sb.WriteString(c.S)
			default:
				sb.WriteString("<" + c.Key() + ">")
			}
		}
		sb.WriteByte('\n')
	}
	return sb.String()
}

type State struct {
	Tabs []*Table // fixed order
}

func (s *State) Clone() *State {
	n := &State{Tabs: make([]*Table, len(s.Tabs))}
	for i, t := range s.Tabs {
		n.Tabs[i] = t.Clone()
	}
	return n
}

func (s *State) Tab(name string) *Table {
	for _, t := range s.Tabs {
		if strings.EqualFold(t.Name, name) {
			return t
		}
	}
	return nil
}

func (s *State) Key() string {
	parts := make([]string, len(s.Tabs))
	for i, t := range s.Tabs {
		parts[i] = t.Key()
	}
	return strings.Join(parts, ";")
}

// ---- expressions ---------------------------------------------------------------------------------

type Expr interface{ SQL() string }

type Col struct{ Tab, Name string }
type Lit struct{ V rv.V }
type Arith struct {
	Op   byte
	L, R Expr
}
type Cmp struct {
	Op   string
	L, R Expr
}
type Logic struct {
	Op   string // AND, OR
	L, R Expr
}
type Not struct{ X Expr }
type IsNull struct {
	X   Expr
	Neg bool
}
type In struct {
	X    Expr
	List []Expr
}
type InSub struct { // X IN (SELECT Col FROM Tab)
	X        Expr
	Tab, Col string
}
type ScalarSub struct { // (SELECT Col FROM Tab [WHERE WCol = 'WVal'])
	Tab, Col   string
	WCol, WVal string
}

func (e Col) SQL() string {
	if e.Tab != "" {
		return e.Tab + "." + e.Name
	}
	return e.Name
}
func (e Lit) SQL() string {
	s, ok := e.V.SQL()
	if !ok {
		panic("no literal for " + e.V.Key())
	}
	return s
}
func (e Arith) SQL() string { return "(" + e.L.SQL() + " " + string(e.Op) + " " + e.R.SQL() + ")" }
func (e Cmp) SQL() string   { return e.L.SQL() + " " + e.Op + " " + e.R.SQL() }
func (e Logic) SQL() string { return "(" + e.L.SQL() + " " + e.Op + " " + e.R.SQL() + ")" }
func (e Not) SQL() string   { return "NOT (" + e.X.SQL() + ")" }
func (e IsNull) SQL() string {
	if e.Neg {
		return e.X.SQL() + " IS NOT NULL"
	}
	return e.X.SQL() + " IS NULL"
}
func (e In) SQL() string {
	p := make([]string, len(e.List))
	for i, x := range e.List {
		p[i] = x.SQL()
	}
	return e.X.SQL() + " IN (" + strings.Join(p, ", ") + ")"
}
func (e InSub) SQL() string { return e.X.SQL() + " IN (SELECT " + e.Col + " FROM " + e.Tab + ")" }
func (e ScalarSub) SQL() string {
	if e.WCol != "" {
		return "(SELECT " + e.Col + " FROM " + e.Tab + " WHERE " + e.WCol + " = '" + e.WVal + "')"
	}
	return "(SELECT " + e.Col + " FROM " + e.Tab + ")"
}

// constructors used by the alphabets
func C(name string) Expr       { return Col{Name: name} }
func QC(tab, name string) Expr { return Col{Tab: tab, Name: name} }
func LI(i int64) Expr          { return Lit{rv.I(i)} }
func LS(s string) Expr         { return Lit{rv.S(s)} }
func LNull() Expr              { return Lit{rv.N()} }

var (
	ErrUnknownField   = errors.New("unknown field")
	ErrAmbiguousField = errors.New("ambiguous field")
	ErrDivZero        = errors.New("integer division by zero")
	ErrSubqueryMany   = errors.New("sub-query returns more than one record")
	ErrRowLength      = errors.New("wrong number of values in a row")
	ErrAmbiguousSet   = errors.New("a field of one record is set more than once")
	ErrNotTarget      = errors.New("field to set does not belong to a table to update")
	ErrDuplicateField = errors.New("duplicate field name")
	ErrKeyNotSet      = errors.New("replace key is not in the field list")
	ErrUnknownTable   = errors.New("unknown table")
	ErrRefused        = errors.New("statement refused whatever the tables hold")
)

type binding struct {
	alias string
	tab   *Table
	row   []rv.V
}

type scope struct {
	st   *State
	b    []binding
	lazy bool // see errLazy
}

func (sc *scope) resolve(c Col) (bi, ci int, err error) {
	bi, ci = -1, -1
	for i, b := range sc.b {
		if c.Tab != "" && !strings.EqualFold(c.Tab, b.alias) {
			continue
		}
		if x := b.tab.ColIndex(c.Name); x >= 0 {
			if bi >= 0 {
				return -1, -1, ErrAmbiguousField
			}
			bi, ci = i, x
		}
	}
	if bi < 0 {
		return -1, -1, ErrUnknownField
	}
	return bi, ci, nil
}

func (sc *scope) eval(e Expr) (rv.V, error) {
	switch x := e.(type) {
	case Col:
		bi, ci, err := sc.resolve(x)
		if err != nil {
			return rv.N(), err
		}
		return sc.b[bi].row[ci], nil
	case Lit:
		return x.V, nil
	case Arith:
		l, err := sc.eval(x.L)
		if err != nil {
			return rv.N(), err
		}
		r, err := sc.eval(x.R)
		if err != nil {
			if l.K == rv.Null { // the result is NULL whatever the right operand is: see Logic
				sc.lazy = true
				return rv.N(), nil
			}
			return rv.N(), err
		}
		res := rv.Arith(l, r, x.Op)
		if res.Err {
			return rv.N(), ErrDivZero
		}
		return res.V, nil
	case Cmp:
		l, err := sc.eval(x.L)
		if err != nil {
			return rv.N(), err
		}
		r, err := sc.eval(x.R)
		if err != nil {
			if l.K == rv.Null { // UNKNOWN whatever the right operand is (csvq does not evaluate it): see Logic
				sc.lazy = true
				return rv.Tv(rv.U), nil
			}
			return rv.N(), err
		}
		return rv.Tv(rv.Op(l, r, x.Op)), nil
	case Logic:
		l, err := sc.eval(x.L)
		if err != nil {
			return rv.N(), err
		}
		r, err := sc.eval(x.R)
		if err != nil {
			// the left operand alone decides the result: the manual does not say whether the right one is still
			// evaluated (csvq skips it), so an error there may or may not surface
			if x.Op == "AND" && l.Tern3() == rv.F {
				sc.lazy = true
				return rv.Tv(rv.F), nil
			}
			if x.Op == "OR" && l.Tern3() == rv.T {
				sc.lazy = true
				return rv.Tv(rv.T), nil
			}
			return rv.N(), err
		}
		if x.Op == "AND" {
			return rv.Tv(rv.And(l.Tern3(), r.Tern3())), nil
		}
		return rv.Tv(rv.Or(l.Tern3(), r.Tern3())), nil
	case Not:
		v, err := sc.eval(x.X)
		if err != nil {
			return rv.N(), err
		}
		return rv.Tv(rv.Not(v.Tern3())), nil
	case IsNull:
		v, err := sc.eval(x.X)
		if err != nil {
			return rv.N(), err
		}
		is := v.K == rv.Null
		if is != x.Neg {
			return rv.Tv(rv.T), nil
		}
		return rv.Tv(rv.F), nil
	case In:
		v, err := sc.eval(x.X)
		if err != nil {
			return rv.N(), err
		}
		r := rv.F
		for _, le := range x.List {
			w, err := sc.eval(le)
			if err != nil {
				return rv.N(), err
			}
			r = rv.Or(r, rv.Op(v, w, "="))
		}
		return rv.Tv(r), nil
	case InSub:
		v, err := sc.eval(x.X)
		if err != nil {
			return rv.N(), err
		}
		t := sc.st.Tab(x.Tab)
		if t == nil {
			return rv.N(), ErrUnknownTable
		}
		ci := t.ColIndex(x.Col)
		if ci < 0 {
			if len(t.Rows) == 0 {
				sc.lazy = true
				return rv.Tv(rv.F), nil
			}
			return rv.N(), ErrUnknownField
		}
		r := rv.F
		for _, row := range t.Rows {
			r = rv.Or(r, rv.Op(v, row[ci], "="))
		}
		return rv.Tv(r), nil
	case ScalarSub:
		t := sc.st.Tab(x.Tab)
		if t == nil {
			return rv.N(), ErrUnknownTable
		}
		ci := t.ColIndex(x.Col)
		if ci < 0 {
			if len(t.Rows) == 0 {
				sc.lazy = true
				return rv.N(), nil
			}
			return rv.N(), ErrUnknownField
		}
		rows := t.Rows
		if x.WCol != "" {
			wi := t.ColIndex(x.WCol)
			if wi < 0 {
				if len(t.Rows) == 0 {
					sc.lazy = true
					return rv.N(), nil
				}
				return rv.N(), ErrUnknownField
			}
			rows = nil
			for _, r := range t.Rows {
				if rv.Equivalent(r[wi], rv.S(x.WVal)) {
					rows = append(rows, r)
				}
			}
		}
		if len(rows) > 1 {
			return rv.N(), ErrSubqueryMany
		}
		if len(rows) == 0 {
			return rv.N(), nil
		}
		return rows[0][ci], nil
	}
	panic(fmt.Sprintf("unknown expression %T", e))
}

// errLazy: a name in a part of the statement that is evaluated once per record cannot be resolved, but there was
// no record to evaluate it for. The manual does not say whether names are checked when no record is processed;
// csvq does not check them. Both answers (error / no error) are accepted.
var errLazy = errors.New("unresolvable name in a part evaluated for no record")

// static reports an unresolvable column in e when e is never evaluated.
func (sc *scope) static(e Expr) error {
	switch x := e.(type) {
	case nil:
		return nil
	case Col:
		_, _, err := sc.resolve(x)
		return err
	case Lit:
		return nil
	case Arith:
		if err := sc.static(x.L); err != nil {
			return err
		}
		return sc.static(x.R)
	case Cmp:
		if err := sc.static(x.L); err != nil {
			return err
		}
		return sc.static(x.R)
	case Logic:
		if err := sc.static(x.L); err != nil {
			return err
		}
		return sc.static(x.R)
	case Not:
		return sc.static(x.X)
	case IsNull:
		return sc.static(x.X)
	case In:
		if err := sc.static(x.X); err != nil {
			return err
		}
		for _, l := range x.List {
			if err := sc.static(l); err != nil {
				return err
			}
		}
		return nil
	case InSub:
		if err := sc.static(x.X); err != nil {
			return err
		}
		if t := sc.st.Tab(x.Tab); t == nil || t.ColIndex(x.Col) < 0 {
			return ErrUnknownField
		}
		return nil
	case ScalarSub:
		if t := sc.st.Tab(x.Tab); t == nil || t.ColIndex(x.Col) < 0 {
			return ErrUnknownField
		}
		return nil
	}
	panic(fmt.Sprintf("unknown expression %T", e))
}

func isTrue(v rv.V) bool { return v.Tern3() == rv.T }

// ---- outcomes ------------------------------------------------------------------------------------

type OutKind int

const (
	OK          OutKind = iota // the statement succeeds, Next is the table state after it
	Fail                       // the statement must return an error and change nothing
	MayFail                    // error-and-nothing-changed and success-with-Next are both acceptable (errLazy)
	Unspecified                // the manual's wording has two readings that differ here: nothing is compared
)

func (k OutKind) String() string { return [...]string{"ok", "fail", "may-fail", "unspecified"}[k] }

type LogLine struct {
	N     int
	Unit  string // record | field
	Verb  string // inserted updated deleted replaced added dropped renamed
	Table string // log name
}

func (l LogLine) String() string { return fmt.Sprintf("%d %s %s on %s", l.N, l.Unit, l.Verb, l.Table) }

type Outcome struct {
	Kind        OutKind
	Next        *State
	Alt         []*State // further acceptable results (both readings of a rule); non-empty => not expanded by the search
	Logs        []LogLine
	Affected    int
	AffectedAlt int  // a second acceptable count (-1: none): REPLACE with several new rows for one record may count records or rows
	HasAffected bool // statements that report a record count
	TailTable   string
	Tail        int   // REPLACE appended this many rows at the end of TailTable
	Why         error // reason of Fail / MayFail
	Note        string
}

func fail(err error) Outcome { return Outcome{Kind: Fail, Why: err} }
